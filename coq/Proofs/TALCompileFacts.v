(* Facts about the compiler model Model/TALCompile.v:
   - the per-element command order is a sort (priority order),
   - TAL/METAL-free event streams compile to the single OUTPUT of their serialisation,
   - witnesses for the pinned variants (text keyword, CDATA escaping, unclosed TAL element). *)
From Coq Require Import Lia Sorted Permutation String PeanoNat.
From PG Require Import Lib.Str Lib.StrFacts Lib.HtmlEsc Model.TALProg Model.TALCompile.
Local Open Scope N_scope.

(* ---- list.sort() ---- *)
Lemma insert_nat_perm x l : Permutation (x :: l) (insert_nat x l).
Proof.
  induction l as [|y r IH]; simpl; [apply Permutation_refl|].
  destruct (Nat.leb x y); [apply Permutation_refl|].
  eapply perm_trans; [apply perm_swap|]. now apply perm_skip.
Qed.

Lemma sort_nat_perm l : Permutation l (sort_nat l).
Proof.
  induction l as [|x r IH]; simpl; [constructor|].
  eapply perm_trans; [apply perm_skip, IH | apply insert_nat_perm].
Qed.

Lemma insert_nat_sorted x l : LocallySorted le l -> LocallySorted le (insert_nat x l).
Proof.
  induction l as [|y r IH]; intros H; simpl; [constructor|].
  destruct (Nat.leb x y) eqn:E.
  - apply Nat.leb_le in E. now constructor.
  - apply Nat.leb_gt in E. inversion H; subst; simpl.
    + constructor; [constructor | lia].
    + simpl in IH. specialize (IH H2). destruct (Nat.leb x b) eqn:E2.
      * constructor; [exact IH | lia].
      * constructor; [exact IH | exact H3].
Qed.

Lemma sort_nat_sorted l : LocallySorted le (sort_nat l).
Proof. induction l as [|x r IH]; simpl; [constructor | now apply insert_nat_sorted]. Qed.

(* ---- pass-through of documents without TAL / METAL ---- *)
Definition acc_text (acc : option str) : str := match acc with Some t => t | None => [] end.
Definition acc_cmds (acc : option str) : list cmd := match acc with Some t => [COutput t] | None => [] end.

Record PInv (acc : option str) (s : cstate) : Prop := mkPInv {
  pi_cmds : cs_rcmds s = acc_cmds acc;
  pi_syms : cs_syms s = [];
  pi_macros : cs_macros s = [];
  pi_stack : Forall (fun t => te_sym t = None /\ te_macro t = None) (cs_stack s)
}.

Lemma add_output_inv acc s x : PInv acc s -> PInv (Some (acc_text acc ++ x)) (add_command (COutput x) s).
Proof.
  intros [C S M T]. unfold add_command. rewrite C. destruct acc as [t|]; simpl; constructor; simpl; auto.
Qed.

Lemma scan_plain v : forall a o c,
  forallb plain_att a = true ->
  exists o', scan_atts v false [] a (mkScan o [] [] [] c) = COk (mkScan o' [] [] [] (c ++ a)).
Proof.
  induction a as [|[att value] r IH]; intros o c H; simpl in H.
  - exists o. simpl. now rewrite app_nil_r.
  - apply andb_true_iff in H. destruct H as [Hp Hr]. unfold plain_att in Hp. cbn [fst snd] in Hp.
    apply andb_true_iff in Hp. destruct Hp as [Hp Hm]. apply andb_true_iff in Hp. destruct Hp as [Hx Ht].
    destruct (assoc_str att tal_attribute_map) eqn:Et; [discriminate Ht|].
    destruct (assoc_str att metal_attribute_map) eqn:Em; [discriminate Hm|].
    destruct (IH (dict_set_str att value o) (c ++ [(att, value)]) Hr) as [o' E].
    exists o'. cbn [scan_atts sc_orig sc_tal sc_metal sc_args sc_clean negb andb app]. rewrite Et, Em.
    destruct (str_eqb (firstn 5 att) (lit "xmlns"%string)) eqn:Ex.
    + cbn [andb] in Hx. apply negb_true_iff in Hx. rewrite Hx. rewrite E. now rewrite <- app_assoc.
    + rewrite E. now rewrite <- app_assoc.
Qed.

Lemma parse_start_plain v tag a acc s :
  plain_tag tag = true -> forallb plain_att a = true -> PInv acc s ->
  exists s', parse_start_tag v tag a s = COk s' /\
             PInv (Some (acc_text acc ++ tag_as_text tag a)) s' /\
             cs_stack s' = mkTag tag None None :: cs_stack s.
Proof.
  intros Ht Ha I. destruct (scan_plain v a [] [] Ha) as [o' E].
  assert (F : parse_start_tag v tag a s = COk (add_tag tag a [] None None s)).
  { unfold parse_start_tag. unfold plain_tag in Ht.
    assert (Hd : forall sc0, sc_args sc0 = [] -> (v_dup v && has_arg OP_CONTENT sc0 && has_arg OP_REPLACE sc0) = false).
    { intros sc0 H0. unfold has_arg. rewrite H0. simpl. now rewrite !andb_false_r. }
    destruct (find_colon tag) as [[|k]|]; cbv zeta.
    - rewrite E. rewrite Hd by reflexivity. reflexivity.
    - apply negb_true_iff, orb_false_iff in Ht. destruct Ht as [H1 H2]. rewrite H1, H2. rewrite E.
      rewrite Hd by reflexivity. reflexivity.
    - rewrite E. rewrite Hd by reflexivity. reflexivity. }
  rewrite F.
  eexists. split; [reflexivity|]. split.
  - unfold add_tag. destruct (add_output_inv acc (push_tag (mkTag tag None None) s) (tag_as_text tag a)) as [C S M T].
    + destruct I as [C S M T]. constructor; simpl; auto.
    + constructor; auto.
  - unfold add_tag, add_command, push_tag. simpl. destruct (cs_rcmds s) as [|[] ?]; reflexivity.
Qed.

Lemma COk_inj {A} (a b : A) : COk a = COk b -> a = b.
Proof. intros H. now inversion H. Qed.

Lemma pop_tag_loop_cons tag omit t rest s :
  pop_tag_loop tag omit (t :: rest) s =
  let s1 := mkCS (cs_rcmds s) rest (cs_syms s) (cs_macros s) (cs_sym s) in
  if str_eqb (te_tag t) tag then
    match te_sym t with
    | Some sy => COk (add_command (CEndTagEndScope tag omit false)
                        (mkCS (cs_rcmds s1) rest (dict_set_nat sy (ncmds s1) (cs_syms s1)) (cs_macros s1) (cs_sym s1)))
    | None => if omit then COk s1 else COk (add_command (COutput (end_tag_text tag)) s1)
    end
  else match te_sym t with Some _ => CErr | None => pop_tag_loop tag omit rest s1 end.
Proof. reflexivity. Qed.

Lemma pop_tag_loop_plain tag omit : forall stack s acc,
  Forall (fun t => te_sym t = None /\ te_macro t = None) stack -> PInv acc s ->
  forall s', pop_tag_loop tag omit stack s = COk s' ->
    PInv (if omit then acc else Some (acc_text acc ++ end_tag_text tag)) s'.
Proof.
  induction stack as [|t rest IH]; intros s acc F I s' H; [discriminate|].
  rewrite pop_tag_loop_cons in H. cbv zeta in H.
  inversion F as [|? ? [Hs Hm] Fr]; subst.
  assert (I1 : PInv acc (mkCS (cs_rcmds s) rest (cs_syms s) (cs_macros s) (cs_sym s))).
  { destruct I as [C S M T]. constructor; simpl; auto. }
  rewrite Hs in H. destruct (str_eqb (te_tag t) tag).
  - destruct omit.
    + apply COk_inj in H. subst s'. exact I1.
    + apply COk_inj in H. subst s'. now apply add_output_inv.
  - eapply IH; eauto.
Qed.

Lemma handle_event_plain v ev acc s s' :
  tal_free_event ev = true -> PInv acc s -> handle_event v ev s = COk s' ->
  exists acc', PInv acc' s' /\ acc_text acc' = acc_text acc ++ event_text v ev /\ (acc <> None -> acc' <> None).
Proof.
  intros Hf I H. destruct ev as [tag a|tag a|tag|d cd|d|d|d]; simpl in *.
  - (* start tag *)
    apply andb_true_iff in Hf. destruct Hf as [Ht Ha].
    unfold handle_starttag in H.
    destruct (parse_start_plain v tag (norm_atts a) acc s Ht Ha I) as (s1 & E & I1 & St). rewrite E in H.
    destruct (forbidden_endtag tag).
    + unfold pop_tag in H. rewrite St in H. simpl in H. rewrite str_eqb_refl in H. inversion H; subst.
      exists (Some (acc_text acc ++ tag_as_text tag (norm_atts a))). split; [|split; [reflexivity | discriminate]].
      destruct I1 as [C S M T]. rewrite St in T. inversion T; subst. constructor; simpl; auto.
    + inversion H; subst. eexists. split; [exact I1 | split; [reflexivity | discriminate]].
  - (* <tag ... /> *)
    apply andb_true_iff in Hf. destruct Hf as [Ht Ha].
    unfold handle_starttag in H.
    destruct (parse_start_plain v tag (norm_atts a) acc s Ht Ha I) as (s1 & E & I1 & St). rewrite E in H.
    destruct (forbidden_endtag tag) eqn:Ef.
    + unfold pop_tag in H. rewrite St in H. simpl in H. rewrite str_eqb_refl in H. inversion H; subst.
      exists (Some (acc_text acc ++ tag_as_text tag (norm_atts a))). split; [|split; [simpl; now rewrite app_nil_r | discriminate]].
      destruct I1 as [C S M T]. rewrite St in T. inversion T; subst. constructor; simpl; auto.
    + unfold handle_endtag in H. rewrite Ef in H. unfold pop_tag in H.
      pose proof (pop_tag_loop_plain tag false (cs_stack s1) s1 _ (pi_stack _ _ I1) I1 s' H) as I2.
      eexists. split; [exact I2 | split; [simpl; now rewrite <- app_assoc | discriminate]].
  - (* end tag *)
    unfold handle_endtag in H. destruct (forbidden_endtag tag).
    + inversion H; subst. exists acc. split; [exact I | split; [now rewrite app_nil_r | auto]].
    + unfold pop_tag in H.
      pose proof (pop_tag_loop_plain tag false (cs_stack s) s _ (pi_stack _ _ I) I s' H) as I2.
      eexists. split; [exact I2 | split; [reflexivity | discriminate]].
  - inversion H; subst. eexists. split; [apply add_output_inv; exact I | split; [reflexivity | discriminate]].
  - inversion H; subst. eexists. split; [apply add_output_inv; exact I | split; [reflexivity | discriminate]].
  - inversion H; subst. eexists. split; [apply add_output_inv; exact I | split; [reflexivity | discriminate]].
  - inversion H; subst. eexists. split; [apply add_output_inv; exact I | split; [reflexivity | discriminate]].
Qed.

Lemma handle_events_plain v : forall es acc s s',
  forallb tal_free_event es = true -> PInv acc s -> handle_events v es s = COk s' ->
  exists acc', PInv acc' s' /\ acc_text acc' = acc_text acc ++ passthrough_text v es.
Proof.
  induction es as [|ev r IH]; intros acc s s' Hf I H; simpl in *.
  - inversion H; subst. exists acc. split; [exact I | now rewrite app_nil_r].
  - apply andb_true_iff in Hf. destruct Hf as [He Hr].
    destruct (handle_event v ev s) as [s1| |] eqn:E; try discriminate.
    destruct (handle_event_plain v ev acc s s1 He I E) as (acc1 & I1 & T1 & _).
    destruct (IH acc1 s1 s' Hr I1 H) as (acc2 & I2 & T2).
    exists acc2. split; [exact I2|]. unfold passthrough_text in *. simpl. rewrite T2, T1. now rewrite <- app_assoc.
Qed.

(* a template without TAL/METAL attributes compiles to nothing but its own serialisation *)
Theorem passthrough v es p t m :
  forallb tal_free_event es = true -> compile v es = COk (p, (t, m)) ->
  t = [] /\ m = [] /\ (p = [COutput (passthrough_text v es)] \/ (p = [] /\ passthrough_text v es = [])).
Proof.
  intros Hf H. unfold compile in H.
  destruct (handle_events v es cs0) as [s| |] eqn:E; try discriminate.
  assert (I0 : PInv None cs0) by (constructor; simpl; auto).
  destruct (handle_events_plain v es None cs0 s Hf I0 E) as (acc & [C S M T] & Tx). simpl in Tx.
  destruct (v_eof v && existsb _ (cs_stack s)); [discriminate|].
  inversion H; subst. rewrite C. split; [auto|]. split; [auto|].
  destruct acc as [x|]; simpl in *; [left; now rewrite Tx | right; split; [reflexivity | now rewrite <- Tx]].
Qed.

(* ---- witnesses for the pinned variants ---- *)
Definition P_ : str := lit "p"%string.

(* D13: tal:content="text foo" — the pinned compiler emits the path "text foo" *)
Lemma text_keyword_pinned :
  compile pinned [EvStart P_ [(lit "tal:content"%string, Some (lit "text foo"%string))]; EvData (lit "d"%string) false; EvEnd P_]
  = COk ([CStartScope [(lit "tal:content"%string, lit "text foo"%string)] [];
          CContent false false (lit "text foo"%string) 2; CStartTag P_ false; COutput (lit "d"%string);
          CEndTagEndScope P_ false false], ([(2%nat, 4%nat)], [])).
Proof. vm_compute. reflexivity. Qed.

Lemma text_keyword_repaired :
  compile repaired [EvStart P_ [(lit "tal:content"%string, Some (lit "text foo"%string))]; EvData (lit "d"%string) false; EvEnd P_]
  = COk ([CStartScope [(lit "tal:content"%string, lit "text foo"%string)] [];
          CContent false false (lit "foo"%string) 2; CStartTag P_ false; COutput (lit "d"%string);
          CEndTagEndScope P_ false false], ([(2%nat, 4%nat)], [])).
Proof. vm_compute. reflexivity. Qed.

(* the keyword is recognised by the repaired parser for every expression, never by the pinned one
   unless the SECOND word happens to be "text" *)
Lemma content_text_keyword_repaired repl e sym :
  e <> [] -> mem_N SP e = false ->
  compile_content repaired repl (TEXT ++ [SP] ++ e) sym = Some (CContent repl false e sym).
Proof.
  intros Hne Hsp. unfold compile_content.
  assert (W : words (TEXT ++ [SP] ++ e) = [TEXT; e]).
  { unfold words. change (TEXT ++ [SP] ++ e) with (lit "text"%string ++ SP :: e).
    rewrite split_on_app. rewrite (split_on_no_sep SP e Hsp). reflexivity. }
  rewrite W. simpl. destruct e; [contradiction|]. reflexivity.
Qed.

(* CDATA: the pinned compiler escapes the content of <script>, the repaired one passes it through *)
Definition SCRIPT : str := lit "script"%string.
Lemma cdata_pinned_vs_repaired :
  passthrough_text pinned [EvStart SCRIPT []; EvData (lit "a<b"%string) true; EvEnd SCRIPT] = lit "<script>a&lt;b</script>"%string /\
  passthrough_text repaired [EvStart SCRIPT []; EvData (lit "a<b"%string) true; EvEnd SCRIPT] = lit "<script>a<b</script>"%string.
Proof. vm_compute. split; reflexivity. Qed.

(* a TAL element that is never closed: accepted by the pinned compiler with an undefined symbol *)
Lemma unclosed_pinned_not_wf :
  exists p t m,
    compile pinned [EvStart P_ [(lit "tal:content"%string, Some (lit "x"%string))]; EvData (lit "d"%string) false] = COk (p, (t, m)) /\
    wf_program p t m = false.
Proof. eexists. eexists. eexists. split; [vm_compute; reflexivity | vm_compute; reflexivity]. Qed.

Lemma unclosed_repaired_rejected :
  compile repaired [EvStart P_ [(lit "tal:content"%string, Some (lit "x"%string))]; EvData (lit "d"%string) false] = CErr.
Proof. vm_compute. reflexivity. Qed.

(* ---- statements as they appear in Props ---- *)
Lemma sort_nat_spec (l : list nat) : LocallySorted le (sort_nat l) /\ Permutation l (sort_nat l).
Proof. split; [apply sort_nat_sorted | apply sort_nat_perm]. Qed.

Lemma text_keyword_refuted :
  exists es p t m, compile pinned es = COk (p, (t, m)) /\
                   In (CContent false false (lit "text foo"%string) 2%nat) p /\
                   exists p', compile repaired es = COk (p', (t, m)) /\ In (CContent false false (lit "foo"%string) 2%nat) p'.
Proof.
  eexists. eexists. eexists. eexists. split; [apply text_keyword_pinned|].
  split; [simpl; tauto|]. eexists. split; [apply text_keyword_repaired | simpl; tauto].
Qed.

Lemma wf_tal_free v es p t m :
  forallb tal_free_event es = true -> compile v es = COk (p, (t, m)) -> wf_program p t m = true.
Proof.
  intros Hf Hc. destruct (passthrough v es p t m Hf Hc) as (Et & Em & [Ep|[Ep _]]); subst; reflexivity.
Qed.

Lemma wf_refuted :
  exists es, (exists p t m, compile pinned es = COk (p, (t, m)) /\ wf_program p t m = false) /\ compile repaired es = CErr.
Proof. eexists. split; [apply unclosed_pinned_not_wf | apply unclosed_repaired_rejected]. Qed.

(* ---- the two pinned variants found while proving that every compiled program is well formed ---- *)
Definition no_dup_fix : variant := mkVariant true true true false true.
Definition no_start_fix : variant := mkVariant true true true true false.

(* a statement twice on one element: accepted, both commands emitted, not well formed *)
Lemma duplicate_pinned_not_wf :
  exists es, (exists p t m, compile no_dup_fix es = COk (p, (t, m)) /\ wf_program p t m = false) /\ compile repaired es = CErr.
Proof.
  exists [EvStart P_ [(lit "tal:define"%string, Some (lit "a b"%string)); (lit "tal:define"%string, Some (lit "c d"%string))];
          EvData (lit "x"%string) false; EvEnd P_].
  split; [eexists; eexists; eexists; split; vm_compute; reflexivity | vm_compute; reflexivity].
Qed.

(* define-macro on an element that also has use-macro: the macro starts after the START_SCOPE *)
Lemma substart_pinned_not_wf :
  exists es, (exists p t m, compile no_start_fix es = COk (p, (t, m)) /\ wf_program p t m = false) /\
             (exists p t m, compile repaired es = COk (p, (t, m)) /\ wf_program p t m = true).
Proof.
  exists [EvStart P_ [(lit "metal:use-macro"%string, Some (lit "macros/m"%string)); (lit "metal:define-macro"%string, Some (lit "n"%string))];
          EvData (lit "x"%string) false; EvEnd P_].
  split; eexists; eexists; eexists; split; vm_compute; reflexivity.
Qed.
