(* Termination of the abstract VM (Model/TALVM.v) on structurally well-formed programs when no
   sub-template can be called (no macros, no slot fillers: METAL is not used): whatever the data
   decide — every repeat runs over a finite sequence, one item per loop-back — the run reaches the
   end of the program after finitely many steps, i.e. enough fuel exists, and it ends with the scopes
   restored.  Same structure as Proofs/TALVMFacts.v (structural induction on the well-formedness
   derivation, induction on the remaining repeat count inside an element), with exact step counts
   instead of a fuel bound.  With sub-template calls termination cannot hold in general (a macro may
   use itself). *)
From Coq Require Import Lia PeanoNat.
From PG Require Import Lib.Str Model.TALProg Model.TALProgSpec Model.TALVM Model.TALCompile Proofs.TALProgFacts Proofs.TALVMFacts
                       Proofs.TALCompileWf.

Section Term.
  Variable prog : program.
  Variable tab : symtab.
  Variable D : Type.
  Variable o_cond : D -> cmd -> bool.
  Variable o_rep : D -> cmd -> rep_dec.
  Variable o_val : D -> cmd -> val_dec.
  Variable o_mac : D -> cmd -> mac_dec.
  Variable o_upd : D -> nat -> cmd -> D.

  Notation machD := (mach D).
  Notation runD := (run prog tab [] D o_cond o_rep o_val o_mac o_upd).
  Notation stepD := (step tab [] D o_cond o_rep o_val o_mac o_upd).
  Notation GoodT := (Good [] D).
  Notation SegPostT := (SegPost [] D).
  Notation updmD := (updm D o_upd).

  (* n steps lead from m to a state satisfying P, whatever fuel is left over *)
  Definition Term (L : nat) (m : machD) (P : machD -> Prop) : Prop :=
    exists n m', (forall fuel, runD (n + fuel) L m = runD fuel L m') /\ P m'.

  Lemma term_here L m (P : machD -> Prop) : P m -> Term L m P.
  Proof. intros H. exists 0, m. split; [reflexivity | exact H]. Qed.

  Lemma term_step L m c m1 P :
    pc D m < L -> nth_error prog (pc D m) = Some c -> (forall call, stepD call c m = Done m1) ->
    Term L m1 P -> Term L m P.
  Proof.
    intros Hlt Hn Hs (n & m' & Hr & HP). exists (S n), m'. split; [|exact HP]. intros fuel.
    change (S n + fuel) with (S (n + fuel)). rewrite run_S.
    replace (Nat.leb L (pc D m)) with false by (symmetry; apply Nat.leb_gt; lia).
    rewrite Hn, Hs. apply Hr.
  Qed.

  Lemma term_bind L m (P Q : machD -> Prop) :
    Term L m P -> (forall m', P m' -> Term L m' Q) -> Term L m Q.
  Proof.
    intros (n & m' & Hr & HP) K. destruct (K m' HP) as (n2 & m2 & Hr2 & HQ).
    exists (n + n2), m2. split; [|exact HQ]. intros fuel. rewrite <- Nat.add_assoc, Hr. apply Hr2.
  Qed.

  Lemma term_weaken L m (P Q : machD -> Prop) : Term L m P -> (forall m', P m' -> Q m') -> Term L m Q.
  Proof. intros H K. eapply term_bind; [exact H|]. intros m' HP. apply term_here. auto. Qed.

  Lemma no_tpl t : tc_ok [] t -> match t with TTpl _ => False | _ => True end.
  Proof. destruct t; simpl; auto. Qed.

  (* ENDTAG_ENDSCOPE never calls anything here *)
  Lemma step_etag_nocall call c m : is_etag c = true -> tc_ok [] (r_tc (rg D m)) ->
    stepD call c m = endtag_finish D (updmD m c) (rg D m).
  Proof.
    intros Hc Ht. rewrite (step_etag tab [] D o_cond o_rep o_val o_mac o_upd call c m Hc).
    destruct (r_tc (rg D m)); try reflexivity. destruct Ht.
  Qed.

  Section Elem.
    Variables (o e : nat) (sc : cmd) (head : list cmd) (st : cmd) (body : list cmd) (en : cmd).
    Variables (pre post : list cmd).
    Hypothesis He : e = o + 2 + length head + length body.
    Hypothesis Hprog : prog = pre ++ (sc :: head ++ st :: body ++ [en]) ++ post.
    Hypothesis Hpre : length pre = o.
    Hypothesis Hsc : is_scope sc = true.
    Hypothesis Hsorted : head_sorted 0 head = true.
    Hypothesis Hst : is_stag st = true.
    Hypothesis Hen : is_etag en = true.
    Hypothesis Hsyms : syms_ok tab e head = true.
    Hypothesis IHbody :
      forall pre' post', prog = pre' ++ body ++ post' -> length pre' = o + 2 + length head ->
      forall L m, o + 2 + length head + length body <= L -> pc D m = o + 2 + length head -> GoodT m ->
        Term L m (SegPostT m (o + 2 + length head + length body)).
    Variable L : nat.
    Hypothesis HL : S e <= L.
    Variable m0 : machD.
    Hypothesis Hgood0 : GoodT m0.

    Lemma el_length : length (sc :: head ++ st :: body ++ [en]) = 3 + length head + length body.
    Proof. simpl. rewrite app_length. simpl. rewrite app_length. simpl. lia. Qed.

    Lemma N_sc : nth_error prog o = Some sc.
    Proof.
      rewrite <- Hpre. replace (length pre) with (length pre + 0) by lia.
      rewrite (nth_error_seg prog pre _ post 0 Hprog); [reflexivity | rewrite el_length; lia].
    Qed.

    Lemma N_head j c : nth_error head j = Some c -> nth_error prog (o + 1 + j) = Some c.
    Proof.
      intros H. assert (Hj : j < length head) by (apply nth_error_Some; congruence).
      rewrite <- Hpre. replace (length pre + 1 + j) with (length pre + S j) by lia.
      rewrite (nth_error_seg prog pre _ post (S j) Hprog) by (rewrite el_length; lia).
      simpl. rewrite nth_error_app1 by lia. exact H.
    Qed.

    Lemma N_st : nth_error prog (o + 1 + length head) = Some st.
    Proof.
      rewrite <- Hpre. replace (length pre + 1 + length head) with (length pre + S (length head)) by lia.
      rewrite (nth_error_seg prog pre _ post (S (length head)) Hprog) by (rewrite el_length; lia).
      simpl. rewrite nth_error_app2 by lia. replace (length head - length head) with 0 by lia. reflexivity.
    Qed.

    Lemma N_en : nth_error prog e = Some en.
    Proof.
      rewrite He, <- Hpre.
      replace (length pre + 2 + length head + length body) with (length pre + (2 + length head + length body)) by lia.
      rewrite (nth_error_seg prog pre _ post _ Hprog) by (rewrite el_length; lia).
      change (sc :: head ++ st :: body ++ [en]) with ((sc :: head) ++ (st :: body) ++ [en]).
      replace (2 + length head + length body) with (length (sc :: head) + length (st :: body)) by (simpl; lia).
      apply nth_error_last2.
    Qed.

    Lemma head_sym c s : In c head -> cmd_sym c = Some s -> lookup_sym tab s = Some e.
    Proof. intros Hin Hs. exact (syms_ok_spec tab e head Hsyms c s Hin Hs). Qed.

    Lemma body_position : prog = (pre ++ sc :: head ++ [st]) ++ body ++ ([en] ++ post) /\
                          length (pre ++ sc :: head ++ [st]) = o + 2 + length head.
    Proof.
      split.
      - rewrite Hprog. rewrite <- !app_assoc. simpl. f_equal. f_equal. rewrite <- !app_assoc. simpl.
        f_equal. f_equal. now rewrite <- app_assoc.
      - rewrite app_length. simpl. rewrite app_length. simpl. lia.
    Qed.

    Record EI (act : bool) (ridx : nat) (mj : machD) : Prop := mkEI {
      ei_ss : sstack D mj = (if act then [SRep] else []) ++ SScope (rg D m0) :: sstack D m0;
      ei_back : r_back (rg D mj) = if act then Some ridx else None;
      ei_rep : if act then exists k, r_rep (rg D mj) = Some k else r_rep (rg D mj) = None;
      ei_fwd : r_fwd (rg D mj) = None \/ r_fwd (rg D mj) = Some e;
      ei_tc : tc_ok [] (r_tc (rg D mj));
      ei_cx : unwind (r_lvd (rg D mj)) act (c_sc (cx D mj)) = Some (c_sc (cx D m0));
      ei_slotp : slots_ok [] (slotp D mj);
      ei_curs : curs D mj = curs D m0
    }.

    Lemma EI_good act ridx mj : EI act ridx mj -> GoodT mj.
    Proof.
      intros H. destruct Hgood0 as (_ & G2 & _). repeat split.
      - apply (ei_slotp _ _ _ H).
      - rewrite (ei_curs _ _ _ H). exact G2.
      - apply (ei_tc _ _ _ H).
    Qed.

    Lemma tail_run : forall hs hpre act ridx,
      head = hpre ++ hs -> head_sorted 5 hs = true ->
      forall mj, pc D mj = o + 1 + length hpre -> EI act ridx mj ->
      Term L mj (fun m' => pc D m' = e /\ EI act ridx m' /\ r_rep (rg D m') = r_rep (rg D mj)).
    Proof.
      induction hs as [|c hs IH]; intros hpre act ridx Hh Hs mj Hpc Hei.
      - rewrite app_nil_r in Hh. subst hpre.
        destruct (ei_fwd _ _ _ Hei) as [Hfw|Hfw].
        + eapply term_step; [lia | rewrite Hpc; apply N_st | intros call; rewrite (step_stag _ _ _ _ _ _ _ _ _ _ _ Hst), Hfw; reflexivity |].
          destruct body_position as [Bp Bl].
          eapply term_weaken.
          * apply (IHbody _ _ Bp Bl L); [lia | simpl; lia |].
            destruct (EI_good _ _ _ Hei) as (G1 & G2 & G3). repeat split; simpl; auto.
          * intros m' (P1 & P2 & P3 & P4 & P5 & P6). simpl in *.
            split; [lia|]. split; [|now rewrite P3].
            destruct Hei. constructor; try rewrite P3; try rewrite P2; try rewrite P4; try rewrite P5; auto.
        + eapply term_step; [lia | rewrite Hpc; apply N_st | intros call; rewrite (step_stag _ _ _ _ _ _ _ _ _ _ _ Hst), Hfw; reflexivity |].
          apply term_here. simpl. split; [reflexivity|]. split; [|reflexivity].
          destruct Hei. constructor; simpl; auto.
      - simpl in Hs. destruct (head_rank c) as [k|] eqn:Ek; [|discriminate].
        apply andb_true_iff in Hs. destruct Hs as [Hk Hs]. apply Nat.ltb_lt in Hk.
        assert (Hs5 : head_sorted 5 hs = true) by (apply (head_sorted_weaken hs k 5); [lia|exact Hs]).
        assert (Hin : In c head) by (rewrite Hh; apply in_or_app; right; now left).
        assert (Hnth : nth_error prog (pc D mj) = Some c).
        { rewrite Hpc. apply N_head. rewrite Hh. rewrite nth_error_app2 by lia.
          replace (length hpre - length hpre) with 0 by lia. reflexivity. }
        assert (Hh' : head = (hpre ++ [c]) ++ hs) by (rewrite <- app_assoc; exact Hh).
        assert (Hlt : pc D mj < L).
        { assert (length hpre < length head) by (rewrite Hh, app_length; simpl; lia). lia. }
        assert (Go : forall m1 : machD, (forall call, stepD call c mj = Done m1) -> pc D m1 = S (pc D mj) ->
                     EI act ridx m1 -> r_rep (rg D m1) = r_rep (rg D mj) ->
                     Term L mj (fun m' => pc D m' = e /\ EI act ridx m' /\ r_rep (rg D m') = r_rep (rg D mj))).
        { intros m1 E1 E2 E3 E4. eapply term_step; [exact Hlt | exact Hnth | exact E1 |].
          eapply term_weaken.
          - apply (IH _ act ridx Hh' Hs5 m1); [rewrite app_length; simpl; lia | exact E3].
          - simpl. intros m' (A & B & C). rewrite <- E4. auto. }
        destruct c; simpl in Ek; inversion Ek; subst k; try lia.
        + assert (Hsym : lookup_sym tab sym = Some e) by (apply (head_sym _ _ Hin); reflexivity).
          destruct (o_val (dat D mj) (CContent repl struct e0 sym)) eqn:Ev.
          * eapply Go; [intros call; unfold step; simpl; rewrite Ev, Hsym; reflexivity | reflexivity | | reflexivity].
            destruct Hei. constructor; simpl; auto.
          * eapply Go; [intros call; unfold step; simpl; rewrite Ev; reflexivity | reflexivity | | reflexivity].
            destruct Hei. constructor; simpl; auto.
          * eapply Go; [intros call; unfold step; simpl; rewrite Ev, Hsym; reflexivity | reflexivity | | reflexivity].
            destruct Hei. constructor; simpl; auto.
          * eapply Go; [intros call; unfold step; simpl; rewrite Ev, Hsym; reflexivity | reflexivity | | reflexivity].
            destruct Hei. constructor; simpl; auto. destruct i; exact I.
        + eapply Go; [intros call; unfold step; simpl; reflexivity | reflexivity | | reflexivity].
          destruct Hei. constructor; simpl; auto.
        + eapply Go; [intros call; unfold step; simpl; reflexivity | reflexivity | | reflexivity].
          destruct Hei. constructor; simpl; auto.
    Qed.

    Lemma end_run mj ridx : pc D mj = e -> EI false ridx mj -> Term L mj (SegPostT m0 (S e)).
    Proof.
      intros Hpc Hei.
      assert (Hnth : nth_error prog (pc D mj) = Some en) by (rewrite Hpc; apply N_en).
      assert (Hlt : pc D mj < L) by lia.
      pose proof (ei_ss _ _ _ Hei) as Ess. pose proof (ei_back _ _ _ Hei) as Eb.
      pose proof (ei_cx _ _ _ Hei) as Ecx. pose proof (ei_curs _ _ _ Hei) as Ecu. simpl in Ess, Eb.
      assert (Fin : exists m', endtag_finish D (updmD mj en) (rg D mj) = Done m' /\ SegPostT m0 (S e) m').
      { unfold endtag_finish. simpl. rewrite Eb, Ess. apply unwind_false in Ecx.
        destruct (r_lvd (rg D mj)).
        - unfold pop_locals. rewrite Ecx. eexists. split; [reflexivity|].
          repeat split; simpl; auto; try lia; try congruence. apply (ei_slotp _ _ _ Hei).
        - eexists. split; [reflexivity|]. repeat split; simpl; auto; try lia; try congruence. apply (ei_slotp _ _ _ Hei). }
      destruct Fin as (m' & Em & Pm).
      eapply term_step; [exact Hlt | exact Hnth | intros call; rewrite (step_etag_nocall call _ _ Hen (ei_tc _ _ _ Hei)); exact Em |].
      now apply term_here.
    Qed.

    Lemma end_back mj ridx : pc D mj = e -> EI true ridx mj ->
      Term L mj (fun m' => pc D m' = ridx /\ EI true ridx m' /\ r_rep (rg D m') = r_rep (rg D mj)).
    Proof.
      intros Hpc Hei.
      assert (Hnth : nth_error prog (pc D mj) = Some en) by (rewrite Hpc; apply N_en).
      assert (Hlt : pc D mj < L) by lia.
      pose proof (ei_back _ _ _ Hei) as Eb. simpl in Eb.
      eapply term_step; [exact Hlt | exact Hnth | intros call; rewrite (step_etag_nocall call _ _ Hen (ei_tc _ _ _ Hei));
                                                   unfold endtag_finish; rewrite Eb; reflexivity |].
      apply term_here. simpl. split; [reflexivity|]. split; [|reflexivity].
      destruct Hei. constructor; simpl; auto.
    Qed.

    Section Loop.
      Variables (hpre_r : list cmd) (v ex : str) (sym : nat) (hs' : list cmd).
      Hypothesis Hhead : head = hpre_r ++ CRepeat v ex sym :: hs'.
      Hypothesis Hs' : head_sorted 5 hs' = true.
      Let ridx := o + 1 + length hpre_r.

      Lemma N_rep : nth_error prog ridx = Some (CRepeat v ex sym).
      Proof.
        unfold ridx. apply N_head. rewrite Hhead, nth_error_app2 by lia.
        replace (length hpre_r - length hpre_r) with 0 by lia. reflexivity.
      Qed.

      Lemma rep_sym : lookup_sym tab sym = Some e.
      Proof. apply (head_sym (CRepeat v ex sym)); [|reflexivity]. rewrite Hhead. apply in_or_app. right. now left. Qed.

      Lemma ridx_lt : ridx < L.
      Proof. unfold ridx. assert (length hpre_r < length head) by (rewrite Hhead, app_length; simpl; lia). lia. Qed.

      (* one loop-back per remaining item *)
      Lemma loop_run : forall k mj,
        pc D mj = e -> EI true ridx mj -> r_rep (rg D mj) = Some k -> Term L mj (SegPostT m0 (S e)).
      Proof.
        assert (Hh2 : head = (hpre_r ++ [CRepeat v ex sym]) ++ hs') by (rewrite <- app_assoc; exact Hhead).
        assert (Hl2 : o + 1 + length (hpre_r ++ [CRepeat v ex sym]) = S ridx) by (rewrite app_length; simpl; unfold ridx; lia).
        induction k as [|k IH]; intros mj Hpc Hei Hk.
        - eapply term_bind; [apply (end_back mj ridx Hpc Hei)|].
          intros m1 (P1 & P2 & P3). rewrite Hk in P3.
          destruct (unwind_true _ _ _ (ei_cx _ _ _ P2)) as (a & b & Ea & Eb & Ec).
          pose proof (ei_ss _ _ _ P2) as Ess. simpl in Ess.
          eapply term_step; [rewrite P1; apply ridx_lt | rewrite P1; apply N_rep | |].
          + intros call. unfold step. simpl. rewrite P3. unfold remove_repeat, pop_locals. simpl. rewrite Ea. simpl.
            rewrite Eb, rep_sym, Ess. reflexivity.
          + apply (end_run _ ridx); [reflexivity|].
            destruct P2. constructor; simpl; auto.
        - eapply term_bind; [apply (end_back mj ridx Hpc Hei)|].
          intros m1 (P1 & P2 & P3). rewrite Hk in P3.
          eapply term_step; [rewrite P1; apply ridx_lt | rewrite P1; apply N_rep | |].
          + intros call. unfold step. simpl. rewrite P3. reflexivity.
          + eapply term_bind.
            * apply (tail_run hs' _ true ridx Hh2 Hs'); [simpl; lia |].
              destruct P2. constructor; simpl; auto; [eauto | now rewrite unwind_set_act].
            * simpl. intros m2 (Q1 & Q2 & Q3). apply (IH m2); [exact Q1 | exact Q2 | exact Q3].
      Qed.
    End Loop.

    Lemma pre_run : forall hs hpre lo,
      head = hpre ++ hs -> head_sorted lo hs = true ->
      forall mj, pc D mj = o + 1 + length hpre -> EI false 0 mj ->
      (3 <= lo \/ r_lvd (rg D mj) = false) ->
      Term L mj (SegPostT m0 (S e)).
    Proof.
      induction hs as [|c hs IH]; intros hpre lo Hh Hs mj Hpc Hei Hlvd.
      - eapply term_bind; [apply (tail_run [] hpre false 0 Hh eq_refl mj Hpc Hei)|].
        simpl. intros m1 (P1 & P2 & _). apply (end_run m1 0); [exact P1 | exact P2].
      - pose proof Hs as Hs0. simpl in Hs. destruct (head_rank c) as [k|] eqn:Ek; [|discriminate].
        apply andb_true_iff in Hs. destruct Hs as [Hk Hs]. apply Nat.ltb_lt in Hk.
        assert (Hin : In c head) by (rewrite Hh; apply in_or_app; right; now left).
        assert (Hnth : nth_error prog (pc D mj) = Some c).
        { rewrite Hpc. apply N_head. rewrite Hh. rewrite nth_error_app2 by lia.
          replace (length hpre - length hpre) with 0 by lia. reflexivity. }
        assert (Hh' : head = (hpre ++ [c]) ++ hs) by (rewrite <- app_assoc; exact Hh).
        assert (Hlen : o + 1 + length (hpre ++ [c]) = S (o + 1 + length hpre)) by (rewrite app_length; simpl; lia).
        assert (Hlt : pc D mj < L).
        { assert (length hpre < length head) by (rewrite Hh, app_length; simpl; lia). lia. }
        assert (Tail : 5 < k -> Term L mj (SegPostT m0 (S e))).
        { intros H5. eapply term_bind.
          - apply (tail_run (c :: hs) hpre false 0 Hh); [|exact Hpc | exact Hei].
            simpl. rewrite Ek. apply andb_true_iff. split; [now apply Nat.ltb_lt | exact Hs].
          - simpl. intros m1 (P1 & P2 & _). apply (end_run m1 0); [exact P1 | exact P2]. }
        assert (Next : forall m1 : machD, (forall call, stepD call c mj = Done m1) ->
                  pc D m1 = S (pc D mj) -> EI false 0 m1 -> (3 <= k \/ r_lvd (rg D m1) = false) ->
                  Term L mj (SegPostT m0 (S e))).
        { intros m1 E1 E2 E3 E4. eapply term_step; [exact Hlt | exact Hnth | exact E1 |].
          apply (IH _ k Hh' Hs m1); [lia | exact E3 | exact E4]. }
        assert (Jump : forall m1 : machD, (forall call, stepD call c mj = Done m1) -> pc D m1 = e -> EI false 0 m1 ->
                  Term L mj (SegPostT m0 (S e))).
        { intros m1 E1 E2 E3. eapply term_step; [exact Hlt | exact Hnth | exact E1 |].
          apply (end_run m1 0); [exact E2 | exact E3]. }
        pose proof (ei_rep _ _ _ Hei) as Erep. simpl in Erep.
        destruct c; simpl in Ek; inversion Ek; subst k; try (apply Tail; lia).
        + assert (Elv : r_lvd (rg D mj) = false) by (destruct Hlvd; [lia | assumption]).
          destruct (do_defines args false (cx D mj)) as [found c1] eqn:Ed.
          pose proof (do_defines_scopes _ _ _ _ _ Ed) as Sc. simpl in Sc.
          pose proof (ei_cx _ _ _ Hei) as Ecx. rewrite Elv in Ecx. simpl in Ecx. inversion Ecx as [Ecx'].
          eapply Next; [intros call; unfold step; simpl; rewrite Ed; reflexivity | reflexivity | | left; lia].
          destruct Hei. constructor; simpl; auto.
          unfold unwind. destruct found; [rewrite Sc, Ecx'; reflexivity | rewrite Sc, Ecx'; reflexivity].
        + destruct (o_cond (dat D mj) (CCondition e0 sym)) eqn:Ec.
          * eapply Next; [intros call; unfold step; simpl; rewrite Ec; reflexivity | reflexivity | | left; lia].
            destruct Hei. constructor; simpl; auto.
          * assert (Hsym : lookup_sym tab sym = Some e) by (apply (head_sym _ _ Hin); reflexivity).
            eapply Jump; [intros call; unfold step; simpl; rewrite Ec, Hsym; reflexivity | reflexivity |].
            destruct Hei. constructor; simpl; auto.
        + assert (Hsym : lookup_sym tab sym = Some e) by (apply (head_sym _ _ Hin); reflexivity).
          destruct (o_rep (dat D mj) (CRepeat v e0 sym)) as [| |k] eqn:Er.
          * eapply Next; [intros call; unfold step; simpl; rewrite Erep, Er; reflexivity | reflexivity | | left; lia].
            destruct Hei. constructor; simpl; auto.
          * eapply Jump; [intros call; unfold step; simpl; rewrite Erep, Er, Hsym; reflexivity | reflexivity |].
            destruct Hei. constructor; simpl; auto.
          * eapply term_step; [exact Hlt | exact Hnth | intros call; unfold step; simpl; rewrite Erep, Er; reflexivity |].
            eapply term_bind.
            -- apply (tail_run hs _ true (o + 1 + length hpre) Hh' Hs); [simpl; lia |].
               destruct Hei. constructor; simpl; auto; [simpl in *; congruence | eauto |].
               now rewrite unwind_add_repeat.
            -- simpl. intros m2 (Q1 & Q2 & Q3).
               apply (loop_run hpre v e0 sym hs Hh Hs k m2); [exact Q1 | exact Q2 | exact Q3].
        + assert (Hsym : lookup_sym tab sym = Some e) by (apply (head_sym _ _ Hin); reflexivity).
          destruct (o_mac (dat D mj) (CUseMacro e0 slots sym)) as [| |i] eqn:Em.
          * eapply Next; [intros call; unfold step; simpl; rewrite Em, Hsym; reflexivity | reflexivity | |
                          destruct Hlvd; [left; lia | right; simpl; assumption]].
            destruct Hei. constructor; simpl; auto.
          * eapply Next; [intros call; unfold step; simpl; rewrite Em; reflexivity | reflexivity | |
                          destruct Hlvd; [left; lia | right; simpl; assumption]].
            destruct Hei. constructor; simpl; auto.
          * eapply Next; [intros call; unfold step; simpl; rewrite Em; destruct i; reflexivity | reflexivity | |
                          destruct Hlvd; [left; lia | right; simpl; assumption]].
            destruct Hei. constructor; simpl; auto.
        + destruct (lookup_slot (curs D mj) name) as [s|] eqn:Esl.
          * exfalso. destruct Hgood0 as (_ & G2 & _). rewrite (ei_curs _ _ _ Hei) in Esl. exact (G2 _ _ Esl).
          * eapply Next; [intros call; unfold step; simpl; rewrite Esl; reflexivity | reflexivity | |
                          destruct Hlvd; [left; lia | right; simpl; assumption]].
            destruct Hei. constructor; simpl; auto.
    Qed.

    Lemma elem_run : pc D m0 = o -> Term L m0 (SegPostT m0 (S e)).
    Proof.
      intros Hpc.
      eapply term_step; [lia | rewrite Hpc; apply N_sc | intros call; apply (step_scope _ _ _ _ _ _ _ _ _ _ _ Hsc) |].
      apply (pre_run head [] 0 eq_refl Hsorted); [simpl; lia | | right; reflexivity].
      destruct Hgood0 as (G1 & G2 & G3). constructor; simpl; auto.
    Qed.
  End Elem.

  Definition SegStmtT (o : nat) (l : list cmd) : Prop :=
    forall pre post, prog = pre ++ l ++ post -> length pre = o ->
    forall L m, o + length l <= L -> pc D m = o -> GoodT m -> Term L m (SegPostT m (o + length l)).

  Lemma all_segments :
    (forall o l, wfitems tab o l -> SegStmtT o l) /\ (forall o l, wfelem tab o l -> SegStmtT o l).
  Proof.
    apply (wf_min tab SegStmtT SegStmtT).
    - intros o pre post Hp Hl L m HL Hpc Hg. apply term_here.
      repeat split; auto; [simpl; lia | apply Hg].
    - intros o c rest Hout _ IH pre post Hp Hl L m HL Hpc Hg. simpl in HL.
      assert (Hnth : nth_error prog (pc D m) = Some c).
      { rewrite Hpc, <- Hl. replace (length pre) with (length pre + 0) by lia.
        rewrite (nth_error_seg prog pre (c :: rest) post 0 Hp); [reflexivity | simpl; lia]. }
      eapply term_step; [lia | exact Hnth | intros call; apply (step_out _ _ _ _ _ _ _ _ _ _ _ Hout) |].
      eapply term_weaken.
      + apply (IH (pre ++ [c]) post); [rewrite Hp, <- app_assoc; reflexivity | rewrite app_length; simpl; lia | lia |
                                        simpl; lia | exact Hg].
      + intros m' (A1 & A2 & A3 & A4 & A5 & A6). simpl in *. repeat split; auto. lia.
    - intros o el rest _ IHel _ IHrest pre post Hp Hl L m HL Hpc Hg. rewrite app_length in HL.
      eapply term_bind.
      + apply (IHel pre (rest ++ post)); [rewrite Hp, <- app_assoc; reflexivity | exact Hl | lia | exact Hpc | exact Hg].
      + intros m1 P1. eapply term_weaken.
        * apply (IHrest (pre ++ el) post); [rewrite Hp, <- !app_assoc; reflexivity | rewrite app_length; lia | lia | apply P1 |].
          destruct P1 as (A1 & A2 & A3 & A4 & A5 & A6). destruct Hg as (G1 & G2 & G3).
          repeat split; [exact A6 | rewrite A4; exact G2 | rewrite A3; exact G3].
        * intros m2 P2. rewrite app_length. replace (o + (length el + length rest)) with (o + length el + length rest) by lia.
          eapply SegPost_trans; eauto.
    - intros o sc head st body en Hsc Hsorted Hst Hen Hsyms _ IHbody pre post Hp Hl L m HL Hpc Hg.
      assert (Len : length (sc :: head ++ st :: body ++ [en]) = 3 + length head + length body).
      { simpl. rewrite app_length. simpl. rewrite app_length. simpl. lia. }
      rewrite Len in *.
      replace (o + (3 + length head + length body)) with (S (o + 2 + length head + length body)) by lia.
      apply (elem_run o (o + 2 + length head + length body) sc head st body en pre post eq_refl Hp Hl
                      Hsc Hsorted Hst Hen Hsyms); auto. lia.
  Qed.

  (* enough fuel exists, and the run ends with everything restored *)
  Theorem vm_terminates :
    wfitems tab 0 prog ->
    forall c d, exists fuel mf,
      vm_run prog tab [] D o_cond o_rep o_val o_mac o_upd fuel c d = Done mf /\
      c_sc (cx D mf) = c_sc c /\ sstack D mf = [] /\ pc D mf = length prog.
  Proof.
    intros W c d. unfold vm_run.
    destruct (proj1 all_segments 0 prog W [] [] (eq_sym (app_nil_r _)) eq_refl (length prog) (init D c d))
      as (n & m' & Hr & (P1 & P2 & P3 & P4 & P5 & P6)); auto.
    - repeat split; simpl; auto; intros ? ? X; discriminate X.
    - exists (n + 1), m'. rewrite Hr. simpl in P1. simpl.
      replace (Nat.leb (length prog) (pc D m')) with true by (symmetry; apply Nat.leb_le; lia). auto.
  Qed.
End Term.

(* for every program accepted by wf_program that has no macros and no slot fillers *)
Theorem terminates_without_metal :
  forall (p : program) (t : symtab), wf_program p t [] = true -> prog_slots p = [] ->
  forall (D : Type) o_cond o_rep o_val o_mac o_upd (c : ctx) (d : D), exists fuel mf,
    vm_run p t (all_subs p []) D o_cond o_rep o_val o_mac o_upd fuel c d = Done mf /\
    c_sc (cx D mf) = c_sc c /\ sstack D mf = [] /\ pc D mf = length p.
Proof.
  intros p t Hwf Hs D o_cond o_rep o_val o_mac o_upd c d.
  destruct (wf_program_sound p t [] Hwf) as [W _]. unfold all_subs. simpl. rewrite Hs.
  apply vm_terminates. exact W.
Qed.

(* ... in particular for whatever the (repaired) compiler emits for a template without macros and slots *)
Corollary terminates_compiled :
  forall (es : list event) (p : program) (t : symtab), compile repaired es = COk (p, (t, [])) -> prog_slots p = [] ->
  forall (D : Type) o_cond o_rep o_val o_mac o_upd (c : ctx) (d : D), exists fuel mf,
    vm_run p t (all_subs p []) D o_cond o_rep o_val o_mac o_upd fuel c d = Done mf /\
    c_sc (cx D mf) = c_sc c /\ sstack D mf = [] /\ pc D mf = length p.
Proof. intros es p t H Hs. apply terminates_without_metal; [exact (compile_wf es p t [] H) | exact Hs]. Qed.
