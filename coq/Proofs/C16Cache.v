(* C16Cache.v — the two memo tables of _getcacheinode (entrycache,
   invalid_paths) are transparent as long as every recorded fact is true of the
   CURRENT index: the memoised lookup then equals the plain traversal. *)
From Coq Require Import Arith Lia.
From PG Require Import Lib.Str Lib.StrFacts Lib.ZipPath Proofs.ZipPathFacts Model.Zip Proofs.C16Index.
Local Open Scope nat_scope.

Ltac splits := repeat match goal with |- _ /\ _ => split end.

Definition labels_ok (t : tbl) : Prop := forall a k j, In ((a, k), j) (t_edges t) -> comp_ok k.

Definition caches_ok (t : tbl) (c : caches) : Prop :=
  (forall wd i, In (wd, i) (c_ec c) -> plookup t wd = Some i /\ nth_error (t_kinds t) i = Some IDir) /\
  (forall wd, In wd (c_inv c) -> assoc_str wd (c_ec c) <> None \/ plookup t wd = None).

Lemma caches_ok_empty t : caches_ok t no_caches.
Proof. split; simpl; [intros ? ? []|intros ? []]. Qed.

Lemma join_nonempty cs : cs <> [] -> Forall comp_ok cs -> join [SL] cs <> [].
Proof.
  intros Hne HF. destruct cs as [|c0 r]; [congruence|]. inversion HF; subst.
  destruct (join_head c0 r H1) as (ch & t & E & _). rewrite E. discriminate.
Qed.

Lemma comp_ok_no_sl cs : Forall comp_ok cs -> Forall no_sl cs.
Proof. intros H. eapply Forall_impl; [|exact H]. now intros a [? _]. Qed.

Lemma plookup_join t cs : Forall comp_ok cs -> plookup t (join [SL] cs) = walk t 0 cs.
Proof.
  intros HF. destruct cs as [|c0 r]; [reflexivity|].
  unfold plookup. destruct (join [SL] (c0 :: r)) eqn:E.
  - exfalso. eapply join_nonempty; [|exact HF|exact E]. discriminate.
  - rewrite <- E. rewrite split_on_join; [reflexivity|discriminate|now apply comp_ok_no_sl].
Qed.

Lemma snoc_cases {A} (l : list A) : l = [] \/ exists l' x, l = l' ++ [x].
Proof.
  destruct l as [|a l]; [now left|right]. exists (removelast (a :: l)), (last (a :: l) a).
  apply app_removelast_last. discriminate.
Qed.

(* the working-directory string after one more item *)
Lemma wd_step consumed it :
  Forall comp_ok consumed -> no_sl it ->
  os_join (join [SL] consumed) it = join [SL] (consumed ++ [it]).
Proof.
  intros HF Hit. destruct (snoc_cases consumed) as [->|(cs & l & ->)].
  - simpl. apply os_join_nil.
  - apply os_join_joined; [|exact Hit]. apply Forall_app in HF as [_ H]. now inversion H.
Qed.

Lemma plookup_snoc t consumed it :
  Forall comp_ok consumed -> no_sl it -> join [SL] (consumed ++ [it]) <> [] ->
  plookup t (join [SL] (consumed ++ [it])) = walk t 0 (consumed ++ [it]).
Proof.
  intros HF Hit Hne. unfold plookup. destruct (join [SL] (consumed ++ [it])) eqn:E; [congruence|].
  rewrite <- E. rewrite split_on_join; [reflexivity|destruct consumed; discriminate|].
  apply Forall_app. split; [now apply comp_ok_no_sl|now constructor].
Qed.

Lemma assoc_str_cons_ne {A} k k' (v : A) l : assoc_str k l <> None -> assoc_str k ((k', v) :: l) <> None.
Proof. simpl. destruct (str_eqb k k'); [discriminate|trivial]. Qed.

Lemma traverse_spec items : forall t ino consumed c,
  labels_ok t -> caches_ok t c -> walk t 0 consumed = Some ino ->
  Forall comp_ok consumed -> Forall no_sl items ->
  fst (traverse t ino (join [SL] consumed) items c) = walk t ino items /\
  caches_ok t (snd (traverse t ino (join [SL] consumed) items c)).
Proof.
  induction items as [|it r IH]; intros t ino consumed c L C Hw HF Hit; simpl; [now split|].
  inversion Hit as [|? ? Hit1 Hitr]; subst.
  destruct (nth_error (t_kinds t) ino) as [[|k]|] eqn:Hk; try (now split).
  rewrite (wd_step consumed it HF Hit1).
  set (wd := join [SL] consumed).
  assert (C1 : caches_ok t (mkc ((wd, ino) :: c_ec c) (c_inv c))).
  { destruct C as [C1 C2]. split; simpl.
    - intros w i [E|Hin]; [|now apply C1]. inversion E; subst w i. split; [|exact Hk].
      unfold wd. rewrite plookup_join by exact HF. exact Hw.
    - intros w Hin. destruct (C2 w Hin) as [H|H]; [left; now apply assoc_str_cons_ne|now right]. }
  destruct (eget (ino, it) (t_edges t)) as [j|] eqn:Hg.
  - apply IH; auto.
    + rewrite walk_app, Hw, walk_step, Hk. exact Hg.
    + apply Forall_app. split; [exact HF|]. constructor; [|constructor]. eapply L. eapply eget_In; eauto.
  - simpl. split; [reflexivity|]. destruct C1 as [C1a C1b]. split; simpl; [exact C1a|].
    intros w [<-|Hin]; [|now apply C1b].
    destruct (join [SL] (consumed ++ [it])) as [|ch tl] eqn:E.
    + (* only for consumed = [] and it = [] : then wd = [] was just recorded *)
      left. destruct consumed as [|c0 cr].
      * subst wd. simpl. discriminate.
      * exfalso. rewrite join_snoc in E by discriminate. destruct (join [SL] (c0 :: cr)); discriminate.
    + right. rewrite <- E. rewrite plookup_snoc; auto; [|rewrite E; discriminate].
      rewrite walk_app, Hw, walk_step, Hk. exact Hg.
Qed.

(* strings whose os.path.split agrees with their "/"-fields *)
Definition exact_split (p : str) : Prop :=
  exists cs f, Forall comp_ok cs /\ no_sl f /\ p = join [SL] (cs ++ [f]).

Lemma os_split_exact cs f :
  Forall comp_ok cs -> no_sl f -> os_split (join [SL] (cs ++ [f])) = (join [SL] cs, f).
Proof.
  intros HF Hf. destruct (snoc_cases cs) as [->|(cs' & l & ->)].
  - simpl. now apply os_split_single.
  - now apply os_split_join.
Qed.

Lemma clookup_ok t c p :
  labels_ok t -> caches_ok t c -> caches_ok t (snd (clookup t c p)).
Proof.
  intros L C. unfold clookup. destruct p as [|ch p]; [exact C|].
  destruct (os_split (ch :: p)) as [d f].
  destruct (assoc_str d (c_ec c)); [exact C|].
  destruct (mem_str d (c_inv c)); [exact C|].
  apply (traverse_spec (split_on SL (ch :: p)) t 0 [] c L C eq_refl); [constructor|].
  apply Forall_forall. intros x Hx. eapply split_fields_no_sl; eauto.
Qed.

Lemma clookup_plain t c p :
  labels_ok t -> caches_ok t c -> exact_split p -> fst (clookup t c p) = plookup t p.
Proof.
  intros L C (cs & f & HF & Hf & ->).
  set (p := join [SL] (cs ++ [f])).
  destruct p as [|ch tl] eqn:Ep; [reflexivity|]. rewrite <- Ep.
  assert (Hsplit : split_on SL p = cs ++ [f]).
  { unfold p. apply split_on_join; [destruct cs; discriminate|].
    apply Forall_app. split; [now apply comp_ok_no_sl|now constructor]. }
  assert (Hpl : plookup t p = walk t 0 (cs ++ [f])).
  { unfold plookup. rewrite Ep, <- Ep. now rewrite Hsplit. }
  unfold clookup. rewrite Ep, <- Ep. unfold p at 1. rewrite (os_split_exact cs f HF Hf).
  destruct C as [C1 C2].
  destruct (assoc_str (join [SL] cs) (c_ec c)) as [dino|] eqn:Ha.
  - simpl. apply assoc_str_In in Ha. destruct (C1 _ _ Ha) as [Hd Hk].
    rewrite plookup_join in Hd by exact HF.
    rewrite Hpl, walk_app, Hd, walk_step, Hk. reflexivity.
  - destruct (mem_str (join [SL] cs) (c_inv c)) eqn:Hm.
    + simpl. apply mem_str_In in Hm. destruct (C2 _ Hm) as [H|H]; [congruence|].
      rewrite plookup_join in H by exact HF. rewrite Hpl, walk_app, H. reflexivity.
    + rewrite Hpl, <- Hsplit.
      apply (traverse_spec (split_on SL p) t 0 [] c L (conj C1 C2) eq_refl); [constructor|].
      apply Forall_forall. intros x Hx. eapply split_fields_no_sl; eauto.
Qed.

(* ---------- canonical query strings ---------- *)
Lemma join_split s : join [SL] (split_on SL s) = s.
Proof.
  induction s as [|x s IH]; [reflexivity|]. simpl.
  destruct (split_on SL s) as [|g r] eqn:S; [now apply split_on_nonempty in S|].
  destruct (N.eqb x SL) eqn:E.
  - apply N.eqb_eq in E. subst x. rewrite <- IH. reflexivity.
  - rewrite <- IH. destruct r; reflexivity.
Qed.

Lemma canonb_fields s : canonb s = true -> s <> [] -> Forall comp_ok (split_on SL s).
Proof.
  unfold canonb. intros H Hne. destruct s as [|c s]; [congruence|]. simpl in H.
  apply Forall_forall. intros x Hx. split; [eapply split_fields_no_sl; eauto|].
  apply plain_comp_ok. rewrite forallb_forall in H. now apply H.
Qed.

Lemma canonb_exact s : canonb s = true -> s <> [] -> exact_split s.
Proof.
  intros H Hne. pose proof (canonb_fields s H Hne) as HF.
  destruct (snoc_cases (split_on SL s)) as [E|(cs & f & E)]; [now apply split_on_nonempty in E|].
  rewrite E in HF. apply Forall_app in HF as [H1 H2]. inversion H2 as [|? ? Hf _]; subst.
  exists cs, f. splits; [exact H1|apply Hf|]. rewrite <- E. symmetry. apply join_split.
Qed.

Lemma vfs_lookup_plain t c s :
  labels_ok t -> caches_ok t c -> canonb s = true ->
  fst (vfs_lookup t c s) = vfs_plookup t s /\ caches_ok t (snd (vfs_lookup t c s)).
Proof.
  intros L C H. unfold vfs_lookup, vfs_plookup.
  pose proof (clookup_ok t c s L C) as Hok.
  destruct (clookup t c s) as [r c'] eqn:E. simpl in *. split; [|exact Hok].
  destruct s as [|ch s]; [simpl in E; now inversion E|].
  assert (Hr : r = fst (clookup t c (ch :: s))) by now rewrite E.
  rewrite Hr, clookup_plain; auto. apply canonb_exact; [exact H|discriminate].
Qed.

(* labels of the index: every name in every directory dict is a non-empty "/"-free string *)
Lemma mkdirp_labels levels : forall t c t' c',
  labels_ok t -> Forall comp_ok levels -> mkdirp t c levels = Ok (t', c') -> labels_ok t'.
Proof.
  induction levels as [|l r IH]; intros t c t' c' L HF; simpl.
  - intros [= <- _]. exact L.
  - inversion HF; subst. destruct (nth_error (t_kinds t) c) as [[|]|]; try discriminate.
    destruct (eget (c, l) (t_edges t)) as [j|].
    + now apply IH.
    + apply IH; [|assumption]. intros a k j Hin. simpl in Hin. apply in_app_or in Hin as [Hin|[Hin|[]]].
      * eapply L; eauto.
      * now inversion Hin; subst.
Qed.

Lemma In_eset k v E a j : In (a, j) (eset k v E) -> In (a, j) E \/ (a = k /\ j = v).
Proof.
  induction E as [|[k' v'] E IH]; simpl.
  - intros [H|[]]. inversion H; subst. now right.
  - destruct (ekey_eqb k k') eqn:Q; simpl.
    + intros [H|H]; [inversion H; subst; now right|left; now right].
    + intros [H|H]; [left; now left|]. destruct (IH H) as [H'|H']; [left; now right|now right].
Qed.

Lemma levels_comp_ok name : Forall comp_ok (name_levels name).
Proof.
  unfold name_levels. apply Forall_forall. intros x Hx. apply filter_In in Hx as [Hx Hne].
  split; [apply (split_fields_no_sl name); now apply In_removelast|now apply nonempty_true].
Qed.

Lemma step1_labels v idx t ps m t' ps' :
  labels_ok t -> step1 v idx t ps m = Ok (t', ps') -> labels_ok t'.
Proof.
  intros L. unfold step1.
  destruct (mkdirp t 0 (name_levels (m_name m))) as [[t1 c]|e] eqn:Hm; [|discriminate].
  pose proof (mkdirp_labels _ _ _ _ _ L (levels_comp_ok _) Hm) as L1.
  destruct (is_nil (name_base (m_name m))) eqn:Hb; [intros [= <- _]; exact L1|].
  assert (Hbok : comp_ok (name_base (m_name m))) by (split; [apply base_no_sl|now apply is_nil_false]).
  assert (K : forall n, labels_ok (mkt (t_kinds t1 ++ [n]) (eset (c, name_base (m_name m)) (length (t_kinds t1)) (t_edges t1)))).
  { intros n a k j Hin. simpl in Hin. apply In_eset in Hin as [Hin|[E _]]; [eapply L1; eauto|].
    inversion E; subst. exact Hbok. }
  destruct (m_kind m); try (intros [= <- _]; exact L1);
    destruct (nth_error (t_kinds t1) c) as [[|]|]; try discriminate; intros [= <- _]; apply K.
Qed.

Lemma phase1_labels v ms : forall idx t ps t' ps',
  labels_ok t -> phase1 v idx t ps ms = Ok (t', ps') -> labels_ok t'.
Proof.
  induction ms as [|m r IH]; intros idx t ps t' ps' L; simpl.
  - intros [= <- _]. exact L.
  - destruct (step1 v idx t ps m) as [[t1 ps1]|e] eqn:Hs; [|discriminate].
    apply IH. eapply step1_labels; eauto.
Qed.

Lemma labels_ok0 : labels_ok tbl0.
Proof. intros a k j []. Qed.
