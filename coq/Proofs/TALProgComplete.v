(* Completeness of the boolean well-formedness check (Model/TALProg.check_items / wf_program) with
   respect to the span-indexed declarative statement, and its independence of the data carried by
   the commands (it only looks at shapes). *)
From Coq Require Import Lia PeanoNat.
From PG Require Import Lib.Str Model.TALProg Model.TALProgSpec Proofs.TALProgFacts.

Lemma scope_not_out c : is_scope c = true -> is_out c = false /\ is_etag c = false /\ is_head c = false.
Proof. destruct c; try discriminate; intros _; repeat split; reflexivity. Qed.
Lemma out_not_etag c : is_out c = true -> is_etag c = false /\ is_scope c = false.
Proof. destruct c; try discriminate; intros _; split; reflexivity. Qed.
Lemma stag_not_head c : is_stag c = true -> is_head c = false.
Proof. destruct c; try discriminate; reflexivity. Qed.

Lemma head_sorted_all_head : forall h lo, head_sorted lo h = true -> forallb is_head h = true.
Proof.
  induction h as [|c h IH]; intros lo H; simpl in *; [reflexivity|].
  unfold is_head at 1. destruct (head_rank c) as [k|]; [|discriminate].
  apply andb_true_iff in H. destruct H as [_ H]. simpl. eauto.
Qed.

Lemma span_head_head : forall h st r, forallb is_head h = true -> is_head st = false ->
  span_head (h ++ st :: r) = (h, st :: r).
Proof.
  induction h as [|c h IH]; intros st r Hh Hs; simpl.
  - now rewrite Hs.
  - simpl in Hh. apply andb_true_iff in Hh. destruct Hh as [Hc Hh]. rewrite Hc. now rewrite (IH st r Hh Hs).
Qed.

Lemma wfitemsS_app t : forall o l1 s1, wfitemsS t o l1 s1 ->
  forall l2 s2, wfitemsS t (o + length l1) l2 s2 -> wfitemsS t o (l1 ++ l2) (s1 ++ s2).
Proof.
  induction 1 as [o|o c rest sp Hc _ IH|o sc head st body en rest spb spr H1 H2 H3 H4 H5 Wb _ _ IHr]; intros l2 s2 W2.
  - simpl in *. now rewrite Nat.add_0_r in W2.
  - simpl. apply wsi_out; [exact Hc|]. apply IH. simpl in W2. now rewrite <- Nat.add_succ_comm in W2.
  - replace ((sc :: head ++ st :: body ++ en :: rest) ++ l2) with (sc :: head ++ st :: body ++ en :: (rest ++ l2)).
    2:{ simpl. rewrite <- !app_assoc. simpl. rewrite <- !app_assoc. reflexivity. }
    replace (((o, o + 2 + length head + length body) :: spb ++ spr) ++ s2)
      with ((o, o + 2 + length head + length body) :: spb ++ (spr ++ s2)) by (simpl; now rewrite <- app_assoc).
    apply wsi_elem; auto. apply IHr.
    replace (o + 3 + length head + length body + length rest) with (o + length (sc :: head ++ st :: body ++ en :: rest)); [exact W2|].
    simpl. rewrite app_length. simpl. rewrite app_length. simpl. lia.
Qed.

Lemma lookup_ext_syms_ok t t' e h :
  (forall k v, lookup_sym t k = Some v -> lookup_sym t' k = Some v) -> syms_ok t e h = true -> syms_ok t' e h = true.
Proof.
  intros Hext. unfold syms_ok. rewrite !forallb_forall. intros H c Hc. specialize (H c Hc).
  destruct (cmd_sym c) as [s|]; [|reflexivity]. unfold opt_nat_eqb in *.
  destruct (lookup_sym t s) as [x|] eqn:E; [|discriminate]. now rewrite (Hext _ _ E).
Qed.

Lemma wfitemsS_ext t t' : (forall k v, lookup_sym t k = Some v -> lookup_sym t' k = Some v) ->
  forall o l sp, wfitemsS t o l sp -> wfitemsS t' o l sp.
Proof.
  intros Hext. induction 1; [apply wsi_nil | apply wsi_out; auto | apply wsi_elem; auto].
  eapply lookup_ext_syms_ok; eauto.
Qed.

(* completeness of the recursive-descent check *)
Lemma check_items_complete t : forall o items spans, wfitemsS t o items spans ->
  forall rest fuel, (rest = [] \/ exists en r, rest = en :: r /\ is_etag en = true) ->
    length (items ++ rest) < fuel ->
    check_items fuel t o (items ++ rest) = Some (rest, spans).
Proof.
  induction 1 as [o|o c rest0 sp Hc _ IH|o sc head st body en rest0 spb spr H1 H2 H3 H4 H5 _ IHb _ IHr];
    intros rest fuel Hrest Hf.
  - destruct fuel as [|f]; [simpl in Hf; lia|]. simpl.
    destruct Hrest as [->|(e0 & r & -> & He)]; [reflexivity|].
    destruct (is_out e0) eqn:Eo; [destruct (out_not_etag e0 Eo) as [A _]; congruence|]. now rewrite He.
  - destruct fuel as [|f]; [simpl in Hf; lia|]. simpl. rewrite Hc. apply IH; [exact Hrest | simpl in Hf; lia].
  - destruct fuel as [|f]; [simpl in Hf; lia|].
    destruct (scope_not_out sc H1) as (A1 & A2 & A3).
    replace ((sc :: head ++ st :: body ++ en :: rest0) ++ rest) with (sc :: head ++ st :: (body ++ en :: (rest0 ++ rest))).
    2:{ simpl. rewrite <- !app_assoc. simpl. rewrite <- !app_assoc. reflexivity. }
    assert (Hlen : length (sc :: head ++ st :: (body ++ en :: (rest0 ++ rest))) < S f).
    { replace (sc :: head ++ st :: (body ++ en :: (rest0 ++ rest))) with ((sc :: head ++ st :: body ++ en :: rest0) ++ rest); [exact Hf|].
      simpl. rewrite <- !app_assoc. simpl. rewrite <- !app_assoc. reflexivity. }
    simpl in Hlen. rewrite app_length in Hlen. simpl in Hlen. rewrite app_length in Hlen. simpl in Hlen. rewrite app_length in Hlen.
    simpl check_items. rewrite A1, A2, H1.
    rewrite (span_head_head head st _ (head_sorted_all_head _ _ H2) (stag_not_head _ H3)).
    rewrite H3, H2. simpl andb.
    rewrite (IHb (en :: rest0 ++ rest) f); [|right; eauto | rewrite app_length; simpl; rewrite app_length; lia].
    replace (length (body ++ en :: rest0 ++ rest) - S (length (rest0 ++ rest))) with (length body)
      by (rewrite app_length; simpl; lia).
    rewrite H4, H5. simpl andb.
    replace (S (o + 2 + length head + length body)) with (o + 3 + length head + length body) by lia.
    rewrite (IHr rest f Hrest); [reflexivity | rewrite app_length; lia].
Qed.

(* ---- the check only looks at shapes ---- *)
Lemma shape_class c :
  is_scope (shape c) = is_scope c /\ is_stag (shape c) = is_stag c /\ is_etag (shape c) = is_etag c /\
  is_out (shape c) = is_out c /\ head_rank (shape c) = head_rank c /\ cmd_sym (shape c) = cmd_sym c.
Proof. destruct c; repeat split; reflexivity. Qed.

Lemma is_head_shape c : is_head (shape c) = is_head c.
Proof. unfold is_head. now destruct (shape_class c) as (_ & _ & _ & _ & -> & _). Qed.

Lemma span_head_shape : forall l, span_head (map shape l) = (map shape (fst (span_head l)), map shape (snd (span_head l))).
Proof.
  induction l as [|c l IH]; simpl; [reflexivity|]. rewrite is_head_shape. destruct (is_head c); [|reflexivity].
  rewrite IH. destruct (span_head l) as [h r]. reflexivity.
Qed.

Lemma head_sorted_shape : forall h lo, head_sorted lo (map shape h) = head_sorted lo h.
Proof.
  induction h as [|c h IH]; intros lo; simpl; [reflexivity|].
  destruct (shape_class c) as (_ & _ & _ & _ & -> & _). destruct (head_rank c); [|reflexivity]. now rewrite IH.
Qed.

Lemma syms_ok_shape t e h : syms_ok t e (map shape h) = syms_ok t e h.
Proof.
  unfold syms_ok. induction h as [|c h IH]; simpl; [reflexivity|].
  destruct (shape_class c) as (_ & _ & _ & _ & _ & ->). now rewrite IH.
Qed.

Lemma check_items_shape t : forall fuel o l,
  check_items fuel t o (map shape l) =
  match check_items fuel t o l with Some (r, sp) => Some (map shape r, sp) | None => None end.
Proof.
  induction fuel as [|f IH]; intros o l; [reflexivity|].
  destruct l as [|c r]; [reflexivity|]. simpl map. simpl check_items.
  destruct (shape_class c) as (E1 & E2 & E3 & E4 & _ & _). rewrite E1, E3, E4.
  destruct (is_out c); [apply IH|]. destruct (is_etag c); [reflexivity|]. destruct (is_scope c); [|reflexivity].
  rewrite span_head_shape. destruct (span_head r) as [h r1]. simpl fst. simpl snd.
  destruct r1 as [|st r2]; [reflexivity|]. simpl map.
  destruct (shape_class st) as (_ & F2 & _ & _ & _ & _). rewrite F2, head_sorted_shape, map_length.
  destruct (is_stag st && head_sorted 0 h); [|reflexivity].
  rewrite IH. destruct (check_items f t (o + 2 + length h) r2) as [[r3' sb]|]; [|reflexivity].
  destruct r3' as [|en r3]; [reflexivity|]. simpl map.
  destruct (shape_class en) as (_ & _ & G3 & _ & _ & _). rewrite G3, syms_ok_shape. simpl length. rewrite !map_length.
  destruct (is_etag en && syms_ok t (o + 2 + length h + (length r2 - S (length r3))) h); [|reflexivity].
  rewrite IH. destruct (check_items f t (S (o + 2 + length h + (length r2 - S (length r3)))) r3) as [[rest sr]|]; reflexivity.
Qed.

Lemma In_span_mem s e l : In (s, e) l -> span_mem s e l = true.
Proof.
  induction l as [|[a b] l IH]; simpl; [tauto|]. intros [H|H].
  - inversion H; subst. now rewrite !Nat.eqb_refl.
  - rewrite (IH H). apply orb_true_r.
Qed.

(* a program whose shape list is well formed, and whose sub-templates are spans, passes wf_program *)
Theorem wf_program_complete p t m spans :
  wfitemsS t 0 (map shape p) spans ->
  (forall s, In s (all_subs p m) -> exists e, lookup_sym t (snd s) = Some e /\ In (fst s, e) spans) ->
  wf_program p t m = true.
Proof.
  intros W Hs. unfold wf_program.
  pose proof (check_items_complete t 0 (map shape p) spans W [] (S (length p)) (or_introl eq_refl)) as C.
  rewrite app_nil_r, map_length in C. specialize (C (Nat.lt_succ_diag_r _)).
  rewrite check_items_shape in C.
  destruct (check_items (S (length p)) t 0 p) as [[r sp]|]; [|discriminate].
  inversion C as [[Hr Hsp]]. destruct r; [|discriminate]. subst sp.
  apply forallb_forall. intros s Hin. destruct (Hs s Hin) as (e & L & I). unfold sub_ok. rewrite L. now apply In_span_mem.
Qed.
