(* The interpreter implements the tree-walking specification (Model/TALSpec.v), stage 1:
   condition, content | replace, attributes, omit-tag.  For every program segment that represents a
   forest (rep), running the VM with the data instance from the first command of the segment
   reaches its end after finitely many steps, has written exactly spec_forest, and has restored all
   registers (control and data).  Structural induction on rep; the statements of an element are
   walked in order with an invariant that relates the interpreter's flags (outputTag, tagContent,
   currentAttributes, movePCForward) to the record of the specification. *)
From Coq Require Import Lia PeanoNat String.
From PG Require Import Lib.Str Lib.HtmlEsc Model.TALProg Model.TALProgSpec Model.TALCompile Model.TALVM Model.TALOut
                       Model.TALSpec Proofs.TALProgFacts Proofs.TALVMFacts Proofs.TALVMTerm.

Section SpecFacts.
  Variable val : Type.
  Variable eval : str -> list (str * str) -> val.
  Variable v_nothing v_default v_truth : val -> bool.
  Variable v_text : val -> str.
  Variable prog : program.
  Variable tab : symtab.

  Notation DS := (dstate val).
  Notation upd := (data_upd val eval v_nothing v_default v_truth v_text).
  Notation cnd := (data_cond val eval v_nothing v_truth).
  Notation vl := (data_val val eval v_nothing v_default).
  Notation orep := (fun (_ : DS) (_ : cmd) => RDefault).
  Notation omac := (fun (_ : DS) (_ : cmd) => MOther).
  Notation machX := (mach DS).
  Notation stepX := (step tab [] DS cnd orep vl omac upd).
  Notation TermX := (Term prog tab DS cnd orep vl omac upd).
  Notation spec_nodeX := (spec_node val eval v_nothing v_default v_truth v_text).
  Notation spec_forestX := (spec_forest val eval v_nothing v_default v_truth v_text).
  Notation applyX := (apply_stmt val eval v_nothing v_default v_truth v_text).
  Notation GoodX := (Good [] DS).
  Notation SegPostX := (SegPost [] DS).
  Notation repX := (rep tab).

  Definition tc_of (c : scontent val) : option (bool * val) :=
    match c with SVal st v => Some (st, v) | _ => None end.

  Definition Post (m : machX) (target : nat) (out : str) (m' : machX) : Prop :=
    SegPostX m target m' /\ dat DS m' = write out (dat DS m).

  Lemma fold_dead orig : forall hs st, s_alive st = false -> fold_left (applyX orig) hs st = st.
  Proof.
    induction hs as [|c hs IH]; intros st H; simpl; [reflexivity|].
    unfold apply_stmt at 2. rewrite H. simpl. apply IH. exact H.
  Qed.

  Lemma write_write (d : DS) a b : write b (write a d) = write (a ++ b) d.
  Proof. unfold write. simpl. now rewrite app_assoc. Qed.

  Section Elem.
    Variables (o e : nat) (orig cur : list (str * str)) (stmts : list cmd) (tag etag : str) (sg noend sg' : bool).
    Variables (body : list cmd) (bf : list tnode).
    Variables (pre post : list cmd).
    Let sc := CStartScope orig cur.
    Let st := CStartTag tag sg.
    Let en := CEndTagEndScope etag noend sg'.
    Hypothesis He : e = o + 2 + length stmts + length body.
    Hypothesis Hprog : prog = pre ++ (sc :: stmts ++ st :: body ++ [en]) ++ post.
    Hypothesis Hpre : length pre = o.
    Hypothesis Hstage : forallb stage1_stmt stmts = true.
    Hypothesis Hsorted : head_sorted 0 stmts = true.
    Hypothesis Hsyms : syms_ok tab e stmts = true.
    Hypothesis IHbody :
      forall pre' post', prog = pre' ++ body ++ post' -> length pre' = o + 2 + length stmts ->
      forall L m, o + 2 + length stmts + length body <= L -> pc DS m = o + 2 + length stmts -> GoodX m ->
        TermX L m (Post m (o + 2 + length stmts + length body) (spec_forestX bf)).
    Variable L : nat.
    Hypothesis HL : S e <= L.
    Variable m0 : machX.
    Hypothesis Hgood0 : GoodX m0.
    Let out0 := d_out (dat DS m0).
    Let R0 := d_regs (dat DS m0).
    Let S0 := d_stack (dat DS m0).

    Lemma el_length' : length (sc :: stmts ++ st :: body ++ [en]) = 3 + length stmts + length body.
    Proof. simpl. rewrite app_length. simpl. rewrite app_length. simpl. lia. Qed.
    Lemma N_sc' : nth_error prog o = Some sc.
    Proof.
      rewrite <- Hpre. replace (length pre) with (length pre + 0) by lia.
      rewrite (nth_error_seg prog pre _ post 0 Hprog); [reflexivity | rewrite el_length'; lia].
    Qed.
    Lemma N_head' j c : nth_error stmts j = Some c -> nth_error prog (o + 1 + j) = Some c.
    Proof.
      intros H. assert (Hj : j < length stmts) by (apply nth_error_Some; congruence).
      rewrite <- Hpre. replace (length pre + 1 + j) with (length pre + S j) by lia.
      rewrite (nth_error_seg prog pre _ post (S j) Hprog) by (rewrite el_length'; lia).
      simpl. rewrite nth_error_app1 by lia. exact H.
    Qed.
    Lemma N_st' : nth_error prog (o + 1 + length stmts) = Some st.
    Proof.
      rewrite <- Hpre. replace (length pre + 1 + length stmts) with (length pre + S (length stmts)) by lia.
      rewrite (nth_error_seg prog pre _ post (S (length stmts)) Hprog) by (rewrite el_length'; lia).
      simpl. rewrite nth_error_app2 by lia. replace (length stmts - length stmts) with 0 by lia. reflexivity.
    Qed.
    Lemma N_en' : nth_error prog e = Some en.
    Proof.
      rewrite He, <- Hpre.
      replace (length pre + 2 + length stmts + length body) with (length pre + (2 + length stmts + length body)) by lia.
      rewrite (nth_error_seg prog pre _ post _ Hprog) by (rewrite el_length'; lia).
      change (sc :: stmts ++ st :: body ++ [en]) with ((sc :: stmts) ++ (st :: body) ++ [en]).
      replace (2 + length stmts + length body) with (length (sc :: stmts) + length (st :: body)) by (simpl; lia).
      apply nth_error_last2.
    Qed.
    Lemma body_position' : prog = (pre ++ sc :: stmts ++ [st]) ++ body ++ ([en] ++ post) /\
                           length (pre ++ sc :: stmts ++ [st]) = o + 2 + length stmts.
    Proof.
      split.
      - rewrite Hprog. rewrite <- !app_assoc. simpl. f_equal. f_equal. rewrite <- !app_assoc. simpl.
        f_equal. f_equal. now rewrite <- app_assoc.
      - rewrite app_length. simpl. rewrite app_length. simpl. lia.
    Qed.
    Lemma stmt_sym c s : In c stmts -> cmd_sym c = Some s -> lookup_sym tab s = Some e.
    Proof. intros Hin Hs. exact (syms_ok_spec tab e stmts Hsyms c s Hin Hs). Qed.

    (* the control registers while the statements of the element are executed *)
    Definition CI (mj : machX) (fwd : option nat) : Prop :=
      sstack DS mj = SScope (rg DS m0) :: sstack DS m0 /\
      r_back (rg DS mj) = None /\ r_rep (rg DS mj) = None /\ r_lvd (rg DS mj) = false /\
      r_fwd (rg DS mj) = fwd /\ tc_ok [] (r_tc (rg DS mj)) /\
      c_sc (cx DS mj) = c_sc (cx DS m0) /\ slots_ok [] (slotp DS mj) /\ curs DS mj = curs DS m0.

    Definition pre_out (s : sstate val) : str :=
      if s_alive s then
        (if s_show s then tag_as_text tag (s_atts s) else []) ++
        (match s_content s with SBody => spec_forestX bf | _ => [] end)
      else [].

    (* about to execute the ENDTAG_ENDSCOPE *)
    Definition AtEnd (s : sstate val) (m' : machX) : Prop :=
      pc DS m' = e /\ (exists fwd, CI m' fwd) /\
      exists cur',
        dat DS m' = mkDS (out0 ++ pre_out s)
                         (mkDR (s_alive s && s_show s) orig cur'
                               (if s_alive s then tc_of (s_content s) else None))
                         (R0 :: S0).

    Lemma head_walk : forall hs hpre lo s mj,
      stmts = hpre ++ hs -> forallb stage1_stmt hs = true -> head_sorted lo hs = true ->
      pc DS mj = o + 1 + length hpre -> s_alive s = true -> (lo < 6 -> s_content s = SBody) ->
      CI mj (match s_content s with SBody => None | _ => Some e end) ->
      dat DS mj = mkDS out0 (mkDR (s_show s) orig (s_atts s) (tc_of (s_content s))) (R0 :: S0) ->
      TermX L mj (AtEnd (fold_left (applyX orig) hs s)).
    Proof.
      induction hs as [|c hs IH]; intros hpre lo s mj Hh Hst1 Hs Hpc Hal Hlo Hci Hd.
      - (* STARTTAG *)
        rewrite app_nil_r in Hh. subst hpre. simpl fold_left.
        destruct Hci as (C1 & C2 & C3 & C4 & C5 & C6 & C7 & C8 & C9).
        assert (Hstep : forall call, stepX call st mj =
                  Done (match r_fwd (rg DS mj) with Some p => set_pc DS p (updm DS upd mj st) | None => next DS (updm DS upd mj st) end))
          by (intros call; apply step_stag; reflexivity).
        assert (Hdat : (if d_show (d_regs (dat DS mj))
                        then write (tag_as_text tag (d_cur (d_regs (dat DS mj)))) (dat DS mj) else dat DS mj) =
                       mkDS (out0 ++ (if s_show s then tag_as_text tag (s_atts s) else []))
                            (mkDR (s_show s) orig (s_atts s) (tc_of (s_content s))) (R0 :: S0)).
        { rewrite Hd. simpl. destruct (s_show s); unfold write; simpl; [reflexivity | now rewrite app_nil_r]. }
        assert (Jump : r_fwd (rg DS mj) = Some e -> s_content s <> SBody ->
                       TermX L mj (AtEnd s)).
        { intros Hf Hne. eapply term_step; [lia | rewrite Hpc; apply N_st' | intros call; rewrite Hstep, Hf; reflexivity |].
          apply term_here. split; [reflexivity|]. split.
          - exists (Some e). unfold CI. simpl. repeat split; auto.
          - exists (s_atts s). simpl. rewrite Hdat. unfold pre_out. rewrite Hal. simpl.
            destruct (s_content s); [congruence | now rewrite app_nil_r | now rewrite app_nil_r]. }
        destruct (s_content s) eqn:Ec.
        + (* own children *)
          eapply term_step; [lia | rewrite Hpc; apply N_st' | intros call; rewrite Hstep, C5; reflexivity |].
          destruct body_position' as [Bp Bl].
          eapply term_weaken.
          * apply (IHbody _ _ Bp Bl L); [lia | simpl; lia |].
            destruct Hgood0 as (G1 & G2 & G3). repeat split; simpl; auto. now rewrite C9.
          * intros m' ((P1 & P2 & P3 & P4 & P5 & P6) & Pd). simpl in P1, P2, P3, P4, P5.
            split; [lia|]. split.
            -- exists None. unfold CI. rewrite P2, P3, P4, P5. repeat split; auto.
            -- exists (s_atts s). rewrite Pd. simpl. rewrite Hdat. unfold pre_out. rewrite Hal, Ec. simpl.
               unfold write. simpl. now rewrite app_assoc.
        + apply Jump; [exact C5 | discriminate].
        + apply Jump; [exact C5 | discriminate].
      - (* one statement *)
        simpl in Hst1. apply andb_true_iff in Hst1. destruct Hst1 as [Hc1 Hst1].
        simpl in Hs. destruct (head_rank c) as [k|] eqn:Ek; [|discriminate].
        apply andb_true_iff in Hs. destruct Hs as [Hk Hs]. apply Nat.ltb_lt in Hk.
        assert (Hin : In c stmts) by (rewrite Hh; apply in_or_app; right; now left).
        assert (Hnth : nth_error prog (pc DS mj) = Some c).
        { rewrite Hpc. apply N_head'. rewrite Hh. rewrite nth_error_app2 by lia.
          replace (length hpre - length hpre) with 0 by lia. reflexivity. }
        assert (Hh' : stmts = (hpre ++ [c]) ++ hs) by (rewrite <- app_assoc; exact Hh).
        assert (Hlen : o + 1 + length (hpre ++ [c]) = S (o + 1 + length hpre)) by (rewrite app_length; simpl; lia).
        assert (Hlt : pc DS mj < L).
        { assert (length hpre < length stmts) by (rewrite Hh, app_length; simpl; lia). lia. }
        destruct Hci as (C1 & C2 & C3 & C4 & C5 & C6 & C7 & C8 & C9).
        assert (Horig : d_orig (d_regs (dat DS mj)) = orig) by (rewrite Hd; reflexivity).
        simpl fold_left.
        assert (Next : forall (s' : sstate val) (m1 : machX),
                  (forall call, stepX call c mj = Done m1) -> pc DS m1 = S (pc DS mj) ->
                  applyX orig s c = s' -> s_alive s' = true -> (k < 6 -> s_content s' = SBody) ->
                  CI m1 (match s_content s' with SBody => None | _ => Some e end) ->
                  dat DS m1 = mkDS out0 (mkDR (s_show s') orig (s_atts s') (tc_of (s_content s'))) (R0 :: S0) ->
                  TermX L mj (AtEnd (fold_left (applyX orig) hs (applyX orig s c)))).
        { intros s' m1 E1 E2 E3 E4 E5 E6 E7. rewrite E3.
          eapply term_step; [exact Hlt | exact Hnth | exact E1 |].
          apply (IH (hpre ++ [c]) k s' m1); auto. lia. }
        destruct c; try discriminate Hc1; simpl in Ek; inversion Ek; subst k.
        + (* condition *)
          assert (Hsym : lookup_sym tab sym = Some e) by (apply (stmt_sym _ _ Hin); reflexivity).
          assert (Hb : s_content s = SBody) by (apply Hlo; lia).
          destruct (is_true val v_nothing v_truth (eval e0 orig)) eqn:Et.
          * eapply (Next s).
            -- intros call. unfold step. simpl. unfold data_cond. rewrite Horig, Et. reflexivity.
            -- reflexivity.
            -- unfold apply_stmt. rewrite Hal. simpl. now rewrite Et.
            -- exact Hal.
            -- intros _. exact Hb.
            -- unfold CI. simpl. repeat split; auto.
            -- simpl. rewrite ?Horig, ?Et. exact Hd.
          * (* the element is not rendered *)
            assert (Hs' : applyX orig s (CCondition e0 sym) = mkSS false (s_show s) (s_content s) (s_atts s))
              by (unfold apply_stmt; rewrite Hal; simpl; now rewrite Et).
            rewrite Hs', fold_dead by reflexivity.
            eapply term_step; [exact Hlt | exact Hnth | intros call; unfold step; simpl; unfold data_cond; rewrite Horig, Et, Hsym; reflexivity |].
            apply term_here. split; [reflexivity|]. split.
            -- exists (r_fwd (rg DS mj)). unfold CI. simpl. repeat split; auto.
            -- exists (s_atts s). simpl. rewrite Hd. unfold pre_out, with_regs, set_tc, set_show. simpl.
               now rewrite app_nil_r.
        + (* content / replace *)
          assert (Hsym : lookup_sym tab sym = Some e) by (apply (stmt_sym _ _ Hin); reflexivity).
          assert (Hb : s_content s = SBody) by (apply Hlo; lia).
          destruct (v_nothing (eval e0 orig)) eqn:En; [|destruct (v_default (eval e0 orig)) eqn:Edf].
          * eapply (Next (mkSS true (if repl then false else s_show s) SNone (s_atts s))).
            -- intros call. unfold step. simpl. unfold data_val. rewrite Horig, En, Hsym. reflexivity.
            -- reflexivity.
            -- unfold apply_stmt. rewrite Hal. simpl. now rewrite En.
            -- reflexivity.
            -- intros X. lia.
            -- unfold CI. simpl. repeat split; auto.
            -- simpl. rewrite ?Horig, ?En. rewrite Hd. rewrite Hb. destruct repl; reflexivity.
          * eapply (Next s).
            -- intros call. unfold step. simpl. unfold data_val. rewrite Horig, En, Edf. reflexivity.
            -- reflexivity.
            -- unfold apply_stmt. rewrite Hal. simpl. now rewrite En, Edf.
            -- exact Hal.
            -- intros X. lia.
            -- rewrite Hb in C5 |- *. unfold CI. simpl. repeat split; auto.
            -- simpl. rewrite ?Horig, ?En, ?Edf. exact Hd.
          * eapply (Next (mkSS true (if repl then false else s_show s) (SVal struct (eval e0 orig)) (s_atts s))).
            -- intros call. unfold step. simpl. unfold data_val. rewrite Horig, En, Edf, Hsym. reflexivity.
            -- reflexivity.
            -- unfold apply_stmt. rewrite Hal. simpl. now rewrite En, Edf.
            -- reflexivity.
            -- intros X. lia.
            -- unfold CI. simpl. repeat split; auto.
            -- simpl. rewrite ?Horig, ?En, ?Edf. rewrite Hd. rewrite Hb. destruct repl; reflexivity.
        + (* attributes *)
          eapply (Next (mkSS true (s_show s) (s_content s)
                            (apply_attributes (map (fun a => (fst a, classify val v_nothing v_default v_text (eval (snd a) orig))) args) (s_atts s)))).
          * intros call. reflexivity.
          * reflexivity.
          * unfold apply_stmt. rewrite Hal. reflexivity.
          * reflexivity.
          * intros X. lia.
          * unfold CI. simpl. repeat split; auto.
          * simpl. rewrite ?Horig. rewrite Hd. reflexivity.
        + (* omit-tag *)
          destruct (is_true val v_nothing v_truth (eval e0 orig)) eqn:Et.
          * eapply (Next (mkSS true false (s_content s) (s_atts s))).
            -- intros call. reflexivity.
            -- reflexivity.
            -- unfold apply_stmt. rewrite Hal. simpl. now rewrite Et.
            -- reflexivity.
            -- intros X. lia.
            -- unfold CI. simpl. repeat split; auto.
            -- simpl. rewrite ?Horig, ?Et. rewrite Hd. reflexivity.
          * eapply (Next s).
            -- intros call. reflexivity.
            -- reflexivity.
            -- unfold apply_stmt. rewrite Hal. simpl. now rewrite Et.
            -- exact Hal.
            -- intros X. lia.
            -- unfold CI. simpl. repeat split; auto.
            -- simpl. rewrite ?Horig, ?Et. exact Hd.
    Qed.

    Lemma elem_run : pc DS m0 = o ->
      TermX L m0 (Post m0 (S e) (spec_nodeX (TElem orig cur stmts tag etag noend bf))).
    Proof.
      intros Hpc.
      eapply term_step; [lia | rewrite Hpc; apply N_sc' | intros call; apply step_scope; reflexivity |].
      eapply term_bind.
      - apply (head_walk stmts [] 0 (mkSS true true SBody cur)); [reflexivity | exact Hstage | exact Hsorted | simpl; lia | reflexivity | reflexivity | |].
        + destruct Hgood0 as (G1 & G2 & G3). unfold CI. simpl. repeat split; auto.
        + simpl. unfold out0, R0, S0. reflexivity.
      - intros m1 (Q1 & (fwd & C1 & C2 & C3 & C4 & C5 & C6 & C7 & C8 & C9) & (cur' & Qd)).
        set (sf := fold_left (applyX orig) stmts (mkSS true true SBody cur)) in *.
        eapply term_step; [lia | rewrite Q1; apply N_en' | intros call; rewrite (step_etag_nocall tab DS cnd orep vl omac upd call en m1 eq_refl C6);
                           unfold endtag_finish; simpl; rewrite C2, C4, C1; reflexivity |].
        apply term_here. split.
        + repeat split; simpl; auto; try lia.
        + simpl. rewrite Qd. simpl. unfold write. simpl.
          replace (dat DS m0) with (mkDS out0 R0 S0) by (unfold out0, R0, S0; destruct (dat DS m0); reflexivity).
          simpl. f_equal. rewrite <- app_assoc. f_equal.
          fold sf. unfold pre_out. destruct (s_alive sf); simpl; [|reflexivity].
          rewrite <- app_assoc. f_equal.
          destruct (s_content sf); simpl; reflexivity.
    Qed.
  End Elem.

  Lemma write_nil (d : DS) : write [] d = d.
  Proof. destruct d. unfold write. simpl. now rewrite app_nil_r. Qed.

  (* every program segment that represents a forest writes exactly what the specification says *)
  Lemma rep_run : forall o l f, repX o l f ->
    forall pre post, prog = pre ++ l ++ post -> length pre = o ->
    forall L m, o + length l <= L -> pc DS m = o -> GoodX m ->
      TermX L m (Post m (o + length l) (spec_forestX f)).
  Proof.
    induction 1 as [o|o s rest f _ IH|o orig cur stmts tag sg etag noend sg' body bf rest f H1 H2 H3 _ IHb _ IHr];
      intros pre post Hp Hl L m HL Hpc Hg.
    - apply term_here. split.
      + repeat split; auto; [simpl; lia | apply Hg].
      + unfold spec_forest. simpl. now rewrite write_nil.
    - simpl in HL.
      assert (Hnth : nth_error prog (pc DS m) = Some (COutput s)).
      { rewrite Hpc, <- Hl. replace (length pre) with (length pre + 0) by lia.
        rewrite (nth_error_seg prog pre (COutput s :: rest) post 0 Hp); [reflexivity | simpl; lia]. }
      eapply term_step; [lia | exact Hnth | intros call; apply step_out; reflexivity |].
      eapply term_weaken.
      + apply (IH (pre ++ [COutput s]) post); [rewrite Hp, <- app_assoc; reflexivity | rewrite app_length; simpl; lia | lia |
                                                simpl; lia | exact Hg].
      + intros m' ((A1 & A2 & A3 & A4 & A5 & A6) & Ad). simpl in *. split.
        * repeat split; auto. lia.
        * rewrite Ad. unfold spec_forest. simpl. now rewrite write_write.
    - set (el := CStartScope orig cur :: stmts ++ CStartTag tag sg :: body ++ [CEndTagEndScope etag noend sg']).
      assert (El : CStartScope orig cur :: stmts ++ CStartTag tag sg :: body ++ CEndTagEndScope etag noend sg' :: rest = el ++ rest).
      { unfold el. simpl. rewrite <- !app_assoc. simpl. rewrite <- !app_assoc. reflexivity. }
      assert (Len : length el = 3 + length stmts + length body).
      { unfold el. simpl. rewrite app_length. simpl. rewrite app_length. simpl. lia. }
      rewrite El in *. rewrite app_length, Len in HL.
      eapply term_bind.
      + apply (elem_run o (o + 2 + length stmts + length body) orig cur stmts tag etag sg noend sg' body bf pre (rest ++ post));
          try assumption; try lia; try reflexivity.
        rewrite Hp. unfold el. now rewrite <- app_assoc.
      + intros m1 ((A1 & A2 & A3 & A4 & A5 & A6) & Ad). eapply term_weaken.
        * apply (IHr (pre ++ el) post); [rewrite Hp, <- !app_assoc; reflexivity | rewrite app_length, Len; lia | lia | lia |].
          destruct Hg as (G1 & G2 & G3). repeat split; [exact A6 | rewrite A4; exact G2 | rewrite A3; exact G3].
        * intros m2 ((B1 & B2 & B3 & B4 & B5 & B6) & Bd). split.
          -- repeat split; try congruence; try (rewrite B1, app_length, Len; lia); auto.
          -- rewrite Bd, Ad. rewrite write_write. unfold spec_forest. simpl. reflexivity.
  Qed.

  (* the whole program *)
  Theorem expand_is_spec f :
    repX 0 prog f ->
    forall c, exists fuel mf,
      expand1 val eval v_nothing v_default v_truth v_text prog tab fuel c = Done mf /\
      d_out (dat DS mf) = spec_forestX f /\ d_stack (dat DS mf) = [] /\
      c_sc (cx DS mf) = c_sc c /\ sstack DS mf = [] /\ pc DS mf = length prog.
  Proof.
    intros R c. unfold expand1, vm_run.
    destruct (rep_run 0 prog f R [] [] (eq_sym (app_nil_r _)) eq_refl (length prog) (init DS c (dstate0 val)))
      as (n & m' & Hr & ((P1 & P2 & P3 & P4 & P5 & P6) & Pd)); auto.
    - repeat split; simpl; auto; intros ? ? X; discriminate X.
    - exists (n + 1), m'. rewrite Hr. simpl in P1. simpl.
      replace (Nat.leb (length prog) (pc DS m')) with true by (symmetry; apply Nat.leb_le; lia).
      split; [reflexivity|]. rewrite Pd. simpl. auto.
  Qed.
End SpecFacts.

(* reading the program back: parse_forest only accepts what rep describes *)
Lemma parse_forest_sound : forall fuel t o l f rest,
  parse_forest fuel t o l = Some (f, rest) -> exists items, l = items ++ rest /\ rep t o items f.
Proof.
  induction fuel as [|n IH]; intros t o l f rest H; [discriminate|].
  simpl in H. destruct l as [|c r]; [inversion H; subst; exists []; split; [reflexivity | constructor]|].
  destruct c; try discriminate.
  - (* START_SCOPE *)
    destruct (span_head r) as [h r1] eqn:Eh. apply span_head_app in Eh.
    destruct r1 as [|c1 r2]; [discriminate|]. destruct c1; try discriminate.
    destruct (forallb stage1_stmt h && head_sorted 0 h) eqn:E1; [|discriminate].
    apply andb_true_iff in E1. destruct E1 as [Est Ehs].
    destruct (parse_forest n t (o + 2 + length h) r2) as [[bf r3']|] eqn:Eb; [|discriminate].
    destruct r3' as [|c3 r3]; [discriminate|]. destruct c3; try discriminate.
    apply IH in Eb. destruct Eb as (body & Er2 & Rb).
    assert (Elen : length r2 - S (length r3) = length body) by (rewrite Er2, app_length; simpl; lia).
    simpl length in H. rewrite Elen in H.
    destruct (syms_ok t (o + 2 + length h + length body) h) eqn:Esy; [|discriminate].
    destruct (parse_forest n t (S (o + 2 + length h + length body)) r3) as [[fr rest']|] eqn:Er; [|discriminate].
    inversion H; subst f rest'. clear H.
    apply IH in Er. destruct Er as (items' & Er3 & Rr).
    exists (CStartScope orig cur :: h ++ CStartTag tag single :: body ++ CEndTagEndScope tag0 omit single0 :: items').
    split.
    + subst r r2 r3. simpl. rewrite <- !app_assoc. simpl. rewrite <- !app_assoc. reflexivity.
    + apply rep_elem; auto.
      replace (o + 3 + length h + length body) with (S (o + 2 + length h + length body)) by lia. exact Rr.
  - (* OUTPUT *)
    destruct (parse_forest n t (S o) r) as [[fr rest']|] eqn:E; [|discriminate]. inversion H; subst.
    apply IH in E. destruct E as (items & El & R). exists (COutput s :: items). split; [now rewrite El | now constructor].
  - (* ENDTAG_ENDSCOPE: the caller's *)
    inversion H; subst. exists []. split; [reflexivity | constructor].
Qed.

(* ---- statements as they appear in Props ---- *)
Theorem expand_spec_parsed :
  forall (val : Type) (eval : str -> list (str * str) -> val) (v_nothing v_default v_truth : val -> bool)
         (v_text : val -> str) (p : program) (t : symtab) (f : list tnode),
    parse_forest (S (length p)) t 0 p = Some (f, []) ->
    forall c, exists fuel mf,
      expand1 val eval v_nothing v_default v_truth v_text p t fuel c = Done mf /\
      d_out (dat (dstate val) mf) = spec_forest val eval v_nothing v_default v_truth v_text f /\
      d_stack (dat (dstate val) mf) = [] /\
      c_sc (cx (dstate val) mf) = c_sc c /\ sstack (dstate val) mf = [] /\ pc (dstate val) mf = length p.
Proof.
  intros val eval v_nothing v_default v_truth v_text p t f H.
  destruct (parse_forest_sound _ _ _ _ _ _ H) as (items & E & R). rewrite app_nil_r in E. subst items.
  now apply expand_is_spec.
Qed.
