(* The compiler model applied to the event stream of a document tree (Model/TALDoc.v) produces a
   program that reads back as a forest with the same specification as the document's own forest:
   structural induction on the document; adjacent OUTPUT commands are merged by the compiler, so the
   forest that is read back is the document's forest with adjacent literal chunks joined — the
   specification writes the same text for both.  Together with Proofs/TALSpecFullFacts.expand_is_spec:
   compile, then interpret = the tree-walking specification of the SOURCE document. *)
From Coq Require Import Lia PeanoNat String List Permutation.
From PG Require Import Lib.Str Lib.HtmlEsc Model.TALProg Model.TALProgSpec Model.TALCompile Model.TALVM Model.TALOut
                       Model.TALSpecFull Model.TALDoc Proofs.TALProgFacts Proofs.TALVMFacts Proofs.TALVMTerm
                       Proofs.TALCompileFacts Proofs.TALCompileWf Proofs.TALSpecFullFacts.
Import ListNotations.

(* ---------------- rep: symbol tables that grow, concatenation, the last literal chunk ---------------- *)
Lemma syms_ok_ext T T' e h : ext T T' -> syms_ok T e h = true -> syms_ok T' e h = true.
Proof.
  intros X. unfold syms_ok. rewrite !forallb_forall. intros H c Hc. specialize (H c Hc).
  destruct (cmd_sym c) as [s|]; [|reflexivity].
  unfold opt_nat_eqb in *. destruct (lookup_sym T s) as [v|] eqn:L; [|discriminate]. now rewrite (X _ _ L).
Qed.

Lemma rep_ext T T' : ext T T' -> forall o l f, rep T o l f -> rep T' o l f.
Proof.
  intros X. induction 1; [constructor | now constructor |].
  apply rep_elem; auto. eapply syms_ok_ext; eauto.
Qed.

Lemma rep_app T : forall o l1 f1, rep T o l1 f1 -> forall l2 f2, rep T (o + length l1) l2 f2 -> rep T o (l1 ++ l2) (f1 ++ f2).
Proof.
  induction 1 as [o|o s rest f _ IH|o orig cur stmts tag sg etag noend sg' body bf rest f H1 H2 H3 Rb _ _ IHr]; intros l2 f2 R2.
  - simpl in *. now rewrite Nat.add_0_r in R2.
  - simpl. constructor. apply IH. simpl in R2. now replace (S o + length rest) with (o + S (length rest)) by lia.
  - simpl. replace ((stmts ++ CStartTag tag sg :: body ++ CEndTagEndScope etag noend sg' :: rest) ++ l2)
      with (stmts ++ CStartTag tag sg :: body ++ CEndTagEndScope etag noend sg' :: (rest ++ l2))
      by (rewrite <- !app_assoc; simpl; rewrite <- !app_assoc; reflexivity).
    apply rep_elem; auto. apply IHr.
    replace (o + 3 + length stmts + length body + length rest)
      with (o + length (CStartScope orig cur :: stmts ++ CStartTag tag sg :: body ++ CEndTagEndScope etag noend sg' :: rest)); [exact R2|].
    simpl. rewrite app_length. simpl. rewrite app_length. simpl. lia.
Qed.

Lemma rep_snoc_out T o l f s : rep T o l f -> rep T o (l ++ [COutput s]) (f ++ [TOut s]).
Proof. intros R. apply rep_app; [exact R|]. repeat constructor. Qed.

Lemma rep_last_out T : forall o L f', rep T o L f' -> forall l a, L = l ++ [COutput a] ->
  exists f, f' = f ++ [TOut a] /\ rep T o l f.
Proof.
  induction 1 as [o|o s rest f R IH|o orig cur stmts tag sg etag noend sg' body bf rest f H1 H2 H3 Rb _ Rr IHr]; intros l a E.
  - destruct l; discriminate.
  - destruct l as [|c l0]; simpl in E.
    + inversion E; subst. inversion R; subst. exists []. split; [reflexivity | constructor].
    + inversion E; subst. destruct (IH l0 a eq_refl) as (f0 & -> & R0). exists (TOut s :: f0). split; [reflexivity | now constructor].
  - destruct (exists_last (l := rest)) as (rest0 & lastc & Er).
    + intros ->. (* the whole list ends with the end tag command *)
      assert (X : CStartScope orig cur :: stmts ++ CStartTag tag sg :: body ++ [CEndTagEndScope etag noend sg'] =
                  (CStartScope orig cur :: stmts ++ CStartTag tag sg :: body) ++ [CEndTagEndScope etag noend sg']).
      { simpl. rewrite <- app_assoc. reflexivity. }
      rewrite X in E. apply app_inj_tail in E. destruct E as [_ E]. discriminate.
    + subst rest.
      assert (X : CStartScope orig cur :: stmts ++ CStartTag tag sg :: body ++ CEndTagEndScope etag noend sg' :: rest0 ++ [lastc] =
                  (CStartScope orig cur :: stmts ++ CStartTag tag sg :: body ++ CEndTagEndScope etag noend sg' :: rest0) ++ [lastc]).
      { simpl. rewrite <- !app_assoc. simpl. rewrite <- !app_assoc. reflexivity. }
      rewrite X in E. apply app_inj_tail in E. destruct E as [El ->].
      destruct (IHr rest0 a eq_refl) as (f0 & -> & R0).
      exists (TElem orig cur stmts tag etag noend bf :: f0). split; [reflexivity|]. subst l. now apply rep_elem.
Qed.

(* ---------------- forests with the same specification ---------------- *)
Section Feq.
  Variable val : Type.
  Variable E : Type.
  Variable eval : E -> str -> list (str * str) -> val.
  Variable e_push e_pop : E -> E.
  Variable e_local e_global : E -> str -> val -> E.
  Variable e_add_repeat : E -> str -> val -> E.
  Variable e_next_repeat e_remove_repeat : E -> str -> E.
  Variable v_nothing v_default v_truth : val -> bool.
  Variable v_text : val -> str.
  Variable v_len : val -> option nat.

  Notation walkX := (walk val E eval e_push e_local e_global e_add_repeat e_next_repeat e_remove_repeat
                          v_nothing v_default v_truth v_text v_len).
  Notation iterX := (rep_iter E e_next_repeat e_remove_repeat).
  Notation spec_nodeX := (spec_node val E eval e_push e_pop e_local e_global e_add_repeat e_next_repeat e_remove_repeat
                                    v_nothing v_default v_truth v_text v_len).
  Notation spec_forestX := (spec_forest val E eval e_push e_pop e_local e_global e_add_repeat e_next_repeat e_remove_repeat
                                        v_nothing v_default v_truth v_text v_len).

  Definition feq (f g : list tnode) : Prop := forall env, spec_forestX env f = spec_forestX env g.

  Lemma feq_refl f : feq f f. Proof. intros env. reflexivity. Qed.
  Lemma feq_trans f g h : feq f g -> feq g h -> feq f h. Proof. intros A B env. now rewrite A, B. Qed.
  Lemma feq_sym f g : feq f g -> feq g f. Proof. intros A env. now rewrite A. Qed.

  Lemma spec_forest_app : forall f g env,
    spec_forestX env (f ++ g) =
    (fst (spec_forestX env f) ++ fst (spec_forestX (snd (spec_forestX env f)) g), snd (spec_forestX (snd (spec_forestX env f)) g)).
  Proof.
    induction f as [|x f IH]; intros g env.
    - simpl. now destruct (spec_forestX env g).
    - simpl. destruct (spec_nodeX env x) as [a e1]. rewrite IH.
      destruct (spec_forestX e1 f) as [b e2]. simpl. destruct (spec_forestX e2 g) as [c e3]. simpl. now rewrite app_assoc.
  Qed.

  Lemma feq_app f f' g g' : feq f f' -> feq g g' -> feq (f ++ g) (f' ++ g').
  Proof. intros A B env. rewrite !spec_forest_app. rewrite A, B. reflexivity. Qed.

  Lemma feq_merge f a b : feq (f ++ [TOut (a ++ b)]) ((f ++ [TOut a]) ++ [TOut b]).
  Proof.
    rewrite <- app_assoc. apply feq_app; [apply feq_refl|]. intros env. simpl. now rewrite !app_nil_r.
  Qed.

  (* an element: what the specification does with it, with the children's forest as a function *)
  Definition render_of (tag etag : str) (noend : bool) (body : list tnode) (env : E) (st : sstate val) : str * E :=
    let '(inner, env1) :=
      match s_content st with
      | SBody => spec_forestX env body
      | SNone => ([], env)
      | SVal structure v => (content_text structure (v_text v), env)
      end in
    ((if s_show st then tag_as_text tag (s_atts st) else []) ++ inner ++
     (if s_show st && negb noend then end_tag_text etag else []), env1).

  Lemma spec_node_elem env orig cur stmts tag etag noend body :
    spec_nodeX env (TElem orig cur stmts tag etag noend body) =
    let '(out, env1) := walkX orig (render_of tag etag noend body) stmts env (mkSS true SBody cur) in
    (out, if has_local_define stmts then e_pop env1 else env1).
  Proof. reflexivity. Qed.

  (* symbols do not matter to the specification *)
  Definition erase (c : cmd) : cmd :=
    match c with
    | CCondition e _ => CCondition e 0
    | CRepeat v e _ => CRepeat v e 0
    | CContent r st e _ => CContent r st e 0
    | c => c
    end.

  Lemma walk_erase orig render : forall stmts env st,
    walkX orig render (map erase stmts) env st = walkX orig render stmts env st.
  Proof.
    induction stmts as [|c rest IH]; intros env st; simpl; [reflexivity|].
    destruct c; simpl; try apply IH.
    - destruct (is_true _ _ _ _); [apply IH | reflexivity].
    - destruct (repeat_dec _ _ _ _ _); [apply IH | reflexivity |].
      apply rep_iter_ext. intros env1. apply IH.
    - destruct (v_nothing _); [apply IH|]. destruct (v_default _); apply IH.
    - destruct (is_true _ _ _ _); apply IH.
  Qed.

  Lemma has_local_define_erase stmts : has_local_define (map erase stmts) = has_local_define stmts.
  Proof. unfold has_local_define. induction stmts as [|c r IH]; simpl; [reflexivity|]. rewrite IH. destruct c; reflexivity. Qed.

  Lemma feq_elem orig cur stmts tag etag noend b1 b2 :
    feq b1 b2 -> feq [TElem orig cur stmts tag etag noend b1] [TElem orig cur (map erase stmts) tag etag noend b2].
  Proof.
    intros B env. cbn [spec_forest]. rewrite !spec_node_elem. rewrite walk_erase, has_local_define_erase.
    rewrite (walk_ext _ _ _ _ _ _ _ _ _ _ _ _ _ _ orig (render_of tag etag noend b1) (render_of tag etag noend b2)).
    - reflexivity.
    - intros env1 st. unfold render_of. destruct (s_content st); try reflexivity. now rewrite B.
  Qed.
End Feq.

(* ---------------- the statements of one element ---------------- *)
Lemma compile_stmt_tal estart op arg s : In op TAL_OPS ->
  compile_stmt repaired estart op arg s =
  match tal_stmt_of op arg (cs_sym s) with Some c => COk (Some c, s) | None => CErr end.
Proof.
  unfold TAL_OPS. intros H. simpl in H.
  destruct H as [<-|[<-|[<-|[<-|[<-|[<-|[<-|[]]]]]]]]; unfold compile_stmt, tal_stmt_of; cbn [Nat.eqb OP_DEFINE OP_CONDITION OP_REPEAT OP_CONTENT OP_REPLACE OP_ATTRIBUTES OP_OMITTAG].
  all: try reflexivity.
  all: match goal with |- context [match ?x with Some _ => _ | None => _ end] => destruct x; reflexivity end.
Qed.

Lemma compile_content_erase repl arg sym :
  compile_content repaired repl arg 0 = option_map erase (compile_content repaired repl arg sym).
Proof.
  unfold compile_content. destruct arg as [|a0 ar]; [reflexivity|].
  destruct (words (a0 :: ar)) as [|a [|b r]]; try reflexivity.
  destruct (str_eqb a STRUCTURE); [reflexivity|]. destruct (str_eqb _ TEXT); reflexivity.
Qed.

Lemma tal_stmt_of_props op arg sym c : tal_stmt_of op arg sym = Some c ->
  tal_stmt c = true /\ head_rank c = oprank op /\ (forall j, cmd_sym c = Some j -> j = sym) /\
  tal_stmt_of op arg 0 = Some (erase c).
Proof.
  unfold tal_stmt_of.
  destruct (Nat.eqb op OP_DEFINE) eqn:E1.
  { apply Nat.eqb_eq in E1. subst op. intros H. destruct (compile_define_shape _ _ H) as (l & ->). rewrite H.
    repeat split; try reflexivity. intros j X; discriminate X. }
  destruct (Nat.eqb op OP_CONDITION) eqn:E2.
  { apply Nat.eqb_eq in E2. subst op. intros H. pose proof (compile_condition_shape _ _ _ H) as ->.
    repeat split; try reflexivity; [intros j X; now inversion X|].
    unfold compile_condition in *. destruct arg; [discriminate | reflexivity]. }
  destruct (Nat.eqb op OP_REPEAT) eqn:E3.
  { apply Nat.eqb_eq in E3. subst op. intros H. destruct (compile_repeat_shape _ _ _ H) as (v & e & ->).
    repeat split; try reflexivity; [intros j X; now inversion X|].
    unfold compile_repeat in *. destruct (words arg) as [|v0 [|x r]]; try discriminate. inversion H; subst. reflexivity. }
  destruct (Nat.eqb op OP_CONTENT) eqn:E4.
  { apply Nat.eqb_eq in E4. subst op. intros H. destruct (compile_content_shape _ _ _ _ _ H) as (st & e & ->).
    repeat split; try reflexivity; [intros j X; now inversion X|].
    rewrite (compile_content_erase false arg sym), H. reflexivity. }
  destruct (Nat.eqb op OP_REPLACE) eqn:E5.
  { apply Nat.eqb_eq in E5. subst op. intros H. destruct (compile_content_shape _ _ _ _ _ H) as (st & e & ->).
    repeat split; try reflexivity; [intros j X; now inversion X|].
    rewrite (compile_content_erase true arg sym), H. reflexivity. }
  destruct (Nat.eqb op OP_ATTRIBUTES) eqn:E6.
  { apply Nat.eqb_eq in E6. subst op. intros H. destruct (compile_attributes_shape _ _ H) as (l & ->). rewrite H.
    repeat split; try reflexivity. intros j X; discriminate X. }
  destruct (Nat.eqb op OP_OMITTAG) eqn:E7; [|discriminate].
  apply Nat.eqb_eq in E7. subst op. intros H. unfold compile_omit_tag in *. inversion H; subst.
  repeat split; try reflexivity. intros j X; discriminate X.
Qed.

Lemma tal_stmt_not_output c : tal_stmt c = true -> not_output c.
Proof. intros H x ->. discriminate. Qed.

Lemma stmts_of_props : forall ops args sym stmts, stmts_of ops args sym = Some stmts ->
  forallb tal_stmt stmts = true /\ (forall c j, In c stmts -> cmd_sym c = Some j -> j = sym) /\
  stmts_of ops args 0 = Some (map erase stmts) /\ length stmts = length ops /\
  (forall lo, ops_ok lo ops = true -> head_sorted lo stmts = true).
Proof.
  induction ops as [|op r IH]; intros args sym stmts H; simpl in H.
  - inversion H; subst. repeat split; auto. intros c j [].
  - destruct (assoc_nat op args) as [arg|] eqn:Ea; [|discriminate].
    destruct (tal_stmt_of op arg sym) as [c|] eqn:Ec; [|discriminate].
    destruct (stmts_of r args sym) as [l|] eqn:El; [|discriminate]. inversion H; subst stmts. clear H.
    destruct (tal_stmt_of_props _ _ _ _ Ec) as (P1 & P2 & P3 & P4).
    destruct (IH _ _ _ El) as (Q1 & Q2 & Q3 & Q4 & Q5).
    repeat split.
    + simpl. now rewrite P1, Q1.
    + intros c0 j [<-|Hin] Hs; [now apply P3 | eapply Q2; eauto].
    + simpl. rewrite Ea, P4, Q3. reflexivity.
    + simpl. now rewrite Q4.
    + intros lo Hok. simpl in Hok. simpl. rewrite P2. destruct (oprank op) as [k|] eqn:Ek.
      * apply andb_true_iff in Hok. destruct Hok as [A B]. rewrite A. simpl. now apply Q5.
      * exfalso. destruct c; simpl in P1, P2; discriminate.
Qed.

(* pushing commands that are not OUTPUT *)
Definition push_all (cs : list cmd) (s : cstate) : cstate :=
  mkCS (rev cs ++ cs_rcmds s) (cs_stack s) (cs_syms s) (cs_macros s) (cs_sym s).

Lemma push_all_snoc cs c s : tal_stmt c = true -> add_command c (push_all cs s) = push_all (cs ++ [c]) s.
Proof.
  intros H. rewrite add_command_other by now apply tal_stmt_not_output.
  unfold push_all. simpl. rewrite rev_app_distr. reflexivity.
Qed.

Lemma compile_stmts_tal estart args tag clean orig : forall ops s0 done first' s',
  Forall (fun op => In op TAL_OPS) ops -> done <> [] ->
  compile_stmts repaired estart ops args tag clean orig false (push_all done s0) = COk (first', s') ->
  exists stmts, stmts_of ops args (cs_sym s0) = Some stmts /\ first' = false /\ s' = push_all (done ++ stmts) s0.
Proof.
  induction ops as [|op r IH]; intros s0 done first' s' F Hd H; simpl in H.
  - apply COk_inj in H. inversion H; subst. exists []. now rewrite app_nil_r.
  - inversion F as [|? ? Fo Fr]; subst.
    destruct (assoc_nat op args) as [arg|] eqn:Ea; [|discriminate].
    rewrite compile_stmt_tal in H by exact Fo. simpl cs_sym in H.
    destruct (tal_stmt_of op arg (cs_sym s0)) as [c|] eqn:Ec; [|discriminate].
    destruct (tal_stmt_of_props _ _ _ _ Ec) as (P1 & _).
    rewrite push_all_snoc in H by exact P1.
    destruct (IH s0 (done ++ [c]) first' s' Fr) as (stmts & Es & -> & ->); [now destruct done | exact H|].
    exists (c :: stmts). simpl. rewrite Ea, Ec, Es. repeat split. now rewrite <- app_assoc.
Qed.

(* ---------------- a start tag ---------------- *)
Lemma compile_stmts_cons fixed estart op r args tag clean orig first s :
  compile_stmts fixed estart (op :: r) args tag clean orig first s =
  match assoc_nat op args with
  | None => CErr
  | Some arg =>
      match compile_stmt fixed estart op arg s with
      | COk (Some c, s1) =>
          compile_stmts fixed estart r args tag clean orig false
            (if first then add_tag tag clean orig (Some (cs_sym s)) (Some c) s1 else add_command c s1)
      | COk (None, s1) => compile_stmts fixed estart r args tag clean orig first s1
      | CErr => CErr
      | CUnsupported => CUnsupported
      end
  end.
Proof. reflexivity. Qed.

Definition tal_open (tag : str) (sc : scan) (stmts : list cmd) (s : cstate) : cstate :=
  mkCS (CStartTag tag false :: rev stmts ++ CStartScope (sc_orig sc) (sc_clean sc) :: cs_rcmds s)
       (mkTag tag (Some (S (cs_sym s))) None :: cs_stack s) (cs_syms s) (cs_macros s) (S (cs_sym s)).

Lemma parse_start_tag_doc tag a s s' : parse_start_tag repaired tag a s = COk s' ->
  exists sc, scan_tag tag a = COk sc /\
    (sc_metal sc <> [] \/
     (sc_metal sc = [] /\ sc_tal sc = [] /\
      s' = add_command (COutput (tag_as_text tag (sc_clean sc))) (push_tag (mkTag tag None None) s)) \/
     (sc_metal sc = [] /\ sc_tal sc <> [] /\
      exists stmts, stmts_of (sort_nat (sc_tal sc)) (sc_args sc) (S (cs_sym s)) = Some stmts /\ stmts <> [] /\
                    head_sorted 0 stmts = true /\ s' = tal_open tag sc stmts s)).
Proof.
  intros H. unfold parse_start_tag in H.
  match type of H with context [scan_atts repaired ?tn ?px a ?sx] =>
    assert (I0 : ScanInv sx) by apply scan0_inv;
    assert (Esc : scan_tag tag a = scan_atts repaired tn px a sx) by reflexivity;
    destruct (scan_atts repaired tn px a sx) as [sc| |] eqn:Es; try discriminate H;
    pose proof (scan_atts_inv tn px a sx sc I0 Es) as (N1 & N2 & F1 & F2 & HA) end.
  exists sc. split; [exact Esc|].
  simpl v_dup in H. simpl andb in H.
  destruct (has_arg OP_CONTENT sc && has_arg OP_REPLACE sc) eqn:E45; [discriminate|].
  assert (H45 : ~ (In 4%nat (sc_tal sc) /\ In 5%nat (sc_tal sc))).
  { intros [A B]. assert (X : has_arg OP_CONTENT sc = true) by (apply HA, in_or_app; now left).
    assert (Y : has_arg OP_REPLACE sc = true) by (apply HA, in_or_app; now left). rewrite X, Y in E45. discriminate. }
  destruct (sc_metal sc) as [|m0 mr] eqn:Em; [|left; discriminate]. right.
  destruct (sc_tal sc) as [|t0 tr] eqn:Et.
  - left. apply COk_inj in H. subst s'. repeat split.
  - right. split; [reflexivity|]. split; [discriminate|].
    set (s1 := mkCS (cs_rcmds s) (cs_stack s) (cs_syms s) (cs_macros s) (S (cs_sym s))) in *.
    assert (Ok0 : ops_ok 0 (sort_nat [] ++ sort_nat (t0 :: tr)) = true).
    { apply ops_ok_sorted; auto. }
    assert (Fo : Forall (fun op => In op TAL_OPS) (sort_nat (t0 :: tr))).
    { eapply Permutation_Forall; [apply sort_nat_perm | exact F1]. }
    assert (Len : length (sort_nat (t0 :: tr)) = S (length tr)).
    { rewrite <- (Permutation_length (sort_nat_perm (t0 :: tr))). reflexivity. }
    change (sort_nat [] ++ sort_nat (t0 :: tr)) with (sort_nat (t0 :: tr)) in *.
    destruct (sort_nat (t0 :: tr)) as [|op r] eqn:Eops; [discriminate Len|].
    rewrite compile_stmts_cons in H.
    inversion Fo as [|? ? Fop Fr]; subst.
    destruct (assoc_nat op (sc_args sc)) as [arg|] eqn:Ea; [|discriminate].
    rewrite compile_stmt_tal in H by exact Fop.
    destruct (tal_stmt_of op arg (cs_sym s1)) as [c|] eqn:Ec; [|discriminate].
    destruct (tal_stmt_of_props _ _ _ _ Ec) as (P1 & P2 & P3 & P4).
    set (s0 := push_tag (mkTag tag (Some (cs_sym s1)) None) s1) in *.
    assert (Eadd : add_tag tag (sc_clean sc) (sc_orig sc) (Some (cs_sym s1)) (Some c) s1 =
                   push_all [CStartScope (sc_orig sc) (sc_clean sc); c] s0).
    { unfold add_tag. replace (match c with CUseMacro _ _ _ => Some (S (ncmds s1)) | _ => None end) with (@None nat)
        by (destruct c; simpl in P1; try discriminate; reflexivity).
      rewrite (add_command_other c) by now apply tal_stmt_not_output.
      rewrite add_command_other by (intros x; discriminate). reflexivity. }
    rewrite Eadd in H.
    destruct (compile_stmts repaired (ncmds s1) r (sc_args sc) tag (sc_clean sc) (sc_orig sc) false
                (push_all [CStartScope (sc_orig sc) (sc_clean sc); c] s0)) as [[first s2]| |] eqn:Ecs; try discriminate.
    assert (Hne : [CStartScope (sc_orig sc) (sc_clean sc); c] <> []) by discriminate.
    destruct (compile_stmts_tal _ _ _ _ _ _ _ _ _ _ Fr Hne Ecs) as (stmts & Est & -> & ->).
    apply COk_inj in H. subst s'.
    exists (c :: stmts). split; [|split; [discriminate|split]].
    + simpl. rewrite Ea. change (cs_sym s0) with (S (cs_sym s)) in Est. change (cs_sym s1) with (S (cs_sym s)) in Ec.
      rewrite Ec, Est. reflexivity.
    + assert (X : stmts_of (op :: r) (sc_args sc) (S (cs_sym s)) = Some (c :: stmts)).
      { simpl. rewrite Ea. change (cs_sym s0) with (S (cs_sym s)) in Est. change (cs_sym s1) with (S (cs_sym s)) in Ec.
        rewrite Ec, Est. reflexivity. }
      destruct (stmts_of_props _ _ _ _ X) as (_ & _ & _ & _ & Q). apply Q. exact Ok0.
    + rewrite add_command_other by (intros x; discriminate). unfold tal_open, push_all. simpl.
      rewrite <- !app_assoc. reflexivity.
Qed.

(* ---------------- closing the element on top of the tag stack ---------------- *)
Lemma pop_tag_top tag omit s t rest : cs_stack s = t :: rest -> te_tag t = tag ->
  pop_tag tag omit s =
  let s1 := mkCS (cs_rcmds s) rest (cs_syms s) (cs_macros s) (cs_sym s) in
  match te_sym t with
  | Some sy => COk (add_command (CEndTagEndScope tag omit false)
                      (mkCS (cs_rcmds s) rest (dict_set_nat sy (ncmds s) (cs_syms s)) (cs_macros s) (cs_sym s)))
  | None => if omit then COk s1 else COk (add_command (COutput (end_tag_text tag)) s1)
  end.
Proof.
  intros Hs Ht. unfold pop_tag. rewrite Hs, pop_tag_loop_cons. cbv zeta. rewrite Ht, StrFacts.str_eqb_refl. reflexivity.
Qed.

Lemma handle_events_app fixed : forall e1 e2 s s'', handle_events fixed (e1 ++ e2) s = COk s'' ->
  exists s', handle_events fixed e1 s = COk s' /\ handle_events fixed e2 s' = COk s''.
Proof.
  induction e1 as [|ev r IH]; intros e2 s s'' H; simpl in *.
  - eauto.
  - destruct (handle_event fixed ev s) as [s1| |]; try discriminate. apply IH. exact H.
Qed.

Lemma ext_refl T : ext T T. Proof. intros k v H; exact H. Qed.
Lemma ext_trans T1 T2 T3 : ext T1 T2 -> ext T2 T3 -> ext T1 T3. Proof. intros A B k v H. apply B, A, H. Qed.
Lemma ext_dict_set T k v : lookup_sym T k = None -> ext T (dict_set_nat k v T).
Proof.
  intros H k' v' H'. rewrite lookup_dict_set_other; [exact H'|]. intros ->. congruence.
Qed.

Lemma syms_ok_all T e sy stmts :
  (forall c j, In c stmts -> cmd_sym c = Some j -> j = sy) -> lookup_sym T sy = Some e -> syms_ok T e stmts = true.
Proof.
  intros H L. unfold syms_ok. apply forallb_forall. intros c Hc. destruct (cmd_sym c) as [j|] eqn:Ej; [|reflexivity].
  rewrite (H c j Hc Ej), L. simpl. apply Nat.eqb_refl.
Qed.

(* ---------------- the compiler on a document tree ---------------- *)
Section Link.
  Variable val : Type.
  Variable E : Type.
  Variable eval : E -> str -> list (str * str) -> val.
  Variable e_push e_pop : E -> E.
  Variable e_local e_global : E -> str -> val -> E.
  Variable e_add_repeat : E -> str -> val -> E.
  Variable e_next_repeat e_remove_repeat : E -> str -> E.
  Variable v_nothing v_default v_truth : val -> bool.
  Variable v_text : val -> str.
  Variable v_len : val -> option nat.

  Notation feqX := (feq val E eval e_push e_pop e_local e_global e_add_repeat e_next_repeat e_remove_repeat
                        v_nothing v_default v_truth v_text v_len).

  (* the commands emitted so far are PRE followed by the commands l of the element being compiled (or of
     the top level), and l reads back as the forest f; a chunk of output can only be merged into l *)
  Definition Level (s : cstate) (PRE l : list cmd) (f : list tnode) : Prop :=
    rev (cs_rcmds s) = PRE ++ l /\ rep (cs_syms s) (length PRE) l f /\ (l = [] -> forall P a, PRE <> P ++ [COutput a]).

  Definition Fresh (s : cstate) : Prop := forall k, cs_sym s < k -> lookup_sym (cs_syms s) k = None.

  Definition Concl (s s' : cstate) (F : list tnode) : Prop :=
    cs_stack s' = cs_stack s /\ cs_macros s' = cs_macros s /\ cs_sym s <= cs_sym s' /\
    (forall k, k <= cs_sym s \/ cs_sym s' < k -> lookup_sym (cs_syms s') k = lookup_sym (cs_syms s) k) /\
    (Fresh s -> ext (cs_syms s) (cs_syms s') /\
                forall PRE l f, Level s PRE l f -> exists l' f', Level s' PRE l' f' /\ feqX f' (f ++ F)).
  Definition Claim (evs : list event) (F : list tnode) : Prop :=
    forall s s', handle_events repaired evs s = COk s' -> Concl s s' F.

  Lemma Fresh_after s s' : cs_sym s <= cs_sym s' ->
    (forall k, k <= cs_sym s \/ cs_sym s' < k -> lookup_sym (cs_syms s') k = lookup_sym (cs_syms s) k) ->
    Fresh s -> Fresh s'.
  Proof. intros L W F k Hk. rewrite W by lia. apply F. lia. Qed.

  Lemma Level_same s s' PRE l f : cs_rcmds s' = cs_rcmds s -> ext (cs_syms s) (cs_syms s') -> Level s PRE l f -> Level s' PRE l f.
  Proof. intros R X (A & B & C). repeat split; [congruence | eapply rep_ext; eauto | exact C]. Qed.

  Lemma Level_out s PRE l f b : Level s PRE l f ->
    exists l' f', Level (add_command (COutput b) s) PRE l' f' /\ feqX f' (f ++ [TOut b]).
  Proof.
    intros (A & B & C). destruct (add_output_cases b s) as [(a & r & Er & ->)| ->].
    - rewrite Er in A. simpl in A.
      destruct (exists_last (l := l)) as (l0 & x & El).
      + intros ->. rewrite app_nil_r in A. apply (C eq_refl (rev r) a). symmetry. exact A.
      + subst l. rewrite app_assoc in A. apply app_inj_tail in A. destruct A as [A <-].
        destruct (rep_last_out _ _ _ _ B l0 a eq_refl) as (f0 & -> & R0).
        exists (l0 ++ [COutput (a ++ b)]), (f0 ++ [TOut (a ++ b)]). split.
        * repeat split; simpl.
          -- rewrite A, <- app_assoc. reflexivity.
          -- now apply rep_snoc_out.
          -- intros X. destruct l0; discriminate X.
        * apply feq_merge.
    - exists (l ++ [COutput b]), (f ++ [TOut b]). split; [|apply feq_refl].
      repeat split; simpl.
      + rewrite A, <- app_assoc. reflexivity.
      + now apply rep_snoc_out.
      + intros X. destruct l; discriminate X.
  Qed.

  Lemma Claim_nil : Claim [] [].
  Proof.
    intros s s' H. simpl in H. apply COk_inj in H. subst s'. repeat split; auto. 
    - apply ext_refl.
    - intros PRE l f L. exists l, f. split; [exact L|]. rewrite app_nil_r. apply feq_refl.
  Qed.

  Lemma Claim_app e1 e2 F1 F2 : Claim e1 F1 -> Claim e2 F2 -> Claim (e1 ++ e2) (F1 ++ F2).
  Proof.
    intros C1 C2 s s'' H. destruct (handle_events_app _ _ _ _ _ H) as (s' & H1 & H2).
    destruct (C1 _ _ H1) as (A1 & A2 & A3 & A4 & A5). destruct (C2 _ _ H2) as (B1 & B2 & B3 & B4 & B5).
    split; [congruence|]. split; [congruence|]. split; [lia|]. split.
    - intros k Hk. rewrite B4 by lia. apply A4. lia.
    - intros Fr. destruct (A5 Fr) as (X1 & L1). pose proof (Fresh_after _ _ A3 A4 Fr) as Fr'.
      destruct (B5 Fr') as (X2 & L2). split; [eapply ext_trans; eauto|].
      intros PRE l f L. destruct (L1 _ _ _ L) as (l' & f' & L' & Q1). destruct (L2 _ _ _ L') as (l'' & f'' & L'' & Q2).
      exists l'', f''. split; [exact L''|].
      eapply feq_trans; [exact Q2|]. rewrite app_assoc. apply feq_app; [exact Q1 | apply feq_refl].
  Qed.

  (* literal output: character data, comments, declarations, processing instructions *)
  Lemma Claim_text ev : (forall tag a, ev <> EvStart tag a) -> (forall tag a, ev <> EvStartEnd tag a) -> (forall tag, ev <> EvEnd tag) ->
    Claim [ev] [TOut (event_text repaired ev)].
  Proof.
    intros N1 N2 N3 s s' H.
    assert (Es : s' = add_command (COutput (event_text repaired ev)) s).
    { destruct ev; simpl in H; try (apply COk_inj in H; now subst s'); exfalso; [eapply N1 | eapply N2 | eapply N3]; reflexivity. }
    subst s'. clear H.
    assert (Same : cs_stack (add_command (COutput (event_text repaired ev)) s) = cs_stack s /\
                   cs_macros (add_command (COutput (event_text repaired ev)) s) = cs_macros s /\
                   cs_sym (add_command (COutput (event_text repaired ev)) s) = cs_sym s /\
                   cs_syms (add_command (COutput (event_text repaired ev)) s) = cs_syms s).
    { destruct (add_output_cases (event_text repaired ev) s) as [(a & r & Er & ->)| ->]; repeat split. }
    destruct Same as (S1 & S2 & S3 & S4). unfold Concl. rewrite S1, S2, S3, S4. repeat split; auto; [apply ext_refl|].
    intros PRE l f L. exact (Level_out s PRE l f _ L).
  Qed.

  (* an element: start tag, the events of its children (none for childless elements), end of the element *)
  Lemma elem_concl tag a body_evs bodyF :
    Claim body_evs bodyF ->
    match scan_tag tag (norm_atts a) with COk sc => sc_metal sc = [] | _ => True end ->
    forall s s1 s2 s', parse_start_tag repaired tag (norm_atts a) s = COk s1 ->
      handle_events repaired body_evs s1 = COk s2 -> pop_tag tag (forbidden_endtag tag) s2 = COk s' ->
      Concl s s' (elem_forest tag a bodyF).
  Proof.
    intros CB NM s s1 s2 s' Hp Hb He.
    destruct (parse_start_tag_doc _ _ _ _ Hp) as (sc & Esc & Cases). rewrite Esc in NM. unfold elem_forest. rewrite Esc.
    destruct Cases as [X|[(Em & Et & ->)|(Em & Et & stmts & Est & Hne & Hs & ->)]]; [contradiction| |].
    - (* no tal: statement: the tags are literal output *)
      rewrite Et.
      set (sp := push_tag (mkTag tag None None) s) in *.
      set (s1 := add_command (COutput (tag_as_text tag (sc_clean sc))) sp) in *.
      assert (Same : cs_stack s1 = mkTag tag None None :: cs_stack s /\ cs_macros s1 = cs_macros s /\
                     cs_sym s1 = cs_sym s /\ cs_syms s1 = cs_syms s).
      { unfold s1. destruct (add_output_cases (tag_as_text tag (sc_clean sc)) sp) as [(a0 & r & Er & ->)| ->]; repeat split. }
      destruct Same as (S1 & S2 & S3 & S4).
      destruct (CB _ _ Hb) as (B1 & B2 & B3 & B4 & B5).
      rewrite (pop_tag_top tag _ s2 (mkTag tag None None) (cs_stack s)) in He by (try reflexivity; congruence).
      cbv zeta in He. simpl te_sym in He.
      set (s3 := mkCS (cs_rcmds s2) (cs_stack s) (cs_syms s2) (cs_macros s2) (cs_sym s2)) in *.
      assert (Fr1 : Fresh s -> Fresh s1) by (intros Fr k Hk; rewrite S4; apply Fr; lia).
      assert (L1 : forall PRE l f, Level s PRE l f -> exists l' f', Level s1 PRE l' f' /\ feqX f' (f ++ [TOut (tag_as_text tag (sc_clean sc))])).
      { intros PRE l f L. apply (Level_out sp PRE l f). exact L. }
      destruct (forbidden_endtag tag) eqn:Ef.
      + apply COk_inj in He. subst s'. unfold s3. simpl. rewrite S3 in *. rewrite S4 in *.
        unfold Concl. simpl. split; [congruence|]. split; [congruence|]. split; [exact B3|]. split; [exact B4|].
        intros Fr. destruct (B5 (Fr1 Fr)) as (X & LB). split; [exact X|].
        intros PRE l f L. destruct (L1 _ _ _ L) as (l1 & f1 & La & Qa).
        destruct (LB _ _ _ La) as (l2 & f2 & Lb & Qb).
        * exists l2, f2. split; [exact Lb|]. rewrite app_nil_r.
          eapply feq_trans; [exact Qb|]. change (TOut (tag_as_text tag (sc_clean sc)) :: bodyF) with ([TOut (tag_as_text tag (sc_clean sc))] ++ bodyF).
          rewrite app_assoc. apply feq_app; [exact Qa | apply feq_refl].
      + apply COk_inj in He. subst s'.
        assert (Same3 : cs_stack (add_command (COutput (end_tag_text tag)) s3) = cs_stack s /\
                        cs_macros (add_command (COutput (end_tag_text tag)) s3) = cs_macros s2 /\
                        cs_sym (add_command (COutput (end_tag_text tag)) s3) = cs_sym s2 /\
                        cs_syms (add_command (COutput (end_tag_text tag)) s3) = cs_syms s2).
        { destruct (add_output_cases (end_tag_text tag) s3) as [(a0 & r & Er & ->)| ->]; repeat split. }
        destruct Same3 as (T1 & T2 & T3 & T4). unfold Concl. rewrite T1, T2, T3, T4. rewrite S3 in *. rewrite S4 in *.
        split; [congruence|]. split; [congruence|]. split; [exact B3|]. split; [exact B4|].
        intros Fr. destruct (B5 (Fr1 Fr)) as (X & LB). split; [exact X|].
        intros PRE l f L. destruct (L1 _ _ _ L) as (l1 & f1 & La & Qa).
        destruct (LB _ _ _ La) as (l2 & f2 & Lb & Qb).
        destruct (Level_out s3 PRE l2 f2 (end_tag_text tag)) as (l3 & f3 & Lc & Qc); [exact Lb|].
        * exists l3, f3. split; [exact Lc|].
          eapply feq_trans; [exact Qc|].
          change (TOut (tag_as_text tag (sc_clean sc)) :: bodyF ++ [TOut (end_tag_text tag)])
            with ([TOut (tag_as_text tag (sc_clean sc))] ++ bodyF ++ [TOut (end_tag_text tag)]).
          rewrite !app_assoc. apply feq_app; [|apply feq_refl].
          eapply feq_trans; [exact Qb|]. apply feq_app; [exact Qa | apply feq_refl].
    - (* an element with tal: statements *)
      destruct (sc_tal sc) as [|t0 tr] eqn:Etal; [contradiction|].
      destruct (stmts_of_props _ _ _ _ Est) as (P1 & P2 & P3 & P4 & _). rewrite P3.
      set (sy := S (cs_sym s)) in *.
      set (s1 := tal_open tag sc stmts s) in *.
      destruct (CB _ _ Hb) as (B1 & B2 & B3 & B4 & B5).
      rewrite (pop_tag_top tag _ s2 (mkTag tag (Some sy) None) (cs_stack s)) in He by (try reflexivity; rewrite B1; reflexivity).
      cbv zeta in He. simpl te_sym in He. apply COk_inj in He.
      rewrite add_command_other in He by (intros x; discriminate). subst s'. unfold Concl. simpl.
      assert (Fr1 : Fresh s -> Fresh s1) by (intros Fr k Hk; apply Fr; simpl in Hk; lia).
      change (cs_sym s1) with sy in *. change (cs_syms s1) with (cs_syms s) in *.
      assert (Lsy : Fresh s -> lookup_sym (cs_syms s2) sy = None).
      { intros Fr. rewrite B4 by (left; lia). apply Fr. unfold sy. lia. }
      split; [reflexivity|]. split; [exact B2|]. split; [unfold sy in B3; lia|]. split.
      + intros k Hk. rewrite lookup_dict_set_other by (unfold sy in *; lia). apply B4. unfold sy in *. lia.
      + intros Fr. destruct (B5 (Fr1 Fr)) as (X & LB).
        assert (X' : ext (cs_syms s2) (dict_set_nat sy (ncmds s2) (cs_syms s2))) by (apply ext_dict_set, Lsy, Fr).
        split; [eapply ext_trans; eauto|].
        intros PRE l f (A & R & C).
        set (hdr := CStartScope (sc_orig sc) (sc_clean sc) :: stmts ++ [CStartTag tag false]).
        assert (A1 : rev (cs_rcmds s1) = (PRE ++ l ++ hdr) ++ []).
        { unfold s1, tal_open, hdr. simpl. rewrite rev_app_distr. simpl. rewrite rev_involutive, A.
          rewrite app_nil_r. rewrite <- !app_assoc. reflexivity. }
        assert (L1 : Level s1 (PRE ++ l ++ hdr) [] []).
        { split; [exact A1|]. split; [constructor|]. intros _ P a0 Hc. unfold hdr in Hc.
          replace (PRE ++ l ++ CStartScope (sc_orig sc) (sc_clean sc) :: stmts ++ [CStartTag tag false])
            with ((PRE ++ l ++ CStartScope (sc_orig sc) (sc_clean sc) :: stmts) ++ [CStartTag tag false]) in Hc
            by (rewrite <- !app_assoc; simpl; reflexivity).
          apply app_inj_tail in Hc. destruct Hc as [_ Hc]. discriminate. }
        destruct (LB _ _ _ L1) as (lb & fb & (Ab & Rb & _) & Qb). simpl in Qb.
        assert (Hlen : ncmds s2 = length PRE + length l + 2 + length stmts + length lb).
        { unfold ncmds. rewrite <- rev_length, Ab. unfold hdr. rewrite !app_length. simpl. rewrite app_length. simpl. lia. }
        exists (l ++ CStartScope (sc_orig sc) (sc_clean sc) :: stmts ++ CStartTag tag false :: lb ++ [CEndTagEndScope tag (forbidden_endtag tag) false]),
               (f ++ [TElem (sc_orig sc) (sc_clean sc) stmts tag tag (forbidden_endtag tag) fb]).
        split.
        * split; [|split].
          -- simpl. rewrite Ab. unfold hdr. rewrite <- !app_assoc. simpl. rewrite <- !app_assoc. reflexivity.
          -- apply rep_app.
             ++ eapply rep_ext; [|exact R]. eapply ext_trans; eauto.
             ++ apply rep_elem; auto.
                ** apply (syms_ok_all _ _ sy); [exact P2|]. simpl. rewrite lookup_dict_set_same. f_equal. lia.
                ** eapply rep_ext; [exact X'|]. simpl.
                   replace (length PRE + length l + 2 + length stmts) with (length (PRE ++ l ++ hdr)); [exact Rb|].
                   unfold hdr. rewrite !app_length. simpl. rewrite app_length. simpl. lia.
                ** constructor.
          -- intros Hc. destruct l; discriminate Hc.
        * apply feq_app; [apply feq_refl|]. apply feq_elem. exact Qb.
  Qed.

  Definition ClaimN (n : dnode) : Prop := no_metal n = true -> Claim (events n) (node_forest n).

  Lemma Claim_children ch : Forall ClaimN ch -> forallb no_metal ch = true ->
    Claim (flat_map events ch) (flat_map node_forest ch).
  Proof.
    induction 1 as [|x r Hx _ IH]; intros NM; simpl in *; [apply Claim_nil|].
    apply andb_true_iff in NM. destruct NM as [N1 N2]. apply Claim_app; auto.
  Qed.

  Lemma handle_events_one ev s s' : handle_events repaired [ev] s = COk s' -> handle_event repaired ev s = COk s'.
  Proof. simpl. destruct (handle_event repaired ev s); intros H; try discriminate; exact H. Qed.

  Lemma ClaimN_elem tag a sc ch : Forall ClaimN ch -> ClaimN (DElem tag a sc ch).
  Proof.
    intros IH NM. simpl in NM. apply andb_true_iff in NM. destruct NM as [NM NMc].
    assert (NM' : match scan_tag tag (norm_atts a) with COk sc0 => sc_metal sc0 = [] | _ => True end).
    { destruct (scan_tag tag (norm_atts a)) as [sc0| |]; auto. destruct (sc_metal sc0); [reflexivity | discriminate]. }
    pose proof (Claim_children ch IH NMc) as CB.
    intros s s' H. simpl in H. simpl node_forest. unfold childless in *.
    destruct (forbidden_endtag tag) eqn:Ef; simpl orb in *.
    - (* one of HTML's empty elements: closed by the start tag itself *)
      apply handle_events_one in H.
      assert (Hs : handle_starttag repaired tag a s = COk s').
      { destruct sc; simpl in H; [|exact H]. destruct (handle_starttag repaired tag a s); try discriminate. rewrite Ef in H. exact H. }
      unfold handle_starttag in Hs. destruct (parse_start_tag repaired tag (norm_atts a) s) as [s1| |] eqn:Ep; try discriminate.
      rewrite Ef in Hs.
      apply (elem_concl tag a [] [] Claim_nil NM' s s1 s1 s'); auto. now rewrite Ef.
    - destruct sc.
      + (* written <x ... /> *)
        apply handle_events_one in H. simpl in H. unfold handle_starttag in H.
        destruct (parse_start_tag repaired tag (norm_atts a) s) as [s1| |] eqn:Ep; try discriminate.
        rewrite Ef in H. unfold handle_endtag in H. rewrite Ef in H.
        apply (elem_concl tag a [] [] Claim_nil NM' s s1 s1 s'); auto. now rewrite Ef.
      + (* start tag, children, end tag *)
        change (EvStart tag a :: flat_map events ch ++ [EvEnd tag]) with ([EvStart tag a] ++ flat_map events ch ++ [EvEnd tag]) in H.
        destruct (handle_events_app _ _ _ _ _ H) as (s1 & H1 & H23).
        destruct (handle_events_app _ _ _ _ _ H23) as (s2 & H2 & H3).
        apply handle_events_one in H1. apply handle_events_one in H3. simpl in H1, H3.
        unfold handle_starttag in H1. destruct (parse_start_tag repaired tag (norm_atts a) s) as [s1'| |] eqn:Ep; try discriminate.
        rewrite Ef in H1. apply COk_inj in H1. subst s1'.
        unfold handle_endtag in H3. rewrite Ef in H3.
        apply (elem_concl tag a _ _ CB NM' s s1 s2 s'); auto. now rewrite Ef.
  Qed.

  Lemma ClaimN_all : forall n, ClaimN n.
  Proof.
    fix IH 1. intros n. destruct n as [d c|d|d|d|tag a sc ch].
    - intros _. apply (Claim_text (EvData d c)); intros; discriminate.
    - intros _. apply (Claim_text (EvComment d)); intros; discriminate.
    - intros _. apply (Claim_text (EvDecl d)); intros; discriminate.
    - intros _. apply (Claim_text (EvPi d)); intros; discriminate.
    - apply ClaimN_elem. induction ch as [|x r IHr]; constructor; [apply IH | exact IHr].
  Qed.

  (* the compiled program reads back as a forest that has the specification of the document's forest *)
  Theorem compile_doc doc p t m : forallb no_metal doc = true -> compile repaired (doc_events doc) = COk (p, (t, m)) ->
    m = [] /\ exists f, rep t 0 p f /\ feqX f (doc_forest doc).
  Proof.
    intros NM H. unfold compile in H.
    destruct (handle_events repaired (doc_events doc) cs0) as [s'| |] eqn:Eh; try discriminate.
    destruct (v_eof repaired && _); [discriminate|]. apply COk_inj in H. inversion H; subst p t m. clear H.
    assert (CB : Claim (doc_events doc) (doc_forest doc)).
    { apply Claim_children; [|exact NM]. apply Forall_forall. intros n _. apply ClaimN_all. }
    destruct (CB _ _ Eh) as (_ & Bm & _ & _ & B5). split; [exact Bm|].
    destruct B5 as (_ & LB); [intros k _; reflexivity|].
    destruct (LB [] [] []) as (l' & f' & (A & R & _) & Q).
    - split; [reflexivity|]. split; [constructor|]. intros _ P a0 Hc. destruct P; discriminate Hc.
    - exists f'. simpl in A, R, Q. rewrite A. split; assumption.
  Qed.
End Link.

(* ---- statement as it appears in Props: compile, then interpret = the specification of the source ---- *)
Theorem compiler_correct :
  forall (val E : Type) (eval : E -> str -> list (str * str) -> val) (e_push e_pop : E -> E)
         (e_local e_global : E -> str -> val -> E) (e_add_repeat : E -> str -> val -> E)
         (e_next_repeat e_remove_repeat : E -> str -> E) (v_nothing v_default v_truth : val -> bool)
         (v_text : val -> str) (v_len : val -> option nat)
         (doc : list dnode) (p : program) (t : symtab) (m : macrotab),
    forallb no_metal doc = true -> compile repaired (doc_events doc) = COk (p, (t, m)) ->
    m = [] /\
    forall (c : ctx) (env : E), exists fuel mf,
      expand_tal val E eval e_push e_pop e_local e_global e_add_repeat e_next_repeat e_remove_repeat
                 v_nothing v_default v_truth v_text v_len p t fuel c env = Done mf /\
      d_out (dat (dstate val E) mf) =
        fst (spec_forest val E eval e_push e_pop e_local e_global e_add_repeat e_next_repeat e_remove_repeat
                         v_nothing v_default v_truth v_text v_len env (doc_forest doc)) /\
      d_env (dat (dstate val E) mf) =
        snd (spec_forest val E eval e_push e_pop e_local e_global e_add_repeat e_next_repeat e_remove_repeat
                         v_nothing v_default v_truth v_text v_len env (doc_forest doc)) /\
      d_stack (dat (dstate val E) mf) = [] /\
      c_sc (cx (dstate val E) mf) = c_sc c /\ sstack (dstate val E) mf = [] /\ pc (dstate val E) mf = length p.
Proof.
  intros val E eval e_push e_pop e_local e_global e_add_repeat e_next_repeat e_remove_repeat
         v_nothing v_default v_truth v_text v_len doc p t m NM H.
  destruct (compile_doc val E eval e_push e_pop e_local e_global e_add_repeat e_next_repeat e_remove_repeat
                        v_nothing v_default v_truth v_text v_len doc p t m NM H) as (Em & f & R & Q).
  split; [exact Em|]. intros c env.
  destruct (expand_is_spec val E eval e_push e_pop e_local e_global e_add_repeat e_next_repeat e_remove_repeat
                           v_nothing v_default v_truth v_text v_len p t f R c env) as (fuel & mf & A1 & A2 & A3 & A4).
  exists fuel, mf. rewrite <- (Q env). auto.
Qed.

(* ---- a concrete document (non-vacuity): <ul tal:define="x s1"><li class="c" tal:repeat="i l1" tal:content="i/k | default">d</li><br>t<b>u</b></ul> ---- *)
Definition example_doc : list dnode :=
  [DElem (lit "ul") [(lit "tal:define", Some (lit "x s1"))] false
     [DElem (lit "li") [(lit "class", Some (lit "c")); (lit "tal:content", Some (lit "i/k | default")); (lit "tal:repeat", Some (lit "i l1"))] false
        [DData (lit "d") false];
      DElem (lit "br") [] false [];
      DData (lit "t") false;
      DElem (lit "b") [] false [DData (lit "u") false]]]%string.

Lemma compiler_correct_example :
  forallb no_metal example_doc = true /\
  compile repaired (doc_events example_doc) =
    COk ([CStartScope [(lit "tal:define", lit "x s1")] []; CDefine [(true, (lit "x", lit "s1"))]; CStartTag (lit "ul") false;
          CStartScope [(lit "class", lit "c"); (lit "tal:content", lit "i/k | default"); (lit "tal:repeat", lit "i l1")] [(lit "class", lit "c")];
          CRepeat (lit "i") (lit "l1") 3; CContent false false (lit "i/k | default") 3; CStartTag (lit "li") false;
          COutput (lit "d"); CEndTagEndScope (lit "li") false false;
          COutput (lit "<br>t<b>u</b>"); CEndTagEndScope (lit "ul") false false]%string,
         ([(3, 8); (2, 10)]%nat, [])) /\
  doc_forest example_doc =
    [TElem [(lit "tal:define", lit "x s1")] [] [CDefine [(true, (lit "x", lit "s1"))]] (lit "ul") (lit "ul") false
       [TElem [(lit "class", lit "c"); (lit "tal:content", lit "i/k | default"); (lit "tal:repeat", lit "i l1")] [(lit "class", lit "c")]
              [CRepeat (lit "i") (lit "l1") 0; CContent false false (lit "i/k | default") 0] (lit "li") (lit "li") false
              [TOut (lit "d")];
        TOut (lit "<br>"); TOut (lit "t"); TOut (lit "<b>"); TOut (lit "u"); TOut (lit "</b>")]]%string.
Proof. vm_compute. repeat split. Qed.

Lemma compiler_correct_example_short :
  forallb no_metal example_doc = true /\ exists p t, compile repaired (doc_events example_doc) = COk (p, (t, [])) /\ length p = 11%nat.
Proof. destruct compiler_correct_example as (A & B & _). split; [exact A|]. eexists. eexists. split; [exact B | reflexivity]. Qed.
