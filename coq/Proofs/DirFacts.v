(* DirFacts.v — facts about the directory model shared by C07, C08 and C12:
   the orderings are total (pre)orders, prep_entries, filters and permutations. *)
From Coq Require Import ZArith Lia Permutation.
From PG Require Import Lib.Str Lib.Cmp Lib.CmpFacts Lib.Sort Lib.SortFacts Lib.Regex
  Gen.Entrycmp Model.Selector Model.DirEntry Model.UMN Model.Dir.
Local Open Scope N_scope.

(* ---------- generic list facts ---------- *)
Lemma filter_perm {A} (f : A -> bool) l l' :
  Permutation l l' -> Permutation (filter f l) (filter f l').
Proof.
  induction 1 as [|x l l' P IH|x y l|l l' l'' P1 IH1 P2 IH2]; simpl.
  - constructor.
  - destruct (f x); [now constructor | exact IH].
  - destruct (f x), (f y); try reflexivity. apply perm_swap.
  - etransitivity; eauto.
Qed.

Lemma filter_filter {A} (f g : A -> bool) l :
  filter f (filter g l) = filter (fun x => g x && f x) l.
Proof.
  induction l as [|x r IH]; simpl; [reflexivity|].
  destruct (g x); simpl; [destruct (f x)|]; now rewrite IH.
Qed.

Lemma filter_ext_in' {A} (f g : A -> bool) l :
  (forall x, In x l -> f x = g x) -> filter f l = filter g l.
Proof.
  induction l as [|x r IH]; simpl; intros H; [reflexivity|].
  rewrite (H x) by now left. rewrite IH; [reflexivity|]. intros y Hy. apply H. now right.
Qed.

Lemma filter_all {A} (f : A -> bool) l : (forall x, In x l -> f x = true) -> filter f l = l.
Proof.
  induction l as [|x r IH]; simpl; intros H; [reflexivity|].
  rewrite (H x) by now left. f_equal. apply IH. intros y Hy. apply H. now right.
Qed.

Lemma NoDup_filter' {A} (f : A -> bool) l : NoDup l -> NoDup (filter f l).
Proof.
  induction 1 as [|x l Hx Hl IH]; simpl; [constructor|].
  destruct (f x); [|exact IH]. constructor; [|exact IH].
  intro H. apply filter_In in H. tauto.
Qed.

(* ---------- str_leb: a total order on names ---------- *)
Lemma str_leb_total : total str_leb.
Proof. intros a b. apply (leb_of_total str_cmp str_cmp_ok). Qed.
Lemma str_leb_trans : transitive str_leb.
Proof. intros a b c. apply (leb_of_trans str_cmp str_cmp_ok). Qed.
Lemma str_leb_antisym : antisym str_leb.
Proof. intros a b. apply (leb_of_antisym str_cmp str_cmp_ok). Qed.

Lemma sort_names_perm l : Permutation l (sort_names l).
Proof. apply isort_perm. Qed.

Lemma sort_names_perm_invariant l1 l2 : Permutation l1 l2 -> sort_names l1 = sort_names l2.
Proof.
  apply (isort_perm_invariant str_leb str_leb_total str_leb_trans str_leb_antisym).
Qed.

Lemma sort_names_sorted l : ssorted str_leb (sort_names l).
Proof. apply (isort_sorted str_leb str_leb_total str_leb_trans). Qed.

Lemma sort_names_NoDup l : NoDup l -> NoDup (sort_names l).
Proof. intros H. eapply Permutation_NoDup; [apply sort_names_perm | exact H]. Qed.

Lemma enum_order_perm fx l : Permutation l (enum_order fx l).
Proof. unfold enum_order. destruct (fx_sorted_enum fx); [apply sort_names_perm | reflexivity]. Qed.

(* ---------- the UMN order is the documented key order ---------- *)
Lemma ekey_cmp_ok : cmp_ok ekey_cmp.
Proof. apply prod_cmp_ok; [apply N_cmp_ok|]. apply prod_cmp_ok; [apply Z_cmp_ok | apply str_cmp_ok]. Qed.

Lemma pos_cmp_cases p q :
  (Pos.eqb p q = true /\ Pos.compare p q = Eq) \/ (Pos.eqb p q = false /\ Pos.compare p q <> Eq).
Proof.
  destruct (Pos.eqb_spec p q) as [->|N]; [left | right].
  - split; [reflexivity | apply Pos.compare_refl].
  - split; [reflexivity|]. intro E. apply Pos.compare_eq in E. contradiction.
Qed.

(* This statement is re-checked against the text of sgn/entrycmp on every run:
   Gen/Entrycmp.v is regenerated from pygopherd/handlers/UMN.py. *)
Lemma entrycmp_is_key_order a x b y :
  entrycmp (Some a) x (Some b) y =
  Z_of_cmp (ekey_cmp (num_class x, (x, a)) (num_class y, (y, b))).
Proof.
  unfold entrycmp, sgn, ekey_cmp, prod_cmp, num_class, cmp_name, cmp_int. simpl fst. simpl snd.
  destruct x as [|p|p], y as [|q|q]; simpl; try reflexivity.
  - (* both positive *)
    destruct (pos_cmp_cases p q) as [[E C]|[E C]]; rewrite E.
    + now rewrite C.
    + destruct (Pos.compare p q); [contradiction | reflexivity | reflexivity].
  - (* both negative *)
    destruct (pos_cmp_cases p q) as [[E C]|[E C]]; rewrite E.
    + now rewrite C.
    + destruct (Pos.compare p q); [contradiction | reflexivity | reflexivity].
Qed.

Lemma num_class_le2 n : (num_class n ?= 3) = Lt.
Proof. unfold num_class. destruct (0 <? n)%Z; [reflexivity|]. destruct (n =? 0)%Z; reflexivity. Qed.

Lemma num_class_ge3 n : (3 ?= num_class n) = Gt.
Proof. rewrite N.compare_antisym, num_class_le2. reflexivity. Qed.

Lemma entry_ltb_key e1 e2 : entry_ltb e1 e2 = is_lt (ekey_cmp (entry_key e1) (entry_key e2)).
Proof.
  unfold entry_ltb, entry_cmp, entry_key.
  destruct (e_name e1) as [a|] eqn:N1, (e_name e2) as [b|] eqn:N2.
  - rewrite entrycmp_is_key_order. destruct (ekey_cmp _ _); reflexivity.
  - unfold entrycmp, isnone, ekey_cmp, prod_cmp. cbn [fst snd]. now rewrite num_class_le2.
  - unfold entrycmp, isnone, ekey_cmp, prod_cmp. cbn [fst snd]. now rewrite num_class_ge3.
  - reflexivity.
Qed.

Lemma entry_leb_key e1 e2 : entry_leb e1 e2 = leb_of ekey_cmp (entry_key e1) (entry_key e2).
Proof.
  unfold entry_leb, leb_of. rewrite entry_ltb_key.
  rewrite (cmp_opp ekey_cmp ekey_cmp_ok (entry_key e2) (entry_key e1)).
  destruct (ekey_cmp (entry_key e1) (entry_key e2)); reflexivity.
Qed.

Lemma entry_leb_total : total entry_leb.
Proof. intros a b. rewrite !entry_leb_key. apply (leb_of_total ekey_cmp ekey_cmp_ok). Qed.
Lemma entry_leb_trans : transitive entry_leb.
Proof. intros a b c. rewrite !entry_leb_key. apply (leb_of_trans ekey_cmp ekey_cmp_ok). Qed.
Lemma oentry_leb_total : total oentry_leb.
Proof. intros a b. apply entry_leb_total. Qed.
Lemma oentry_leb_trans : transitive oentry_leb.
Proof. intros a b c. apply entry_leb_trans. Qed.

(* ---------- prep_entries ---------- *)
Definition child_listed {A} (child : str -> result (option A)) (n : str) : bool :=
  match child n with Ok (Some _) => true | _ => false end.

Lemma prep_entries_names {A} skip (child : str -> result (option A)) names l :
  prep_entries skip child names = Ok l -> map fst l = filter (child_listed child) names.
Proof.
  revert l. induction names as [|n r IH]; simpl; intros l H.
  - now inversion H.
  - unfold child_listed at 1. destruct (child n) as [[a|]|e] eqn:C.
    + destruct (prep_entries skip child r) as [l'|e'] eqn:P; simpl in H; [|discriminate].
      inversion H. simpl. f_equal. now apply IH.
    + now apply IH.
    + destruct (skip e); [now apply IH | discriminate].
Qed.

Lemma prep_entries_In {A} skip (child : str -> result (option A)) names l n a :
  prep_entries skip child names = Ok l -> In (n, a) l -> In n names /\ child n = Ok (Some a).
Proof.
  revert l. induction names as [|m r IH]; simpl; intros l H I.
  - inversion H. subst. destruct I.
  - destruct (child m) as [[b|]|e] eqn:C.
    + destruct (prep_entries skip child r) as [l'|e'] eqn:P; simpl in H; [|discriminate].
      inversion H. subst l. destruct I as [I|I].
      * inversion I. subst. split; [now left | exact C].
      * destruct (IH l' eq_refl I). split; [now right | assumption].
    + destruct (IH l H I). split; [now right | assumption].
    + destruct (skip e); [|discriminate].
      destruct (IH l H I). split; [now right | assumption].
Qed.

Lemma prep_entries_complete {A} skip (child : str -> result (option A)) names l n a :
  prep_entries skip child names = Ok l -> In n names -> child n = Ok (Some a) -> In (n, a) l.
Proof.
  revert l. induction names as [|m r IH]; simpl; intros l H I C; [destruct I|].
  destruct (child m) as [[b|]|e] eqn:Cm.
  - destruct (prep_entries skip child r) as [l'|e'] eqn:P; simpl in H; [|discriminate].
    inversion H. subst l. destruct I as [->|I].
    + left. congruence.
    + right. now apply IH.
  - destruct I as [->|I]; [congruence | now apply IH].
  - destruct (skip e); [|discriminate].
    destruct I as [->|I]; [congruence | now apply IH].
Qed.

(* with the repair, children that only ever fail with FileNotFound never make
   the listing fail *)
Lemma prep_entries_total {A} skip (child : str -> result (option A)) names :
  (forall n e, In n names -> child n = Raise e -> skip e = true) ->
  exists l, prep_entries skip child names = Ok l.
Proof.
  induction names as [|n r IH]; simpl; intros H; [now exists []|].
  destruct IH as [l' E]; [intros m e I; apply H; now right|].
  destruct (child n) as [[a|]|e] eqn:C.
  - rewrite E. simpl. eauto.
  - eauto.
  - rewrite (H n e (or_introl eq_refl) C). eauto.
Qed.

(* what is listed, with the entries (order of `names` preserved) *)
Fixpoint kept {A} (child : str -> result (option A)) (names : list str) : list (str * A) :=
  match names with
  | [] => []
  | n :: r => match child n with Ok (Some a) => (n, a) :: kept child r | _ => kept child r end
  end.

Lemma prep_entries_kept {A} skip (child : str -> result (option A)) names l :
  prep_entries skip child names = Ok l -> l = kept child names.
Proof.
  revert l. induction names as [|n r IH]; simpl; intros l H.
  - now inversion H.
  - destruct (child n) as [[a|]|e] eqn:C.
    + destruct (prep_entries skip child r) as [l'|e'] eqn:P; simpl in H; [|discriminate].
      inversion H. f_equal. now apply IH.
    + now apply IH.
    + destruct (skip e); [now apply IH | discriminate].
Qed.

(* a child fails with FileNotFound (nobody takes it) or with OSError (its handler cannot read it) *)
Lemma child_entry_raises_notfound w n e : child_entry w n = Raise e -> e = FileNotFound \/ e = IOErr.
Proof.
  unfold child_entry. destruct (negb (is_secure (child_sel w n))); [intros H; left; congruence|].
  destruct (w_stat w n) as [[| | | |]|]; intros H; try discriminate; inversion H; auto.
Qed.

Lemma dir_child_raises_notfound w n e : dir_child w n = Raise e -> e = FileNotFound \/ e = IOErr.
Proof.
  unfold dir_child. destruct (child_entry w n) eqn:C; simpl; [discriminate|].
  intros H. inversion H. subst. eapply child_entry_raises_notfound; eauto.
Qed.

Lemma skip_of_survives fx e :
  fx_skip_child fx = true -> fx_skip_unreadable fx = true -> e = FileNotFound \/ e = IOErr -> skip_of fx e = true.
Proof. intros A B [->| ->]; assumption. Qed.

Lemma dir_child_listed w n : child_listed (dir_child w) n = servable w n.
Proof. unfold child_listed, dir_child, servable. destruct (child_entry w n); reflexivity. Qed.
