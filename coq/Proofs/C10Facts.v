(* Facts about the directory-cache machine (Model/Cache.v): the invariant that
   ties the cache file to the ghost history and to the reply that wrote it,
   lifted over all finite histories by induction over fold_left. *)
From Coq Require Import ZArith List Bool Lia.
From PG Require Import Lib.Str Model.Cache.
Import ListNotations.
Local Open Scope Z_scope.

Lemma floor_s_le b : floor_s b <= b.
Proof.
  unfold floor_s. pose proof (Z.mul_div_le b 1000 ltac:(lia)). lia.
Qed.

Lemma floor_s_gt b : b - 1000 < floor_s b.
Proof.
  unfold floor_s. pose proof (Z.mod_pos_bound b 1000 ltac:(lia)).
  pose proof (Z.div_mod b 1000 ltac:(lia)). lia.
Qed.

Section Facts.
  Variables D L P : Type.
  Variable gen : D -> L.
  Variable enc : L -> bytes.
  Variable decode : bytes -> option L.
  Variable life : Z.
  Hypothesis roundtrip : forall l, decode (enc l) = Some l.

  Notation state := (state D).
  Notation op := (op D P).
  Notation reply := (reply L P).
  Notation stamped := (stamped D L P).
  Notation step := (step gen enc decode life).
  Notation stepacc := (stepacc gen enc decode life).
  Notation run := (run gen enc decode life).
  Notation loadcache := (loadcache decode life).
  Notation op_ok := (@op_ok D L P enc decode).

  (* ---------- ghost history ---------- *)
  Lemma alive_upto (h : list (Z * D)) u u' tau d : alive h u tau d -> u <= u' -> alive h u' tau d.
  Proof.
    destruct h as [|[t d'] r]; simpl; [tauto|].
    intros [[E [A B]]|A] Hu; [left; repeat split; try assumption; lia | right; exact A].
  Qed.

  Lemma alive_push (h : list (Z * D)) u t' d' u' tau d :
    alive h u tau d -> u <= t' -> alive ((t', d') :: h) u' tau d.
  Proof. intros A Hu. simpl. right. eapply alive_upto; eauto. Qed.

  (* ---------- what a hit looks like ---------- *)
  Lemma loadcache_hit (s : state) l :
    loadcache s = Hit l ->
    exists b g, file s = Some (b, g) /\ fresh life (now s) b = true /\ decode g = Some l.
  Proof.
    unfold Cache.loadcache. destruct (file s) as [[b g]|]; [|discriminate].
    destruct (fresh life (now s) b) eqn:F; [|discriminate].
    destruct (decode g) as [l'|] eqn:Dg; [|discriminate].
    intros H. inversion H; subst. exists b, g. auto.
  Qed.

  Lemma fresh_age nw b : fresh life nw b = true -> nw - b < ms life.
  Proof. unfold fresh. intros H. apply Z.ltb_lt in H. pose proof (floor_s_le b). lia. Qed.

  (* the code's own reading: whole seconds only *)
  Lemma fresh_seconds nw b : fresh life nw b = true <-> nw / 1000 - b / 1000 < life.
  Proof.
    unfold fresh, floor_s, ms. rewrite Z.ltb_lt.
    pose proof (Z.mod_pos_bound nw 1000 ltac:(lia)).
    pose proof (Z.div_mod nw 1000 ltac:(lia)). split; intros; nia.
  Qed.

  Lemma life_zero_never_fresh nw b : life <= 0 -> b <= nw -> fresh life nw b = false.
  Proof.
    intros Hl Hb. unfold fresh, ms. apply Z.ltb_ge. pose proof (floor_s_le b). lia.
  Qed.

  (* ---------- the invariant ---------- *)
  Definition entry_ok (s : state) (e : stamped) (pre : list stamped) : Prop :=
    let '(t, d, r) := e in
    t <= now s /\
    match r with
    | Served p l true =>
        (exists tau d', alive (hist s) (now s) tau d' /\ l = gen d' /\ tau <= t /\ t - tau < ms life) /\
        (exists p' d' t', In (t', d', Served p' l false) pre /\ t' <= t /\ t - t' < ms life)
    | Served p l false => l = gen d /\ alive (hist s) (now s) t d
    | Crashed _ => True
    end.

  Fixpoint outs_ok (s : state) (out : list stamped) : Prop :=
    match out with
    | [] => True
    | e :: pre => entry_ok s e pre /\ outs_ok s pre
    end.

  Definition file_ok (s : state) (out : list stamped) : Prop :=
    forall b g l, file s = Some (b, g) -> decode g = Some l ->
      b <= now s /\ (exists d, alive (hist s) (now s) b d /\ l = gen d) /\
      (exists p d, In (b, d, Served p l false) out).

  Definition hist_ok (s : state) : Prop :=
    exists t0 r, hist s = (t0, dir s) :: r /\ t0 <= now s.

  Definition Good (acc : state * list stamped) : Prop :=
    hist_ok (fst acc) /\ file_ok (fst acc) (snd acc) /\ outs_ok (fst acc) (snd acc).

  Lemma outs_ok_mono (s s' : state) (out : list stamped) :
    outs_ok s out -> now s <= now s' ->
    (forall tau d, alive (hist s) (now s) tau d -> alive (hist s') (now s') tau d) ->
    outs_ok s' out.
  Proof.
    intros H Hn Ha. induction out as [|[[t d] r] pre IH]; simpl in *; [exact I|].
    destruct H as [[Ht Hr] Hp]. split; [|now apply IH]. split; [simpl; lia|].
    destruct r as [p l [|]|p]; auto.
    - destruct Hr as [[tau [d' [A B]]] W]. split; [|exact W]. exists tau, d'. split; [now apply Ha|exact B].
    - destruct Hr as [E A]. split; [exact E|now apply Ha].
  Qed.

  Lemma Good_init d t : Good (init d t, []).
  Proof.
    unfold init. split; [|split]; simpl.
    - exists t, []. simpl. split; [reflexivity|simpl; lia].
    - intros b g l H. discriminate.
    - exact I.
  Qed.

  Lemma alive_now (s : state) : hist_ok s -> alive (hist s) (now s) (now s) (dir s).
  Proof. intros [t0 [r [E Ht]]]. rewrite E. simpl. left. split; [reflexivity|simpl; lia]. Qed.

  Lemma file_ok_cons (s : state) (out : list stamped) e : file_ok s out -> file_ok s (e :: out).
  Proof.
    intros Hf b g l H H0. destruct (Hf b g l H H0) as [X [Y [p0 [d0 Z]]]].
    split; [exact X|]. split; [exact Y|]. exists p0, d0. now right.
  Qed.

  Lemma Good_regenerate (s : state) (out : list stamped) p :
    Good (s, out) ->
    Good (fst (regenerate gen enc s p), (now s, dir s, Served p (gen (dir s)) false) :: out).
  Proof.
    intros [Hh [Hf Ho]]. simpl in *. split; [|split]; simpl.
    - exact Hh.
    - intros b g l H H0. injection H as <- <-. rewrite roundtrip in H0. injection H0 as <-.
      simpl. split; [simpl; lia|]. split.
      + exists (dir s). split; [|reflexivity]. now apply alive_now.
      + exists p, (dir s). now left.
    - split.
      + simpl. split; [simpl; lia|]. split; [reflexivity|now apply alive_now].
      + eapply outs_ok_mono; [exact Ho|simpl; lia|simpl; auto].
  Qed.

  Lemma Good_regenerate_f (s : state) (out : list stamped) p k :
    (forall l, decode (firstn k (enc l)) = None \/ firstn k (enc l) = enc l) ->
    Good (s, out) ->
    Good (fst (regenerate_f gen enc s p k), (now s, dir s, Served p (gen (dir s)) false) :: out).
  Proof.
    intros Hk [Hh [Hf Ho]]. simpl in *. split; [|split]; simpl.
    - exact Hh.
    - intros b g l H H0. injection H as <- <-.
      destruct (Hk (gen (dir s))) as [E|E]; rewrite E in H0; [discriminate|].
      rewrite roundtrip in H0. injection H0 as <-.
      simpl. split; [lia|]. split.
      + exists (dir s). split; [|reflexivity]. now apply alive_now.
      + exists p, (dir s). now left.
    - split.
      + simpl. split; [lia|]. split; [reflexivity|now apply alive_now].
      + eapply outs_ok_mono; [exact Ho|simpl; lia|simpl; auto].
  Qed.

  Lemma Good_step rep acc o : Good acc -> op_ok o -> Good (stepacc rep acc o).
  Proof.
    destruct acc as [s out]. intros G Hok. pose proof G as [Hh [Hf Ho]]. simpl in Hh, Hf, Ho.
    unfold Cache.stepacc. simpl fst. simpl snd.
    destruct o as [f|dt|p|p k|q|g]; simpl.
    - (* Mutate *)
      split; [|split]; simpl.
      + exists (now s), (hist s). split; [reflexivity|simpl; lia].
      + intros b g l H H0. simpl in H. destruct (Hf b g l H H0) as [A [[d [B C]] W]].
        split; [exact A|]. split; [|exact W]. exists d. split; [|exact C].
        simpl. right. eapply alive_upto; [exact B|simpl; lia].
      + eapply outs_ok_mono; [exact Ho|simpl; lia|]. simpl. intros tau d A. right.
        eapply alive_upto; [exact A|simpl; lia].
    - (* Tick *)
      simpl in Hok. split; [|split]; simpl.
      + destruct Hh as [t0 [r [E Ht]]]. exists t0, r. split; [exact E|simpl; lia].
      + intros b g l H H0. simpl in H. destruct (Hf b g l H H0) as [A [[d [B C]] W]].
        split; [simpl; lia|]. split; [|exact W]. exists d. split; [|exact C].
        simpl. eapply alive_upto; [exact B|simpl; lia].
      + eapply outs_ok_mono; [exact Ho|simpl; lia|]. simpl. intros tau d A.
        eapply alive_upto; [exact A|simpl; lia].
    - (* List *)
      unfold Cache.do_list. destruct (loadcache s) as [l| |] eqn:Lc.
      + (* hit: state untouched *)
        destruct (loadcache_hit s l Lc) as [b [g [Ef [Fr Dg]]]].
        destruct (Hf b g l Ef Dg) as [Hb [[d [A B]] [p' [d' W]]]].
        pose proof (fresh_age _ _ Fr) as Age.
        split; [exact Hh|]. split.
        * now apply file_ok_cons.
        * simpl. split; [|exact Ho]. split; [simpl; lia|]. split.
          -- exists b, d. repeat split; assumption.
          -- exists p', d', b. repeat split; assumption.
      + exact (Good_regenerate s out p G).
      + destruct rep.
        * exact (Good_regenerate s out p G).
        * split; [exact Hh|]. split.
          -- now apply file_ok_cons.
          -- simpl. split; [|exact Ho]. split; [simpl; lia|exact I].
    - (* List whose cache write fails after k bytes *)
      simpl in Hok. unfold Cache.do_list_f. destruct (loadcache s) as [l| |] eqn:Lc.
      + destruct (loadcache_hit s l Lc) as [b [g [Ef [Fr Dg]]]].
        destruct (Hf b g l Ef Dg) as [Hb [[d [A B]] [p' [d' W]]]].
        pose proof (fresh_age _ _ Fr) as Age.
        split; [exact Hh|]. split.
        * now apply file_ok_cons.
        * simpl. split; [|exact Ho]. split; [simpl; lia|]. split.
          -- exists b, d. repeat split; assumption.
          -- exists p', d', b. repeat split; assumption.
      + exact (Good_regenerate_f s out p k Hok G).
      + destruct rep.
        * exact (Good_regenerate_f s out p k Hok G).
        * split; [exact Hh|]. split.
          -- now apply file_ok_cons.
          -- simpl. split; [|exact Ho]. split; [simpl; lia|exact I].
    - (* Probe: nothing changes *)
      exact G.
    - (* Damage: the new content does not decode *)
      simpl in Hok. split; [|split]; simpl.
      + exact Hh.
      + intros b g0 l H H0. simpl in H. injection H as <- <-. congruence.
      + eapply outs_ok_mono; [exact Ho|simpl; lia|simpl; auto].
  Qed.

  Lemma Good_fold rep ops : forall acc, Good acc -> Forall op_ok ops -> Good (fold_left (stepacc rep) ops acc).
  Proof.
    induction ops as [|o ops IH]; intros acc G F; simpl; [exact G|].
    inversion F; subst. apply IH; [now apply Good_step|assumption].
  Qed.

  Lemma Good_run rep d t ops : Forall op_ok ops -> Good (run rep (init d t) ops).
  Proof. intros F. apply Good_fold; [apply Good_init|exact F]. Qed.

  Lemma outs_ok_split (s : state) (out : list stamped) : outs_ok s out ->
    forall post e pre, out = post ++ e :: pre -> entry_ok s e pre.
  Proof.
    intros H post. revert out H. induction post as [|x post IH]; intros out H e pre E; subst; simpl in H.
    - tauto.
    - destruct H as [_ H]. eapply IH; [exact H|reflexivity].
  Qed.

  (* ---------- the property-level statements ---------- *)

  (* every listing ever returned reflects the directory as it was at some
     instant tau no further back than the lifetime (tau = t when just generated) *)
  Lemma fresh_all rep d0 t0 ops sf out :
    Forall op_ok ops -> run rep (init d0 t0) ops = (sf, out) ->
    forall t d p l h, In (t, d, Served p l h) out ->
      exists tau d', alive (hist sf) (now sf) tau d' /\ l = gen d' /\ tau <= t /\ (t - tau < ms life \/ tau = t).
  Proof.
    intros F R t d p l h Hin. pose proof (Good_run rep d0 t0 ops F) as G. rewrite R in G.
    destruct G as [_ [_ Ho]]. simpl in Ho.
    apply in_split in Hin. destruct Hin as [post [pre E]].
    pose proof (outs_ok_split _ _ Ho post _ pre E) as H. simpl in H. destruct H as [_ H].
    destruct h.
    - destruct H as [[tau [d' [A [B [C Dd]]]]] _]. exists tau, d'. auto.
    - destruct H as [E1 A]. exists t, d. repeat split; auto; lia.
  Qed.

  (* a listing served from the cache is the very list a strictly earlier-or-equal
     request generated (whatever the two protocols), less than `life` ago *)
  Lemma transparent_all rep d0 t0 ops sf out :
    Forall op_ok ops -> run rep (init d0 t0) ops = (sf, out) ->
    forall post pre t d q l, out = post ++ (t, d, Served q l true) :: pre ->
      exists p d' t', In (t', d', Served p l false) pre /\ l = gen d' /\ t' <= t /\ t - t' < ms life.
  Proof.
    intros F R post pre t d q l E. pose proof (Good_run rep d0 t0 ops F) as G. rewrite R in G.
    destruct G as [_ [_ Ho]]. simpl in Ho.
    pose proof (outs_ok_split _ _ Ho post _ pre E) as H. simpl in H.
    destruct H as [_ [_ [p' [d' [t' [W [A B]]]]]]].
    exists p', d', t'. repeat split; auto.
    (* the writer's own entry says what it generated *)
    assert (Hp : outs_ok sf pre).
    { clear - Ho E. subst out. induction post as [|x post IH]; simpl in Ho; [tauto|]. apply IH. tauto. }
    apply in_split in W. destruct W as [post' [pre' E']].
    pose proof (outs_ok_split _ _ Hp post' _ pre' E') as H. simpl in H. tauto.
  Qed.

  (* a hit changes nothing at all: in particular neither the file nor its birth time *)
  Lemma hit_no_refresh rep (s : state) (p : P) l :
    loadcache s = Hit l -> step rep s (List p) = (s, Some (Served p l true)).
  Proof. intros H. simpl. unfold Cache.do_list. now rewrite H. Qed.

  (* lifetime 0 (or negative): nothing is ever served from the cache *)
  Lemma zero_all rep d0 t0 ops sf out :
    life <= 0 -> Forall op_ok ops -> run rep (init d0 t0) ops = (sf, out) ->
    forall t d p l h, In (t, d, Served p l h) out -> h = false /\ l = gen d.
  Proof.
    intros Hl F R t d p l h Hin. pose proof (Good_run rep d0 t0 ops F) as G. rewrite R in G.
    destruct G as [_ [_ Ho]]. simpl in Ho.
    apply in_split in Hin. destruct Hin as [post [pre E]].
    pose proof (outs_ok_split _ _ Ho post _ pre E) as H. simpl in H. destruct H as [_ H].
    destruct h.
    - destruct H as [[tau [d' [_ [_ [C Dd]]]]] _]. unfold ms in Dd. lia.
    - tauto.
  Qed.

  (* ---------- crashes ---------- *)
  Definition is_crash (e : stamped) : Prop := match e with (_, _, Crashed _) => True | _ => False end.

  Lemma repaired_step_no_crash (s : state) (o : op) r : snd (step true s o) = Some r -> forall p, r <> Crashed p.
  Proof.
    destruct o as [f|dt|p|p k|q|g]; simpl; try discriminate.
    - unfold Cache.do_list. destruct (loadcache s); simpl; intros H q; injection H as <-; discriminate.
    - unfold Cache.do_list_f. destruct (loadcache s); simpl; intros H q; injection H as <-; discriminate.
  Qed.

  Lemma repaired_never_crashes ops : forall acc,
    (forall e, In e (snd acc) -> ~ is_crash e) ->
    forall e, In e (snd (fold_left (stepacc true) ops acc)) -> ~ is_crash e.
  Proof.
    induction ops as [|o ops IH]; intros acc H; simpl; [exact H|].
    apply IH. destruct acc as [s out]. unfold Cache.stepacc. simpl fst. simpl snd.
    destruct (step true s o) as [s' r] eqn:E. destruct r as [x|]; simpl; [|exact H].
    intros e [<-|Hin]; [|now apply H].
    pose proof (repaired_step_no_crash s o x) as N. rewrite E in N. specialize (N eq_refl).
    destruct x; simpl; [tauto|]. intros _. now apply (N p).
  Qed.

  (* without damage the pinned code never meets an undecodable file *)
  Definition wellformed (s : state) : Prop := forall b g, file s = Some (b, g) -> exists l, g = enc l.
  Definition no_damage (o : op) : Prop := match o with Damage _ | ListF _ _ => False | _ => True end.

  Lemma pinned_step_wf (s : state) (o : op) :
    wellformed s -> no_damage o ->
    wellformed (fst (step false s o)) /\ forall r, snd (step false s o) = Some r -> forall p, r <> Crashed p.
  Proof.
    intros W N. destruct o as [f|dt|p|p k|q|g]; simpl in *; try (split; [exact W|discriminate]); try tauto.
    unfold Cache.do_list, Cache.loadcache. destruct (file s) as [[b g]|] eqn:Ef.
    - destruct (fresh life (now s) b).
      + destruct (W b g Ef) as [l ->]. rewrite roundtrip. simpl. split.
        * intros b' g' H. rewrite Ef in H. injection H as <- <-. now exists l.
        * intros r H q. injection H as <-. discriminate.
      + simpl. split.
        * intros b' g' H. injection H as <- <-. eauto.
        * intros r H q. injection H as <-. discriminate.
    - simpl. split.
      + intros b' g' H. injection H as <- <-. eauto.
      + intros r H q. injection H as <-. discriminate.
  Qed.

  Lemma pinned_never_crashes_undamaged ops : forall acc,
    wellformed (fst acc) -> Forall no_damage ops ->
    (forall e, In e (snd acc) -> ~ is_crash e) ->
    forall e, In e (snd (fold_left (stepacc false) ops acc)) -> ~ is_crash e.
  Proof.
    induction ops as [|o ops IH]; intros acc W F H; simpl; [exact H|].
    inversion F; subst. destruct acc as [s out]. simpl in W.
    destruct (pinned_step_wf s o W H2) as [W' NC].
    apply IH; [| assumption |]; unfold Cache.stepacc; simpl fst; simpl snd;
      destruct (step false s o) as [s' r] eqn:E; simpl in *.
    - exact W'.
    - destruct r as [x|]; simpl; [|exact H].
      intros e [<-|Hin]; [|now apply H]. specialize (NC x eq_refl).
      destruct x; simpl; [tauto|]. intros _. now apply (NC p).
  Qed.

  Lemma invariant_all rep d0 t0 (ops : list op) sf out :
    Forall op_ok ops -> run rep (init d0 t0) ops = (sf, out) ->
    forall b g l, file sf = Some (b, g) -> decode g = Some l ->
      b <= now sf /\ (exists d, alive (hist sf) (now sf) b d /\ l = gen d) /\
      (exists p d, In (b, d, Served p l false) out).
  Proof.
    intros F R. pose proof (Good_run rep d0 t0 ops F) as G. rewrite R in G. exact (proj1 (proj2 G)).
  Qed.

  Lemma pinned_always_answers d0 t0 (ops : list op) :
    Forall no_damage ops ->
    forall e, In e (snd (run false (init d0 t0) ops)) -> ~ is_crash e.
  Proof.
    intros F. apply (pinned_never_crashes_undamaged ops (init d0 t0, [])); simpl; auto.
    intros b g H. discriminate.
  Qed.

  Lemma repaired_always_answers d0 t0 (ops : list op) :
    forall e, In e (snd (run true (init d0 t0) ops)) -> ~ is_crash e.
  Proof. apply (repaired_never_crashes ops (init d0 t0, [])). simpl. tauto. Qed.
End Facts.
