(* C20: the facts that depend on the current source (Gen/Conn.v, Gen/Opens.v). *)
(* every command of this file is bounded (the largest, one kernel evaluation of the
   whole finite domain, takes ~12 s) *)
Set Default Timeout 300.
From Coq Require Import List Arith Bool String.
Import ListNotations.
From PG Require Import Lib.Str Model.Conn Gen.Conn Gen.Opens Proofs.C20Facts.

Lemma all_pclass_complete p : In p all_pclass.
Proof. destruct p; simpl; tauto. Qed.

Lemma current_specs_ok : forallb (fun p => spec_ok (handle_spec p)) all_pclass = true.
Proof. vm_compute. reflexivity. Qed.
Lemma current_server_ok : server_ok server_spec = true.
Proof. vm_compute. reflexivity. Qed.

Lemma spec_ok_at p : spec_ok (handle_spec p) = true.
Proof.
  pose proof current_specs_ok as H. rewrite forallb_forall in H. apply H, all_pclass_complete.
Qed.

(* nothing reachable from getProtocol writes to the connection *)
Lemma classification_is_silent : classify_write_sites = [].
Proof. reflexivity. Qed.

(* no override of the socketserver accept-loop hooks in server.py sends anything to a client *)
Lemma accept_loop_is_silent : accept_loop_write_sites = [].
Proof. reflexivity. Qed.
(* the reading of the request line is guarded (a client that goes silent or away
   before a request line arrives does not leave the handler) *)
Lemma request_read_is_guarded : request_read_guarded = true.
Proof. reflexivity. Qed.

Lemma outside_handler_silent : accept_loop_write_sites = [] /\ request_read_guarded = true.
Proof. exact (conj accept_loop_is_silent request_read_is_guarded). Qed.

Lemma contained_now p fails c pre acts : silent pre = true ->
  fst (connection fails c server_spec (handle_spec p) pre acts) = Contained.
Proof. apply connection_contained. exact current_server_ok. Qed.

Lemma logged_now p fails c pre acts o s : silent pre = true ->
  connection fails c server_spec (handle_spec p) pre acts = (o, s) ->
  (forall e, In e (log s) -> e_after e = true -> e_cls e = LIO c /\ e_addr e = true) /\
  (faulted fails s = true -> exists e, In e (log s) /\ e_after e = true).
Proof.
  intros Hs H.
  exact (proj2 (connection_logged fails c server_spec (handle_spec p) pre acts current_server_ok (spec_ok_at p) Hs o s H)).
Qed.

Lemma files_closed_now p fails c pre acts : balanced (pre ++ acts) ->
  depth (snd (connection fails c server_spec (handle_spec p) pre acts)) = 0.
Proof. apply connection_files_closed. Qed.

(* the open( call sites that are not the context expression of a with statement
   are exactly the listed reference-counted resources *)
Definition site_eqb (a b : str * (str * str)) : bool :=
  str_eqb (fst a) (fst b) && str_eqb (fst (snd a)) (fst (snd b)) && str_eqb (snd (snd a)) (snd (snd b)).
Definition non_with_sites : list (str * (str * str)) :=
  map (fun s => (fst s, (fst (snd s), fst (snd (snd s)))))
      (filter (fun s => negb (snd (snd (snd s)))) open_sites).
Lemma non_with_sites_listed : list_eqb site_eqb non_with_sites ref_released_sites = true.
Proof. vm_compute. reflexivity. Qed.
