(* C20: the facts that depend on the current source (Gen/Conn.v, Gen/Opens.v). *)
(* every command of this file is bounded (the largest, one kernel evaluation of the
   whole finite domain, takes ~12 s) *)
Set Default Timeout 300.
From Coq Require Import List Arith Bool String.
Import ListNotations.
From PG Require Import Lib.Str Model.Conn Gen.Conn Gen.Opens Proofs.C20Facts.

Lemma all_pclass_complete p : In p all_pclass.
Proof. destruct p; simpl; tauto. Qed.

Lemma current_specs_ok : forallb (fun p => spec_ok (handle_spec p)) all_pclass = true.
Proof. vm_compute. reflexivity. Qed.
Lemma current_server_ok : server_ok server_spec = true.
Proof. vm_compute. reflexivity. Qed.

Lemma spec_ok_at p : spec_ok (handle_spec p) = true.
Proof.
  pose proof current_specs_ok as H. rewrite forallb_forall in H. apply H, all_pclass_complete.
Qed.

Lemma contained_now p fails c acts : fst (server_handle fails c server_spec (handle_spec p) acts) = Contained.
Proof. apply contained. exact current_server_ok. Qed.

Lemma logged_now p fails c acts o s :
  server_handle fails c server_spec (handle_spec p) acts = (o, s) ->
  (forall e, In e (log s) -> e_after e = true -> e_cls e = LIO c /\ e_addr e = true) /\
  (faulted fails s = true -> exists e, In e (log s) /\ e_after e = true).
Proof.
  intros H. exact (proj2 (logged_own_class fails c server_spec (handle_spec p) acts current_server_ok (spec_ok_at p) o s H)).
Qed.

Lemma files_closed_now p fails c acts : balanced acts ->
  depth (snd (server_handle fails c server_spec (handle_spec p) acts)) = 0.
Proof. apply files_closed. Qed.

(* the open( call sites that are not the context expression of a with statement
   are exactly the listed reference-counted resources *)
Definition site_eqb (a b : str * (str * str)) : bool :=
  str_eqb (fst a) (fst b) && str_eqb (fst (snd a)) (fst (snd b)) && str_eqb (snd (snd a)) (snd (snd b)).
Definition non_with_sites : list (str * (str * str)) :=
  map (fun s => (fst s, (fst (snd s), fst (snd (snd s)))))
      (filter (fun s => negb (snd (snd (snd s)))) open_sites).
Lemma non_with_sites_listed : list_eqb site_eqb non_with_sites ref_released_sites = true.
Proof. vm_compute. reflexivity. Qed.
