(* Escaping facts for the interpreter's output functions (Model/TALOut.v). *)
From Coq Require Import Lia String.
From PG Require Import Lib.Str Lib.StrFacts Lib.HtmlEsc Lib.HtmlEscFacts Model.TALProg Model.TALCompile Model.TALVM Model.TALOut
                       Proofs.TALCompileFacts.
Local Open Scope N_scope.

Lemma esc_char_true_no_dq c : mem_N DQ (esc_char true c) = false.
Proof.
  unfold esc_char.
  destruct (c =? AMP); [reflexivity|]. destruct (c =? LT); [reflexivity|]. destruct (c =? GT); [reflexivity|].
  simpl. destruct (c =? DQ) eqn:E; [reflexivity|]. destruct (c =? SQ); [reflexivity|].
  cbn [mem_N]. rewrite orb_false_r. apply N.eqb_neq in E. apply N.eqb_neq. congruence.
Qed.

Lemma escape_true_no_dq s : mem_N DQ (escape true s) = false.
Proof.
  induction s as [|c s IH]; [reflexivity|]. simpl. now rewrite mem_N_app, esc_char_true_no_dq, IH.
Qed.

(* dynamic text (no `structure`): neither angle bracket survives, and decoding gives the data back *)
Lemma text_escaped v :
  content_text false v = escape false v /\
  mem_N LT (content_text false v) = false /\ mem_N GT (content_text false v) = false /\
  unescape (content_text false v) = v.
Proof.
  unfold content_text. destruct (escape_no_markup false v) as [A B].
  repeat split; auto. apply unescape_escape.
Qed.

(* a dynamic attribute value is written between double quotes as escape true v: it contains no
   double quote and no angle bracket (it cannot end the attribute or the tag), and decodes to v *)
Lemma attribute_escaped name v :
  att_text (name, v) = [SP] ++ name ++ lit "="""%string ++ escape true v ++ lit """"%string /\
  mem_N DQ (escape true v) = false /\ mem_N LT (escape true v) = false /\ mem_N GT (escape true v) = false /\
  unescape (escape true v) = v.
Proof.
  destruct (escape_no_markup true v) as [A B].
  repeat split; auto; [apply escape_true_no_dq | apply unescape_escape].
Qed.

(* every value that cmdAttributes puts into the start tag comes either from the template's own
   attributes or from an evaluated statement, and is written through att_text *)
Lemma apply_attributes_sources evald cur n v :
  In (n, v) (apply_attributes evald cur) -> In (n, AValue v) evald \/ In (n, v) cur.
Proof.
  unfold apply_attributes. intros H. apply in_app_or in H. destruct H as [H|H].
  - left. apply in_flat_map in H. destruct H as ([k a] & Hin & Hx). simpl in Hx.
    destruct a; simpl in Hx; try contradiction. destruct Hx as [Hx|[]]. inversion Hx; subst. exact Hin.
  - right. apply filter_In in H. tauto.
Qed.

(* a template without TAL/METAL expands to its own serialisation, the context untouched *)
Lemma passthrough_expand v es p t m c :
  forallb tal_free_event es = true -> compile v es = COk (p, (t, m)) ->
  exists mf, expand_static p t m 2 c = Done mf /\ dat str mf = passthrough_text v es /\ cx str mf = c.
Proof.
  intros Hf Hc. destruct (passthrough v es p t m Hf Hc) as (Et & Em & [Ep|[Ep Ex]]); subst.
  - eexists. split; [reflexivity|]. split; reflexivity.
  - eexists. split; [reflexivity|]. split; [simpl; now rewrite Ex | reflexivity].
Qed.
