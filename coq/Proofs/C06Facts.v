(* C06Facts.v — the same site through every protocol: what the reference client of
   each protocol reads off the rendering of an entry is `view` of the entry, hence
   the same in every protocol; directory level for Gopher, Gopher+, Gemini and
   Spartan; MIME adjusters. *)
From Coq Require Import Lia ZArith String.
From PG Require Import Lib.Str Lib.StrFacts Lib.Dec Lib.DecFacts Lib.Crlf Lib.CrlfFacts Lib.HtmlEsc Lib.HtmlEscFacts
     Lib.Bytes Lib.Percent Lib.PercentFacts Lib.Utf8 Lib.Utf8Facts Lib.PercentStr Lib.PercentStrFacts
     Model.Entry Model.Render0 Model.Copy Model.RenderUrl Model.ClientView
     Proofs.RenderFacts.
Local Open Scope N_scope.

(* ---------- small facts ---------- *)
Lemma mem_N_app x a b : mem_N x (a ++ b) = mem_N x a || mem_N x b.
Proof. apply HtmlEscFacts.mem_N_app. Qed.

Lemma no_tcl_spec s : no_tcl s = true -> mem_N 9 s = false /\ mem_N 10 s = false /\ mem_N 13 s = false.
Proof.
  unfold no_tcl. intros H. apply andb_true_iff in H as [H H3]. apply andb_true_iff in H as [H1 H2].
  apply negb_true_iff in H1, H2, H3. auto.
Qed.

Lemma canon_spec s : canon s = true -> exists b, encode_se s = Some b /\ decode_se b = s /\ is_bytes b = true.
Proof.
  unfold canon. destruct (encode_se s) as [b|] eqn:E; [|discriminate].
  intros H. apply str_eqb_eq in H. exists b. repeat split; auto. eapply encode_se_is_bytes; eauto.
Qed.

Lemma canon_backslash n : canon n = true -> backslash_name n = Some (bsr_map n).
Proof. intros C. destruct (canon_spec n C) as (b & E & D & _). unfold backslash_name. rewrite E. simpl. now rewrite D. Qed.

Lemma canon_unquote s q : canon s = true -> quote_str [47] s = Some q -> unquote_str q = s.
Proof.
  intros C Q. destruct (canon_spec s C) as (b & E & D & B).
  destruct (unquote_quote_str [47] b eq_refl B) as (q' & Q' & U). rewrite D in Q', U. congruence.
Qed.

Lemma no_ws_spec s c : no_ws s = true -> is_ascii_ws c = true -> mem_N c s = false.
Proof.
  intros H W. induction s as [|x s IH]; [reflexivity|]. simpl in H. apply andb_true_iff in H as [H1 H2].
  cbn [mem_N]. rewrite (IH H2), orb_false_r. destruct (c =? x) eqn:E; [|reflexivity].
  apply N.eqb_eq in E. subst. rewrite W in H1. discriminate.
Qed.
Lemma no_ws_intro s : (forall c, is_ascii_ws c = true -> mem_N c s = false) -> no_ws s = true.
Proof.
  induction s as [|x s IH]; intros H; [reflexivity|]. simpl. apply andb_true_iff; split.
  - destruct (is_ascii_ws x) eqn:W; [|reflexivity]. specialize (H x W). cbn [mem_N] in H. now rewrite N.eqb_refl in H.
  - apply IH. intros c W. specialize (H c W). cbn [mem_N] in H. now apply orb_false_iff in H.
Qed.
Lemma no_ws_app a b : no_ws (a ++ b) = no_ws a && no_ws b.
Proof. unfold no_ws. apply forallb_app. Qed.

Lemma ws_cases c : is_ascii_ws c = true -> In c [9; 10; 11; 12; 13; 32].
Proof.
  unfold is_ascii_ws. intros H. apply orb_true_iff in H as [H|H].
  - apply andb_true_iff in H as [H1 H2]. apply N.leb_le in H1, H2. simpl.
    assert (c = 9 \/ c = 10 \/ c = 11 \/ c = 12 \/ c = 13) by lia. intuition.
  - apply N.eqb_eq in H. subst. simpl. auto 10.
Qed.

Lemma quote_str_no_ws s q : quote_str [47] s = Some q -> no_ws q = true.
Proof.
  intros Q. apply no_ws_intro. intros c W. apply (quote_str_path_no c s q Q).
  apply ws_cases in W. simpl in *. intuition.
Qed.

Lemma print_Z_no_ws z : no_ws (print_Z z) = true.
Proof.
  apply no_ws_intro. intros c W. apply ws_cases in W. simpl in W.
  apply print_Z_no; intuition; subst; (reflexivity || discriminate).
Qed.

Lemma span_nonws_stop u r : no_ws u = true -> span_nonws (u ++ 32 :: r) = (u, 32 :: r).
Proof.
  induction u as [|c u IH]; intros H; [reflexivity|]. simpl in H. apply andb_true_iff in H as [H1 H2].
  apply negb_true_iff in H1. simpl. rewrite H1, (IH H2). reflexivity.
Qed.

(* ---------- what link_url returns on a well-formed entry ---------- *)
Definition gem_prefix (f : family) (c : N) : str :=
  match f with FGemini => if c =? T_SEARCH then QUERY_PREFIX else [] | _ => [] end.

Lemma type_is_one e c k : e_type e = Some [c] -> type_is e k = (c =? k).
Proof. intros H. unfold type_is. now rewrite H. Qed.

Lemma quote_bytes_nonempty safe b : b <> [] -> quote_bytes safe b <> [].
Proof.
  destruct b as [|c r]; [congruence|]. intros _. simpl. unfold quote_byte.
  destruct (quote_keeps safe c); discriminate.
Qed.

Lemma encode_se_nonempty s b : s <> [] -> encode_se s = Some b -> b <> [].
Proof.
  destruct s as [|c r]; [congruence|]. intros _. simpl.
  destruct (enc_cp c) as [a|] eqn:E; [|discriminate]. destruct (encode_se r); [|discriminate].
  intros [= <-]. unfold enc_cp in E.
  repeat match type of E with context [if ?x then _ else _] => destruct x end;
    try discriminate; injection E as <-; discriminate.
Qed.

Lemma local_url_spec f e c q :
  e_type e = Some [c] -> e_selector e <> [] -> quote_str [47] (e_selector e) = Some q ->
  local_url f e = Some (gem_prefix f c ++ q).
Proof.
  intros T NE Q. unfold local_url, gem_prefix, SLASHc. destruct f; [exact Q| |].
  - unfold quote_str in Q. destruct (encode_se (e_selector e)) as [b|] eqn:E; [|discriminate].
    simpl in Q. injection Q as <-. rewrite (type_is_one e c _ T).
    pose proof (quote_bytes_nonempty [47] b (encode_se_nonempty _ _ NE E)) as N.
    destruct (quote_bytes [47] b) eqn:QB; [congruence|]. destruct (c =? T_SEARCH); reflexivity.
  - unfold quote_str in Q. destruct (encode_se (e_selector e)) as [b|] eqn:E; [|discriminate].
    simpl in Q. injection Q as <-.
    pose proof (quote_bytes_nonempty [47] b (encode_se_nonempty _ _ NE E)) as N.
    destruct (quote_bytes [47] b) eqn:QB; [congruence|]. reflexivity.
Qed.

Lemma url_tail_no_scheme sel : url_tail sel = None -> url_scheme_match sel = false.
Proof. intros H. unfold url_scheme_match. now rewrite H. Qed.

Lemma url_tail_mem c sel r : url_tail sel = Some r -> mem_N c sel = false -> mem_N c r = false.
Proof.
  unfold url_tail. intros U M.
  destruct (prefixb (lit "/URL:") sel).
  { assert (R : r = skipn 5 sel) by congruence. rewrite R. now apply mem_N_skipn. }
  destruct (prefixb (lit "URL:") sel); [|discriminate].
  assert (R : r = skipn 4 sel) by congruence. rewrite R. now apply mem_N_skipn.
Qed.

Inductive target_case (f : family) (sn : str) (sp : Z) (e : entry) (c : N) : str -> vkind -> option str -> Prop :=
| tc_url r : url_tail (e_selector e) = Some r -> url_ok r = true ->
    target_case f sn sp e c r KUrl (Some r)
| tc_local q : url_tail (e_selector e) = None -> e_host e = None -> e_port e = None ->
    local_sel_ok (e_selector e) = true -> quote_str [47] (e_selector e) = Some q ->
    target_case f sn sp e c (gem_prefix f c ++ q) KLink (Some (e_selector e))
| tc_remote q : url_tail (e_selector e) = None -> remote_ok sn sp c e = true ->
    quote_str [47] (c :: e_selector e) = Some q ->
    target_case f sn sp e c (gopher_url_text (eff_host sn e) (eff_port sp e) q) KUrl
                (Some (gopher_url_text (eff_host sn e) (eff_port sp e) q)).

Lemma is_local_href_nonempty s : is_local_href s = true -> s <> [].
Proof. destruct s; [discriminate|discriminate]. Qed.

Lemma url_ok_spec r : url_ok r = true -> r <> [] /\ is_local_href r = false /\ no_ws r = true.
Proof.
  unfold url_ok. destruct r as [|x r]; [discriminate|]. intros H. apply andb_true_iff in H as [H1 H2].
  apply negb_true_iff in H1. repeat split; auto. discriminate.
Qed.

Lemma link_url_wf f sn sp e n c :
  e_name e = Some n -> e_type e = Some [c] -> entry_wf sn sp e = true ->
  exists u k t, link_url f sn sp e = Some u /\ target_case f sn sp e c u k t.
Proof.
  intros N T W. unfold entry_wf in W. rewrite N, T in W.
  do 6 (apply andb_true_iff in W as [W ?]).
  match goal with H : no_tcl (e_selector e) = true |- _ => destruct (no_tcl_spec _ H) as (S9 & S10 & S13) end.
  unfold link_url.
  destruct (url_tail (e_selector e)) as [r|] eqn:U.
  - (* URL: selector *)
    match goal with H : url_ok r = true |- _ => rename H into UO end.
    destruct (url_ok_spec r UO) as (NE & NL & NW).
    assert (L : mem_N LFc r = false) by (eapply url_tail_mem; eauto).
    exists r, KUrl, (Some r). split; [now apply dot_plus_eol_no_lf|now constructor].
  - destruct (e_host e) as [h|] eqn:EH; [|destruct (e_port e) as [p|] eqn:EP].
    + (* remote: host set *)
      match goal with H0 : remote_ok sn sp c e = true |- _ => rename H0 into RO end.
      pose proof RO as RO'. unfold remote_ok in RO'.
      repeat (apply andb_true_iff in RO' as [RO' ?]).
      apply negb_true_iff in RO'. rewrite RO'.
      destruct (encode_se (c :: e_selector e)) as [b|] eqn:E; [|discriminate].
      assert (Q : quote_str [47] (c :: e_selector e) = Some (quote_bytes [47] b)) by (unfold quote_str; now rewrite E).
      exists (gopher_url_text (eff_host sn e) (eff_port sp e) (quote_bytes [47] b)), KUrl,
             (Some (gopher_url_text (eff_host sn e) (eff_port sp e) (quote_bytes [47] b))).
      split; [|now apply tc_remote].
      unfold geturl. rewrite (url_tail_no_scheme _ U). unfold type_text. rewrite T.
      change ([c] ++ e_selector e) with (c :: e_selector e). unfold SLASHc. rewrite Q. simpl.
      unfold eff_host, eff_port. rewrite EH.
      reflexivity.
    + (* remote: port set *)
      match goal with H0 : remote_ok sn sp c e = true |- _ => rename H0 into RO end.
      pose proof RO as RO'. unfold remote_ok in RO'.
      repeat (apply andb_true_iff in RO' as [RO' ?]).
      apply negb_true_iff in RO'. rewrite RO'.
      destruct (encode_se (c :: e_selector e)) as [b|] eqn:E; [|discriminate].
      assert (Q : quote_str [47] (c :: e_selector e) = Some (quote_bytes [47] b)) by (unfold quote_str; now rewrite E).
      exists (gopher_url_text (eff_host sn e) (eff_port sp e) (quote_bytes [47] b)), KUrl,
             (Some (gopher_url_text (eff_host sn e) (eff_port sp e) (quote_bytes [47] b))).
      split; [|now apply tc_remote].
      unfold geturl. rewrite (url_tail_no_scheme _ U). unfold type_text. rewrite T.
      change ([c] ++ e_selector e) with (c :: e_selector e). unfold SLASHc. rewrite Q. simpl.
      unfold eff_host, eff_port. rewrite EH, EP. reflexivity.
    + (* local *)
      match goal with H0 : local_sel_ok (e_selector e) = true |- _ => rename H0 into LO end.
      pose proof LO as LO'. unfold local_sel_ok in LO'.
      apply andb_true_iff in LO' as [LO' GQ]. apply andb_true_iff in LO' as [LH LC].
      destruct (quote_str [47] (e_selector e)) as [q|] eqn:Q; [|discriminate].
      exists (gem_prefix f c ++ q), KLink, (Some (e_selector e)).
      split; [|now apply tc_local].
      unfold is_local. rewrite EH, EP. simpl.
      apply local_url_spec; auto. now apply is_local_href_nonempty.
Qed.

(* ---------- what a client makes of those targets ---------- *)
Lemma split_once_none c s : mem_N c s = false -> split_once c s = (s, None).
Proof.
  induction s as [|x s IH]; intros H; [reflexivity|]. apply mem_N_cons_false in H as [H1 H2].
  simpl. assert (E : x =? c = false) by (apply N.eqb_neq; congruence). now rewrite E, (IH H2).
Qed.

Lemma is_local_href_inv s : is_local_href s = true ->
  exists r, s = 47 :: r /\ match r with y :: _ => y <> 47 | [] => True end.
Proof.
  unfold is_local_href. destruct s as [|x s]; [discriminate|]. cbn [prefixb]. intros L.
  apply andb_true_iff in L as [L1 L2]. apply andb_true_iff in L1 as [L1 _]. apply N.eqb_eq in L1. subst x.
  exists s. split; [reflexivity|]. destruct s as [|y s]; [exact I|].
  intros ->. rewrite !N.eqb_refl in L2. discriminate.
Qed.
Lemma is_local_href_intro r : match r with y :: _ => y <> 47 | [] => True end -> is_local_href (47 :: r) = true.
Proof.
  unfold is_local_href. cbn [prefixb]. rewrite N.eqb_refl. destruct r as [|y r]; [reflexivity|].
  intros Y. assert (E : 47 =? y = false) by (apply N.eqb_neq; congruence). now rewrite E.
Qed.

(* the first byte a non-ASCII code point is encoded to is not ASCII *)
Local Ltac dlia := zify; Z.to_euclidean_division_equations; lia.
Lemma enc_cp_high y a : y <? 128 = false -> enc_cp y = Some a -> exists h t, a = h :: t /\ 128 <= h.
Proof.
  intros A. unfold enc_cp. rewrite A. apply N.ltb_ge in A.
  assert (INV : forall (l : list N), Some l = Some a -> a = l) by (intros l H; congruence).
  destruct (y <? 2048); [intros H; rewrite (INV _ H); eexists; eexists; split; [reflexivity|dlia]|].
  destruct ((55296 <=? y) && (y <=? 57343)).
  { destruct ((56448 <=? y) && (y <=? 56575)) eqn:B; [|discriminate].
    apply andb_true_iff in B as [B1 B2]. apply N.leb_le in B1, B2.
    intros H; rewrite (INV _ H); eexists; eexists; split; [reflexivity|dlia]. }
  destruct (y <? 65536); [intros H; rewrite (INV _ H); eexists; eexists; split; [reflexivity|dlia]|].
  destruct (y <? 1114112); [intros H; rewrite (INV _ H); eexists; eexists; split; [reflexivity|dlia]|discriminate].
Qed.

Lemma quote_keeps_high h : 128 <= h -> quote_keeps [47] h = false.
Proof.
  intros H. unfold quote_keeps, is_unreserved.
  assert (L : h <? 128 = false) by (apply N.ltb_ge; exact H). rewrite L, andb_false_l, orb_false_r.
  repeat (apply orb_false_iff; split);
    try (apply andb_false_iff; right; apply N.leb_gt; lia); apply N.eqb_neq; lia.
Qed.

Lemma quote_first_not_slash y s b :
  y <> 47 -> encode_se (y :: s) = Some b -> exists z r, quote_bytes [47] b = z :: r /\ z <> 47.
Proof.
  intros Y. simpl. destruct (enc_cp y) as [a|] eqn:EY; [|discriminate].
  destruct (encode_se s) as [b'|]; [|discriminate]. intros [= <-].
  destruct (y <? 128) eqn:A.
  - rewrite (enc_cp_ascii y A) in EY. injection EY as <-. simpl. unfold quote_byte.
    destruct (quote_keeps [47] y); simpl; eexists; eexists; split; try reflexivity; [exact Y|discriminate].
  - destruct (enc_cp_high y a A EY) as (h & t & -> & HH). simpl. unfold quote_byte.
    rewrite (quote_keeps_high h HH). simpl. eexists; eexists; split; [reflexivity|discriminate].
Qed.

Lemma quote_bytes_cons safe c b : quote_bytes safe (c :: b) = quote_byte safe c ++ quote_bytes safe b.
Proof. reflexivity. Qed.

Lemma quote_local_href s q :
  is_local_href s = true -> quote_str [47] s = Some q -> is_local_href q = true.
Proof.
  intros L. destruct (is_local_href_inv s L) as (r & -> & R).
  unfold quote_str. destruct (encode_se (47 :: r)) as [b|] eqn:E; [|discriminate].
  cbn [option_map]. intros Q. assert (Q' : q = quote_bytes [47] b) by congruence. subst q. clear Q.
  assert (E2 : exists b', encode_se r = Some b' /\ b = 47 :: b').
  { cbn [encode_se] in E. change (enc_cp 47) with (Some [47]) in E.
    destruct (encode_se r) as [b'|]; [|discriminate]. exists b'. split; [reflexivity|]. injection E as E. symmetry. exact E. }
  destruct E2 as (b' & E' & ->). rewrite quote_bytes_cons.
  change (quote_byte [47] 47) with [47]. change ([47] ++ quote_bytes [47] b') with (47 :: quote_bytes [47] b').
  apply is_local_href_intro. destruct r as [|y r].
  - cbn [encode_se] in E'. assert (b' = []) by congruence. subst b'. exact I.
  - destruct (quote_first_not_slash y r b' R E') as (z & t & QZ & Z). rewrite QZ. exact Z.
Qed.

Lemma target_local sel q :
  local_sel_ok sel = true -> quote_str [47] sel = Some q ->
  target_of_href [] q = (KLink, Some sel).
Proof.
  intros LO Q. unfold local_sel_ok in LO. rewrite Q in LO.
  apply andb_true_iff in LO as [LO _]. apply andb_true_iff in LO as [LH LC].
  unfold target_of_href. cbn [strip_prefix]. rewrite (quote_local_href sel q LH Q).
  unfold href_selector. rewrite split_once_none by (apply (quote_str_path_no 63 sel q Q); simpl; auto).
  simpl. now rewrite (canon_unquote sel q LC Q).
Qed.

Lemma gopher_url_not_local h p q : is_local_href (gopher_url_text h p q) = false.
Proof. reflexivity. Qed.

Definition gem_strip (u : str) : str :=
  if prefixb (QUERY_PREFIX ++ [47]) u then skipn (List.length QUERY_PREFIX) u else u.

Lemma not_local_not_query r : is_local_href r = false -> prefixb (QUERY_PREFIX ++ [47]) r = false.
Proof.
  intros H. destruct (prefixb (QUERY_PREFIX ++ [47]) r) eqn:P; [|reflexivity].
  apply prefixb_spec in P as [t ->]. discriminate H.
Qed.

Lemma prefixb_app_same p a b : prefixb (p ++ a) (p ++ b) = prefixb a b.
Proof. induction p as [|x p IH]; [reflexivity|]. simpl. now rewrite N.eqb_refl, IH. Qed.

Lemma skipn_app_exact {A} (p r : list A) : skipn (List.length p) (p ++ r) = r.
Proof. induction p; [reflexivity|]. simpl. assumption. Qed.

Lemma gem_prefix_cases f c : gem_prefix f c = [] \/ gem_prefix f c = QUERY_PREFIX.
Proof. unfold gem_prefix. destruct f; auto. destruct (c =? T_SEARCH); auto. Qed.

Lemma target_case_shape f sn sp e c u k t :
  target_case f sn sp e c u k t -> u <> [] /\ no_ws u = true.
Proof.
  intros TC. destruct TC as [r U UO|q U H P LO Q|q U RO Q].
  - destruct (url_ok_spec r UO) as (NE & NL & NW). auto.
  - pose proof (quote_str_no_ws _ _ Q) as W. unfold local_sel_ok in LO. rewrite Q in LO.
    apply andb_true_iff in LO as [LO _]. apply andb_true_iff in LO as [LH _].
    pose proof (is_local_href_nonempty _ (quote_local_href _ _ LH Q)) as NE.
    destruct (gem_prefix_cases f c) as [-> | ->].
    + auto.
    + split; [destruct q; [congruence|discriminate]|]. now rewrite no_ws_app, W.
  - split; [discriminate|]. unfold gopher_url_text. unfold remote_ok in RO.
    repeat (apply andb_true_iff in RO as [RO ?]).
    rewrite !no_ws_app, print_Z_no_ws, (quote_str_no_ws _ _ Q).
    match goal with H : no_ws (eff_host sn e) = true |- _ => rewrite H end. reflexivity.
Qed.

(* HTTP, Spartan (and Gemini for every type but 7): the link is used as it is *)
Lemma target_plain f sn sp e c u k t :
  target_case f sn sp e c u k t -> gem_prefix f c = [] -> target_of_href [] u = (k, t).
Proof.
  intros TC G. destruct TC as [r U UO|q U H P LO Q|q U RO Q].
  - destruct (url_ok_spec r UO) as (NE & NL & NW). unfold target_of_href. cbn [strip_prefix]. now rewrite NL.
  - rewrite G. simpl. now apply target_local.
  - reflexivity.
Qed.

(* Gemini: a client takes the reserved query prefix off a local link *)
Lemma target_gem f sn sp e c u k t :
  target_case f sn sp e c u k t -> target_of_href [] (gem_strip u) = (k, t).
Proof.
  intros TC. destruct TC as [r U UO|q U H P LO Q|q U RO Q].
  - destruct (url_ok_spec r UO) as (NE & NL & NW). unfold gem_strip. rewrite (not_local_not_query r NL).
    unfold target_of_href. cbn [strip_prefix]. now rewrite NL.
  - pose proof LO as LO'. unfold local_sel_ok in LO'. rewrite Q in LO'.
    apply andb_true_iff in LO' as [LO' GQ]. apply andb_true_iff in LO' as [LH _]. apply negb_true_iff in GQ.
    destruct (gem_prefix_cases f c) as [-> | ->]; unfold gem_strip.
    + change ([] ++ q) with q. rewrite GQ. now apply target_local.
    + rewrite prefixb_app_same.
      pose proof (quote_local_href _ _ LH Q) as LQ.
      assert (PQ : prefixb [47] q = true).
      { unfold is_local_href in LQ. now apply andb_true_iff in LQ as [LQ _]. }
      rewrite PQ, skipn_app_exact. now apply target_local.
  - reflexivity.
Qed.

(* ---------- names ---------- *)
Lemma wf_name sn sp e n c : e_name e = Some n -> e_type e = Some [c] -> entry_wf sn sp e = true ->
  no_tcl n = true /\ canon n = true /\ (c = T_INFO -> reads_as_text (bsr_map n) = true).
Proof.
  intros N T W. unfold entry_wf in W. rewrite N, T in W.
  do 6 (apply andb_true_iff in W as [W ?]).
  split; [assumption|]. split; [assumption|]. intros ->.
  match goal with H : (if T_INFO =? T_INFO then _ else _) = true |- _ => now rewrite N.eqb_refl in H end.
Qed.

(* what `view` says for a well-formed entry, in terms of the target case *)
Lemma view_wf f sn sp e n c u k t :
  e_name e = Some n -> e_type e = Some [c] -> entry_wf sn sp e = true ->
  target_case f sn sp e c u k t ->
  view sn sp e = Some (if c =? T_INFO then mkVitem KInfo (name_norm n) None else mkVitem k (name_norm n) t).
Proof.
  intros N T W TC. unfold view. rewrite N, (type_is_one e c _ T).
  destruct (c =? T_INFO); [reflexivity|].
  destruct TC as [r U UO|q U H P LO Q|q U RO Q].
  - destruct (url_ok_spec r UO) as (NE & _ & _). unfold url_target. rewrite U.
    destruct r; [congruence|reflexivity].
  - unfold url_target. rewrite U. unfold eff_host, eff_port. rewrite H, P.
    now rewrite str_eqb_refl, Z.eqb_refl.
  - unfold url_target. rewrite U. unfold remote_ok in RO.
    repeat (apply andb_true_iff in RO as [RO ?]).
    match goal with H : negb (str_eqb (eff_host sn e) sn && Z.eqb (eff_port sp e) sp) = true |- _ =>
      apply negb_true_iff in H; rewrite H end.
    unfold eff_type. rewrite T. change ([c] ++ e_selector e) with (c :: e_selector e). now rewrite Q.
Qed.

(* ---------- Gopher: the menu line reader inverts the line renderer ---------- *)
Lemma split_field a b : mem_N 9 a = false -> split_on 9 (a ++ 9 :: b) = a :: split_on 9 b.
Proof. intros H. now rewrite split_on_app, (split_on_no_sep 9 a H). Qed.

Lemma view_mline_is_view sn sp e n c plus :
  e_name e = Some n -> e_type e = Some [c] ->
  view_mline sn sp (mkMline c n (e_selector e) (eff_host sn e) (eff_port sp e) plus) = view sn sp e.
Proof.
  intros N T. unfold view_mline, view. cbn [ml_type ml_name ml_selector ml_host ml_port].
  rewrite N, (type_is_one e c _ T). destruct (c =? T_INFO); [reflexivity|].
  destruct (url_target (e_selector e)); [reflexivity|].
  destruct (str_eqb (eff_host sn e) sn && (eff_port sp e =? sp)%Z); [reflexivity|].
  unfold client_gopher_url, eff_type. rewrite T. reflexivity.
Qed.

Lemma wf_fields sn sp e : entry_wf sn sp e = true ->
  exists n c, e_name e = Some n /\ e_type e = Some [c] /\ no_tcl n = true /\ mem_N c [9; 10; 13] = false /\
              no_tcl (e_selector e) = true /\ no_tcl (eff_host sn e) = true.
Proof.
  intros W. unfold entry_wf in W.
  destruct (e_name e) as [n|]; [|discriminate]. destruct (e_type e) as [[|c [|? ?]]|]; try discriminate.
  do 6 (apply andb_true_iff in W as [W ?]).
  exists n, c. repeat split; auto.
  match goal with H : negb (mem_N c _) = true |- _ => now apply negb_true_iff in H end.
Qed.

Lemma wf_view sn sp e : entry_wf sn sp e = true -> exists v, view sn sp e = Some v.
Proof.
  intros W. destruct (wf_fields sn sp e W) as (n & c & N & T & _).
  destruct (link_url_wf FHttp sn sp e n c N T W) as (u & k & t & _ & TC).
  eexists. eapply view_wf; eauto.
Qed.

Lemma gopher_line_wf sn sp e : entry_wf sn sp e = true ->
  exists pl m v, gopher0_payload sn sp e = Some pl /\ no_lf pl /\
    parse_menu_line pl = Some m /\ view_mline sn sp m = Some v /\ view sn sp e = Some v.
Proof.
  intros W. destruct (wf_fields sn sp e W) as (n & c & N & T & NN & NC & NS & NH).
  destruct (wf_view sn sp e W) as [v V].
  destruct (no_tcl_spec _ NN) as (N9 & N10 & N13).
  destruct (no_tcl_spec _ NS) as (S9 & S10 & S13).
  destruct (no_tcl_spec _ NH) as (H9 & H10 & H13).
  cbn [mem_N] in NC. apply orb_false_iff in NC as [C9 NC]. apply orb_false_iff in NC as [C10 NC].
  apply orb_false_iff in NC as [C13 _].
  rewrite N.eqb_sym in C9, C10, C13.
  set (tail := if e_gopherpsupport e then [9; 43] else []).
  assert (P : gopher0_payload sn sp e =
              Some ((c :: n) ++ 9 :: (e_selector e ++ 9 :: ((eff_host sn e) ++ 9 :: (print_Z (eff_port sp e) ++ tail))))).
  { unfold gopher0_payload, gopher0_fields. rewrite N, T. cbn [option_map]. unfold tail.
    destruct (e_gopherpsupport e); f_equal.
    - rewrite <- !app_assoc. reflexivity.
    - rewrite app_nil_r. reflexivity. }
  exists ((c :: n) ++ 9 :: (e_selector e ++ 9 :: ((eff_host sn e) ++ 9 :: (print_Z (eff_port sp e) ++ tail)))),
         (mkMline c n (e_selector e) (eff_host sn e) (eff_port sp e) (e_gopherpsupport e)), v.
  assert (PZ9 : mem_N 9 (print_Z (eff_port sp e)) = false) by (apply print_Z_no; [reflexivity|discriminate]).
  assert (PZ10 : mem_N 10 (print_Z (eff_port sp e)) = false) by (apply print_Z_no; [reflexivity|discriminate]).
  assert (PZ13 : mem_N 13 (print_Z (eff_port sp e)) = false) by (apply print_Z_no; [reflexivity|discriminate]).
  assert (T10 : mem_N 10 tail = false) by (unfold tail; destruct (e_gopherpsupport e); reflexivity).
  assert (T13 : mem_N 13 tail = false) by (unfold tail; destruct (e_gopherpsupport e); reflexivity).
  split; [exact P|]. split.
  { unfold no_lf, LF. do 5 (rewrite ?mem_N_app; cbn [mem_N app]). now rewrite C10, N10, S10, H10, PZ10, T10. }
  split; [|split; [|exact V]].
  - unfold parse_menu_line.
    assert (M13 : mem_N 13 ((c :: n) ++ 9 :: (e_selector e ++ 9 :: ((eff_host sn e) ++ 9 :: (print_Z (eff_port sp e) ++ tail)))) = false).
    { do 5 (rewrite ?mem_N_app; cbn [mem_N app]). now rewrite C13, N13, S13, H13, PZ13, T13. }
    assert (M10 : mem_N 10 ((c :: n) ++ 9 :: (e_selector e ++ 9 :: ((eff_host sn e) ++ 9 :: (print_Z (eff_port sp e) ++ tail)))) = false).
    { do 5 (rewrite ?mem_N_app; cbn [mem_N app]). now rewrite C10, N10, S10, H10, PZ10, T10. }
    rewrite M13, M10. cbn [orb].
    rewrite split_field by (cbn [mem_N]; now rewrite C9, N9).
    rewrite split_field by exact S9. rewrite split_field by exact H9.
    unfold tail. destruct (e_gopherpsupport e).
    + rewrite split_field by exact PZ9. cbn [split_on N.eqb]. rewrite parse_print_Z. reflexivity.
    + rewrite app_nil_r, (split_on_no_sep 9 _ PZ9). rewrite parse_print_Z. reflexivity.
  - rewrite (view_mline_is_view sn sp e n c _ N T). exact V.
Qed.

(* ---------- lists of options ---------- *)
Lemma all_some_cons {A} (x : option A) l v vs :
  x = Some v -> all_some l = Some vs -> all_some (x :: l) = Some (v :: vs).
Proof. intros -> H. simpl. now rewrite H. Qed.

Lemma render_rows_stateless f es :
  option_map fst (render_rows unit (stateless f) tt es) = option_map (@concat N) (all_some (map f es)).
Proof.
  induction es as [|e es IH]; [reflexivity|]. simpl. unfold stateless at 1.
  destruct (f e) as [s|]; [|reflexivity]. simpl.
  destruct (render_rows unit (stateless f) tt es) as [[s2 []]|]; simpl in *;
    destruct (all_some (map f es)) as [ss|]; simpl in *; try discriminate; try reflexivity.
  injection IH as ->. reflexivity.
Qed.

Definition views (sn : str) (sp : Z) (es : list entry) : option (list vitem) := all_some (map (view sn sp) es).

Lemma forallb_cons {A} (f : A -> bool) x l : forallb f (x :: l) = true <-> f x = true /\ forallb f l = true.
Proof. simpl. apply andb_true_iff. Qed.

Lemma gopher_rows sn sp rows : forallb (entry_wf sn sp) rows = true ->
  exists pls ms vs,
    all_some (map (gopher0_line sn sp) rows) = Some (map (fun p => p ++ CRLF) pls) /\
    Forall no_lf pls /\ all_some (map parse_menu_line pls) = Some ms /\
    all_some (map (view_mline sn sp) ms) = Some vs /\ views sn sp rows = Some vs.
Proof.
  induction rows as [|e rows IH]; intros W.
  - exists [], [], []. repeat split; constructor.
  - apply forallb_cons in W as [We Wr].
    destruct (IH Wr) as (pls & ms & vs & R & NL & PM & VM & V).
    destruct (gopher_line_wf sn sp e We) as (pl & m & v & P & NLp & PL & VL & Ve).
    exists (pl :: pls), (m :: ms), (v :: vs). repeat split.
    + cbn [map]. apply all_some_cons; [|exact R]. unfold gopher0_line. now rewrite P.
    + now constructor.
    + cbn [map]. now apply all_some_cons.
    + cbn [map]. now apply all_some_cons.
    + unfold views in *. cbn [map]. now apply all_some_cons.
Qed.

Theorem gopher_dir_view sn sp rows : forallb (entry_wf sn sp) rows = true ->
  exists body vs,
    option_map fst (render_rows unit (stateless (gopher0_line sn sp)) tt rows) = Some body /\
    view_gopher sn sp body = Some vs /\ views sn sp rows = Some vs.
Proof.
  intros W. destruct (gopher_rows sn sp rows W) as (pls & ms & vs & R & NL & PM & VM & V).
  exists (unlines_crlf pls), vs. split; [|split; [|exact V]].
  - rewrite render_rows_stateless, R. reflexivity.
  - unfold view_gopher, parse_menu. rewrite (split_crlf_unlines pls NL). now rewrite PM.
Qed.

(* ---------- Gemini and Spartan ---------- *)
Lemma bsr_map_no c s :
  c <> 92 -> c <> 120 -> is_hex c = false -> mem_N c s = false -> mem_N c (bsr_map s) = false.
Proof.
  intros C1 C2 CH. induction s as [|x s IH]; [reflexivity|]. intros M. apply mem_N_cons_false in M as [M1 M2].
  change (bsr_map (x :: s)) with (bsr_cp x ++ bsr_map s). rewrite mem_N_app, (IH M2), orb_false_r. unfold bsr_cp.
  destruct (is_esc_cp x) eqn:EX.
  - cbn [mem_N]. rewrite orb_false_r.
    assert (HL : forall d, d < 16 -> c =? hexdig_lower d = false).
    { intros d D. apply N.eqb_neq. intros ->. unfold is_hex, hexval, hexdig_lower in CH.
      destruct (d <? 10) eqn:E.
      - apply N.ltb_lt in E.
        assert (X : (48 <=? 48 + d) && (48 + d <=? 57) = true)
          by (apply andb_true_iff; split; apply N.leb_le; lia).
        rewrite X in CH. discriminate.
      - apply N.ltb_ge in E.
        assert (X1 : (48 <=? 87 + d) && (87 + d <=? 57) = false)
          by (apply andb_false_iff; right; apply N.leb_gt; lia).
        assert (X2 : (65 <=? 87 + d) && (87 + d <=? 70) = false)
          by (apply andb_false_iff; right; apply N.leb_gt; lia).
        assert (X3 : (97 <=? 87 + d) && (87 + d <=? 102) = true)
          by (apply andb_true_iff; split; apply N.leb_le; lia).
        rewrite X1, X2, X3 in CH. discriminate. }
    rewrite !HL.
    + rewrite !orb_false_r. apply orb_false_iff; split; apply N.eqb_neq; congruence.
    + apply N.mod_lt. discriminate.
    + unfold is_esc_cp in EX. apply andb_true_iff in EX as [B1 B2]. apply N.leb_le in B1, B2.
      apply N.div_lt_upper_bound; [discriminate|]. lia.
  - cbn [mem_N]. rewrite orb_false_r. apply N.eqb_neq. congruence.
Qed.

Lemma gem_description_wf e n : e_name e = Some n -> canon n = true -> gem_description e = Some (bsr_map n).
Proof.
  intros N C. unfold gem_description, shown_name. rewrite N.
  destruct n as [|x n]; [reflexivity|]. cbn [truthy_str]. now apply canon_backslash.
Qed.

Lemma gem_line_wf f sn sp e : f <> FHttp -> entry_wf sn sp e = true ->
  exists l v, gem_renderobjinfo f sn sp e = Some (l ++ [10]) /\ mem_N 10 l = false /\
              view_gemline l = v /\ view sn sp e = Some v.
Proof.
  intros F W. destruct (wf_fields sn sp e W) as (n & c & N & T & NN & NC & NS & NH).
  destruct (wf_name sn sp e n c N T W) as (_ & CN & RT).
  destruct (link_url_wf f sn sp e n c N T W) as (u & k & t & LU & TC).
  destruct (target_case_shape _ _ _ _ _ _ _ _ TC) as (UNE & UW).
  pose proof (view_wf f sn sp e n c u k t N T W TC) as V.
  destruct (no_tcl_spec _ NN) as (_ & N10 & _).
  assert (D10 : mem_N 10 (bsr_map n) = false) by (apply bsr_map_no; auto; discriminate).
  unfold gem_renderobjinfo. rewrite LU, (gem_description_wf e n N CN). cbn [option_map].
  unfold gem_line. rewrite !(type_is_one e c _ T).
  destruct (c =? T_INFO) eqn:CI.
  - apply N.eqb_eq in CI. exists (bsr_map n), (mkVitem KInfo (name_norm n) None).
    split; [reflexivity|]. split; [exact D10|]. split; [|exact V].
    unfold view_gemline. specialize (RT CI). unfold reads_as_text in RT.
    destruct (parse_link_line (bsr_map n)); [discriminate|reflexivity].
  - set (mk := match f with FSpartan => if c =? T_SEARCH then lit "=: " else lit "=> " | _ => lit "=> " end).
    exists (mk ++ u ++ [32] ++ bsr_map n), (mkVitem k (name_norm n) t).
    split; [unfold LFc; now rewrite <- !app_assoc|].
    assert (U10 : mem_N 10 u = false) by (apply (no_ws_spec u 10 UW); reflexivity).
    split.
    { rewrite !mem_N_app, U10, D10. cbn [mem_N]. rewrite !orb_false_r.
      unfold mk. destruct f; try reflexivity. destruct (c =? T_SEARCH); reflexivity. }
    split; [|exact V].
    unfold view_gemline.
    assert (PL : parse_link_line (mk ++ u ++ [32] ++ bsr_map n) = Some (u, bsr_map n)).
    { assert (MK : exists kc, mk = [61; kc; 32] /\ ((kc =? 62) || (kc =? 58)) = true).
      { unfold mk. destruct f; try (exists 62; split; reflexivity).
        destruct (c =? T_SEARCH); [exists 58|exists 62]; split; reflexivity. }
      destruct MK as (kc & -> & KC). cbn [app parse_link_line]. rewrite KC.
      change (u ++ 32 :: bsr_map n) with (u ++ 32 :: bsr_map n). rewrite (span_nonws_stop u _ UW).
      destruct u; [congruence|reflexivity]. }
    rewrite PL. cbv zeta.
    change (if prefixb (QUERY_PREFIX ++ [47]) u then skipn (List.length QUERY_PREFIX) u else u) with (gem_strip u).
    rewrite (target_gem _ _ _ _ _ _ _ _ TC). reflexivity.
Qed.

Lemma gem_lines_concat ls : Forall (fun l => mem_N 10 l = false) ls ->
  gem_lines (concat (map (fun l => l ++ [10]) ls)) = ls.
Proof.
  intros F. unfold gem_lines.
  assert (S : split_on 10 (concat (map (fun l => l ++ [10]) ls)) = ls ++ [[]]).
  { induction F as [|l ls Hl F IH]; [reflexivity|]. cbn [map concat]. rewrite <- app_assoc. cbn [app].
    rewrite split_on_app, (split_on_no_sep 10 l Hl), IH. reflexivity. }
  rewrite S, rev_app_distr. cbn [rev app]. apply rev_involutive.
Qed.

Lemma gem_rows f sn sp rows : f <> FHttp -> forallb (entry_wf sn sp) rows = true ->
  exists ls vs,
    all_some (map (gem_renderobjinfo f sn sp) rows) = Some (map (fun l => l ++ [10]) ls) /\
    Forall (fun l => mem_N 10 l = false) ls /\ map view_gemline ls = vs /\ views sn sp rows = Some vs.
Proof.
  intros F. induction rows as [|e rows IH]; intros W.
  - exists [], []. repeat split; constructor.
  - apply forallb_cons in W as [We Wr].
    destruct (IH Wr) as (ls & vs & R & NL & VM & V).
    destruct (gem_line_wf f sn sp e F We) as (l & v & P & NLp & VL & Ve).
    exists (l :: ls), (v :: vs). repeat split.
    + cbn [map]. now apply all_some_cons.
    + now constructor.
    + cbn [map]. now rewrite VL, VM.
    + unfold views in *. cbn [map]. now apply all_some_cons.
Qed.

Theorem gem_dir_view f sn sp rows : f <> FHttp -> forallb (entry_wf sn sp) rows = true ->
  exists body vs,
    option_map fst (render_rows unit (stateless (gem_renderobjinfo f sn sp)) tt rows) = Some body /\
    view_gemtext body = vs /\ views sn sp rows = Some vs.
Proof.
  intros F W. destruct (gem_rows f sn sp rows F W) as (ls & vs & R & NL & VM & V).
  exists (concat (map (fun l => l ++ [10]) ls)), vs. split; [|split; [|exact V]].
  - rewrite render_rows_stateless, R. reflexivity.
  - unfold view_gemtext. now rewrite (gem_lines_concat ls NL).
Qed.

(* ---------- directory level, the four line-oriented protocols ---------- *)
Lemma forallb_flat_map_expand (f : entry -> bool) b es :
  forallb f (flat_map (expand_entry true) es) = true -> forallb f (flat_map (expand_entry b) es) = true.
Proof.
  induction es as [|e es IH]; [auto|]. cbn [flat_map]. rewrite !forallb_app. intros H.
  apply andb_true_iff in H as [H1 H2]. rewrite (IH H2), andb_true_r.
  destruct b; [exact H1|]. unfold expand_entry in *. simpl in *. apply andb_true_iff in H1 as [H1 _]. now rewrite H1.
Qed.

Lemma dir_wf_entries sn sp ah b d es :
  dir_wf sn sp d es = true -> forallb (entry_wf sn sp) (expand_dir ah b d es) = true.
Proof.
  unfold dir_wf, expand_dir. rewrite !forallb_app. intros H. apply andb_true_iff in H as [H1 H2].
  rewrite (forallb_flat_map_expand _ b es H2), andb_true_r. destruct ah; [exact H1|reflexivity].
Qed.

Definition line_proto (p : lproto) : bool :=
  match p with LGopher | LGopherPlus | LGemini | LSpartan => true | _ => false end.

Theorem dir_view_lines p c d es :
  line_proto p = true -> c_gem_footer c = None -> c_sp_footer c = None ->
  dir_wf (c_srvname c) (c_srvport c) d es = true ->
  exists body vs, render_dir p c d es = Some body /\ client_parse p c body = Some vs /\
                  views (c_srvname c) (c_srvport c) (dir_entries p c d es) = Some vs.
Proof.
  intros LP GF SF W.
  pose proof (dir_wf_entries _ _ (c_abs_headers c) (doabstracts (c_abs_entries c) (groksabstract p)) d es W) as WE.
  fold (dir_entries p c d es) in WE.
  destruct p; try discriminate LP; unfold render_dir, client_parse.
  - destruct (gopher_dir_view _ _ _ WE) as (body & vs & R & V & VS). exists body, vs. auto.
  - destruct (gopher_dir_view _ _ _ WE) as (body & vs & R & V & VS). exists body, vs. auto.
  - destruct (gem_dir_view FGemini _ _ _ ltac:(discriminate) WE) as (body & vs & R & V & VS).
    exists body, vs. rewrite R, GF. cbn [gem_dirend opt_app]. rewrite app_nil_r, V. auto.
  - destruct (gem_dir_view FSpartan _ _ _ ltac:(discriminate) WE) as (body & vs & R & V & VS).
    exists body, vs. rewrite R, SF. cbn [gem_dirend opt_app]. rewrite app_nil_r, V. auto.
Qed.

(* ---------- the same entries in every protocol ---------- *)
Definition not_info (v : vitem) : bool := match v_kind v with KInfo => false | _ => true end.

Lemma view_infoentry sn sp l : view sn sp (getinfoentry l) = Some (mkVitem KInfo (name_norm l) None).
Proof. reflexivity. Qed.

Lemma views_app sn sp a b va vb :
  views sn sp a = Some va -> views sn sp b = Some vb -> views sn sp (a ++ b) = Some (va ++ vb).
Proof.
  unfold views. revert va. induction a as [|x a IH]; intros va A B; simpl in *.
  - injection A as <-. exact B.
  - destruct (view sn sp x) as [v|]; [|discriminate].
    destruct (all_some (map (view sn sp) a)) as [va'|] eqn:E; [|discriminate]. injection A as <-.
    rewrite (IH va' eq_refl B). reflexivity.
Qed.

Lemma views_app_inv sn sp a b v :
  views sn sp (a ++ b) = Some v -> exists va vb, views sn sp a = Some va /\ views sn sp b = Some vb /\ v = va ++ vb.
Proof.
  unfold views. revert v. induction a as [|x a IH]; intros v H; simpl in *.
  - exists [], v. auto.
  - destruct (view sn sp x) as [vx|]; [|discriminate].
    destruct (all_some (map (view sn sp) (a ++ b))) as [v'|] eqn:E; [|discriminate]. injection H as <-.
    destruct (IH v' eq_refl) as (va & vb & A & B & ->). rewrite A. exists (vx :: va), vb. auto.
Qed.

Lemma views_infos sn sp ls : exists vi, views sn sp (map getinfoentry ls) = Some vi /\ filter not_info vi = [].
Proof.
  induction ls as [|l ls (vi & V & F)]; [exists []; auto|].
  exists (mkVitem KInfo (name_norm l) None :: vi). split; [|exact F].
  unfold views in *. cbn [map]. rewrite view_infoentry. cbn [all_some]. now rewrite V.
Qed.

Lemma views_expand_filter sn sp es : forall v1 v2,
  views sn sp (flat_map (expand_entry true) es) = Some v1 ->
  views sn sp (flat_map (expand_entry false) es) = Some v2 ->
  filter not_info v1 = filter not_info v2.
Proof.
  induction es as [|e es IH]; intros v1 v2 V1 V2.
  - unfold views in *. simpl in *. congruence.
  - cbn [flat_map] in V1, V2.
    apply views_app_inv in V1 as (a1 & b1 & A1 & B1 & ->).
    apply views_app_inv in V2 as (a2 & b2 & A2 & B2 & ->).
    rewrite !filter_app, (IH _ _ B1 B2). f_equal.
    unfold expand_entry in A1, A2. cbn [app] in A2.
    change (e :: map getinfoentry (abstract_lines (abstract_of e))) with ([e] ++ map getinfoentry (abstract_lines (abstract_of e))) in A1.
    apply views_app_inv in A1 as (x & y & X & Y & ->).
    destruct (views_infos sn sp (abstract_lines (abstract_of e))) as (vi & VI & FI).
    assert (y = vi) by congruence. subst y. assert (x = a2) by congruence. subst x.
    now rewrite filter_app, FI, app_nil_r.
Qed.

Theorem same_entries_lines p q c d es vp vq bp bq :
  line_proto p = true -> line_proto q = true -> c_gem_footer c = None -> c_sp_footer c = None ->
  dir_wf (c_srvname c) (c_srvport c) d es = true ->
  render_dir p c d es = Some bp -> render_dir q c d es = Some bq ->
  client_parse p c bp = Some vp -> client_parse q c bq = Some vq ->
  filter not_info vp = filter not_info vq /\
  (c_abs_entries c <> AeUnsupported \/ groksabstract p = groksabstract q -> vp = vq).
Proof.
  intros LP LQ GF SF W RP RQ CP CQ.
  destruct (dir_view_lines p c d es LP GF SF W) as (bp' & vp' & RP' & CP' & VP).
  destruct (dir_view_lines q c d es LQ GF SF W) as (bq' & vq' & RQ' & CQ' & VQ).
  assert (bp' = bp) by congruence. subst bp'. assert (bq' = bq) by congruence. subst bq'.
  assert (vp' = vp) by congruence. subst vp'. assert (vq' = vq) by congruence. subst vq'.
  split.
  - unfold dir_entries, expand_dir in VP, VQ.
    apply views_app_inv in VP as (hp & ep & HP & EP & ->).
    apply views_app_inv in VQ as (hq & eq & HQ & EQ & ->).
    assert (hp = hq) by congruence. subst hq. rewrite !filter_app. f_equal.
    destruct (doabstracts (c_abs_entries c) (groksabstract p)), (doabstracts (c_abs_entries c) (groksabstract q)).
    + congruence.
    + eapply views_expand_filter; eauto.
    + symmetry. eapply views_expand_filter; eauto.
    + congruence.
  - intros H. assert (E : dir_entries p c d es = dir_entries q c d es).
    { unfold dir_entries. f_equal. unfold doabstracts. destruct (c_abs_entries c); try reflexivity.
      destruct H as [H|H]; [congruence|now rewrite H]. }
    rewrite E in VP. congruence.
Qed.

(* ---------- MIME type adjusters ---------- *)
Theorem mime_equiv m :
  (m <> Some MENU -> http_adjust m = gemini_adjust m) /\
  (http_adjust (Some MENU) = lit "text/html" /\ gemini_adjust (Some MENU) = lit "text/gemini" /\
   wap_adjust (Some MENU) = WML_TYPE) /\
  (m <> None -> m <> Some (lit "text/plain") -> m <> Some MENU -> wap_adjust m = http_adjust m) /\
  (http_adjust None = lit "text/plain" /\ gemini_adjust None = lit "text/plain" /\ wap_adjust None = WML_TYPE).
Proof.
  repeat split; try reflexivity.
  - intros H. unfold http_adjust, gemini_adjust. destruct m as [x|]; [|reflexivity].
    destruct (str_eqb x MENU) eqn:E; [|reflexivity]. apply str_eqb_eq in E. congruence.
  - intros H1 H2 H3. unfold wap_adjust, http_adjust. destruct m as [x|]; [|congruence].
    destruct (str_eqb x (lit "text/plain")) eqn:E1; [apply str_eqb_eq in E1; congruence|].
    destruct (str_eqb x MENU) eqn:E2; [apply str_eqb_eq in E2; congruence|reflexivity].
Qed.

(* ---------- HTML: the row reader on the rendered row ---------- *)
From PG Require Import Model.Wml Proofs.TokFacts Proofs.C13Facts.

(* running a template with the data pieces put in place without looking at them *)
Fixpoint trun (st : tstate) (ps : list piece) : tstate * list token :=
  match ps with
  | [] => (st, [])
  | PC s :: r => let '(st1, t1) := run st s in let '(st2, t2) := trun st1 r in (st2, t1 ++ t2)
  | PD d :: r =>
      trun (match st with
            | SText acc => SText (rev d ++ acc)
            | SValDq nm a an v => SValDq nm a an (rev d ++ v)
            | _ => st
            end) r
  end.

Lemma trun_run ps : forall st, data_inert ps = true -> slots_ok st ps = true -> run st (render ps) = trun st ps.
Proof.
  induction ps as [|[s|d] r IH]; intros st D OK; [reflexivity| |].
  - cbn [render piece_str trun]. rewrite run_app. simpl in D, OK.
    destruct (run st s) as [st1 t1]. simpl in OK. rewrite (IH st1 D OK). reflexivity.
  - cbn [render piece_str trun]. rewrite run_app. simpl in D, OK.
    apply andb_true_iff in D as [Id D]. apply andb_true_iff in OK as [S OK].
    unfold inert in Id. apply andb_true_iff in Id as [I1 I2]. apply negb_true_iff in I1, I2.
    destruct st; try discriminate S.
    + rewrite (run_text_stable d acc I1). rewrite <- IH; [|exact D|].
      * destruct (run (SText (rev d ++ acc)) (render r)). reflexivity.
      * rewrite (slots_ok_sim r _ (SText acc)); [exact OK|reflexivity].
    + rewrite (run_dq_stable d nm attrs an v I2). rewrite <- IH; [|exact D|].
      * destruct (run (SValDq nm attrs an (rev d ++ v)) (render r)). reflexivity.
      * rewrite (slots_ok_sim r _ (SValDq nm attrs an v)); [exact OK|reflexivity].
Qed.

Lemma hrows_from_app st a b :
  hrows_from st (a ++ b) =
  (let '(st1, r1) := hrows_from st a in let '(st2, r2) := hrows_from st1 b in (st2, r1 ++ r2)).
Proof.
  revert st. induction a as [|t a IH]; intros st; simpl.
  - destruct (hrows_from st b). reflexivity.
  - destruct (hrow_step st t) as [st1 o1]. rewrite IH.
    destruct (hrows_from st1 a) as [st2 o2]. destruct (hrows_from st2 b) as [st3 o3]. now rewrite app_assoc.
Qed.

Lemma rev_push (d : str) : rev (rev d ++ []) = d.
Proof. now rewrite app_nil_r, rev_involutive. Qed.

(* one row: the tokenizer comes back to character data, the reader produces one row record *)
Lemma http_row_read i s icon url name sub acc :
  exists toks,
    trun (SText acc) (http_row_tmpl i s icon url name sub) = (SText [LFc], toks) /\
    hrows_from HR0 toks =
      (HR0, [mkHrow (if negb i && negb s then Some (unescape url) else None) (unescape name)
                    (if s then Some (unescape url) else None)]).
Proof.
  destruct i, s; eexists; (split; [cbn -[unescape]; reflexivity|]);
    cbn -[unescape]; rewrite ?rev_push; reflexivity.
Qed.

Lemma wf_shown_name e n : e_name e = Some n -> shown_name e = n.
Proof. intros N. unfold shown_name. now rewrite N. Qed.

(* a piece of a page that, read from character data, comes back to character data
   and makes the row reader (idle before) produce exactly the rows rs (idle after) *)
Definition reads_rows (piece : str) (rs : list hrow) : Prop :=
  forall acc, exists acc' toks, run (SText acc) piece = (SText acc', toks) /\ hrows_from HR0 toks = (HR0, rs).

Theorem http_row_view icons sn sp e :
  icons_ok icons = true -> entry_wf sn sp e = true ->
  exists row r v,
    http_renderobjinfo icons sn sp e = Some row /\ reads_rows row [r] /\
    view_hrow r = v /\ view sn sp e = Some v.
Proof.
  intros IO W. destruct (wf_fields sn sp e W) as (n & c & N & T & NN & NC & NS & NH).
  destruct (link_url_wf FHttp sn sp e n c N T W) as (u & k & t & LU & TC).
  destruct (target_case_shape _ _ _ _ _ _ _ _ TC) as (UNE & UW).
  pose proof (view_wf FHttp sn sp e n c u k t N T W TC) as V.
  pose proof (target_plain _ _ _ _ _ _ _ _ TC eq_refl) as TP.
  unfold http_renderobjinfo, http_renderobjinfo_gen. rewrite LU. cbn [option_map].
  rewrite http_row_is_template.
  set (tm := http_row_tmpl (type_is e T_INFO) (type_is e T_SEARCH) (icon_name icons e)
                           (escape true u) (escape true (shown_name e)) (escape true (subtype_text e))).
  assert (DI : data_inert tm = true)
    by (apply http_row_tmpl_inert; auto using escape_inert, icon_name_inert).
  eexists; eexists; eexists.
  split; [reflexivity|]. split.
  { intros acc.
    destruct (http_row_read (type_is e T_INFO) (type_is e T_SEARCH) (icon_name icons e)
                (escape true u) (escape true (shown_name e)) (escape true (subtype_text e)) acc)
      as (toks & TR & HR).
    fold tm in TR. exists [LFc], toks. split; [|exact HR].
    rewrite (trun_run tm (SText acc) DI); [exact TR|].
    rewrite (slots_ok_sim tm _ (SText [])); [apply http_row_tmpl_slots|reflexivity]. }
  split; [reflexivity|].
  rewrite V. f_equal. rewrite !unescape_escape, (wf_shown_name e n N), !(type_is_one e c _ T).
  unfold view_hrow, hrow_link. cbn [hr_href hr_text hr_form].
  destruct (c =? T_INFO) eqn:CI; cbn [negb andb].
  - destruct (c =? T_SEARCH) eqn:CS; [|reflexivity].
    apply N.eqb_eq in CI, CS. subst c. discriminate.
  - destruct (c =? T_SEARCH); cbn [negb andb].
    + now rewrite TP.
    + destruct u as [|x u]; [congruence|]. now rewrite TP.
Qed.

Lemma reads_rows_app a b ra rb : reads_rows a ra -> reads_rows b rb -> reads_rows (a ++ b) (ra ++ rb).
Proof.
  intros A B acc. destruct (A acc) as (acc1 & t1 & R1 & H1). destruct (B acc1) as (acc2 & t2 & R2 & H2).
  exists acc2, (t1 ++ t2). split.
  - rewrite run_app, R1, R2. reflexivity.
  - rewrite hrows_from_app, H1, H2. reflexivity.
Qed.
Lemma reads_rows_nil : reads_rows [] [].
Proof. intros acc. exists acc, []. auto. Qed.

Lemma http_rows_read icons sn sp rows : icons_ok icons = true -> forallb (entry_wf sn sp) rows = true ->
  exists ss rs vs,
    all_some (map (http_renderobjinfo icons sn sp) rows) = Some ss /\ reads_rows (concat ss) rs /\
    map view_hrow rs = vs /\ views sn sp rows = Some vs.
Proof.
  intros IO. induction rows as [|e rows IH]; intros W.
  - exists [], [], []. repeat split; try reflexivity. apply reads_rows_nil.
  - apply forallb_cons in W as [We Wr].
    destruct (IH Wr) as (ss & rs & vs & R & RR & VM & V).
    destruct (http_row_view icons sn sp e IO We) as (row & r & v & P & RD & VR & Ve).
    exists (row :: ss), (r :: rs), (v :: vs). repeat split.
    + cbn [map]. now apply all_some_cons.
    + cbn [concat]. change (r :: rs) with ([r] ++ rs). now apply reads_rows_app.
    + cbn [map]. now rewrite VR, VM.
    + unfold views in *. cbn [map]. now apply all_some_cons.
Qed.

Lemma http_dirstart_reads d : reads_rows (http_dirstart_with [] d) [] /\
  (exists toks, run (SText []) (http_dirstart_with [] d) = (SText [], toks) /\ hrows_from HR0 toks = (HR0, [])).
Proof.
  assert (E : http_dirstart_with [] d = render (dirstart_a (title_suffix d) ++ dirstart_b (title_suffix d))).
  { rewrite http_dirstart_split, render_app. reflexivity. }
  assert (DI : data_inert (dirstart_a (title_suffix d) ++ dirstart_b (title_suffix d)) = true).
  { simpl. now rewrite title_suffix_inert. }
  assert (G : forall acc, exists toks, run (SText acc) (http_dirstart_with [] d) = (SText [], toks) /\
                                        hrows_from HR0 toks = (HR0, [])).
  { intros acc. rewrite E. rewrite (trun_run _ (SText acc) DI).
    - generalize (title_suffix d). intros sfx. eexists. split; [cbn; reflexivity|]. cbn. reflexivity.
    - rewrite (slots_ok_sim _ _ (SText [])); [vm_compute; reflexivity|reflexivity]. }
  split.
  - intros acc. destruct (G acc) as (toks & R & H). exists [], toks. auto.
  - apply G.
Qed.

Lemma http_dirend_reads u : inert u = true -> reads_rows (http_dirend_with u) [].
Proof.
  intros I acc. rewrite http_dirend_is_template.
  assert (DI : data_inert (dirend_tmpl u) = true) by (simpl; now rewrite I).
  rewrite (trun_run _ (SText acc) DI).
  - eexists. eexists. split; [cbn; reflexivity|]. cbn. reflexivity.
  - rewrite (slots_ok_sim _ _ (SText [])); [vm_compute; reflexivity|reflexivity].
Qed.

Lemma html_rows_reads page rs : reads_rows page rs -> html_rows page = rs.
Proof.
  intros R. destruct (R []) as (acc' & toks & RU & H). unfold html_rows, tokens. rewrite RU.
  rewrite hrows_from_app, H. cbn [flush hrows_from hrow_step HR0 hs_cur]. cbn. now rewrite app_nil_r.
Qed.

(* the entry of the directory itself: an ordinary local entry whose URL can be formed *)
Definition dir_ok (sn : str) (sp : Z) (d : entry) : Prop :=
  url_scheme_match (e_selector d) = false /\ e_host d = None /\ inert sn = true /\
  exists u, geturl sn sp d = Some u.

Theorem dir_view_http c d es :
  c_pagetopper c = None -> icons_ok (c_icons c) = true ->
  dir_ok (c_srvname c) (c_srvport c) d ->
  dir_wf (c_srvname c) (c_srvport c) d es = true ->
  exists body vs, render_dir LHttp c d es = Some body /\ client_parse LHttp c body = Some vs /\
                  views (c_srvname c) (c_srvport c) (dir_entries LHttp c d es) = Some vs.
Proof.
  intros PT IO (M & H & SN & u & GU) W.
  pose proof (dir_wf_entries _ _ (c_abs_headers c) (doabstracts (c_abs_entries c) (groksabstract LHttp)) d es W) as WE.
  fold (dir_entries LHttp c d es) in WE.
  destruct (http_rows_read (c_icons c) _ _ _ IO WE) as (ss & rs & vs & R & RR & VM & V).
  assert (IU : inert u = true) by (apply (geturl_inert (c_srvname c) (c_srvport c) d u M); [now rewrite H|exact GU]).
  exists (http_dirstart_with [] d ++ concat ss ++ http_dirend_with u), vs.
  split; [|split; [|exact V]].
  - unfold render_dir. rewrite PT. unfold http_dirstart, http_dirend. rewrite GU.
    rewrite render_rows_stateless, R. reflexivity.
  - unfold client_parse, view_html. f_equal. rewrite <- VM. f_equal.
    apply html_rows_reads.
    assert (RR2 : reads_rows (concat ss ++ http_dirend_with u) rs).
    { rewrite <- (app_nil_r rs). apply reads_rows_app; [exact RR|now apply http_dirend_reads]. }
    exact (reads_rows_app _ _ [] rs (proj1 (http_dirstart_reads d)) RR2).
Qed.

(* ---------- WML: the item reader on the rendered deck ---------- *)
Definition idle (P : option str) : wst := mkWst WItems [] false None false P false None.
Definition flushP (P : option str) : list witem := match P with Some n => [WInfo n] | None => [] end.

(* the reader reports a text item only when it has seen what follows it: feeding the
   items L to a reader that still holds the text item P *)
Fixpoint feed (P : option str) (L : list witem) : option str * list witem :=
  match L with
  | [] => (P, [])
  | WInfo n :: r => let '(P', o) := feed (Some n) r in (P', flushP P ++ o)
  | x :: r => let '(P', o) := feed None r in (P', flushP P ++ x :: o)
  end.

Lemma feed_app L1 : forall P L2,
  feed P (L1 ++ L2) = (let '(P1, o1) := feed P L1 in let '(P2, o2) := feed P1 L2 in (P2, o1 ++ o2)).
Proof.
  induction L1 as [|x L1 IH]; intros P L2.
  - simpl. destruct (feed P L2). reflexivity.
  - destruct x; cbn [app feed]; rewrite IH;
      match goal with |- context [feed ?p L1] => destruct (feed p L1) as [P1 o1] end;
      destruct (feed P1 L2) as [P2 o2]; now rewrite <- ?app_assoc.
Qed.

Lemma feed_total L : forall P, flushP P ++ L = snd (feed P L) ++ flushP (fst (feed P L)).
Proof.
  induction L as [|x L IH]; intros P; [simpl; now rewrite app_nil_r|].
  destruct x; cbn [feed].
  - specialize (IH None). destruct (feed None L) as [P1 o1]. simpl in *.
    rewrite <- app_assoc. simpl. change (WLink href text :: L) with ([WLink href text] ++ L).
    rewrite <- IH. reflexivity.
  - specialize (IH None). destruct (feed None L) as [P1 o1]. simpl in *.
    rewrite <- app_assoc. simpl. rewrite <- IH. reflexivity.
  - specialize (IH (Some text)). destruct (feed (Some text) L) as [P1 o1]. simpl in *.
    rewrite <- app_assoc. rewrite <- IH. reflexivity.
Qed.

Lemma witems_from_app st a b :
  witems_from st (a ++ b) =
  (let '(st1, r1) := witems_from st a in let '(st2, r2) := witems_from st1 b in (st2, r1 ++ r2)).
Proof.
  revert st. induction a as [|t a IH]; intros st; simpl.
  - destruct (witems_from st b). reflexivity.
  - destruct (witem_step st t) as [st1 o1]. rewrite IH.
    destruct (witems_from st1 a) as [st2 o2]. destruct (witems_from st2 b) as [st3 o3]. now rewrite app_assoc.
Qed.

(* a piece of a deck between two line breaks *)
Definition reads_items (piece : str) (L : list witem) : Prop :=
  forall P, exists toks, run (SText [LFc]) piece = (SText [LFc], toks) /\
                         witems_from (idle P) toks = (idle (fst (feed P L)), snd (feed P L)).

Lemma reads_items_nil : reads_items [] [].
Proof. intros P. exists []. auto. Qed.
Lemma reads_items_app a b La Lb : reads_items a La -> reads_items b Lb -> reads_items (a ++ b) (La ++ Lb).
Proof.
  intros A B P. destruct (A P) as (t1 & R1 & H1). destruct (B (fst (feed P La))) as (t2 & R2 & H2).
  exists (t1 ++ t2). split.
  - rewrite run_app, R1, R2. reflexivity.
  - rewrite witems_from_app, H1, H2, feed_app.
    destruct (feed P La) as [P1 o1]. simpl. destruct (feed P1 Lb) as [P2 o2]. reflexivity.
Qed.

Definition wap_item_raw (i s : bool) (url name : str) : witem :=
  if s then WSearch (Some (unescape (rev (rev url ++ [])))) (strip1_lf (unescape (rev (rev name ++ [LFc]))))
  else if i then WInfo (strip1_lf (unescape (rev (rev name ++ [LFc]))))
  else WLink (Some (unescape (rev (rev url ++ [])))) (unescape (rev (rev name ++ []))).

Lemma wap_row_read i s key url name dec P :
  exists toks,
    trun (SText [LFc]) (wap_row_tmpl (negb (i || s)) s key url name dec) = (SText [LFc], toks) /\
    witems_from (idle P) toks =
      (idle (fst (feed P [wap_item_raw i s url name])), snd (feed P [wap_item_raw i s url name])).
Proof.
  destruct i, s, key, P; eexists; (split; [vm_compute; reflexivity|]); vm_compute; reflexivity.
Qed.

Definition wap_item (i s : bool) (href name : str) : witem :=
  if s then WSearch (Some href) name else if i then WInfo name else WLink (Some href) name.

Lemma wap_item_raw_escape i s w n : wap_item_raw i s (escape true w) (escape true n) = wap_item i s w n.
Proof.
  unfold wap_item_raw, wap_item.
  assert (U : unescape (rev (rev (escape true w) ++ [])) = w) by (rewrite rev_push; apply unescape_escape).
  assert (N0 : unescape (rev (rev (escape true n) ++ [])) = n) by (rewrite rev_push; apply unescape_escape).
  assert (N1 : strip1_lf (unescape (rev (rev (escape true n) ++ [LFc]))) = n).
  { rewrite rev_app_distr, rev_involutive.
    change (rev [LFc] ++ escape true n) with (escape true (LFc :: n)). now rewrite unescape_escape. }
  now rewrite U, N0, N1.
Qed.

(* what the client makes of the link of a WAP item *)
Lemma target_wap sn sp e c u k t waptop :
  target_case FHttp sn sp e c u k t -> is_local_href waptop = true ->
  target_of_href waptop (if prefixb [SLASHc] u then waptop ++ u else u) = (k, t).
Proof.
  intros TC WT. destruct (is_local_href_inv waptop WT) as (w' & -> & _).
  pose proof (target_plain _ _ _ _ _ _ _ _ TC eq_refl) as TP.
  unfold target_of_href in *. cbn [strip_prefix] in TP.
  destruct (prefixb [SLASHc] u) eqn:PU.
  - cbn [strip_prefix]. change ((47 :: w') ++ [47]) with ((47 :: w') ++ [SLASHc]).
    rewrite prefixb_app_same, PU, skipn_app_exact. exact TP.
  - assert (NS : prefixb ((47 :: w') ++ [47]) u = false).
    { destruct u as [|x u]; [reflexivity|]. unfold SLASHc in PU. cbn [prefixb] in PU. cbn [app prefixb].
      apply andb_false_iff in PU as [PU|PU]; [now rewrite PU|discriminate]. }
    cbn [strip_prefix]. rewrite NS. exact TP.
Qed.

Theorem wap_row_view waptop sn sp st e :
  is_local_href waptop = true -> entry_wf sn sp e = true ->
  exists row st' it v,
    wap_renderobjinfo waptop sn sp st e = Some (row, st') /\ reads_items row [it] /\
    view_witem waptop it = v /\ view sn sp e = Some v.
Proof.
  intros WT W. destruct (wf_fields sn sp e W) as (n & c & N & T & NN & NC & NS & NH).
  destruct (link_url_wf FHttp sn sp e n c N T W) as (u & k & t & LU & TC).
  pose proof (view_wf FHttp sn sp e n c u k t N T W TC) as V.
  pose proof (target_wap _ _ _ _ _ _ _ waptop TC WT) as TW.
  unfold wap_renderobjinfo, wap_renderobjinfo_gen. rewrite LU. cbn [option_map].
  exists (fst (wap_row_gen true waptop st e u)), (snd (wap_row_gen true waptop st e u)).
  set (w := if prefixb [SLASHc] u then waptop ++ u else u).
  assert (TW' : target_of_href waptop w = (k, t)) by exact TW.
  exists (wap_item (type_is e T_INFO) (type_is e T_SEARCH) w n), (if c =? T_INFO then mkVitem KInfo (name_norm n) None else mkVitem k (name_norm n) t).
  split; [now destruct (wap_row_gen true waptop st e u)|]. split; [|split; [|exact V]].
  - intros P. rewrite wap_row_is_template.
    set (tm := wap_row_tmpl _ _ _ _ _ _).
    assert (DI : data_inert tm = true).
    { apply wap_row_tmpl_inert; auto using escape_inert, inert_dec_nat.
      - destruct (nth_error ACCESSKEYS (ws_key st)) eqn:E; [eapply inert_accesskey; eauto|exact I].
      - unfold wap_url. apply escape_inert. }
    destruct (wap_row_read (type_is e T_INFO) (type_is e T_SEARCH) (nth_error ACCESSKEYS (ws_key st))
                (wap_url true waptop u) (escape true (shown_name e)) (dec_nat (ws_post st)) P) as (toks & TR & HR).
    fold tm in TR. exists toks. split.
    + rewrite (trun_run tm _ DI); [exact TR|].
      rewrite (slots_ok_sim tm _ (SText [])); [apply wap_row_tmpl_slots|reflexivity].
    + unfold wap_url in HR. fold w in HR. rewrite wap_item_raw_escape, (wf_shown_name e n N) in HR. exact HR.
  - rewrite !(type_is_one e c _ T). unfold wap_item, view_witem.
    destruct (c =? T_SEARCH) eqn:CS.
    + destruct (c =? T_INFO) eqn:CI; [apply N.eqb_eq in CI, CS; subst c; discriminate|].
      now rewrite TW'.
    + destruct (c =? T_INFO); [reflexivity|]. now rewrite TW'.
Qed.

Lemma wap_rows_read waptop sn sp rows : is_local_href waptop = true ->
  forallb (entry_wf sn sp) rows = true -> forall st,
  exists body st' L vs,
    render_rows wapst (wap_renderobjinfo waptop sn sp) st rows = Some (body, st') /\ reads_items body L /\
    map (view_witem waptop) L = vs /\ views sn sp rows = Some vs.
Proof.
  intros WT. induction rows as [|e rows IH]; intros W st.
  - exists [], st, [], []. repeat split; try reflexivity. apply reads_items_nil.
  - apply forallb_cons in W as [We Wr].
    destruct (wap_row_view waptop sn sp st e WT We) as (row & st1 & it & v & P & RD & VR & Ve).
    destruct (IH Wr st1) as (body & st' & L & vs & R & RR & VM & V).
    exists (row ++ body), st', (it :: L), (v :: vs). repeat split.
    + cbn [render_rows]. now rewrite P, R.
    + change (it :: L) with ([it] ++ L). now apply reads_items_app.
    + cbn [map]. now rewrite VR, VM.
    + unfold views in *. cbn [map]. now apply all_some_cons.
Qed.

Lemma wap_dirstart_reads d :
  exists toks, run (SText []) (wap_dirstart d) = (SText [LFc], toks) /\ witems_from W0 toks = (idle None, []).
Proof.
  rewrite wap_dirstart_is_template.
  assert (DI : data_inert (wap_dirstart_tmpl (escape true (wap_title d))) = true) by (simpl; now rewrite escape_inert).
  rewrite (trun_run _ _ DI); [|vm_compute; reflexivity].
  generalize (escape true (wap_title d)). intros t. eexists. split; vm_compute; reflexivity.
Qed.

Lemma wap_foot_reads P :
  exists toks st, run (SText [LFc]) WML_FOOT = (SText [LFc], toks) /\
                  witems_from (idle P) (toks ++ flush (SText [LFc])) = (st, flushP P).
Proof. eexists. eexists. split; [vm_compute; reflexivity|]. destruct P; vm_compute; reflexivity. Qed.

Theorem dir_view_wap c d es :
  is_local_href (c_waptop c) = true ->
  dir_wf (c_srvname c) (c_srvport c) d es = true ->
  exists body vs, render_dir LWap c d es = Some body /\ client_parse LWap c body = Some vs /\
                  views (c_srvname c) (c_srvport c) (dir_entries LWap c d es) = Some vs.
Proof.
  intros WT W.
  pose proof (dir_wf_entries _ _ (c_abs_headers c) (doabstracts (c_abs_entries c) (groksabstract LWap)) d es W) as WE.
  fold (dir_entries LWap c d es) in WE.
  destruct (wap_rows_read (c_waptop c) _ _ _ WT WE WAP0) as (body & st' & L & vs & R & RR & VM & V).
  exists (wap_dirstart d ++ body ++ wap_dirend), vs. split; [|split; [|exact V]].
  - unfold render_dir. rewrite R. reflexivity.
  - unfold client_parse, view_wml. f_equal. rewrite <- VM. f_equal.
    unfold wml_items, tokens.
    destruct (wap_dirstart_reads d) as (t0 & R0 & H0).
    destruct (RR None) as (t1 & R1 & H1).
    destruct (wap_foot_reads (fst (feed None L))) as (t2 & stf & R2 & H2).
    rewrite run_app, R0. cbv beta iota. rewrite run_app, R1. cbv beta iota.
    unfold wap_dirend. rewrite R2. cbv beta iota.
    rewrite <- !app_assoc. rewrite witems_from_app, H0. cbv beta iota.
    rewrite witems_from_app, H1. cbv beta iota. rewrite H2. cbn [snd app].
    pose proof (feed_total L None) as FT. cbn [flushP app] in FT. symmetry. exact FT.
Qed.

(* ---------- all six protocols together ---------- *)
(* the configuration the statement is about: no Gemini/Spartan footer and no HTTP page
   topper (both are extra content of one protocol only), icon names and server name
   without markup characters, a WAP prefix that is an absolute path *)
Definition cfg_ok (c : lcfg) (d : entry) : Prop :=
  c_gem_footer c = None /\ c_sp_footer c = None /\ c_pagetopper c = None /\
  icons_ok (c_icons c) = true /\ is_local_href (c_waptop c) = true /\
  dir_ok (c_srvname c) (c_srvport c) d.

Theorem dir_view p c d es :
  cfg_ok c d -> dir_wf (c_srvname c) (c_srvport c) d es = true ->
  exists body vs, render_dir p c d es = Some body /\ client_parse p c body = Some vs /\
                  views (c_srvname c) (c_srvport c) (dir_entries p c d es) = Some vs.
Proof.
  intros (GF & SF & PT & IO & WT & DO) W.
  destruct p.
  - now apply dir_view_lines.
  - now apply dir_view_lines.
  - now apply dir_view_http.
  - now apply dir_view_wap.
  - now apply dir_view_lines.
  - now apply dir_view_lines.
Qed.

Theorem same_entries p q c d es :
  cfg_ok c d -> dir_wf (c_srvname c) (c_srvport c) d es = true ->
  exists bp bq vp vq,
    render_dir p c d es = Some bp /\ render_dir q c d es = Some bq /\
    client_parse p c bp = Some vp /\ client_parse q c bq = Some vq /\
    filter not_info vp = filter not_info vq /\
    (c_abs_entries c <> AeUnsupported \/ groksabstract p = groksabstract q -> vp = vq).
Proof.
  intros CO W.
  destruct (dir_view p c d es CO W) as (bp & vp & RP & CP & VP).
  destruct (dir_view q c d es CO W) as (bq & vq & RQ & CQ & VQ).
  exists bp, bq, vp, vq. repeat split; auto.
  - unfold dir_entries, expand_dir in VP, VQ.
    apply views_app_inv in VP as (hp & ep & HP & EP & ->).
    apply views_app_inv in VQ as (hq & eq & HQ & EQ & ->).
    assert (hp = hq) by congruence. subst hq. rewrite !filter_app. f_equal.
    destruct (doabstracts (c_abs_entries c) (groksabstract p)), (doabstracts (c_abs_entries c) (groksabstract q)).
    + congruence.
    + eapply views_expand_filter; eauto.
    + symmetry. eapply views_expand_filter; eauto.
    + congruence.
  - intros H. assert (E : dir_entries p c d es = dir_entries q c d es).
    { unfold dir_entries. f_equal. unfold doabstracts. destruct (c_abs_entries c); try reflexivity.
      destruct H as [H|H]; [congruence|now rewrite H]. }
    rewrite E in VP. congruence.
Qed.

(* ---------- the pinned code handed geturl the constant 70 (fixed in /repo ee294ab) ---------- *)
Definition far_e : entry :=
  mkEntry (lit "dot./x") (Some (lit "9")) (Some (lit "far 3")) (Some (lit "other.example")) None
          None None None None None None None 0%Z false false [].
Theorem default_port_refuted :
  exists sn sp row r l,
    entry_wf sn sp far_e = true /\
    http_renderobjinfo [] sn 70%Z far_e = Some row /\ html_rows row = [r] /\
    gem_renderobjinfo FGemini sn 70%Z far_e = Some (l ++ [10]) /\
    Some (view_hrow r) <> view sn sp far_e /\ Some (view_gemline l) <> view sn sp far_e /\
    v_target (view_hrow r) = Some (lit "gopher://other.example:70/9dot./x") /\
    option_map v_target (view sn sp far_e) = Some (Some (lit "gopher://other.example:7070/9dot./x")).
Proof.
  exists (lit "gopher.example"), 7070%Z. eexists. eexists. exists (lit "=> gopher://other.example:70/9dot./x far 3").
  split; [vm_compute; reflexivity|]. split; [vm_compute; reflexivity|]. split; [vm_compute; reflexivity|].
  split; [vm_compute; reflexivity|]. split; [vm_compute; discriminate|]. split; [vm_compute; discriminate|].
  split; vm_compute; reflexivity.
Qed.
