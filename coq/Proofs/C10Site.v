(* The cache site of the C10 model, checked against the source: Gen/CacheSite.v is regenerated from
   pygopherd/handlers/dir.py on every run.  Model/Cache.v has ONE cache file per directory, named by the
   directory's selector and the `cachefile` option, living in that directory (injective in the selector),
   believed iff  time.time() - st_mtime < cachetime  at the moment loadcache() runs, and neither read nor
   written when the VFS says it is not writable (archives). *)
From Coq Require Import String.
From PG Require Import Lib.Str Gen.CacheSite.
Local Open Scope N_scope.

Definition str_list_eqb (a b : list str) : bool := list_eqb str_eqb a b.

Definition cache_site_check : bool :=
  str_list_eqb dir_options (map lit ["cachefile"; "cachetime"; "ignorepatt"]%string) &&
  str_list_eqb cachename_exprs [lit "self.selector + '/' + self.cachefile"%string] &&
  str_list_eqb freshness_tests [lit "time.time() - statval[stat.ST_MTIME] < self.cachetime"%string] &&
  loadcache_guarded && savecache_guarded &&
  str_list_eqb cachename_users (map lit ["loadcache"; "savecache"]%string).

Lemma cache_site_as_modelled : cache_site_check = true.
Proof. vm_compute. reflexivity. Qed.
