(* The cache site of the C10 model, checked against the source: Gen/CacheSite.v is regenerated from
   pygopherd/handlers/dir.py on every run.  Model/Cache.v has ONE cache file per directory, named by the
   directory's selector and the `cachefile` option, living in that directory (injective in the selector),
   believed iff  time.time() - st_mtime < cachetime  at the moment loadcache() runs, and neither read nor
   written when the VFS says it is not writable (archives). *)
From Coq Require Import String.
From PG Require Import Lib.Str Gen.CacheSite.
Local Open Scope N_scope.

Definition str_list_eqb (a b : list str) : bool := list_eqb str_eqb a b.

(* the way to a cache hit in loadcache(), as guards that must hold and file operations, in order
   (independent of early-return / nested-if phrasing; trivial helpers and local aliases inlined) *)
Definition loadcache_path_expected : list str := map lit
  [ "set: self.fromcache = False";
    "guard: self.vfs.iswritable(self.cachename)";
    "op: self.vfs.stat(self.cachename) [OSError -> miss]";
    "guard: time.time() - statval[stat.ST_MTIME] < self.cachetime";
    "op: self.vfs.open(self.cachename, 'rb') [Exception -> miss]";
    "op: pickle.load(fp) [Exception -> miss]";
    "set: self.fromcache = True";
    "hit" ]%string.
Definition savecache_path_expected : list str := map lit
  [ "guard: not self.fromcache";
    "guard: self.vfs.iswritable(self.cachename)";
    "op: self.vfs.open(self.cachename, 'wb') [IOError -> ignored]";
    "op: pickle.dump(self.fileentries, fp, 1) [IOError -> ignored]" ]%string.

Definition cache_site_check : bool :=
  str_list_eqb dir_options (map lit ["cachefile"; "cachetime"; "ignorepatt"]%string) &&
  str_list_eqb cachename_exprs [lit "self.selector + '/' + self.cachefile"%string] &&
  str_list_eqb loadcache_path loadcache_path_expected &&
  str_list_eqb savecache_path savecache_path_expected &&
  str_list_eqb cachename_users (map lit ["loadcache"; "savecache"]%string).

Lemma cache_site_as_modelled : cache_site_check = true.
Proof. vm_compute. reflexivity. Qed.
