(* C02Spec.v — the request shapes, stated declaratively (what the protocol documents say a request line
   looks like) and proved equivalent to the tests the code performs (Model/Detect.v). *)
From Coq Require Import Lia String.
From PG Require Import Lib.Str Lib.StrFacts Model.ProtoId Gen.Config Model.Detect.
Local Open Scope N_scope.

Lemma join_cons2 (sep x y : str) (r : list str) : join sep (x :: y :: r) = x ++ sep ++ join sep (y :: r).
Proof. reflexivity. Qed.

Lemma join_split_on c s : join [c] (split_on c s) = s.
Proof.
  induction s as [|x s IH]; [reflexivity|]. simpl split_on.
  destruct (split_on c s) as [|f r] eqn:S; [now apply split_on_nonempty in S|].
  destruct (x =? c) eqn:E.
  - apply N.eqb_eq in E. subst x. rewrite join_cons2. change (c :: join [c] (f :: r) = c :: s). now rewrite IH.
  - rewrite <- IH. destruct r as [|g r]; reflexivity.
Qed.

Lemma split_on_join c l :
  l <> [] -> Forall (fun f => mem_N c f = false) l -> split_on c (join [c] l) = l.
Proof.
  induction l as [|x l IH]; [congruence|]. intros _ HF.
  inversion HF as [|? ? Hx Hr]; subst.
  destruct l as [|y l].
  - simpl. now apply split_on_no_sep.
  - rewrite join_cons2. change (x ++ [c] ++ join [c] (y :: l)) with (x ++ c :: join [c] (y :: l)).
    rewrite split_on_app, IH by (discriminate || assumption).
    now rewrite split_on_no_sep.
Qed.

(* str.split(c) gives exactly three fields iff the line is  a c b c v  with c in none of them *)
Lemma split_on_three c s a b v :
  split_on c s = [a; b; v] <->
  s = a ++ c :: b ++ c :: v /\ mem_N c a = false /\ mem_N c b = false /\ mem_N c v = false.
Proof.
  split.
  - intros E. pose proof (join_split_on c s) as J. rewrite E in J. simpl in J.
    split; [now rewrite <- J|].
    repeat split; apply (split_on_field_no_sep c s); rewrite E; simpl; auto.
  - intros (-> & Ha & Hb & Hv).
    change (a ++ c :: b ++ c :: v) with (join [c] [a; b; v]).
    apply split_on_join; [discriminate|]. repeat constructor; assumption.
Qed.

Lemma split_on_two c s a b :
  split_on c s = [a; b] <-> s = a ++ c :: b /\ mem_N c a = false /\ mem_N c b = false.
Proof.
  split.
  - intros E. pose proof (join_split_on c s) as J. rewrite E in J. simpl in J.
    split; [now rewrite <- J|].
    split; apply (split_on_field_no_sep c s); rewrite E; simpl; auto.
  - intros (-> & Ha & Hb).
    change (a ++ c :: b) with (join [c] [a; b]).
    apply split_on_join; [discriminate|]. repeat constructor; assumption.
Qed.

Lemma slice5_prefix v : str_eqb (slice_to 5 v) HTTPSL = true <-> prefixb HTTPSL v = true.
Proof.
  assert (EH : HTTPSL = [72; 84; 84; 80; 47]) by (vm_compute; reflexivity). rewrite EH.
  unfold slice_to.
  destruct v as [|c0 [|c1 [|c2 [|c3 [|c4 v]]]]]; cbn -[N.eqb];
    rewrite ?andb_false_r; try (split; intros; discriminate).
  rewrite (N.eqb_sym c0), (N.eqb_sym c1), (N.eqb_sym c2), (N.eqb_sym c3), (N.eqb_sym c4). reflexivity.
Qed.

(* HTTP: METHOD SP target SP version, exactly two blanks in the whole line; the method (blanks of other kinds
   stripped) is GET or HEAD and the version (stripped) begins with "HTTP/" *)
Definition http_documented (req : str) : Prop :=
  exists m u v, req = m ++ 32 :: u ++ 32 :: v /\
    mem_N 32 m = false /\ mem_N 32 u = false /\ mem_N 32 v = false /\
    (strip m = GET \/ strip m = HEAD) /\ prefixb HTTPSL (strip v) = true.

Lemma http_shape_spec req : http_shape req = true <-> http_documented req.
Proof.
  unfold http_shape, http_parts, http_documented. split.
  - destruct (split_on SPACE req) as [|m [|u [|v [|w r]]]] eqn:E; simpl; try discriminate.
    intros H. apply andb_true_iff in H as [Hm Hv].
    apply split_on_three in E as (-> & Ha & Hb & Hc).
    exists m, u, v. repeat split; auto.
    + apply orb_true_iff in Hm as [Hm|Hm]; apply str_eqb_eq in Hm; auto.
    + now apply slice5_prefix.
  - intros (m & u & v & -> & Ha & Hb & Hc & Hm & Hv).
    assert (E : split_on SPACE (m ++ 32 :: u ++ 32 :: v) = [m; u; v]) by (apply split_on_three; auto).
    rewrite E. simpl. apply andb_true_iff. split.
    + apply orb_true_iff. destruct Hm as [-> | ->]; [left|right]; apply str_eqb_refl.
    + now apply slice5_prefix.
Qed.

(* Gemini: the line begins with the scheme *)
Lemma gemini_shape_spec req : gemini_shape req = true <-> exists rest, req = GEMINI ++ rest.
Proof.
  unfold gemini_shape. split.
  - intros H. exists (skipn (List.length GEMINI) req).
    revert H. generalize GEMINI. intros p. revert req. induction p as [|x p IH]; intros req H; [reflexivity|].
    destruct req as [|y req]; [discriminate|]. simpl in H. apply andb_true_iff in H as [H1 H2].
    apply N.eqb_eq in H1. subst y. simpl. f_equal. now apply IH.
  - intros [rest ->]. generalize GEMINI. intros p. induction p as [|x p IH]; [reflexivity|].
    simpl. now rewrite N.eqb_refl.
Qed.

(* Spartan: ASCII only; after stripping, host SP path SP length with exactly two blanks, no part empty,
   the length a run of decimal digits *)
Definition spartan_documented (req : str) : Prop :=
  all_ascii req = true /\
  exists h p n, strip req = h ++ 32 :: p ++ 32 :: n /\
    mem_N 32 h = false /\ mem_N 32 p = false /\ mem_N 32 n = false /\
    h <> [] /\ p <> [] /\ n <> [] /\ forallb is_ascii_digit n = true.

Lemma spartan_shape_spec req : spartan_shape req = true <-> spartan_documented req.
Proof.
  unfold spartan_shape, spartan_documented. split.
  - intros H. apply andb_true_iff in H as [HA H]. split; [exact HA|].
    destruct (split_on SPACE (strip req)) as [|h [|p [|n [|w r]]]] eqn:E; try discriminate.
    apply split_on_three in E as (E & Ha & Hb & Hc).
    apply andb_true_iff in H as [H Hd]. apply andb_true_iff in H as [H Hn]. apply andb_true_iff in H as [Hh Hp].
    exists h, p, n. repeat split; auto.
    + intros ->. discriminate. + intros ->. discriminate. + intros ->. discriminate.
  - intros (HA & h & p & n & E & Ha & Hb & Hc & Hh & Hp & Hn & Hd).
    rewrite HA. simpl.
    assert (S : split_on SPACE (strip req) = [h; p; n]) by (apply split_on_three; auto).
    rewrite S. rewrite Hd.
    destruct h; [congruence|]. destruct p; [congruence|]. destruct n; [congruence|]. reflexivity.
Qed.

(* Gopher+: two or three TAB-separated fields; the last one (stripped) is "!" or begins with "+" or "$" *)
Definition gplus_documented (req : str) : Prop :=
  exists g, gplus_marker (strip g) = true /\ mem_N 9 g = false /\
    ((exists sel, req = sel ++ 9 :: g /\ mem_N 9 sel = false) \/
     (exists sel q, req = sel ++ 9 :: q ++ 9 :: g /\ mem_N 9 sel = false /\ mem_N 9 q = false)).

Lemma gplus_shape_spec req : gplus_shape req = true <-> gplus_documented req.
Proof.
  unfold gplus_shape, gplus_field, requestlist, gplus_documented. split.
  - destruct (split_on TAB req) as [|a [|b [|c [|d r]]]] eqn:E; simpl; try discriminate.
    + intros H. apply split_on_two in E as (-> & Ha & Hb). exists b. repeat split; auto. left. exists a. auto.
    + intros H. apply split_on_three in E as (-> & Ha & Hb & Hc). exists c. repeat split; auto.
      right. exists a, b. auto.
  - intros (g & Hm & Hg & [(sel & -> & Hs) | (sel & q & -> & Hs & Hq)]).
    + assert (E : split_on TAB (sel ++ 9 :: g) = [sel; g]) by (apply split_on_two; auto).
      rewrite E. simpl. exact Hm.
    + assert (E : split_on TAB (sel ++ 9 :: q ++ 9 :: g) = [sel; q; g]) by (apply split_on_three; auto).
      rewrite E. simpl. exact Hm.
Qed.

Lemma gplus_marker_spec g :
  gplus_marker g = true <-> g = [33] \/ exists r, g = 43 :: r \/ g = 36 :: r.
Proof.
  unfold gplus_marker, first_is. split.
  - intros H. apply orb_true_iff in H as [H|H]; [apply orb_true_iff in H as [H|H]|].
    + destruct g as [|x r]; [discriminate|]. apply N.eqb_eq in H. subst. right. exists r. now left.
    + apply str_eqb_eq in H. now left.
    + destruct g as [|x r]; [discriminate|]. apply N.eqb_eq in H. subst. right. exists r. now right.
  - intros [-> | (r & [-> | ->])]; reflexivity.
Qed.
