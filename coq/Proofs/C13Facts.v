(* C13Facts.v — generated HTML, WML and Gopher+ blocks cannot be subverted by data.
   escape_safe, the tokenizer stability lemmas, and for every page builder of
   Model/RenderUrl.v the statement that its element/attribute skeleton does not
   depend on the values in its data slots.  The proofs go through the template
   theorem of Proofs/TokFacts.v: each builder is shown to be a list of constant
   markup pieces and inert data pieces whose slots all lie in character data or
   in double-quoted attribute values. *)
From Coq Require Import Lia ZArith String.
From PG Require Import Lib.Str Lib.StrFacts Lib.Dec Lib.DecFacts Lib.Crlf Lib.CrlfFacts Lib.HtmlEsc Lib.HtmlEscFacts
     Lib.Bytes Lib.Percent Lib.PercentFacts Lib.Utf8 Lib.Utf8Facts Lib.PercentStr
     Model.Entry Model.Render0 Model.Copy Model.Wml Model.GopherPlus Model.RenderUrl Model.ClientView
     Proofs.RenderFacts Proofs.TokFacts Proofs.C15Facts.
Local Open Scope N_scope.

(* ---------- escape_safe ---------- *)
Definition entity_at (s : str) : bool :=
  prefixb E_AMP s || prefixb E_LT s || prefixb E_GT s || prefixb E_DQ s || prefixb E_SQ s.
(* every "&" starts one of the five entities html.escape writes *)
Fixpoint amps_ok (s : str) : bool :=
  match s with
  | [] => true
  | c :: r => (if c =? AMP then entity_at s else true) && amps_ok r
  end.

Lemma esc_char_true_cases c :
  (c = AMP /\ esc_char true c = E_AMP) \/ (c = LT /\ esc_char true c = E_LT) \/
  (c = GT /\ esc_char true c = E_GT) \/ (c = DQ /\ esc_char true c = E_DQ) \/
  (c = SQ /\ esc_char true c = E_SQ) \/
  (c <> AMP /\ c <> LT /\ c <> GT /\ c <> DQ /\ c <> SQ /\ esc_char true c = [c]).
Proof.
  unfold esc_char.
  destruct (c =? AMP) eqn:E1; [apply N.eqb_eq in E1; auto|].
  destruct (c =? LT) eqn:E2; [apply N.eqb_eq in E2; auto|].
  destruct (c =? GT) eqn:E3; [apply N.eqb_eq in E3; auto 6|].
  simpl.
  destruct (c =? DQ) eqn:E4; [apply N.eqb_eq in E4; auto 8|].
  destruct (c =? SQ) eqn:E5; [apply N.eqb_eq in E5; auto 10|].
  apply N.eqb_neq in E1, E2, E3, E4, E5. auto 14.
Qed.

Theorem escape_safe s :
  mem_N LT (escape true s) = false /\ mem_N GT (escape true s) = false /\
  mem_N DQ (escape true s) = false /\ mem_N SQ (escape true s) = false /\
  amps_ok (escape true s) = true.
Proof.
  induction s as [|c s (I1 & I2 & I3 & I4 & I5)]; [repeat split; reflexivity|].
  simpl escape. rewrite !mem_N_app, I1, I2, I3, I4, !orb_false_r.
  destruct (esc_char_true_cases c) as [[-> ->]|[[-> ->]|[[-> ->]|[[-> ->]|[[-> ->]|(N1 & N2 & N3 & N4 & N5 & ->)]]]]].
  1-5: repeat split; try reflexivity; vm_compute; exact I5.
  cbn [mem_N]. rewrite !orb_false_r.
  repeat split; try (apply N.eqb_neq; congruence).
  cbn [app amps_ok]. apply N.eqb_neq in N1. rewrite N1. exact I5.
Qed.

Lemma escape_inert s : inert (escape true s) = true.
Proof.
  unfold inert. destruct (escape_safe s) as (H1 & _ & H3 & _). now rewrite H1, H3.
Qed.

(* ---------- tokenizer stability, phrased for escape output ---------- *)
Theorem tok_stable_text s acc :
  run (SText acc) (escape true s) = (SText (rev (escape true s) ++ acc), []).
Proof. apply run_text_stable. apply (escape_safe s). Qed.

Theorem tok_stable_attr s nm attrs an v :
  run (SValDq nm attrs an v) (escape true s) = (SValDq nm attrs an (rev (escape true s) ++ v), []).
Proof. apply run_dq_stable. apply (escape_safe s). Qed.

Theorem tok_stable_attr_gen d nm attrs an v :
  mem_N DQ d = false -> run (SValDq nm attrs an v) d = (SValDq nm attrs an (rev d ++ v), []).
Proof. apply run_dq_stable. Qed.

(* ---------- inert data other than escape output ---------- *)
Lemma inert_dec_nat n : inert (dec_nat n) = true.
Proof. unfold inert, dec_nat. now rewrite !print_dec_no. Qed.

Lemma inert_print_Z z : inert (print_Z z) = true.
Proof. unfold inert. rewrite !print_Z_no; [reflexivity| | | |]; (reflexivity || discriminate). Qed.

Lemma inert_quote_str s q : quote_str [47] s = Some q -> inert q = true.
Proof.
  intros Q. unfold inert.
  rewrite (quote_str_path_no LT s q Q), (quote_str_path_no DQ s q Q); [reflexivity| |]; simpl; auto 10.
Qed.

Lemma inert_accesskey n k : nth_error ACCESSKEYS n = Some k -> inert [k] = true.
Proof.
  intros H. do 12 (destruct n as [|n]; [vm_compute in H; inversion H; reflexivity|]).
  vm_compute in H. destruct n; discriminate.
Qed.

(* the gopher:// URL of an entry that is not a URL: selector is inert when the host name is *)
Lemma geturl_inert dh dp e u :
  url_scheme_match (e_selector e) = false ->
  inert (match e_host e with Some h => h | None => dh end) = true ->
  geturl dh dp e = Some u -> inert u = true.
Proof.
  intros M H. unfold geturl. rewrite M.
  destruct (quote_str [SLASHc] (type_text e ++ e_selector e)) as [q|] eqn:Q; [|discriminate].
  simpl. intros [= <-]. unfold gopher_url_text.
  rewrite !inert_app, H, inert_print_Z, (inert_quote_str _ _ Q). reflexivity.
Qed.

Definition icons_ok (icons : list (str * str)) : bool := forallb (fun kv => inert (snd kv)) icons.
Lemma icon_name_inert icons e : icons_ok icons = true -> inert (icon_name icons e) = true.
Proof.
  intros OK. unfold icon_name. destruct (e_type e) as [t|]; [|reflexivity].
  induction icons as [|[k v] r IH]; [reflexivity|].
  simpl in OK. apply andb_true_iff in OK as [O1 O2]. simpl.
  destruct (str_eqb t k); [exact O1|]. apply IH, O2.
Qed.

(* ---------- HTTP row ---------- *)
Definition http_row_tmpl (i s : bool) (icon url name sub : str) : list piece :=
  [PC (lit "<TR><TD>"); PC (lit "<IMG ALT="" * "" SRC=""");
   PD (lit "/PYGOPHERD-HTTPPROTO-ICONS/" ++ icon);
   PC (lit """ WIDTH=""20"" HEIGHT=""22"" BORDER=""0"">");
   PC (lit "</TD>"); PC [LFc]; PC (lit "<TD>&nbsp;")] ++
  (if negb i && negb s then [PC (lit "<A HREF="""); PD url; PC (lit """>")] else []) ++
  [PC (lit "<TT>"); PD name; PC (lit "</TT>")] ++
  (if negb i && negb s then [PC (lit "</A>")] else []) ++
  (if s then [PC (lit "<BR><FORM METHOD=""GET"" ACTION="""); PD url; PC (lit """>"); PC HTTP_SEARCH_INPUTS] else []) ++
  [PC (lit "</TD><TD><FONT SIZE=""-2"">"); PD sub; PC (lit "</FONT></TD></TR>"); PC [LFc]].

Lemma render_app a b : render (a ++ b) = render a ++ render b.
Proof. induction a as [|p a IH]; [reflexivity|]. simpl. now rewrite IH, app_assoc. Qed.
Local Ltac norm_apps :=
  rewrite ?render_app; cbn [render piece_str]; rewrite <- ?app_assoc, ?app_nil_r; reflexivity.

Lemma http_row_is_template esc icons e u :
  http_row_gen esc icons e u =
  render (http_row_tmpl (type_is e T_INFO) (type_is e T_SEARCH) (icon_name icons e)
                        (if esc then escape true u else u) (escape true (shown_name e))
                        (escape true (subtype_text e))).
Proof.
  unfold http_row_gen, http_row_tmpl, img_tag.
  destruct (type_is e T_INFO), (type_is e T_SEARCH); cbn [negb andb]; norm_apps.
Qed.

Lemma http_row_tmpl_shape i s a1 b1 c1 d1 a2 b2 c2 d2 :
  same_shape (http_row_tmpl i s a1 b1 c1 d1) (http_row_tmpl i s a2 b2 c2 d2).
Proof. destruct i, s; simpl; repeat split. Qed.

Lemma http_row_tmpl_slots i s a b c d : slots_ok (SText []) (http_row_tmpl i s a b c d) = true.
Proof. destruct i, s; vm_compute; reflexivity. Qed.

Lemma http_row_tmpl_inert i s a b c d :
  inert a = true -> inert b = true -> inert c = true -> inert d = true ->
  data_inert (http_row_tmpl i s a b c d) = true.
Proof.
  intros A B C D. destruct i, s; cbn [http_row_tmpl negb andb app data_inert];
    rewrite ?inert_app, ?A, ?B, ?C, ?D; reflexivity.
Qed.

Theorem skeleton_http_row icons e1 e2 u1 u2 :
  icons_ok icons = true ->
  type_is e1 T_INFO = type_is e2 T_INFO -> type_is e1 T_SEARCH = type_is e2 T_SEARCH ->
  skeleton (http_row icons e1 u1) = skeleton (http_row icons e2 u2).
Proof.
  intros OK TI TS. unfold http_row. rewrite !http_row_is_template, TI, TS.
  apply template_skeleton.
  - apply http_row_tmpl_shape.
  - apply http_row_tmpl_inert; auto using escape_inert, icon_name_inert.
  - apply http_row_tmpl_inert; auto using escape_inert, icon_name_inert.
  - apply http_row_tmpl_slots.
Qed.

(* through renderobjinfo: whatever the selectors, hosts, ports, names and MIME types *)
Theorem skeleton_http_renderobjinfo icons sn dp e1 e2 r1 r2 :
  icons_ok icons = true ->
  type_is e1 T_INFO = type_is e2 T_INFO -> type_is e1 T_SEARCH = type_is e2 T_SEARCH ->
  http_renderobjinfo icons sn dp e1 = Some r1 -> http_renderobjinfo icons sn dp e2 = Some r2 ->
  skeleton r1 = skeleton r2.
Proof.
  intros OK TI TS. unfold http_renderobjinfo, http_renderobjinfo_gen.
  destruct (link_url FHttp sn dp e1) as [u1|]; [|discriminate].
  destruct (link_url FHttp sn dp e2) as [u2|]; [|discriminate].
  simpl. intros [= <-] [= <-]. now apply skeleton_http_row.
Qed.

(* the pinned renderer copied the URL into HREF="..." unescaped *)
Definition pin_e (sel : str) : entry :=
  mkEntry sel (Some (lit "h")) (Some (lit "n")) None None None None None None None None None 0%Z false false [].
Theorem url_href_refuted :
  exists e1 e2 r1 r2 w1 w2,
    type_is e1 T_INFO = type_is e2 T_INFO /\ type_is e1 T_SEARCH = type_is e2 T_SEARCH /\
    http_renderobjinfo_pinned [] (lit "gopher.example") 70%Z e1 = Some r1 /\
    http_renderobjinfo_pinned [] (lit "gopher.example") 70%Z e2 = Some r2 /\
    skeleton r1 <> skeleton r2 /\
    wap_renderobjinfo_gen false (lit "/wap") (lit "gopher.example") 70%Z WAP0 e1 = Some w1 /\
    wap_renderobjinfo_gen false (lit "/wap") (lit "gopher.example") 70%Z WAP0 e2 = Some w2 /\
    skeleton (fst w1) <> skeleton (fst w2).
Proof.
  exists (pin_e (lit "URL:http://x/""><script>")), (pin_e (lit "URL:http://x/")).
  eexists. eexists. eexists. eexists.
  split; [reflexivity|]. split; [reflexivity|].
  split; [vm_compute; reflexivity|]. split; [vm_compute; reflexivity|].
  split; [vm_compute; discriminate|].
  split; [vm_compute; reflexivity|]. split; [vm_compute; reflexivity|].
  vm_compute; discriminate.
Qed.

(* ---------- HTTP directory start / end, 404 ---------- *)
Definition A_HEAD : str := HTML_DOCTYPE ++ [LFc] ++ lit "<HTML><HEAD><TITLE>Gopher".
Definition dirstart_a (suffix : str) : list piece := [PC A_HEAD; PD suffix; PC (lit "</TITLE></HEAD><BODY>")].
Definition dirstart_b (suffix : str) : list piece :=
  [PC (lit "<H1>Gopher"); PD suffix; PC (lit "</H1><TABLE WIDTH=""100%"" CELLSPACING=""1"" CELLPADDING=""0"">")].

Lemma http_dirstart_split topper d :
  http_dirstart_with topper d = render (dirstart_a (title_suffix d)) ++ topper ++ render (dirstart_b (title_suffix d)).
Proof. unfold http_dirstart_with, dirstart_a, dirstart_b, A_HEAD. norm_apps. Qed.

Lemma title_suffix_inert d : inert (title_suffix d) = true.
Proof. unfold title_suffix. destruct (truthy_str (e_name d)); [|reflexivity]. now rewrite inert_app, escape_inert. Qed.

(* a page topper that is complete markup: read from character data it ends in character data *)
Definition topper_closed (t : str) : Prop := erase (fst (run (SText []) t)) = SText [].

Theorem skeleton_http_dirstart topper d1 d2 :
  topper_closed topper ->
  skeleton (http_dirstart_with topper d1) = skeleton (http_dirstart_with topper d2).
Proof.
  intros TC. rewrite !skeleton_run, !http_dirstart_split.
  rewrite !run_app_snd, !events_app.
  set (s1 := title_suffix d1). set (s2 := title_suffix d2).
  assert (I1 : inert s1 = true) by apply title_suffix_inert.
  assert (I2 : inert s2 = true) by apply title_suffix_inert.
  (* part one *)
  destruct (template_run (dirstart_a s1) (dirstart_a s2) (SText []) (SText []) eq_refl) as [A1 A2];
    [simpl; auto| simpl; now rewrite I1 | simpl; now rewrite I2 | vm_compute; reflexivity |].
  destruct (template_run (dirstart_a s1) (dirstart_a []) (SText []) (SText []) eq_refl) as [_ A0];
    [simpl; auto| simpl; now rewrite I1 | reflexivity | vm_compute; reflexivity |].
  assert (A0' : erase (fst (run (SText []) (render (dirstart_a s1)))) = SText []).
  { rewrite A0. vm_compute. reflexivity. }
  (* the topper *)
  destruct (run_sim topper _ _ A2) as [T1 T2].
  destruct (run_sim topper _ (SText []) A0') as [T0 _].
  rewrite TC in T0.
  (* part two *)
  destruct (template_run (dirstart_b s1) (dirstart_b s2) _ _ T1) as [B1 _];
    [simpl; auto| simpl; now rewrite I1 | simpl; now rewrite I2 | |].
  { rewrite (slots_ok_sim _ _ (SText []) T0). vm_compute. reflexivity. }
  now rewrite A1, T2, B1.
Qed.

Lemma topper_closed_nil : topper_closed [].
Proof. reflexivity. Qed.

Definition dirend_tmpl (u : str) : list piece :=
  [PC (lit "</TABLE><HR>" ++ [LFc] ++ lit "[<A HREF=""/"">server top</A>]" ++ lit " [<A HREF=""");
   PD u;
   PC (lit """>view with gopher</A>]" ++
       lit "<BR>Generated by <A HREF=""https://www.github.com/michael-lazar/pygopherd"">PyGopherd</A>" ++
       [LFc] ++ lit "</BODY></HTML>" ++ [LFc])].
Lemma http_dirend_is_template u : http_dirend_with u = render (dirend_tmpl u).
Proof. unfold http_dirend_with, dirend_tmpl. norm_apps. Qed.

Theorem skeleton_http_dirend_with u1 u2 :
  inert u1 = true -> inert u2 = true -> skeleton (http_dirend_with u1) = skeleton (http_dirend_with u2).
Proof.
  intros I1 I2. rewrite !http_dirend_is_template. apply template_skeleton.
  - simpl; auto.
  - simpl. now rewrite I1.
  - simpl. now rewrite I2.
  - vm_compute. reflexivity.
Qed.

(* for the entries of real directories: not a URL: selector, no host of their own *)
Theorem skeleton_http_dirend sn sp d1 d2 p1 p2 :
  inert sn = true ->
  url_scheme_match (e_selector d1) = false -> url_scheme_match (e_selector d2) = false ->
  e_host d1 = None -> e_host d2 = None ->
  http_dirend sn sp d1 = Some p1 -> http_dirend sn sp d2 = Some p2 ->
  skeleton p1 = skeleton p2.
Proof.
  intros SN M1 M2 H1 H2. unfold http_dirend.
  destruct (geturl sn sp d1) as [u1|] eqn:G1; [|discriminate].
  destruct (geturl sn sp d2) as [u2|] eqn:G2; [|discriminate].
  simpl. intros [= <-] [= <-]. apply skeleton_http_dirend_with.
  - apply (geturl_inert sn sp d1 u1 M1); [rewrite H1; exact SN|exact G1].
  - apply (geturl_inert sn sp d2 u2 M2); [rewrite H2; exact SN|exact G2].
Qed.

Definition h404_tmpl (m : str) : list piece :=
  [PC (HTML_DOCTYPE ++ [LFc] ++ lit "<HTML><HEAD><TITLE>Selector Not Found</TITLE>" ++ [LFc] ++
       HTTP_404_INDENT ++ lit "<H1>Selector Not Found</H1>" ++ [LFc] ++ HTTP_404_INDENT ++ lit "<TT>");
   PD m; PC (lit "</TT><HR>Pygopherd</BODY></HTML>" ++ [LFc])].
Lemma http_404_is_template msg : http_404_page msg = render (h404_tmpl (escape true msg)).
Proof. unfold http_404_page, h404_tmpl. norm_apps. Qed.

Theorem skeleton_http_404 m1 m2 : skeleton (http_404_page m1) = skeleton (http_404_page m2).
Proof.
  rewrite !http_404_is_template. apply template_skeleton.
  - simpl; auto.
  - simpl. now rewrite escape_inert.
  - simpl. now rewrite escape_inert.
  - vm_compute. reflexivity.
Qed.

(* ---------- WAP row, deck frame, 404 ---------- *)
Definition wap_search_tmpl (url dec : str) : list piece :=
  [PC (lit "<br/>" ++ [LFc] ++ lit "  <input name=""sr"); PD dec;
   PC (lit """/>" ++ [LFc] ++ lit "<anchor>Go" ++ [LFc] ++ lit "  <go method=""get"" href="""); PD url;
   PC (lit """>" ++ [LFc] ++ lit "    <postfield name=""searchrequest"" value=""$(sr"); PD dec;
   PC (lit ")""/>" ++ [LFc] ++ lit "  </go>" ++ [LFc] ++ lit "</anchor>" ++ [LFc])].

Definition wap_row_tmpl (linked search : bool) (key : option N) (url name dec : str) : list piece :=
  (if linked then
     match key with
     | Some k => [PD [k]; PC (lit " <a accesskey="""); PD [k]; PC (lit """ href="""); PD url; PC (lit """>")]
     | None => [PC (lit "<a href="""); PD url; PC (lit """>")]
     end
   else []) ++
  [PD name] ++
  (if linked then [PC (lit "</a>")] else []) ++
  (if search then wap_search_tmpl url dec else []) ++
  [PC (lit "<br/>" ++ [LFc])].

Definition wap_url (esc : bool) (waptop u : str) : str :=
  let u1 := if prefixb [SLASHc] u then waptop ++ u else u in if esc then escape true u1 else u1.

Lemma wap_row_is_template esc waptop st e u :
  fst (wap_row_gen esc waptop st e u) =
  render (wap_row_tmpl (negb (type_is e T_INFO || type_is e T_SEARCH)) (type_is e T_SEARCH)
                       (nth_error ACCESSKEYS (ws_key st)) (wap_url esc waptop u)
                       (escape true (shown_name e)) (dec_nat (ws_post st))).
Proof.
  unfold wap_row_gen, wap_row_tmpl, wap_url, wap_search_block, wap_search_tmpl.
  destruct (type_is e T_INFO), (type_is e T_SEARCH); cbn [negb orb];
    destruct (nth_error ACCESSKEYS (ws_key st)); cbn [fst]; norm_apps.
Qed.

Lemma wap_row_tmpl_shape l s k a1 b1 c1 a2 b2 c2 :
  same_shape (wap_row_tmpl l s k a1 b1 c1) (wap_row_tmpl l s k a2 b2 c2).
Proof. destruct l, s, k; simpl; repeat split. Qed.
Lemma wap_row_tmpl_slots l s k a b c : slots_ok (SText []) (wap_row_tmpl l s k a b c) = true.
Proof. destruct l, s, k; vm_compute; reflexivity. Qed.
Lemma wap_row_tmpl_inert l s k a b c :
  match k with Some x => inert [x] = true | None => True end ->
  inert a = true -> inert b = true -> inert c = true ->
  data_inert (wap_row_tmpl l s k a b c) = true.
Proof.
  intros K A B C. destruct l, s, k; cbn [wap_row_tmpl wap_search_tmpl app data_inert];
    rewrite ?K, ?A, ?B, ?C; reflexivity.
Qed.

Theorem skeleton_wap_row waptop st e1 e2 u1 u2 :
  type_is e1 T_INFO = type_is e2 T_INFO -> type_is e1 T_SEARCH = type_is e2 T_SEARCH ->
  skeleton (fst (wap_row waptop st e1 u1)) = skeleton (fst (wap_row waptop st e2 u2)).
Proof.
  intros TI TS. unfold wap_row. rewrite !wap_row_is_template, TI, TS.
  assert (K : match nth_error ACCESSKEYS (ws_key st) with Some x => inert [x] = true | None => True end).
  { destruct (nth_error ACCESSKEYS (ws_key st)) eqn:E; [eapply inert_accesskey; eauto|exact I]. }
  apply template_skeleton.
  - apply wap_row_tmpl_shape.
  - apply wap_row_tmpl_inert; auto using escape_inert, inert_dec_nat. unfold wap_url. apply escape_inert.
  - apply wap_row_tmpl_inert; auto using escape_inert, inert_dec_nat. unfold wap_url. apply escape_inert.
  - apply wap_row_tmpl_slots.
Qed.

Definition wap_dirstart_tmpl (t : str) : list piece :=
  [PC (WML_HEADER ++ lit "<card id=""index"" title="""); PD t;
   PC (lit """ newcontext=""true"">" ++ [LFc] ++ lit "<p>" ++ [LFc] ++ lit "<b>"); PD t;
   PC (lit "</b><br/>" ++ [LFc])].
Lemma wap_dirstart_is_template d : wap_dirstart d = render (wap_dirstart_tmpl (escape true (wap_title d))).
Proof. unfold wap_dirstart, wap_dirstart_tmpl. norm_apps. Qed.
Theorem skeleton_wap_dirstart d1 d2 : skeleton (wap_dirstart d1) = skeleton (wap_dirstart d2).
Proof.
  rewrite !wap_dirstart_is_template. apply template_skeleton.
  - simpl; auto.
  - simpl. now rewrite escape_inert.
  - simpl. now rewrite escape_inert.
  - vm_compute. reflexivity.
Qed.

Definition w404_tmpl (m : str) : list piece :=
  [PC (WML_HEADER ++ lit "<card id=""index"" title=""404 Error"" newcontext=""true"">" ++ [LFc] ++
       lit "<p><b>Gopher Error</b></p><p>" ++ [LFc]); PD m; PC ([LFc] ++ WML_FOOT)].
Lemma wap_404_is_template msg : wap_404_page msg = render (w404_tmpl (escape true msg)).
Proof. unfold wap_404_page, w404_tmpl. norm_apps. Qed.
Theorem skeleton_wap_404 m1 m2 : skeleton (wap_404_page m1) = skeleton (wap_404_page m2).
Proof.
  rewrite !wap_404_is_template. apply template_skeleton.
  - simpl; auto.
  - simpl. now rewrite escape_inert.
  - simpl. now rewrite escape_inert.
  - vm_compute. reflexivity.
Qed.

(* text-to-WML conversion: one escaped line per source line, a paragraph break
   for every empty line; the skeleton depends on where the empty lines are only *)
Definition is_nil (l : str) : bool := match l with [] => true | _ => false end.
Definition deck_piece (l : str) : piece :=
  match l with [] => PC WML_PARA | _ => PD (escape true l ++ NL) end.
Definition deck_tmpl (ls : list str) : list piece := PC WML_HEAD :: map deck_piece ls ++ [PC WML_FOOT].

Lemma to_wml_is_template text : to_wml text = render (deck_tmpl (wml_source_lines text)).
Proof.
  unfold to_wml, deck_tmpl, to_wml_body. cbn [render piece_str]. f_equal.
  rewrite render_app. cbn [render piece_str]. rewrite app_nil_r. f_equal.
  induction (wml_source_lines text) as [|l ls IH]; [reflexivity|].
  simpl. rewrite IH. destruct l; reflexivity.
Qed.

Lemma deck_shape l1 : forall l2, map is_nil l1 = map is_nil l2 ->
  same_shape (map deck_piece l1 ++ [PC WML_FOOT]) (map deck_piece l2 ++ [PC WML_FOOT]).
Proof.
  induction l1 as [|a l1 IH]; intros [|b l2] H; simpl in H; try discriminate; [simpl; auto|].
  injection H as H1 H2. destruct a, b; try discriminate; simpl; auto.
Qed.
Lemma deck_inert ls : data_inert (map deck_piece ls ++ [PC WML_FOOT]) = true.
Proof.
  induction ls as [|l ls IH]; [reflexivity|]. destruct l as [|c l]; [exact IH|].
  cbn [map deck_piece app data_inert]. now rewrite inert_app, escape_inert, IH.
Qed.
Lemma deck_slots ls : forall st, erase st = SText [] -> slots_ok st (map deck_piece ls ++ [PC WML_FOOT]) = true.
Proof.
  induction ls as [|l ls IH]; intros st E.
  - rewrite (slots_ok_sim _ st (SText []) E). reflexivity.
  - destruct l as [|c l].
    + cbn [map deck_piece app slots_ok]. apply IH.
      destruct (run_sim WML_PARA st (SText []) E) as [R _]. rewrite R. vm_compute. reflexivity.
    + cbn [map deck_piece app slots_ok]. rewrite (IH st E), andb_true_r.
      rewrite <- slot_state_erase, E. reflexivity.
Qed.

Theorem skeleton_wap_deck t1 t2 :
  map is_nil (wml_source_lines t1) = map is_nil (wml_source_lines t2) ->
  skeleton (to_wml t1) = skeleton (to_wml t2).
Proof.
  intros H. rewrite !to_wml_is_template. apply template_skeleton.
  - unfold deck_tmpl. simpl. split; [reflexivity|]. now apply deck_shape.
  - unfold deck_tmpl. simpl. apply deck_inert.
  - unfold deck_tmpl. simpl. apply deck_inert.
  - unfold deck_tmpl. cbn [slots_ok]. apply deck_slots. vm_compute. reflexivity.
Qed.

(* ---------- URL redirect page ---------- *)
Definition url_page_tmpl (u : str) : list piece :=
  [PC (lit "<HTML><HEAD>" ++ [LFc] ++ lit "<META HTTP-EQUIV=""refresh"" content=""5;URL="); PD u;
   PC (lit """>" ++ lit "</HEAD><BODY>" ++ [LFc] ++
       [LFc] ++ URLPAGE_IND ++ lit "You are following a link from gopher to a website.  You will be" ++
       [LFc] ++ URLPAGE_IND ++ lit "automatically taken to the web site shortly.  If you do not get" ++
       [LFc] ++ URLPAGE_IND ++ lit "sent there, please click " ++ lit "<A HREF="""); PD u;
   PC (lit """>here</A> " ++ lit "to go to the web site." ++
       [LFc] ++ URLPAGE_IND ++ lit "<P>" ++
       [LFc] ++ URLPAGE_IND ++ lit "The URL linked is:" ++
       [LFc] ++ URLPAGE_IND ++ lit "<P>" ++ lit "<A HREF="""); PD u; PC (lit """>"); PD u;
   PC (lit "</A>" ++ lit "<P>" ++
       [LFc] ++ URLPAGE_IND ++ lit "Thanks for using gopher!" ++
       [LFc] ++ URLPAGE_IND ++ lit "<P>" ++
       [LFc] ++ URLPAGE_IND ++ lit "Document generated by pygopherd handlers.url.HTMLURLHandler" ++
       [LFc] ++ URLPAGE_IND ++ lit "</BODY></HTML>")].
Lemma url_page_is_template u : url_page_with u = render (url_page_tmpl u).
Proof. unfold url_page_with, url_page_tmpl. norm_apps. Qed.

Theorem skeleton_url_page s1 s2 : skeleton (url_page s1) = skeleton (url_page s2).
Proof.
  unfold url_page. rewrite !url_page_is_template. apply template_skeleton.
  - simpl; auto 10.
  - simpl. now rewrite escape_inert.
  - simpl. now rewrite escape_inert.
  - vm_compute. reflexivity.
Qed.

(* ---------- HTTP header lines ---------- *)
(* not-found replies: the header block a client reads is two constant lines, whatever the message *)
Theorem headers_404 msg :
  http_split 16 (http_404 msg) = Some (HTTP_404_HEAD_LINES, http_404_page msg) /\
  http_split 16 (wap_404 msg) = Some (WAP_404_HEAD_LINES, wap_404_page msg).
Proof. split; reflexivity. Qed.

(* successful replies: the lines are built from the formatted modification time and the
   MIME type of the entry, nothing else of the entry *)
Theorem headers_ok_slots adjust lastmod e1 e2 :
  e_mimetype e1 = e_mimetype e2 -> http_ok_head adjust lastmod e1 = http_ok_head adjust lastmod e2.
Proof. intros H. unfold http_ok_head. now rewrite H. Qed.

Theorem headers_ok_lines lastmod e l :
  In l (http_ok_head http_adjust lastmod e) ->
  l = lit "HTTP/1.0 200 OK" \/
  (exists t, lastmod = Some t /\ l = lit "Last-Modified: " ++ t) \/
  l = lit "Content-Type: text/plain" \/ l = lit "Content-Type: text/html" \/
  (exists m, e_mimetype e = Some m /\ l = lit "Content-Type: " ++ m).
Proof.
  unfold http_ok_head. intros H. apply in_app_or in H as [H|H].
  - destruct H as [<-|[]]. auto.
  - apply in_app_or in H as [H|H].
    + destruct lastmod as [t|]; [|contradiction]. destruct H as [<-|[]]. right; left. eauto.
    + destruct H as [<-|[]]. unfold http_adjust. destruct (e_mimetype e) as [m|]; [|auto].
      destruct (str_eqb m MENU); [auto|]. do 4 right. eauto.
Qed.

Theorem headers_ok_is_copy lastmod e adjust :
  http_ok_head adjust lastmod e = http_header_lines lastmod (adjust (e_mimetype e)).
Proof. reflexivity. Qed.

(* ---------- Gopher+ blocks (the builder is Model/GopherPlus.v, its line facts Proofs/C15Facts.v) ---------- *)
(* a reader of CRLF-terminated lines gets back exactly the header line and the body lines of an
   extended-attribute block, and no body line reads as a block header, whatever the value *)
Theorem gplus_block_reads keep name v :
  no_lf name ->
  split_crlf (GopherPlus.ea_block keep name v) = (GopherPlus.ea_block_lines keep name v, []) /\
  Forall (fun l => exists x, l = GopherPlus.SP :: x /\ no_break x /\ GopherPlus.parse_header l = None)
         (tl (GopherPlus.ea_block_lines keep name v)).
Proof.
  intros NN.
  assert (B : Forall (fun l => exists x, l = GopherPlus.SP :: x /\ no_break x /\ no_lf l /\ GopherPlus.parse_header l = None)
                     (tl (GopherPlus.ea_block_lines keep name v))).
  { apply Forall_forall. intros l H. exact (C15Facts.gplus_lines_never_headers keep name v l H). }
  split.
  - rewrite C15Facts.ea_block_unlines. apply split_crlf_unlines.
    unfold GopherPlus.ea_block_lines in *. cbn [tl] in B. constructor.
    + apply no_lf_cons. split; [discriminate|]. apply no_lf_app. split; [exact NN|reflexivity].
    + eapply Forall_impl; [|exact B]. intros l (x & _ & _ & L & _). exact L.
  - eapply Forall_impl; [|exact B]. intros l (x & E & NB & _ & PH). eauto.
Qed.
