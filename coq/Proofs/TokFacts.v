(* TokFacts.v — facts about the HTML/WML tokenizer of Model/ClientView.v:
   it is compositional, text without "<" keeps it in the text state, a value
   without a double quote keeps it inside a double-quoted attribute value, and
   the element/attribute skeleton of a page assembled from constant markup and
   inert data depends on the constant markup only (template theorem). *)
From Coq Require Import Lia String.
From PG Require Import Lib.Str Lib.StrFacts Lib.HtmlEsc Lib.HtmlEscFacts Model.Entry Model.RenderUrl Model.ClientView.
Local Open Scope N_scope.

(* ---------- run is a fold: it distributes over concatenation ---------- *)
Lemma run_app st a b :
  run st (a ++ b) =
  (let '(st1, t1) := run st a in let '(st2, t2) := run st1 b in (st2, t1 ++ t2)).
Proof.
  revert st. induction a as [|c a IH]; intros st; simpl.
  - destruct (run st b) as [st2 t2]. reflexivity.
  - destruct (step st c) as [st1 t1]. rewrite IH.
    destruct (run st1 a) as [st2 t2]. destruct (run st2 b) as [st3 t3].
    now rewrite app_assoc.
Qed.

Lemma run_app_fst st a b : fst (run st (a ++ b)) = fst (run (fst (run st a)) b).
Proof. rewrite run_app. destruct (run st a) as [s1 t1]. simpl. destruct (run s1 b). reflexivity. Qed.
Lemma run_app_snd st a b : snd (run st (a ++ b)) = snd (run st a) ++ snd (run (fst (run st a)) b).
Proof. rewrite run_app. destruct (run st a) as [s1 t1]. simpl. destruct (run s1 b). reflexivity. Qed.

Lemma events_app a b : events (a ++ b) = events a ++ events b.
Proof. unfold events. apply flat_map_app. Qed.

(* ---------- stability ---------- *)
(* character data without "<": the tokenizer stays in the text state and reports nothing *)
Lemma run_text_stable d : forall acc, mem_N LT d = false -> run (SText acc) d = (SText (rev d ++ acc), []).
Proof.
  induction d as [|c d IH]; intros acc H; [reflexivity|].
  cbn [mem_N] in H. apply orb_false_iff in H as [Hc Hd]. rewrite N.eqb_sym in Hc.
  cbn [run step]. rewrite Hc. rewrite (IH _ Hd). simpl. now rewrite <- app_assoc.
Qed.

(* inside a double-quoted attribute value a string without the quote stays inside *)
Lemma run_dq_stable d : forall nm attrs an v, mem_N DQ d = false ->
  run (SValDq nm attrs an v) d = (SValDq nm attrs an (rev d ++ v), []).
Proof.
  induction d as [|c d IH]; intros nm attrs an v H; [reflexivity|].
  cbn [mem_N] in H. apply orb_false_iff in H as [Hc Hd]. rewrite N.eqb_sym in Hc.
  cbn [run step]. rewrite Hc. rewrite (IH _ _ _ _ Hd). simpl. now rewrite <- app_assoc.
Qed.

(* ---------- the part of the state the skeleton depends on ---------- *)
Definition erase_attrs (a : attrs_t) : attrs_t := map (fun kv => (fst kv, @None str)) a.
Definition erase (st : tstate) : tstate :=
  match st with
  | SText _ => SText []
  | SBeforeAttr nm a => SBeforeAttr nm (erase_attrs a)
  | SAttrName nm a an => SAttrName nm (erase_attrs a) an
  | SAfterName nm a an => SAfterName nm (erase_attrs a) an
  | SBeforeVal nm a an => SBeforeVal nm (erase_attrs a) an
  | SValDq nm a an _ => SValDq nm (erase_attrs a) an []
  | SValSq nm a an _ => SValSq nm (erase_attrs a) an []
  | SValUnq nm a an _ => SValUnq nm (erase_attrs a) an []
  | SSlash nm a => SSlash nm (erase_attrs a)
  | other => other
  end.

Lemma erase_attrs_idem a : erase_attrs (erase_attrs a) = erase_attrs a.
Proof. unfold erase_attrs. rewrite map_map. reflexivity. Qed.
Lemma erase_idem st : erase (erase st) = erase st.
Proof. destruct st; simpl; now rewrite ?erase_attrs_idem. Qed.
Lemma erase_attrs_names a : map fst (rev (erase_attrs a)) = map fst (rev a).
Proof. unfold erase_attrs. rewrite <- map_rev, map_map. reflexivity. Qed.

Lemma events_start_erase nm a : events (start_tok nm (erase_attrs a)) = events (start_tok nm a).
Proof. unfold start_tok, events. cbn [flat_map ev_of app]. now rewrite erase_attrs_names. Qed.
Lemma events_start_cons nm x a :
  events (start_tok nm (x :: erase_attrs a)) = events (start_tok nm (x :: a)).
Proof.
  unfold start_tok, events. cbn [flat_map ev_of app rev]. rewrite !map_app. now rewrite erase_attrs_names.
Qed.
Lemma events_startend_erase nm a :
  events [TStart nm (rev (erase_attrs a)); TEnd nm] = events [TStart nm (rev a); TEnd nm].
Proof. unfold events. cbn [flat_map ev_of app]. now rewrite erase_attrs_names. Qed.

Lemma erase_attrs_cons x a : erase_attrs (x :: erase_attrs a) = erase_attrs (x :: a).
Proof. change (erase_attrs (x :: erase_attrs a)) with ((fst x, @None str) :: erase_attrs (erase_attrs a)). now rewrite erase_attrs_idem. Qed.

Lemma erase_attrs_fst a : map fst (erase_attrs a) = map fst a.
Proof. unfold erase_attrs. rewrite map_map. reflexivity. Qed.
Lemma events_start_names nm a b : map fst a = map fst b -> events (start_tok nm a) = events (start_tok nm b).
Proof. intros H. unfold start_tok, events. cbn [flat_map ev_of app]. now rewrite !map_rev, H. Qed.

Local Ltac fin :=
  cbn [fst snd erase]; rewrite ?erase_attrs_cons, ?erase_attrs_idem;
  split; [reflexivity|];
  first [ reflexivity
        | apply events_start_names; cbn [map fst]; rewrite ?erase_attrs_fst; reflexivity
        | rewrite events_startend_erase; reflexivity ].

Lemma step_before_attr_erase nm a c :
  erase (fst (step_before_attr nm a c)) = erase (fst (step_before_attr nm (erase_attrs a) c)) /\
  events (snd (step_before_attr nm a c)) = events (snd (step_before_attr nm (erase_attrs a) c)).
Proof.
  unfold step_before_attr.
  destruct (is_space c); [fin|]. destruct (c =? 47); [fin|]. destruct (c =? GT); fin.
Qed.

Lemma step_erase st c :
  erase (fst (step st c)) = erase (fst (step (erase st) c)) /\
  events (snd (step st c)) = events (snd (step (erase st) c)).
Proof.
  destruct st as [acc| | |nm|nm|nm|nm a|nm a an|nm a an|nm a an|nm a an v|nm a an v|nm a an v|nm a| | |d|];
    cbn [erase step]; try (split; reflexivity).
  - destruct (c =? LT); fin.
  - apply step_before_attr_erase.
  - destruct (is_space c); [fin|]. destruct (c =? 47); [fin|]. destruct (c =? 61); [fin|].
    destruct (c =? GT); fin.
  - destruct (is_space c); [fin|]. destruct (c =? 61); [fin|].
    change ((an, @None str) :: erase_attrs a) with (erase_attrs ((an, None) :: a)).
    apply step_before_attr_erase.
  - destruct (is_space c); [fin|]. destruct (c =? 61); [fin|]. destruct (c =? DQ); [fin|].
    destruct (c =? SQ); [fin|]. destruct (c =? GT); fin.
  - destruct (c =? DQ); fin.
  - destruct (c =? SQ); fin.
  - destruct (is_space c); [fin|]. destruct (c =? GT); fin.
  - destruct (c =? GT); [fin|]. apply step_before_attr_erase.
Qed.

(* states that agree on that part are driven alike by the same text *)
Lemma run_sim s : forall a b, erase a = erase b ->
  erase (fst (run a s)) = erase (fst (run b s)) /\ events (snd (run a s)) = events (snd (run b s)).
Proof.
  induction s as [|c s IH]; intros a b E; [simpl; auto|].
  cbn [run].
  destruct (step a c) as [a1 ta] eqn:SA. destruct (step b c) as [b1 tb] eqn:SB.
  assert (E1 : erase a1 = erase b1 /\ events ta = events tb).
  { pose proof (step_erase a c) as [A1 A2]. pose proof (step_erase b c) as [B1 B2].
    rewrite SA in A1, A2. rewrite SB in B1, B2. simpl in *. rewrite E in A1, A2. split; congruence. }
  destruct E1 as [E1 E2]. specialize (IH a1 b1 E1).
  destruct (run a1 s) as [a2 ta2]. destruct (run b1 s) as [b2 tb2]. simpl in *.
  destruct IH as [I1 I2]. split; [exact I1|]. now rewrite !events_app, E2, I2.
Qed.

(* ---------- pages as templates: constant markup and data slots ---------- *)
Inductive piece := PC (s : str) | PD (s : str).
Definition piece_str (p : piece) : str := match p with PC s | PD s => s end.
Fixpoint render (ps : list piece) : str :=
  match ps with [] => [] | p :: r => piece_str p ++ render r end.

(* data that cannot leave the place it was put into: no "<", no double quote *)
Definition inert (s : str) : bool := negb (mem_N LT s) && negb (mem_N DQ s).
Definition slot_state (st : tstate) : bool :=
  match st with SText _ | SValDq _ _ _ _ => true | _ => false end.

Fixpoint data_inert (ps : list piece) : bool :=
  match ps with
  | [] => true
  | PC _ :: r => data_inert r
  | PD d :: r => inert d && data_inert r
  end.

(* every data slot sits in character data or inside a double-quoted attribute
   value; decided by running the tokenizer over the constant markup alone *)
Fixpoint slots_ok (st : tstate) (ps : list piece) : bool :=
  match ps with
  | [] => true
  | PC s :: r => slots_ok (fst (run st s)) r
  | PD _ :: r => slot_state st && slots_ok st r
  end.

Fixpoint same_shape (a b : list piece) : Prop :=
  match a, b with
  | [], [] => True
  | PC x :: a', PC y :: b' => x = y /\ same_shape a' b'
  | PD _ :: a', PD _ :: b' => same_shape a' b'
  | _, _ => False
  end.

Lemma slot_state_erase st : slot_state (erase st) = slot_state st.
Proof. destruct st; reflexivity. Qed.

Lemma slot_stable st d :
  slot_state st = true -> inert d = true ->
  erase (fst (run st d)) = erase st /\ snd (run st d) = [].
Proof.
  intros S I. unfold inert in I. apply andb_true_iff in I as [I1 I2].
  apply negb_true_iff in I1, I2.
  destruct st; try discriminate S.
  - rewrite (run_text_stable d acc I1). auto.
  - rewrite (run_dq_stable d nm attrs an v I2). auto.
Qed.

Lemma slots_ok_sim ps : forall a b, erase a = erase b -> slots_ok a ps = slots_ok b ps.
Proof.
  induction ps as [|[s|d] r IH]; intros a b E; [reflexivity| |].
  - simpl. apply IH. apply (run_sim s a b E).
  - simpl. rewrite (IH a b E). f_equal.
    rewrite <- (slot_state_erase a), <- (slot_state_erase b). now rewrite E.
Qed.

Lemma template_run ps1 : forall ps2 st1 st2,
  erase st1 = erase st2 -> same_shape ps1 ps2 ->
  data_inert ps1 = true -> data_inert ps2 = true -> slots_ok st1 ps1 = true ->
  events (snd (run st1 (render ps1))) = events (snd (run st2 (render ps2))) /\
  erase (fst (run st1 (render ps1))) = erase (fst (run st2 (render ps2))).
Proof.
  induction ps1 as [|[s|d1] r1 IH]; intros ps2 st1 st2 E SH D1 D2 OK.
  - destruct ps2; [|destruct p; contradiction]. simpl. auto.
  - destruct ps2 as [|[s2|d2] r2]; try contradiction. simpl in SH. destruct SH as [<- SH].
    cbn [render piece_str]. rewrite !run_app_snd, !run_app_fst, !events_app.
    destruct (run_sim s st1 st2 E) as [E1 E2].
    simpl in D1, D2, OK.
    destruct (IH r2 _ _ E1 SH D1 D2 OK) as [I1 I2].
    split; [now rewrite E2, I1|exact I2].
  - destruct ps2 as [|[s2|d2] r2]; try contradiction. simpl in SH.
    cbn [render piece_str]. rewrite !run_app_snd, !run_app_fst, !events_app.
    simpl in D1, D2, OK.
    apply andb_true_iff in D1 as [Id1 D1]. apply andb_true_iff in D2 as [Id2 D2].
    apply andb_true_iff in OK as [S1 OK].
    assert (S2 : slot_state st2 = true).
    { rewrite <- slot_state_erase, <- E, slot_state_erase. exact S1. }
    destruct (slot_stable st1 d1 S1 Id1) as [A1 A2].
    destruct (slot_stable st2 d2 S2 Id2) as [B1 B2].
    rewrite A2, B2. simpl.
    apply IH; try assumption.
    + congruence.
    + rewrite (slots_ok_sim r1 _ st1 A1). exact OK.
Qed.

Lemma events_flush st : events (flush st) = [].
Proof. destruct st; reflexivity. Qed.

Lemma skeleton_run s : skeleton s = events (snd (run (SText []) s)).
Proof.
  unfold skeleton, tokens. destruct (run (SText []) s) as [st ts]. simpl.
  now rewrite events_app, events_flush, app_nil_r.
Qed.

(* TEMPLATE THEOREM: two pages built from the same constant markup, with inert
   data in slots that all lie in character data or in double-quoted attribute
   values, have the same element/attribute skeleton. *)
Theorem template_skeleton ps1 ps2 :
  same_shape ps1 ps2 -> data_inert ps1 = true -> data_inert ps2 = true ->
  slots_ok (SText []) ps1 = true ->
  skeleton (render ps1) = skeleton (render ps2).
Proof.
  intros SH D1 D2 OK. rewrite !skeleton_run.
  apply (template_run ps1 ps2 (SText []) (SText []) eq_refl SH D1 D2 OK).
Qed.

(* the same from any pair of corresponding states, e.g. after a common prefix *)
Theorem template_skeleton_from st ps1 ps2 :
  same_shape ps1 ps2 -> data_inert ps1 = true -> data_inert ps2 = true ->
  slots_ok st ps1 = true ->
  events (snd (run st (render ps1))) = events (snd (run st (render ps2))).
Proof. intros SH D1 D2 OK. apply (template_run ps1 ps2 st st eq_refl SH D1 D2 OK). Qed.

Lemma inert_app a b : inert (a ++ b) = inert a && inert b.
Proof.
  unfold inert. rewrite !mem_N_app, !negb_orb.
  destruct (mem_N LT a), (mem_N LT b), (mem_N DQ a), (mem_N DQ b); reflexivity.
Qed.
