From Coq Require Import Lia.
From PG Require Import Lib.Str Lib.StrFacts Model.ProtoId Gen.Config Model.Detect.
Local Open Scope N_scope.

Section WithWaptop.
Variable waptop : str.

Lemma detect_first_match ps tls req hdrs p :
  detect waptop ps tls req hdrs = Some p <->
  exists pre post, ps = pre ++ p :: post /\ accepts waptop p tls req hdrs = true /\
                   forall q, In q pre -> accepts waptop q tls req hdrs = false.
Proof.
  induction ps as [|a ps IH]; simpl.
  - split; [discriminate|]. intros (pre & post & E & _). destruct pre; discriminate.
  - destruct (accepts waptop a tls req hdrs) eqn:A.
    + split.
      * intros [= <-]. exists [], ps. repeat split; auto. intros q [].
      * intros (pre & post & E & Hp & Hq). destruct pre as [|b pre].
        -- simpl in E. now inversion E.
        -- simpl in E. inversion E; subst. rewrite (Hq b (or_introl eq_refl)) in A. discriminate.
    + rewrite IH. split.
      * intros (pre & post & -> & Hp & Hq). exists (a :: pre), post. repeat split; auto.
        intros q [<-|H]; auto.
      * intros (pre & post & E & Hp & Hq). destruct pre as [|b pre].
        -- simpl in E. inversion E; subst. congruence.
        -- simpl in E. inversion E; subst. exists pre, post. repeat split; auto.
           intros q H. apply Hq. now right.
Qed.

Lemma detect_none ps tls req hdrs :
  detect waptop ps tls req hdrs = None <-> forall q, In q ps -> accepts waptop q tls req hdrs = false.
Proof.
  induction ps as [|a ps IH]; simpl.
  - split; auto. intros _ q [].
  - destruct (accepts waptop a tls req hdrs) eqn:A.
    + split; [discriminate|]. intros H. rewrite (H a (or_introl eq_refl)) in A. discriminate.
    + rewrite IH. split; intros H q; [intros [<-|Hq]; auto | intros Hq; apply H; now right].
Qed.

(* the secure flags generated from the source make tls_ok mean "flag = TLS-ness" for every class *)
Lemma flags_consistent : secure_flag PGemini = true /\ secure_flag PSpartan = false.
Proof. split; vm_compute; reflexivity. Qed.

Lemma tls_ok_flag p tls : tls_ok p tls = true -> secure_flag p = tls.
Proof.
  destruct flags_consistent as [G S].
  destruct p; unfold tls_ok; intros H.
  1,3,4,6-10: apply Bool.eqb_prop; exact H.
  - rewrite G. now subst.
  - rewrite S. destruct tls; [discriminate | reflexivity].
Qed.

Lemma accepts_tls_strict p tls req hdrs :
  accepts waptop p tls req hdrs = true -> secure_flag p = tls.
Proof. unfold accepts. intros H. apply andb_true_iff in H as [H _]. now apply tls_ok_flag. Qed.

Lemma detect_tls_strict ps tls req hdrs p :
  detect waptop ps tls req hdrs = Some p -> secure_flag p = tls.
Proof.
  intros H. apply detect_first_match in H as (pre & post & _ & A & _).
  now apply accepts_tls_strict in A.
Qed.

(* catch-alls make the shipped list total *)
Lemma catchall_accepts p tls req hdrs :
  catch_all p = true -> secure_flag p = tls -> accepts waptop p tls req hdrs = true.
Proof.
  intros C F. destruct p; try discriminate; unfold accepts, tls_ok, shape; rewrite F; now destruct tls.
Qed.

Fixpoint mem_proto (p : proto) (l : list proto) : bool :=
  match l with [] => false | q :: r => proto_eqb p q || mem_proto p r end.
Lemma proto_eqb_eq a b : proto_eqb a b = true -> a = b.
Proof. destruct a, b; simpl; intros H; try discriminate; reflexivity. Qed.
Lemma mem_proto_In p l : mem_proto p l = true -> In p l.
Proof.
  induction l as [|q l IH]; simpl; [discriminate|]. intros H. apply orb_true_iff in H as [H|H].
  - left. symmetry. now apply proto_eqb_eq. - right. auto.
Qed.

Lemma shipped_has_catchalls :
  mem_proto PGopher shipped_protocols = true /\ mem_proto PSGopher shipped_protocols = true /\
  secure_flag PGopher = false /\ secure_flag PSGopher = true.
Proof. repeat split; vm_compute; reflexivity. Qed.

Lemma shipped_total tls req hdrs : detect waptop shipped_protocols tls req hdrs <> None.
Proof.
  intro H. rewrite detect_none in H.
  destruct shipped_has_catchalls as (M1 & M2 & F1 & F2).
  destruct tls.
  - pose proof (H PSGopher (mem_proto_In _ _ M2)) as A.
    rewrite (catchall_accepts PSGopher true req hdrs eq_refl F2) in A. discriminate.
  - pose proof (H PGopher (mem_proto_In _ _ M1)) as A.
    rewrite (catchall_accepts PGopher false req hdrs eq_refl F1) in A. discriminate.
Qed.

(* order: if catch-alls come last, a line that some specific protocol of the list
   accepts is never claimed by a catch-all *)
Lemma catchall_last_specific ps tls req hdrs q p :
  catchall_last ps = true -> In q ps -> catch_all q = false ->
  accepts waptop q tls req hdrs = true ->
  detect waptop ps tls req hdrs = Some p -> catch_all p = false.
Proof.
  induction ps as [|a ps IH]; simpl; intros CL Hq Cq Aq D; [contradiction|].
  apply andb_true_iff in CL as [CL1 CL2].
  destruct (accepts waptop a tls req hdrs) eqn:A.
  - injection D as <-. destruct (catch_all a) eqn:Ca; [|reflexivity].
    destruct Hq as [->|Hq]; [congruence|].
    rewrite forallb_forall in CL1. specialize (CL1 q Hq). rewrite Cq in CL1. simpl in CL1.
    apply negb_true_iff, Bool.eqb_false_iff in CL1.
    apply accepts_tls_strict in A. apply accepts_tls_strict in Aq. congruence.
  - destruct Hq as [->|Hq]; [congruence|]. eapply IH; eauto.
Qed.

Lemma shipped_catchall_last : catchall_last shipped_protocols = true.
Proof. vm_compute. reflexivity. Qed.

End WithWaptop.

(* the pinned Gopher+ test raises on an empty field: "foo<TAB>" *)
Lemma pinned_empty_field_raises :
  detect_pinned shipped_waptop shipped_protocols false [102;111;111;9;13;10] [] = Raised.
Proof. vm_compute. reflexivity. Qed.

Lemma sniff_spec b : sniff_tls b = true <-> b = 22.
Proof. unfold sniff_tls. apply N.eqb_eq. Qed.
Lemma peek_consumes_nothing q : snd (peek q) = q.
Proof. destruct q; reflexivity. Qed.
