(* C08Facts.v — link blocks, .cap overrides and abstracts have their documented effect. *)
From Coq Require Import ZArith Lia Permutation String.
From PG Require Import Lib.Str Lib.StrFacts Lib.Cmp Lib.CmpFacts Lib.Sort Lib.SortFacts Lib.Regex
  Gen.Entrycmp Gen.Ignore Model.Selector Model.DirEntry Model.UMN Model.UMNSpec Model.Dir
  Proofs.DirFacts Proofs.C07Facts Proofs.UMNFacts.
Local Open Scope N_scope.

(* ================= mergeentries: only what the block sets ================= *)
Lemma fold_setea_fields l : forall o,
  let r := fold_left (fun o kv => setea (fst kv) (snd kv) o) l o in
  e_selector r = e_selector o /\ e_type r = e_type o /\ e_name r = e_name o /\ e_host r = e_host o /\
  e_port r = e_port o /\ e_num r = e_num o /\ e_gplus r = e_gplus o.
Proof.
  induction l as [|kv l IH]; intros o; cbn [fold_left]; [repeat split|].
  specialize (IH (setea (fst kv) (snd kv) o)). cbn zeta in IH. exact IH.
Qed.

Definition override {A} (new old : option A) : option A := match new with Some v => Some v | None => old end.

Lemma merge_entries_fields old new :
  let m := merge_entries old new in
  e_selector m = e_selector new /\
  e_type m = override (e_type new) (e_type old) /\
  e_name m = override (e_name new) (e_name old) /\
  e_host m = override (e_host new) (e_host old) /\
  e_port m = override (e_port new) (e_port old) /\
  e_num m = override (e_num new) (e_num old) /\
  e_gplus m = e_gplus old.
Proof.
  unfold merge_entries. cbn zeta.
  match goal with |- context [fold_left ?f ?l ?o] => destruct (fold_setea_fields l o) as (A & B & C & D & E & F & G) end.
  rewrite A, B, C, D, E, F, G. unfold override.
  destruct (e_type new), (e_name new), (e_host new), (e_port new), (e_num new); cbn; repeat split.
Qed.

Lemma merge_entries_ea_none old new : e_ea new = [] -> e_ea (merge_entries old new) = e_ea old.
Proof.
  intros H. unfold merge_entries. rewrite H. cbn [fold_left].
  destruct (e_type new), (e_name new), (e_host new), (e_port new), (e_num new); reflexivity.
Qed.

Lemma merge_entries_ea_one old new k v :
  e_ea new = [(k, v)] -> e_ea (merge_entries old new) = ea_set k v (e_ea old).
Proof.
  intros H. unfold merge_entries. rewrite H. cbn [fold_left fst snd].
  destruct (e_type new), (e_name new), (e_host new), (e_port new), (e_num new); reflexivity.
Qed.

Lemma ea_get_set k v l : ea_get k (ea_set k v l) = Some v.
Proof.
  induction l as [|[k' v'] r IH]; cbn [ea_set ea_get].
  - now rewrite str_eqb_refl.
  - destruct (str_eqb k k') eqn:E; cbn [ea_get]; rewrite ?str_eqb_refl, ?E; trivial.
Qed.

Lemma ea_get_set_other k k' v l : str_eqb k' k = false -> ea_get k' (ea_set k v l) = ea_get k' l.
Proof.
  intros N. induction l as [|[k2 v2] r IH]; cbn [ea_set ea_get].
  - now rewrite N.
  - destruct (str_eqb k k2) eqn:E; cbn [ea_get].
    + apply str_eqb_eq in E. subst k2. now rewrite N.
    + destruct (str_eqb k' k2); trivial.
Qed.

(* ================= one block against a listing ================= *)
Lemma add_block fx le fes :
  le_merge le = false -> merge_link_files fx [le] fes = Ok (fes ++ [(None, le_entry le)]).
Proof. intros H. unfold merge_link_files. cbn [merge_loop]. now rewrite H. Qed.

Lemma override_block fx le fes n :
  le_merge le = true -> dict_lookup fes (e_selector (le_entry le)) = Some n ->
  link_hides fx (e_type (le_entry le)) = false ->
  merge_link_files fx [le] fes = Ok (update_origin n (fun old => merge_entries old (le_entry le)) fes).
Proof. intros M D H. unfold merge_link_files. cbn [merge_loop]. now rewrite M, D, H. Qed.

Lemma update_origin_others n f l oe :
  In oe l -> origin_is n oe = false -> In oe (update_origin n f l).
Proof.
  intros I O. unfold update_origin. apply in_map_iff. exists oe. split; [|exact I]. now rewrite O.
Qed.

Lemma update_origin_length n f l : List.length (update_origin n f l) = List.length l.
Proof. apply map_length. Qed.

Lemma hide_block fx le fes n out :
  NoDup (dir_names fes) ->
  le_merge le = true -> dict_lookup fes (e_selector (le_entry le)) = Some n ->
  link_hides fx (e_type (le_entry le)) = true ->
  merge_link_files fx [le] fes = Ok out ->
  dir_names out = filter (fun m => negb (str_eqb m n)) (dir_names fes).
Proof.
  intros ND M D H R. unfold merge_link_files in R.
  rewrite (merge_loop_names fx _ _ _ _ ND R). apply filter_ext_in'. intros m _.
  unfold hidden_by_link. cbn [existsb]. unfold targets. rewrite M, H, D. cbn [opt_eqb andb].
  rewrite orb_false_r. destruct (str_eqb n m) eqn:E1, (str_eqb m n) eqn:E2; trivial.
  - apply str_eqb_eq in E1. subst. rewrite str_eqb_refl in E2. discriminate.
  - apply str_eqb_eq in E2. subst. rewrite str_eqb_refl in E1. discriminate.
Qed.

(* hiding never fails on the repaired code *)
Lemma hide_block_ok fx le fes n :
  fx_remove_safe fx = true ->
  le_merge le = true -> dict_lookup fes (e_selector (le_entry le)) = Some n ->
  link_hides fx (e_type (le_entry le)) = true ->
  exists out, merge_link_files fx [le] fes = Ok out.
Proof.
  intros S M D H. unfold merge_link_files. cbn [merge_loop]. rewrite M, D, H, S.
  cbn [negb]. destruct (remove_origin n fes); eauto.
Qed.

Lemma link_hides_repaired t : fx_dash_hides repaired = true /\ link_hides repaired t = cap_hides t.
Proof. split; [reflexivity|]. destruct t; reflexivity. Qed.

(* a .cap file whose (first) block says Type=X or Type=- drops the entry *)
Lemma cap_hide plf mode text file ci c rest :
  plf (Some (e_selector (if match mode with
                            | StripNone => false
                            | StripFull => ci_isfile ci
                            | StripNonencoded => ci_isfile ci && negb (ci_encoded ci)
                            end then set_name (extstrip file (ci_exts ci)) (ci_entry ci) else ci_entry ci))) text
    = Ok (c :: rest) ->
  cap_hides (e_type (le_entry c)) = true ->
  umn_append plf mode (Some text) file ci = Ok None.
Proof. intros P H. unfold umn_append. cbn zeta. now rewrite P, H. Qed.

(* ================= what a well-formed block means for a listing ================= *)
Section Blocks.
  Variables (fx : fixes) (base dirsel : str) (b : sblock).
  Hypothesis W : wf_block b = true.
  Let le := default_num fx (spec_lentry base dirsel b).

  Lemma default_num_fields l :
    le_merge (default_num fx l) = le_merge l /\ le_abs (default_num fx l) = le_abs l /\
    e_selector (le_entry (default_num fx l)) = e_selector (le_entry l) /\
    e_type (le_entry (default_num fx l)) = e_type (le_entry l) /\
    e_name (le_entry (default_num fx l)) = e_name (le_entry l) /\
    e_host (le_entry (default_num fx l)) = e_host (le_entry l) /\
    e_port (le_entry (default_num fx l)) = e_port (le_entry l) /\
    e_ea (le_entry (default_num fx l)) = e_ea (le_entry l).
  Proof. unfold default_num. destruct (e_num (le_entry l)); cbn; repeat split. Qed.

  Lemma block_path : exists p, first_some path_of (sb_fields b) = Some p.
  Proof.
    unfold wf_block in W. apply andb_true_iff in W as [_ HP]. now apply has_path.
  Qed.

  (* a block whose Path does not start with ./ (or ~/) adds one entry and touches no other *)
  Lemma block_adds p fes :
    first_some path_of (sb_fields b) = Some p ->
    (forall n, p <> PHere n /\ p <> PTilde n) ->
    merge_link_files fx [le] fes = Ok (fes ++ [(None, le_entry le)]).
  Proof.
    intros EP NP. apply add_block. subst le.
    destruct (default_num_fields (spec_lentry base dirsel b)) as (M & _). rewrite M.
    unfold spec_lentry. rewrite EP. destruct p; cbn; trivial; destruct (NP n); congruence.
  Qed.

  (* Host=+ / Port=+ (or no such line): the entry carries no host / port of its own *)
  Lemma block_plus_host :
    first_some host_of (sb_fields b) = Some HPlus \/ first_some host_of (sb_fields b) = None ->
    e_host (le_entry le) = None.
  Proof.
    intros H. subst le. destruct (default_num_fields (spec_lentry base dirsel b)) as (_ & _ & _ & _ & _ & Hh & _).
    rewrite Hh. unfold spec_lentry. destruct block_path as [p EP]. rewrite EP.
    destruct H as [H|H]; rewrite H; reflexivity.
  Qed.

  Lemma block_plus_port :
    first_some port_of (sb_fields b) = Some PtPlus \/ first_some port_of (sb_fields b) = None ->
    e_port (le_entry le) = None.
  Proof.
    intros H. subst le. destruct (default_num_fields (spec_lentry base dirsel b)) as (_ & _ & _ & _ & _ & _ & Hp & _).
    rewrite Hp. unfold spec_lentry. destruct block_path as [p EP]. rewrite EP.
    destruct H as [H|H]; rewrite H; reflexivity.
  Qed.

  (* a block without Numb= leaves the number of the entry it overrides alone —
     once LinkEntry starts with num = None (D17) *)
  Lemma block_keeps_number old :
    fx_num_unset fx = true -> first_some numb_of (sb_fields b) = None ->
    e_num (merge_entries old (le_entry le)) = e_num old.
  Proof.
    intros F H. destruct (merge_entries_fields old (le_entry le)) as (_ & _ & _ & _ & _ & Hn & _).
    cbn zeta in Hn. rewrite Hn. subst le. unfold default_num, spec_lentry.
    destruct block_path as [p EP]. rewrite EP, H. cbn. rewrite F. reflexivity.
  Qed.

  (* and a block without Abstract= leaves the abstract (e.g. from a sidecar file) alone *)
  Lemma block_keeps_abstract old :
    first_some abstract_of (sb_fields b) = None ->
    e_ea (merge_entries old (le_entry le)) = e_ea old.
  Proof.
    intros H. apply merge_entries_ea_none. subst le.
    destruct (default_num_fields (spec_lentry base dirsel b)) as (_ & _ & _ & _ & _ & _ & _ & He).
    rewrite He. unfold spec_lentry. destruct block_path as [p EP]. rewrite EP, H. reflexivity.
  Qed.

  Lemma block_sets_abstract old a0 a :
    first_some abstract_of (sb_fields b) = Some (a0 :: a) ->
    ea_get EA_ABSTRACT (e_ea (merge_entries old (le_entry le))) = Some (a0 :: a).
  Proof.
    intros H. rewrite (merge_entries_ea_one old (le_entry le) EA_ABSTRACT (a0 :: a)); [apply ea_get_set|].
    subst le. destruct (default_num_fields (spec_lentry base dirsel b)) as (_ & _ & _ & _ & _ & _ & _ & He).
    rewrite He. unfold spec_lentry. destruct block_path as [p EP]. rewrite EP, H. reflexivity.
  Qed.
End Blocks.

(* ================= rendering ================= *)
Lemma render_here host port e nm :
  e_name e = Some nm -> e_host e = None -> e_port e = None ->
  render_line host port e =
  Ok ((match e_type e with Some t => t | None => 48 end) :: nm ++ [TAB] ++ e_selector e ++ [TAB]
      ++ host ++ [TAB] ++ print_Z port ++ (if e_gplus e then [TAB; 43] else []) ++ CRLF).
Proof. intros N H P. unfold render_line. now rewrite N, H, P. Qed.

Lemma render_abstract_lines e a :
  ea_get EA_ABSTRACT (e_ea e) = Some a -> render_abstract e = concat (map info_line (splitlines a)).
Proof. intros H. unfold render_abstract. now rewrite H. Qed.

(* ================= order ================= *)
Lemma ssorted_app_inv {A} (leb : A -> A -> bool) l1 a l2 :
  ssorted leb (l1 ++ a :: l2) -> forall b, In b l2 -> leb a b = true.
Proof.
  induction l1 as [|x r IH]; cbn [app ssorted]; intros [H1 H2] b I.
  - now apply H1.
  - now apply IH.
Qed.

Lemma listing_order plf fx alts mode w enum l l1 a l2 b :
  umn_listing_gen plf fx alts mode w enum = Ok l -> l = l1 ++ a :: l2 -> In b l2 ->
  ekey_cmp (entry_key (snd a)) (entry_key (snd b)) <> Gt.
Proof.
  intros H E I. pose proof (umn_sorted plf fx alts mode w enum l H) as S. rewrite E in S.
  pose proof (ssorted_app_inv oentry_leb l1 a l2 S b I) as L.
  unfold oentry_leb in L. rewrite entry_leb_key in L. unfold leb_of in L.
  intro G. rewrite G in L. discriminate.
Qed.

(* the key in the property's words *)
Lemma key_classes e nm :
  e_name e = Some nm ->
  entry_key e = ((if (0 <? getnum0 e)%Z then 0 else if (getnum0 e =? 0)%Z then 1 else 2), (getnum0 e, nm)).
Proof. intros H. unfold entry_key, num_class. now rewrite H. Qed.

(* ================= MergeLinkFiles vs the reference reading, one block ================= *)
(* ---- one block: MergeLinkFiles = the reference reading's apply_block ---- *)
Definition all_from_dir (fes : list oentry) : bool := forallb (fun oe => negb (isnone (fst oe))) fes.
Definition sel_matches (sel : str) (oe : oentry) : bool := str_eqb (e_selector (snd oe)) sel.

Lemma no_match_fold sel r acc :
  forallb (fun oe => negb (sel_matches sel oe)) r = true ->
  fold_left (fun acc oe => if str_eqb (e_selector (snd oe)) sel then fst oe else acc) r acc = acc.
Proof.
  revert acc. induction r as [|oe r IH]; intros acc H; [reflexivity|].
  cbn [forallb] in H. apply andb_true_iff in H as [H1 H2]. apply negb_true_iff in H1.
  unfold sel_matches in H1. cbn [fold_left]. rewrite H1. now apply IH.
Qed.

Lemma no_match_find sel r :
  forallb (fun oe => negb (sel_matches sel oe)) r = true -> find_target r sel = None.
Proof.
  induction r as [|oe r IH]; intros H; [reflexivity|].
  cbn [forallb] in H. apply andb_true_iff in H as [H1 H2]. apply negb_true_iff in H1.
  unfold sel_matches in H1. unfold find_target. cbn [first_some]. rewrite H1.
  destruct (fst oe); now apply IH.
Qed.

Lemma nodup_sel_no_match oe r :
  NoDup (map (fun x : oentry => e_selector (snd x)) (oe :: r)) ->
  forallb (fun x => negb (sel_matches (e_selector (snd oe)) x)) r = true.
Proof.
  intros ND. inversion ND as [|? ? Hn Hr]. subst. apply forallb_forall. intros x I.
  apply negb_true_iff. unfold sel_matches. apply str_eqb_neq. intro E. apply Hn.
  rewrite <- E. now apply (in_map (fun x : oentry => e_selector (snd x))).
Qed.

Lemma dict_fold_find fes sel : forall acc,
  all_from_dir fes = true -> NoDup (map (fun oe : oentry => e_selector (snd oe)) fes) ->
  fold_left (fun acc oe => if str_eqb (e_selector (snd oe)) sel then fst oe else acc) fes acc =
  match find_target fes sel with Some n => Some n | None => acc end.
Proof.
  induction fes as [|oe r IH]; intros acc A ND; [reflexivity|].
  cbn [all_from_dir forallb] in A. apply andb_true_iff in A as [A1 A2].
  cbn [fold_left]. unfold find_target. cbn [first_some]. fold (find_target r sel).
  destruct (str_eqb (e_selector (snd oe)) sel) eqn:E.
  - apply str_eqb_eq in E. subst sel. pose proof (nodup_sel_no_match oe r ND) as NM.
    rewrite (no_match_fold _ r _ NM). destruct (fst oe) as [n|]; [reflexivity | discriminate].
  - assert (T : match fst oe with Some n => (if false then Some n else None) | None => @None str end = None)
      by (destruct (fst oe); reflexivity).
    rewrite T. apply IH; [exact A2 | now inversion ND].
Qed.

Lemma dict_is_find fes sel :
  all_from_dir fes = true -> NoDup (map (fun oe : oentry => e_selector (snd oe)) fes) ->
  dict_lookup fes sel = find_target fes sel.
Proof.
  intros A ND. unfold dict_lookup. rewrite (dict_fold_find fes sel None A ND).
  destruct (find_target fes sel); reflexivity.
Qed.

Lemma remove_origin_filter n l :
  NoDup (dir_names l) ->
  match remove_origin n l with Some l' => l' | None => l end = filter (fun oe => negb (origin_is n oe)) l.
Proof.
  induction l as [|oe r IH]; intros ND; [reflexivity|]. cbn [remove_origin filter].
  destruct (origin_is n oe) eqn:O; cbn [negb].
  - unfold origin_is in O. destruct oe as [[m|] e]; cbn [fst] in O; [|discriminate].
    apply str_eqb_eq in O. subst m. cbn [dir_names] in ND. inversion ND as [|? ? Hn Hr]. subst.
    symmetry. apply filter_all. intros x Ix. apply negb_true_iff. unfold origin_is.
    destruct x as [[m|] e']; cbn [fst]; [|reflexivity]. apply str_eqb_neq. intro Em. subst m.
    apply Hn. clear - Ix. induction r as [|[[k|] e2] r IH]; cbn [dir_names]; [destruct Ix| |].
    + destruct Ix as [Ix|Ix]; [inversion Ix; now left | right; now apply IH].
    + destruct Ix as [Ix|Ix]; [discriminate | now apply IH].
  - assert (ND' : NoDup (dir_names r)).
    { destruct oe as [[m|] e]; cbn [dir_names] in ND; [now inversion ND | exact ND]. }
    specialize (IH ND'). destruct (remove_origin n r) as [r'|]; cbn [option_map]; now rewrite <- IH.
Qed.

Lemma one_block_is_apply_block fx le fes :
  fx_dash_hides fx = true -> fx_remove_safe fx = true -> fx_hidden_stays fx = true ->
  all_from_dir fes = true -> NoDup (map (fun oe : oentry => e_selector (snd oe)) fes) ->
  NoDup (dir_names fes) ->
  merge_link_files fx (prune fx [] (dict_lookup fes) [le]) fes = Ok (apply_block fes le).
Proof.
  intros Fd Fr Fh A NDs NDn. unfold merge_link_files, apply_block, prune, prune_drops. rewrite Fh.
  cbn [filter mem_str orb].
  assert (H : link_hides fx (e_type (le_entry le)) = spec_hides (e_type (le_entry le))).
  { unfold link_hides, spec_hides, cap_hides. rewrite Fd. destruct (e_type (le_entry le)); reflexivity. }
  rewrite H, (dict_is_find fes _ A NDs).
  destruct (le_merge le) eqn:M; cbn [andb negb merge_loop]; rewrite ?M; cbn [negb]; [|reflexivity].
  destruct (find_target fes (e_selector (le_entry le))) as [n|] eqn:F; cbn [isnone andb negb].
  - cbn [merge_loop]. rewrite M, (dict_is_find fes _ A NDs), F, H. cbn [negb].
    destruct (spec_hides (e_type (le_entry le))); [|reflexivity].
    rewrite Fr. pose proof (remove_origin_filter n fes NDn) as R.
    destruct (remove_origin n fes); now rewrite <- R.
  - destruct (spec_hides (e_type (le_entry le))); cbn [negb merge_loop]; [reflexivity|].
    now rewrite M, (dict_is_find fes _ A NDs), F.
Qed.

(* ================= the two documented discrepancies of the pinned code ================= *)
Definition file_info (sel nm : str) : child_info :=
  mkChild (mkEntry sel (Some 48) (Some nm) None None (Some 0%Z) [] true) true false [].

(* D12: Type=- in a link file *)
Definition d12_world : world :=
  mkWorld (lit "/d"%string) (fun n => Some KFile)
    (fun n => file_info (lit "/d/"%string ++ n) n)
    (fun n => if str_eqb n (lit ".names"%string) then Some (lit "Path=./b.txt
Type=-
"%string) else None)
    (fun n => None).
Definition d12_enum : list str := [lit ".names"%string; lit "a.txt"%string; lit "b.txt"%string].

Lemma dash_refuted :
  exists l, umn_listing pinned shipped_ignore StripNone d12_world d12_enum = Ok l /\
            dir_names l = [lit "a.txt"%string; lit "b.txt"%string].
Proof. eexists. split; vm_compute; reflexivity. Qed.

Lemma dash_repaired :
  exists l, umn_listing repaired shipped_ignore StripNone d12_world d12_enum = Ok l /\
            dir_names l = [lit "a.txt"%string].
Proof. eexists. split; vm_compute; reflexivity. Qed.

(* D17: .cap numbers the entry, a .names block without Numb= follows *)
Definition d17_world : world :=
  mkWorld (lit "/d"%string) (fun n => Some KFile)
    (fun n => file_info (lit "/d/"%string ++ n) n)
    (fun n => if str_eqb n (lit ".names"%string) then Some (lit "Path=./b.txt
Name=Bee
"%string) else None)
    (fun n => if str_eqb n (lit "b.txt"%string) then Some (lit "Numb=7
"%string) else None).
Definition d17_enum : list str := [lit ".names"%string; lit "b.txt"%string].

Lemma numb_reset_refuted :
  exists l, umn_listing pinned shipped_ignore StripNone d17_world d17_enum = Ok l /\
            map (fun oe => (e_name (snd oe), e_num (snd oe))) l = [(Some (lit "Bee"%string), Some 0%Z)].
Proof. eexists. split; vm_compute; reflexivity. Qed.

Lemma numb_kept_repaired :
  exists l, umn_listing repaired shipped_ignore StripNone d17_world d17_enum = Ok l /\
            map (fun oe => (e_name (snd oe), e_num (snd oe))) l = [(Some (lit "Bee"%string), Some 7%Z)].
Proof. eexists. split; vm_compute; reflexivity. Qed.

(* D21: two blocks hiding the same file *)
Definition d21_world : world :=
  mkWorld (lit "/d"%string) (fun n => Some KFile)
    (fun n => file_info (lit "/d/"%string ++ n) n)
    (fun n => if str_eqb n (lit ".names"%string) then Some (lit "Type=X
Path=./b.txt

Type=X
Path=./b.txt
"%string) else None)
    (fun n => None).

Lemma double_hide_refuted :
  umn_listing pinned shipped_ignore StripNone d21_world d12_enum = Raise ValueError /\
  exists l, umn_listing repaired shipped_ignore StripNone d21_world d12_enum = Ok l /\
            dir_names l = [lit "a.txt"%string].
Proof. split; [vm_compute; reflexivity|]. eexists. split; vm_compute; reflexivity. Qed.

(* non-vacuity: the manual's own example is a well-formed link file and reads as documented *)
Definition cheese : sblock :=
  mkSBlock [] [FName (lit "Cheese Ball Recipes"%string); FNumb false (lit "1"%string); FType 49;
               FPort (PtNum (lit "150"%string)); FPath (PRel (lit "1/Moo/Cheesy"%string));
               FHost (HName (lit "zippy.micro.umn.edu"%string))] [] [Some (lit " links of this directory"%string); None].
Definition cool : sblock :=
  mkSBlock [lit " a comment"%string]
           [FName (lit "Cool web site"%string); FType 104; FPath (PAbs (lit "URL:http://hostname"%string));
            FHost HPlus; FPort PtPlus; FAbstract [lit "two"%string] (lit "lines"%string)] [9] [None; None].
(* indented by one blank, exactly as the manual prints it under HIDING AN ENTRY *)
Definition fred_hidden : sblock := mkSBlock [] [FType 88; FPath (PHere (lit "fred"%string))] [32] [].

Lemma example_wf : wf_linkfile [cheese; cool; fred_hidden] = true.
Proof. vm_compute. reflexivity. Qed.

Lemma example_parse :
  process_link_file repaired (lit "/d"%string) (lit "/d"%string) None (render_linkfile [cheese; cool; fred_hidden]) =
  Ok [mkLentry (mkEntry (lit "1/Moo/Cheesy"%string) (Some 49) (Some (lit "Cheese Ball Recipes"%string))
                        (Some (lit "zippy.micro.umn.edu"%string)) (Some 150%Z) (Some 1%Z) [] false) false true;
      mkLentry (mkEntry (lit "/URL:http://hostname"%string) (Some 104) (Some (lit "Cool web site"%string))
                        None None None [(EA_ABSTRACT, lit "two
lines"%string)] false) false false;
      mkLentry (mkEntry (lit "/d/fred"%string) (Some 88) None None None None [] false) true false].
Proof. vm_compute. reflexivity. Qed.

(* ================= MergeLinkFiles vs the reference reading, any list of blocks ================= *)
(* ---- a whole list of blocks: MergeLinkFiles = the reference reading ---- *)
(* (name, selector) of the directory entries of a listing, in order *)
Fixpoint dir_sels (l : list oentry) : list (str * str) :=
  match l with
  | [] => []
  | (Some n, e) :: r => (n, e_selector e) :: dir_sels r
  | (None, _) :: r => dir_sels r
  end.

Lemma dir_sels_names l : map fst (dir_sels l) = dir_names l.
Proof. induction l as [|[[n|] e] r IH]; cbn; [reflexivity| |exact IH]. now rewrite IH. Qed.

Lemma dir_sels_app a b : dir_sels (a ++ b) = dir_sels a ++ dir_sels b.
Proof. induction a as [|[[n|] e] r IH]; cbn; [reflexivity| |exact IH]. now rewrite IH. Qed.

Definition sel_hit (sel : str) (p : str * str) : option str :=
  if str_eqb (snd p) sel then Some (fst p) else None.

Lemma find_target_sels l sel : find_target l sel = first_some (sel_hit sel) (dir_sels l).
Proof.
  unfold find_target. induction l as [|[[n|] e] r IH]; cbn [first_some dir_sels fst snd]; [reflexivity| |exact IH].
  unfold sel_hit at 1. cbn [fst snd]. destruct (str_eqb (e_selector e) sel); [reflexivity | exact IH].
Qed.

Lemma dir_sels_all_from_dir l : all_from_dir l = true ->
  map snd (dir_sels l) = map (fun oe : oentry => e_selector (snd oe)) l.
Proof.
  induction l as [|[[n|] e] r IH]; cbn; intros H; [reflexivity| |discriminate]. now rewrite IH.
Qed.

Lemma dir_sels_filter_origin n l :
  dir_sels (filter (fun oe => negb (origin_is n oe)) l) = filter (fun p => negb (str_eqb (fst p) n)) (dir_sels l).
Proof.
  induction l as [|[[m|] e] r IH]; cbn [filter dir_sels]; [reflexivity| |].
  - unfold origin_is at 1. cbn [fst]. destruct (str_eqb m n); cbn [negb dir_sels filter fst]; now rewrite IH.
  - unfold origin_is at 1. cbn [fst negb dir_sels]. exact IH.
Qed.

(* updating the entry of n with something that keeps its selector *)
Lemma dir_sels_update n f l :
  (forall m e, In (Some m, e) l -> str_eqb m n = true -> e_selector (f e) = e_selector e) ->
  dir_sels (update_origin n f l) = dir_sels l.
Proof.
  intros H. induction l as [|[[m|] e] r IH]; cbn [update_origin map dir_sels]; [reflexivity| |].
  - unfold origin_is at 1. cbn [fst]. destruct (str_eqb m n) eqn:E; cbn [dir_sels fst snd].
    + rewrite (H m e (or_introl eq_refl) E). f_equal. apply IH. intros m' e' I. apply H. now right.
    + f_equal. apply IH. intros m' e' I. apply H. now right.
  - unfold origin_is at 1. cbn [fst dir_sels]. apply IH. intros m' e' I. apply H. now right.
Qed.

Lemma in_dir_sels l n e : In (Some n, e) l -> In (n, e_selector e) (dir_sels l).
Proof.
  induction l as [|[[m|] e'] r IH]; cbn; intros H; [destruct H| |].
  - destruct H as [H|H]; [inversion H; now left | right; now apply IH].
  - destruct H as [H|H]; [discriminate | now apply IH].
Qed.

Lemma first_some_hit_in sel l n : first_some (sel_hit sel) l = Some n -> In (n, sel) l.
Proof.
  induction l as [|[m s] r IH]; cbn [first_some]; [discriminate|]. unfold sel_hit at 1. cbn [fst snd].
  destruct (str_eqb s sel) eqn:E.
  - intros H. inversion H. subst. apply str_eqb_eq in E. subst. now left.
  - intros H. right. now apply IH.
Qed.

Lemma first_some_none_notin sel l : first_some (sel_hit sel) l = None -> forall n, ~ In (n, sel) l.
Proof.
  induction l as [|[m s] r IH]; cbn [first_some]; intros H n I; [destruct I|]. unfold sel_hit at 1 in H. cbn [fst snd] in H.
  destruct (str_eqb s sel) eqn:E; [discriminate|]. destruct I as [I|I].
  - inversion I. subst. rewrite str_eqb_refl in E. discriminate.
  - now apply (IH H n).
Qed.

Lemma nodup_fst_unique {A B} (l : list (A * B)) a b1 b2 :
  NoDup (map fst l) -> In (a, b1) l -> In (a, b2) l -> b1 = b2.
Proof.
  induction l as [|[x y] r IH]; cbn; intros ND I1 I2; [destruct I1|].
  inversion ND as [|? ? Hn Hr]. subst.
  destruct I1 as [I1|I1], I2 as [I2|I2].
  - congruence.
  - inversion I1. subst. exfalso. apply Hn. now apply (in_map fst _ (a, b2)).
  - inversion I2. subst. exfalso. apply Hn. now apply (in_map fst _ (a, b1)).
  - now apply IH.
Qed.

Lemma nodup_snd_unique {A B} (l : list (A * B)) a1 a2 b :
  NoDup (map snd l) -> In (a1, b) l -> In (a2, b) l -> a1 = a2.
Proof.
  induction l as [|[x y] r IH]; cbn; intros ND I1 I2; [destruct I1|].
  inversion ND as [|? ? Hn Hr]. subst.
  destruct I1 as [I1|I1], I2 as [I2|I2].
  - congruence.
  - inversion I1. subst. exfalso. apply Hn. now apply (in_map snd _ (a2, b)).
  - inversion I2. subst. exfalso. apply Hn. now apply (in_map snd _ (a1, b)).
  - now apply IH.
Qed.

Lemma first_some_filter {A B} (g : A -> option B) (q : A -> bool) l :
  (forall x, g x <> None -> q x = true) -> first_some g (filter q l) = first_some g l.
Proof.
  intros H. induction l as [|x r IH]; [reflexivity|]. cbn [filter first_some].
  destruct (q x) eqn:Q; cbn [first_some].
  - now rewrite IH.
  - destruct (g x) eqn:G; [|exact IH]. rewrite H in Q; [discriminate | congruence].
Qed.

Lemma update_origin_absent n f l : ~ In n (dir_names l) -> update_origin n f l = l.
Proof.
  induction l as [|[[m|] e] r IH]; cbn [update_origin map dir_names]; intros H; [reflexivity| |].
  - unfold origin_is at 1. cbn [fst]. destruct (str_eqb m n) eqn:E.
    + apply str_eqb_eq in E. subst. exfalso. apply H. now left.
    + f_equal. apply IH. intro I. apply H. now right.
  - unfold origin_is at 1. cbn [fst]. f_equal. now apply IH.
Qed.

Lemma filter_origin_absent n l : ~ In n (dir_names l) -> filter (fun oe => negb (origin_is n oe)) l = l.
Proof.
  intros H. apply filter_all. intros [[m|] e] I; unfold origin_is; cbn [fst]; [|reflexivity].
  apply negb_true_iff, str_eqb_neq. intro E. subst. apply H.
  rewrite <- dir_sels_names. apply (in_map fst _ (n, e_selector e)). now apply in_dir_sels.
Qed.

Section Blocks.
  Variable fx : fixes.
  Hypothesis Fd : fx_dash_hides fx = true.
  Hypothesis Fr : fx_remove_safe fx = true.
  Hypothesis Fh : fx_hidden_stays fx = true.
  Variable fes0 : list oentry.
  Hypothesis A0 : all_from_dir fes0 = true.
  Hypothesis NDs : NoDup (map (fun oe : oentry => e_selector (snd oe)) fes0).
  Hypothesis NDn : NoDup (dir_names fes0).
  (* the files their .cap file has hidden: none of them is in the listing *)
  Variable dropped : list str.
  Hypothesis Dr : forall s, In s dropped -> dict_lookup fes0 s = None.

  Let S0 := dir_sels fes0.
  Let dict0 := dict_lookup fes0.
  Notation PR := (prune fx dropped dict0).

  Lemma S0_nodup_fst : NoDup (map fst S0).
  Proof. unfold S0. now rewrite dir_sels_names. Qed.
  Lemma S0_nodup_snd : NoDup (map snd S0).
  Proof. unfold S0. now rewrite (dir_sels_all_from_dir _ A0). Qed.

  Lemma dict0_is sel : dict0 sel = first_some (sel_hit sel) S0.
  Proof. unfold dict0. rewrite (dict_is_find fes0 sel A0 NDs). apply find_target_sels. Qed.

  Lemma prune_cons le r :
    PR (le :: r) = if prune_drops fx dropped dict0 le then PR r else le :: PR r.
  Proof. unfold prune. rewrite Fh. cbn [filter]. destruct (prune_drops fx dropped dict0 le); reflexivity. Qed.

  (* the state of the loop: the directory entries still present are those of the
     start whose selector has not been hidden, with unchanged selectors *)
  Definition inv (cur : list oentry) (H : list str) : Prop :=
    dir_sels cur = filter (fun p => negb (mem_str (snd p) H)) S0 /\
    (forall sel, In sel H -> (exists n, In (n, sel) S0) \/ In sel dropped).

  Lemma inv_names_nodup cur H : inv cur H -> NoDup (dir_names cur).
  Proof.
    intros [E _]. rewrite <- dir_sels_names, E.
    assert (G : forall (l : list (str * str)) q, NoDup (map fst l) -> NoDup (map fst (filter q l))).
    { induction l as [|x r IH]; intros q ND; [constructor|]. cbn [filter]. inversion ND as [|? ? Hn Hr]. subst.
      destruct (q x); [|now apply IH]. cbn [map]. constructor; [|now apply IH].
      intro I. apply Hn. apply in_map_iff in I as (y & Ey & Iy). apply filter_In in Iy as [Iy _].
      rewrite <- Ey. now apply in_map. }
    apply G, S0_nodup_fst.
  Qed.

  Lemma inv_find cur H sel : inv cur H -> mem_str sel H = false ->
    find_target cur sel = dict0 sel.
  Proof.
    intros [E _] M. rewrite find_target_sels, E, dict0_is. apply first_some_filter.
    intros [m s]. unfold sel_hit. cbn [fst snd]. destruct (str_eqb s sel) eqn:Es; [|congruence].
    intros _. apply str_eqb_eq in Es. subst. now rewrite M.
  Qed.

  Lemma inv_hidden_absent cur H sel n : inv cur H -> mem_str sel H = true ->
    dict0 sel = Some n -> ~ In n (dir_names cur).
  Proof.
    intros [E _] M D I. rewrite dict0_is in D. apply first_some_hit_in in D.
    rewrite <- dir_sels_names, E in I. apply in_map_iff in I as ([m s] & Em & Im). cbn in Em. subst m.
    apply filter_In in Im as [Im Q]. cbn [snd] in Q.
    assert (s = sel) by (eapply nodup_fst_unique; [apply S0_nodup_fst | exact Im | exact D]). subst.
    rewrite M in Q. discriminate.
  Qed.

  Lemma inv_hidden_no_target cur H sel : inv cur H -> mem_str sel H = true -> dict0 sel = None ->
    mem_str sel dropped = true.
  Proof.
    intros [_ T] M D. apply mem_str_In in M. destruct (T sel M) as [[n I]|I]; [|now apply mem_str_In].
    exfalso. rewrite dict0_is in D. exact (first_some_none_notin sel S0 D n I).
  Qed.

  Lemma step_ok le cur H :
    inv cur H -> (forall s, In s dropped -> In s H) ->
    exists cur', (forall r, merge_loop fx dict0 (PR (le :: r)) cur = merge_loop fx dict0 (PR r) cur') /\
                 apply_block_h (cur, H) le = (cur', snd (apply_block_h (cur, H) le)) /\
                 inv cur' (snd (apply_block_h (cur, H) le)) /\
                 (forall s, In s dropped -> In s (snd (apply_block_h (cur, H) le))).
  Proof.
    intros I Sub. unfold apply_block_h. cbn [fst snd]. setoid_rewrite prune_cons. unfold prune_drops.
    destruct (le_merge le) eqn:M; cbn [negb andb].
    2:{ exists (cur ++ [(None, le_entry le)]). split; [intros r; cbn [merge_loop]; now rewrite M|].
        split; [reflexivity|]. split; [|exact Sub].
        destruct I as [E T]. split; [|exact T]. rewrite dir_sels_app. cbn. now rewrite app_nil_r. }
    set (e := le_entry le). set (sel := e_selector e).
    assert (LH : link_hides fx (e_type e) = spec_hides (e_type e)).
    { unfold link_hides, spec_hides, cap_hides. rewrite Fd. destruct (e_type e); reflexivity. }
    rewrite LH.
    destruct (mem_str sel H) eqn:MH.
    - (* the path has been hidden before: nothing happens *)
      exists cur. split; [|split; [reflexivity | split; [exact I | exact Sub]]].
      intros r. destruct (dict0 sel) as [n|] eqn:D; cbn [isnone andb].
      + cbn [merge_loop]. rewrite M. fold e. fold sel. rewrite D. cbn [negb].
        pose proof (inv_hidden_absent cur H sel n I MH D) as NA.
        rewrite LH. destruct (spec_hides (e_type e)).
        * pose proof (remove_origin_filter n cur (inv_names_nodup cur H I)) as R.
          rewrite (filter_origin_absent n cur NA) in R. rewrite Fr.
          destruct (remove_origin n cur); [now rewrite R | reflexivity].
        * now rewrite (update_origin_absent n _ cur NA).
      + rewrite (inv_hidden_no_target cur H sel I MH D). reflexivity.
    - assert (ND : mem_str sel dropped = false).
      { apply not_true_is_false. intro T. apply mem_str_In in T. apply Sub in T. apply mem_str_In in T. congruence. }
      rewrite ND, (inv_find cur H sel I MH). cbn [orb].
      destruct (dict0 sel) as [n|] eqn:D; cbn [isnone andb].
      2:{ destruct (spec_hides (e_type e)).
          - exists cur. split; [reflexivity|]. split; [reflexivity|]. split; [exact I | exact Sub].
          - exists (cur ++ [(None, e)]). split; [intros r; cbn [merge_loop]; fold e; fold sel; now rewrite M, D|].
            split; [reflexivity|]. split; [|exact Sub].
            destruct I as [E T]. split; [|exact T]. rewrite dir_sels_app. cbn. now rewrite app_nil_r. }
      pose proof D as D'. rewrite dict0_is in D'. apply first_some_hit_in in D'.
      destruct (spec_hides (e_type e)) eqn:SH.
      + exists (filter (fun oe => negb (origin_is n oe)) cur). split; [|split; [reflexivity|split]].
        * intros r. cbn [merge_loop]. fold e. fold sel. rewrite M, D, LH. cbn [negb].
          pose proof (remove_origin_filter n cur (inv_names_nodup cur H I)) as R. rewrite Fr.
          destruct (remove_origin n cur); now rewrite <- R.
        * destruct I as [E T]. cbn [snd]. split.
          -- rewrite dir_sels_filter_origin, E, filter_filter. apply filter_ext_in'.
             intros [m s] Im. cbn [fst snd mem_str].
             destruct (str_eqb m n) eqn:E1, (str_eqb s sel) eqn:E2; cbn; try reflexivity.
             ++ destruct (mem_str s H); reflexivity.
             ++ apply str_eqb_eq in E1. subst m.
                assert (s = sel) by (eapply nodup_fst_unique; [apply S0_nodup_fst | exact Im | exact D']). subst.
                rewrite str_eqb_refl in E2. discriminate.
             ++ apply str_eqb_eq in E2. subst s.
                assert (m = n) by (eapply nodup_snd_unique; [apply S0_nodup_snd | exact Im | exact D']). subst.
                rewrite str_eqb_refl in E1. discriminate.
             ++ now rewrite andb_true_r.
          -- intros s [<-|Is]; [left; eauto | now apply T].
        * intros s Is. right. now apply Sub.
      + exists (update_origin n (fun old => merge_entries old e) cur).
        split; [intros r; cbn [merge_loop]; fold e; fold sel; now rewrite M, D, LH|].
        split; [reflexivity|]. split; [|exact Sub].
        destruct I as [E T]. cbn [snd]. split; [|exact T]. rewrite <- E. apply (dir_sels_update n _ cur).
        intros m e' Im Em. apply str_eqb_eq in Em. subst m.
        destruct (merge_entries_fields e' e) as (Hs & _). cbn zeta in Hs. rewrite Hs. fold sel.
        pose proof (in_dir_sels cur n e' Im) as Id. rewrite E in Id. apply filter_In in Id as [Id _].
        eapply nodup_fst_unique; [apply S0_nodup_fst | exact D' | exact Id].
  Qed.

  Lemma loop_is_reading ls : forall cur H, inv cur H -> (forall s, In s dropped -> In s H) ->
    merge_loop fx dict0 (PR ls) cur = Ok (fst (fold_left apply_block_h ls (cur, H))).
  Proof.
    induction ls as [|le r IH]; intros cur H I Sub.
    - unfold prune. rewrite Fh. reflexivity.
    - destruct (step_ok le cur H I Sub) as (cur' & Hm & Hs & I' & Sub'). rewrite Hm. cbn [fold_left]. rewrite Hs.
      now apply IH.
  Qed.

  Theorem merge_is_apply_entries ls :
    merge_link_files fx (prune fx dropped (dict_lookup fes0) ls) fes0 = Ok (apply_entries_from dropped ls fes0).
  Proof.
    unfold merge_link_files, apply_entries_from. apply loop_is_reading; [|trivial]. split.
    - symmetry. apply filter_all. intros [m s] Im. cbn [snd]. apply negb_true_iff, not_true_is_false.
      intro T. apply mem_str_In in T. apply Dr in T. fold dict0 in T. rewrite dict0_is in T.
      exact (first_some_none_notin s S0 T m Im).
    - intros sel Is. now right.
  Qed.
End Blocks.

(* when no two blocks address the same file the set of hidden paths is never consulted *)
Definition merge_sels (ls : list lentry) : list str :=
  map (fun le => e_selector (le_entry le)) (filter le_merge ls).

Lemma apply_entries_distinct ls : forall fes H,
  NoDup (merge_sels ls) -> (forall s, In s H -> ~ In s (merge_sels ls)) ->
  fst (fold_left apply_block_h ls (fes, H)) = fold_left apply_block ls fes.
Proof.
  induction ls as [|le r IH]; intros fes H ND D; [reflexivity|]. cbn [fold_left].
  unfold apply_block_h at 2, apply_block at 2. cbn [fst snd].
  unfold merge_sels in ND, D. cbn [filter] in ND, D.
  destruct (le_merge le) eqn:M.
  - cbn [map] in ND, D. inversion ND as [|? ? Hn Hr]. subst.
    assert (MH : mem_str (e_selector (le_entry le)) H = false).
    { apply not_true_is_false. intro T. apply mem_str_In in T. apply (D _ T). now left. }
    rewrite MH.
    destruct (find_target fes (e_selector (le_entry le))) as [n|].
    + destruct (spec_hides (e_type (le_entry le))).
      * apply IH; [exact Hr|]. intros s [<-|Is]; [exact Hn|]. intro I. apply (D s Is). now right.
      * apply IH; [exact Hr|]. intros s Is I. apply (D s Is). now right.
    + destruct (spec_hides (e_type (le_entry le))); (apply IH; [exact Hr|]; intros s Is I; apply (D s Is); now right).
  - apply IH; [exact ND | exact D].
Qed.

Lemma default_num_id fx le : fx_num_unset fx = true -> default_num fx le = le.
Proof.
  intros F. unfold default_num. destruct le as [[s t n h p nu ea g] m a]. cbn.
  destruct nu; [reflexivity|]. rewrite F. reflexivity.
Qed.

(* from the text of a well-formed link file to the listing: the repaired handler
   does to the directory entries exactly what the reference reading says *)
Theorem blocks_are_reference_reading fx base dirsel lf fes :
  fx_dash_hides fx = true -> fx_remove_safe fx = true -> fx_num_unset fx = true -> fx_hidden_stays fx = true ->
  wf_linkfile lf = true ->
  all_from_dir fes = true -> NoDup (map (fun oe : oentry => e_selector (snd oe)) fes) -> NoDup (dir_names fes) ->
  exists ls, process_link_file fx base dirsel None (render_linkfile lf) = Ok ls /\
             merge_link_files fx (prune fx [] (dict_lookup fes) ls) fes = Ok (apply_blocks base dirsel lf fes).
Proof.
  intros Fd Fr Fn Fh W A NDs NDn. eexists. split; [apply parse_wf_blocks, W|].
  rewrite (merge_is_apply_entries fx Fd Fr Fh fes A NDs NDn []) by (intros s []).
  unfold apply_blocks, apply_entries. f_equal. f_equal.
  apply map_ext. intros b. now apply default_num_id.
Qed.

Theorem blocks_distinct_files fx ls fes :
  fx_dash_hides fx = true -> fx_remove_safe fx = true -> fx_hidden_stays fx = true ->
  all_from_dir fes = true -> NoDup (map (fun oe : oentry => e_selector (snd oe)) fes) -> NoDup (dir_names fes) ->
  NoDup (merge_sels ls) ->
  merge_link_files fx (prune fx [] (dict_lookup fes) ls) fes = Ok (fold_left apply_block ls fes).
Proof.
  intros Fd Fr Fh A NDs NDn ND. rewrite (merge_is_apply_entries fx Fd Fr Fh fes A NDs NDn []) by (intros s []).
  f_equal. unfold apply_entries_from. apply apply_entries_distinct; [exact ND | intros s []].
Qed.

(* non-vacuity: hide first, title later (stays hidden); title first, hide later *)
Definition ex_fes : list oentry :=
  [(Some (lit "a.txt"%string), ci_entry (file_info (lit "/d/a.txt"%string) (lit "a.txt"%string)));
   (Some (lit "fred"%string), ci_entry (file_info (lit "/d/fred"%string) (lit "fred"%string)))].
Definition fred_titled : sblock :=
  mkSBlock [] [FPath (PHere (lit "fred"%string)); FName (lit "Fred again"%string)] [] [None; Some []; Some (lit "note"%string); None].
Definition a_titled : sblock :=
  mkSBlock [] [FName (lit "Alpha"%string); FPath (PTilde (lit "a.txt"%string)); FNumb false (lit "2"%string)] [32; 9] [].

Lemma example_blocks :
  wf_linkfile [fred_hidden; fred_titled; a_titled; cool] = true /\
  map (fun oe => (fst oe, e_name (snd oe), e_num (snd oe)))
      (apply_blocks (lit "/d"%string) (lit "/d"%string) [fred_hidden; fred_titled; a_titled; cool] ex_fes) =
  [(Some (lit "a.txt"%string), Some (lit "Alpha"%string), Some 2%Z);
   (None, Some (lit "Cool web site"%string), None)] /\
  all_from_dir ex_fes = true.
Proof. vm_compute. repeat split; reflexivity. Qed.

(* ================= end to end: the UMN listing IS the reference reading ================= *)
Lemma all_from_dir_tag l : all_from_dir (tag_origin l) = true.
Proof. induction l as [|[n e] r IH]; [reflexivity|]. cbn. exact IH. Qed.

Lemma child_sel_inj w a b : child_sel w a = child_sel w b -> a = b.
Proof. unfold child_sel. intros H. apply app_inv_head in H. now inversion H. Qed.

Lemma cap_dropped_in plf mode w names s :
  In s (cap_dropped plf mode w names) ->
  exists n ci, In n names /\ child_entry w n = Ok ci /\ umn_append plf mode (w_cap w n) n ci = Ok None /\
               s = e_selector (ci_entry ci).
Proof.
  unfold cap_dropped. intros H. apply in_flat_map in H as (n & I & H). exists n.
  destruct (child_entry w n) as [ci|] eqn:C; [|destruct H]. exists ci.
  destruct (umn_append plf mode (w_cap w n) n ci) as [[e|]|] eqn:A.
  - destruct H.
  - destruct H as [H|[]]. repeat split; trivial. now symmetry.
  - destruct H.
Qed.

Section EndToEnd.
  Variable plf : option str -> str -> result (list lentry).
  Variables (fx : fixes) (alts : list alt) (mode : stripmode) (w : world).
  Hypothesis Fd : fx_dash_hides fx = true.
  Hypothesis Fr : fx_remove_safe fx = true.
  Hypothesis Fh : fx_hidden_stays fx = true.
  (* every child is reported under its own selector, and no .cap file moves it elsewhere *)
  Hypothesis Hsel : forall n ci, child_entry w n = Ok ci -> e_selector (ci_entry ci) = child_sel w n.
  Hypothesis Hcap : forall n e, umn_child plf mode w n = Ok (Some e) -> e_selector e = child_sel w n.

  Theorem listing_is_reference_reading enum l :
    NoDup enum -> umn_listing_gen plf fx alts mode w enum = Ok l ->
    exists files links fes,
      umn_scan plf fx alts w (enum_order fx enum) [] [] = Ok (files, links) /\
      prep_entries (skip_of fx) (umn_child plf mode w) (sort_names files) = Ok fes /\
      l = isort oentry_leb
            (apply_entries_from (cap_dropped plf mode w (sort_names files)) links (tag_origin fes)).
  Proof.
    intros ND H. unfold umn_listing_gen in H.
    destruct (umn_scan plf fx alts w (enum_order fx enum) [] []) as [[files links]|] eqn:S; simpl in H; [|discriminate].
    pose proof (umn_scan_files plf fx alts w _ _ _ _ _ S) as Ef. simpl in Ef.
    destruct (prep_entries _ _ _) as [fes|] eqn:P; simpl in H; [|discriminate].
    exists files, links, fes. split; [reflexivity|]. split; [exact P|].
    pose proof (prep_entries_names _ _ _ _ P) as Nm.
    assert (NDf : NoDup (map fst fes)).
    { rewrite Nm. subst files. apply NoDup_filter', sort_names_NoDup, NoDup_filter'.
      eapply Permutation_NoDup; [apply enum_order_perm | exact ND]. }
    assert (Sel : forall n e, In (n, e) fes -> e_selector e = child_sel w n).
    { intros n e I. apply Hcap. now destruct (prep_entries_In _ _ _ _ _ _ P I). }
    assert (Sels : map (fun oe : oentry => e_selector (snd oe)) (tag_origin fes) = map (child_sel w) (map fst fes)).
    { clear - Sel. induction fes as [|[n e] r IH]; [reflexivity|]. cbn.
      rewrite (Sel n e (or_introl eq_refl)). f_equal. apply IH. intros n' e' I. apply Sel. now right. }
    assert (NDsel : NoDup (map (fun oe : oentry => e_selector (snd oe)) (tag_origin fes))).
    { rewrite Sels. apply FinFun.Injective_map_NoDup; [|exact NDf]. intros a b. apply child_sel_inj. }
    assert (NDn : NoDup (dir_names (tag_origin fes))) by now rewrite dir_names_tag.
    rewrite (merge_is_apply_entries fx Fd Fr Fh (tag_origin fes) (all_from_dir_tag fes) NDsel NDn) in H.
    - simpl in H. now inversion H.
    - intros s Is. apply cap_dropped_in in Is as (n & ci & In_ & C & A & ->).
      destruct (dict_lookup (tag_origin fes) (e_selector (ci_entry ci))) as [m|] eqn:D; [|reflexivity]. exfalso.
      rewrite (dict_is_find _ _ (all_from_dir_tag fes) NDsel), find_target_sels in D.
      apply first_some_hit_in in D.
      assert (Im : exists e, In (m, e) fes /\ e_selector e = e_selector (ci_entry ci)).
      { clear - D. induction fes as [|[k e] r IH]; [destruct D|]. cbn in D. destruct D as [D|D].
        - inversion D. subst. exists e. split; [now left | reflexivity].
        - destruct (IH D) as (e' & I & E). exists e'. split; [now right | exact E]. }
      destruct Im as (e & Ie & Ee). rewrite (Sel m e Ie), (Hsel n ci C) in Ee. apply child_sel_inj in Ee. subst m.
      destruct (prep_entries_In _ _ _ _ _ _ P Ie) as [_ Cn]. unfold umn_child in Cn. rewrite C in Cn. simpl in Cn.
      rewrite A in Cn. discriminate.
  Qed.
End EndToEnd.
