(* Lemmas for C19.  `prog` is Gen/Init.v, the IR translated from the current
   pygopherd/initialization.py on every run; `prog_pinned` is the translation of
   the pinned tree.  The domain (configurations x single failures) is finite, the
   facts about it are established by computation in the kernel (vm_compute) and
   lifted to quantified statements by forallb_forall; the readings of the boolean
   trace predicates as statements about positions in the trace are proved by
   induction.  Lemmas about a run are always stated for an abstract outcome
   first and then applied, so that the kernel never has to unfold the
   interpreter on a symbolic configuration. *)
(* every command of this file is bounded (the largest, one kernel evaluation of the
   whole finite domain, takes ~12 s) *)
Set Default Timeout 300.
From Coq Require Import String Lia Sorted PeanoNat.
From PG Require Import Lib.Str Lib.StrFacts Model.Init Model.InitPinned Gen.Init.
Local Open Scope N_scope.

(* ---------------- reading the trace predicates ---------------- *)
Lemma precedes_spec p q : forall tr seen,
  precedes p q seen tr = true ->
  forall pre e post, tr = pre ++ e :: post -> q e = true -> seen = true \/ existsb p pre = true.
Proof.
  induction tr as [|a tr IH]; intros seen H pre e post E Q.
  - destruct pre; discriminate.
  - simpl in H. apply andb_true_iff in H as [H1 H2].
    destruct pre as [|b pre]; simpl in E; inversion E; subst.
    + rewrite Q in H1. simpl in H1. now left.
    + destruct (IH _ H2 pre e post eq_refl Q) as [S|S].
      * apply orb_true_iff in S as [S|S]; [now left|]. right. simpl. now rewrite S.
      * right. simpl. rewrite S. apply orb_true_r.
Qed.

Lemma increasing_sorted l : increasing l = true -> StronglySorted N.lt l.
Proof.
  intros H. apply Sorted_StronglySorted; [intros x y z; apply N.lt_trans|].
  induction l as [|a l IH]; [constructor|].
  destruct l as [|b l]; [repeat constructor|].
  simpl in H. apply andb_true_iff in H as [H1 H2]. constructor.
  - apply IH. exact H2.
  - constructor. now apply N.ltb_lt.
Qed.

Lemma chroot_complete_spec live : forall tr,
  chroot_complete live tr = true ->
  forall pre e post, tr = pre ++ e :: post -> is_chroot e = true ->
    live = true \/ existsb is_idchange post = true ->
    existsb is_setroot (until_idchange post) = true /\ existsb is_chdir_root (until_idchange post) = true.
Proof.
  induction tr as [|a tr IH]; intros H pre e post E C L.
  - destruct pre; discriminate.
  - simpl in H. apply andb_true_iff in H as [H1 H2].
    destruct pre as [|b pre]; simpl in E; inversion E; subst.
    + rewrite C in H1. simpl in H1.
      assert (G : (live || reaches_idchange post)%bool = true).
      { destruct L as [L|L]; [now rewrite L | unfold reaches_idchange; rewrite L; apply orb_true_r]. }
      rewrite G in H1. now apply andb_true_iff in H1.
    + eapply IH; eauto.
Qed.

Lemma str_eqb_true x y : str_eqb x y = true -> x = y.
Proof. apply str_eqb_eq. Qed.

Lemma eff_eqb_eq a b : eff_eqb a b = true -> a = b.
Proof.
  destruct a as [n1 a1], b as [n2 a2]. unfold eff_eqb. simpl. intros H.
  apply andb_true_iff in H as [H1 H2]. apply str_eqb_true in H1. subst. f_equal.
  revert a2 H2. induction a1 as [|x a1 IH]; destruct a2 as [|y a2]; simpl; try discriminate; [reflexivity|].
  intros E. apply andb_true_iff in E as [E1 E2]. apply str_eqb_true in E1. subst. f_equal. now apply IH.
Qed.

Lemma list_eqb_eff a : forall b, list_eqb eff_eqb a b = true -> a = b.
Proof.
  induction a as [|x a IH]; destruct b as [|y b]; simpl; try discriminate; [reflexivity|].
  intros E. apply andb_true_iff in E as [E1 E2]. apply eff_eqb_eq in E1. subst. f_equal. now apply IH.
Qed.

Definition mem_eff (e : effect) (tr : list effect) : bool := existsb (eff_eqb e) tr.
Lemma mem_eff_In e tr : mem_eff e tr = true -> In e tr.
Proof.
  unfold mem_eff. intros H. apply existsb_exists in H as (x & Hx & E). apply eff_eqb_eq in E. now subst.
Qed.

(* ---------------- the finite domain ---------------- *)
(* the checker receives the unfailed run of the configuration (computed once),
   the configuration, the injected failure and the outcome *)
Definition checker := outcome -> opts -> option (nat * xcls) -> outcome -> bool.
Definition dom_ok (P : program) (chk : checker) : bool :=
  forallb (fun o => (fun unf => forallb (fun f => chk unf o f (run_initialize P o f))
                                        (None :: map Some (failures_of unf)))
                    (run_initialize P o None)) all_opts.
Definition dom_ok_sec (P : program) (chk : checker) : bool :=
  forallb (fun o => (fun unf => forallb (fun f => chk unf o f (run_security P o f))
                                        (None :: map Some (failures_of unf)))
                    (run_security P o None)) sec_opts.

Lemma dom_ok_spec P chk : dom_ok P chk = true ->
  forall o, In o all_opts -> forall f, In f (all_failures P o) ->
  chk (run_initialize P o None) o f (run_initialize P o f) = true.
Proof.
  unfold dom_ok, all_failures. intros H o Ho f Hf. rewrite forallb_forall in H.
  specialize (H o Ho). cbv beta in H. rewrite forallb_forall in H. exact (H f Hf).
Qed.
Lemma dom_ok_sec_spec P chk : dom_ok_sec P chk = true ->
  forall o, In o sec_opts -> forall f, In f (all_failures_sec P o) ->
  chk (run_security P o None) o f (run_security P o f) = true.
Proof.
  unfold dom_ok_sec, all_failures_sec. intros H o Ho f Hf. rewrite forallb_forall in H.
  specialize (H o Ho). cbv beta in H. rewrite forallb_forall in H. exact (H f Hf).
Qed.

(* ---------------- the boolean checkers ---------------- *)
Definition is_tls_on (o : opts) : bool := match o_tls o with TlsOn => true | _ => false end.

(* bind, listen and key loading precede every privilege step; keys precede the bind *)
Definition chk_bind (o : opts) (_ : option (nat * xcls)) (out : outcome) : bool :=
  precedes is_bind is_priv false (out_trace out) &&
  precedes is_listen is_priv false (out_trace out) &&
  (if is_tls_on o then precedes is_loadkeys is_priv false (out_trace out) &&
                       precedes is_loadkeys is_bind false (out_trace out) else true).

Definition chk_order (_ : opts) (_ : option (nat * xcls)) (out : outcome) : bool :=
  increasing (ranks (out_trace out)) &&
  forallb (fun e => negb (is_idchange e) || is_setgroups e || is_setregid e || is_setreuid e) (out_trace out).

Definition E_chroot : effect := Eff (lit "os.chroot") [ROOT].
Definition E_setgroups : effect := Eff (lit "os.setgroups") [lit "()"].
Definition E_setregid (o : opts) : effect := Eff (lit "os.setregid") [gidv o; gidv o].
Definition E_setreuid (o : opts) : effect := Eff (lit "os.setreuid") [uidv o; uidv o].

(* an unfailed start-up: with a value that ConfigParser.getboolean rejects it does
   not get as far as serving nor as far as any privilege step; otherwise it reaches
   Running with exactly the configured steps *)
Definition chk_presence (o : opts) (f : option (nat * xcls)) (out : outcome) : bool :=
  match f with
  | Some _ => true
  | None =>
      let tr := out_trace out in
      if o_bad o then negb (is_running out) && negb (existsb is_priv tr) else
      is_running out &&
      Bool.eqb (has is_chroot tr) (o_chroot o) && Bool.eqb (mem_eff E_chroot tr) (o_chroot o) &&
      Bool.eqb (has is_setgroups tr) (o_uid o || o_gid o) && Bool.eqb (mem_eff E_setgroups tr) (o_uid o || o_gid o) &&
      Bool.eqb (has is_setregid tr) (o_gid o) && Bool.eqb (mem_eff (E_setregid o) tr) (o_gid o) &&
      Bool.eqb (has is_setreuid tr) (o_uid o) && Bool.eqb (mem_eff (E_setreuid o) tr) (o_uid o)
  end.

Definition chk_chroot (_ : outcome) (_ : opts) (_ : option (nat * xcls)) (out : outcome) : bool :=
  chroot_complete (is_running out) (out_trace out).

Definition nth_call (k : nat) (unfailed : outcome) : effect :=
  nth k (calls_of (out_trace unfailed)) (Eff [] []).

(* after a failed call nothing but the clean-up of the half-built server (closing
   its socket) is done *)
Definition is_cleanup (e : effect) : bool := is_name "socket.close" e.

Definition chk_abort_with (unfailed : outcome) (f : option (nat * xcls)) (out : outcome) : bool :=
  match f with
  | None => true
  | Some (k, _) =>
      if mem_str (ename (nth_call k unfailed)) best_effort then true
      else outcome_aborted_at k out &&
           list_eqb eff_eqb (firstn k (calls_of (out_trace out))) (firstn k (calls_of (out_trace unfailed))) &&
           forallb is_cleanup (skipn k (calls_of (out_trace out)))
  end.
Definition not_best_effort (unfailed : outcome) (f : option (nat * xcls)) : bool :=
  match f with
  | Some (k, _) => negb (mem_str (ename (nth_call k unfailed)) best_effort)
  | None => true
  end.

(* ---- one evaluation of the whole domain for all checkers that hold for the
        pinned code as well, one for the chroot clause ---- *)
Definition chk_all (unfailed : outcome) (o : opts) (f : option (nat * xcls)) (out : outcome) : bool :=
  chk_bind o f out && chk_order o f out && chk_presence o f out && chk_abort_with unfailed f out.
Definition chk_all_sec (unfailed : outcome) (o : opts) (f : option (nat * xcls)) (out : outcome) : bool :=
  chk_order o f out && chk_abort_with unfailed f out && not_best_effort unfailed f.

Lemma all_dom : dom_ok prog chk_all = true.
Proof. vm_cast_no_check (@eq_refl bool true). Qed.
Lemma all_dom_sec : dom_ok_sec prog chk_all_sec = true.
Proof. vm_cast_no_check (@eq_refl bool true). Qed.
Lemma chroot_dom : dom_ok prog chk_chroot = true.
Proof. vm_cast_no_check (@eq_refl bool true). Qed.

Lemma chk_all_parts unf o f out : chk_all unf o f out = true ->
  chk_bind o f out = true /\ chk_order o f out = true /\
  chk_presence o f out = true /\ chk_abort_with unf f out = true.
Proof.
  unfold chk_all. intros H. apply andb_true_iff in H as [H H4]. apply andb_true_iff in H as [H H3].
  apply andb_true_iff in H as [H1 H2]. repeat split; assumption.
Qed.
Lemma chk_all_sec_parts unf o f out : chk_all_sec unf o f out = true ->
  chk_order o f out = true /\ chk_abort_with unf f out = true /\ not_best_effort unf f = true.
Proof.
  unfold chk_all_sec. intros H. apply andb_true_iff in H as [H H3]. apply andb_true_iff in H as [H1 H2].
  repeat split; assumption.
Qed.

Lemma all_at o f : In o all_opts -> In f (all_failures prog o) ->
  chk_bind o f (run_initialize prog o f) = true /\
  chk_order o f (run_initialize prog o f) = true /\ chk_presence o f (run_initialize prog o f) = true /\
  chk_abort_with (run_initialize prog o None) f (run_initialize prog o f) = true.
Proof. intros Ho Hf. exact (chk_all_parts _ o f _ (dom_ok_spec _ _ all_dom o Ho f Hf)). Qed.
Lemma all_at_sec o f : In o sec_opts -> In f (all_failures_sec prog o) ->
  chk_order o f (run_security prog o f) = true /\
  chk_abort_with (run_security prog o None) f (run_security prog o f) = true /\
  not_best_effort (run_security prog o None) f = true.
Proof. intros Ho Hf. exact (chk_all_sec_parts _ o f _ (dom_ok_sec_spec _ _ all_dom_sec o Ho f Hf)). Qed.

(* ---------------- bind, listen and keys first ---------------- *)
Lemma bind_of_chk o f out : chk_bind o f out = true ->
  forall pre e post, out_trace out = pre ++ e :: post ->
    (is_priv e = true -> existsb is_bind pre = true /\ existsb is_listen pre = true /\
                         (o_tls o = TlsOn -> existsb is_loadkeys pre = true)) /\
    (is_bind e = true -> o_tls o = TlsOn -> existsb is_loadkeys pre = true).
Proof.
  intros H pre e post E. unfold chk_bind in H.
  apply andb_true_iff in H as [H H2]. apply andb_true_iff in H as [H1 H1'].
  assert (K : o_tls o = TlsOn -> precedes is_loadkeys is_priv false (out_trace out) = true /\
                                 precedes is_loadkeys is_bind false (out_trace out) = true).
  { intros T. unfold is_tls_on in H2. rewrite T in H2. now apply andb_true_iff in H2. }
  split.
  - intros Q. split; [|split].
    + destruct (precedes_spec _ _ _ _ H1 pre e post E Q) as [X|X]; [discriminate | exact X].
    + destruct (precedes_spec _ _ _ _ H1' pre e post E Q) as [X|X]; [discriminate | exact X].
    + intros T. destruct (K T) as [K1 _].
      destruct (precedes_spec _ _ _ _ K1 pre e post E Q) as [X|X]; [discriminate | exact X].
  - intros Q T. destruct (K T) as [_ K2].
    destruct (precedes_spec _ _ _ _ K2 pre e post E Q) as [X|X]; [discriminate | exact X].
Qed.

Lemma bind_keys_first :
  forall o, In o all_opts -> forall f, In f (all_failures prog o) ->
  forall pre e post, out_trace (run_initialize prog o f) = pre ++ e :: post ->
    (is_priv e = true -> existsb is_bind pre = true /\ existsb is_listen pre = true /\
                         (o_tls o = TlsOn -> existsb is_loadkeys pre = true)) /\
    (is_bind e = true -> o_tls o = TlsOn -> existsb is_loadkeys pre = true).
Proof. intros o Ho f Hf. exact (bind_of_chk o f _ (proj1 (all_at o f Ho Hf))). Qed.

(* ---------------- order ---------------- *)
Lemma order_of_chk o f out : chk_order o f out = true ->
  StronglySorted N.lt (ranks (out_trace out)) /\
  (forall e, In e (out_trace out) -> is_idchange e = true ->
     is_setgroups e = true \/ is_setregid e = true \/ is_setreuid e = true).
Proof.
  unfold chk_order. intros H. apply andb_true_iff in H as [H1 H2]. split.
  - now apply increasing_sorted.
  - intros e He Hi. rewrite forallb_forall in H2. specialize (H2 e He). rewrite Hi in H2. simpl in H2.
    destruct (is_setgroups e); [now left|]. destruct (is_setregid e); [right; now left|].
    right. right. exact H2.
Qed.

Lemma order :
  forall o, In o all_opts -> forall f, In f (all_failures prog o) ->
  StronglySorted N.lt (ranks (out_trace (run_initialize prog o f))) /\
  (forall e, In e (out_trace (run_initialize prog o f)) -> is_idchange e = true ->
     is_setgroups e = true \/ is_setregid e = true \/ is_setreuid e = true).
Proof.
  intros o Ho f Hf. exact (order_of_chk o f _ (proj1 (proj2 (all_at o f Ho Hf)))).
Qed.

Lemma order_sec :
  forall o, In o sec_opts -> forall f, In f (all_failures_sec prog o) ->
  StronglySorted N.lt (ranks (out_trace (run_security prog o f))) /\
  (forall e, In e (out_trace (run_security prog o f)) -> is_idchange e = true ->
     is_setgroups e = true \/ is_setregid e = true \/ is_setreuid e = true).
Proof. intros o Ho f Hf. exact (order_of_chk o f _ (proj1 (all_at_sec o f Ho Hf))). Qed.

(* ---------------- which steps are present in a start-up that reaches Running ---------------- *)
Lemma presence_of_chk o out : o_bad o = false -> chk_presence o None out = true ->
  exists tr, out = Running tr /\
    has is_chroot tr = o_chroot o /\ has is_setgroups tr = (o_uid o || o_gid o)%bool /\
    has is_setregid tr = o_gid o /\ has is_setreuid tr = o_uid o /\
    (o_chroot o = true -> In E_chroot tr) /\
    ((o_uid o || o_gid o)%bool = true -> In E_setgroups tr) /\
    (o_gid o = true -> In (E_setregid o) tr) /\ (o_uid o = true -> In (E_setreuid o) tr).
Proof.
  intros B H.
  unfold chk_presence in H. rewrite B in H. destruct out as [tr| | |]; simpl in H; try discriminate.
  exists tr. split; [reflexivity|].
  repeat (apply andb_true_iff in H as [H ?]).
  repeat match goal with X : Bool.eqb _ _ = true |- _ => apply Bool.eqb_prop in X end.
  repeat split; try assumption.
  - intros C. apply mem_eff_In. congruence.
  - intros C. apply mem_eff_In. congruence.
  - intros C. apply mem_eff_In. congruence.
  - intros C. apply mem_eff_In. congruence.
Qed.

Lemma presence :
  forall o, In o all_opts -> o_bad o = false ->
  exists tr, run_initialize prog o None = Running tr /\
    has is_chroot tr = o_chroot o /\ has is_setgroups tr = (o_uid o || o_gid o)%bool /\
    has is_setregid tr = o_gid o /\ has is_setreuid tr = o_uid o /\
    (o_chroot o = true -> In E_chroot tr) /\
    ((o_uid o || o_gid o)%bool = true -> In E_setgroups tr) /\
    (o_gid o = true -> In (E_setregid o) tr) /\ (o_uid o = true -> In (E_setreuid o) tr).
Proof.
  intros o Ho B.
  exact (presence_of_chk o _ B (proj1 (proj2 (proj2 (all_at o None Ho (or_introl eq_refl)))))).
Qed.

(* a value that getboolean rejects: no serving, no privilege step *)
Lemma bad_of_chk o out : o_bad o = true -> chk_presence o None out = true ->
  is_running out = false /\ existsb is_priv (out_trace out) = false.
Proof.
  intros B H. unfold chk_presence in H. rewrite B in H. apply andb_true_iff in H as [H1 H2].
  split; now apply negb_true_iff.
Qed.

Lemma bad_boolean_aborts :
  forall o, In o all_opts -> o_bad o = true ->
  is_running (run_initialize prog o None) = false /\
  existsb is_priv (out_trace (run_initialize prog o None)) = false.
Proof.
  intros o Ho B. exact (bad_of_chk o _ B (proj1 (proj2 (proj2 (all_at o None Ho (or_introl eq_refl)))))).
Qed.

(* ---------------- chroot is completed ---------------- *)
Lemma chroot_of_chk unf o f out : chk_chroot unf o f out = true ->
  forall pre e post, out_trace out = pre ++ e :: post -> is_chroot e = true ->
    is_running out = true \/ existsb is_idchange post = true ->
    existsb is_setroot (until_idchange post) = true /\ existsb is_chdir_root (until_idchange post) = true.
Proof. unfold chk_chroot. intros H. exact (chroot_complete_spec _ _ H). Qed.

Lemma chroot_complete_holds :
  forall o, In o all_opts -> forall f, In f (all_failures prog o) ->
  forall pre e post, out_trace (run_initialize prog o f) = pre ++ e :: post -> is_chroot e = true ->
    is_running (run_initialize prog o f) = true \/ existsb is_idchange post = true ->
    existsb is_setroot (until_idchange post) = true /\ existsb is_chdir_root (until_idchange post) = true.
Proof.
  intros o Ho f Hf.
  exact (chroot_of_chk _ o f _ (dom_ok_spec _ _ chroot_dom o Ho f Hf)).
Qed.

(* the pinned code: chroot without chdir *)
Definition o_chroot_only : opts := Opts true false false TlsAbsent false false false false None.
Lemma chdir_refuted :
  exists o tr, run_initialize prog_pinned o None = Running tr /\
      has is_chroot tr = true /\ has (is_name "os.chdir") tr = false.
Proof.
  exists o_chroot_only. eexists. split; [vm_compute; reflexivity|]. split; vm_compute; reflexivity.
Qed.

(* ---------------- a failure aborts ---------------- *)
Lemma abort_of_chk unfailed k x out :
  chk_abort_with unfailed (Some (k, x)) out = true ->
  mem_str (ename (nth_call k unfailed)) best_effort = false ->
  exists tr, out = Abort (Some k) tr /\
             firstn k (calls_of tr) = firstn k (calls_of (out_trace unfailed)) /\
             forallb is_cleanup (skipn k (calls_of tr)) = true.
Proof.
  unfold chk_abort_with. intros H B. rewrite B in H. apply andb_true_iff in H as [H H3].
  apply andb_true_iff in H as [H1 H2].
  destruct out as [t|[k'|] t|t|]; simpl in H1; try discriminate.
  apply Nat.eqb_eq in H1. subst k'. exists t. split; [reflexivity|]. split; [now apply list_eqb_eff | exact H3].
Qed.

Lemma abort :
  forall o, In o all_opts -> forall k x, In (Some (k, x)) (all_failures prog o) ->
  mem_str (ename (nth_call k (run_initialize prog o None))) best_effort = false ->
  exists tr, run_initialize prog o (Some (k, x)) = Abort (Some k) tr /\
             firstn k (calls_of tr) = firstn k (calls_of (out_trace (run_initialize prog o None))) /\
             forallb is_cleanup (skipn k (calls_of tr)) = true.
Proof.
  intros o Ho k x Hf B.
  exact (abort_of_chk _ k x _ (proj2 (proj2 (proj2 (all_at o (Some (k, x)) Ho Hf)))) B).
Qed.

Lemma abort_sec_of_chk unfailed k x out :
  chk_abort_with unfailed (Some (k, x)) out = true -> not_best_effort unfailed (Some (k, x)) = true ->
  exists tr, out = Abort (Some k) tr /\
             firstn k (calls_of tr) = firstn k (calls_of (out_trace unfailed)) /\
             forallb is_cleanup (skipn k (calls_of tr)) = true.
Proof.
  intros H1 H2. apply (abort_of_chk unfailed k x out H1).
  unfold not_best_effort in H2. now apply negb_true_iff in H2.
Qed.

Lemma abort_sec :
  forall o, In o sec_opts -> forall k x, In (Some (k, x)) (all_failures_sec prog o) ->
  exists tr, run_security prog o (Some (k, x)) = Abort (Some k) tr /\
             firstn k (calls_of tr) = firstn k (calls_of (out_trace (run_security prog o None))) /\
             forallb is_cleanup (skipn k (calls_of tr)) = true.
Proof.
  intros o Ho k x Hf.
  exact (abort_sec_of_chk _ k x _ (proj1 (proj2 (all_at_sec o (Some (k, x)) Ho Hf)))
                                  (proj2 (proj2 (all_at_sec o (Some (k, x)) Ho Hf)))).
Qed.

(* the privileged steps, the bind, the listen, the key loading and the account look-ups are never
   best-effort, and the clean-up call is not a privilege step *)
Lemma best_effort_not_priv e : mem_str (ename e) best_effort = true ->
  is_priv e = false /\ is_bind e = false /\ is_listen e = false /\ is_loadkeys e = false /\
  is_name "os.chdir" e = false /\ is_name "pwd.getpwnam" e = false /\ is_name "grp.getgrnam" e = false.
Proof.
  intros H. destruct e as [n a]. unfold ename in H. apply mem_str_In in H. unfold best_effort in H. simpl in H.
  destruct H as [H|[H|[]]]; subst n; vm_compute; repeat split; reflexivity.
Qed.

Lemma security_alone :
  forall o, In o sec_opts -> forall f, In f (all_failures_sec prog o) ->
  (StronglySorted N.lt (ranks (out_trace (run_security prog o f))) /\
   (forall e, In e (out_trace (run_security prog o f)) -> is_idchange e = true ->
      is_setgroups e = true \/ is_setregid e = true \/ is_setreuid e = true)) /\
  (forall k x, f = Some (k, x) ->
     exists tr, run_security prog o (Some (k, x)) = Abort (Some k) tr /\
                firstn k (calls_of tr) = firstn k (calls_of (out_trace (run_security prog o None))) /\
                forallb is_cleanup (skipn k (calls_of tr)) = true).
Proof.
  intros o Ho f Hf. split; [exact (order_sec o Ho f Hf)|].
  intros k x E. subst f. exact (abort_sec o Ho k x Hf).
Qed.

(* ---------------- the credentials a start-up ends with ---------------- *)
Lemma str_list_eqb_eq : forall a b, list_eqb str_eqb a b = true -> a = b.
Proof.
  induction a as [|x a IH]; destruct b as [|y b]; simpl; try discriminate; [reflexivity|].
  intros E. apply andb_true_iff in E as [E1 E2]. apply str_eqb_true in E1. subst. f_equal. now apply IH.
Qed.

Lemma cred_list_inj a b : cred_list a = cred_list b -> a = b.
Proof. destruct a, b. unfold cred_list. simpl. intros H. inversion H. reflexivity. Qed.

Definition chk_final_out (st : start) (o : opts) (out : outcome) : bool :=
  o_bad o ||
  match out with
  | Running tr => list_eqb str_eqb (cred_list (final_cred (start_cred st o) tr)) (cred_list (wanted_cred o (start_cred st o)))
  | _ => false
  end.

Lemma final_dom :
  forallb (fun o => forallb (fun st => chk_final_out st o (run_initialize_from prog st o None)) all_starts) all_opts = true.
Proof. vm_cast_no_check (@eq_refl bool true). Qed.

Lemma final_of_chk st o out : o_bad o = false -> chk_final_out st o out = true ->
  exists tr, out = Running tr /\ final_cred (start_cred st o) tr = wanted_cred o (start_cred st o).
Proof.
  unfold chk_final_out. intros B. rewrite B. simpl. destruct out as [tr| | |]; try discriminate. intros H.
  exists tr. split; [reflexivity|]. apply cred_list_inj. now apply str_list_eqb_eq.
Qed.

Lemma all_starts_complete st : In st all_starts.
Proof. destruct st; simpl; tauto. Qed.

Lemma final_credentials : forall o, In o all_opts -> o_bad o = false -> forall st,
  exists tr, run_initialize_from prog st o None = Running tr /\
             final_cred (start_cred st o) tr = wanted_cred o (start_cred st o).
Proof.
  intros o Ho B st. apply (final_of_chk st o _ B).
  pose proof final_dom as H. rewrite forallb_forall in H. specialize (H o Ho).
  cbv beta in H. rewrite forallb_forall in H. exact (H st (all_starts_complete st)).
Qed.
