(* Lemmas for C19.  `prog` is Gen/Init.v, the IR translated from the current
   pygopherd/initialization.py on every run; `prog_pinned` is the translation of
   the pinned tree.  The domain (configurations x single failures) is finite, the
   facts about it are established by computation in the kernel (vm_compute) and
   lifted to quantified statements by forallb_forall; the readings of the boolean
   trace predicates as statements about positions in the trace are proved by
   induction. *)
From Coq Require Import String Lia Sorted.
From PG Require Import Lib.Str Model.Init Model.InitPinned Gen.Init.
Local Open Scope N_scope.

(* ---------------- reading the trace predicates ---------------- *)
Lemma precedes_spec p q : forall tr seen,
  precedes p q seen tr = true ->
  forall pre e post, tr = pre ++ e :: post -> q e = true -> seen = true \/ existsb p pre = true.
Proof.
  induction tr as [|a tr IH]; intros seen H pre e post E Q.
  - destruct pre; discriminate.
  - simpl in H. apply andb_true_iff in H as [H1 H2].
    destruct pre as [|b pre]; simpl in E; inversion E; subst.
    + rewrite Q in H1. simpl in H1. now left.
    + destruct (IH _ H2 pre e post eq_refl Q) as [S|S].
      * apply orb_true_iff in S as [S|S]; [now left|]. right. simpl. now rewrite S.
      * right. simpl. rewrite S. apply orb_true_r.
Qed.

Lemma increasing_sorted l : increasing l = true -> StronglySorted N.lt l.
Proof.
  intros H. apply Sorted_StronglySorted; [intros x y z; apply N.lt_trans|].
  induction l as [|a l IH]; [constructor|].
  destruct l as [|b l]; [repeat constructor|].
  simpl in H. apply andb_true_iff in H as [H1 H2]. constructor.
  - apply IH. exact H2.
  - constructor. now apply N.ltb_lt.
Qed.

Lemma chroot_complete_spec live : forall tr,
  chroot_complete live tr = true ->
  forall pre e post, tr = pre ++ e :: post -> is_chroot e = true ->
    live = true \/ existsb is_idchange post = true ->
    existsb is_setroot (until_idchange post) = true /\ existsb is_chdir_root (until_idchange post) = true.
Proof.
  induction tr as [|a tr IH]; intros H pre e post E C L.
  - destruct pre; discriminate.
  - simpl in H. apply andb_true_iff in H as [H1 H2].
    destruct pre as [|b pre]; simpl in E; inversion E; subst.
    + rewrite C in H1. simpl in H1.
      assert (G : (live || reaches_idchange post)%bool = true).
      { destruct L as [L|L]; [now rewrite L | unfold reaches_idchange; rewrite L; apply orb_true_r]. }
      rewrite G in H1. now apply andb_true_iff in H1.
    + eapply IH; eauto.
Qed.

(* ---------------- the finite domain ---------------- *)
Definition dom_ok (P : program) (chk : opts -> option (nat * xcls) -> outcome -> bool) : bool :=
  forallb (fun o => forallb (fun f => chk o f (run_initialize P o f)) (all_failures P o)) all_opts.
Definition dom_ok_sec (P : program) (chk : opts -> option (nat * xcls) -> outcome -> bool) : bool :=
  forallb (fun o => forallb (fun f => chk o f (run_security P o f)) (all_failures_sec P o)) sec_opts.

Lemma dom_ok_spec P chk : dom_ok P chk = true ->
  forall o, In o all_opts -> forall f, In f (all_failures P o) -> chk o f (run_initialize P o f) = true.
Proof.
  unfold dom_ok. intros H o Ho f Hf. rewrite forallb_forall in H.
  specialize (H o Ho). rewrite forallb_forall in H. exact (H f Hf).
Qed.
Lemma dom_ok_sec_spec P chk : dom_ok_sec P chk = true ->
  forall o, In o sec_opts -> forall f, In f (all_failures_sec P o) -> chk o f (run_security P o f) = true.
Proof.
  unfold dom_ok_sec. intros H o Ho f Hf. rewrite forallb_forall in H.
  specialize (H o Ho). rewrite forallb_forall in H. exact (H f Hf).
Qed.

Definition is_tls_on (o : opts) : bool := match o_tls o with TlsOn => true | _ => false end.

(* ---------------- bind and keys first ---------------- *)
Definition chk_bind (o : opts) (_ : option (nat * xcls)) (out : outcome) : bool :=
  precedes is_bind is_priv false (out_trace out) &&
  (if is_tls_on o then precedes is_loadkeys is_priv false (out_trace out) else true).

Lemma bind_dom : dom_ok prog chk_bind = true.
Proof. vm_compute. reflexivity. Qed.

Lemma bind_keys_first :
  forall o, In o all_opts -> forall f, In f (all_failures prog o) ->
  forall pre e post, out_trace (run_initialize prog o f) = pre ++ e :: post -> is_priv e = true ->
    existsb is_bind pre = true /\ (o_tls o = TlsOn -> existsb is_loadkeys pre = true).
Proof.
  intros o Ho f Hf pre e post E Q.
  pose proof (dom_ok_spec _ _ bind_dom o Ho f Hf) as H. unfold chk_bind in H.
  apply andb_true_iff in H as [H1 H2]. split.
  - destruct (precedes_spec _ _ _ _ H1 pre e post E Q) as [X|X]; [discriminate | exact X].
  - intros T. unfold is_tls_on in H2. rewrite T in H2.
    destruct (precedes_spec _ _ _ _ H2 pre e post E Q) as [X|X]; [discriminate | exact X].
Qed.

(* the TLS context exists before the socket is bound with it, and both precede detaching *)
Definition chk_keys_before_bind (o : opts) (_ : option (nat * xcls)) (out : outcome) : bool :=
  if is_tls_on o then precedes is_loadkeys is_bind false (out_trace out) else true.
Lemma keys_before_bind_dom : dom_ok prog chk_keys_before_bind = true.
Proof. vm_compute. reflexivity. Qed.

(* ---------------- order ---------------- *)
Definition chk_order (_ : opts) (_ : option (nat * xcls)) (out : outcome) : bool :=
  increasing (ranks (out_trace out)) &&
  forallb (fun e => negb (is_idchange e) || is_setgroups e || is_setregid e || is_setreuid e) (out_trace out).

Lemma order_dom : dom_ok prog chk_order = true.
Proof. vm_compute. reflexivity. Qed.
Lemma order_dom_sec : dom_ok_sec prog chk_order = true.
Proof. vm_compute. reflexivity. Qed.

Lemma order_of_chk out : chk_order (Opts false false false TlsAbsent false false) None out = true ->
  StronglySorted N.lt (ranks (out_trace out)) /\
  (forall e, In e (out_trace out) -> is_idchange e = true ->
     is_setgroups e = true \/ is_setregid e = true \/ is_setreuid e = true).
Proof.
  unfold chk_order. intros H. apply andb_true_iff in H as [H1 H2]. split.
  - now apply increasing_sorted.
  - intros e He Hi. rewrite forallb_forall in H2. specialize (H2 e He). rewrite Hi in H2. simpl in H2.
    destruct (is_setgroups e); [now left|]. destruct (is_setregid e); [right; now left|].
    right. right. exact H2.
Qed.

Lemma order :
  forall o, In o all_opts -> forall f, In f (all_failures prog o) ->
  let tr := out_trace (run_initialize prog o f) in
  StronglySorted N.lt (ranks tr) /\
  (forall e, In e tr -> is_idchange e = true ->
     is_setgroups e = true \/ is_setregid e = true \/ is_setreuid e = true).
Proof. intros o Ho f Hf. apply order_of_chk. exact (dom_ok_spec _ _ order_dom o Ho f Hf). Qed.

Lemma order_sec :
  forall o, In o sec_opts -> forall f, In f (all_failures_sec prog o) ->
  let tr := out_trace (run_security prog o f) in
  StronglySorted N.lt (ranks tr) /\
  (forall e, In e tr -> is_idchange e = true ->
     is_setgroups e = true \/ is_setregid e = true \/ is_setreuid e = true).
Proof. intros o Ho f Hf. apply order_of_chk. exact (dom_ok_sec_spec _ _ order_dom_sec o Ho f Hf). Qed.

(* ---------------- which steps are present in a start-up that reaches Running ---------------- *)
Definition mem_eff (e : effect) (tr : list effect) : bool := existsb (eff_eqb e) tr.

Lemma eff_eqb_eq a b : eff_eqb a b = true -> a = b.
Proof.
  destruct a as [n1 a1], b as [n2 a2]. unfold eff_eqb. simpl. intros H.
  apply andb_true_iff in H as [H1 H2].
  assert (S : forall x y, str_eqb x y = true -> x = y).
  { induction x as [|c x IH]; destruct y as [|d y]; simpl; try discriminate; [reflexivity|].
    intros E. apply andb_true_iff in E as [E1 E2]. apply N.eqb_eq in E1. subst. f_equal. now apply IH. }
  apply S in H1. subst. f_equal.
  revert a2 H2. induction a1 as [|x a1 IH]; destruct a2 as [|y a2]; simpl; try discriminate; [reflexivity|].
  intros E. apply andb_true_iff in E as [E1 E2]. apply S in E1. subst. f_equal. now apply IH.
Qed.

Lemma mem_eff_In e tr : mem_eff e tr = true -> In e tr.
Proof.
  unfold mem_eff. intros H. apply existsb_exists in H as (x & Hx & E). apply eff_eqb_eq in E. now subst.
Qed.

Definition E_chroot : effect := Eff (lit "os.chroot") [ROOT].
Definition E_setgroups : effect := Eff (lit "os.setgroups") [lit "()"].
Definition E_setregid : effect := Eff (lit "os.setregid") [GIDV; GIDV].
Definition E_setreuid : effect := Eff (lit "os.setreuid") [UIDV; UIDV].
Definition E_getpwnam : effect := Eff (lit "pwd.getpwnam") [UIDNAME].
Definition E_getgrnam : effect := Eff (lit "grp.getgrnam") [GIDNAME].

Definition chk_presence (o : opts) (f : option (nat * xcls)) (out : outcome) : bool :=
  match f with
  | Some _ => true
  | None =>
      let tr := out_trace out in
      is_running out &&
      Bool.eqb (has is_chroot tr) (o_chroot o) && Bool.eqb (mem_eff E_chroot tr) (o_chroot o) &&
      Bool.eqb (has is_setgroups tr) (o_uid o || o_gid o) && Bool.eqb (mem_eff E_setgroups tr) (o_uid o || o_gid o) &&
      Bool.eqb (has is_setregid tr) (o_gid o) && Bool.eqb (mem_eff E_setregid tr) (o_gid o) &&
      Bool.eqb (has is_setreuid tr) (o_uid o) && Bool.eqb (mem_eff E_setreuid tr) (o_uid o)
  end.

Lemma presence_dom : dom_ok prog chk_presence = true.
Proof. vm_compute. reflexivity. Qed.

Lemma presence :
  forall o, In o all_opts ->
  exists tr, run_initialize prog o None = Running tr /\
    has is_chroot tr = o_chroot o /\ has is_setgroups tr = (o_uid o || o_gid o)%bool /\
    has is_setregid tr = o_gid o /\ has is_setreuid tr = o_uid o /\
    (o_chroot o = true -> In E_chroot tr) /\
    ((o_uid o || o_gid o)%bool = true -> In E_setgroups tr) /\
    (o_gid o = true -> In E_setregid tr) /\ (o_uid o = true -> In E_setreuid tr).
Proof.
  intros o Ho. pose proof (dom_ok_spec _ _ presence_dom o Ho None (or_introl eq_refl)) as H.
  unfold chk_presence in H. destruct (run_initialize prog o None) as [tr| | |] eqn:R; simpl in H; try discriminate.
  exists tr. split; [reflexivity|].
  repeat (apply andb_true_iff in H as [H ?]).
  repeat match goal with X : Bool.eqb _ _ = true |- _ => apply Bool.eqb_prop in X end.
  repeat split; try assumption.
  - intros C. apply mem_eff_In. congruence.
  - intros C. apply mem_eff_In. congruence.
  - intros C. apply mem_eff_In. congruence.
  - intros C. apply mem_eff_In. congruence.
Qed.

(* ---------------- chroot is completed ---------------- *)
Definition chk_chroot (_ : opts) (_ : option (nat * xcls)) (out : outcome) : bool :=
  chroot_complete (is_running out) (out_trace out).

Lemma chroot_dom : dom_ok prog chk_chroot = true.
Proof. vm_compute. reflexivity. Qed.

Lemma chroot_complete_holds :
  forall o, In o all_opts -> forall f, In f (all_failures prog o) ->
  let out := run_initialize prog o f in
  forall pre e post, out_trace out = pre ++ e :: post -> is_chroot e = true ->
    is_running out = true \/ existsb is_idchange post = true ->
    existsb is_setroot (until_idchange post) = true /\ existsb is_chdir_root (until_idchange post) = true.
Proof.
  intros o Ho f Hf out pre e post E C L.
  exact (chroot_complete_spec _ _ (dom_ok_spec _ _ chroot_dom o Ho f Hf) pre e post E C L).
Qed.

(* the pinned code: chroot without chdir *)
Definition o_chroot_only : opts := Opts true false false TlsAbsent false false.
Lemma chdir_refuted :
  exists o, In o all_opts /\
    exists tr, run_initialize prog_pinned o None = Running tr /\
      has is_chroot tr = true /\ has (is_name "os.chdir") tr = false.
Proof.
  exists o_chroot_only. split; [vm_compute; tauto|].
  eexists. split; [vm_compute; reflexivity|]. split; vm_compute; reflexivity.
Qed.
Lemma chroot_complete_refuted : dom_ok prog_pinned chk_chroot = false.
Proof. vm_compute. reflexivity. Qed.

(* ---------------- a failure aborts ---------------- *)
Definition nth_call (k : nat) (unfailed : outcome) : effect :=
  nth k (calls_of (out_trace unfailed)) (Eff [] []).

Definition chk_abort_with (unfailed : outcome) (f : option (nat * xcls)) (out : outcome) : bool :=
  match f with
  | None => true
  | Some (k, _) =>
      if mem_str (ename (nth_call k unfailed)) best_effort then true
      else outcome_aborted_at k out &&
           list_eqb eff_eqb (calls_of (out_trace out)) (firstn k (calls_of (out_trace unfailed)))
  end.
Definition chk_abort (o : opts) f out := chk_abort_with (run_initialize prog o None) f out.
Definition chk_abort_sec (o : opts) f out := chk_abort_with (run_security prog o None) f out.

Lemma abort_dom : dom_ok prog chk_abort = true.
Proof. vm_compute. reflexivity. Qed.
Lemma abort_dom_sec : dom_ok_sec prog chk_abort_sec = true.
Proof. vm_compute. reflexivity. Qed.

Lemma list_eqb_eff a : forall b, list_eqb eff_eqb a b = true -> a = b.
Proof.
  induction a as [|x a IH]; destruct b as [|y b]; simpl; try discriminate; [reflexivity|].
  intros E. apply andb_true_iff in E as [E1 E2]. apply eff_eqb_eq in E1. subst. f_equal. now apply IH.
Qed.

Lemma abort_of_chk unfailed k x out :
  chk_abort_with unfailed (Some (k, x)) out = true ->
  mem_str (ename (nth_call k unfailed)) best_effort = false ->
  exists tr, out = Abort (Some k) tr /\ calls_of tr = firstn k (calls_of (out_trace unfailed)).
Proof.
  unfold chk_abort_with. intros H B. rewrite B in H. apply andb_true_iff in H as [H1 H2].
  destruct out as [t|[k'|] t|t|]; simpl in H1; try discriminate.
  apply Nat.eqb_eq in H1. subst k'. exists t. split; [reflexivity|]. now apply list_eqb_eff.
Qed.

Lemma abort :
  forall o, In o all_opts -> forall k x, In (Some (k, x)) (all_failures prog o) ->
  mem_str (ename (nth_call k (run_initialize prog o None))) best_effort = false ->
  exists tr, run_initialize prog o (Some (k, x)) = Abort (Some k) tr /\
             calls_of tr = firstn k (calls_of (out_trace (run_initialize prog o None))).
Proof.
  intros o Ho k x Hf B. apply abort_of_chk; [|exact B].
  exact (dom_ok_spec _ _ abort_dom o Ho (Some (k, x)) Hf).
Qed.

Lemma abort_sec :
  forall o, In o sec_opts -> forall k x, In (Some (k, x)) (all_failures_sec prog o) ->
  exists tr, run_security prog o (Some (k, x)) = Abort (Some k) tr /\
             calls_of tr = firstn k (calls_of (out_trace (run_security prog o None))).
Proof.
  intros o Ho k x Hf.
  assert (B : forallb (fun o => forallb (fun f => match f with
                 | Some (k, _) => negb (mem_str (ename (nth_call k (run_security prog o None))) best_effort)
                 | None => true end) (all_failures_sec prog o)) sec_opts = true) by (vm_compute; reflexivity).
  rewrite forallb_forall in B. specialize (B o Ho). rewrite forallb_forall in B. specialize (B _ Hf).
  simpl in B. apply negb_true_iff in B.
  apply abort_of_chk; [|exact B].
  exact (dom_ok_sec_spec _ _ abort_dom_sec o Ho (Some (k, x)) Hf).
Qed.

(* the privileged steps, the bind and the key loading are never best-effort *)
Lemma best_effort_not_priv e : mem_str (ename e) best_effort = true ->
  is_priv e = false /\ is_bind e = false /\ is_loadkeys e = false /\ is_name "os.chdir" e = false /\
  is_name "pwd.getpwnam" e = false /\ is_name "grp.getgrnam" e = false.
Proof.
  intros H. unfold best_effort in H. simpl in H.
  assert (S : forall x y, str_eqb x y = true -> x = y).
  { induction x as [|c x IH]; destruct y as [|d y]; simpl; try discriminate; [reflexivity|].
    intros E. apply andb_true_iff in E as [E1 E2]. apply N.eqb_eq in E1. subst. f_equal. now apply IH. }
  destruct (str_eqb (ename e) (lit "os.setpgrp")) eqn:A.
  - apply S in A. unfold is_priv, is_chroot, is_idchange, is_bind, is_loadkeys, is_name. rewrite A.
    vm_compute. repeat split; reflexivity.
  - simpl in H. destruct (str_eqb (ename e) (lit "os.getpgrp")) eqn:B; [|discriminate].
    apply S in B. unfold is_priv, is_chroot, is_idchange, is_bind, is_loadkeys, is_name. rewrite B.
    vm_compute. repeat split; reflexivity.
Qed.

(* the domain is what it says *)
Lemma all_opts_complete o : In o all_opts.
Proof.
  destruct o as [c u g t p d].
  destruct c, u, g, t, p, d; vm_compute; repeat (first [ left; reflexivity | right ]).
Qed.
