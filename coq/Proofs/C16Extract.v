(* C16Extract.v — the reference side: the members laid out as a real tree. *)
From Coq Require Import Arith Lia.
From PG Require Import Lib.Str Lib.StrFacts Lib.ZipPath Proofs.ZipPathFacts Model.Zip Proofs.C16Index.
Local Open Scope nat_scope.

Ltac splits := repeat match goal with |- _ /\ _ => split end.

Lemma fs_get_set_same p n f : fs_get p (fs_set p n f) = Some n.
Proof.
  induction f as [|[q n'] f IH]; simpl; [now rewrite path_eqb_refl|].
  destruct (path_eqb p q) eqn:E; simpl; [now rewrite path_eqb_refl|now rewrite E].
Qed.
Lemma fs_get_set_other p q n f : p <> q -> fs_get q (fs_set p n f) = fs_get q f.
Proof.
  intros H. induction f as [|[r n'] f IH]; simpl.
  - assert (E : path_eqb q p = false) by (apply path_eqb_neq; congruence). now rewrite E.
  - destruct (path_eqb p r) eqn:E; simpl.
    + apply path_eqb_eq in E. subst r.
      assert (E : path_eqb q p = false) by (apply path_eqb_neq; congruence). now rewrite E.
    + destruct (path_eqb q r); [reflexivity|exact IH].
Qed.
Lemma fs_get_app f g q :
  fs_get q (f ++ g) = match fs_get q f with Some n => Some n | None => fs_get q g end.
Proof. induction f as [|[r n] f IH]; simpl; [reflexivity|]. destruct (path_eqb q r); [reflexivity|exact IH]. Qed.

(* one of the directories created along pre/levels *)
Definition on_way (pre levels q : list str) : Prop :=
  exists l', l' <> [] /\ path_prefixb l' levels = true /\ q = pre ++ l'.

Lemma fs_get_mkdirs levels : forall f pre q,
  (forall n, fs_get q f = Some n -> fs_get q (fs_mkdirs f pre levels) = Some n) /\
  (fs_get q f = None -> on_way pre levels q -> fs_get q (fs_mkdirs f pre levels) = Some TDir) /\
  (fs_get q f = None -> ~ on_way pre levels q -> fs_get q (fs_mkdirs f pre levels) = None).
Proof.
  induction levels as [|l r IH]; intros f pre q; simpl.
  - splits; auto. intros _ (l' & H1 & H2 & _). destruct l'; [congruence|discriminate].
  - set (p := pre ++ [l]).
    set (f1 := match fs_get p f with None => f ++ [(p, TDir)] | Some _ => f end).
    destruct (IH f1 p q) as (I1 & I2 & I3).
    assert (K : forall n, fs_get q f = Some n -> fs_get q f1 = Some n).
    { intros n Hn. unfold f1. destruct (fs_get p f); [exact Hn|]. rewrite fs_get_app, Hn. reflexivity. }
    splits.
    + intros n Hn. apply I1. now apply K.
    + intros Hn (l' & H1 & H2 & ->). destruct l' as [|x l']; [congruence|].
      simpl in H2. apply andb_true_iff in H2 as [Hx H2]. apply str_eqb_eq in Hx. subst x.
      destruct l' as [|y l'].
      * (* the first level itself *)
        change (pre ++ [l]) with p in Hn, I1 |- *. apply I1. unfold f1. rewrite Hn. rewrite fs_get_app, Hn. simpl. now rewrite path_eqb_refl.
      * assert (Hq : pre ++ l :: y :: l' = p ++ y :: l') by (unfold p; now rewrite <- app_assoc).
        rewrite Hq in *.
        destruct (fs_get (p ++ y :: l') f1) as [n|] eqn:Hf1.
        -- (* only possible if it is the node just added, which it is not *)
           unfold f1 in Hf1. destruct (fs_get p f) eqn:Hpf; [congruence|].
           rewrite fs_get_app, Hn in Hf1. simpl in Hf1.
           destruct (path_eqb (p ++ y :: l') p) eqn:E; [|discriminate].
           apply path_eqb_eq in E. apply (f_equal (@length str)) in E. rewrite app_length in E. simpl in E. lia.
        -- apply I2; [reflexivity|]. exists (y :: l'). splits; [discriminate|exact H2|reflexivity].
    + intros Hn Hnot.
      assert (Hqp : q <> p).
      { intros ->. apply Hnot. exists [l]. splits; [discriminate|simpl; now rewrite str_eqb_refl|reflexivity]. }
      assert (Hf1 : fs_get q f1 = None).
      { unfold f1. destruct (fs_get p f); [exact Hn|]. rewrite fs_get_app, Hn. simpl.
        assert (E : path_eqb q p = false) by now apply path_eqb_neq. now rewrite E. }
      apply I3; [exact Hf1|]. intros (l' & H1 & H2 & ->). apply Hnot.
      exists (l :: l'). splits; [discriminate|simpl; now rewrite str_eqb_refl|unfold p; now rewrite <- app_assoc].
Qed.

(* ---------- the extracted tree of a well-formed archive ---------- *)
Record finv (done : list member) (f : fs) : Prop := mk_finv {
  f_dir : forall p, fs_get p f = Some TDir <-> (p <> [] /\ is_dirpath done p);
  f_file : forall p d, fs_get p f = Some (TFile d) <->
      exists m, In m done /\ entry_path m = Some p /\ m_kind m = KFile d;
  f_link : forall p d, fs_get p f = Some (TLink d) <->
      exists m, In m done /\ entry_path m = Some p /\ m_kind m = KLink d
}.

Lemma finv0 : finv [] [].
Proof.
  split; simpl.
  - intros p. split; [discriminate|]. intros [Hp [->|(m & [] & _)]]. congruence.
  - intros p d. split; [discriminate|intros (m & [] & _)].
  - intros p d. split; [discriminate|intros (m & [] & _)].
Qed.

Lemma on_way_nil levels q : on_way [] levels q <-> (q <> [] /\ path_prefixb q levels = true).
Proof.
  split.
  - intros (l' & H1 & H2 & ->). now split.
  - intros [H1 H2]. exists q. now splits.
Qed.

Lemma entry_clash_dir done m m' p :
  compat done m -> In m' done -> entry_path m' = Some p -> path_prefixb p (name_levels (m_name m)) = true -> False.
Proof.
  intros [_ Hcl] Hin He Hp. destruct (Hcl m' Hin) as [H1 _]. unfold no_clash in H1. rewrite He in H1.
  apply andb_true_iff in H1 as [H1 _]. rewrite Hp in H1. discriminate.
Qed.
Lemma entry_clash_dir' done m m' p :
  compat done m -> In m' done -> entry_path m = Some p -> path_prefixb p (name_levels (m_name m')) = true -> False.
Proof.
  intros [_ Hcl] Hin He Hp. destruct (Hcl m' Hin) as [_ H1]. unfold no_clash in H1. rewrite He in H1.
  apply andb_true_iff in H1 as [H1 _]. rewrite Hp in H1. discriminate.
Qed.
Lemma entry_clash_entry done m m' p :
  compat done m -> In m' done -> entry_path m = Some p -> entry_path m' = Some p -> False.
Proof.
  intros [_ Hcl] Hin He He'. destruct (Hcl m' Hin) as [_ H1]. unfold no_clash in H1. rewrite He, He' in H1.
  apply andb_true_iff in H1 as [_ H1]. rewrite path_eqb_refl in H1. discriminate.
Qed.

Lemma extract_step_spec done f m :
  finv done f -> compat done m -> finv (done ++ [m]) (extract_step f m).
Proof.
  intros F Hc. pose proof Hc as [Hok Hcl].
  destruct (name_ok_levels m Hok) as [_ Hlev].
  unfold extract_step.
  set (levels := name_levels (m_name m)) in *.
  set (b := name_base (m_name m)).
  set (f1 := fs_mkdirs f [] levels).
  (* the tree after the directories of this member *)
  assert (F1 : forall q,
     (forall n, fs_get q f = Some n -> fs_get q f1 = Some n) /\
     (fs_get q f = None -> q <> [] /\ path_prefixb q levels = true -> fs_get q f1 = Some TDir) /\
     (fs_get q f = None -> ~ (q <> [] /\ path_prefixb q levels = true) -> fs_get q f1 = None)).
  { intros q. destruct (fs_get_mkdirs levels f [] q) as (I1 & I2 & I3). splits; auto.
    - intros Hn H. apply I2; [exact Hn|now apply on_way_nil].
    - intros Hn H. apply I3; [exact Hn|]. intros H'. apply H. now apply on_way_nil. }
  assert (D1 : forall p, fs_get p f1 = Some TDir <-> (p <> [] /\ is_dirpath (done ++ [m]) p)).
  { intros p. destruct (F1 p) as (I1 & I2 & I3). split.
    - intros H. destruct (fs_get p f) as [n|] eqn:Hn.
      + rewrite (I1 _ eq_refl) in H. inversion H; subst n. apply (f_dir _ _ F) in Hn as [Hp Hd].
        split; [exact Hp|now apply is_dirpath_app_l].
      + destruct (path_prefixb p levels) eqn:Hp.
        * destruct p as [|x p]; [rewrite I3 in H; [discriminate|reflexivity|intros [? _]; congruence]|].
          split; [discriminate|]. right. exists m. split; [apply in_or_app; right; now left|exact Hp].
        * rewrite I3 in H; [discriminate|reflexivity|intros [_ ?]; congruence].
    - intros [Hp Hd]. apply is_dirpath_snoc_inv in Hd as [Hd|Hd].
      + apply I1. apply (f_dir _ _ F). now split.
      + destruct (fs_get p f) as [n|] eqn:Hn; [|now apply I2].
        rewrite (I1 _ eq_refl). f_equal. destruct n as [d| |d]; [exfalso|reflexivity|exfalso].
        * apply (f_file _ _ F) in Hn as (m' & Hin & He & _). eapply entry_clash_dir; eauto.
        * apply (f_link _ _ F) in Hn as (m' & Hin & He & _). eapply entry_clash_dir; eauto. }
  assert (N1 : forall p n, n <> TDir -> (fs_get p f1 = Some n <-> fs_get p f = Some n)).
  { intros p n Hn. destruct (F1 p) as (I1 & I2 & I3). split.
    - intros H. destruct (fs_get p f) as [n'|] eqn:Hf; [rewrite (I1 _ eq_refl) in H; exact H|].
      destruct (path_prefixb p levels) eqn:Hp.
      + destruct p as [|x p].
        * rewrite I3 in H; [discriminate|reflexivity|intros [? _]; congruence].
        * rewrite I2 in H; [inversion H; congruence|reflexivity|split; [discriminate|first [exact Hp|reflexivity]]].
      + rewrite I3 in H; [discriminate|reflexivity|intros [_ ?]; congruence].
    - apply I1. }
  destruct (is_nil b) eqn:Hb.
  - (* directory member *)
    assert (He : entry_path m = None) by (unfold entry_path; fold b; now rewrite Hb).
    split; [exact D1| |].
    + intros p d. rewrite N1 by discriminate. rewrite (f_file _ _ F). split.
      * intros (m' & H1 & H2 & H3). exists m'. splits; auto. apply in_or_app. now left.
      * intros (m' & H1 & H2 & H3). apply in_app_or in H1 as [H1|[<-|[]]]; [now exists m'|congruence].
    + intros p d. rewrite N1 by discriminate. rewrite (f_link _ _ F). split.
      * intros (m' & H1 & H2 & H3). exists m'. splits; auto. apply in_or_app. now left.
      * intros (m' & H1 & H2 & H3). apply in_app_or in H1 as [H1|[<-|[]]]; [now exists m'|congruence].
  - assert (Hbne : b <> []) by now apply is_nil_false.
    assert (Hep : entry_path m = Some (levels ++ [b])) by (unfold entry_path; fold b; now rewrite Hb).
    set (pe := levels ++ [b]) in *.
    assert (Hnotdir : ~ is_dirpath (done ++ [m]) pe \/ pe = []).
    { left. intros Hd. apply is_dirpath_snoc_inv in Hd as [[Hd|(m' & Hin & Hp)]|Hp].
      - unfold pe in Hd. destruct levels; discriminate.
      - eapply entry_clash_dir'; eauto.
      - apply path_prefixb_spec in Hp as [tl Hp]. fold levels in Hp. unfold pe in Hp.
        apply (f_equal (@length str)) in Hp. rewrite !app_length in Hp. simpl in Hp. lia. }
    assert (Hpe : pe <> []) by (unfold pe; destruct levels; discriminate).
    assert (KEY : forall node,
      finv (done ++ [m]) (fs_set pe node f1) <->
      finv (done ++ [m]) (fs_set pe node f1)) by (intros; reflexivity).
    clear KEY.
    assert (GEN : forall node,
       node <> TDir ->
       (forall d, node = TFile d <-> m_kind m = KFile d) ->
       (forall d, node = TLink d <-> m_kind m = KLink d) ->
       finv (done ++ [m]) (fs_set pe node f1)).
    { intros node Hnd HF HL. split.
      - intros p. destruct (list_eq_dec (list_eq_dec N.eq_dec) pe p) as [<-|Hne].
        + rewrite fs_get_set_same. split; [intros [= E]; congruence|].
          intros [_ Hd]. destruct Hnotdir; [contradiction|congruence].
        + rewrite fs_get_set_other by exact Hne. apply D1.
      - intros p d. destruct (list_eq_dec (list_eq_dec N.eq_dec) pe p) as [<-|Hne].
        + rewrite fs_get_set_same. split.
          * intros [= E]. exists m. splits; [apply in_or_app; right; now left|exact Hep|now apply HF].
          * intros (m' & H1 & H2 & H3). apply in_app_or in H1 as [H1|[<-|[]]].
            -- exfalso. eapply entry_clash_entry; eauto.
            -- f_equal. now apply HF.
        + rewrite fs_get_set_other by exact Hne. rewrite N1 by discriminate. rewrite (f_file _ _ F). split.
          * intros (m' & H1 & H2 & H3). exists m'. splits; auto. apply in_or_app. now left.
          * intros (m' & H1 & H2 & H3). apply in_app_or in H1 as [H1|[<-|[]]]; [now exists m'|].
            rewrite Hep in H2. congruence.
      - intros p d. destruct (list_eq_dec (list_eq_dec N.eq_dec) pe p) as [<-|Hne].
        + rewrite fs_get_set_same. split.
          * intros [= E]. exists m. splits; [apply in_or_app; right; now left|exact Hep|now apply HL].
          * intros (m' & H1 & H2 & H3). apply in_app_or in H1 as [H1|[<-|[]]].
            -- exfalso. eapply entry_clash_entry; eauto.
            -- f_equal. now apply HL.
        + rewrite fs_get_set_other by exact Hne. rewrite N1 by discriminate. rewrite (f_link _ _ F). split.
          * intros (m' & H1 & H2 & H3). exists m'. splits; auto. apply in_or_app. now left.
          * intros (m' & H1 & H2 & H3). apply in_app_or in H1 as [H1|[<-|[]]]; [now exists m'|].
            rewrite Hep in H2. congruence. }
    destruct (m_kind m) as [data| |dest] eqn:Hk.
    + apply GEN; [discriminate| |]; intros d; split; congruence.
    + exfalso. apply Hbne. now apply name_ok_kdir.
    + apply GEN; [discriminate| |]; intros d; split; congruence.
Qed.

Lemma extract_spec rest : forall done f,
  finv done f -> wf_zip (done ++ rest) = true -> finv (done ++ rest) (fold_left extract_step rest f).
Proof.
  induction rest as [|m r IH]; intros done f F W; simpl.
  - now rewrite app_nil_r.
  - pose proof (wf_zip_compat _ _ _ W) as Hc.
    replace (done ++ m :: r) with ((done ++ [m]) ++ r) in * by now rewrite <- app_assoc.
    apply IH; [now apply extract_step_spec|exact W].
Qed.

Lemma extract_ok ms : wf_zip ms = true -> finv ms (extract ms).
Proof. intros W. apply (extract_spec ms [] [] finv0 W). Qed.
