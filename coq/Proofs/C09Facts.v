(* C09Facts.v — lemmas behind Props/C09.v (gophermap files rendered line for line). *)
From Coq Require Import String ZArith Lia.
From PG Require Import Lib.Str Lib.StrFacts Lib.Dec Lib.PyInt Model.Entry Model.Render0
  Model.Gophermap Model.GophermapSpec.
Local Open Scope N_scope.

(* ====================================================================== *)
(* 1. the loop of prepare() = classify every line, first exception wins    *)
(* ====================================================================== *)
Fixpoint traverse {A B : Type} (f : A -> result B) (l : list A) : result (list B) :=
  match l with
  | [] => Ok []
  | x :: r =>
      match f x with
      | Raise e => Raise e
      | Ok y => match traverse f r with
                | Ok ys => Ok (y :: ys)
                | Raise e => Raise e
                end
      end
  end.

Section Loop.
Variable fs_exists : str -> bool.
Variable populate : str -> entry -> entry.
Variable base : str.
Notation cls := (classify fs_exists populate base).

Lemma loop_traverse lines : forall acc,
  gophermap_loop fs_exists populate base acc lines =
  match traverse cls lines with
  | Ok es => Ok (acc ++ es)
  | Raise x => Raise x
  end.
Proof.
  induction lines as [|l r IH]; intros acc; simpl.
  - now rewrite app_nil_r.
  - destruct (cls l) as [e|x]; [|reflexivity].
    rewrite IH. destruct (traverse cls r) as [es|x]; [|reflexivity].
    now rewrite <- app_assoc.
Qed.

Lemma entries_traverse lines :
  gophermap_entries fs_exists populate base lines = traverse cls lines.
Proof.
  unfold gophermap_entries. rewrite loop_traverse.
  destruct (traverse cls lines); reflexivity.
Qed.

Lemma traverse_ok_Forall2 lines : forall es,
  traverse cls lines = Ok es <-> Forall2 (fun l e => cls l = Ok e) lines es.
Proof.
  induction lines as [|l r IH]; intros es; simpl.
  - split.
    + intros [= <-]. constructor.
    + intros H. inversion H. reflexivity.
  - split.
    + destruct (cls l) as [e|x] eqn:E; [|discriminate].
      destruct (traverse cls r) as [ys|x] eqn:T; [|discriminate].
      intros [= <-]. constructor; [assumption | now apply IH].
    + intros H. inversion H as [|l' e r' es' Hl Hr]; subst.
      rewrite Hl. apply IH in Hr. now rewrite Hr.
Qed.

Lemma traverse_raise lines : forall x,
  traverse cls lines = Raise x <->
  exists pre bad post, lines = pre ++ bad :: post /\ cls bad = Raise x /\
                       Forall (fun l => exists e, cls l = Ok e) pre.
Proof.
  induction lines as [|l r IH]; intros x; simpl.
  - split; [discriminate|]. intros (pre & bad & post & H & _). now destruct pre.
  - split.
    + destruct (cls l) as [e|y] eqn:E.
      * destruct (traverse cls r) as [ys|y] eqn:T; [discriminate|].
        intros [= ->]. destruct (proj1 (IH x) eq_refl) as (pre & bad & post & -> & Hb & Hp).
        exists (l :: pre), bad, post. repeat split; [assumption|].
        constructor; [now exists e | assumption].
      * intros [= ->]. exists [], l, r. repeat split; [assumption | constructor].
    + intros (pre & bad & post & H & Hb & Hp).
      destruct pre as [|p pre]; simpl in H; inversion H; subst.
      * now rewrite Hb.
      * inversion Hp as [|? ? [e He] Hp']; subst. rewrite He.
        assert (T : traverse cls (pre ++ bad :: post) = Raise x).
        { apply IH. exists pre, bad, post. auto. }
        now rewrite T.
Qed.

(* ---- C09_one_per_line ---- *)
Lemma one_per_line lines es :
  gophermap_entries fs_exists populate base lines = Ok es ->
  List.length es = List.length lines /\
  forall i l, nth_error lines i = Some l ->
    exists e, nth_error es i = Some e /\ cls l = Ok e.
Proof.
  rewrite entries_traverse, traverse_ok_Forall2. intros H.
  induction H as [|l e r es' Hl Hr [IHlen IHnth]]; simpl.
  - split; [reflexivity|]. intros [|i] l; discriminate.
  - split; [now rewrite IHlen|].
    intros [|i] l'; simpl.
    + intros [= <-]. now exists e.
    + apply IHnth.
Qed.

Lemma all_ok_entries lines :
  (forall l, In l lines -> exists e, cls l = Ok e) ->
  exists es, gophermap_entries fs_exists populate base lines = Ok es.
Proof.
  rewrite entries_traverse. induction lines as [|l r IH]; intros H; simpl.
  - now exists [].
  - destruct (H l (or_introl eq_refl)) as [e ->].
    destruct IH as [es ->]; [intros l' Hl'; apply H; now right|].
    now exists (e :: es).
Qed.

Lemma raise_first_bad_line lines x :
  gophermap_entries fs_exists populate base lines = Raise x <->
  exists pre bad post, lines = pre ++ bad :: post /\ cls bad = Raise x /\
                       Forall (fun l => exists e, cls l = Ok e) pre.
Proof. rewrite entries_traverse. apply traverse_raise. Qed.

End Loop.

(* ====================================================================== *)
(* 2. lines_keepends cuts the content into its lines and loses nothing     *)
(* ====================================================================== *)
Definition line_shape (l : str) : Prop := l <> [] /\ mem_N 10 (removelast l) = false.

Lemma lines_keepends_aux_concat s : forall cur,
  concat (lines_keepends_aux cur s) = rev cur ++ s.
Proof.
  induction s as [|x s IH]; intros cur; simpl.
  - destruct cur; simpl; [reflexivity | now rewrite !app_nil_r].
  - destruct (x =? 10); simpl.
    + rewrite IH. simpl. now rewrite <- app_assoc.
    + rewrite IH. simpl. now rewrite <- app_assoc.
Qed.

Lemma mem_N_false_notin x l : mem_N x l = false <-> ~ In x l.
Proof.
  split.
  - intros H Hin. apply mem_N_In in Hin. congruence.
  - intros H. destruct (mem_N x l) eqn:E; [|reflexivity]. apply mem_N_In in E. contradiction.
Qed.

Lemma In_removelast (x : N) l : In x (removelast l) -> In x l.
Proof.
  destruct l as [|y l]; [intros []|]. intros H.
  rewrite (app_removelast_last 0 (l := y :: l)) by discriminate.
  apply in_or_app. now left.
Qed.

Lemma lines_keepends_aux_shape s : forall cur,
  mem_N 10 cur = false -> Forall line_shape (lines_keepends_aux cur s).
Proof.
  induction s as [|x s IH]; intros cur Hc; simpl.
  - destruct cur as [|c cur]; constructor; [|constructor]. split.
    + intros E. apply (f_equal (@List.length N)) in E. rewrite rev_length in E. discriminate.
    + apply mem_N_false_notin. intros Hin. apply In_removelast, in_rev in Hin.
      apply mem_N_false_notin in Hc. contradiction.
  - destruct (x =? 10) eqn:E.
    + constructor; [|apply IH; reflexivity]. split.
      * simpl. now destruct (rev cur).
      * simpl. rewrite removelast_last. apply mem_N_false_notin. intros Hin.
        apply in_rev in Hin. apply mem_N_false_notin in Hc. contradiction.
    + apply IH. cbn [mem_N]. rewrite N.eqb_sym, E. exact Hc.
Qed.

Lemma lines_partition content :
  concat (lines_keepends content) = content /\ Forall line_shape (lines_keepends content).
Proof.
  unfold lines_keepends. split.
  - now rewrite lines_keepends_aux_concat.
  - now apply lines_keepends_aux_shape.
Qed.

(* ====================================================================== *)
(* 3. strip on strings without surrounding white space                     *)
(* ====================================================================== *)
Lemma forallb_rev_true {A} (f : A -> bool) l : forallb f l = true -> forallb f (rev l) = true.
Proof.
  intros H. apply forallb_forall. intros x Hin. apply in_rev in Hin.
  eapply forallb_forall in H; eauto.
Qed.

Lemma lstrip_spaces sp s : forallb is_space sp = true -> lstrip (sp ++ s) = lstrip s.
Proof.
  induction sp as [|c sp IH]; simpl; [reflexivity|].
  intros H. apply andb_true_iff in H as [H1 H2]. rewrite H1. now apply IH.
Qed.

Lemma rev_head_last (l : str) : l <> [] -> rev l = last l 0 :: rev (removelast l).
Proof.
  intros H. rewrite (app_removelast_last 0 H) at 1. now rewrite rev_app_distr.
Qed.

Lemma strip_clean_term f term :
  clean f = true -> forallb is_space term = true -> strip (f ++ term) = f.
Proof.
  intros Hc Ht. destruct f as [|c f].
  - simpl. unfold strip. rewrite <- (app_nil_r term), (lstrip_spaces _ _ Ht). reflexivity.
  - unfold clean in Hc. apply andb_true_iff in Hc as [H1 H2].
    apply negb_true_iff in H1, H2.
    unfold strip, rstrip. simpl app. cbn [lstrip]. rewrite H1.
    change (c :: f ++ term) with ((c :: f) ++ term).
    rewrite rev_app_distr, (lstrip_spaces _ _ (forallb_rev_true _ _ Ht)).
    rewrite (rev_head_last (c :: f)) by discriminate.
    cbn [lstrip]. rewrite H2.
    rewrite <- (rev_head_last (c :: f)) by discriminate. apply rev_involutive.
Qed.

Lemma strip_clean f : clean f = true -> strip f = f.
Proof. intros H. rewrite <- (app_nil_r f) at 1. now apply strip_clean_term. Qed.

(* ====================================================================== *)
(* 4. the line terminator                                                  *)
(* ====================================================================== *)
Lemma chomp_term line :
  exists term, line = chomp line ++ term /\ forallb is_space term = true /\ mem_N 9 term = false.
Proof.
  unfold chomp.
  destruct (last_char line) as [c|] eqn:L1.
  - destruct (c =? SP_LF) eqn:E1.
    + apply N.eqb_eq in E1; subst c. pose proof (last_char_some _ _ L1) as H1.
      destruct (last_char (drop_last line)) as [d|] eqn:L2.
      * destruct (d =? SP_CR) eqn:E2.
        -- apply N.eqb_eq in E2; subst d. pose proof (last_char_some _ _ L2) as H2.
           exists [SP_CR; SP_LF]. split; [|split; reflexivity].
           rewrite H1 at 1. rewrite H2 at 1. now rewrite <- app_assoc.
        -- exists [SP_LF]. split; [exact H1|split; reflexivity].
      * exists [SP_LF]. split; [exact H1|split; reflexivity].
    + rewrite L1. destruct (c =? SP_CR) eqn:E2.
      * apply N.eqb_eq in E2; subst c. exists [SP_CR]. split; [|split; reflexivity].
        now apply last_char_some.
      * exists []. rewrite app_nil_r. split; [reflexivity|split; reflexivity].
  - rewrite L1. exists []. rewrite app_nil_r. split; [reflexivity|split; reflexivity].
Qed.

Lemma mem_N_app x a b : mem_N x (a ++ b) = mem_N x a || mem_N x b.
Proof. induction a as [|y a IH]; simpl; [reflexivity|]. now rewrite IH, orb_assoc. Qed.

(* ====================================================================== *)
(* 5. split_on / split_once                                                *)
(* ====================================================================== *)
Lemma split_on_app_last c s t :
  mem_N c t = false ->
  exists init lst, split_on c s = init ++ [lst] /\ split_on c (s ++ t) = init ++ [lst ++ t].
Proof.
  intros Ht. induction s as [|x s (init & lst & H1 & H2)]; simpl.
  - exists [], []. split; [reflexivity|]. simpl. now apply split_on_no_sep.
  - destruct (x =? c).
    + exists ([] :: init), lst. rewrite H1, H2. now split.
    + rewrite H1, H2. destruct init as [|f r]; simpl.
      * exists [], (x :: lst). now split.
      * exists ((x :: f) :: r), lst. now split.
Qed.

Lemma split_on_once c s :
  split_on c s = let '(a, r) := split_once c s in
                 a :: match r with None => [] | Some b => split_on c b end.
Proof.
  induction s as [|x s IH]; simpl; [reflexivity|].
  destruct (x =? c); [reflexivity|].
  destruct (split_once c s) as [a r]. now rewrite IH.
Qed.

Lemma split_on_singleton c s f : split_on c s = [f] -> s = f /\ mem_N c s = false.
Proof.
  revert f. induction s as [|x s IH]; intros f; simpl.
  - intros [= <-]. now split.
  - destruct (x =? c) eqn:E.
    + intros H. inversion H as [[H1 H2]]. now apply split_on_nonempty in H2.
    + destruct (split_on c s) as [|g r] eqn:S; [now apply split_on_nonempty in S|].
      intros H. inversion H; subst. destruct (IH g eq_refl) as [-> Hm].
      split; [reflexivity|]. now rewrite N.eqb_sym, E.
Qed.

Lemma split_once_none c s : mem_N c s = false -> split_once c s = (s, None).
Proof.
  induction s as [|x s IH]; simpl; [reflexivity|].
  rewrite N.eqb_sym. intros H. apply orb_false_iff in H as [H1 H2].
  now rewrite H1, (IH H2).
Qed.

Lemma split_on_two c s a b r : split_on c s = a :: b :: r -> mem_N c s = true.
Proof.
  intros H. destruct (mem_N c s) eqn:E; [reflexivity|].
  rewrite (split_on_no_sep _ _ E) in H. discriminate.
Qed.

(* ====================================================================== *)
(* 6. int() on a string of ASCII digits                                    *)
(* ====================================================================== *)
Lemma digit_not_c_space c : is_ascii_digit c = true -> is_c_space c = false.
Proof.
  unfold is_ascii_digit, is_c_space. intros H. apply andb_true_iff in H as [H1 H2].
  apply N.leb_le in H1, H2. apply orb_false_iff. split.
  - apply andb_false_iff. right. apply N.leb_gt. lia.
  - apply N.eqb_neq. lia.
Qed.

Lemma lstrip_c_digits l : forallb is_ascii_digit l = true -> lstrip_c l = l.
Proof.
  destruct l as [|c l]; [reflexivity|]. simpl. intros H. apply andb_true_iff in H as [H _].
  now rewrite (digit_not_c_space _ H).
Qed.

Lemma strip_c_digits l : forallb is_ascii_digit l = true -> strip_c l = l.
Proof.
  intros H. unfold strip_c. rewrite (lstrip_c_digits _ H).
  rewrite (lstrip_c_digits _ (forallb_rev_true _ _ H)). apply rev_involutive.
Qed.

Lemma digits_us_digits p : forall acc cnt,
  forallb is_ascii_digit p = true ->
  exists n, digits_to_N_aux acc p = Some n /\
            digits_us acc cnt false p = Some (n, cnt + N.of_nat (List.length p)).
Proof.
  induction p as [|c p IH]; intros acc cnt H.
  - exists acc. simpl. now rewrite N.add_0_r.
  - simpl in H. apply andb_true_iff in H as [H1 H2].
    destruct (IH (acc * 10 + (c - 48)) (cnt + 1) H2) as (n & Hn1 & Hn2).
    exists n. cbn [digits_to_N_aux digits_us]. rewrite H1. split; [exact Hn1|].
    rewrite Hn2. f_equal. f_equal. cbn [List.length]. lia.
Qed.

Lemma py_int_digits p :
  p <> [] -> wf_port p = true -> py_int p = option_map Z.of_N (parse_dec p).
Proof.
  intros Hne H. unfold wf_port in H. apply andb_true_iff in H as [Hd Hl].
  unfold py_int. rewrite (strip_c_digits _ Hd).
  destruct p as [|c r]; [contradiction|].
  pose proof Hd as Hd'. cbn [forallb] in Hd'. apply andb_true_iff in Hd' as [Hc _].
  assert (Hc' := Hc). unfold is_ascii_digit in Hc'. apply andb_true_iff in Hc' as [Hc1 Hc2].
  apply N.leb_le in Hc1, Hc2.
  assert (E1 : c =? MINUS_SIGN = false) by (apply N.eqb_neq; unfold MINUS_SIGN; lia).
  assert (E2 : c =? PLUS = false) by (apply N.eqb_neq; unfold PLUS; lia).
  rewrite E1, E2. unfold int_magnitude. rewrite Hc.
  destruct (digits_us_digits (c :: r) 0 0 Hd) as (n & Hn1 & Hn2).
  rewrite Hn2. unfold parse_dec. rewrite Hn1.
  assert (E3 : INT_MAX_STR_DIGITS <? 0 + N.of_nat (List.length (c :: r)) = false).
  { apply N.ltb_ge. apply N.leb_le in Hl. unfold INT_MAX_STR_DIGITS. lia. }
  now rewrite E3.
Qed.

(* ====================================================================== *)
(* 7. selector resolution: the code's test = the documents' rule           *)
(* ====================================================================== *)
Lemma slice04_url s : str_eqb (slice 0 4 s) GM_URL = prefixb GM_URL s.
Proof.
  unfold slice, GM_URL. cbn [Nat.sub skipn].
  destruct s as [|a [|b [|c [|d r]]]]; cbn [firstn str_eqb prefixb];
    rewrite ?(N.eqb_sym a), ?(N.eqb_sym b), ?(N.eqb_sym c), ?(N.eqb_sym d);
    rewrite ?andb_false_r, ?andb_true_r; reflexivity.
Qed.

Lemma resolve_selector_spec dir sel :
  sel <> [] ->
  resolve_selector (gm_selectorbase dir) sel =
  Ok (if starts_with (lit "/"%string) sel || starts_with (lit "URL:"%string) sel
      then sel else join_dir dir sel).
Proof.
  intros Hne. destruct sel as [|c s]; [contradiction|].
  unfold resolve_selector. rewrite slice04_url.
  change (lit "/"%string) with [GM_SLASH]. change (lit "URL:"%string) with GM_URL.
  unfold starts_with. change (prefixb [GM_SLASH] (c :: s)) with ((GM_SLASH =? c) && true).
  rewrite andb_true_r, (N.eqb_sym GM_SLASH c).
  destruct (c =? GM_SLASH); cbn [negb andb orb]; [reflexivity|].
  destruct (prefixb GM_URL (c :: s)); cbn [negb]; [reflexivity|].
  unfold join_dir, gm_selectorbase. change (lit "/"%string) with [GM_SLASH].
  destruct (str_eqb dir [GM_SLASH]); reflexivity.
Qed.

(* ====================================================================== *)
(* 8. the documents' reading, field by field                               *)
(* ====================================================================== *)
Definition port_of (f : str) : option Z :=
  match f with [] => None | _ => option_map Z.of_N (parse_dec f) end.

Definition item_of_fields (dir : str) (fs : list str) : gmitem :=
  match fs with
  | [] => GInfo []
  | [text] => GInfo text
  | first :: rest =>
      GLink (hd 0 first) (tl first) (spec_selector dir (tl first) (nth 0 rest []))
            (opt_field (nth 1 rest [])) (port_of (nth 2 rest []))
  end.

Lemma spec_item_fields dir line :
  (List.length (split_on SP_TAB (chomp line)) <= 4)%nat ->
  spec_item dir line = item_of_fields dir (split_on SP_TAB (chomp line)).
Proof.
  unfold spec_item. set (body := chomp line). clearbody body.
  rewrite (split_on_once SP_TAB body).
  destruct (split_once SP_TAB body) as [f0 [b1|]]; [|reflexivity].
  rewrite (split_on_once SP_TAB b1).
  destruct (split_once SP_TAB b1) as [f1 [b2|]]; [|reflexivity].
  rewrite (split_on_once SP_TAB b2).
  destruct (split_once SP_TAB b2) as [f2 [b3|]]; [|reflexivity].
  intros Hlen. cbn [List.length] in Hlen.
  destruct (split_on SP_TAB b3) as [|g [|g' r]] eqn:S.
  - now apply split_on_nonempty in S.
  - apply split_on_singleton in S as [-> _]. reflexivity.
  - cbn [List.length] in Hlen. lia.
Qed.

(* ====================================================================== *)
(* 9. C09_spec: on well-formed lines the classifier IS the documents' reading *)
(* ====================================================================== *)
Definition link_entry (t : N) (d sel : str) (h : option str) (p : option Z) : entry :=
  mkEntry sel (Some [t]) (Some d) h p None None None None None None None 0%Z false false [].

Section Spec.
Variable fs_exists : str -> bool.
Variable populate : str -> entry -> entry.
Notation plocal := (populate_local fs_exists populate).

Lemma classify_link_wf dir f0 rest :
  (2 <= List.length f0)%nat -> (1 <= List.length rest <= 3)%nat ->
  wf_port (nth 2 rest []) = true ->
  classify_link fs_exists populate (gm_selectorbase dir) (f0 :: rest) =
  Ok (plocal (item_entry (item_of_fields dir (f0 :: rest)))).
Proof.
  intros H0 Hr Hp.
  destruct f0 as [|t [|d f0]]; cbn [List.length] in H0; try lia.
  destruct rest as [|f1 rest]; cbn [List.length] in Hr; try lia.
  unfold classify_link. cbn [slice_from skipn].
  match goal with |- context [resolve_selector _ ?x] => set (sel0 := x) end.
  assert (Hsel : sel0 <> []) by (subst sel0; destruct f1; discriminate).
  rewrite (resolve_selector_spec dir sel0 Hsel).
  unfold item_of_fields. cbn [hd tl nth].
  match goal with |- context [new_entry ?x] => set (sel := x) end.
  assert (Hspec : spec_selector dir (d :: f0) f1 = sel)
    by (subst sel sel0; unfold spec_selector; destruct f1; reflexivity).
  rewrite Hspec. clear Hspec. clearbody sel. clear Hsel. clearbody sel0. clear sel0.
  destruct rest as [|f2 rest].
  - (* description + selector *)
    unfold nonempty_arg. cbn [nth_error nth opt_field port_of item_entry]. reflexivity.
  - destruct rest as [|f3 rest].
    + (* ... + host *)
      unfold nonempty_arg. cbn [nth_error nth port_of item_entry].
      destruct f2; reflexivity.
    + destruct rest as [|f4 rest]; [|cbn [List.length] in Hr; lia].
      (* ... + host + port *)
      cbn [nth] in Hp. unfold nonempty_arg. cbn [nth_error nth item_entry].
      destruct f3 as [|c3 f3].
      * destruct f2; reflexivity.
      * rewrite (py_int_digits (c3 :: f3)) by (discriminate || exact Hp).
        unfold port_of.
        assert (Hsome : exists n, parse_dec (c3 :: f3) = Some n).
        { unfold wf_port in Hp. apply andb_true_iff in Hp as [Hd _].
          destruct (digits_us_digits (c3 :: f3) 0 0 Hd) as (n & Hn & _).
          exists n. exact Hn. }
        destruct Hsome as [n Hn]. rewrite Hn. cbn [option_map].
        destruct f2; reflexivity.
Qed.

Lemma link_args_wf line :
  forallb clean (split_on SP_TAB (chomp line)) = true ->
  link_args line = split_on SP_TAB (chomp line).
Proof.
  intros Hc. destruct (chomp_term line) as (term & Hline & Hsp & Htab).
  unfold link_args. rewrite Hline at 1.
  change GM_TAB with SP_TAB.
  destruct (split_on_app_last SP_TAB (chomp line) term Htab) as (init & lst & H1 & H2).
  rewrite H2, H1. rewrite H1 in Hc. rewrite forallb_app in Hc.
  apply andb_true_iff in Hc as [Hi Hl]. cbn [forallb] in Hl. rewrite andb_true_r in Hl.
  rewrite map_app. cbn [map]. rewrite (strip_clean_term _ _ Hl Hsp). f_equal.
  clear H1 H2. induction init as [|f r IH]; [reflexivity|].
  cbn [forallb] in Hi. apply andb_true_iff in Hi as [Hf Hr].
  cbn [map]. now rewrite (strip_clean _ Hf), (IH Hr).
Qed.

Lemma classify_wf dir line :
  wf_gmline line = true ->
  classify fs_exists populate (gm_selectorbase dir) line = Ok (plocal (spec_entry dir line)).
Proof.
  unfold wf_gmline. intros H. apply andb_true_iff in H as [_ H].
  destruct (chomp_term line) as (term & Hline & Hsp & Htab).
  unfold classify, is_link_line, spec_entry. change GM_TAB with SP_TAB.
  assert (Hmem : mem_N SP_TAB line = mem_N SP_TAB (chomp line)).
  { rewrite Hline at 1. rewrite mem_N_app. change SP_TAB with 9. now rewrite Htab, orb_false_r. }
  rewrite Hmem.
  destruct (split_on SP_TAB (chomp line)) as [|f0 [|f1 rest]] eqn:Hs; [discriminate| |].
  - (* informational text *)
    apply split_on_singleton in Hs as [Hbody Hno]. rewrite Hno.
    unfold spec_item. rewrite (split_once_none _ _ Hno). cbn [item_entry].
    rewrite Hline at 1. rewrite Hbody. rewrite (strip_clean_term _ _ H Hsp).
    reflexivity.
  - (* link *)
    rewrite (split_on_two _ _ _ _ _ Hs).
    apply andb_true_iff in H as [H Hport]. apply andb_true_iff in H as [H Hclean].
    apply andb_true_iff in H as [Hl0 Hlr].
    apply Nat.leb_le in Hl0, Hlr.
    rewrite link_args_wf by (rewrite Hs; exact Hclean).
    rewrite spec_item_fields by (rewrite Hs; cbn [List.length] in *; lia).
    rewrite Hs. apply classify_link_wf; [exact Hl0 | unfold str in *; cbn [List.length] in *; lia | exact Hport].
Qed.

End Spec.

(* ====================================================================== *)
(* 10. whole files; the documented fields survive the file-system lookup   *)
(* ====================================================================== *)
Section Spec2.
Variable fs_exists : str -> bool.
Variable populate : str -> entry -> entry.
Notation plocal := (populate_local fs_exists populate).

Lemma wf_file dir lines :
  Forall (fun l => wf_gmline l = true) lines ->
  gophermap_entries fs_exists populate (gm_selectorbase dir) lines =
  Ok (map (fun l => plocal (spec_entry dir l)) lines).
Proof.
  rewrite entries_traverse. induction 1 as [|l r Hl Hr IH]; simpl; [reflexivity|].
  now rewrite (classify_wf _ _ _ _ Hl), IH.
Qed.

Lemma spec_entry_shape dir line :
  wf_gmline line = true ->
  (exists text, spec_entry dir line = info_entry text) \/
  (exists t d sel h p, d <> [] /\ spec_entry dir line = link_entry t d sel h p).
Proof.
  unfold wf_gmline, spec_entry. intros H. apply andb_true_iff in H as [_ H].
  destruct (split_on SP_TAB (chomp line)) as [|f0 [|f1 rest]] eqn:Hs; [discriminate| |].
  - left. apply split_on_singleton in Hs as [_ Hno]. unfold spec_item.
    rewrite (split_once_none _ _ Hno). now eexists.
  - right. apply andb_true_iff in H as [H _]. apply andb_true_iff in H as [H _].
    apply andb_true_iff in H as [Hl0 Hlr]. apply Nat.leb_le in Hl0, Hlr.
    rewrite spec_item_fields by (rewrite Hs; unfold str in *; cbn [List.length] in *; lia).
    rewrite Hs. destruct f0 as [|t [|d f0]]; cbn [List.length] in Hl0; try lia.
    unfold item_of_fields. cbn [hd tl item_entry].
    eexists t, (d :: f0), _, _, _. split; [discriminate | reflexivity].
Qed.

Definition expected_gplus (s : entry) : bool :=
  match e_host s, e_port s with
  | None, None => fs_exists (e_selector s)
  | _, _ => false
  end.

Lemma classify_wf_fields dir line :
  populate_sound populate -> wf_gmline line = true ->
  exists e, classify fs_exists populate (gm_selectorbase dir) line = Ok e /\
    e_type e = e_type (spec_entry dir line) /\
    e_name e = e_name (spec_entry dir line) /\
    e_selector e = e_selector (spec_entry dir line) /\
    e_host e = e_host (spec_entry dir line) /\
    e_port e = e_port (spec_entry dir line) /\
    e_gopherpsupport e = expected_gplus (spec_entry dir line).
Proof.
  intros Hp Hwf. rewrite (classify_wf _ _ _ _ Hwf). eexists. split; [reflexivity|].
  destruct (spec_entry_shape dir line Hwf) as [[text ->] | (t & d & sel & h & p & Hd & ->)].
  - unfold populate_local, expected_gplus. cbn. repeat split.
  - unfold populate_local, expected_gplus, link_entry. cbn [e_host e_port e_selector].
    destruct h as [h|]; [cbn; repeat split|].
    destruct p as [p|]; [cbn; repeat split|].
    destruct (fs_exists sel); [|cbn; repeat split].
    match goal with |- context [populate sel ?x] => set (s := x) end.
    destruct (Hp sel s eq_refl) as (H1 & H2 & H3 & H4 & H5 & _ & H7).
    destruct d as [|c d]; [contradiction|].
    rewrite H1, H2, H3, H7, (H4 eq_refl), (H5 eq_refl). repeat split.
Qed.

Lemma classify_has_name base line e :
  populate_sound populate ->
  classify fs_exists populate base line = Ok e -> e_name e <> None.
Proof.
  intros Hp. unfold classify. destruct (is_link_line line).
  - unfold classify_link. destruct (link_args line) as [|a0 [|a1 r]]; try discriminate.
    destruct (resolve_selector base _) as [selector|]; [|discriminate].
    destruct a0 as [|t a0]; [discriminate|].
    assert (K : forall x, e_populated x = false -> e_name x <> None -> e_name (plocal x) <> None).
    { intros x Hx Hn. unfold populate_local. destruct (e_host x); [exact Hn|].
      destruct (e_port x); [exact Hn|]. destruct (fs_exists (e_selector x)); [|exact Hn].
      destruct (Hp (e_selector x) x Hx) as (_ & _ & _ & _ & _ & H6 & _). now apply H6. }
    destruct (nonempty_arg 3 _) as [p|].
    + destruct (py_int p); [|discriminate]. intros [= <-].
      apply K; destruct (nonempty_arg 2 _); cbn; (reflexivity || discriminate).
    + intros [= <-]. apply K; destruct (nonempty_arg 2 _); cbn; (reflexivity || discriminate).
  - intros [= <-]. cbn. discriminate.
Qed.

End Spec2.

Lemma populate_core_sound fb : populate_sound (populate_core fb).
Proof.
  intros sel e He. unfold populate_core. rewrite He. cbn.
  repeat split.
  - unfold or_str. now intros ->.
  - unfold or_str. now intros ->.
  - unfold or_str. destruct (truthy_str (e_name e)); [auto | discriminate].
Qed.

(* ====================================================================== *)
(* 11. the same entry list feeds every protocol's renderer                 *)
(* ====================================================================== *)
Lemma writedir_loop_spec render es : forall out,
  writedir_loop render out es =
  option_map (fun items => out ++ concat items) (sequence (map render es)).
Proof.
  induction es as [|e r IH]; intros out; simpl.
  - now rewrite app_nil_r.
  - destruct (render e) as [s|]; [|reflexivity].
    rewrite IH. destruct (sequence (map render r)); simpl; [|reflexivity].
    now rewrite app_assoc.
Qed.

Lemma writedir_spec pre post render es :
  writedir pre post render es =
  option_map (fun items => pre ++ concat items ++ post) (sequence (map render es)).
Proof.
  unfold writedir. rewrite writedir_loop_spec.
  destruct (sequence (map render es)); simpl; [|reflexivity]. now rewrite app_assoc.
Qed.

(* with both abstract options off, writedir_abs is writedir *)
Lemma writedir_abs_loop_off render es : forall out,
  writedir_abs_loop render false out es = writedir_loop render out es.
Proof.
  induction es as [|e r IH]; intros out; simpl; [reflexivity|].
  destruct (render e); [apply IH | reflexivity].
Qed.

Lemma writedir_abs_off pre post render listed es :
  writedir_abs false false pre post render listed es = writedir pre post render es.
Proof.
  unfold writedir_abs, writedir. now rewrite app_nil_r, writedir_abs_loop_off.
Qed.

(* with them on: header lines of the listed object's abstract, then every entry followed by its own abstract lines *)
Definition entry_with_abstract (render : entry -> option str) (e : entry) : option str :=
  match render e, renderabstract render (dict_get ABSTRACT_KEY (e_ea e)) with
  | Some s, Some a => Some (s ++ a)
  | _, _ => None
  end.

Lemma writedir_abs_loop_on render es : forall out,
  writedir_abs_loop render true out es =
  option_map (fun items => out ++ concat items) (sequence (map (entry_with_abstract render) es)).
Proof.
  induction es as [|e r IH]; intros out; simpl.
  - now rewrite app_nil_r.
  - unfold entry_with_abstract at 1. destruct (render e) as [s|]; [|reflexivity].
    destruct (renderabstract render (dict_get ABSTRACT_KEY (e_ea e))) as [a|]; [|reflexivity].
    rewrite IH. destruct (sequence (map (entry_with_abstract render) r)); simpl; [|reflexivity].
    now rewrite !app_assoc.
Qed.

Lemma all_protocols fs_exists populate base lines es :
  gophermap_entries fs_exists populate base lines = Ok es ->
  forall (render : entry -> option str) (pre post : str),
    writedir pre post render es =
      option_map (fun items => pre ++ concat items ++ post) (sequence (map render es)) /\
    List.length (map render es) = List.length lines /\
    forall i l, nth_error lines i = Some l ->
      exists e, classify fs_exists populate base l = Ok e /\
                nth_error (map render es) i = Some (render e).
Proof.
  intros H render pre post. destruct (one_per_line _ _ _ _ _ H) as [Hlen Hnth].
  split; [apply writedir_spec|]. split; [now rewrite map_length|].
  intros i l Hl. destruct (Hnth i l Hl) as (e & He & Hc). exists e. split; [exact Hc|].
  now apply map_nth_error.
Qed.

Lemma sequence_all_some {A B} (f : A -> option B) l :
  (forall x, In x l -> exists y, f x = Some y) ->
  exists ys, sequence (map f l) = Some ys /\ List.length ys = List.length l.
Proof.
  induction l as [|x l IH]; intros H; simpl.
  - now exists [].
  - destruct (H x (or_introl eq_refl)) as [y ->].
    destruct IH as (ys & -> & Hl); [intros z Hz; apply H; now right|].
    exists (y :: ys). simpl. now rewrite Hl.
Qed.

Lemma gopher0_line_some srv port e :
  e_name e <> None -> exists s, gopher0_line srv port e = Some s.
Proof.
  intros H. unfold gopher0_line, gopher0_payload, gopher0_fields.
  destruct (e_name e); [eexists; reflexivity | contradiction].
Qed.

Lemma gopher0_menu fs_exists populate base lines es srv port :
  populate_sound populate ->
  gophermap_entries fs_exists populate base lines = Ok es ->
  exists items,
    sequence (map (gopher0_line srv port) es) = Some items /\
    writedir [] [] (gopher0_line srv port) es = Some (concat items) /\
    List.length items = List.length lines.
Proof.
  intros Hp H.
  assert (F : Forall2 (fun l e => classify fs_exists populate base l = Ok e) lines es).
  { apply traverse_ok_Forall2. now rewrite <- entries_traverse. }
  assert (Hn : forall e, In e es -> exists s, gopher0_line srv port e = Some s).
  { intros e He. apply gopher0_line_some.
    clear H. induction F as [|l e' ls es' Hc F' IH]; [destruct He|].
    destruct He as [<-|He]; [eapply classify_has_name; eauto | now apply IH]. }
  destruct (sequence_all_some _ _ Hn) as (items & Hs & Hl).
  exists items. split; [exact Hs|]. split.
  - rewrite writedir_spec, Hs. simpl. now rewrite app_nil_r.
  - rewrite Hl. now destruct (one_per_line _ _ _ _ _ H).
Qed.

(* ====================================================================== *)
(* 12. which prefix relative links get                                     *)
(* ====================================================================== *)
(* the directory a listing belongs to, as the documents see it *)
Definition listing_dir (kind : nodekind) (sel : str) : str :=
  if gm_is_mapfile kind sel then py_dirname sel else sel.

Lemma linkbase_fixed_dir kind sel :
  gm_linkbase_fixed kind sel = gm_selectorbase (listing_dir kind sel).
Proof. unfold gm_linkbase_fixed, listing_dir. now destruct (gm_is_mapfile kind sel). Qed.

Lemma linkbase_pinned_not_mapfile kind sel :
  gm_is_mapfile kind sel = false ->
  gm_linkbase_pinned kind sel = gm_linkbase_fixed kind sel.
Proof. unfold gm_linkbase_pinned, gm_linkbase_fixed. now intros ->. Qed.

Lemma spec_listing fs_exists populate kind sel content :
  Forall (fun l => wf_gmline l = true) (lines_keepends content) ->
  gophermap_prepare fs_exists populate (gm_linkbase_fixed kind sel) content =
  Ok (map (fun l => populate_local fs_exists populate (spec_entry (listing_dir kind sel) l))
          (lines_keepends content)).
Proof.
  intros H. unfold gophermap_prepare. rewrite linkbase_fixed_dir. now apply wf_file.
Qed.

(* ====================================================================== *)
(* 13. recorded behaviour outside "well-formed" (witnesses by computation) *)
(* ====================================================================== *)
Definition no_fs : str -> bool := fun _ => false.
Definition all_fs : str -> bool := fun _ => true.
Definition id_pop : str -> entry -> entry := fun _ e => e.
Definition T9 : str := [9].
Definition NL : str := [10].

(* "<TAB>foo" : empty first field *)
Lemma empty_first_field_raises :
  classify no_fs id_pop [] (T9 ++ lit "foo"%string ++ NL) = Raise IndexError.
Proof. vm_compute. reflexivity. Qed.

(* "1<TAB>" : empty description and no selector *)
Lemma empty_selector_raises :
  classify no_fs id_pop [] (lit "1"%string ++ T9 ++ NL) = Raise IndexError.
Proof. vm_compute. reflexivity. Qed.

(* non-numeric port *)
Lemma bad_port_raises :
  classify no_fs id_pop []
    (lit "1a"%string ++ T9 ++ lit "/x"%string ++ T9 ++ lit "h"%string ++ T9 ++ lit "abc"%string ++ NL)
  = Raise ValueError.
Proof. vm_compute. reflexivity. Qed.

(* one such line takes the whole listing with it *)
Lemma one_bad_line_aborts_listing :
  exists x, gophermap_prepare no_fs id_pop []
    (lit "hello"%string ++ NL ++ lit "1"%string ++ T9 ++ NL ++ lit "0a"%string ++ T9 ++ lit "/a"%string ++ NL)
  = Raise x.
Proof. exists IndexError. vm_compute. reflexivity. Qed.

(* PINNED code, "*.gophermap" file: relative links are resolved below the FILE *)
Lemma mapfile_relative_pinned :
  let sel := lit "/d/x.gophermap"%string in
  let line := lit "0a"%string ++ T9 ++ lit "a.txt"%string ++ NL in
  gm_canhandle NFile false sel = true /\ wf_gmline line = true /\
  option_map e_selector
    (match classify no_fs id_pop (gm_linkbase_pinned NFile sel) line with Ok e => Some e | Raise _ => None end)
    = Some (lit "/d/x.gophermap/a.txt"%string) /\
  e_selector (spec_entry (listing_dir NFile sel) line) = lit "/d/a.txt"%string.
Proof. vm_compute. repeat split; reflexivity. Qed.

(* empty description + existing local target: the name comes from the file system *)
Lemma empty_description_renamed :
  option_map e_name
    (match classify all_fs (populate_core (fun _ => lit "0"%string)) []
             (lit "1"%string ++ T9 ++ lit "/docs/foo"%string ++ NL)
     with Ok e => Some e | Raise _ => None end)
  = Some (Some (lit "foo"%string)).
Proof. vm_compute. reflexivity. Qed.

(* an indented info line loses its indentation; white space around fields is dropped *)
Lemma info_indentation_lost :
  let line := lit "   centred"%string ++ NL in
  classify no_fs id_pop [] line = Ok (getinfoentry (lit "centred"%string)) /\
  spec_entry (lit "/"%string) line = info_entry (lit "   centred"%string) /\
  wf_gmline line = false.
Proof. vm_compute. repeat split; reflexivity. Qed.

Lemma field_padding_dropped :
  classify no_fs id_pop [] (lit " 1foo "%string ++ T9 ++ lit " bar "%string ++ [13; 10]) =
  classify no_fs id_pop [] (lit "1foo"%string ++ T9 ++ lit "bar"%string ++ NL).
Proof. vm_compute. reflexivity. Qed.

(* non-vacuity of the well-formedness predicate and of the theorem's conclusion *)
Lemma wf_example :
  let dir := lit "/lotsa"%string in
  let l1 := lit "Welcome to the menu"%string ++ NL in
  let l2 := lit "1Lots of stuff"%string ++ T9 ++ lit "stuff"%string ++ [13; 10] in
  let l3 := lit "1src"%string ++ T9 ++ NL in
  let l4 := lit "1home"%string ++ T9 ++ lit "/"%string ++ T9 ++ lit "gopher.ptloma.edu"%string ++ T9 ++ lit "70"%string in
  let l5 := lit "hweb"%string ++ T9 ++ lit "URL:http://example.org/"%string ++ NL in
  forallb wf_gmline [l1; l2; l3; l4; l5; NL] = true /\
  spec_item dir l1 = GInfo (lit "Welcome to the menu"%string) /\
  spec_item dir l2 = GLink 49 (lit "Lots of stuff"%string) (lit "/lotsa/stuff"%string) None None /\
  spec_item dir l3 = GLink 49 (lit "src"%string) (lit "/lotsa/src"%string) None None /\
  spec_item dir l4 = GLink 49 (lit "home"%string) (lit "/"%string) (Some (lit "gopher.ptloma.edu"%string)) (Some 70%Z) /\
  spec_item dir l5 = GLink 104 (lit "web"%string) (lit "URL:http://example.org/"%string) None None /\
  spec_item dir NL = GInfo [] /\
  option_map (map (gopher0_line (lit "gopher.somenetwork.com"%string) 7070%Z))
    (match gophermap_entries no_fs id_pop (gm_selectorbase dir) [l2] with Ok es => Some es | Raise _ => None end)
  = Some [Some (lit "1Lots of stuff"%string ++ T9 ++ lit "/lotsa/stuff"%string ++ T9 ++
                lit "gopher.somenetwork.com"%string ++ T9 ++ lit "7070"%string ++ [13; 10])].
Proof. vm_compute. repeat split; reflexivity. Qed.
