(* C12Facts.v — one unservable entry never takes down its directory. *)
From Coq Require Import ZArith Lia Permutation String.
From PG Require Import Lib.Str Lib.StrFacts Lib.Cmp Lib.Sort Lib.SortFacts Lib.Regex
  Gen.Ignore Model.Selector Model.DirEntry Model.UMN Model.Dir Proofs.DirFacts Proofs.C07Facts.
Local Open Scope N_scope.

(* the fault assignment: the children getHandler cannot find a handler for *)
Definition faulty (w : world) (n : str) : bool := negb (servable w n).

(* ---- the loop itself, for ANY names and ANY world (= any fault assignment) ---- *)
Lemma prep_entries_repaired_ok fx w names :
  fx_skip_child fx = true -> fx_skip_unreadable fx = true ->
  exists l, prep_entries (skip_of fx) (dir_child w) names = Ok l /\
            map fst l = filter (fun n => negb (faulty w n)) names /\
            (forall n ci, In n names -> child_entry w n = Ok ci -> In (n, ci_entry ci) l).
Proof.
  intros F G.
  destruct (prep_entries_total (skip_of fx) (dir_child w) names) as [l E].
  { intros n e _ C. apply (skip_of_survives fx e F G). now apply (dir_child_raises_notfound w n). }
  exists l. split; [exact E|]. split.
  - rewrite (prep_entries_names _ _ _ _ E). apply filter_ext_in'. intros n _.
    unfold faulty. rewrite negb_involutive. apply dir_child_listed.
  - intros n ci I C. eapply prep_entries_complete; eauto. unfold dir_child. now rewrite C.
Qed.

(* order of the survivors = their order among the names handed to the loop *)
Lemma prep_entries_order_preserved skip w names l :
  prep_entries skip (dir_child w) names = Ok l -> l = kept (dir_child w) names.
Proof. apply prep_entries_kept. Qed.

(* ---- whole DirHandler listing ---- *)
Lemma dir_others_kept fx alts w enum :
  fx_skip_child fx = true -> fx_skip_unreadable fx = true ->
  exists l, dir_listing fx alts w enum = Ok l /\
    map fst l = filter (fun n => negb (faulty w n)) (dir_files fx alts w enum) /\
    (forall n ci, In n enum -> visible_dir alts w n = true -> child_entry w n = Ok ci ->
                  In (n, ci_entry ci) l).
Proof.
  intros F G. unfold dir_listing.
  destruct (prep_entries_repaired_ok fx w (dir_files fx alts w enum) F G) as (l & E & Nm & Cp).
  exists l. split; [exact E|]. split; [exact Nm|].
  intros n ci I V C. apply Cp; [|exact C].
  apply (Permutation_in _ (Permutation_sym (dir_files_perm fx alts w enum))).
  apply filter_In. split; assumption.
Qed.

(* ---- UMN listing: the child loop is the same; link files and .cap files are
   content and may fail for their own reasons (IndexError on `Type=`), so the
   statement is about the outcome of the child loop ---- *)
Lemma umn_child_raises plf mode w n e :
  umn_child plf mode w n = Raise e ->
  (exists e', child_entry w n = Raise e' /\ e = e' /\ (e = FileNotFound \/ e = IOErr)) \/
  (exists ci, child_entry w n = Ok ci /\ umn_append plf mode (w_cap w n) n ci = Raise e).
Proof.
  unfold umn_child. destruct (child_entry w n) as [ci|e'] eqn:C; simpl.
  - intros H. right. eauto.
  - intros H. inversion H. subst. left. exists e. split; [reflexivity|]. split; [reflexivity|].
    exact (child_entry_raises_notfound _ _ _ C).
Qed.

Lemma umn_children_others_kept fx plf mode w names :
  fx_skip_child fx = true -> fx_skip_unreadable fx = true ->
  (forall n ci e, In n names -> child_entry w n = Ok ci -> umn_append plf mode (w_cap w n) n ci <> Raise e) ->
  exists l, prep_entries (skip_of fx) (umn_child plf mode w) names = Ok l /\
    forall n ci e, In n names -> child_entry w n = Ok ci ->
                   umn_append plf mode (w_cap w n) n ci = Ok (Some e) -> In (n, e) l.
Proof.
  intros F G Hcap.
  destruct (prep_entries_total (skip_of fx) (umn_child plf mode w) names) as [l E].
  { intros n e I R. destruct (umn_child_raises _ _ _ _ _ R) as [(e' & _ & _ & D)|(ci & C & A)].
    - now apply skip_of_survives.
    - exfalso. eapply Hcap; eauto. }
  exists l. split; [exact E|]. intros n ci e I C A.
  eapply prep_entries_complete; eauto. unfold umn_child. rewrite C. exact A.
Qed.

(* ---- the pinned loop: one faulty child aborts everything (D7) ---- *)
Definition d7_world : world :=
  mkWorld (lit "/d"%string)
    (fun n => if str_eqb n (lit "dangling"%string) then None else Some KFile)
    (fun n => mkChild (mkEntry (lit "/d/"%string ++ n) (Some 48) (Some n) None None (Some 0%Z) [] true) true false [])
    (fun n => None) (fun n => None).
Definition d7_enum : list str := [lit "a.txt"%string; lit "dangling"%string; lit "z.txt"%string].

Lemma pinned_refuted :
  exists w enum n, In n enum /\ faulty w n = false /\
    dir_listing pinned shipped_ignore w enum = Raise FileNotFound /\
    umn_listing pinned shipped_ignore StripNone w enum = Raise FileNotFound.
Proof.
  exists d7_world, d7_enum, (lit "a.txt"%string). split; [now left|].
  split; [vm_compute; reflexivity|]. split; vm_compute; reflexivity.
Qed.

(* a name the security filter rejects is faulty as well *)
Lemma pinned_refuted_dotdot :
  exists w enum, dir_listing pinned shipped_ignore w enum = Raise FileNotFound /\
                 exists l, dir_listing repaired shipped_ignore w enum = Ok l /\
                           map fst l = [lit "a.txt"%string].
Proof.
  exists (mkWorld (lit "/d"%string) (fun n => Some KFile) (w_info d7_world) (fun _ => None) (fun _ => None)),
         [lit "x..y"%string; lit "a.txt"%string].
  split; [vm_compute; reflexivity|]. eexists. split; vm_compute; reflexivity.
Qed.

(* non-vacuity of the positive statement: same world, repaired loop *)
Lemma d7_repaired :
  exists l, dir_listing repaired shipped_ignore d7_world d7_enum = Ok l /\
            map fst l = [lit "a.txt"%string; lit "z.txt"%string].
Proof. eexists. split; vm_compute; reflexivity. Qed.

(* D27: a child the handler chain accepts but cannot read (HTML title of an unreadable file) *)
Definition d27_world : world :=
  mkWorld (lit "/d"%string)
    (fun n => if str_eqb n (lit "locked.html"%string) then Some KUnreadable else Some KFile)
    (w_info d7_world) (fun _ => None) (fun _ => None).
Definition d27_enum : list str := [lit "a.txt"%string; lit "locked.html"%string; lit "z.txt"%string].
Definition head_before_d27 : fixes := mkFixes true true true true true true true false.

Lemma unreadable_refuted :
  dir_listing head_before_d27 shipped_ignore d27_world d27_enum = Raise IOErr /\
  umn_listing head_before_d27 shipped_ignore StripNone d27_world d27_enum = Raise IOErr /\
  exists l, dir_listing repaired shipped_ignore d27_world d27_enum = Ok l /\
            map fst l = [lit "a.txt"%string; lit "z.txt"%string].
Proof. split; [vm_compute; reflexivity|]. split; [vm_compute; reflexivity|]. eexists. split; vm_compute; reflexivity. Qed.
