(* C16Facts.v — assembly of the C16 statements. *)
From Coq Require Import Arith Lia String.
From PG Require Import Lib.Str Lib.StrFacts Lib.ZipPath Proofs.ZipPathFacts Model.Zip Model.ZipChain
  Proofs.C16Index Proofs.C16Extract Proofs.C16Cache Proofs.C16Loop Proofs.C16Chain.
Local Open Scope nat_scope.

Ltac splits := repeat match goal with |- _ /\ _ => split end.

Lemma plookup_qcomps t s : plookup t s = walk t 0 (qcomps s).
Proof. destruct s; reflexivity. Qed.

Lemma classify_dir t r i : classify t r = LDir i <-> (r = Some i /\ nth_error (t_kinds t) i = Some IDir).
Proof.
  unfold classify. destruct r as [j|]; [|split; [discriminate|intros [? _]; discriminate]].
  destruct (nth_error (t_kinds t) j) as [[|k]|] eqn:E; split; try discriminate.
  - intros [= <-]. now split.
  - intros [[= <-] _]. reflexivity.
  - intros [[= <-] H]. congruence.
  - intros [[= <-] H]. congruence.
Qed.
Lemma classify_file t r i k : classify t r = LFile i k <-> (r = Some i /\ nth_error (t_kinds t) i = Some (IFile k)).
Proof.
  unfold classify. destruct r as [j|]; [|split; [discriminate|intros [? _]; discriminate]].
  destruct (nth_error (t_kinds t) j) as [[|k']|] eqn:E; split; try discriminate.
  - intros [[= <-] H]. congruence.
  - intros [= <- <-]. now split.
  - intros [[= <-] H]. rewrite E in H. now inversion H.
  - intros [[= <-] H]. congruence.
Qed.

Lemma dir_names_In t i n : In n (dir_names t i) <-> exists j, eget (i, n) (t_edges t) = Some j.
Proof.
  unfold dir_names. rewrite in_map_iff. split.
  - intros ([[a k] j] & <- & H). apply filter_In in H as [H1 H2]. simpl in *. apply Nat.eqb_eq in H2. subst a.
    clear - H1. induction (t_edges t) as [|[k' v'] E IH]; [destruct H1|]. simpl.
    destruct (ekey_eqb (i, k) k') eqn:Q; [eauto|]. destruct H1 as [H1|H1]; [|now apply IH].
    inversion H1; subst. now rewrite ekey_eqb_refl in Q.
  - intros [j H]. exists ((i, n), j). split; [reflexivity|]. apply filter_In. split; [now apply eget_In|].
    simpl. apply Nat.eqb_refl.
Qed.

(* ---------- archives without links: the index is exactly what the names say ---------- *)
Lemma zip_lookup_spec v ms t c :
  wf_zip ms = true -> no_links ms = true -> populate v ms = Ok (t, c) ->
  forall s,
    let q := qcomps s in
    (forall k, (exists i, vfs_plookup t s = LFile i k) <-> is_entry ms k q) /\
    ((exists i, vfs_plookup t s = LDir i) <-> is_dirpath ms q) /\
    (forall i, vfs_plookup t s = LDir i ->
       forall n, In n (dir_names t i) <-> (is_dirpath ms (q ++ [n]) \/ exists k, is_entry ms k (q ++ [n]))).
Proof.
  intros W NL Hp s q.
  destruct (populate_no_links v ms W NL) as (t' & P & Hp' & G & C & L).
  rewrite Hp in Hp'. inversion Hp'; subst t' c. clear Hp'.
  unfold vfs_plookup. rewrite plookup_qcomps. fold q. splits.
  - intros k. rewrite <- (index_file t P ms q k G C). split.
    + intros [i H]. apply classify_file in H as [H1 H2]. now exists i.
    + intros (i & H1 & H2). exists i. apply classify_file. now split.
  - rewrite <- (index_dir t P ms q G C). split.
    + intros [i H]. apply classify_dir in H as [H1 H2]. now exists i.
    + intros (i & H1 & H2). exists i. apply classify_dir. now split.
  - intros i H n. apply classify_dir in H as [Hw Hk]. rewrite dir_names_In. split.
    + intros [j Hg].
      assert (Hwn : walk t 0 (q ++ [n]) = Some j) by (rewrite walk_app, Hw, walk_step, Hk; exact Hg).
      assert (Hj : j < length (t_kinds t)).
      { rewrite <- (g_len _ _ G). apply nth_error_Some. rewrite (walk_path _ _ _ _ G Hwn). discriminate. }
      destruct (nth_error (t_kinds t) j) as [[|k]|] eqn:Hkj; [| |apply nth_error_None in Hkj; lia].
      * left. apply (index_dir t P ms _ G C). now exists j.
      * right. exists k. apply (index_file t P ms _ k G C). now exists j.
    + intros [H|[k H]].
      * apply (index_dir t P ms _ G C) in H as (j & Hwn & _).
        rewrite walk_app, Hw, walk_step, Hk in Hwn. now exists j.
      * apply (index_file t P ms _ k G C) in H as (j & Hwn & _).
        rewrite walk_app, Hw, walk_step, Hk in Hwn. now exists j.
Qed.

(* a well-formed archive without links never makes populate_cache raise *)
Lemma populate_total_no_links v ms :
  wf_zip ms = true -> no_links ms = true -> exists t, populate v ms = Ok (t, no_caches).
Proof. intros W NL. destruct (populate_no_links v ms W NL) as (t & P & H & _). now exists t. Qed.

(* ---------- archives with links ---------- *)
From PG Require Import Proofs.C16Target Proofs.C16OsRes Proofs.C16Links.

Lemma canonb_plain s : canonb s = true -> Forall plain (qcomps s).
Proof.
  unfold canonb. destruct s as [|ch s]; [constructor|]. simpl orb. intros H. now apply forallb_plain.
Qed.

(* a well-formed archive with nice link targets never makes populate_cache raise,
   and the memo tables it leaves behind are consistent with the index *)
Lemma populate_ok ms :
  wf_zip ms = true -> nice_links ms = true ->
  exists t c, populate repaired ms = Ok (t, c) /\ labels_ok t /\ caches_ok t c.
Proof.
  intros W NL. destruct (phase1_ok repaired ms W) as (t1 & P & ps0 & H1 & G & C & PI).
  destruct (phase2_spec ms W NL t1 P ps0 G C PI) as (tF & cF & psf & Hl & LF & Cc & _ & _).
  exists tF, cF. unfold populate. rewrite H1. splits; auto.
  apply labels_plain_ok. apply LF.
Qed.

Definition agrees (ms : list member) (t : tbl) (s : str) : Prop :=
  let q := qcomps s in
  let f := extract ms in
  match vfs_plookup t s with
  | LAbsent => forall r, ~ os_res f [] q r
  | LFile _ k => exists r, os_res f [] q r /\ fs_get r f = Some (TFile (member_data ms k))
  | LDir i => exists r, os_res f [] q r /\ (r = [] \/ fs_get r f = Some TDir) /\
                (forall n, In n (dir_names t i) -> plain_comp n = true) /\
                (forall n, plain_comp n = true -> (In n (dir_names t i) <-> exists r', os_res f r [n] r'))
  end.

Lemma vfs_equal ms t c :
  wf_zip ms = true -> nice_links ms = true -> populate repaired ms = Ok (t, c) ->
  forall s, canonb s = true -> agrees ms t s.
Proof.
  intros W NL Hp s Hs. destruct (phase1_ok repaired ms W) as (t1 & P & ps0 & H1 & G & C & PI).
  destruct (phase2_spec ms W NL t1 P ps0 G C PI) as (tF & cF & psf & Hl & LF & Cc & H4 & H5).
  unfold populate in Hp. rewrite H1, Hl in Hp. inversion Hp; subst t c. clear Hp.
  pose proof (canonb_plain s Hs) as Hq.
  unfold agrees, vfs_plookup. rewrite plookup_qcomps. set (q := qcomps s) in *.
  pose proof (index_is_os ms W NL t1 P ps0 G C PI tF psf LF H4 H5 q) as EQ.
  destruct (walk tF 0 q) as [i|] eqn:Hw.
  - pose proof (walk_lt ms t1 P G tF LF q i Hw) as Hlt.
    destruct (path_of P i Hlt) as [pi Hpi].
    assert (Hos : os_res (extract ms) [] q pi) by (apply (EQ pi Hq); now exists i).
    unfold classify.
    assert (Hki : i < length (t_kinds tF)) by (rewrite (l_kinds _ _ _ _ LF), <- (g_len _ _ G); exact Hlt).
    destruct (nth_error (t_kinds tF) i) as [[|k]|] eqn:Hk; [| |apply nth_error_None in Hk; lia].
    + exists pi. split; [exact Hos|]. split.
      * apply (dir_inode_tdir ms W t1 P C i); [rewrite <- (l_kinds _ _ _ _ LF); exact Hk|exact Hpi].
      * apply (dir_children ms W NL t1 P ps0 G C PI tF psf LF H4 H5 i pi Hk Hpi).
    + exists pi. split; [exact Hos|]. apply (file_data ms W t1 P C tF LF i k pi Hk Hpi).
  - unfold classify. intros r Hr. apply (EQ r Hq) in Hr as (i & Hi & _). discriminate.
Qed.

(* a link's entry is the lookup of its lexically normalised target in the index itself;
   a target that climbs above the archive root ("..", leading after normalisation) has none *)
Lemma links_inside ms t c :
  wf_zip ms = true -> nice_links ms = true -> populate repaired ms = Ok (t, c) ->
  forall m d, In m ms -> m_kind m = KLink d -> name_base (m_name m) <> [] ->
    vfs_plookup t (m_name m) =
    match target_comps (name_levels (m_name m)) d with
    | Some tc => classify t (walk t 0 tc)
    | None => LAbsent
    end.
Proof.
  intros W NL Hp m d Hm Hk Hb. destruct (phase1_ok repaired ms W) as (t1 & P & ps0 & H1 & G & C & PI).
  destruct (phase2_spec ms W NL t1 P ps0 G C PI) as (tF & cF & psf & Hl & LF & Cc & H4 & H5).
  unfold populate in Hp. rewrite H1, Hl in Hp. inversion Hp; subst t c. clear Hp.
  unfold vfs_plookup. rewrite (link_alias ms W NL t1 P ps0 G PI tF psf LF H4 H5 m d Hm Hk Hb).
  destruct (target_comps (name_levels (m_name m)) d); reflexivity.
Qed.

(* ---------- witnesses for the code as pinned ---------- *)
Definition fm (n : String.string) (d : String.string) : member := mkm (lit n) (lit n) (KFile (lit d)).
Definition lm (n : String.string) (d : String.string) : member := mkm (lit n) (lit n) (KLink (lit d)).

(* what the pinned code makes of an archive whose extracted tree resolves `s` *)
Definition pinned_loses (ms : list member) (s : str) : Prop :=
  wf_zip ms = true /\ nice_links ms = true /\
  os_walk 50 (extract ms) [] (qcomps s) <> None /\
  exists t c, populate pinned ms = Ok (t, c) /\ fst (vfs_lookup t c s) = LAbsent.

(* invalid_paths filled while the index is being built is never emptied: a link through a
   directory link that is resolved later in the same pass stays unresolved for good *)
Definition ms_stale : list member :=
  [fm "d/f.txt" "hello"; lm "l1" "l2/f.txt"; lm "l2" "d"].
Lemma stale_negative_cache_refuted : pinned_loses ms_stale (lit "l1").
Proof. unfold pinned_loses. splits; try reflexivity; [discriminate|]. eexists _, _. split; vm_compute; reflexivity. Qed.
Lemma stale_negative_cache_repaired :
  exists t c i k, populate repaired ms_stale = Ok (t, c) /\ fst (vfs_lookup t c (lit "l1")) = LFile i k.
Proof. eexists _, _, _, _. split; vm_compute; reflexivity. Qed.

(* relative link inside a directory whose name is not stored as UTF-8: the pinned code takes
   dirname of zipfile's cp437 decoding ("caf" ++ U+251C U+2310), the index is keyed by the
   transcoded name ("caf" ++ U+00E9) *)
Definition cafe : str := lit "caf" ++ [233%N].
Definition cafe437 : str := lit "caf" ++ [9500%N; 8976%N].
Definition ms_enc : list member :=
  [mkm (cafe ++ lit "/a.txt") (cafe437 ++ lit "/a.txt") (KFile (lit "A"));
   mkm (cafe ++ lit "/l") (cafe437 ++ lit "/l") (KLink (lit "a.txt"))].
Lemma link_dirname_encoding_refuted : pinned_loses ms_enc (cafe ++ lit "/l").
Proof. unfold pinned_loses. splits; try reflexivity; [discriminate|]. eexists _, _. split; vm_compute; reflexivity. Qed.

(* relative link to the archive root: normpath gives ".", looked up as a member called "." *)
Definition ms_root : list member := [fm "d/a.txt" "A"; lm "d/up" ".."].
Lemma link_to_root_refuted : pinned_loses ms_root (lit "d/up").
Proof. unfold pinned_loses. splits; try reflexivity; [discriminate|]. eexists _, _. split; vm_compute; reflexivity. Qed.

(* ---------- selectors that do not lie in the archive ---------- *)
Lemma outside_delegates ms t c zname op sel chain :
  inarchive zname sel = false -> vfs_op repaired ms t c zname op sel chain = (chain, c).
Proof. intros H. unfold vfs_op. simpl. now rewrite H. Qed.

(* pinned: len(archive name) characters are cut off any selector; "URL:ab" is as long as "/T.zip",
   so it is taken for the archive root *)
Lemma outside_cut_refuted :
  exists ms t c, populate pinned ms = Ok (t, c) /\
    inarchive (lit "/T.zip") (lit "URL:ab") = false /\
    fst (vfs_op pinned ms t c (lit "/T.zip") VStat (lit "URL:ab") RExc) = RStatDir.
Proof. exists [fm "a.txt" "A"]. eexists _, _. splits; vm_compute; reflexivity. Qed.

(* ---------- non-vacuity ---------- *)
Definition ms_example : list member :=
  [mkm (lit "docs/") (lit "docs/") KDir; fm "docs/a.txt" "alpha"; fm "b.txt" "beta";
   lm "docs/up" ".."; lm "l" "docs/a.txt"; lm "abs" "/docs"; lm "cyc1" "cyc2"; lm "cyc2" "cyc1";
   lm "out" "../../etc/passwd"; lm "dangling" "nothing"].
Lemma example_ok :
  wf_zip ms_example = true /\ nice_links ms_example = true /\
  exists t c, populate repaired ms_example = Ok (t, c) /\
    (exists i k, vfs_plookup t (lit "docs/up/l") = LFile i k /\ member_data ms_example k = lit "alpha") /\
    (exists i, vfs_plookup t (lit "abs") = LDir i /\ dir_names t i = [lit "a.txt"; lit "up"]) /\
    vfs_plookup t (lit "cyc1") = LAbsent /\ vfs_plookup t (lit "out") = LAbsent /\
    vfs_plookup t (lit "dangling") = LAbsent.
Proof.
  splits; try reflexivity. eexists _, _. split; [vm_compute; reflexivity|].
  splits; try (vm_compute; reflexivity).
  - eexists _, _. split; vm_compute; reflexivity.
  - eexists. split; vm_compute; reflexivity.
Qed.
