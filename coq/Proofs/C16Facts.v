(* C16Facts.v — assembly of the C16 statements. *)
From Coq Require Import Arith Lia String.
From PG Require Import Lib.Str Lib.StrFacts Lib.ZipPath Proofs.ZipPathFacts Model.Zip Model.ZipChain
  Proofs.C16Index Proofs.C16Extract Proofs.C16Cache Proofs.C16Loop Proofs.C16Chain.
Local Open Scope nat_scope.

Ltac splits := repeat match goal with |- _ /\ _ => split end.

Lemma plookup_qcomps t s : plookup t s = walk t 0 (qcomps s).
Proof. destruct s; reflexivity. Qed.

Lemma classify_dir t r i : classify t r = LDir i <-> (r = Some i /\ nth_error (t_kinds t) i = Some IDir).
Proof.
  unfold classify. destruct r as [j|]; [|split; [discriminate|intros [? _]; discriminate]].
  destruct (nth_error (t_kinds t) j) as [[|k]|] eqn:E; split; try discriminate.
  - intros [= <-]. now split.
  - intros [[= <-] _]. reflexivity.
  - intros [[= <-] H]. congruence.
  - intros [[= <-] H]. congruence.
Qed.
Lemma classify_file t r i k : classify t r = LFile i k <-> (r = Some i /\ nth_error (t_kinds t) i = Some (IFile k)).
Proof.
  unfold classify. destruct r as [j|]; [|split; [discriminate|intros [? _]; discriminate]].
  destruct (nth_error (t_kinds t) j) as [[|k']|] eqn:E; split; try discriminate.
  - intros [[= <-] H]. congruence.
  - intros [= <- <-]. now split.
  - intros [[= <-] H]. rewrite E in H. now inversion H.
  - intros [[= <-] H]. congruence.
Qed.

Lemma dir_names_In t i n : In n (dir_names t i) <-> exists j, eget (i, n) (t_edges t) = Some j.
Proof.
  unfold dir_names. rewrite in_map_iff. split.
  - intros ([[a k] j] & <- & H). apply filter_In in H as [H1 H2]. simpl in *. apply Nat.eqb_eq in H2. subst a.
    clear - H1. induction (t_edges t) as [|[k' v'] E IH]; [destruct H1|]. simpl.
    destruct (ekey_eqb (i, k) k') eqn:Q; [eauto|]. destruct H1 as [H1|H1]; [|now apply IH].
    inversion H1; subst. now rewrite ekey_eqb_refl in Q.
  - intros [j H]. exists ((i, n), j). split; [reflexivity|]. apply filter_In. split; [now apply eget_In|].
    simpl. apply Nat.eqb_refl.
Qed.

(* ---------- archives without links: the index is exactly what the names say ---------- *)
Lemma zip_lookup_spec v ms t c :
  wf_zip ms = true -> no_links ms = true -> populate v ms = Ok (t, c) ->
  forall s,
    let q := qcomps s in
    (forall k, (exists i, vfs_plookup t s = LFile i k) <-> is_entry ms k q) /\
    ((exists i, vfs_plookup t s = LDir i) <-> is_dirpath ms q) /\
    (forall i, vfs_plookup t s = LDir i ->
       forall n, In n (dir_names t i) <-> (is_dirpath ms (q ++ [n]) \/ exists k, is_entry ms k (q ++ [n]))).
Proof.
  intros W NL Hp s q.
  destruct (populate_no_links v ms W NL) as (t' & P & Hp' & G & C & L).
  rewrite Hp in Hp'. inversion Hp'; subst t' c. clear Hp'.
  unfold vfs_plookup. rewrite plookup_qcomps. fold q. splits.
  - intros k. rewrite <- (index_file t P ms q k G C). split.
    + intros [i H]. apply classify_file in H as [H1 H2]. now exists i.
    + intros (i & H1 & H2). exists i. apply classify_file. now split.
  - rewrite <- (index_dir t P ms q G C). split.
    + intros [i H]. apply classify_dir in H as [H1 H2]. now exists i.
    + intros (i & H1 & H2). exists i. apply classify_dir. now split.
  - intros i H n. apply classify_dir in H as [Hw Hk]. rewrite dir_names_In. split.
    + intros [j Hg].
      assert (Hwn : walk t 0 (q ++ [n]) = Some j) by (rewrite walk_app, Hw, walk_step, Hk; exact Hg).
      assert (Hj : j < length (t_kinds t)).
      { rewrite <- (g_len _ _ G). apply nth_error_Some. rewrite (walk_path _ _ _ _ G Hwn). discriminate. }
      destruct (nth_error (t_kinds t) j) as [[|k]|] eqn:Hkj; [| |apply nth_error_None in Hkj; lia].
      * left. apply (index_dir t P ms _ G C). now exists j.
      * right. exists k. apply (index_file t P ms _ k G C). now exists j.
    + intros [H|[k H]].
      * apply (index_dir t P ms _ G C) in H as (j & Hwn & _).
        rewrite walk_app, Hw, walk_step, Hk in Hwn. now exists j.
      * apply (index_file t P ms _ k G C) in H as (j & Hwn & _).
        rewrite walk_app, Hw, walk_step, Hk in Hwn. now exists j.
Qed.

(* a well-formed archive without links never makes populate_cache raise *)
Lemma populate_total_no_links v ms :
  wf_zip ms = true -> no_links ms = true -> exists t, populate v ms = Ok (t, no_caches).
Proof. intros W NL. destruct (populate_no_links v ms W NL) as (t & P & H & _). now exists t. Qed.
