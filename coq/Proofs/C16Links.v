(* C16Links.v — phase 2 on a well-formed archive with nice link targets:
   what the symlink fixpoint adds to the index is exactly what the OS rule
   resolves inside the extracted tree. *)
From Coq Require Import Arith Lia.
From PG Require Import Lib.Str Lib.StrFacts Lib.ZipPath Proofs.ZipPathFacts Model.Zip
  Proofs.C16Index Proofs.C16Extract Proofs.C16Cache Proofs.C16Loop Proofs.C16Target Proofs.C16OsRes.
Local Open Scope nat_scope.

Ltac splits := repeat match goal with |- _ /\ _ => split end.

Definition pkey (p : pend) : ekey := (p_dir p, p_fname p).

Lemma member_eq_dec (a b : member) : {a = b} + {a <> b}.
Proof.
  assert (S : forall x y : str, {x = y} + {x <> y}) by (apply list_eq_dec; apply N.eq_dec).
  assert (K : forall x y : kind, {x = y} + {x <> y}) by (decide equality).
  destruct a as [n1 o1 k1], b as [n2 o2 k2].
  destruct (S n1 n2); [|right; congruence]. destruct (S o1 o2); [|right; congruence].
  destruct (K k1 k2); [|right; congruence]. left. congruence.
Qed.

Lemma all_pairs_In {A} (f : A -> A -> bool) l x y :
  all_pairs f l = true -> In x l -> In y l -> x <> y -> f x y = true /\ f y x = true.
Proof.
  induction l as [|a l IH]; simpl; [intros _ []|].
  rewrite andb_true_iff, forallb_forall. intros [H1 H2] [<-|Hx] [<-|Hy] Hne.
  - congruence.
  - specialize (H1 y Hy). now apply andb_true_iff in H1.
  - specialize (H1 x Hx). apply andb_true_iff in H1. tauto.
  - now apply IH.
Qed.

Lemma entry_unique ms m m' p :
  wf_zip ms = true -> In m ms -> In m' ms -> entry_path m = Some p -> entry_path m' = Some p -> m = m'.
Proof.
  intros W Hm Hm' He He'. destruct (member_eq_dec m m') as [E|Hne]; [exact E|exfalso].
  unfold wf_zip in W. apply andb_true_iff in W as [_ W].
  destruct (all_pairs_In _ _ _ _ W Hm Hm' Hne) as [H _]. unfold no_clash in H. rewrite He, He' in H.
  apply andb_true_iff in H as [_ H]. rewrite path_eqb_refl in H. discriminate.
Qed.

Lemma entry_not_dir ms m m' p :
  wf_zip ms = true -> In m ms -> In m' ms -> entry_path m = Some p ->
  path_prefixb p (name_levels (m_name m')) = true -> False.
Proof.
  intros W Hm Hm' He Hp. destruct (member_eq_dec m m') as [E|Hne].
  - subst m'. unfold entry_path in He. destruct (is_nil (name_base (m_name m))); [discriminate|].
    inversion He; subst p. apply path_prefixb_spec in Hp as [tl Hp]. apply (f_equal (@length str)) in Hp.
    rewrite !app_length in Hp. simpl in Hp. lia.
  - unfold wf_zip in W. apply andb_true_iff in W as [_ W].
    destruct (all_pairs_In _ _ _ _ W Hm Hm' Hne) as [H _]. unfold no_clash in H. rewrite He in H.
    apply andb_true_iff in H as [H _]. rewrite Hp in H. discriminate.
Qed.

Lemma wf_name_ok ms m : wf_zip ms = true -> In m ms -> name_ok m = true.
Proof.
  unfold wf_zip. rewrite andb_true_iff, forallb_forall. intros [H _]. apply H.
Qed.

Lemma nice_member ms m d : nice_links ms = true -> In m ms -> m_kind m = KLink d -> nice_dest d = true.
Proof. unfold nice_links. rewrite forallb_forall. intros H Hm Hk. specialize (H m Hm). now rewrite Hk in H. Qed.

Lemma entry_path_base m p : entry_path m = Some p -> name_base (m_name m) <> [] /\ p = name_levels (m_name m) ++ [name_base (m_name m)].
Proof.
  unfold entry_path. destruct (is_nil (name_base (m_name m))) eqn:E; [discriminate|].
  intros [= <-]. split; [now apply is_nil_false|reflexivity].
Qed.

Lemma name_ok_plain_base m :
  name_ok m = true -> name_base (m_name m) <> [] -> plain (name_base (m_name m)).
Proof.
  intros Hok Hb. unfold name_ok in Hok. apply andb_true_iff in Hok as [_ H].
  destruct (m_kind m); try exact H. apply andb_true_iff in H as [H _]. apply is_nil_true in H. contradiction.
Qed.

Section Phase2.
Variable ms : list member.
Hypothesis W : wf_zip ms = true.
Hypothesis NL : nice_links ms = true.
Variable t1 : tbl.
Variable P : list (list str).
Variable ps0 : list pend.
Hypothesis G : ginv t1 P.
Hypothesis C : cinv ms ms t1 P.
Hypothesis PI : pinv repaired ms t1 P ps0.
Let f := extract ms.
Let F : finv ms f := extract_ok ms W.

(* ---------- pending links and link members ---------- *)
Lemma Forall2_In_r {A B} (R : A -> B -> Prop) l l' y : Forall2 R l l' -> In y l' -> exists x, In x l /\ R x y.
Proof.
  induction 1; intros []; [subst; exists x; split; [now left|assumption]|].
  destruct (IHForall2 H1) as (x0 & H2 & H3). exists x0. split; [now right|assumption].
Qed.
Lemma Forall2_In_l {A B} (R : A -> B -> Prop) l l' x : Forall2 R l l' -> In x l -> exists y, In y l' /\ R x y.
Proof.
  induction 1; intros []; [subst; exists y; split; [now left|assumption]|].
  destruct (IHForall2 H1) as (y0 & H2 & H3). exists y0. split; [now right|assumption].
Qed.

Lemma pend_member p : In p ps0 -> exists m, In m ms /\ link_member m = true /\ pend_of repaired t1 P m p.
Proof.
  intros Hp. destruct (Forall2_In_r _ _ _ _ PI Hp) as (m & Hm & Hpo). apply filter_In in Hm as [H1 H2]. now exists m.
Qed.
Lemma member_pend m : In m ms -> link_member m = true -> exists p, In p ps0 /\ pend_of repaired t1 P m p.
Proof. intros Hm Hl. apply (Forall2_In_l _ _ _ _ PI). apply filter_In. now split. Qed.

Lemma link_member_entry m : link_member m = true ->
  exists d, m_kind m = KLink d /\ entry_path m = Some (name_levels (m_name m) ++ [name_base (m_name m)]).
Proof.
  unfold link_member, is_link. rewrite andb_true_iff. intros [H1 H2].
  destruct (m_kind m) as [| |d] eqn:Hk; try discriminate. exists d. split; [reflexivity|].
  unfold entry_path. unfold nonempty in H2. apply negb_true_iff in H2. now rewrite H2.
Qed.

(* inodes are determined by their path *)
Lemma P_inj i j p : nth_error P i = Some p -> nth_error P j = Some p -> i = j.
Proof. intros Hi Hj. apply (g_reach _ _ G) in Hi, Hj. congruence. Qed.

Lemma inode_has_path i x : nth_error (t_kinds t1) i = Some x -> exists p, nth_error P i = Some p.
Proof.
  intros H. assert (i < length P) by (rewrite (g_len _ _ G); apply nth_error_Some; congruence).
  destruct (nth_error P i) eqn:E; [eauto|apply nth_error_None in E; lia].
Qed.

(* the key of a pending link is not in the phase-1 index *)
Lemma key_fresh_t1 p : In p ps0 -> eget (pkey p) (t_edges t1) = None.
Proof.
  intros Hp. destruct (pend_member p Hp) as (m & Hm & Hl & (H1 & H2 & H3 & H4 & H5 & H6)).
  destruct (link_member_entry m Hl) as (d & Hk & He). rewrite <- H2 in He.
  unfold pkey. destruct (eget (p_dir p, p_fname p) (t_edges t1)) as [j|] eqn:Hg; [exfalso|reflexivity].
  destruct (g_edge _ _ G _ _ _ (eget_In _ _ _ Hg)) as (_ & _ & pa & Hpa & Hpj).
  rewrite H5 in Hpa. inversion Hpa; subst pa.
  assert (Hj : j < length (t_kinds t1)) by (rewrite <- (g_len _ _ G); apply nth_error_Some; congruence).
  destruct (nth_error (t_kinds t1) j) as [[|k]|] eqn:Hkj; [| |apply nth_error_None in Hkj; lia].
  - destruct (c_dir_sound _ _ _ _ C _ _ Hkj Hpj) as [E|(m' & Hm' & Hpre)].
    + destruct (name_levels (m_name m)); discriminate.
    + exact (entry_not_dir ms m m' _ W Hm Hm' He Hpre).
  - destruct (c_file_sound _ _ _ _ C _ _ _ Hkj Hpj) as (m' & Hn & Hnl & He').
    assert (m = m') by (exact (entry_unique ms m m' _ W Hm (nth_error_In _ _ Hn) He He')). subst m'.
    unfold is_link in Hnl. rewrite Hk in Hnl. discriminate.
Qed.

(* distinct pending links have distinct keys *)
Lemma FOP_filter {A} (R : A -> A -> Prop) (g : A -> bool) l : ForallOrdPairs R l -> ForallOrdPairs R (filter g l).
Proof.
  induction 1; simpl; [constructor|]. destruct (g a); [|assumption]. constructor; [|assumption].
  apply Forall_forall. intros x Hx. apply filter_In in Hx as [Hx _]. rewrite Forall_forall in H. now apply H.
Qed.
Lemma all_pairs_FOP {A} (g : A -> A -> bool) l : all_pairs g l = true -> ForallOrdPairs (fun x y => g x y = true) l.
Proof.
  induction l as [|a l IH]; simpl; [constructor|]. rewrite andb_true_iff, forallb_forall. intros [H1 H2].
  constructor; [|now apply IH]. apply Forall_forall. intros x Hx. specialize (H1 x Hx). now apply andb_true_iff in H1.
Qed.

Lemma pkeys_nodup_gen L ps :
  ForallOrdPairs (fun x y => no_clash x y = true) L -> Forall (fun m => link_member m = true) L ->
  Forall2 (pend_of repaired t1 P) L ps -> NoDup (map pkey ps).
Proof.
  intros FO FL F2. revert FO FL. induction F2 as [|m p L ps Hmp F2 IH]; intros FO FL; simpl; [constructor|].
  inversion FO as [|? ? Hall FO']; subst. inversion FL as [|? ? Hlm FL']; subst.
  constructor; [|now apply IH].
  intros Hin. apply in_map_iff in Hin as (p' & Hk & Hp').
  destruct (Forall2_In_r _ _ _ _ F2 Hp') as (m' & Hm' & Hpo').
  rewrite Forall_forall in Hall. specialize (Hall m' Hm').
  destruct (link_member_entry m Hlm) as (d & _ & He).
  rewrite Forall_forall in FL'. destruct (link_member_entry m' (FL' m' Hm')) as (d' & _ & He').
  destruct Hmp as (_ & A2 & _ & _ & A5 & _). destruct Hpo' as (_ & B2 & _ & _ & B5 & _).
  unfold pkey in Hk. inversion Hk as [[K1 K2]]. rewrite K1 in B5. rewrite A5 in B5. inversion B5 as [EL].
  rewrite <- A2, <- B2, K2 in *. 
  unfold no_clash in Hall. rewrite He, He', EL in Hall.
  apply andb_true_iff in Hall as [_ Hall]. rewrite path_eqb_refl in Hall. discriminate.
Qed.

Lemma pkeys_nodup : NoDup (map pkey ps0).
Proof.
  apply (pkeys_nodup_gen (links_of ms) ps0); [| |exact PI].
  - apply FOP_filter. apply all_pairs_FOP. pose proof W as W'. unfold wf_zip in W'. apply andb_true_iff in W'. tauto.
  - apply Forall_forall. intros m Hm. now apply filter_In in Hm.
Qed.

(* ---------- labels, real directories ---------- *)
Definition labels_plain (t : tbl) : Prop := forall a k j, In ((a, k), j) (t_edges t) -> plain k /\ no_sl k.

Lemma prefix_In (q l : list str) x : path_prefixb q l = true -> In x q -> In x l.
Proof. intros H Hx. apply path_prefixb_spec in H as [tl ->]. apply in_or_app. now left. Qed.
Lemma prefix_trans (a b c : list str) : path_prefixb a b = true -> path_prefixb b c = true -> path_prefixb a c = true.
Proof.
  intros H1 H2. apply path_prefixb_spec in H1 as [t1' ->]. apply path_prefixb_spec in H2 as [t2' ->].
  apply path_prefixb_spec. exists (t1' ++ t2'). now rewrite app_assoc.
Qed.

Lemma labels_plain_t1 : labels_plain t1.
Proof.
  intros a k j Hin. destruct (g_edge _ _ G _ _ _ Hin) as ([Hns _] & _ & pa & Hpa & Hpj). split; [|exact Hns].
  assert (Hj : j < length (t_kinds t1)) by (rewrite <- (g_len _ _ G); apply nth_error_Some; congruence).
  destruct (nth_error (t_kinds t1) j) as [[|k']|] eqn:Hkj; [| |apply nth_error_None in Hkj; lia].
  - destruct (c_dir_sound _ _ _ _ C _ _ Hkj Hpj) as [E|(m' & Hm' & Hpre)]; [destruct pa; discriminate|].
    pose proof (name_ok_plain_levels m' (wf_name_ok ms m' W Hm')) as HP. rewrite Forall_forall in HP. apply HP.
    eapply prefix_In; [exact Hpre|]. apply in_or_app. right. now left.
  - destruct (c_file_sound _ _ _ _ C _ _ _ Hkj Hpj) as (m' & Hn & _ & He).
    destruct (entry_path_base m' _ He) as [Hb Ep]. apply app_inj_tail in Ep as [_ ->].
    apply name_ok_plain_base; [|exact Hb]. eapply wf_name_ok; eauto using nth_error_In.
Qed.

(* a directory inode is a real directory of the extracted tree, and so are all its ancestors *)
Lemma dir_inode_real a pa :
  nth_error (t_kinds t1) a = Some IDir -> nth_error P a = Some pa ->
  Forall plain pa /\ (forall q, q <> [] -> path_prefixb q pa = true -> fs_get q f = Some TDir).
Proof.
  intros Hk Hp. destruct (c_dir_sound _ _ _ _ C _ _ Hk Hp) as [->|(m' & Hm' & Hpre)].
  - split; [constructor|]. intros q Hq Hpq. destruct q; [congruence|discriminate].
  - pose proof (name_ok_plain_levels m' (wf_name_ok ms m' W Hm')) as HP. split.
    + apply Forall_forall. intros x Hx. rewrite Forall_forall in HP. apply HP. eapply prefix_In; eauto.
    + intros q Hq Hpq. apply (f_dir _ _ F). split; [exact Hq|]. right. exists m'. split; [exact Hm'|eapply prefix_trans; eauto].
Qed.

Lemma prefix_refl (a : list str) : path_prefixb a a = true.
Proof. apply path_prefixb_spec. exists []. now rewrite app_nil_r. Qed.

Lemma dir_inode_tdir a pa :
  nth_error (t_kinds t1) a = Some IDir -> nth_error P a = Some pa -> pa = [] \/ fs_get pa f = Some TDir.
Proof.
  intros Hk Hp. destruct pa as [|x pa]; [now left|right].
  apply (dir_inode_real a _ Hk Hp); [discriminate|apply prefix_refl].
Qed.

(* ---------- from the lexical target to the OS rule ---------- *)
Lemma filter_nonempty_plain cs : Forall plain cs -> filter nonempty cs = cs.
Proof.
  induction 1 as [|c cs Hc _ IH]; [reflexivity|]. simpl. destruct (plain_comp_parts c Hc) as (H1 & _ & _).
  apply nonempty_true in H1. now rewrite H1, IH.
Qed.

Lemma target_os pa d tc rest r :
  target_comps pa d = Some tc -> nice_dest d = true ->
  Forall plain pa -> (forall q, q <> [] -> path_prefixb q pa = true -> fs_get q f = Some TDir) ->
  os_res f [] (tc ++ rest) r ->
  os_res f (fst (link_comps pa d)) (snd (link_comps pa d) ++ rest) r.
Proof.
  intros Ht Hn HP HD Hr. unfold target_comps in Ht. unfold nice_dest in Hn. unfold link_comps.
  destruct d as [|ch d']; [discriminate|]. destruct (N.eqb ch SL) eqn:Ech.
  - (* absolute *)
    inversion Ht; subst tc. simpl. destruct d' as [|c2 d2]; [exact Hr|].
    simpl in Hn. simpl qcomps in Hr. rewrite filter_nonempty_plain by now apply forallb_plain. exact Hr.
  - pose proof (strip_dotdots_spec (split_on SL (ch :: d'))) as Hs.
    destruct (strip_dotdots (split_on SL (ch :: d'))) as [k names] eqn:Est. cbn [fst snd] in Hs, Hn.
    destruct (k <=? length pa) eqn:Hle; [|discriminate]. inversion Ht; subst tc.
    apply Nat.leb_le in Hle. cbn [fst snd]. rewrite Hs, <- app_assoc.
    apply os_res_ups; [exact Hle|]. rewrite <- app_assoc in Hr.
    assert (HPf : Forall plain (firstn (length pa - k) pa)).
    { apply Forall_forall. intros x Hx. rewrite Forall_forall in HP. apply HP. eapply In_firstn; eauto. }
    apply (os_res_dirs f (firstn (length pa - k) pa) [] (names ++ rest) r HPf) in Hr; [exact Hr|].
    intros q Hq Hpq. simpl. apply HD; [exact Hq|]. eapply prefix_trans; [exact Hpq|].
    apply path_prefixb_spec. exists (skipn (length pa - k) pa). symmetry. apply firstn_skipn.
Qed.

(* ---------- soundness: every walk in the index is an OS resolution in the tree ---------- *)
(* a link edge whose target is already known to resolve, by the OS rule, to the inode it points at *)
Definition ojust (a : nat) (k : str) (j1 : nat) : Prop :=
  exists m d pa tc pj1, In m ms /\ m_kind m = KLink d /\ nth_error P a = Some pa /\
    entry_path m = Some (pa ++ [k]) /\ target_comps pa d = Some tc /\
    nth_error P j1 = Some pj1 /\ os_res f [] tc pj1.

Definition edges_ok (t : tbl) : Prop :=
  forall a k j, In ((a, k), j) (t_edges t) -> In ((a, k), j) (t_edges t1) \/ ojust a k j.

Definition Jsound (t : tbl) : Prop :=
  forall q j i pj pi, walk t j q = Some i -> nth_error P j = Some pj -> nth_error P i = Some pi ->
    os_res f pj q pi.

Lemma entry_kfile m p : In m ms -> is_link m = false -> entry_path m = Some p -> exists d, m_kind m = KFile d.
Proof.
  intros Hm Hl He. destruct (m_kind m) as [d| |d] eqn:Hk; [eauto| |unfold is_link in Hl; rewrite Hk in Hl; discriminate].
  exfalso. destruct (entry_path_base m p He) as [Hb _]. apply Hb. apply name_ok_kdir; [eapply wf_name_ok; eauto|exact Hk].
Qed.

Lemma J_gen t :
  t_kinds t = t_kinds t1 -> labels_plain t -> edges_ok t -> Jsound t.
Proof.
  intros HK HL HE q. induction q as [|c q' IH]; intros j i pj pi Hw Hpj Hpi.
  - simpl in Hw. inversion Hw; subst i. rewrite Hpj in Hpi. inversion Hpi; subst. constructor.
  - simpl in Hw. destruct (nth_error (t_kinds t) j) as [[|]|] eqn:Hkj; try discriminate.
    destruct (eget (j, c) (t_edges t)) as [j1|] eqn:Hg; [|discriminate].
    pose proof (eget_In _ _ _ Hg) as Hin. destruct (HL _ _ _ Hin) as [Hcp Hcs].
    rewrite HK in Hkj.
    destruct (HE _ _ _ Hin) as [H1|(m & d & pa & tc & pj1 & Hm & Hk & Hpa & He & Ht & Hp1 & Hos)].
    + (* an edge of phase 1: a real directory entry *)
      destruct (g_edge _ _ G _ _ _ H1) as (_ & _ & pa & Hpa & Hp1). rewrite Hpj in Hpa. inversion Hpa; subst pa.
      assert (Hj1 : j1 < length (t_kinds t1)) by (rewrite <- (g_len _ _ G); apply nth_error_Some; congruence).
      destruct (nth_error (t_kinds t1) j1) as [[|k']|] eqn:Hk1; [| |apply nth_error_None in Hk1; lia].
      * eapply OR_dir; [now apply plain_side| |eapply IH; eauto].
        destruct (dir_inode_tdir j1 _ Hk1 Hp1) as [E|E]; [destruct pj; discriminate|exact E].
      * destruct q' as [|c2 q2].
        -- simpl in Hw. inversion Hw; subst i. rewrite Hp1 in Hpi. inversion Hpi; subst pi.
           destruct (c_file_sound _ _ _ _ C _ _ _ Hk1 Hp1) as (m' & Hn & Hnl & He).
           destruct (entry_kfile m' _ (nth_error_In _ _ Hn) Hnl He) as [d Hd].
           eapply OR_file; [now apply plain_side|]. apply (f_file _ _ F). exists m'. splits; eauto using nth_error_In.
        -- simpl in Hw. rewrite HK, Hk1 in Hw. discriminate.
    + (* a resolved link *)
      rewrite Hpj in Hpa. inversion Hpa; subst pa.
      assert (Hrest : os_res f pj1 q' pi) by (eapply IH; eauto).
      assert (Hdir : q' = [] \/ pj1 = [] \/ fs_get pj1 f = Some TDir).
      { destruct q' as [|c2 q2]; [now left|right]. simpl in Hw. rewrite HK in Hw.
        destruct (nth_error (t_kinds t1) j1) as [[|]|] eqn:Hk1; try discriminate. now apply (dir_inode_tdir j1). }
      pose proof (os_res_app f _ _ _ Hos q' pi Hdir Hrest) as Hall.
      destruct (dir_inode_real j pj Hkj Hpj) as [HPl HD].
      eapply OR_link; [now apply plain_side| | |].
      * apply (f_link _ _ F). exists m. splits; eauto.
      * pose proof (nice_member ms m d NL Hm Hk) as Hn. destruct d; [discriminate|discriminate].
      * eapply target_os; eauto. eapply nice_member; eauto.
Qed.

(* ---------- the state of phase 2 ---------- *)
Record linv (t : tbl) : Prop := mk_linv {
  l_kinds : t_kinds t = t_kinds t1;
  l_ext : ext t1 t;
  l_labels : labels_plain t;
  l_edges : edges_ok t;
  l_closed : forall a k j, In ((a, k), j) (t_edges t) -> j < length P
}.

Lemma linv_t1 : linv t1.
Proof.
  split; auto using ext_refl, labels_plain_t1.
  - intros a k j H. now left.
  - intros a k j H. destruct (g_edge _ _ G _ _ _ H) as (_ & _ & pa & _ & Hpj). apply nth_error_Some. congruence.
Qed.

Lemma labels_plain_ok t : labels_plain t -> labels_ok t.
Proof. intros H a k j Hin. destruct (H a k j Hin) as [Hp Hs]. now apply plain_comp_ok'. Qed.

Lemma walk_closed t : linv t -> forall q j i, walk t j q = Some i -> j < length P -> i < length P.
Proof.
  intros L q. induction q as [|c q IH]; intros j i Hw Hj; simpl in Hw; [inversion Hw; now subst|].
  destruct (nth_error (t_kinds t) j) as [[|]|]; try discriminate.
  destruct (eget (j, c) (t_edges t)) as [j1|] eqn:Hg; [|discriminate].
  eapply IH; [exact Hw|]. eapply l_closed; eauto using eget_In.
Qed.

Lemma root_lt : 0 < length P.
Proof. apply nth_error_Some. destruct (g_root _ _ G) as [H _]. congruence. Qed.

Lemma walk_dotdot t rest : linv t -> walk t 0 (P_DOTDOT :: rest) = None.
Proof.
  intros L.
  change (walk t 0 (P_DOTDOT :: rest)) with
    (match nth_error (t_kinds t) 0 with
     | Some IDir => match eget (0, P_DOTDOT) (t_edges t) with Some j => walk t j rest | None => None end
     | _ => None
     end).
  destruct (nth_error (t_kinds t) 0) as [[|]|]; try reflexivity.
  destruct (eget (0, P_DOTDOT) (t_edges t)) as [j|] eqn:Hg; [exfalso|reflexivity].
  destruct (l_labels _ L _ _ _ (eget_In _ _ _ Hg)) as [Hp _]. discriminate Hp.
Qed.

(* the memoised lookup of a "/"-join of proper components is the plain walk *)
Lemma clookup_join t c rc :
  labels_ok t -> caches_ok t c -> Forall comp_ok rc ->
  fst (clookup t c (join [SL] rc)) = walk t 0 rc /\ caches_ok t (snd (clookup t c (join [SL] rc))).
Proof.
  intros L Cc HF. split; [|now apply clookup_ok].
  destruct (snoc_cases rc) as [->|(cs & x & ->)]; [reflexivity|].
  rewrite clookup_plain; auto.
  - now apply plookup_join.
  - apply Forall_app in HF as [H1 H2]. inversion H2; subst. exists cs, x. splits; auto. apply H3.
Qed.

(* everything the loop needs to know about one pending link *)
Record pfacts (p : pend) (m : member) (d : str) (rc : list str) : Prop := mk_pfacts {
  pf_in : In m ms;
  pf_kind : m_kind m = KLink d;
  pf_nice : nice_dest d = true;
  pf_target : link_target repaired p = Ok (join [SL] rc);
  pf_rc : Forall comp_ok rc;
  pf_tc : target_comps (name_levels (m_name m)) d = Some rc \/
          (target_comps (name_levels (m_name m)) d = None /\ exists rest, rc = P_DOTDOT :: rest);
  pf_dir : nth_error P (p_dir p) = Some (name_levels (m_name m));
  pf_dirk : nth_error (t_kinds t1) (p_dir p) = Some IDir;
  pf_entry : entry_path m = Some (name_levels (m_name m) ++ [p_fname p]);
  pf_label : plain (p_fname p) /\ no_sl (p_fname p)
}.

Lemma pend_facts p : In p ps0 -> exists m d rc, pfacts p m d rc.
Proof.
  intros Hp. destruct (pend_member p Hp) as (m & Hm & Hl & (H1 & H2 & H3 & H4 & H5 & H6)).
  pose proof (wf_name_ok ms m W Hm) as Hok.
  pose proof (nice_member ms m _ NL Hm H1) as Hn.
  destruct (link_target_nice m p (p_dest p) Hok H1 Hn eq_refl H4) as (rc & T1 & T2 & T3).
  destruct (link_member_entry m Hl) as (d' & _ & He). rewrite <- H2 in He.
  exists m, (p_dest p), rc. split; auto. rewrite H2. split; [|apply base_no_sl].
  apply name_ok_plain_base; [exact Hok|]. now rewrite <- H2.
Qed.

Definition twalk (t : tbl) (p : pend) : option nat :=
  match link_target repaired p with Ok s => plookup t s | Err _ => None end.
Definition resolved (t : tbl) (p : pend) : Prop :=
  exists j, eget (pkey p) (t_edges t) = Some j /\ twalk t p = Some j.

Lemma plookup_ext t t' s i : ext t t' -> plookup t s = Some i -> plookup t' s = Some i.
Proof. intros E. unfold plookup. destruct s; [trivial|]. now apply walk_ext. Qed.
Lemma resolved_ext t t' p : ext t t' -> resolved t p -> resolved t' p.
Proof.
  intros E (j & H1 & H2). exists j. split; [now apply E|].
  unfold twalk in *. destruct (link_target repaired p); [now apply (plookup_ext t)|discriminate].
Qed.

Lemma caches_ok_ext t t' c :
  ext t t' -> t_kinds t' = t_kinds t -> caches_ok t c -> caches_ok t' (mkc (c_ec c) []).
Proof.
  intros E HK [C1 _]. split; simpl; [|intros ? []].
  intros wd i Hin. destruct (C1 wd i Hin) as [H1 H2]. split; [now apply (plookup_ext t)|now rewrite HK].
Qed.

(* one resolution: the new entry of the index *)
Lemma resolve_step t p m d rc x :
  linv t -> pfacts p m d rc -> eget (pkey p) (t_edges t) = None -> walk t 0 rc = Some x ->
  let t2 := mkt (t_kinds t) (eset (pkey p) x (t_edges t)) in
  linv t2 /\ ext t t2 /\ resolved t2 p /\
  (forall key, key <> pkey p -> eget key (t_edges t2) = eget key (t_edges t)).
Proof.
  intros L PF Hfree Hw t2.
  assert (Et : t_edges t2 = t_edges t ++ [(pkey p, x)]) by (unfold t2; simpl; now apply eset_fresh).
  assert (E2 : ext t t2).
  { split; [exists []; unfold t2; simpl; now rewrite app_nil_r|]. intros k v H. rewrite Et. now apply eget_app_some. }
  assert (Htc : target_comps (name_levels (m_name m)) d = Some rc).
  { destruct (pf_tc _ _ _ _ PF) as [H|[_ [rest ->]]]; [exact H|]. rewrite (walk_dotdot t rest L) in Hw. discriminate. }
  assert (Hx : x < length P) by (eapply walk_closed; eauto using root_lt).
  assert (Hpx : exists px, nth_error P x = Some px).
  { destruct (nth_error P x) eqn:E; [eauto|apply nth_error_None in E; lia]. }
  destruct Hpx as [px Hpx].
  assert (Hos : os_res f [] rc px).
  { pose proof (J_gen t (l_kinds _ L) (l_labels _ L) (l_edges _ L)) as J.
    destruct (g_root _ _ G) as [R _]. exact (J rc 0 x [] px Hw R Hpx). }
  splits.
  - split.
    + unfold t2. simpl. apply L.
    + eapply ext_trans; [apply L|exact E2].
    + intros a k j Hin. rewrite Et in Hin. apply in_app_or in Hin as [Hin|[Hin|[]]]; [now apply (l_labels _ L a k j)|].
      inversion Hin; subst. apply (pf_label _ _ _ _ PF).
    + intros a k j Hin. rewrite Et in Hin. apply in_app_or in Hin as [Hin|[Hin|[]]]; [now apply (l_edges _ L)|].
      inversion Hin; subst. right. exists m, d, (name_levels (m_name m)), rc, px.
      splits; try apply PF; auto.
    + intros a k j Hin. rewrite Et in Hin. apply in_app_or in Hin as [Hin|[Hin|[]]]; [now apply (l_closed _ L a k j)|].
      inversion Hin; subst. exact Hx.
  - exact E2.
  - exists x. split; [rewrite Et; now apply eget_snoc_same|].
    unfold twalk. rewrite (pf_target _ _ _ _ PF). rewrite plookup_join by apply PF.
    now apply (walk_ext t).
  - intros key Hne. rewrite Et. now apply eget_snoc_other.
Qed.

(* ---------- one round ---------- *)
Lemma round_spec ps : forall t c,
  linv t -> caches_ok t c -> (forall p, In p ps -> In p ps0) -> NoDup (map pkey ps) ->
  (forall p, In p ps -> eget (pkey p) (t_edges t) = None) ->
  exists t' c' k,
    round repaired t c ps = Ok (t', c', k) /\ linv t' /\ caches_ok t' c' /\ ext t t' /\
    (forall p, In p k -> In p ps) /\ NoDup (map pkey k) /\
    (forall p, In p k -> eget (pkey p) (t_edges t') = None) /\
    (forall p, In p ps -> In p k \/ resolved t' p) /\
    (forall key, (forall p, In p ps -> pkey p <> key) -> eget key (t_edges t') = eget key (t_edges t)) /\
    (length k = length ps -> t' = t /\ forall p, In p ps -> twalk t p = None).
Proof.
  induction ps as [|p r IH]; intros t c L Cc Hsub Hnd Hfree.
  - exists t, c, []. simpl. splits.
    + reflexivity.
    + exact L.
    + exact Cc.
    + apply ext_refl.
    + auto.
    + constructor.
    + intros ? [].
    + intros ? [].
    + auto.
    + intros _. split; [reflexivity|intros ? []].
  - inversion Hnd as [|? ? Hnotin Hnd']; subst.
    destruct (pend_facts p (Hsub p (or_introl eq_refl))) as (m & d & rc & PF).
    pose proof (labels_plain_ok t (l_labels _ L)) as Lok.
    simpl. rewrite (pf_target _ _ _ _ PF).
    destruct (clookup_join t c rc Lok Cc (pf_rc _ _ _ _ PF)) as [Hr1 Hc1].
    destruct (clookup t c (join [SL] rc)) as [r1 c1] eqn:E1. simpl in Hr1, Hc1.
    assert (Hsub' : forall q, In q r -> In q ps0) by (intros q Hq; apply Hsub; now right).
    destruct r1 as [x|].
    + (* resolved now *)
      destruct (clookup_join t c1 rc Lok Hc1 (pf_rc _ _ _ _ PF)) as [Hr2 Hc2].
      destruct (clookup t c1 (join [SL] rc)) as [r2 c2] eqn:E2. simpl in Hr2, Hc2.
      rewrite <- Hr1 in Hr2. subst r2.
      assert (Hkd : nth_error (t_kinds t) (p_dir p) = Some IDir) by (rewrite (l_kinds _ L); apply PF).
      rewrite Hkd.
      destruct (resolve_step t p m d rc x L PF (Hfree p (or_introl eq_refl)) (eq_sym Hr1)) as (L2 & E2' & R2 & Fr2).
      set (t2 := mkt (t_kinds t) (eset (p_dir p, p_fname p) x (t_edges t))) in *.
      assert (Cc2 : caches_ok t2 (mkc (c_ec c2) [])) by (apply (caches_ok_ext t); auto).
      destruct (IH t2 (mkc (c_ec c2) []) L2 Cc2 Hsub' Hnd') as (t' & c' & k & Hrd & L' & Cc' & E' & K1 & K2 & K3 & K4 & K5 & K6).
      { intros q Hq. rewrite Fr2; [apply Hfree; now right|]. intros Eq. apply Hnotin. apply in_map_iff. exists q. now split. }
      change (p_dir p, p_fname p) with (pkey p). simpl v_clear_inv. cbv iota.
      exists t', c', k. splits.
      * exact Hrd.
      * exact L'.
      * exact Cc'.
      * eapply ext_trans; eauto.
      * intros q Hq. right. now apply K1.
      * exact K2.
      * exact K3.
      * intros q [<-|Hq]; [right; now apply (resolved_ext t2)|]. destruct (K4 q Hq); [now left|now right].
      * intros key Hkey. rewrite K5; [apply Fr2|]; [intros Eq; apply (Hkey p (or_introl eq_refl)); now symmetry|].
        intros q Hq. apply Hkey. now right.
      * intros Hlen. exfalso. pose proof (round_len _ _ _ _ _ _ _ Hrd). simpl in Hlen. lia.
    + (* still pending *)
      destruct (IH t c1 L Hc1 Hsub' Hnd') as (t' & c' & k & Hrd & L' & Cc' & E' & K1 & K2 & K3 & K4 & K5 & K6).
      { intros q Hq. apply Hfree. now right. }
      rewrite Hrd. exists t', c', (p :: k). splits.
      * reflexivity.
      * exact L'.
      * exact Cc'.
      * exact E'.
      * intros q [<-|Hq]; [now left|right; now apply K1].
      * simpl. constructor; [|exact K2]. intros Hin. apply Hnotin. apply in_map_iff in Hin as (q & Hq1 & Hq2).
        apply in_map_iff. exists q. split; [exact Hq1|now apply K1].
      * intros q [<-|Hq]; [|now apply K3]. rewrite K5; [apply Hfree; now left|].
        intros q Hq Eq. apply Hnotin. apply in_map_iff. exists q. now split.
      * intros q [<-|Hq]; [left; now left|]. destruct (K4 q Hq); [left; now right|now right].
      * intros key Hkey. apply K5. intros q Hq. apply Hkey. now right.
      * intros Hlen. simpl in Hlen. assert (Hl : length k = length r) by lia. destruct (K6 Hl) as [-> Hall].
        split; [reflexivity|]. intros q [<-|Hq]; [|now apply Hall].
        unfold twalk. rewrite (pf_target _ _ _ _ PF). rewrite plookup_join by apply PF. now symmetry.
Qed.

(* ---------- the loop ---------- *)
Lemma loop_spec fuel : forall t c ps lastlen,
  linv t -> caches_ok t c -> (forall p, In p ps -> In p ps0) -> NoDup (map pkey ps) ->
  (forall p, In p ps -> eget (pkey p) (t_edges t) = None) ->
  (forall p, In p ps0 -> In p ps \/ resolved t p) ->
  (length ps = lastlen -> forall p, In p ps -> twalk t p = None) ->
  length ps < fuel ->
  exists t' c' psf,
    loop fuel repaired t c ps lastlen = Ok (t', c') /\ linv t' /\ caches_ok t' c' /\ ext t t' /\
    (forall p, In p ps0 -> In p psf \/ resolved t' p) /\
    (forall p, In p psf -> twalk t' p = None /\ eget (pkey p) (t_edges t') = None).
Proof.
  induction fuel as [|fu IH]; intros t c ps lastlen L Cc Hsub Hnd Hfree Hall Hstop Hfuel; [lia|].
  simpl. destruct (is_nil ps || Nat.eqb (length ps) lastlen) eqn:Hs.
  - exists t, c, ps. splits; auto using ext_refl.
    intros p Hp. split; [|now apply Hfree].
    apply orb_true_iff in Hs as [Hs|Hs]; [apply is_nil_true in Hs; subst; destruct Hp|].
    apply Nat.eqb_eq in Hs. now apply Hstop.
  - apply orb_false_iff in Hs as [Hs1 Hs2]. apply is_nil_false in Hs1.
    destruct (round_spec ps t c L Cc Hsub Hnd Hfree) as (t' & c' & k & Hrd & L' & Cc' & E' & K1 & K2 & K3 & K4 & K5 & K6).
    rewrite Hrd.
    assert (Hall' : forall p, In p ps0 -> In p k \/ resolved t' p).
    { intros p Hp. destruct (Hall p Hp) as [H|H]; [now apply K4|right; now apply (resolved_ext t)]. }
    assert (Hsubk : forall p, In p k -> In p ps0) by (intros p Hp; apply Hsub; now apply K1).
    pose proof (round_len _ _ _ _ _ _ _ Hrd) as Hle.
    destruct (Nat.eq_dec (length k) (length ps)) as [Heq|Hne].
    + destruct (K6 Heq) as [-> Hfail].
      destruct fu as [|fu']; [destruct ps; [congruence|simpl in Hfuel; lia]|].
      simpl. rewrite Heq, Nat.eqb_refl, orb_true_r.
      exists t, c', k. splits; auto using ext_refl;
        try (intros p Hp; split; [apply Hfail; now apply K1|now apply K3]).
    + destruct (IH t' c' k (length ps) L' Cc' Hsubk K2 K3 Hall') as (t'' & c'' & psf & Hl & L'' & Cc'' & E'' & A1 & A2).
      * intros Heq. congruence.
      * lia.
      * exists t'', c'', psf. splits; auto. eapply ext_trans; eauto.
Qed.

Lemma phase2_spec :
  exists tF cF psf,
    loop (S (S (length ps0))) repaired t1 no_caches ps0 0 = Ok (tF, cF) /\ linv tF /\ caches_ok tF cF /\
    (forall p, In p ps0 -> In p psf \/ resolved tF p) /\
    (forall p, In p psf -> twalk tF p = None /\ eget (pkey p) (t_edges tF) = None).
Proof.
  destruct (loop_spec (S (S (length ps0))) t1 no_caches ps0 0 linv_t1 (caches_ok_empty t1)) as (tF & cF & psf & H1 & H2 & H3 & _ & H4 & H5); auto.
  - apply pkeys_nodup.
  - intros p Hp. now apply key_fresh_t1.
  - intros Hl p Hp. destruct ps0; [destruct Hp|discriminate].
  - exists tF, cF, psf. splits; auto.
Qed.

(* ---------- the final index ---------- *)
Section Final.
Variable tF : tbl.
Variable psf : list pend.
Hypothesis LF : linv tF.
Hypothesis HF4 : forall p, In p ps0 -> In p psf \/ resolved tF p.
Hypothesis HF5 : forall p, In p psf -> twalk tF p = None /\ eget (pkey p) (t_edges tF) = None.

(* the fixpoint: a link whose (lexical) target can be walked in the final index has its entry *)
Lemma fixpoint_edge m d pa k j tc j0 :
  In m ms -> m_kind m = KLink d -> entry_path m = Some (pa ++ [k]) -> nth_error P j = Some pa ->
  target_comps pa d = Some tc -> walk tF 0 tc = Some j0 -> eget (j, k) (t_edges tF) = Some j0.
Proof.
  intros Hm Hk He Hpj Htc Hw.
  destruct (entry_path_base m _ He) as [Hb Ep]. apply app_inj_tail in Ep as [-> ->].
  assert (Hl : link_member m = true).
  { unfold link_member, is_link. rewrite Hk. simpl. now apply nonempty_true. }
  destruct (member_pend m Hm Hl) as (p & Hp & (A1 & A2 & A3 & A4 & A5 & A6)).
  assert (Ej : j = p_dir p) by (eapply P_inj; eauto). subst j.
  destruct (pend_facts p Hp) as (m' & d' & rc & PF).
  assert (m' = m).
  { apply (entry_unique ms m' m (name_levels (m_name m) ++ [name_base (m_name m)]) W (pf_in _ _ _ _ PF) Hm); [|exact He].
    pose proof (pf_dir _ _ _ _ PF) as D. rewrite A5 in D. injection D as EL.
    rewrite (pf_entry _ _ _ _ PF), <- EL, A2. reflexivity. }
  subst m'. pose proof (pf_kind _ _ _ _ PF) as Hk'. rewrite Hk in Hk'. inversion Hk'; subst d'.
  assert (rc = tc).
  { destruct (pf_tc _ _ _ _ PF) as [H|[H _]]; rewrite Htc in H; [now inversion H|discriminate]. }
  subst rc.
  assert (Etw : twalk tF p = Some j0).
  { unfold twalk. rewrite (pf_target _ _ _ _ PF). rewrite plookup_join by apply PF. exact Hw. }
  change (p_dir p, name_base (m_name m)) with (p_dir p, name_base (m_name m)). rewrite <- A2.
  change (p_dir p, p_fname p) with (pkey p).
  destruct (HF4 p Hp) as [Hin|(j' & H1 & H2)].
  - destruct (HF5 p Hin) as [H _]. congruence.
  - congruence.
Qed.

Lemma is_dirpath_removelast p : is_dirpath ms p -> is_dirpath ms (removelast p).
Proof.
  intros [->|(m & Hm & Hp)]; [now left|]. right. exists m. split; [exact Hm|].
  destruct p as [|x p]; [reflexivity|]. eapply prefix_trans; [|exact Hp].
  apply path_prefixb_spec. exists [last (x :: p) x]. apply app_removelast_last. discriminate.
Qed.

Lemma repeat_app_nil {A} (x : A) k l : repeat x k ++ l = [] -> k = 0 /\ l = [].
Proof. destruct k; simpl; [now split|discriminate]. Qed.

(* completeness: what the OS resolves, the final index resolves *)
Lemma complete cur comps r :
  os_res f cur comps r ->
  forall j k names,
    nth_error P j = Some cur -> nth_error (t_kinds t1) j = Some IDir ->
    comps = repeat P_DOTDOT k ++ names -> Forall plain names ->
    k <= length cur /\
    exists i, walk tF 0 (firstn (length cur - k) cur ++ names) = Some i /\ nth_error P i = Some r.
Proof.
  induction 1 as [cur|cur c rest r Hskip _ IH|cur rest r Hne _ IH|cur c rest r Hside Hget _ IH|cur c d Hside Hget
                 |cur c d rest r Hside Hget Hd _ IH]; intros j k names Hpj Hkj Hshape Hpl.
  - symmetry in Hshape. apply repeat_app_nil in Hshape as [-> ->]. split; [lia|].
    rewrite Nat.sub_0_r, firstn_all, app_nil_r. exists j. split; [|exact Hpj].
    eapply walk_ext; [apply LF|]. now apply (g_reach _ _ G).
  - exfalso. destruct k as [|k]; simpl in Hshape.
    + subst names. inversion Hpl; subst. rewrite (plain_not_skip c) in Hskip by assumption. discriminate.
    + inversion Hshape; subst c. discriminate Hskip.
  - destruct k as [|k]; simpl in Hshape.
    + subst names. inversion Hpl as [|? ? Hc _]; subst. discriminate Hc.
    + inversion Hshape as [Hrest]. clear Hshape.
      assert (Hdp : is_dirpath ms (removelast cur)).
      { apply is_dirpath_removelast. eapply (c_dir_sound _ _ _ _ C); eauto. }
      destruct (c_dir_complete _ _ _ _ C _ Hdp) as (j' & Hpj' & Hkj').
      destruct (IH j' k names Hpj' Hkj' Hrest Hpl) as (Hle & i & Hw & Hpi).
      rewrite removelast_length in Hle, Hw.
      assert (Hlen : length cur <> 0) by (destruct cur; [congruence|discriminate]).
      split; [lia|]. exists i. split; [|exact Hpi].
      rewrite firstn_removelast in Hw by lia. now replace (length cur - S k) with (length cur - 1 - k) by lia.
  - destruct k as [|k]; simpl in Hshape.
    2:{ inversion Hshape; subst c. discriminate Hside. }
    subst names. inversion Hpl as [|? ? Hc Hrest]; subst. split; [lia|].
    assert (Hdp : is_dirpath ms (cur ++ [c])) by (apply (f_dir _ _ F) in Hget; tauto).
    destruct (c_dir_complete _ _ _ _ C _ Hdp) as (j1 & Hpj1 & Hkj1).
    destruct (IH j1 0 rest Hpj1 Hkj1 eq_refl Hrest) as (_ & i & Hw & Hpi).
    rewrite Nat.sub_0_r, firstn_all in *. rewrite <- app_assoc in Hw. now exists i.
  - destruct k as [|k]; simpl in Hshape.
    2:{ inversion Hshape; subst c. discriminate Hside. }
    subst names. split; [lia|]. rewrite Nat.sub_0_r, firstn_all.
    apply (f_file _ _ F) in Hget as (m' & Hm' & He & Hk).
    destruct (In_nth_error _ _ Hm') as [k' Hn].
    assert (Hen : is_entry ms k' (cur ++ [c])).
    { exists m'. splits; auto. unfold is_link. now rewrite Hk. }
    destruct (c_file_complete _ _ _ _ C _ _ Hen) as (i & Hpi & _). exists i. split; [|exact Hpi].
    eapply walk_ext; [apply LF|]. now apply (g_reach _ _ G).
  - destruct k as [|k]; simpl in Hshape.
    2:{ inversion Hshape; subst c. discriminate Hside. }
    subst names. inversion Hpl as [|? ? Hc Hrest]; subst. split; [lia|]. rewrite Nat.sub_0_r, firstn_all.
    apply (f_link _ _ F) in Hget as (m & Hm & He & Hk).
    pose proof (nice_member ms m d NL Hm Hk) as Hn.
    (* the lexical target and its walk in the final index *)
    assert (Htw : exists tc i, target_comps cur d = Some tc /\ walk tF 0 (tc ++ rest) = Some i /\ nth_error P i = Some r).
    { unfold link_comps in IH. unfold target_comps. unfold nice_dest in Hn.
      destruct d as [|ch d']; [congruence|]. destruct (N.eqb ch SL) eqn:Ech.
      - cbn [fst snd] in IH. destruct (g_root _ _ G) as [R1 R2].
        assert (Hq : filter nonempty (split_on SL d') = qcomps d' /\ Forall plain (qcomps d')).
        { destruct d' as [|c2 d2]; [split; [reflexivity|constructor]|]. simpl in Hn. apply forallb_plain in Hn.
          split; [now apply filter_nonempty_plain|exact Hn]. }
        destruct Hq as [Hq1 Hq2]. rewrite Hq1 in IH.
        destruct (IH 0 0 (qcomps d' ++ rest) R1 R2 eq_refl) as (_ & i & Hw & Hpi).
        { apply Forall_app. now split. }
        simpl in Hw. exists (qcomps d'), i. now splits.
      - pose proof (strip_dotdots_spec (split_on SL (ch :: d'))) as Hs.
        destruct (strip_dotdots (split_on SL (ch :: d'))) as [k' dn] eqn:Est. cbn [fst snd] in Hs, Hn, IH.
        apply forallb_plain in Hn.
        destruct (IH j k' (dn ++ rest) Hpj Hkj) as (Hle & i & Hw & Hpi).
        { rewrite Hs. now rewrite <- app_assoc. }
        { apply Forall_app. now split. }
        apply Nat.leb_le in Hle. rewrite Hle. exists (firstn (length cur - k') cur ++ dn), i.
        rewrite <- app_assoc. now splits. }
    destruct Htw as (tc & i & Htc & Hw & Hpi).
    rewrite walk_app in Hw. destruct (walk tF 0 tc) as [j0|] eqn:Hw0; [|discriminate].
    pose proof (fixpoint_edge m d cur c j tc j0 Hm Hk He Hpj Htc Hw0) as Hedge.
    exists i. split; [|exact Hpi].
    rewrite walk_app. rewrite (walk_ext _ _ _ _ _ (l_ext _ LF) (g_reach _ _ G _ _ Hpj)).
    simpl. rewrite (l_kinds _ LF), Hkj, Hedge. exact Hw.
Qed.

Lemma path_of i : i < length P -> exists p, nth_error P i = Some p.
Proof. intros H. destruct (nth_error P i) eqn:E; [eauto|apply nth_error_None in E; lia]. Qed.

Lemma JF : Jsound tF.
Proof. apply J_gen; apply LF. Qed.

(* the two resolutions agree on every path made of proper names *)
Theorem index_is_os q r :
  Forall plain q ->
  ((exists i, walk tF 0 q = Some i /\ nth_error P i = Some r) <-> os_res f [] q r).
Proof.
  intros Hq. destruct (g_root _ _ G) as [R1 R2]. split.
  - intros (i & Hw & Hpi). exact (JF q 0 i [] r Hw R1 Hpi).
  - intros H. destruct (complete [] q r H 0 0 q R1 R2 eq_refl Hq) as (_ & i & Hw & Hpi). simpl in Hw. now exists i.
Qed.

Lemma walk_lt q i : walk tF 0 q = Some i -> i < length P.
Proof. intros H. eapply walk_closed; eauto using root_lt. Qed.

Lemma file_data i k p :
  nth_error (t_kinds tF) i = Some (IFile k) -> nth_error P i = Some p ->
  fs_get p f = Some (TFile (member_data ms k)).
Proof.
  intros Hk Hp. rewrite (l_kinds _ LF) in Hk.
  destruct (c_file_sound _ _ _ _ C _ _ _ Hk Hp) as (m & Hn & Hnl & He).
  destruct (entry_kfile m p (nth_error_In _ _ Hn) Hnl He) as [d Hd].
  unfold member_data. rewrite Hn, Hd. apply (f_file _ _ F). exists m. splits; eauto using nth_error_In.
Qed.

Lemma dir_children i p :
  nth_error (t_kinds tF) i = Some IDir -> nth_error P i = Some p ->
  (forall n, In n (dir_names tF i) -> plain n) /\
  (forall n, plain n -> (In n (dir_names tF i) <-> exists r', os_res f p [n] r')).
Proof.
  intros Hk Hp. split.
  - intros n Hn. unfold dir_names in Hn. apply in_map_iff in Hn as ([[a k] j] & <- & Hin).
    apply filter_In in Hin as [Hin _]. now apply (l_labels _ LF a k j).
  - intros n Hn. split.
    + intros Hin. unfold dir_names in Hin. apply in_map_iff in Hin as ([[a k] j] & E & Hin). simpl in E. subst k.
      apply filter_In in Hin as [Hin Ha]. simpl in Ha. apply Nat.eqb_eq in Ha. subst a.
      assert (Hg : exists j', eget (i, n) (t_edges tF) = Some j').
      { clear - Hin. induction (t_edges tF) as [|[k' v'] E IH]; [destruct Hin|]. simpl.
        destruct (ekey_eqb (i, n) k') eqn:Q; [eauto|]. destruct Hin as [Hin|Hin]; [|now apply IH].
        inversion Hin; subst. now rewrite ekey_eqb_refl in Q. }
      destruct Hg as [j' Hg].
      assert (Hw : walk tF i [n] = Some j') by (rewrite walk_step, Hk; exact Hg).
      destruct (path_of j') as [pj' Hpj']; [eapply (l_closed _ LF); eauto using eget_In|].
      exists pj'. exact (JF [n] i j' p pj' Hw Hp Hpj').
    + intros [r' H]. rewrite (l_kinds _ LF) in Hk.
      destruct (complete p [n] r' H i 0 [n] Hp Hk eq_refl) as (_ & i' & Hw & _); [now constructor|].
      rewrite Nat.sub_0_r, firstn_all, walk_app in Hw.
      rewrite (walk_ext _ _ _ _ _ (l_ext _ LF) (g_reach _ _ G _ _ Hp)) in Hw.
      rewrite walk_step, (l_kinds _ LF), Hk in Hw.
      unfold dir_names. apply in_map_iff. exists ((i, n), i'). split; [reflexivity|].
      apply filter_In. split; [now apply eget_In|simpl; apply Nat.eqb_refl].
Qed.

(* a link IS its (lexically normalised) target, looked up in the final index itself *)
Lemma link_alias m d :
  In m ms -> m_kind m = KLink d -> name_base (m_name m) <> [] ->
  plookup tF (m_name m) =
  match target_comps (name_levels (m_name m)) d with
  | Some tc => walk tF 0 tc
  | None => None
  end.
Proof.
  intros Hm Hk Hb.
  assert (Hl : link_member m = true).
  { unfold link_member, is_link. rewrite Hk. simpl. now apply nonempty_true. }
  destruct (member_pend m Hm Hl) as (p & Hp & (A1 & A2 & A3 & A4 & A5 & A6)).
  destruct (pend_facts p Hp) as (m' & d' & rc & PF).
  destruct (link_member_entry m Hl) as (d0 & _ & He).
  assert (m' = m).
  { apply (entry_unique ms m' m (name_levels (m_name m) ++ [name_base (m_name m)]) W (pf_in _ _ _ _ PF) Hm); [|exact He].
    pose proof (pf_dir _ _ _ _ PF) as D. rewrite A5 in D. injection D as EL.
    rewrite (pf_entry _ _ _ _ PF), <- EL, A2. reflexivity. }
  subst m'. pose proof (pf_kind _ _ _ _ PF) as Hk'. rewrite Hk in Hk'. inversion Hk'; subst d'.
  pose proof (wf_name_ok ms m W Hm) as Hok.
  destruct (name_ok_levels m Hok) as [_ HLok].
  (* the left side: one step from the link's directory *)
  assert (Hlhs : plookup tF (m_name m) = eget (pkey p) (t_edges tF)).
  { rewrite (name_join m Hok) at 1. rewrite plookup_join.
    2:{ apply Forall_app. split; [exact HLok|]. constructor; [|constructor]. split; [apply base_no_sl|exact Hb]. }
    rewrite walk_app. rewrite (walk_ext _ _ _ _ _ (l_ext _ LF) (g_reach _ _ G _ _ A5)).
    rewrite walk_step, (l_kinds _ LF), A6. unfold pkey. now rewrite A2. }
  assert (Htw : twalk tF p = walk tF 0 rc).
  { unfold twalk. rewrite (pf_target _ _ _ _ PF). apply plookup_join. apply PF. }
  assert (Halias : eget (pkey p) (t_edges tF) = twalk tF p).
  { destruct (HF4 p Hp) as [Hin|(j & H1 & H2)]; [destruct (HF5 p Hin); congruence|congruence]. }
  rewrite Hlhs, Halias, Htw.
  destruct (pf_tc _ _ _ _ PF) as [H|[H [rest ->]]]; rewrite H; [reflexivity|].
  now apply walk_dotdot.
Qed.

End Final.

End Phase2.
