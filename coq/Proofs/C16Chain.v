(* C16Chain.v — a handler whose canhandlerequest is guarded by a test that turns
   VFSZip away is never chosen for a selector into an archive, whatever the
   handler list and whatever else the handlers look at. *)
From PG Require Import Lib.Str Model.ZipChain.

Lemma guards_spec sub ts h : guards sub ts = true -> real_only h = true -> passes sub (test_of ts h) VZip = false.
Proof.
  unfold guards. rewrite forallb_forall. intros G R.
  assert (In h real_only_handlers) by (destruct h; simpl in R; try discriminate; simpl; tauto).
  apply G in H. now apply negb_true_iff in H.
Qed.

Lemma real_only_never_chosen sub ts :
  guards sub ts = true ->
  forall secure other hs h, choose sub ts VZip secure other hs = Some h -> real_only h = false.
Proof.
  intros G secure other hs. induction hs as [|x hs IH]; intros h; simpl; [discriminate|].
  destruct (for_me sub ts VZip secure other x) eqn:F.
  - intros [= <-]. destruct (real_only x) eqn:R; [|reflexivity].
    unfold for_me in F. rewrite (guards_spec sub ts x G R) in F.
    rewrite andb_false_r in F. discriminate.
  - apply IH.
Qed.

(* the handler that IS chosen inside an archive does not depend on how the
   real-file-only handlers are ordered relative to the others *)
Lemma exact_tests_guard : guards true exact_tests = true.
Proof. reflexivity. Qed.

(* pinned code: isinstance tests (and none in the message handlers) let a
   mailbox stored in an archive be taken by the mailbox handler *)
Lemma pinned_tests_refuted :
  exists secure other hs, choose true pinned_tests VZip secure other hs = Some HMBoxFolder.
Proof. exists true, (fun _ => true), [HMBoxFolder; HFile]. reflexivity. Qed.

Lemma pinned_message_refuted :
  exists secure other hs, choose true pinned_tests VZip secure other hs = Some HMBoxMessage.
Proof. exists true, (fun h => match h with HMBoxMessage => true | _ => false end), [HUrl; HMBoxMessage; HFile]. reflexivity. Qed.
