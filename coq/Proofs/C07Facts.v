(* C07Facts.v — a listing is exactly the visible entries, once each, in an
   order that does not depend on the enumeration order of the directory. *)
From Coq Require Import ZArith Lia Permutation String.
From PG Require Import Lib.Str Lib.StrFacts Lib.Cmp Lib.CmpFacts Lib.Sort Lib.SortFacts Lib.Regex
  Gen.Entrycmp Gen.Ignore Model.Selector Model.DirEntry Model.UMN Model.Dir Proofs.DirFacts.
Local Open Scope N_scope.

(* ================= dir.DirHandler ================= *)
Lemma dir_listing_names fx alts w enum l :
  dir_listing fx alts w enum = Ok l ->
  map fst l = filter (servable w) (dir_files fx alts w enum).
Proof.
  intros H. unfold dir_listing in H. rewrite (prep_entries_names _ _ _ _ H).
  apply filter_ext_in'. intros n _. apply dir_child_listed.
Qed.

Lemma dir_files_perm fx alts w enum :
  Permutation (dir_files fx alts w enum) (filter (visible_dir alts w) enum).
Proof.
  unfold dir_files. etransitivity; [apply Permutation_sym, sort_names_perm|].
  apply filter_perm, Permutation_sym, enum_order_perm.
Qed.

Lemma dir_exact fx alts w enum l :
  dir_listing fx alts w enum = Ok l ->
  Permutation (map fst l) (filter (fun n => visible_dir alts w n && servable w n) enum) /\
  (NoDup enum -> NoDup (map fst l)).
Proof.
  intros H. rewrite (dir_listing_names _ _ _ _ _ H).
  assert (P : Permutation (filter (servable w) (dir_files fx alts w enum))
                          (filter (fun n => visible_dir alts w n && servable w n) enum)).
  { rewrite <- filter_filter. apply filter_perm, dir_files_perm. }
  split; [exact P|]. intros ND.
  eapply Permutation_NoDup; [apply Permutation_sym; exact P|]. now apply NoDup_filter'.
Qed.

Lemma dir_entries_are_the_childrens fx alts w enum l n e :
  dir_listing fx alts w enum = Ok l -> In (n, e) l ->
  exists ci, child_entry w n = Ok ci /\ ci_entry ci = e.
Proof.
  intros H I. destruct (prep_entries_In _ _ _ _ _ _ H I) as [_ C].
  unfold dir_child in C. destruct (child_entry w n) as [ci|]; simpl in C; [|discriminate].
  exists ci. split; [reflexivity | congruence].
Qed.

Lemma dir_order_independent fx alts w e1 e2 :
  Permutation e1 e2 -> dir_listing fx alts w e1 = dir_listing fx alts w e2.
Proof.
  intros P. unfold dir_listing, dir_files. f_equal.
  apply sort_names_perm_invariant, filter_perm.
  etransitivity; [apply Permutation_sym, enum_order_perm|].
  etransitivity; [exact P | apply enum_order_perm].
Qed.

Lemma dir_sorted fx alts w enum l :
  dir_listing fx alts w enum = Ok l -> ssorted str_leb (map fst l).
Proof.
  intros H. rewrite (dir_listing_names _ _ _ _ _ H). unfold dir_files.
  generalize (sort_names_sorted (filter (fun n => negb (ignored alts w n)) (enum_order fx enum))).
  generalize (sort_names (filter (fun n => negb (ignored alts w n)) (enum_order fx enum))).
  induction l0 as [|x r IH]; simpl; [trivial|]. intros [Hx Hr].
  destruct (servable w x); simpl; [|now apply IH].
  split; [|now apply IH]. intros y Hy. apply filter_In in Hy. now apply Hx.
Qed.

(* with the repair the listing of a DirHandler directory never fails *)
Lemma dir_listing_total fx alts w enum :
  fx_skip_child fx = true -> fx_skip_unreadable fx = true -> exists l, dir_listing fx alts w enum = Ok l.
Proof.
  intros F G. unfold dir_listing. apply prep_entries_total.
  intros n e _ C. apply (skip_of_survives fx e F G). now apply (dir_child_raises_notfound w n).
Qed.

(* ================= hidden entries stay retrievable ================= *)
(* Retrieval by exact selector goes through the same getHandler as the child
   lookup of a listing; neither consults the ignore pattern or the dot rule. *)
Lemma hidden_retrievable alts w n :
  ignored alts w n = true \/ is_dot n = true ->
  w_stat w n = Some KFile -> is_secure (child_sel w n) = true ->
  child_entry w n = Ok (w_info w n).
Proof. intros _ S Sec. unfold child_entry. now rewrite Sec, S. Qed.

(* ================= UMN.UMNDirHandler ================= *)
Lemma dir_names_app a b : dir_names (a ++ b) = dir_names a ++ dir_names b.
Proof.
  induction a as [|[[n|] e] r IH]; simpl; [reflexivity| |exact IH]. now rewrite IH.
Qed.

Lemma dir_names_tag l : dir_names (tag_origin l) = map fst l.
Proof. induction l as [|[n e] r IH]; simpl; [reflexivity|]. now rewrite IH. Qed.

Lemma dir_names_update n f l : dir_names (update_origin n f l) = dir_names l.
Proof.
  induction l as [|[[m|] e] r IH]; simpl; [reflexivity| |].
  - unfold origin_is; simpl. destruct (str_eqb m n); simpl; now rewrite IH.
  - unfold origin_is; simpl. exact IH.
Qed.

Lemma dir_names_perm l l' : Permutation l l' -> Permutation (dir_names l) (dir_names l').
Proof.
  induction 1 as [|[[n|] e] l l' P IH|[[n|] e] [[m|] e'] l|l l' l'' P1 IH1 P2 IH2]; simpl;
    try reflexivity; try assumption.
  - now constructor.
  - apply perm_swap.
  - etransitivity; eauto.
Qed.

Lemma remove_origin_none n l : remove_origin n l = None -> ~ In n (dir_names l).
Proof.
  induction l as [|[[m|] e] r IH]; simpl; intros H; [tauto| |].
  - unfold origin_is in H; simpl in H. destruct (str_eqb m n) eqn:E; [discriminate|].
    destruct (remove_origin n r); [discriminate|].
    intros [->|I]; [rewrite str_eqb_refl in E; discriminate | now apply IH].
  - unfold origin_is in H; simpl in H. destruct (remove_origin n r); [discriminate|]. now apply IH.
Qed.

Lemma remove_origin_names n l l' :
  remove_origin n l = Some l' -> NoDup (dir_names l) ->
  dir_names l' = filter (fun m => negb (str_eqb m n)) (dir_names l).
Proof.
  revert l'. induction l as [|[[m|] e] r IH]; simpl; intros l' H ND; [discriminate| |].
  - unfold origin_is in H; simpl in H. destruct (str_eqb m n) eqn:E; simpl.
    + inversion H. subst l'. apply str_eqb_eq in E. subst m.
      inversion ND as [|? ? Hn Hr]. subst. symmetry. apply filter_all.
      intros x Hx. destruct (str_eqb x n) eqn:E2; [|reflexivity].
      apply str_eqb_eq in E2. subst x. contradiction.
    + destruct (remove_origin n r) as [r'|] eqn:R; [|discriminate].
      inversion H. subst l'. simpl. f_equal. apply IH; [reflexivity|]. now inversion ND.
  - unfold origin_is in H; simpl in H.
    destruct (remove_origin n r) as [r'|] eqn:R; [|discriminate].
    inversion H. subst l'. simpl. now apply IH.
Qed.

(* which link entries remove the directory entry `n` *)
Definition targets (fx : fixes) (dict : str -> option str) (n : str) (le : lentry) : bool :=
  le_merge le && link_hides fx (e_type (le_entry le)) &&
  opt_eqb str_eqb (dict (e_selector (le_entry le))) (Some n).
Definition hidden_by_link (fx : fixes) (dict : str -> option str) (ls : list lentry) (n : str) : bool :=
  existsb (targets fx dict n) ls.

Lemma merge_loop_names fx dict ls : forall cur out,
  NoDup (dir_names cur) -> merge_loop fx dict ls cur = Ok out ->
  dir_names out = filter (fun n => negb (hidden_by_link fx dict ls n)) (dir_names cur).
Proof.
  induction ls as [|le r IH]; intros cur out ND H; simpl in H.
  - inversion H. subst. symmetry. apply filter_all. reflexivity.
  - assert (Happend : forall e, merge_loop fx dict r (cur ++ [(None, e)]) = Ok out ->
              (forall n, targets fx dict n le = false) ->
              dir_names out = filter (fun n => negb (hidden_by_link fx dict (le :: r) n)) (dir_names cur)).
    { intros e H' T. apply IH in H'.
      - rewrite dir_names_app in H'. simpl in H'. rewrite app_nil_r in H'. rewrite H'.
        apply filter_ext_in'. intros n _. unfold hidden_by_link. simpl. now rewrite T.
      - rewrite dir_names_app. simpl. now rewrite app_nil_r. }
    destruct (le_merge le) eqn:M; simpl in H.
    2:{ apply (Happend _ H). intros n. unfold targets. now rewrite M. }
    destruct (dict (e_selector (le_entry le))) as [m|] eqn:D.
    2:{ apply (Happend _ H). intros n. unfold targets. rewrite D. simpl. apply andb_false_r. }
    destruct (link_hides fx (e_type (le_entry le))) eqn:LH.
    + assert (T : forall n, targets fx dict n le = str_eqb m n).
      { intros n. unfold targets. rewrite M, LH, D. reflexivity. }
      destruct (remove_origin m cur) as [cur'|] eqn:R.
      * pose proof (remove_origin_names _ _ _ R ND) as E.
        apply IH in H.
        -- rewrite H, E, filter_filter. apply filter_ext_in'. intros n _.
           unfold hidden_by_link. simpl. rewrite T.
           destruct (str_eqb n m) eqn:E1, (str_eqb m n) eqn:E2; simpl; trivial.
           ++ apply str_eqb_eq in E1. subst. rewrite str_eqb_refl in E2. discriminate.
           ++ apply str_eqb_eq in E2. subst. rewrite str_eqb_refl in E1. discriminate.
        -- rewrite E. now apply NoDup_filter'.
      * pose proof (remove_origin_none _ _ R) as NI.
        destruct (fx_remove_safe fx); [|discriminate].
        apply IH in H; [|exact ND]. rewrite H. apply filter_ext_in'. intros n Hn.
        unfold hidden_by_link. simpl. rewrite T.
        destruct (str_eqb m n) eqn:E2; [|reflexivity].
        apply str_eqb_eq in E2. subst. contradiction.
    + apply IH in H.
      * rewrite dir_names_update in H. rewrite H. apply filter_ext_in'. intros n _.
        assert (T : targets fx dict n le = false) by (unfold targets; now rewrite M, LH).
        unfold hidden_by_link. cbn [existsb]. now rewrite T.
      * now rewrite dir_names_update.
Qed.

(* link entries the repaired loop skips never address a listed file *)
Lemma hidden_by_link_prune fx dropped dict ls n :
  hidden_by_link fx dict (prune fx dropped dict ls) n = hidden_by_link fx dict ls n.
Proof.
  unfold prune. destruct (fx_hidden_stays fx); [|reflexivity].
  unfold hidden_by_link. induction ls as [|le r IH]; [reflexivity|]. cbn [filter existsb].
  destruct (prune_drops fx dropped dict le) eqn:P; cbn [negb existsb]; [|now rewrite IH].
  rewrite IH. unfold prune_drops in P. apply andb_true_iff in P as [P _]. apply andb_true_iff in P as [_ P].
  unfold targets. destruct (dict (e_selector (le_entry le))); [discriminate|].
  cbn [opt_eqb]. now rewrite andb_false_r.
Qed.

Lemma prune_subset fx dropped dict ls le : In le (prune fx dropped dict ls) -> In le ls.
Proof.
  unfold prune. destruct (fx_hidden_stays fx); [|trivial]. intros H. now apply filter_In in H as [H _].
Qed.

Lemma prune_not_dropped fx dropped dict ls le :
  fx_hidden_stays fx = true -> In le (prune fx dropped dict ls) ->
  le_merge le = true -> dict (e_selector (le_entry le)) = None ->
  mem_str (e_selector (le_entry le)) dropped = false /\ link_hides fx (e_type (le_entry le)) = false.
Proof.
  intros F I M D. unfold prune in I. rewrite F in I. apply filter_In in I as [_ I].
  unfold prune_drops in I. rewrite M, D in I. cbn [isnone andb] in I.
  apply negb_true_iff, orb_false_iff in I. exact I.
Qed.

Lemma update_origin_link_in n f l e : In (None, e) (update_origin n f l) -> In (None, e) l.
Proof.
  unfold update_origin. intros H. apply in_map_iff in H as ([o e'] & E & I).
  destruct (origin_is n (o, e')) eqn:O.
  - unfold origin_is in O. cbn [fst] in *. destruct o; [inversion E | discriminate].
  - now rewrite <- E.
Qed.

Lemma remove_origin_in n l l' x : remove_origin n l = Some l' -> In x l' -> In x l.
Proof.
  revert l'. induction l as [|oe r IH]; intros l' H I; [discriminate|]. cbn [remove_origin] in H.
  destruct (origin_is n oe).
  - inversion H. subst. now right.
  - destruct (remove_origin n r) as [r'|]; [|discriminate]. inversion H. subst.
    destruct I as [I|I]; [now left | right; now apply (IH r')].
Qed.

(* where the entries that do not stand for a directory entry come from *)
Lemma merge_loop_link_origin fx dict ls : forall cur out e,
  merge_loop fx dict ls cur = Ok out -> In (None, e) out ->
  In (None, e) cur \/
  exists le, In le ls /\ e = le_entry le /\ (le_merge le = false \/ dict (e_selector (le_entry le)) = None).
Proof.
  induction ls as [|le r IH]; intros cur out e H I; cbn [merge_loop] in H.
  - inversion H. subst. now left.
  - assert (App : merge_loop fx dict r (cur ++ [(None, le_entry le)]) = Ok out ->
                  le_merge le = false \/ dict (e_selector (le_entry le)) = None ->
                  In (None, e) cur \/ exists le0, In le0 (le :: r) /\ e = le_entry le0 /\
                    (le_merge le0 = false \/ dict (e_selector (le_entry le0)) = None)).
    { intros H' C. destruct (IH _ _ _ H' I) as [J|(le0 & J & E & C0)].
      - apply in_app_or in J as [J|[J|[]]]; [now left|]. right. exists le. inversion J. subst.
        split; [now left | split; [reflexivity | exact C]].
      - right. exists le0. split; [now right | split; assumption]. }
    assert (Rec : forall cur', merge_loop fx dict r cur' = Ok out -> (In (None, e) cur' -> In (None, e) cur) ->
                  In (None, e) cur \/ exists le0, In le0 (le :: r) /\ e = le_entry le0 /\
                    (le_merge le0 = false \/ dict (e_selector (le_entry le0)) = None)).
    { intros cur' H' Sub. destruct (IH _ _ _ H' I) as [J|(le0 & J & E & C0)]; [left; now apply Sub|].
      right. exists le0. split; [now right | split; assumption]. }
    destruct (le_merge le) eqn:M; cbn [negb] in H; [|apply App; [exact H | now left]].
    destruct (dict (e_selector (le_entry le))) as [n|] eqn:D; [|apply App; [exact H | now right]].
    destruct (link_hides fx (e_type (le_entry le))).
    + destruct (remove_origin n cur) as [cur'|] eqn:R.
      * apply (Rec cur' H). now apply (remove_origin_in n cur cur').
      * destruct (fx_remove_safe fx); [|discriminate]. now apply (Rec cur H).
    + apply (Rec _ H). apply update_origin_link_in.
Qed.

Section UMNFacts.
  Variable plf : option str -> str -> result (list lentry).
  Variable fx : fixes.
  Variable alts : list alt.
  Variable mode : stripmode.
  Variable w : world.

  Lemma umn_scan_files names : forall files links f ls,
    umn_scan plf fx alts w names files links = Ok (f, ls) ->
    f = files ++ filter (visible_umn alts w) names.
  Proof.
    induction names as [|n r IH]; simpl; intros files links f ls H.
    - inversion H. now rewrite app_nil_r.
    - unfold visible_umn at 1. destruct (ignored alts w n); simpl.
      + now apply IH in H.
      + destruct n as [|c n']; [discriminate|].
        destruct (is_dot (c :: n')) eqn:Dt; simpl.
        * destruct (fx_dot_safe fx).
          -- destruct (w_stat w (c :: n')) as [[| | | |]|]; try (now apply IH in H).
             destruct (w_text w (c :: n')) as [t|]; [|now apply IH in H].
             destruct (plf None t) as [l1|]; simpl in H; [|discriminate]. now apply IH in H.
          -- destruct (w_isdir w (c :: n')); [now apply IH in H|].
             assert (T : match w_text w (c :: n') with
                         | Some text => bind (plf None text) (fun ls => umn_scan plf fx alts w r files (links ++ ls))
                         | None => Raise IOErr end = Ok (f, ls) -> f = files ++ filter (visible_umn alts w) r).
             { destruct (w_text w (c :: n')) as [t|]; [|discriminate].
               destruct (plf None t) as [l1|]; simpl; [|discriminate]. intros H'. now apply IH in H'. }
             destruct (w_stat w (c :: n')) as [[| | | |]|]; try discriminate; now apply T.
        * apply IH in H. rewrite H, <- app_assoc. reflexivity.
  Qed.

  (* a directory entry is shown by prep_entries: servable and not dropped by .cap *)
  Definition umn_listed (n : str) : bool := child_listed (umn_child plf mode w) n.

  Lemma umn_listed_servable n : umn_listed n = true -> servable w n = true.
  Proof.
    unfold umn_listed, child_listed, umn_child, servable.
    destruct (child_entry w n); simpl; [reflexivity | discriminate].
  Qed.

  (* C07, UMN handler: the directory entries present in the listing are exactly
     the visible ones that are servable, not dropped by their .cap file and not
     removed by a hiding link block — each once. *)
  Lemma umn_exact enum l :
    NoDup enum -> umn_listing_gen plf fx alts mode w enum = Ok l ->
    exists links fes,
      umn_scan plf fx alts w (enum_order fx enum) [] [] =
        Ok (filter (visible_umn alts w) (enum_order fx enum), links) /\
      prep_entries (skip_of fx) (umn_child plf mode w)
        (sort_names (filter (visible_umn alts w) (enum_order fx enum))) = Ok fes /\
      Permutation (dir_names l)
        (filter (fun n => visible_umn alts w n && umn_listed n &&
                          negb (hidden_by_link fx (dict_lookup (tag_origin fes)) links n)) enum) /\
      NoDup (dir_names l).
  Proof.
    intros ND H. unfold umn_listing_gen in H.
    destruct (umn_scan plf fx alts w (enum_order fx enum) [] []) as [[files links]|] eqn:S; simpl in H; [|discriminate].
    pose proof (umn_scan_files _ _ _ _ _ S) as Ef. simpl in Ef. subst files.
    destruct (prep_entries _ _ _) as [fes|] eqn:P; simpl in H; [|discriminate].
    destruct (merge_link_files fx _ (tag_origin fes)) as [merged|] eqn:Mg; simpl in H; [|discriminate].
    inversion H. subst l. clear H.
    exists links, fes. split; [reflexivity|]. split; [reflexivity|].
    pose proof (prep_entries_names _ _ _ _ P) as Nm.
    assert (NDf : NoDup (map fst fes)).
    { rewrite Nm. apply NoDup_filter', sort_names_NoDup, NoDup_filter'.
      eapply Permutation_NoDup; [apply enum_order_perm | exact ND]. }
    unfold merge_link_files in Mg. apply merge_loop_names in Mg; [|now rewrite dir_names_tag].
    rewrite dir_names_tag in Mg.
    assert (Mg' : dir_names merged =
                  filter (fun n => negb (hidden_by_link fx (dict_lookup (tag_origin fes)) links n)) (map fst fes)).
    { rewrite Mg. apply filter_ext_in'. intros n _. now rewrite hidden_by_link_prune. }
    clear Mg. rename Mg' into Mg.
    assert (PM : Permutation (dir_names (isort oentry_leb merged)) (dir_names merged)).
    { apply dir_names_perm, Permutation_sym, isort_perm. }
    split.
    - etransitivity; [exact PM|]. rewrite Mg, Nm.
      rewrite filter_filter.
      etransitivity; [apply filter_perm, Permutation_sym, sort_names_perm|].
      rewrite filter_filter.
      etransitivity; [apply filter_perm, Permutation_sym, enum_order_perm|].
      apply Permutation_refl'. apply filter_ext_in'. intros n _.
      unfold umn_listed. now rewrite andb_assoc.
    - eapply Permutation_NoDup; [apply Permutation_sym; exact PM|].
      rewrite Mg. now apply NoDup_filter'.
  Qed.

  (* every directory entry in a UMN listing is a visible, servable name *)
  Lemma umn_nothing_else enum l n :
    NoDup enum -> umn_listing_gen plf fx alts mode w enum = Ok l -> In n (dir_names l) ->
    In n enum /\ visible_umn alts w n = true /\ servable w n = true.
  Proof.
    intros ND H I. destruct (umn_exact enum l ND H) as (links & fes & _ & _ & P & _).
    apply (Permutation_in _ P) in I. apply filter_In in I as [I B].
    apply andb_true_iff in B as [B _]. apply andb_true_iff in B as [B1 B2].
    split; [exact I|]. split; [exact B1 | now apply umn_listed_servable].
  Qed.

  (* D25 repaired: an entry of the listing that does not stand for a directory
     entry is the entry of a link block, and a block for ./name only gets there
     when the file was not hidden by its .cap file and the block is not a hide block *)
  Lemma umn_link_entries enum l e :
    fx_hidden_stays fx = true -> umn_listing_gen plf fx alts mode w enum = Ok l -> In (None, e) l ->
    exists files links le,
      umn_scan plf fx alts w (enum_order fx enum) [] [] = Ok (files, links) /\
      In le links /\ e = le_entry le /\
      (le_merge le = false \/
       (mem_str (e_selector e) (cap_dropped plf mode w (sort_names files)) = false /\
        link_hides fx (e_type e) = false)).
  Proof.
    intros F H I. unfold umn_listing_gen in H.
    destruct (umn_scan plf fx alts w (enum_order fx enum) [] []) as [[files links]|] eqn:S; simpl in H; [|discriminate].
    destruct (prep_entries _ _ _) as [fes|] eqn:P; simpl in H; [|discriminate].
    destruct (merge_link_files fx _ (tag_origin fes)) as [merged|] eqn:Mg; simpl in H; [|discriminate].
    inversion H. subst l. clear H.
    apply (Permutation_in _ (Permutation_sym (isort_perm oentry_leb merged))) in I.
    unfold merge_link_files in Mg.
    destruct (merge_loop_link_origin _ _ _ _ _ _ Mg I) as [J|(le & J & E & C)].
    - exfalso. unfold tag_origin in J. apply in_map_iff in J as (x & Ex & _). discriminate.
    - exists files, links, le. split; [reflexivity|]. split; [eapply prune_subset; exact J|]. split; [exact E|].
      destruct (le_merge le) eqn:M; [right | now left]. destruct C as [C|C]; [discriminate|].
      subst e. exact (prune_not_dropped _ _ _ _ _ F J M C).
  Qed.

  (* with names iterated in sorted order, the result does not depend on the
     enumeration order at all *)
  Lemma umn_order_independent e1 e2 :
    fx_sorted_enum fx = true -> Permutation e1 e2 ->
    umn_listing_gen plf fx alts mode w e1 = umn_listing_gen plf fx alts mode w e2.
  Proof.
    intros F P. unfold umn_listing_gen, enum_order. rewrite F.
    now rewrite (sort_names_perm_invariant e1 e2 P).
  Qed.

  (* the final order is the documented one *)
  Lemma umn_sorted enum l :
    umn_listing_gen plf fx alts mode w enum = Ok l -> ssorted oentry_leb l.
  Proof.
    unfold umn_listing_gen. intros H.
    destruct (umn_scan _ _ _ _ _ _) as [[files links]|]; simpl in H; [|discriminate].
    destruct (prep_entries _ _ _) as [fes|]; simpl in H; [|discriminate].
    destruct (merge_link_files _ _ _) as [merged|]; simpl in H; [|discriminate].
    inversion H. apply (isort_sorted oentry_leb oentry_leb_total oentry_leb_trans).
  Qed.
End UMNFacts.

(* ================= the pinned UMN handler depends on the enumeration order (D11) ================= *)
(* two link files that both override the title of a.txt *)
Definition d11_world : world :=
  mkWorld (lit "/d"%string)
    (fun n => Some KFile)
    (fun n => mkChild (mkEntry (lit "/d/"%string ++ n) (Some 48) (Some n) None None (Some 0%Z) [] true) true false [])
    (fun n => if str_eqb n (lit ".one"%string) then Some (lit "Path=./a.txt
Name=First
"%string)
              else if str_eqb n (lit ".two"%string) then Some (lit "Path=./a.txt
Name=Second
"%string) else None)
    (fun n => None).
Definition d11_enum1 : list str := [lit ".one"%string; lit ".two"%string; lit "a.txt"%string].
Definition d11_enum2 : list str := [lit ".two"%string; lit ".one"%string; lit "a.txt"%string].

Lemma umn_linkorder_refuted :
  exists w e1 e2, Permutation e1 e2 /\ NoDup e1 /\
    umn_listing pinned shipped_ignore StripNone w e1 <> umn_listing pinned shipped_ignore StripNone w e2.
Proof.
  exists d11_world, d11_enum1, d11_enum2. split; [|split].
  - apply perm_swap.
  - repeat constructor; simpl; intuition discriminate.
  - vm_compute. discriminate.
Qed.

(* the same directory with the repaired handler *)
Lemma d11_repaired_agree :
  umn_listing repaired shipped_ignore StripNone d11_world d11_enum1 =
  umn_listing repaired shipped_ignore StripNone d11_world d11_enum2.
Proof. vm_compute. reflexivity. Qed.

(* non-vacuity: a listing that succeeds, hides a dot file and an ignored file *)
Definition ex_world : world :=
  mkWorld (lit "/d"%string)
    (fun n => Some KFile)
    (fun n => mkChild (mkEntry (lit "/d/"%string ++ n) (Some 48) (Some n) None None (Some 0%Z) [] true) true false [])
    (fun n => if str_eqb n (lit ".names"%string) then Some (lit "Path=./b.txt
Name=Bee
Numb=1
"%string) else None)
    (fun n => None).
Definition ex_enum : list str :=
  [lit "b.txt"%string; lit "x~"%string; lit ".names"%string; lit "a.txt"%string; lit "gophermap"%string].

Lemma ex_umn_listing :
  exists l, umn_listing repaired shipped_ignore StripNone ex_world ex_enum = Ok l /\
            dir_names l = [lit "b.txt"%string; lit "a.txt"%string].
Proof. eexists. split; vm_compute; reflexivity. Qed.

Lemma ex_dir_listing :
  exists l, dir_listing repaired shipped_ignore ex_world ex_enum = Ok l /\
            map fst l = [lit ".names"%string; lit "a.txt"%string; lit "b.txt"%string].
Proof. eexists. split; vm_compute; reflexivity. Qed.

(* ================= end to end: the repaired UMN listing, link files and .cap files included ================= *)
Lemma umn_full_order_independent fx alts mode w e1 e2 :
  fx_sorted_enum fx = true -> Permutation e1 e2 ->
  umn_listing fx alts mode w e1 = umn_listing fx alts mode w e2.
Proof. intros F P. unfold umn_listing. now apply umn_order_independent. Qed.

Lemma umn_repaired_order_independent alts mode w e1 e2 :
  Permutation e1 e2 -> umn_listing repaired alts mode w e1 = umn_listing repaired alts mode w e2.
Proof. apply umn_full_order_independent. reflexivity. Qed.

(* two link files touching one entry, plus a .cap file on another: every enumeration
   order gives this one listing (the block of the later file name wins) *)
Definition two_links_world : world :=
  mkWorld (lit "/d"%string)
    (fun n => Some KFile)
    (fun n => mkChild (mkEntry (lit "/d/"%string ++ n) (Some 48) (Some n) None None (Some 0%Z) [] true) true false [])
    (fun n => if str_eqb n (lit ".one"%string) then Some (lit "Path=./a.txt
Name=First
Numb=2
"%string)
              else if str_eqb n (lit ".two"%string) then Some (lit "Path=./a.txt
Name=Second
"%string) else None)
    (fun n => if str_eqb n (lit "b.txt"%string) then Some (lit "Name=Bee
Numb=1
"%string) else None).
Definition two_links_enum : list str :=
  [lit "b.txt"%string; lit ".two"%string; lit "a.txt"%string; lit ".one"%string].

Lemma two_links_example :
  (forall e, Permutation two_links_enum e ->
     umn_listing repaired shipped_ignore StripNone two_links_world e =
     umn_listing repaired shipped_ignore StripNone two_links_world two_links_enum) /\
  exists l, umn_listing repaired shipped_ignore StripNone two_links_world two_links_enum = Ok l /\
            map (fun oe => (fst oe, e_name (snd oe), e_num (snd oe))) l =
            [(Some (lit "b.txt"%string), Some (lit "Bee"%string), Some 1%Z);
             (Some (lit "a.txt"%string), Some (lit "Second"%string), Some 2%Z)].
Proof.
  split.
  - intros e P. symmetry. now apply umn_repaired_order_independent.
  - eexists. split; vm_compute; reflexivity.
Qed.

(* ================= D25: hidden by its .cap file, yet listed through a ./ block ================= *)
Definition head_before_d25 : fixes := mkFixes true true true true true true false false.
Definition d25_world : world :=
  mkWorld (lit "/d"%string)
    (fun n => Some KFile)
    (fun n => mkChild (mkEntry (lit "/d/"%string ++ n) (Some 48) (Some n) None None (Some 0%Z) [] true) true false [])
    (fun n => if str_eqb n (lit ".names"%string) then Some (lit "Path=./fred
Name=Fred is back
"%string) else None)
    (fun n => if str_eqb n (lit "fred"%string) then Some (lit "Type=X
"%string) else None).
Definition d25_enum : list str := [lit ".names"%string; lit "a.txt"%string; lit "fred"%string].

Lemma cap_hidden_relisted_refuted :
  exists l, umn_listing head_before_d25 shipped_ignore StripNone d25_world d25_enum = Ok l /\
            map (fun oe => (fst oe, e_selector (snd oe))) l =
            [(None, lit "/d/fred"%string); (Some (lit "a.txt"%string), lit "/d/a.txt"%string)].
Proof. eexists. split; vm_compute; reflexivity. Qed.

Lemma cap_hidden_repaired :
  exists l, umn_listing repaired shipped_ignore StripNone d25_world d25_enum = Ok l /\
            map (fun oe => (fst oe, e_selector (snd oe))) l = [(Some (lit "a.txt"%string), lit "/d/a.txt"%string)].
Proof. eexists. split; vm_compute; reflexivity. Qed.

(* ================= the shipped ignore pattern still hides what it is documented to hide ================= *)
(* The alternatives of the documented pattern (conf/pygopherd.conf as pinned).  Gen/Ignore.v is
   regenerated from the conf file of the tree under test, exactly as ConfigParser reads it; every
   documented alternative must still have its effect. *)
Definition documented_ignore : list alt := [([ALit 47; AAny; ALit 99; ALit 97; ALit 112], true); ([ALit 47; ALit 108; ALit 111; ALit 115; ALit 116; ALit 43; ALit 102; ALit 111; ALit 117; ALit 110; ALit 100], true); ([ALit 47; ALit 108; ALit 105; ALit 98], true); ([ALit 47; ALit 98; ALit 105; ALit 110], true); ([ALit 47; ALit 101; ALit 116; ALit 99], true); ([ALit 47; ALit 100; ALit 101; ALit 118], true); ([ALit 126], true); ([ALit 47; ALit 46; ALit 99; ALit 97; ALit 99; ALit 104; ALit 101], false); ([ALit 47; ALit 46; ALit 102; ALit 111; ALit 114; ALit 119; ALit 97; ALit 114; ALit 100], true); ([ALit 47; ALit 46; ALit 109; ALit 101; ALit 115; ALit 115; ALit 97; ALit 103; ALit 101], true); ([ALit 47; ALit 46; ALit 104; ALit 117; ALit 115; ALit 104; ALit 108; ALit 111; ALit 103; ALit 105; ALit 110], true); ([ALit 47; ALit 46; ALit 107; ALit 101; ALit 114; ALit 109; ALit 114; ALit 99], true); ([ALit 47; ALit 46; ALit 110; ALit 111; ALit 116; ALit 97; ALit 114], true); ([ALit 47; ALit 46; ALit 119; ALit 104; ALit 101; ALit 114; ALit 101], true); ([ALit 47; ALit 118; ALit 101; ALit 114; ALit 111; ALit 110; ALit 105; ALit 99; ALit 97; AAny; ALit 99; ALit 116; ALit 108], true); ([ALit 47; ALit 114; ALit 111; ALit 98; ALit 111; ALit 116; ALit 115; AAny; ALit 116; ALit 120; ALit 116], true); ([ALit 47; ALit 110; ALit 111; ALit 104; ALit 117; ALit 112; AAny; ALit 111; ALit 117; ALit 116], true); ([ALit 47; ALit 103; ALit 111; ALit 112; ALit 104; ALit 101; ALit 114; ALit 109; ALit 97; ALit 112], true); ([ALit 46; ALit 97; ALit 98; ALit 115; ALit 116; ALit 114; ALit 97; ALit 99; ALit 116], true); ([ALit 46; ALit 107; ALit 101; ALit 121; ALit 98; ALit 111; ALit 97; ALit 114; ALit 100; ALit 115], true); ([ALit 46; ALit 97; ALit 115; ALit 107], false); ([ALit 46; ALit 51; ALit 100], true); ([ALit 126], true)].
Definition atom_char (a : atom) : N := match a with ALit c => c | AAny => 120 end.
(* a selector below /d that the alternative is meant to hide *)
Definition alt_witness (a : alt) : str :=
  match fst a with
  | ALit 47 :: _ => lit "/d"%string ++ map atom_char (fst a)
  | _ => lit "/d/a"%string ++ map atom_char (fst a)
  end.

Lemma shipped_hides_documented :
  forallb (fun a => re_search shipped_ignore (alt_witness a)) documented_ignore = true.
Proof. vm_compute. reflexivity. Qed.

Lemma shipped_keeps_plain_names :
  forallb (fun n => negb (re_search shipped_ignore (lit "/d/"%string ++ n)))
          [lit "a.txt"%string; lit "README"%string; lit "forward"%string; lit "veronica"%string;
           lit "keyboards"%string; lit "libs"%string; lit "x~y"%string] = true.
Proof. vm_compute. reflexivity. Qed.
