(* Lemmas for C20: for every response (any list of actions), every fault
   pattern (any set of failing write indices), every error class and every
   handler / server specification that satisfies the decidable conditions
   spec_ok / server_ok. *)
Set Default Timeout 300.
From Coq Require Import List Arith Bool Lia.
Import ListNotations.
From PG Require Import Model.Conn.

Section Fault.
Variable fails : nat -> bool.
Variable c : ioclass.

Notation faulted := (faulted fails).
Notation add_log := (add_log fails).
Notation run_actions := (run_actions fails c).
Notation run_nf := (run_nf fails c).
Notation do_write := (do_write fails c).

(* ---- faulted ---- *)
Lemma faulted_step s :
  existsb fails (seq 0 (S (nw s))) = (faulted s || fails (nw s))%bool.
Proof.
  unfold Conn.faulted. rewrite seq_S, existsb_app. simpl. now rewrite orb_false_r.
Qed.

Lemma do_write_spec s r s' : do_write s = (r, s') ->
  nw s' = S (nw s) /\ depth s' = depth s /\ log s' = log s /\
  ((r = Ok /\ faulted s' = faulted s) \/ (r = Raise (XIO c) /\ faulted s' = true)).
Proof.
  unfold Conn.do_write. intros H. destruct (fails (nw s)) eqn:F; inversion H; subst; simpl.
  - repeat split. right. split; [reflexivity|]. unfold Conn.faulted. simpl nw. rewrite faulted_step, F. apply orb_true_r.
  - repeat split. left. split; [reflexivity|]. unfold Conn.faulted at 1. simpl nw. rewrite faulted_step, F. apply orb_false_r.
Qed.

Definition quiet (s s' : st) : Prop :=
  exists new, log s' = new ++ log s /\ Forall (fun e => e_after e = false) new.

Lemma quiet_refl s : quiet s s.
Proof. exists []. split; [reflexivity | constructor]. Qed.

Lemma quiet_log s s' : log s' = log s -> quiet s s'.
Proof. intros E. exists []. split; [exact E | constructor]. Qed.

Lemma quiet_trans a b d : quiet a b -> quiet b d -> quiet a d.
Proof.
  intros (n1 & E1 & F1) (n2 & E2 & F2). exists (n2 ++ n1). split.
  - rewrite E2, E1. now rewrite app_assoc.
  - apply Forall_app. split; assumption.
Qed.

(* ---- run_actions from a state in which no write has failed yet ---- *)
Lemma run_actions_spec : forall acts s r s',
  faulted s = false -> run_actions acts s = (r, s') ->
  quiet s s' /\
  match r with
  | Ok => faulted s' = false
  | Raise XNotFound => faulted s' = false /\ depth s' = 0
  | Raise (XIO c') => c' = c /\ faulted s' = true /\ depth s' = 0
  | Raise _ => False
  end.
Proof.
  induction acts as [|a acts IH]; intros s r s' Hn H; simpl in H.
  - inversion H; subst. split; [apply quiet_refl | assumption].
  - destruct a.
    + (* AWrite *)
      destruct (do_write s) as [r1 s1] eqn:W.
      destruct (do_write_spec _ _ _ W) as (N1 & D1 & L1 & [[-> F1]|[-> F1]]).
      * destruct (IH s1 r s' ltac:(congruence) H) as [Q M]. split; [|exact M].
        eapply quiet_trans; [apply quiet_log; exact L1 | exact Q].
      * inversion H; subst. split; [apply quiet_log; exact L1|]. simpl. repeat split; assumption.
    + (* AOpen *)
      destruct (IH (St (nw s) (S (depth s)) (refs s) (log s)) r s' Hn H) as [Q M].
      split; [destruct Q as (n & E1 & F1); exists n; split; assumption | exact M].
    + (* AClose *)
      destruct (IH (St (nw s) (pred (depth s)) (refs s) (log s)) r s' Hn H) as [Q M].
      split; [destruct Q as (n & E1 & F1); exists n; split; assumption | exact M].
    + (* AOpenRef *)
      destruct (IH (St (nw s) (depth s) (S (refs s)) (log s)) r s' Hn H) as [Q M].
      split; [destruct Q as (n & E1 & F1); exists n; split; assumption | exact M].
    + (* ANotFound *)
      inversion H; subst. simpl. split.
      * exists [Entry LFileNotFound true (faulted s)]. split; [reflexivity|]. constructor; [|constructor].
        simpl. exact Hn.
      * split; [exact Hn | reflexivity].
Qed.

(* the part before the first write never fails with an I/O error *)
Lemma run_prep_no_io : forall acts s r s',
  run_actions (prep_part acts) s = (r, s') -> forall c', r <> Raise (XIO c').
Proof.
  induction acts as [|a acts IH]; intros s r s' H c'; simpl in H.
  - inversion H. discriminate.
  - destruct a; simpl in H; try (now eapply IH; eauto).
    + inversion H. discriminate.
    + inversion H. discriminate.
Qed.

Lemma final_depth_split : forall acts d,
  final_depth acts d = match final_depth (prep_part acts) d with
                       | Some d1 => final_depth (send_part acts) d1
                       | None => None
                       end.
Proof.
  induction acts as [|a acts IH]; intros d; simpl; [reflexivity|].
  destruct a; simpl; try apply IH; try reflexivity.
  destruct d; [reflexivity | apply IH].
Qed.

(* ---- the error reply: whatever the connection does meanwhile ---- *)
Definition no_escape (steps : list nfstep) (m : msgval) : Prop :=
  m = MsgStr \/ forallb nf_plain steps = true.

Lemma run_nf_spec : forall steps m s r s',
  no_escape steps m -> run_nf steps m s = (r, s') ->
  log s' = log s /\ depth s' = depth s /\
  match r with
  | Ok => faulted s' = faulted s
  | Raise (XIO c') => c' = c /\ faulted s' = true
  | Raise _ => False
  end.
Proof.
  induction steps as [|a steps IH]; intros m s r s' Hm H; simpl in H.
  - inversion H; subst. auto.
  - assert (Hm' : no_escape steps m).
    { destruct Hm as [Hm|Hm]; [now left|]. right. simpl in Hm. now apply andb_true_iff in Hm. }
    assert (G : match do_write s with
                | (Ok, s1) => run_nf steps m s1
                | (Raise x, s1) => (Raise x, s1)
                end = (r, s')).
    { destruct a; [exact H|]. destruct m; [exact H|]. destruct Hm as [Hm|Hm]; [discriminate|].
      simpl in Hm. discriminate. }
    clear H. destruct (do_write s) as [r1 s1] eqn:W.
    destruct (do_write_spec _ _ _ W) as (N1 & D1 & L1 & [[-> F1]|[-> F1]]).
    + destruct (IH m s1 r s' Hm' G) as (L & D & M). split; [congruence|]. split; [congruence|].
      destruct r as [|[c'| | |]]; try exact M. congruence.
    + inversion G; subst. simpl. repeat split; assumption.
Qed.

(* ---- the log after server.handle ---- *)
Definition own (e : entry) : Prop := e_cls e = LIO c /\ e_addr e = true.
Definition log_ok (s : st) : Prop :=
  (forall e, In e (log s) -> e_after e = true -> own e) /\
  (faulted s = true -> exists e, In e (log s) /\ e_after e = true).

Lemma quiet_no_after s s' : log s = [] -> quiet s s' -> forall e, In e (log s') -> e_after e = false.
Proof.
  intros E (n & E1 & F) e He. rewrite E1, E, app_nil_r in He. rewrite Forall_forall in F. now apply F.
Qed.

Lemma add_log_spec l a s :
  log (add_log l a s) = Entry l a (faulted s) :: log s /\ nw (add_log l a s) = nw s /\
  depth (add_log l a s) = depth s /\ faulted (add_log l a s) = faulted s.
Proof. unfold Conn.add_log. simpl. repeat split. Qed.

(* what server_catch does for a well-formed server specification *)
Lemma server_catch_ok sp x s : server_ok sp = true ->
  server_catch fails sp x s = (Contained, add_log (cls_of x) true s).
Proof.
  intros H. destruct sp as [|[f l] sp]; [discriminate|]. destruct f.
  - destruct l; [|discriminate]. destruct sp as [|[f2 l2] sp]; [discriminate|].
    destruct f2; [discriminate|]. destruct l2; [|discriminate].
    simpl. destruct x; reflexivity.
  - destruct l; [|discriminate]. simpl. reflexivity.
Qed.

(* the exception reaching the server is the I/O error of the failed connection *)
Lemma finish_io s : faulted s = true ->
  (forall e, In e (log s) -> e_after e = true -> own e) ->
  log_ok (add_log (LIO c) true s).
Proof.
  intros Hn Hl. destruct (add_log_spec (LIO c) true s) as (E & _ & _ & F). rewrite Hn in E. split.
  - intros e He Ha. rewrite E in He. destruct He as [He|He]; [subst e; split; reflexivity | now apply Hl].
  - intros _. exists (Entry (LIO c) true true). rewrite E. split; [now left | reflexivity].
Qed.

Lemma unfaulted_ok s : faulted s = false -> (forall e, In e (log s) -> e_after e = false) -> log_ok s.
Proof.
  intros Hn Hl. split.
  - intros e He Ha. rewrite (Hl e He) in Ha. discriminate.
  - intros F. congruence.
Qed.

Lemma unfaulted_add_ok l s : faulted s = false -> (forall e, In e (log s) -> e_after e = false) ->
  log_ok (add_log l true s).
Proof.
  intros Hn Hl. destruct (add_log_spec l true s) as (E & _ & _ & F). rewrite Hn in E.
  apply unfaulted_ok; [congruence|]. intros e He. rewrite E in He. destruct He as [He|He]; [now subst e | now apply Hl].
Qed.

Lemma logged_from sp h acts s0 :
  server_ok sp = true -> spec_ok h = true -> nw s0 = 0 -> log s0 = [] ->
  forall o s, server_handle_from fails c sp h acts s0 = (o, s) -> o = Contained /\ log_ok s.
Proof.
  intros Hsp Hh Z0 L0 o s H. unfold server_handle_from, proto_handle in H.
  set (tried := if body_in_try h then acts else prep_part acts) in H.
  set (aft := if body_in_try h then [] else send_part acts) in H.
  destruct (run_actions tried s0) as [r1 s1] eqn:R1.
  assert (N0 : faulted s0 = false) by (unfold Conn.faulted; now rewrite Z0).
  destruct (run_actions_spec tried s0 r1 s1 N0 R1) as [Q1 M1].
  pose proof (quiet_no_after s0 s1 L0 Q1) as L1.
  destruct r1 as [|[c'| | |]]; try contradiction.
  - (* the tried part went through; the rest runs outside the try *)
    destruct (run_actions aft s1) as [r2 s2] eqn:R2.
    destruct (run_actions_spec aft s1 r2 s2 M1 R2) as [Q2 M2].
    pose proof (quiet_no_after s0 s2 L0 (quiet_trans _ _ _ Q1 Q2)) as L2.
    destruct r2 as [|[c'| | |]]; try contradiction.
    + inversion H; subst. split; [reflexivity|]. now apply unfaulted_ok.
    + rewrite server_catch_ok in H by exact Hsp. inversion H; subst. split; [reflexivity|].
      destruct M2 as (-> & N2 & _). apply finish_io; [exact N2|].
      intros e He Ha. rewrite (L2 e He) in Ha. discriminate.
    + rewrite server_catch_ok in H by exact Hsp. inversion H; subst. split; [reflexivity|].
      destruct M2 as (N2 & _). now apply unfaulted_add_ok.
  - (* except IOError *)
    destruct M1 as (-> & N1 & _).
    assert (T : body_in_try h = true).
    { destruct (body_in_try h) eqn:B; [reflexivity|]. exfalso.
      subst tried. exact (run_prep_no_io acts s0 _ _ R1 c eq_refl). }
    unfold spec_ok in Hh. rewrite T in Hh. simpl in Hh. apply andb_true_iff in Hh as [Hl Hm].
    rewrite Hl in H.
    destruct (add_log_spec (LIO c) true s1) as (E2 & _ & _ & F2). rewrite N1 in E2.
    set (s2 := add_log (LIO c) true s1) in *.
    assert (O2 : forall e, In e (log s2) -> e_after e = true -> own e).
    { intros e He Ha. rewrite E2 in He. destruct He as [He|He]; [subst e; split; reflexivity|].
      rewrite (L1 e He) in Ha. discriminate. }
    assert (X2 : exists e, In e (log s2) /\ e_after e = true).
    { exists (Entry (LIO c) true true). rewrite E2. split; [now left | reflexivity]. }
    assert (F2' : faulted s2 = true) by congruence.
    (* the message never raises, and the reply never trips over it *)
    assert (EM : exists m, eval_msg c (io_msg h) = (Ok, m) /\ no_escape (nf_steps h) m).
    { destruct (io_msg h); try discriminate.
      - destruct c; simpl; eexists; (split; [reflexivity|]); (try (now left)); now right.
      - destruct c; simpl; eexists; (split; [reflexivity|]); now left. }
    destruct EM as (m & Em & Hne). rewrite Em in H.
    destruct (run_nf (nf_steps h) m s2) as [r3 s3] eqn:R3.
    destruct (run_nf_spec _ _ _ _ _ Hne R3) as (E3 & _ & M3).
    destruct r3 as [|[c'| | |]]; try contradiction.
    + inversion H; subst. split; [reflexivity|]. split.
      * rewrite E3. exact O2.
      * intros _. rewrite E3. exact X2.
    + destruct M3 as (-> & N3). rewrite server_catch_ok in H by exact Hsp. inversion H; subst.
      split; [reflexivity|]. apply finish_io; [exact N3|]. rewrite E3. exact O2.
  - (* except FileNotFound: the error page is written; the connection may fail there *)
    destruct M1 as (N1 & _).
    destruct (run_nf (nf_steps h) MsgStr s1) as [r3 s3] eqn:R3.
    destruct (run_nf_spec _ _ _ _ _ (or_introl eq_refl) R3) as (E3 & _ & M3).
    destruct r3 as [|[c'| | |]]; try contradiction.
    + inversion H; subst. split; [reflexivity|]. apply unfaulted_ok; [congruence|]. rewrite E3. exact L1.
    + destruct M3 as (-> & N3). rewrite server_catch_ok in H by exact Hsp. inversion H; subst.
      split; [reflexivity|]. apply finish_io; [exact N3|]. rewrite E3.
      intros e He Ha. rewrite (L1 e He) in Ha. discriminate.
Qed.

Theorem logged_own_class sp h acts :
  server_ok sp = true -> spec_ok h = true ->
  forall o s, server_handle fails c sp h acts = (o, s) -> o = Contained /\ log_ok s.
Proof. intros Hsp Hh. exact (logged_from sp h acts init_st Hsp Hh eq_refl eq_refl). Qed.

(* nothing propagates past server.handle, whatever the handler specification *)
Lemma contained_from sp h acts s0 : server_ok sp = true ->
  fst (server_handle_from fails c sp h acts s0) = Contained.
Proof.
  intros Hsp. unfold server_handle_from. destruct (proto_handle fails c h acts s0) as [[|x] s]; [reflexivity|].
  now rewrite server_catch_ok.
Qed.
Theorem contained sp h acts : server_ok sp = true ->
  fst (server_handle fails c sp h acts) = Contained.
Proof. intros Hsp. exact (contained_from sp h acts init_st Hsp). Qed.

(* ---- the classification phase ---- *)
Lemma run_silent : forall pre s, silent pre = true ->
  exists s', run_actions pre s = (Ok, s') /\ nw s' = nw s /\ log s' = log s /\
             (forall d, final_depth pre (depth s) = Some d -> depth s' = d).
Proof.
  induction pre as [|a pre IH]; intros s H; simpl in H.
  - exists s. repeat split. intros d E. simpl in E. now inversion E.
  - apply andb_true_iff in H as [Ha Hp]. destruct a; try discriminate; simpl.
    + destruct (IH (St (nw s) (S (depth s)) (refs s) (log s)) Hp) as (s' & R & N & L & D).
      exists s'. repeat split; assumption.
    + destruct (IH (St (nw s) (pred (depth s)) (refs s) (log s)) Hp) as (s' & R & N & L & D).
      exists s'. repeat split; try assumption. intros d E. destruct (depth s) as [|d0]; [discriminate|]. now apply D.
    + destruct (IH (St (nw s) (depth s) (S (refs s)) (log s)) Hp) as (s' & R & N & L & D).
      exists s'. repeat split; assumption.
Qed.

Theorem connection_logged sp h pre acts :
  server_ok sp = true -> spec_ok h = true -> silent pre = true ->
  forall o s, connection fails c sp h pre acts = (o, s) -> o = Contained /\ log_ok s.
Proof.
  intros Hsp Hh Hs o s H. unfold connection in H.
  destruct (run_silent pre init_st Hs) as (s0 & R & N & L & _). rewrite R in H.
  exact (logged_from sp h acts s0 Hsp Hh N L o s H).
Qed.

Theorem connection_contained sp h pre acts : server_ok sp = true -> silent pre = true ->
  fst (connection fails c sp h pre acts) = Contained.
Proof.
  intros Hsp Hs. unfold connection. destruct (run_silent pre init_st Hs) as (s0 & R & _). rewrite R.
  now apply contained_from.
Qed.

(* ---- files ---- *)
Lemma server_catch_depth sp x s : depth (snd (server_catch fails sp x s)) = depth s.
Proof.
  induction sp as [|[f l] sp IH]; simpl; [reflexivity|].
  destruct (filter_matches f x); [|exact IH]. destruct l; reflexivity.
Qed.

Lemma run_actions_depth : forall acts s r s',
  run_actions acts s = (r, s') ->
  match r with
  | Ok => forall d, final_depth acts (depth s) = Some d -> depth s' = d
  | Raise _ => depth s' = 0
  end.
Proof.
  induction acts as [|a acts IH]; intros s r s' H; simpl in H.
  - inversion H; subst. intros d E. simpl in E. now inversion E.
  - destruct a.
    + unfold Conn.do_write in H. destruct (fails (nw s)).
      * inversion H; subst. reflexivity.
      * specialize (IH _ _ _ H). simpl in IH. destruct r; exact IH.
    + specialize (IH _ _ _ H). simpl in IH. destruct r; exact IH.
    + specialize (IH _ _ _ H). simpl in IH. destruct r; [|exact IH].
      intros d E. simpl in E. destruct (depth s); [discriminate|]. simpl in IH. now apply IH.
    + specialize (IH _ _ _ H). simpl in IH. destruct r; exact IH.
    + inversion H; subst. reflexivity.
Qed.

Lemma run_nf_depth : forall steps m s r s', run_nf steps m s = (r, s') -> depth s' = depth s.
Proof.
  induction steps as [|a steps IH]; intros m s r s' H; simpl in H.
  - now inversion H.
  - destruct a.
    + unfold Conn.do_write in H. destruct (fails (nw s)); [now inversion H|].
      apply IH in H. exact H.
    + destruct m; [|now inversion H].
      unfold Conn.do_write in H. destruct (fails (nw s)); [now inversion H|].
      apply IH in H. exact H.
Qed.

Lemma files_closed_from sp h acts s0 : final_depth acts (depth s0) = Some 0 ->
  depth (snd (server_handle_from fails c sp h acts s0)) = 0.
Proof.
  intros B. unfold server_handle_from.
  assert (P : forall r s, proto_handle fails c h acts s0 = (r, s) -> depth s = 0).
  { intros r s H. unfold proto_handle in H.
    destruct (body_in_try h).
    - destruct (run_actions acts s0) as [r1 s1] eqn:R1.
      pose proof (run_actions_depth _ _ _ _ R1) as D1.
      destruct r1 as [|x].
      + simpl in H. inversion H; subst. apply D1. exact B.
      + destruct x as [c'| | |].
        * destruct (eval_msg c (io_msg h)) as [[|x] m].
          -- apply run_nf_depth in H. rewrite H. destruct (io_logs h); simpl; exact D1.
          -- inversion H; subst. destruct (io_logs h); simpl; exact D1.
        * inversion H; subst. exact D1.
        * inversion H; subst. exact D1.
        * apply run_nf_depth in H. now rewrite H.
    - rewrite final_depth_split in B.
      destruct (run_actions (prep_part acts) s0) as [r1 s1] eqn:R1.
      pose proof (run_actions_depth _ _ _ _ R1) as D1.
      destruct r1 as [|x].
      + destruct (final_depth (prep_part acts) (depth s0)) as [d1|] eqn:F1; [|discriminate].
        simpl in D1. specialize (D1 d1 eq_refl).
        pose proof (run_actions_depth _ _ _ _ H) as D2. destruct r.
        * apply D2. rewrite D1. exact B.
        * exact D2.
      + destruct x as [c'| | |].
        * destruct (eval_msg c (io_msg h)) as [[|x] m].
          -- apply run_nf_depth in H. rewrite H. destruct (io_logs h); simpl; exact D1.
          -- inversion H; subst. destruct (io_logs h); simpl; exact D1.
        * inversion H; subst. exact D1.
        * inversion H; subst. exact D1.
        * apply run_nf_depth in H. now rewrite H. }
  destruct (proto_handle fails c h acts s0) as [[|x] s] eqn:E.
  - simpl. now apply (P Ok).
  - rewrite server_catch_depth. now apply (P (Raise x)).
Qed.

Theorem files_closed sp h acts : balanced acts ->
  depth (snd (server_handle fails c sp h acts)) = 0.
Proof. intros B. exact (files_closed_from sp h acts init_st B). Qed.

Lemma final_depth_app : forall a b d,
  final_depth (a ++ b) d = match final_depth a d with Some d1 => final_depth b d1 | None => None end.
Proof.
  induction a as [|x a IH]; intros b d; simpl; [reflexivity|].
  destruct x; try apply IH. destruct d; [reflexivity | apply IH].
Qed.

Theorem connection_files_closed sp h pre acts : balanced (pre ++ acts) ->
  depth (snd (connection fails c sp h pre acts)) = 0.
Proof.
  unfold balanced. rewrite final_depth_app. intros B. unfold connection.
  destruct (run_actions pre init_st) as [r s0] eqn:R.
  pose proof (run_actions_depth _ _ _ _ R) as D. destruct r as [|x].
  - destruct (final_depth pre 0) as [d1|] eqn:F; [|discriminate].
    apply files_closed_from. simpl in D. rewrite (D d1 F). exact B.
  - exact D.
Qed.
End Fault.

(* the pinned Gopher+ handler with a one-argument timeout on a connection that
   is gone: the failure is logged a second time as IndexError *)
Lemma argsindex_refuted :
  exists p acts k,
    In (Entry LIndexError true true)
       (log (snd (server_handle (window k None) TIMEOUT pinned_server (pinned_spec p) acts))).
Proof. exists PCGopherPlus, [AWrite], 0. vm_compute. tauto. Qed.

(* `e.strerror` alone in a handler whose reply escapes the message: one write
   times out, the connection recovers, html.escape(None) raises AttributeError *)
Lemma strerror_escape_refuted :
  exists acts k,
    In (Entry LAttributeError true true)
       (log (snd (server_handle (window k (Some 1)) TIMEOUT pinned_server
                   (HSpec true true MStrerror [NfW; NfW; NfW; NfW; NfWEscape; NfW]) acts))).
Proof. exists [AWrite], 0. vm_compute. tauto. Qed.

(* why the classification phase has to be silent: a write issued from
   getProtocol (before the try of GopherRequestHandler.handle) that fails leaves
   the connection handler *)
Lemma classification_write_escapes :
  exists pre k, connection (window k None) EPIPE pinned_server (pinned_spec PCHttp) pre [] =
                (Escaped (XIO EPIPE), St 1 0 0 []).
Proof. exists [AWrite], 0. reflexivity. Qed.

Lemma pinned_not_ok : map (fun p => spec_ok (pinned_spec p)) all_pclass = [true; false; false; false; true; true].
Proof. reflexivity. Qed.
