(* Lemmas for C20: for every response (any list of actions), every fault
   position, every error class and every handler / server specification that
   satisfies the decidable conditions spec_ok / server_ok. *)
(* every command of this file is bounded (the largest, one kernel evaluation of the
   whole finite domain, takes ~12 s) *)
Set Default Timeout 300.
From Coq Require Import List Arith Bool Lia.
Import ListNotations.
From PG Require Import Model.Conn.

Section Fault.
Variable k : nat.
Variable c : ioclass.

Definition quiet (s s' : st) : Prop :=
  exists new, log s' = new ++ log s /\ Forall (fun e => e_after e = false) new.

Lemma quiet_refl s : quiet s s.
Proof. exists []. split; [reflexivity | constructor]. Qed.

Lemma quiet_log s s' : log s' = log s -> quiet s s'.
Proof. intros E. exists []. split; [exact E | constructor]. Qed.

Lemma quiet_trans a b d : quiet a b -> quiet b d -> quiet a d.
Proof.
  intros (n1 & E1 & F1) (n2 & E2 & F2). exists (n2 ++ n1). split.
  - rewrite E2, E1. now rewrite app_assoc.
  - apply Forall_app. split; assumption.
Qed.

(* ---- run_actions from a state in which the connection has not failed yet ---- *)
Lemma run_actions_spec : forall acts s r s',
  nw s <= k -> run_actions k c acts s = (r, s') ->
  quiet s s' /\
  match r with
  | Ok => nw s' <= k /\ (forall d, final_depth acts (depth s) = Some d -> depth s' = d)
  | Raise XNotFound => nw s' <= k /\ depth s' = 0
  | Raise (XIO c') => c' = c /\ nw s' = S k /\ depth s' = 0
  | Raise _ => False
  end.
Proof.
  induction acts as [|a acts IH]; intros s r s' Hn H; simpl in H.
  - inversion H; subst. split; [apply quiet_refl|]. split; [assumption|]. intros d E. simpl in E. now inversion E.
  - destruct a.
    + (* AWrite *)
      unfold do_write in H. destruct (k <=? nw s) eqn:E.
      * inversion H; subst. apply Nat.leb_le in E. split; [now apply quiet_log|]. simpl.
        repeat split; lia.
      * apply Nat.leb_gt in E.
        specialize (IH (St (S (nw s)) (depth s) (refs s) (log s)) r s').
        simpl in IH. destruct (IH ltac:(lia) H) as [Q M]. split.
        { destruct Q as (n & E1 & F1). exists n. split; assumption. }
        destruct r as [|[c'| | |]]; simpl; try exact M.
    + (* AOpen *)
      specialize (IH (St (nw s) (S (depth s)) (refs s) (log s)) r s' Hn H). simpl in IH.
      destruct IH as [Q M]. split; [destruct Q as (n & E1 & F1); exists n; split; assumption|].
      destruct r as [|[c'| | |]]; simpl; exact M.
    + (* AClose *)
      specialize (IH (St (nw s) (pred (depth s)) (refs s) (log s)) r s' Hn H). simpl in IH.
      destruct IH as [Q M]. split; [destruct Q as (n & E1 & F1); exists n; split; assumption|].
      destruct r as [|[c'| | |]]; simpl; try exact M.
      destruct M as [M1 M2]. split; [exact M1|]. intros d E. destruct (depth s) as [|d0]; [discriminate|].
      simpl in M2. now apply M2.
    + (* AOpenRef *)
      specialize (IH (St (nw s) (depth s) (S (refs s)) (log s)) r s' Hn H). simpl in IH.
      destruct IH as [Q M]. split; [destruct Q as (n & E1 & F1); exists n; split; assumption|].
      destruct r as [|[c'| | |]]; simpl; exact M.
    + (* ANotFound *)
      inversion H; subst. simpl. split.
      * exists [Entry LFileNotFound true (faulted k s)]. split; [reflexivity|]. constructor; [|constructor].
        simpl. unfold faulted. apply Nat.ltb_ge. exact Hn.
      * split; [exact Hn | reflexivity].
Qed.

(* the part before the first write never fails with an I/O error *)
Lemma run_prep_no_io : forall acts s r s',
  run_actions k c (prep_part acts) s = (r, s') -> forall c', r <> Raise (XIO c').
Proof.
  induction acts as [|a acts IH]; intros s r s' H c'; simpl in H.
  - inversion H. discriminate.
  - destruct a; simpl in H; try (now eapply IH; eauto).
    + inversion H. discriminate.
    + inversion H. discriminate.
Qed.

Lemma final_depth_split : forall acts d,
  final_depth acts d = match final_depth (prep_part acts) d with
                       | Some d1 => final_depth (send_part acts) d1
                       | None => None
                       end.
Proof.
  induction acts as [|a acts IH]; intros d; simpl; [reflexivity|].
  destruct a; simpl; try apply IH; try reflexivity.
  destruct d; [reflexivity | apply IH].
Qed.

(* ---- filenotfound: before and after the failure ---- *)
Lemma run_nf_unfaulted : forall steps s r s',
  nw s <= k -> run_nf k c steps MsgStr s = (r, s') ->
  log s' = log s /\ depth s' = depth s /\
  match r with
  | Ok => nw s' <= k
  | Raise (XIO c') => c' = c /\ nw s' = S k
  | Raise _ => False
  end.
Proof.
  induction steps as [|a steps IH]; intros s r s' Hn H; simpl in H.
  - inversion H; subst. auto.
  - assert (G : match do_write k c s with
                | (Ok, s1) => run_nf k c steps MsgStr s1
                | (Raise x, s1) => (Raise x, s1)
                end = (r, s')) by (destruct a; exact H).
    clear H. unfold do_write in G. destruct (k <=? nw s) eqn:E.
    + inversion G; subst. apply Nat.leb_le in E. simpl. repeat split; lia.
    + apply Nat.leb_gt in E.
      specialize (IH (St (S (nw s)) (depth s) (refs s) (log s)) r s'). simpl in IH.
      apply IH; [lia | exact G].
Qed.

Lemma run_nf_faulted : forall steps m s r s',
  k < nw s -> run_nf k c steps m s = (r, s') ->
  log s' = log s /\ depth s' = depth s /\ k < nw s' /\
  match steps with
  | [] => r = Ok
  | NfW :: _ => r = Raise (XIO c)
  | NfWEscape :: _ => match m with MsgStr => r = Raise (XIO c) | MsgNone => r = Raise XAttr end
  end.
Proof.
  intros steps m s r s' Hn H. destruct steps as [|a steps]; simpl in H.
  - inversion H; subst. auto.
  - assert (W : do_write k c s = (Raise (XIO c), St (S (nw s)) (depth s) (refs s) (log s))).
    { unfold do_write. destruct (k <=? nw s) eqn:E; [reflexivity|]. apply Nat.leb_gt in E. lia. }
    destruct a.
    + rewrite W in H. inversion H; subst. simpl. repeat split; auto.
    + destruct m.
      * rewrite W in H. inversion H; subst. simpl. repeat split; auto.
      * inversion H; subst. repeat split; auto.
Qed.

(* ---- the log after server.handle ---- *)
Definition own (e : entry) : Prop := e_cls e = LIO c /\ e_addr e = true.
Definition log_ok (s : st) : Prop :=
  (forall e, In e (log s) -> e_after e = true -> own e) /\
  (faulted k s = true -> exists e, In e (log s) /\ e_after e = true).

Lemma quiet_no_after s s' : log s = [] -> quiet s s' -> forall e, In e (log s') -> e_after e = false.
Proof.
  intros E (n & E1 & F) e He. rewrite E1, E, app_nil_r in He. rewrite Forall_forall in F. now apply F.
Qed.

Lemma add_log_faulted l a s : k < nw s ->
  log (add_log k l a s) = Entry l a true :: log s /\ nw (add_log k l a s) = nw s /\ depth (add_log k l a s) = depth s.
Proof.
  intros H. unfold add_log, faulted. simpl. apply Nat.ltb_lt in H. now rewrite H.
Qed.

Lemma add_log_unfaulted l a s : nw s <= k ->
  log (add_log k l a s) = Entry l a false :: log s /\ nw (add_log k l a s) = nw s /\ depth (add_log k l a s) = depth s.
Proof.
  intros H. unfold add_log, faulted. simpl. apply Nat.ltb_ge in H. now rewrite H.
Qed.

(* what server_catch does for a well-formed server specification *)
Lemma server_catch_ok sp x s : server_ok sp = true ->
  server_catch k sp x s = (Contained, add_log k (cls_of x) true s).
Proof.
  intros H. destruct sp as [|[f l] sp]; [discriminate|]. destruct f.
  - destruct l; [|discriminate]. destruct sp as [|[f2 l2] sp]; [discriminate|].
    destruct f2; [discriminate|]. destruct l2; [|discriminate].
    simpl. destruct x; reflexivity.
  - destruct l; [|discriminate]. simpl. reflexivity.
Qed.

(* case: the exception reaching the server is the I/O error of the failed
   connection, and nothing was logged after the failure except own-class records *)
Lemma finish_io s : k < nw s ->
  (forall e, In e (log s) -> e_after e = true -> own e) ->
  log_ok (add_log k (LIO c) true s).
Proof.
  intros Hn Hl. destruct (add_log_faulted (LIO c) true s Hn) as (E & _ & _). split.
  - intros e He Ha. rewrite E in He. destruct He as [He|He]; [subst e; split; reflexivity | now apply Hl].
  - intros _. exists (Entry (LIO c) true true). rewrite E. split; [now left | reflexivity].
Qed.

Lemma unfaulted_ok s : nw s <= k -> (forall e, In e (log s) -> e_after e = false) -> log_ok s.
Proof.
  intros Hn Hl. split.
  - intros e He Ha. rewrite (Hl e He) in Ha. discriminate.
  - unfold faulted. intros F. apply Nat.ltb_lt in F. lia.
Qed.

Lemma unfaulted_add_ok l s : nw s <= k -> (forall e, In e (log s) -> e_after e = false) -> log_ok (add_log k l true s).
Proof.
  intros Hn Hl. destruct (add_log_unfaulted l true s Hn) as (E & N & _).
  apply unfaulted_ok; [lia|]. intros e He. rewrite E in He. destruct He as [He|He]; [now subst e | now apply Hl].
Qed.

Theorem logged_own_class sp h acts :
  server_ok sp = true -> spec_ok h = true ->
  forall o s, server_handle k c sp h acts = (o, s) -> o = Contained /\ log_ok s.
Proof.
  intros Hsp Hh o s H. unfold server_handle, proto_handle in H.
  set (tried := if body_in_try h then acts else prep_part acts) in H.
  set (aft := if body_in_try h then [] else send_part acts) in H.
  destruct (run_actions k c tried init_st) as [r1 s1] eqn:R1.
  assert (N0 : nw init_st <= k) by (simpl; lia).
  destruct (run_actions_spec tried init_st r1 s1 N0 R1) as [Q1 M1].
  pose proof (quiet_no_after init_st s1 eq_refl Q1) as L1.
  destruct r1 as [|[c'| | |]]; try contradiction.
  - (* the tried part went through; the rest runs outside the try *)
    destruct M1 as [N1 _].
    destruct (run_actions k c aft s1) as [r2 s2] eqn:R2.
    destruct (run_actions_spec aft s1 r2 s2 N1 R2) as [Q2 M2].
    pose proof (quiet_no_after init_st s2 eq_refl (quiet_trans _ _ _ Q1 Q2)) as L2.
    destruct r2 as [|[c'| | |]]; try contradiction.
    + inversion H; subst. split; [reflexivity|]. apply unfaulted_ok; tauto.
    + rewrite server_catch_ok in H by exact Hsp. inversion H; subst. split; [reflexivity|].
      destruct M2 as (-> & N2 & _). apply finish_io; [lia|].
      intros e He Ha. rewrite (L2 e He) in Ha. discriminate.
    + rewrite server_catch_ok in H by exact Hsp. inversion H; subst. split; [reflexivity|].
      destruct M2 as (N2 & _). now apply unfaulted_add_ok.
  - (* except IOError *)
    destruct M1 as (-> & N1 & _).
    assert (T : body_in_try h = true).
    { destruct (body_in_try h) eqn:B; [reflexivity|]. exfalso.
      subst tried. exact (run_prep_no_io acts init_st _ _ R1 c eq_refl). }
    unfold spec_ok in Hh. rewrite T in Hh. simpl in Hh.
    set (s2 := if io_logs h then add_log k (LIO c) true s1 else s1) in H.
    assert (P2 : k < nw s2 /\ (forall e, In e (log s2) -> e_after e = true -> own e) /\
                 (io_logs h = true -> exists e, In e (log s2) /\ e_after e = true)).
    { subst s2. destruct (io_logs h).
      - destruct (add_log_faulted (LIO c) true s1 ltac:(lia)) as (E & N & _). rewrite E, N. split; [lia|]. split.
        + intros e [He|He] Ha; [subst e; split; reflexivity|]. rewrite (L1 e He) in Ha. discriminate.
        + intros _. exists (Entry (LIO c) true true). split; [now left | reflexivity].
      - split; [lia|]. split; [|discriminate]. intros e He Ha. rewrite (L1 e He) in Ha. discriminate. }
    destruct P2 as (N2 & O2 & X2).
    destruct (io_msg h) eqn:Mh; try discriminate; unfold eval_msg in H.
    + (* e.strerror, first step of filenotfound is a plain write *)
      assert (exists m, (match c with TIMEOUT => (Ok, MsgNone) | _ => (Ok, MsgStr) end) = (Ok, m)) as [m Em]
        by (destruct c; eexists; reflexivity).
      assert (H' : match run_nf k c (nf_steps h) m s2 with
                   | (Ok, s0) => (Contained, s0)
                   | (Raise x, s0) => server_catch k sp x s0
                   end = (o, s)) by (destruct c; inversion Em; subst; exact H).
      clear H. destruct (run_nf k c (nf_steps h) m s2) as [r3 s3] eqn:R3.
      destruct (run_nf_faulted _ _ _ _ _ N2 R3) as (E3 & _ & N3 & F3).
      destruct (nf_steps h) as [|[|] st']; try discriminate. subst r3.
      rewrite server_catch_ok in H' by exact Hsp. inversion H'; subst. split; [reflexivity|].
      apply finish_io; [exact N3|]. rewrite E3. exact O2.
    + (* e.strerror or str(e) *)
      assert (H' : match run_nf k c (nf_steps h) MsgStr s2 with
                   | (Ok, s0) => (Contained, s0)
                   | (Raise x, s0) => server_catch k sp x s0
                   end = (o, s)) by (destruct c; exact H).
      clear H. destruct (run_nf k c (nf_steps h) MsgStr s2) as [r3 s3] eqn:R3.
      destruct (run_nf_faulted _ _ _ _ _ N2 R3) as (E3 & _ & N3 & F3).
      destruct (nf_steps h) as [|[|] st'].
      * subst r3. inversion H'; subst. split; [reflexivity|]. split.
        -- rewrite E3. exact O2.
        -- intros _. rewrite E3. now apply X2.
      * subst r3. rewrite server_catch_ok in H' by exact Hsp. inversion H'; subst. split; [reflexivity|].
        apply finish_io; [exact N3|]. rewrite E3. exact O2.
      * subst r3. rewrite server_catch_ok in H' by exact Hsp. inversion H'; subst. split; [reflexivity|].
        apply finish_io; [exact N3|]. rewrite E3. exact O2.
  - (* except FileNotFound: the error page is written; the connection may fail there *)
    destruct M1 as (N1 & _).
    destruct (run_nf k c (nf_steps h) MsgStr s1) as [r3 s3] eqn:R3.
    destruct (run_nf_unfaulted _ _ _ _ N1 R3) as (E3 & _ & F3).
    destruct r3 as [|[c'| | |]]; try contradiction.
    + inversion H; subst. split; [reflexivity|]. apply unfaulted_ok; [exact F3|]. rewrite E3. exact L1.
    + destruct F3 as (-> & N3). rewrite server_catch_ok in H by exact Hsp. inversion H; subst.
      split; [reflexivity|]. apply finish_io; [lia|]. rewrite E3.
      intros e He Ha. rewrite (L1 e He) in Ha. discriminate.
Qed.

(* nothing propagates past server.handle, whatever the handler specification *)
Theorem contained sp h acts : server_ok sp = true ->
  fst (server_handle k c sp h acts) = Contained.
Proof.
  intros Hsp. unfold server_handle. destruct (proto_handle k c h acts init_st) as [[|x] s]; [reflexivity|].
  now rewrite server_catch_ok.
Qed.

(* ---- files ---- *)
Lemma server_catch_depth sp x s : depth (snd (server_catch k sp x s)) = depth s.
Proof.
  induction sp as [|[f l] sp IH]; simpl; [reflexivity|].
  destruct (filter_matches f x); [|exact IH]. destruct l; reflexivity.
Qed.

Lemma run_actions_depth : forall acts s r s',
  run_actions k c acts s = (r, s') ->
  match r with
  | Ok => forall d, final_depth acts (depth s) = Some d -> depth s' = d
  | Raise _ => depth s' = 0
  end.
Proof.
  induction acts as [|a acts IH]; intros s r s' H; simpl in H.
  - inversion H; subst. intros d E. simpl in E. now inversion E.
  - destruct a.
    + unfold do_write in H. destruct (k <=? nw s).
      * inversion H; subst. reflexivity.
      * specialize (IH _ _ _ H). simpl in IH. destruct r; exact IH.
    + specialize (IH _ _ _ H). simpl in IH. destruct r; exact IH.
    + specialize (IH _ _ _ H). simpl in IH. destruct r; [|exact IH].
      intros d E. simpl in E. destruct (depth s); [discriminate|]. simpl in IH. now apply IH.
    + specialize (IH _ _ _ H). simpl in IH. destruct r; exact IH.
    + inversion H; subst. reflexivity.
Qed.

Lemma run_nf_depth : forall steps m s r s', run_nf k c steps m s = (r, s') -> depth s' = depth s.
Proof.
  induction steps as [|a steps IH]; intros m s r s' H; simpl in H.
  - now inversion H.
  - destruct a.
    + unfold do_write in H. destruct (k <=? nw s); [now inversion H|].
      apply IH in H. exact H.
    + destruct m; [|now inversion H].
      unfold do_write in H. destruct (k <=? nw s); [now inversion H|].
      apply IH in H. exact H.
Qed.

Theorem files_closed sp h acts : balanced acts ->
  depth (snd (server_handle k c sp h acts)) = 0.
Proof.
  intros B. unfold balanced in B. unfold server_handle.
  assert (P : forall r s, proto_handle k c h acts init_st = (r, s) -> depth s = 0).
  { intros r s H. unfold proto_handle in H.
    destruct (body_in_try h).
    - destruct (run_actions k c acts init_st) as [r1 s1] eqn:R1.
      pose proof (run_actions_depth _ _ _ _ R1) as D1.
      destruct r1 as [|x].
      + simpl in H. inversion H; subst. apply D1. exact B.
      + destruct x as [c'| | |].
        * destruct (eval_msg c (io_msg h)) as [[|x] m].
          -- apply run_nf_depth in H. rewrite H. destruct (io_logs h); simpl; exact D1.
          -- inversion H; subst. destruct (io_logs h); simpl; exact D1.
        * inversion H; subst. exact D1.
        * inversion H; subst. exact D1.
        * apply run_nf_depth in H. now rewrite H.
    - rewrite final_depth_split in B.
      destruct (run_actions k c (prep_part acts) init_st) as [r1 s1] eqn:R1.
      pose proof (run_actions_depth _ _ _ _ R1) as D1.
      destruct r1 as [|x].
      + destruct (final_depth (prep_part acts) 0) as [d1|] eqn:F1; [|discriminate].
        simpl in D1. specialize (D1 d1 F1).
        pose proof (run_actions_depth _ _ _ _ H) as D2. destruct r.
        * apply D2. rewrite D1. exact B.
        * exact D2.
      + destruct x as [c'| | |].
        * destruct (eval_msg c (io_msg h)) as [[|x] m].
          -- apply run_nf_depth in H. rewrite H. destruct (io_logs h); simpl; exact D1.
          -- inversion H; subst. destruct (io_logs h); simpl; exact D1.
        * inversion H; subst. exact D1.
        * inversion H; subst. exact D1.
        * apply run_nf_depth in H. now rewrite H. }
  destruct (proto_handle k c h acts init_st) as [[|x] s] eqn:E.
  - simpl. now apply (P Ok).
  - rewrite server_catch_depth. now apply (P (Raise x)).
Qed.
End Fault.

(* the pinned Gopher+ handler with a one-argument timeout: the failure is logged
   a second time as IndexError *)
Lemma argsindex_refuted :
  exists p acts k,
    In (Entry LIndexError true true) (log (snd (server_handle k TIMEOUT pinned_server (pinned_spec p) acts))).
Proof. exists PCGopherPlus, [AWrite], 0. vm_compute. tauto. Qed.

Lemma pinned_not_ok : map (fun p => spec_ok (pinned_spec p)) all_pclass = [true; false; false; false; true; true].
Proof. reflexivity. Qed.
