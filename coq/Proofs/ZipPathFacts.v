(* ZipPathFacts.v — facts about Lib/ZipPath.v on "/"-joined component lists. *)
From Coq Require Import Arith Lia.
From PG Require Import Lib.Str Lib.StrFacts Lib.ZipPath.
Local Open Scope N_scope.

(* a component: no slash inside; a proper component is moreover non-empty *)
Definition no_sl (c : str) : Prop := mem_N SL c = false.
Definition comp_ok (c : str) : Prop := no_sl c /\ c <> [].

Lemma no_sl_In c x : no_sl c -> In x c -> x <> SL.
Proof.
  unfold no_sl. intros H HI E. subst x.
  assert (mem_N SL c = true) by (apply mem_N_In; exact HI). congruence.
Qed.

Lemma split_fields_no_sl s f : In f (split_on SL s) -> no_sl f.
Proof. apply split_on_field_no_sep. Qed.

Lemma is_nil_false {A} (l : list A) : is_nil l = false <-> l <> [].
Proof. destruct l; simpl; split; congruence. Qed.
Lemma is_nil_true {A} (l : list A) : is_nil l = true <-> l = [].
Proof. destruct l; simpl; split; congruence. Qed.
Lemma nonempty_true (s : str) : nonempty s = true <-> s <> [].
Proof. unfold nonempty. rewrite negb_true_iff. apply is_nil_false. Qed.

(* ---------- join ---------- *)
Lemma join_cons2 x y r : join [SL] (x :: y :: r) = x ++ SL :: join [SL] (y :: r).
Proof. reflexivity. Qed.

Lemma join_snoc cs f : cs <> [] -> join [SL] (cs ++ [f]) = join [SL] cs ++ SL :: f.
Proof.
  induction cs as [|x cs IH]; [congruence|]. intros _.
  destruct cs as [|y cs].
  - reflexivity.
  - change ((x :: y :: cs) ++ [f]) with (x :: y :: (cs ++ [f])).
    rewrite (join_cons2 x y (cs ++ [f])).
    change (y :: cs ++ [f]) with ((y :: cs) ++ [f]).
    rewrite IH by discriminate. rewrite (join_cons2 x y cs).
    now rewrite <- app_assoc.
Qed.

Lemma split_on_join cs : cs <> [] -> Forall no_sl cs -> split_on SL (join [SL] cs) = cs.
Proof.
  induction cs as [|x cs IH]; [congruence|]. intros _ HF.
  inversion HF as [|? ? Hx Hr]; subst.
  destruct cs as [|y cs].
  - simpl. now apply split_on_no_sep.
  - rewrite join_cons2, split_on_app, IH by (discriminate || assumption).
    now rewrite split_on_no_sep.
Qed.

Lemma split_on_snoc_sep s : split_on SL (s ++ [SL]) = split_on SL s ++ [[]].
Proof. now rewrite split_on_app. Qed.

(* the joined string starts with a non-slash character *)
Lemma join_head c0 r : comp_ok c0 -> exists ch t, join [SL] (c0 :: r) = ch :: t /\ ch <> SL.
Proof.
  intros [Hn Hne]. destruct c0 as [|ch c0]; [congruence|].
  exists ch. destruct r as [|y r].
  - exists c0. split; [reflexivity|]. apply (no_sl_In _ _ Hn). now left.
  - eexists. split; [rewrite join_cons2; reflexivity|]. apply (no_sl_In _ _ Hn). now left.
Qed.

(* ... and ends with one *)
Lemma join_rev_head cs l : comp_ok l -> exists ch t, rev (join [SL] (cs ++ [l])) = ch :: t /\ ch <> SL.
Proof.
  intros [Hn Hne].
  assert (Hl : exists ch t, rev l = ch :: t /\ ch <> SL).
  { destruct (rev l) as [|ch t] eqn:E.
    - apply (f_equal (@rev N)) in E. rewrite rev_involutive in E. simpl in E. congruence.
    - exists ch, t. split; [reflexivity|]. apply (no_sl_In _ _ Hn). apply in_rev. rewrite E. now left. }
  destruct Hl as (ch & t & E & Hc).
  destruct cs as [|x cs].
  - simpl. now exists ch, t.
  - rewrite join_snoc by discriminate. rewrite rev_app_distr. simpl. rewrite E.
    simpl. eexists _, _. split; [reflexivity|exact Hc].
Qed.

(* ---------- os_split on joined components ---------- *)
Lemma rstrip_sl_snoc a : (exists ch t, rev a = ch :: t /\ ch <> SL) -> rstrip_sl (a ++ [SL]) = a.
Proof.
  intros (ch & t & E & Hc). unfold rstrip_sl. rewrite rev_app_distr. simpl.
  rewrite E. simpl. apply N.eqb_neq in Hc. rewrite Hc.
  rewrite <- E. apply rev_involutive.
Qed.

Lemma os_split_single f : no_sl f -> os_split f = ([], f).
Proof.
  intros H. unfold os_split. rewrite (split_on_no_sep _ _ H). simpl.
  now rewrite Nat.sub_diag.
Qed.

Lemma os_split_join cs l f :
  Forall comp_ok (cs ++ [l]) -> no_sl f ->
  os_split (join [SL] ((cs ++ [l]) ++ [f])) = (join [SL] (cs ++ [l]), f).
Proof.
  intros HF Hf.
  assert (Hns : Forall no_sl ((cs ++ [l]) ++ [f])).
  { apply Forall_app. split; [|now constructor]. eapply Forall_impl; [|exact HF]. now intros a [H _]. }
  assert (Hne : cs ++ [l] <> []) by (destruct cs; discriminate).
  unfold os_split. rewrite split_on_join by (assumption || (destruct (cs ++ [l]); discriminate)).
  rewrite last_last. rewrite join_snoc by assumption.
  set (A := join [SL] (cs ++ [l])).
  replace (length (A ++ SL :: f) - length f)%nat with (length (A ++ [SL])).
  2:{ rewrite !app_length. simpl. lia. }
  replace (A ++ SL :: f) with ((A ++ [SL]) ++ f) by now rewrite <- app_assoc.
  rewrite firstn_app, Nat.sub_diag, firstn_all. simpl. rewrite app_nil_r.
  assert (Hl : comp_ok l). { apply Forall_app in HF as [_ H]. now inversion H. }
  assert (Hfa : forallb (N.eqb SL) (A ++ [SL]) = false).
  { subst A. destruct (cs ++ [l]) as [|c0 r] eqn:E; [congruence|].
    assert (Hc0 : comp_ok c0) by now inversion HF.
    destruct (join_head c0 r Hc0) as (ch & t & EA & Hch).
    assert (Hq : (SL =? ch) = false) by (apply N.eqb_neq; congruence).
    rewrite EA. cbn [app forallb]. now rewrite Hq. }
  rewrite Hfa. f_equal. apply rstrip_sl_snoc. subst A. now apply join_rev_head.
Qed.

(* ---------- os_join on joined components ---------- *)
Lemma last_char_rev s ch t : rev s = ch :: t -> last_char s = Some ch.
Proof.
  intros E. apply (f_equal (@rev N)) in E. rewrite rev_involutive in E. simpl in E. subst s.
  apply last_char_app.
Qed.

Lemma os_join_nil it : os_join [] it = it.
Proof. unfold os_join. destruct it as [|c r]; [reflexivity|]. simpl. now destruct (c =? SL). Qed.

Lemma os_join_joined cs l it :
  comp_ok l -> no_sl it -> os_join (join [SL] (cs ++ [l])) it = join [SL] ((cs ++ [l]) ++ [it]).
Proof.
  intros Hl Hit.
  destruct (join_rev_head cs l Hl) as (ch & t & E & Hc).
  rewrite (join_snoc (cs ++ [l]) it) by (destruct cs; discriminate).
  apply N.eqb_neq in Hc.
  unfold os_join. destruct it as [|c r].
  - now rewrite (last_char_rev _ _ _ E), Hc.
  - assert (c <> SL) by (apply (no_sl_In _ _ Hit); now left).
    apply N.eqb_neq in H. now rewrite H, (last_char_rev _ _ _ E), Hc.
Qed.

(* ---------- path_prefixb / path_eqb ---------- *)
Lemma path_eqb_eq a b : path_eqb a b = true <-> a = b.
Proof.
  unfold path_eqb. revert b; induction a as [|x a IH]; intros [|y b]; simpl; split; intro H;
    try reflexivity; try discriminate.
  - apply andb_true_iff in H as [H1 H2]. apply str_eqb_eq in H1. apply IH in H2. now subst.
  - inversion H; subst. rewrite str_eqb_refl. simpl. now apply IH.
Qed.
Lemma path_eqb_refl a : path_eqb a a = true.
Proof. now apply path_eqb_eq. Qed.
Lemma path_eqb_neq a b : path_eqb a b = false <-> a <> b.
Proof.
  split; intro H.
  - intro E. apply path_eqb_eq in E. congruence.
  - destruct (path_eqb a b) eqn:E; [apply path_eqb_eq in E; contradiction|reflexivity].
Qed.

Lemma path_prefixb_spec a b : path_prefixb a b = true <-> exists t, b = a ++ t.
Proof.
  revert b; induction a as [|x a IH]; intros b; simpl.
  - split; [intros _; now exists b|reflexivity].
  - destruct b as [|y b].
    + split; [discriminate|intros [t H]; discriminate].
    + rewrite andb_true_iff, str_eqb_eq, IH. split.
      * intros [-> [t ->]]. now exists t.
      * intros [t H]. inversion H; subst. split; [reflexivity|now exists t].
Qed.

Lemma assoc_str_In {A} k (l : list (str * A)) v : assoc_str k l = Some v -> In (k, v) l.
Proof.
  induction l as [|[k' v'] l IH]; simpl; [discriminate|].
  destruct (str_eqb k k') eqn:E.
  - intros [= <-]. apply str_eqb_eq in E. subst. now left.
  - intros H. right. now apply IH.
Qed.
