(* C16Target.v — what populate_cache looks a link up as: for "nice" link
   targets the string handed to _getcacheinode is the "/"-join of a component
   list computed from the link's directory and the target, purely lexically. *)
From Coq Require Import Arith Lia.
From PG Require Import Lib.Str Lib.StrFacts Lib.ZipPath Proofs.ZipPathFacts Model.Zip
  Proofs.C16Index Proofs.C16Cache.
Local Open Scope nat_scope.

Ltac splits := repeat match goal with |- _ /\ _ => split end.

Definition plain (c : str) : Prop := plain_comp c = true.

Lemma plain_comp_parts c : plain c -> c <> [] /\ str_eqb c P_DOT = false /\ str_eqb c P_DOTDOT = false.
Proof.
  unfold plain, plain_comp. rewrite !andb_true_iff, !negb_true_iff. intros [[H1 H2] H3].
  splits; auto. now apply nonempty_true.
Qed.

Lemma strip_dotdots_spec cs :
  cs = repeat P_DOTDOT (fst (strip_dotdots cs)) ++ snd (strip_dotdots cs).
Proof.
  induction cs as [|c r IH]; simpl; [reflexivity|].
  destruct (str_eqb c P_DOTDOT) eqn:E.
  - apply str_eqb_eq in E. subst c. destruct (strip_dotdots r) as [k n]. simpl in *. now rewrite <- IH.
  - reflexivity.
Qed.

(* ---------- join / split of concatenations ---------- *)
Lemma join_app a b : a <> [] -> b <> [] -> join [SL] (a ++ b) = join [SL] a ++ SL :: join [SL] b.
Proof.
  intros Ha Hb. induction a as [|x a IH]; [congruence|].
  destruct a as [|y a].
  - simpl. destruct b; [congruence|reflexivity].
  - change ((x :: y :: a) ++ b) with (x :: (y :: a ++ b)). rewrite join_cons2.
    change (y :: a ++ b) with ((y :: a) ++ b). rewrite IH by discriminate.
    rewrite (join_cons2 x y a). now rewrite <- app_assoc.
Qed.

(* ---------- the component stack of normpath ---------- *)
Lemma fold_plain b cs : forall st,
  Forall plain cs -> fold_left (norm_step b) cs st = rev cs ++ st.
Proof.
  induction cs as [|c r IH]; intros st HF; simpl; [reflexivity|].
  inversion HF as [|? ? Hc Hr]; subst. destruct (plain_comp_parts c Hc) as (H1 & H2 & H3).
  unfold norm_step at 2. apply is_nil_false in H1. rewrite H1, H2, H3. simpl.
  rewrite IH by exact Hr. now rewrite <- app_assoc.
Qed.

Lemma norm_step_dotdot_on_dots j : norm_step true (repeat P_DOTDOT (S j)) P_DOTDOT = repeat P_DOTDOT (S (S j)).
Proof. reflexivity. Qed.

Lemma fold_dots_on_dots k : forall j,
  fold_left (norm_step true) (repeat P_DOTDOT k) (repeat P_DOTDOT (S j)) = repeat P_DOTDOT (k + S j).
Proof.
  induction k as [|k IH]; intros j; simpl; [reflexivity|].
  change (fold_left (norm_step true) (repeat P_DOTDOT k) (norm_step true (repeat P_DOTDOT (S j)) P_DOTDOT) =
          P_DOTDOT :: repeat P_DOTDOT (k + S j)).
  rewrite norm_step_dotdot_on_dots, IH. replace (k + S (S j)) with (S (k + S j)) by lia. reflexivity.
Qed.

Lemma fold_dotdots k : forall st,
  Forall plain st ->
  fold_left (norm_step true) (repeat P_DOTDOT k) st =
  if k <=? length st then skipn k st else repeat P_DOTDOT (k - length st).
Proof.
  induction k as [|k IH]; intros st HF; [reflexivity|].
  destruct st as [|top rest].
  - simpl repeat. simpl fold_left. change (norm_step true [] P_DOTDOT) with (repeat P_DOTDOT 1).
    rewrite fold_dots_on_dots. replace (k + 1) with (S k) by lia. reflexivity.
  - inversion HF as [|? ? Ht Hr]; subst. destruct (plain_comp_parts top Ht) as (_ & _ & H3).
    simpl repeat. simpl fold_left.
    assert (E : norm_step true (top :: rest) P_DOTDOT = rest) by (unfold norm_step; simpl; now rewrite H3).
    rewrite E, IH by exact Hr. simpl length. simpl skipn.
    destruct (k <=? length rest) eqn:Q; simpl; rewrite Q; reflexivity.
Qed.

Lemma rev_skipn_rev {A} k (l : list A) : rev (skipn k (rev l)) = firstn (length l - k) l.
Proof. rewrite skipn_rev. apply rev_involutive. Qed.

Lemma rev_repeat {A} (x : A) n : rev (repeat x n) = repeat x n.
Proof.
  induction n as [|n IH]; [reflexivity|]. simpl. rewrite IH.
  clear IH. induction n as [|n IH]; [reflexivity|]. simpl. now rewrite IH.
Qed.

(* the normalised components of  levels ++ ".."^k ++ names *)
Definition norm_comps (levels : list str) (k : nat) (names : list str) : list str :=
  if k <=? length levels then firstn (length levels - k) levels ++ names
  else repeat P_DOTDOT (k - length levels) ++ names.

Lemma norm_stack levels k names :
  Forall plain levels -> Forall plain names ->
  rev (fold_left (norm_step true) (levels ++ repeat P_DOTDOT k ++ names) []) = norm_comps levels k names.
Proof.
  intros HL HN. rewrite !fold_left_app. rewrite (fold_plain true levels [] HL), app_nil_r.
  rewrite fold_dotdots by (apply Forall_rev; exact HL). rewrite rev_length.
  rewrite fold_plain by exact HN. rewrite rev_app_distr, rev_involutive. unfold norm_comps.
  destruct (k <=? length levels); [now rewrite rev_skipn_rev|now rewrite rev_repeat].
Qed.

Lemma initial_slashes_0 ch s : ch <> SL -> initial_slashes (ch :: s) = 0.
Proof.
  intros H. apply N.eqb_neq in H. unfold initial_slashes.
  destruct s as [|b [|c r]]; now rewrite H.
Qed.

Lemma dotdot_comp_ok : comp_ok P_DOTDOT.
Proof. split; [reflexivity|discriminate]. Qed.
Lemma plain_comp_ok' c : plain c -> no_sl c -> comp_ok c.
Proof. intros H1 H2. split; [exact H2|]. now apply plain_comp_parts. Qed.

Lemma In_firstn {A} n (l : list A) x : In x (firstn n l) -> In x l.
Proof.
  revert n; induction l as [|a l IH]; intros [|n]; simpl; try tauto.
  intros [->|H]; [now left|right; eapply IH; eauto].
Qed.

Lemma norm_comps_ok levels k names :
  Forall comp_ok levels -> Forall comp_ok names -> Forall comp_ok (norm_comps levels k names).
Proof.
  intros HL HN. unfold norm_comps. destruct (k <=? length levels); apply Forall_app; split; auto.
  - apply Forall_forall. intros x Hx. rewrite Forall_forall in HL. apply HL.
    eapply In_firstn; eauto.
  - apply Forall_forall. intros x Hx. apply repeat_spec in Hx. subst. apply dotdot_comp_ok.
Qed.

Lemma normpath_rel p ch tl :
  p = ch :: tl -> ch <> SL ->
  normpath p = match join [SL] (rev (fold_left (norm_step true) (split_on SL p) [])) with
               | [] => P_DOT
               | s => s
               end.
Proof.
  intros -> H. unfold normpath. rewrite (initial_slashes_0 ch tl H). cbn [repeat app Nat.eqb].
  destruct (join [SL] (rev (fold_left (norm_step true) (split_on SL (ch :: tl)) []))); reflexivity.
Qed.

(* normpath of a relative path given by its components *)
Lemma normpath_comps levels k names :
  Forall plain levels -> Forall comp_ok levels -> Forall plain names -> Forall comp_ok names ->
  levels ++ repeat P_DOTDOT k ++ names <> [] ->
  normpath (join [SL] (levels ++ repeat P_DOTDOT k ++ names)) =
  match norm_comps levels k names with [] => P_DOT | rc => join [SL] rc end.
Proof.
  intros HLp HL HNp HN Hne.
  set (cs := levels ++ repeat P_DOTDOT k ++ names) in *.
  assert (Hcs : Forall comp_ok cs).
  { unfold cs. apply Forall_app. split; [exact HL|]. apply Forall_app. split; [|exact HN].
    apply Forall_forall. intros x Hx. apply repeat_spec in Hx. subst. apply dotdot_comp_ok. }
  assert (Hh : exists ch tl, join [SL] cs = ch :: tl /\ ch <> SL).
  { destruct cs as [|c0 r]; [congruence|]. apply join_head. now inversion Hcs. }
  destruct Hh as (ch & tl & Ej & Hch).
  rewrite (normpath_rel _ ch tl Ej Hch).
  rewrite split_on_join by (assumption || now apply comp_ok_no_sl).
  unfold cs. rewrite norm_stack by assumption.
  destruct (norm_comps levels k names) as [|x rc] eqn:En; [reflexivity|].
  assert (Hok : Forall comp_ok (x :: rc)) by (rewrite <- En; now apply norm_comps_ok).
  destruct (join [SL] (x :: rc)) eqn:Ejn; [|reflexivity].
  exfalso. eapply join_nonempty; [|exact Hok|exact Ejn]. discriminate.
Qed.

(* ---------- the target of a link, as components ---------- *)
Definition target_comps (levels : list str) (d : str) : option (list str) :=
  match d with
  | [] => None
  | ch :: d' =>
      if N.eqb ch SL then Some (qcomps d')
      else let (k, names) := strip_dotdots (split_on SL d) in
           if k <=? length levels then Some (firstn (length levels - k) levels ++ names) else None
  end.

Lemma name_join m :
  name_ok m = true ->
  m_name m = join [SL] (name_levels (m_name m) ++ [name_base (m_name m)]).
Proof.
  intros Hok. destruct (name_ok_levels m Hok) as [E _]. rewrite E.
  unfold raw_levels, name_base. rewrite <- app_removelast_last by apply split_on_nonempty.
  symmetry. apply join_split.
Qed.

Lemma name_ok_plain_levels m : name_ok m = true -> Forall plain (name_levels (m_name m)).
Proof.
  intros Hok. destruct (name_ok_levels m Hok) as [E _]. rewrite E.
  unfold name_ok in Hok. apply andb_true_iff in Hok as [H _]. apply Forall_forall.
  rewrite forallb_forall in H. exact H.
Qed.

Lemma os_join_rel levels ch d' :
  Forall comp_ok levels -> ch <> SL ->
  os_join (join [SL] levels) (ch :: d') = join [SL] (levels ++ split_on SL (ch :: d')).
Proof.
  intros HL Hch. destruct (snoc_cases levels) as [->|(cs & l & ->)].
  - rewrite app_nil_l. change (join [SL] []) with (@nil N). rewrite os_join_nil. symmetry. apply join_split.
  - assert (Hl : comp_ok l) by (apply Forall_app in HL as [_ H]; now inversion H).
    destruct (join_rev_head cs l Hl) as (x & t & E & Hx).
    assert (Hne1 : cs ++ [l] <> []) by (destruct cs; discriminate).
    rewrite (join_app (cs ++ [l]) (split_on SL (ch :: d')) Hne1 (split_on_nonempty SL (ch :: d'))).
    rewrite join_split. unfold os_join. apply N.eqb_neq in Hch, Hx.
    now rewrite Hch, (last_char_rev _ _ _ E), Hx.
Qed.

Lemma fields_comp_ok cs s : Forall plain cs -> (forall x, In x cs -> In x (split_on SL s)) -> Forall comp_ok cs.
Proof.
  intros HP Hin. apply Forall_forall. intros x Hx. apply plain_comp_ok'.
  - rewrite Forall_forall in HP. now apply HP.
  - eapply split_fields_no_sl. apply Hin. exact Hx.
Qed.

Lemma forallb_plain cs : forallb plain_comp cs = true -> Forall plain cs.
Proof. intros H. apply Forall_forall. rewrite forallb_forall in H. exact H. Qed.

Lemma norm_comps_not_dot levels k names :
  Forall plain levels -> Forall plain names -> Forall (fun c => c <> P_DOT) (norm_comps levels k names).
Proof.
  intros HL HN. assert (K : forall l, Forall plain l -> Forall (fun c => c <> P_DOT) l).
  { intros l H. eapply Forall_impl; [|exact H]. intros a Ha E. subst a. discriminate Ha. }
  unfold norm_comps. destruct (k <=? length levels); apply Forall_app; split; auto.
  - apply K. apply Forall_forall. intros x Hx. rewrite Forall_forall in HL. apply HL. eapply In_firstn; eauto.
  - apply Forall_forall. intros x Hx. apply repeat_spec in Hx. subst. discriminate.
Qed.

Lemma join_not_dot rc :
  rc <> [] -> Forall comp_ok rc -> Forall (fun c => c <> P_DOT) rc -> str_eqb (join [SL] rc) P_DOT = false.
Proof.
  intros Hne Hok Hnd. destruct (str_eqb (join [SL] rc) P_DOT) eqn:Q; [|reflexivity].
  exfalso. apply str_eqb_eq in Q.
  assert (S : split_on SL (join [SL] rc) = rc) by (apply split_on_join; [exact Hne|now apply comp_ok_no_sl]).
  rewrite Q in S. simpl in S. subst rc. inversion Hnd as [|? ? H1 _]. apply H1. reflexivity.
Qed.

Lemma link_target_nice m p d :
  name_ok m = true -> m_kind m = KLink d -> nice_dest d = true ->
  p_dest p = d -> p_path p = m_name m ->
  exists rc, link_target repaired p = Ok (join [SL] rc) /\ Forall comp_ok rc /\
    (target_comps (name_levels (m_name m)) d = Some rc \/
     (target_comps (name_levels (m_name m)) d = None /\ exists rest, rc = P_DOTDOT :: rest)).
Proof.
  intros Hok Hk Hn Hd Hp.
  set (levels := name_levels (m_name m)).
  destruct (name_ok_levels m Hok) as [_ HLok]. fold levels in HLok.
  pose proof (name_ok_plain_levels m Hok) as HLp. fold levels in HLp.
  unfold link_target. rewrite Hd. destruct d as [|ch d']; [discriminate|].
  unfold nice_dest in Hn. unfold target_comps.
  destruct (N.eqb ch SL) eqn:Ech.
  - (* absolute *)
    destruct d' as [|c2 d2].
    + exists []. splits; [reflexivity|constructor|now left].
    + simpl in Hn. exists (split_on SL (c2 :: d2)). rewrite join_split. splits; [reflexivity| |now left].
      apply (fields_comp_ok _ (c2 :: d2)); [now apply forallb_plain|auto].
  - (* relative *)
    apply N.eqb_neq in Ech.
    pose proof (strip_dotdots_spec (split_on SL (ch :: d'))) as Hs.
    destruct (strip_dotdots (split_on SL (ch :: d'))) as [k names] eqn:Est. cbn [fst snd] in Hs, Hn.
    assert (HNp : Forall plain names) by now apply forallb_plain.
    assert (HNok : Forall comp_ok names).
    { apply (fields_comp_ok _ (ch :: d')); [exact HNp|]. intros x Hx. rewrite Hs. apply in_or_app. now right. }
    assert (Hdn : os_dirname (p_path p) = join [SL] levels).
    { rewrite Hp. unfold os_dirname. pose proof (name_join m Hok) as En. fold levels in En.
      set (b := name_base (m_name m)) in *. rewrite En.
      now rewrite (os_split_exact levels b HLok (base_no_sl _)). }
    rewrite Hdn.
    rewrite (os_join_rel levels ch d' HLok Ech). rewrite Hs.
    rewrite normpath_comps; auto.
    2:{ intros E. apply app_eq_nil in E as [_ E]. rewrite <- Hs in E. now apply split_on_nonempty in E. }
    pose proof (norm_comps_ok levels k names HLok HNok) as Hrc.
    pose proof (norm_comps_not_dot levels k names HLp HNp) as Hnd.
    unfold norm_comps in *.
    destruct (k <=? length levels) eqn:Hle.
    + set (rc := firstn (length levels - k) levels ++ names) in *.
      exists rc. splits; [|exact Hrc|now left].
      destruct rc as [|x r] eqn:Erc; [reflexivity|].
      rewrite join_not_dot by (discriminate || assumption). now rewrite andb_false_r.
    + set (rc := repeat P_DOTDOT (k - length levels) ++ names) in *.
      exists rc. apply Nat.leb_gt in Hle.
      assert (Erc : exists rest, rc = P_DOTDOT :: rest).
      { unfold rc. destruct (k - length levels) as [|j] eqn:Ej; [lia|]. simpl. eauto. }
      splits; [|exact Hrc|right; now split].
      destruct Erc as [rest Erc]. rewrite Erc in *.
      rewrite join_not_dot by (discriminate || assumption). now rewrite andb_false_r.
Qed.
