(* C15Facts.v — Gopher+ item information is faithful. *)
From Coq Require Import Lia String ZArith.
From PG Require Import Lib.Str Lib.StrFacts Lib.Dec Lib.DecFacts Lib.Crlf Lib.CrlfFacts
     Model.Entry Model.Render0 Model.GopherPlus.
Local Open Scope N_scope.

(* ================= splitlines ================= *)
Definition no_break (l : str) : Prop := forallb (fun c => negb (is_linebreak c)) l = true.

Lemma no_break_cons c l : no_break (c :: l) <-> is_linebreak c = false /\ no_break l.
Proof.
  unfold no_break. cbn [forallb]. rewrite andb_true_iff, negb_true_iff. tauto.
Qed.

Lemma no_break_app a b : no_break (a ++ b) <-> no_break a /\ no_break b.
Proof. unfold no_break. rewrite forallb_app, andb_true_iff. tauto. Qed.

Lemma no_break_rev l : no_break l -> no_break (rev l).
Proof.
  induction l as [|c l IH]; intros H; [exact H|]. apply no_break_cons in H as [Hc Hl].
  simpl. apply no_break_app. split; [auto|]. apply no_break_cons. split; [exact Hc | reflexivity].
Qed.

Lemma no_break_no_lf l : no_break l -> no_lf l.
Proof.
  unfold no_break, no_lf. induction l as [|c l IH]; [reflexivity|]. cbn [forallb mem_N].
  rewrite andb_true_iff, negb_true_iff. intros [Hc Hl]. rewrite (IH Hl), orb_false_r.
  apply N.eqb_neq. intros <-. discriminate.
Qed.

(* one step of the splitter, as equations *)
Lemma splitlines_aux_nil cur :
  splitlines_aux cur [] = match cur with [] => [] | _ => [rev cur] end.
Proof. reflexivity. Qed.

Lemma splitlines_aux_plain cur x s :
  is_linebreak x = false -> splitlines_aux cur (x :: s) = splitlines_aux (x :: cur) s.
Proof. intros H. cbn [splitlines_aux]. now rewrite H. Qed.

Lemma splitlines_aux_break cur x s :
  is_linebreak x = true ->
  exists s', splitlines_aux cur (x :: s) = rev cur :: splitlines_aux [] s' /\
             (s' = s \/ exists y, s = y :: s').
Proof.
  intros H. cbn [splitlines_aux]. rewrite H.
  destruct x as [|p]; [discriminate|].
  destruct s as [|y s]; [destruct p as [[[[|[]|]|[]|]|[[]|[]|]|]|[[[]|[]|]|[[]|[]|]|]|]; exists []; auto|].
  destruct (N.eq_dec (Npos p) 13) as [E|NE].
  - inversion E; subst. destruct (N.eq_dec y 10) as [E2|NE2].
    + subst y. exists s. split; [reflexivity | right; now exists 10].
    + exists (y :: s). split; [|now left].
      destruct y as [|q]; [reflexivity|].
      destruct q as [[[[]|[]|]|[[]|[]|]|]|[[[]|[]|]|[[]|[]|]|]|]; try reflexivity; congruence.
  - exists (y :: s). split; [|now left].
    destruct p as [[[[]|[]|]|[[]|[]|]|]|[[[]|[]|]|[[]|[]|]|]|]; try reflexivity; congruence.
Qed.

(* every line returned by splitlines is free of line-break characters *)
Lemma splitlines_aux_no_break : forall n s cur, (List.length s <= n)%nat -> no_break cur ->
  Forall no_break (splitlines_aux cur s).
Proof.
  induction n as [|n IH]; intros s cur Hn Hc.
  - destruct s; [|simpl in Hn; lia]. rewrite splitlines_aux_nil.
    destruct cur; [constructor|]. constructor; [now apply no_break_rev | constructor].
  - destruct s as [|x s]; [rewrite splitlines_aux_nil; destruct cur; [constructor|];
                           constructor; [now apply no_break_rev | constructor]|].
    simpl in Hn. destruct (is_linebreak x) eqn:B.
    + destruct (splitlines_aux_break cur x s B) as (s' & E & Hs'). rewrite E.
      constructor; [now apply no_break_rev|]. apply IH; [|reflexivity].
      destruct Hs' as [->|[y ->]]; simpl in *; lia.
    + rewrite splitlines_aux_plain by exact B. apply IH; [lia|]. apply no_break_cons. auto.
Qed.

Theorem splitlines_no_break s : Forall no_break (splitlines s).
Proof. unfold splitlines. apply (splitlines_aux_no_break (List.length s)); [lia | reflexivity]. Qed.

(* a break-free segment followed by "\n" is one line *)
Lemma splitlines_aux_line l : forall cur rest, no_break l ->
  splitlines_aux cur (l ++ 10 :: rest) = (rev cur ++ l) :: splitlines_aux [] rest.
Proof.
  induction l as [|x l IH]; intros cur rest H.
  - simpl app. cbn [splitlines_aux]. change (is_linebreak 10) with true. cbn iota.
    now rewrite app_nil_r.
  - apply no_break_cons in H as [Hx Hl]. change ((x :: l) ++ 10 :: rest) with (x :: (l ++ 10 :: rest)).
    rewrite splitlines_aux_plain by exact Hx. rewrite IH by exact Hl. simpl. now rewrite <- app_assoc.
Qed.

Lemma splitlines_aux_last l : forall cur, no_break l ->
  splitlines_aux cur l = match rev cur ++ l with [] => [] | x => [x] end.
Proof.
  induction l as [|x l IH]; intros cur H.
  - rewrite splitlines_aux_nil, app_nil_r. destruct cur as [|c cur]; [reflexivity|].
    simpl. destruct (rev cur ++ [c]) eqn:E; [destruct (rev cur); discriminate | reflexivity].
  - apply no_break_cons in H as [Hx Hl]. rewrite splitlines_aux_plain by exact Hx.
    rewrite IH by exact Hl. simpl. now rewrite <- app_assoc.
Qed.

(* joining break-free lines with "\n" and splitting again gives the lines back,
   provided the last one is not empty (a final empty line leaves no trace) *)
Theorem splitlines_join ls :
  Forall no_break ls -> last ls [SP] <> [] -> splitlines (join [10] ls) = ls.
Proof.
  unfold splitlines. induction ls as [|l ls IH]; intros H Hlast; [reflexivity|].
  inversion H as [|? ? Hl Hls]; subst. destruct ls as [|l2 ls].
  - simpl join. rewrite splitlines_aux_last by exact Hl. simpl in *. destruct l; [congruence | reflexivity].
  - change (join [10] (l :: l2 :: ls)) with (l ++ 10 :: join [10] (l2 :: ls)).
    rewrite splitlines_aux_line by exact Hl. simpl app. f_equal. apply IH; [exact Hls | exact Hlast].
Qed.

(* ... and when the last line is empty exactly that line is lost *)
Theorem splitlines_join_blank_last ls :
  Forall no_break ls -> ls <> [] -> last ls [SP] = [] -> removelast ls <> [] -> last (removelast ls) [SP] <> [] ->
  splitlines (join [10] ls) = removelast ls.
Proof.
  unfold splitlines. induction ls as [|l ls IH]; intros H NE Hlast NE2 Hl2; [congruence|].
  inversion H as [|? ? Hl Hls]; subst. destruct ls as [|l2 ls]; [simpl in NE2; congruence|].
  change (join [10] (l :: l2 :: ls)) with (l ++ 10 :: join [10] (l2 :: ls)).
  rewrite splitlines_aux_line by exact Hl. simpl app.
  change (removelast (l :: l2 :: ls)) with (l :: removelast (l2 :: ls)). f_equal.
  destruct ls as [|l3 ls].
  - (* ls = [l; l2], l2 empty *) simpl in Hlast. subst l2. reflexivity.
  - apply IH; try assumption; try discriminate.
Qed.


(* ================= the repaired line splitter of getblock ================= *)
Lemma last_app_ne (a b : list N) d : b <> [] -> last (a ++ b) d = last b d.
Proof.
  intros H. induction a as [|y a IH]; [reflexivity|]. simpl app.
  destruct (a ++ b) eqn:E; [apply app_eq_nil in E as [_ E]; congruence|].
  rewrite <- IH. reflexivity.
Qed.

Lemma last_char_app_nonempty a b : b <> [] -> last_char (a ++ b) = last_char b.
Proof.
  intros H. unfold last_char. destruct b as [|x b]; [congruence|].
  destruct (a ++ x :: b) eqn:E; [apply app_eq_nil in E as [_ E]; discriminate|].
  rewrite <- E. f_equal. now apply last_app_ne.
Qed.

Lemma no_break_endswith l : no_break l -> endswith_lf l = false.
Proof.
  intros H. unfold endswith_lf. destruct (last_char l) as [c|] eqn:E; [|reflexivity].
  apply last_char_some in E. rewrite E in H. apply no_break_app in H as [_ H].
  apply no_break_cons in H as [H _]. apply N.eqb_neq. intros ->. discriminate.
Qed.

Lemma join_cons2 l l2 r : join [10] (l :: l2 :: r) = l ++ 10 :: join [10] (l2 :: r).
Proof. reflexivity. Qed.

Lemma join_nil_iff l r : join [10] (l :: r) = [] -> l = [] /\ r = [].
Proof.
  destruct r as [|l2 r]; simpl.
  - auto.
  - intros H. apply app_eq_nil in H as [_ H]. discriminate.
Qed.

(* joining break-free lines and splitting with the repaired splitter gives the
   lines back; the one exception is a text consisting of a single blank line *)
Theorem body_lines_join ls :
  Forall no_break ls -> ls <> [[]] ->
  splitlines (join [10] ls) ++ (if endswith_lf (join [10] ls) then [[]] else []) = ls.
Proof.
  unfold splitlines. destruct ls as [|l ls]; [reflexivity|]. revert l.
  induction ls as [|l2 r IH]; intros l H NE.
  - inversion H as [|? ? Hl _]; subst. simpl join. rewrite splitlines_aux_last by exact Hl.
    rewrite (no_break_endswith l Hl). destruct l; [exfalso; apply NE; reflexivity | reflexivity].
  - inversion H as [|? ? Hl Hr]; subst. rewrite join_cons2.
    rewrite splitlines_aux_line by exact Hl. change (rev [] ++ l) with l.
    destruct (join [10] (l2 :: r)) as [|j js] eqn:J.
    + apply join_nil_iff in J as [-> ->]. rewrite splitlines_aux_nil.
      assert (E : endswith_lf (l ++ [10]) = true).
      { unfold endswith_lf. rewrite last_char_app. reflexivity. }
      rewrite E. reflexivity.
    + assert (E : endswith_lf (l ++ 10 :: j :: js) = endswith_lf (j :: js)).
      { unfold endswith_lf. change (l ++ 10 :: j :: js) with (l ++ [10] ++ (j :: js)).
        rewrite app_assoc, last_char_app_nonempty by discriminate. reflexivity. }
      rewrite E, <- J. rewrite <- app_comm_cons. f_equal. apply IH; [exact Hr|].
      intros Q. inversion Q; subst. discriminate.
Qed.

(* ================= sidecar files ================= *)
Lemma lines_keepends_aux_concat cur s : concat (lines_keepends_aux cur s) = rev cur ++ s.
Proof.
  revert cur; induction s as [|x s IH]; intros cur; cbn [lines_keepends_aux].
  - destruct cur; [reflexivity|]. simpl. now rewrite !app_nil_r.
  - destruct (x =? 10).
    + cbn [concat]. rewrite IH. simpl. now rewrite <- app_assoc.
    + rewrite IH. simpl. now rewrite <- app_assoc.
Qed.

Fixpoint total_length (ls : list str) : nat :=
  match ls with [] => O | l :: r => (List.length l + total_length r)%nat end.

Lemma total_length_concat ls : total_length ls = List.length (concat ls).
Proof. induction ls as [|l ls IH]; [reflexivity|]. simpl. now rewrite app_length, IH. Qed.

Lemma take_hint_all hint : forall ls total,
  total + N.of_nat (total_length ls) <= hint -> take_hint hint total ls = ls.
Proof.
  induction ls as [|l ls IH]; intros total H; [reflexivity|]. cbn [take_hint].
  cbn [total_length] in H.
  assert (E : hint <? total + N.of_nat (List.length l) = false) by (apply N.ltb_ge; lia).
  rewrite E. f_equal. apply IH. lia.
Qed.

Lemma translate_newlines_length s : (List.length (translate_newlines s) <= List.length s)%nat.
Proof.
  assert (G : forall n s, (List.length s <= n)%nat -> (List.length (translate_newlines s) <= List.length s)%nat).
  { induction n as [|n IH]; intros t Ht; [destruct t; [simpl; lia | simpl in Ht; lia]|].
    destruct t as [|x t]; [simpl; lia|]. simpl in Ht. cbn [translate_newlines].
    destruct (x =? 13).
    - destruct t as [|y t]; [simpl; lia|]. destruct (y =? 10).
      + simpl. specialize (IH t). simpl in Ht. lia.
      + simpl. specialize (IH (y :: t)). simpl in *. lia.
    - simpl. specialize (IH t). lia. }
  apply (G (List.length s)). lia.
Qed.

(* a sidecar of at most 20480 characters is read completely *)
Theorem ea_lines_all content :
  N.of_nat (List.length content) <= EA_HINT ->
  ea_lines content = map rstrip (lines_keepends (translate_newlines content)).
Proof.
  intros H. unfold ea_lines, readlines_hint. rewrite take_hint_all; [reflexivity|].
  unfold lines_keepends. rewrite total_length_concat, lines_keepends_aux_concat. simpl.
  pose proof (translate_newlines_length content). lia.
Qed.

(* ================= blocks ================= *)
Section Blocks.
  Variable keep : bool.
  Variable admin : str.
  Variable srvname : str.
  Variable srvport : Z.
  Variable moddate : N -> str.

  Notation getblock := (getblock keep admin srvname srvport moddate).
  Notation getallblocks := (getallblocks keep admin srvname srvport moddate).
  Notation render_info := (render_info keep admin srvname srvport moddate).
  Notation ea_block_lines := (ea_block_lines keep).
  Notation ea_block := (ea_block keep).
  Notation info_block := (info_block srvname srvport).
  Notation admin_lines := (admin_lines admin moddate).

  (* ---- the extended-attribute block, as lines ---- *)
  Lemma ea_block_unlines name v : ea_block name v = unlines_crlf (ea_block_lines name v).
  Proof.
    unfold GopherPlus.ea_block, GopherPlus.ea_block_lines, unlines_crlf. cbn [map concat]. rewrite map_map.
    cbn [app]. f_equal. rewrite <- !app_assoc. reflexivity.
  Qed.

  (* C13 reuses this: a body line of an attribute block starts with a space and
     contains no line-break character, so it can never be read as a block header
     and never spans two lines *)
  Theorem gplus_lines_never_headers name v l :
    In l (tl (ea_block_lines name v)) ->
    exists x, l = SP :: x /\ no_break x /\ no_lf l /\ parse_header l = None.
  Proof.
    unfold GopherPlus.ea_block_lines. cbn [tl]. intros H. apply in_map_iff in H as (x & <- & Hx).
    assert (F : no_break x).
    { unfold ea_body_lines in Hx. apply in_app_or in Hx as [Hx|Hx].
      - pose proof (splitlines_no_break v) as F. rewrite Forall_forall in F. exact (F x Hx).
      - destruct (keep && endswith_lf v); [destruct Hx as [<-|[]]; reflexivity | destruct Hx]. }
    exists x. split; [reflexivity|]. split; [exact F|]. split.
    - apply no_lf_cons. split; [discriminate | now apply no_break_no_lf].
    - reflexivity.
  Qed.

  (* ---- +INFO is the plain menu line ---- *)
  Theorem info_is_menu_line e :
    dict_get (lit "INFO") (e_ea e) = None ->
    getblock (lit "+INFO") e = option_map (fun line => lit "+INFO: " ++ line) (gopher0_line srvname srvport e).
  Proof.
    intros H. unfold GopherPlus.getblock. 
    change (upper_ascii (lower_ascii (tl (lit "+INFO")))) with (lit "INFO"). rewrite H. reflexivity.
  Qed.

  (* ---- all blocks of an entry, as lines ---- *)
  Definition ea_key_ok (k : str) : Prop :=
    upper_ascii (lower_ascii k) = k /\ mem_N COLON k = false /\ no_lf k /\
    k <> lit "INFO" /\ k <> lit "ADMIN" /\ k <> lit "VIEWS".

  Fixpoint keys_distinct (ea : list (str * str)) : Prop :=
    match ea with
    | [] => True
    | (k, _) :: r => dict_get k r = None /\ keys_distinct r
    end.

  Record wf_entry (e : entry) : Prop := {
    wf_payload : exists p, gopher0_payload srvname srvport e = Some p /\ no_lf p;
    wf_keys : Forall (fun kv => ea_key_ok (fst kv)) (e_ea e);
    wf_distinct : keys_distinct (e_ea e);
    wf_mime : match e_mimetype e with Some m => no_lf m | None => True end;
    wf_lang : match e_language e with Some m => no_lf m | None => True end;
    wf_admin : no_lf admin;
    wf_date : forall t, no_lf (moddate t)
  }.

  Definition info_line (p : str) : str := lit "+INFO: " ++ p.

  Definition all_lines (p : str) (e : entry) : list str :=
    [info_line p] ++ admin_lines e ++ views_lines e ++
    flat_map (fun kv => ea_block_lines (fst kv) (snd kv)) (e_ea e).

  Lemma dict_get_none_upper ea k :
    Forall (fun kv => ea_key_ok (fst kv)) ea -> (k = lit "INFO" \/ k = lit "ADMIN" \/ k = lit "VIEWS") ->
    dict_get k ea = None.
  Proof.
    intros F Hk. induction ea as [|[k' v] ea IH]; [reflexivity|].
    inversion F as [|? ? Hk' F']; subst. simpl.
    destruct Hk' as (_ & _ & _ & N1 & N2 & N3). cbn [fst] in N1, N2, N3.
    assert (E : str_eqb k k' = false).
    { apply str_eqb_neq. intros ->. destruct Hk as [->|[->| ->]]; congruence. }
    rewrite E. now apply IH.
  Qed.

  Lemma concat_opt_app a b x y :
    concat_opt a = Some x -> concat_opt b = Some y -> concat_opt (a ++ b) = Some (x ++ y).
  Proof.
    revert x; induction a as [|o a IH]; intros x Ha Hb; simpl in *.
    - inversion Ha; subst. exact Hb.
    - destruct o as [s|]; [|discriminate]. destruct (concat_opt a) as [x'|] eqn:E; [|discriminate].
      inversion Ha; subst. rewrite (IH x' eq_refl Hb). simpl. now rewrite app_assoc.
  Qed.

  Lemma unlines_crlf_app a b : unlines_crlf (a ++ b) = unlines_crlf a ++ unlines_crlf b.
  Proof. unfold unlines_crlf. now rewrite map_app, concat_app. Qed.

  (* the extended-attribute part: each key finds its own value *)
  Lemma ea_blocks_render e0 : forall ea pre,
    e_ea e0 = pre ++ ea -> keys_distinct (pre ++ ea) ->
    Forall (fun kv => ea_key_ok (fst kv)) (pre ++ ea) ->
    (forall k v, In (k, v) pre -> forall k' v', In (k', v') ea -> k <> k') ->
    concat_opt (map (fun b => getblock b e0) (map (fun kv => PLUSC :: fst kv) ea)) =
    Some (unlines_crlf (flat_map (fun kv => ea_block_lines (fst kv) (snd kv)) ea)).
  Proof.
    induction ea as [|[k v] ea IH]; intros pre E D F Sep; [reflexivity|].
    cbn [map flat_map fst snd]. rewrite unlines_crlf_app.
    assert (Hk : ea_key_ok k).
    { rewrite Forall_forall in F. apply (F (k, v)). apply in_or_app. right. now left. }
    assert (G : getblock (PLUSC :: k) e0 = Some (unlines_crlf (ea_block_lines k v))).
    { unfold GopherPlus.getblock. cbn [tl]. destruct Hk as (U & _). rewrite U, E.
      assert (L : forall pre', (forall k0 v0, In (k0, v0) pre' -> k0 <> k) -> dict_get k (pre' ++ (k, v) :: ea) = Some v).
      { induction pre' as [|[k0 v0] pre' IHp]; intros S; simpl.
        - now rewrite str_eqb_refl.
        - assert (Ne : str_eqb k k0 = false).
          { apply str_eqb_neq. intros ->. apply (S k0 v0); [now left | reflexivity]. }
          rewrite Ne. apply IHp. intros k1 v1 I. apply (S k1 v1). now right. }
      rewrite L; [now rewrite ea_block_unlines|].
      intros k0 v0 I. apply (Sep k0 v0 I k v). now left. }
    cbn [concat_opt]. rewrite G.
    specialize (IH (pre ++ [(k, v)])). rewrite <- !app_assoc in IH. cbn [app] in IH.
    rewrite IH; [reflexivity | exact E | exact D | exact F |].
    intros k0 v0 I k' v' I'. apply in_app_or in I as [I|[I|[]]].
    - apply (Sep k0 v0 I k' v'). now right.
    - inversion I; subst k0 v0. clear I.
      (* k differs from every later key: keys_distinct *)
      assert (D' : keys_distinct ((k, v) :: ea)).
      { clear -D. induction pre as [|[a b] pre IHp]; [exact D|]. simpl in D. apply IHp, D. }
      simpl in D'. destruct D' as [Dk _]. intros ->.
      clear -Dk I'. induction ea as [|[a b] ea IHe]; [destruct I'|]. simpl in Dk.
      destruct (str_eqb k' a) eqn:Q; [discriminate|]. destruct I' as [I'|I'].
      + inversion I'; subst. now rewrite str_eqb_refl in Q.
      + now apply IHe.
  Qed.

  Theorem getallblocks_lines e p :
    wf_entry e -> gopher0_payload srvname srvport e = Some p ->
    getallblocks e = Some (unlines_crlf (all_lines p e)).
  Proof.
    intros W P. unfold GopherPlus.getallblocks, supported_block_names, all_lines.
    pose proof (wf_keys e W) as K.
    rewrite !map_app. rewrite !unlines_crlf_app.
    assert (I : getblock (lit "+INFO") e = Some (unlines_crlf [info_line p])).
    { rewrite info_is_menu_line by (apply dict_get_none_upper; auto).
      unfold gopher0_line. rewrite P. cbn [option_map]. unfold unlines_crlf, info_line. cbn [map concat].
      now rewrite app_nil_r, <- !app_assoc. }
    assert (A : getblock (lit "+ADMIN") e = Some (unlines_crlf (admin_lines e))).
    { unfold GopherPlus.getblock. change (upper_ascii (lower_ascii (tl (lit "+ADMIN")))) with (lit "ADMIN").
      rewrite dict_get_none_upper by auto. reflexivity. }
    assert (V : getblock (lit "+VIEWS") e = Some (unlines_crlf (views_lines e))).
    { unfold GopherPlus.getblock. change (upper_ascii (lower_ascii (tl (lit "+VIEWS")))) with (lit "VIEWS").
      rewrite dict_get_none_upper by auto. reflexivity. }
    change (map (fun b => getblock b e) [lit "+INFO"; lit "+ADMIN"; lit "+VIEWS"])
      with [getblock (lit "+INFO") e; getblock (lit "+ADMIN") e; getblock (lit "+VIEWS") e].
    rewrite I, A, V.
    set (X := unlines_crlf (flat_map (fun kv => ea_block_lines (fst kv) (snd kv)) (e_ea e))).
    replace (unlines_crlf [info_line p] ++ unlines_crlf (admin_lines e) ++ unlines_crlf (views_lines e) ++ X)
      with ((unlines_crlf [info_line p] ++ unlines_crlf (admin_lines e) ++ unlines_crlf (views_lines e)) ++ X)
      by now rewrite <- !app_assoc.
    apply concat_opt_app.
    - cbn [concat_opt option_map]. now rewrite app_nil_r.
    - apply (ea_blocks_render e (e_ea e) []); try reflexivity.
      + exact (wf_distinct e W).
      + exact K.
      + intros k v [].
  Qed.

  (* ---- reading the lines back ---- *)
  Lemma split_once_nosep c k rest : mem_N c k = false -> split_once c (k ++ c :: rest) = (k, Some rest).
  Proof.
    induction k as [|x k IH]; intros H; simpl.
    - now rewrite N.eqb_refl.
    - simpl in H. apply orb_false_iff in H as [Hx Hk]. rewrite N.eqb_sym, Hx, (IH Hk). reflexivity.
  Qed.

  Lemma parse_lines_body body : forall rest b0 bs,
    parse_lines rest = Some (b0, bs) ->
    parse_lines (map (fun x => SP :: x) body ++ rest) = Some (body ++ b0, bs).
  Proof.
    induction body as [|x body IH]; intros rest b0 bs H; [exact H|].
    cbn [map app parse_lines]. rewrite (IH rest b0 bs H). reflexivity.
  Qed.

  Lemma parse_lines_block h n i body rest bs :
    parse_header h = Some (n, i) ->
    parse_lines rest = Some ([], bs) ->
    parse_lines (h :: map (fun x => SP :: x) body ++ rest) = Some ([], mkBlock n i body :: bs).
  Proof.
    intros Hh Hr. cbn [parse_lines]. rewrite (parse_lines_body body rest [] bs Hr), app_nil_r.
    destruct h as [|c x]; [discriminate|].
    assert (C : c =? SP = false).
    { unfold parse_header in Hh. destruct (c =? PLUSC) eqn:E; [|discriminate].
      apply N.eqb_eq in E. subst c. reflexivity. }
    rewrite C, Hh. reflexivity.
  Qed.

  Definition expected_blocks (p : str) (e : entry) : list block :=
    [mkBlock (lit "INFO") p [];
     mkBlock (lit "ADMIN") [] (map (fun l => tl l) (tl (admin_lines e)))] ++
    (if truthy_str (e_mimetype e) then [mkBlock (lit "VIEWS") [] [tl (views_line e)]] else []) ++
    map (fun kv => mkBlock (fst kv) [] (ea_body_lines keep (snd kv))) (e_ea e).

  Lemma parse_ea_lines ea :
    Forall (fun kv => ea_key_ok (fst kv)) ea ->
    parse_lines (flat_map (fun kv => ea_block_lines (fst kv) (snd kv)) ea) =
    Some ([], map (fun kv => mkBlock (fst kv) [] (ea_body_lines keep (snd kv))) ea).
  Proof.
    induction ea as [|[k v] ea IH]; intros F; [reflexivity|].
    inversion F as [|? ? Hk F']; subst. cbn [flat_map map fst snd]. unfold GopherPlus.ea_block_lines at 1.
    cbn [app]. apply parse_lines_block; [|now apply IH].
    unfold parse_header. change (PLUSC =? PLUSC) with true. cbn iota.
    destruct Hk as (_ & C & _). rewrite split_once_nosep by exact C. reflexivity.
  Qed.

  Theorem parse_all_lines p e :
    Forall (fun kv => ea_key_ok (fst kv)) (e_ea e) ->
    parse_lines (all_lines p e) = Some ([], expected_blocks p e).
  Proof.
    intros F. unfold all_lines, expected_blocks.
    change ([info_line p] ++ admin_lines e ++ views_lines e ++ flat_map (fun kv => ea_block_lines (fst kv) (snd kv)) (e_ea e))
      with (info_line p :: map (fun x => SP :: x) [] ++
            (admin_lines e ++ views_lines e ++ flat_map (fun kv => ea_block_lines (fst kv) (snd kv)) (e_ea e))).
    apply parse_lines_block; [reflexivity|].
    (* ADMIN *)
    assert (AL : admin_lines e = lit "+ADMIN:" :: map (fun x => SP :: x) (map (fun l => tl l) (tl (admin_lines e)))).
    { unfold GopherPlus.admin_lines. destruct (truthy_N (e_mtime e)); reflexivity. }
    rewrite AL at 1. cbn [app].
    apply parse_lines_block; [reflexivity|].
    (* VIEWS *)
    unfold views_lines. destruct (truthy_str (e_mimetype e)).
    - change ([lit "+VIEWS:"; views_line e] ++ flat_map (fun kv => ea_block_lines (fst kv) (snd kv)) (e_ea e))
        with (lit "+VIEWS:" :: map (fun x => SP :: x) [tl (views_line e)] ++
              flat_map (fun kv => ea_block_lines (fst kv) (snd kv)) (e_ea e)).
      cbn [app]. apply parse_lines_block; [reflexivity | now apply parse_ea_lines].
    - cbn [app]. now apply parse_ea_lines.
  Qed.

  Lemma no_lf_lit_app a b : no_lf a -> no_lf b -> no_lf (a ++ b).
  Proof. intros. apply no_lf_app. auto. Qed.

  Lemma all_lines_no_lf p e : wf_entry e -> no_lf p -> Forall no_lf (all_lines p e).
  Proof.
    intros W Hp. unfold all_lines.
    apply Forall_app; split; [|apply Forall_app; split; [|apply Forall_app; split]].
    - constructor; [|constructor]. apply no_lf_lit_app; [reflexivity | exact Hp].
    - unfold GopherPlus.admin_lines. apply Forall_app. split.
      + constructor; [reflexivity|]. constructor; [|constructor].
        apply no_lf_lit_app; [reflexivity | exact (wf_admin e W)].
      + destruct (truthy_N (e_mtime e)); [|constructor]. constructor; [|constructor].
        apply no_lf_lit_app; [reflexivity | apply (wf_date e W)].
    - unfold views_lines. destruct (truthy_str (e_mimetype e)); [|constructor].
      constructor; [reflexivity|]. constructor; [|constructor].
      unfold views_line. apply no_lf_cons. split; [discriminate|].
      pose proof (wf_mime e W) as M. pose proof (wf_lang e W) as L.
      apply no_lf_lit_app; [destruct (e_mimetype e); [exact M | reflexivity]|].
      apply no_lf_lit_app.
      { destruct (truthy_str (e_language e)); [|reflexivity]. apply no_lf_cons. split; [discriminate|].
        destruct (e_language e); [exact L | reflexivity]. }
      apply no_lf_lit_app; [reflexivity|].
      destruct (e_size e) as [n|]; [|reflexivity].
      apply no_lf_lit_app; [reflexivity|]. apply no_lf_lit_app; [|reflexivity].
      unfold no_lf. now apply print_dec_no.
    - pose proof (wf_keys e W) as K. induction (e_ea e) as [|[k v] ea IH]; [constructor|].
      inversion K as [|? ? Hk K']; subst. cbn [flat_map fst snd]. apply Forall_app. split; [|now apply IH].
      unfold GopherPlus.ea_block_lines. constructor.
      + apply no_lf_cons. split; [discriminate|]. destruct Hk as (_ & _ & NL & _).
        apply no_lf_lit_app; [exact NL | reflexivity].
      + apply Forall_forall. intros l Hl.
        destruct (gplus_lines_never_headers k v l Hl) as (x & _ & _ & NLl & _). exact NLl.
  Qed.

  (* C15_blocks, for the entry as the protocol renders it (menu type adjusted) *)
  Theorem blocks_of_info e p :
    wf_entry e -> gopher0_payload srvname srvport e = Some p -> no_lf p ->
    exists text, getallblocks e = Some text /\ parse_blocks text = Some (expected_blocks p e).
  Proof.
    intros W P Hp. exists (unlines_crlf (all_lines p e)). split; [now apply getallblocks_lines|].
    unfold parse_blocks. rewrite split_crlf_unlines by (now apply all_lines_no_lf).
    rewrite parse_all_lines by exact (wf_keys e W). reflexivity.
  Qed.

  (* menu_adjust touches the MIME type only *)
  Lemma menu_adjust_payload e : gopher0_payload srvname srvport (menu_adjust e) = gopher0_payload srvname srvport e.
  Proof.
    unfold menu_adjust. destruct (e_mimetype e) as [m|]; [|reflexivity].
    destruct (str_eqb m GMENU && e_gopherpsupport e); reflexivity.
  Qed.
  Lemma menu_adjust_ea e : e_ea (menu_adjust e) = e_ea e.
  Proof.
    unfold menu_adjust. destruct (e_mimetype e) as [m|]; [|reflexivity].
    destruct (str_eqb m GMENU && e_gopherpsupport e); reflexivity.
  Qed.

  Lemma wf_menu_adjust e : wf_entry e -> wf_entry (menu_adjust e).
  Proof.
    intros W. destruct W as [P K D M L A T].
    constructor; try assumption; try (rewrite menu_adjust_ea; assumption).
    - rewrite menu_adjust_payload. exact P.
    - unfold menu_adjust. destruct (e_mimetype e) as [m|] eqn:E; [|now rewrite E].
      destruct (str_eqb m GMENU && e_gopherpsupport e); [reflexivity | now rewrite E].
    - unfold menu_adjust. destruct (e_mimetype e) as [m|]; [|exact L].
      destruct (str_eqb m GMENU && e_gopherpsupport e); exact L.
  Qed.

  Theorem info_response_blocks e p :
    wf_entry e -> gopher0_payload srvname srvport e = Some p -> no_lf p ->
    exists text, gplus_info keep admin srvname srvport moddate e = Some (lit "+-2" ++ crlf ++ text) /\
                 parse_blocks text = Some (expected_blocks p (menu_adjust e)).
  Proof.
    intros W P Hp.
    destruct (blocks_of_info (menu_adjust e) p (wf_menu_adjust e W)) as (text & G & Q);
      [now rewrite menu_adjust_payload | exact Hp|].
    exists text. split; [|exact Q]. unfold gplus_info, GopherPlus.render_info, renderobjinfo.
    rewrite G. reflexivity.
  Qed.
End Blocks.

(* ---- sidecar lines ---- *)
(* repaired getblock: every printable sidecar, except one consisting of a single blank line *)
Theorem sidecar_block_lines name content :
  N.of_nat (List.length content) <= EA_HINT ->
  let ls := map rstrip (lines_keepends (translate_newlines content)) in
  Forall no_break ls -> ls <> [[]] ->
  ea_block_lines true name (ea_value content) = (PLUSC :: name ++ [COLON]) :: map (fun x => SP :: x) ls.
Proof.
  intros H ls F L. unfold ea_block_lines, ea_body_lines, ea_value. rewrite (ea_lines_all content H).
  fold ls. cbn [andb]. now rewrite body_lines_join.
Qed.

(* pinned getblock: only when the last line is not blank *)
Theorem sidecar_block_lines_pinned name content :
  N.of_nat (List.length content) <= EA_HINT ->
  let ls := map rstrip (lines_keepends (translate_newlines content)) in
  Forall no_break ls -> last ls [SP] <> [] ->
  ea_block_lines false name (ea_value content) = (PLUSC :: name ++ [COLON]) :: map (fun x => SP :: x) ls.
Proof.
  intros H ls F L. unfold ea_block_lines, ea_body_lines, ea_value. rewrite (ea_lines_all content H).
  fold ls. cbn [andb]. now rewrite app_nil_r, splitlines_join.
Qed.

(* a sidecar whose last line is blank loses exactly that line in the pinned code *)
Theorem sidecar_trailing_blank_refuted :
  exists content,
    let ls := map rstrip (lines_keepends (translate_newlines content)) in
    Forall no_break ls /\ ea_body_lines false (ea_value content) <> ls /\
    ea_body_lines true (ea_value content) = ls.
Proof.
  exists [97; 10; 10]. split; [repeat constructor|]. split; [vm_compute; discriminate | vm_compute; reflexivity].
Qed.

(* what neither variant can show: the text of a one-blank-line file is empty *)
Theorem sidecar_single_blank_line_lost :
  ea_value [10] = [] /\ forall keep, ea_body_lines keep (ea_value [10]) = [].
Proof. split; [reflexivity | intros []; reflexivity]. Qed.

(* the "+" / "$" length line: the exact length, or the unknown-length marker *)
Theorem size_line_cases e :
  match e_size e with
  | Some n => size_line e = PLUSC :: print_dec n ++ crlf /\ parse_dec (print_dec n) = Some n
  | None => size_line e = lit "+-2" ++ crlf
  end.
Proof. unfold size_line. destruct (e_size e) as [n|]; [split; [reflexivity | apply parse_print_dec] | reflexivity]. Qed.

(* a concrete well-formed entry, for the non-vacuity example *)
Definition example_entry : entry :=
  set_ea [(lit "ABSTRACT", lit "first line" ++ [10] ++ lit "second"); (lit "KEYWORDS", lit "k1 k2")]
    (set_flags true true (set_times (Some 5) (Some 1700000000) (set_size (Some 5000)
      (set_mimetype (Some (lit "text/plain")) (set_type (Some (lit "0")) (set_name (Some (lit "a.txt"))
        (new_entry (lit "/d/a.txt")))))))).

Lemma example_entry_wf :
  wf_entry (lit "admin@example") (lit "gopher.example") 70%Z (fun _ => lit "<T>") example_entry.
Proof.
  constructor; try reflexivity.
  - eexists. split; [vm_compute; reflexivity | vm_compute; reflexivity].
  - repeat constructor; simpl; try discriminate; try reflexivity.
  - simpl. auto.
Qed.
