(* Facts about Model/TALESEval.v: the python gate and the TALES expression laws. *)
From Coq Require Import Lia String PeanoNat.
From PG Require Import Lib.Str Lib.StrFacts Model.TALESEval.
Local Open Scope N_scope.

Section Facts.
  Variable val : Type.
  Variable v_false v_true : val.
  Variable v_str : str -> val.
  Variable is_none is_default truthy : val -> bool.
  Variable text_of : val -> str.
  Variable traverse : str -> bool -> option val.
  Variable py : str -> val.
  Variable strip1 : bool.

  Notation resultV := (result val).
  Notation evaluateV := (evaluate val v_false v_true v_str is_none is_default truthy text_of traverse py strip1).
  Notation first_foundV := (first_found val).
  Notation first_trueV := (first_true val v_false v_true truthy).
  Notation string_loopV := (string_loop val is_none text_of traverse).

  (* ---- counting python evaluations ---- *)
  Lemma first_found_count (ev : str -> resultV) alts : (forall a, snd (ev a) = 0%nat) ->
    forall n, snd (first_foundV ev alts n) = n.
  Proof.
    intros H. induction alts as [|a r IH]; intros n; simpl; [reflexivity|].
    specialize (H (strip a)). destruct (ev (strip a)) as [[v|] k]; simpl in *; subst k.
    - now rewrite Nat.add_0_r.
    - rewrite IH. now rewrite Nat.add_0_r.
  Qed.

  Lemma first_true_count (ev : str -> resultV) alts : (forall a, snd (ev a) = 0%nat) ->
    forall n, snd (first_trueV ev alts n) = n.
  Proof.
    intros H. induction alts as [|a r IH]; intros n; simpl; [reflexivity|].
    specialize (H (strip a)). destruct (ev (strip a)) as [[v|] k]; simpl in *; subst k.
    - destruct (truthy v); simpl; [now rewrite Nat.add_0_r | rewrite IH; now rewrite Nat.add_0_r].
    - rewrite IH. now rewrite Nat.add_0_r.
  Qed.

  Lemma string_loop_count (ev : str -> resultV) : (forall a, snd (ev a) = 0%nat) ->
    forall fuel s acc n, snd (string_loopV fuel ev s acc n) = n.
  Proof.
    intros H. induction fuel as [|f IH]; intros s acc n; simpl; [reflexivity|].
    destruct s as [|c r]; [reflexivity|].
    destruct (negb (c =? DOLLAR)); [apply IH|].
    destruct r as [|d r']; [reflexivity|].
    destruct (d =? DOLLAR); [apply IH|].
    destruct (d =? LBRACE).
    - destruct (take_until RBRACE r') as [path [[|x after]|]]; try apply IH.
      specialize (H path). destruct (ev path) as [v k]. simpl in H. subst k. rewrite IH. now rewrite Nat.add_0_r.
    - destruct (take_until SPACE (d :: r')) as [path rest]. apply IH.
  Qed.

  (* with allowPythonPath off no python: expression is ever evaluated, however deeply it is nested
     in alternations, not:, exists:, nocall: or string interpolations *)
  Theorem python_gate : forall fuel e, snd (evaluateV fuel false e) = 0%nat.
  Proof.
    induction fuel as [|f IH]; intros e; [reflexivity|].
    simpl. set (x := strip e).
    destruct (has_prefix "path:" x) as [a|].
    { unfold eval_path. destruct (split_on BAR a) as [|s [|s2 r]]; try reflexivity; apply first_found_count; exact IH. }
    destruct (has_prefix "exists:" x) as [a|].
    { unfold eval_exists. destruct (split_on BAR a) as [|s r]; [reflexivity|].
      destruct (traverse (first_alt strip1 s) false); [reflexivity|]. apply first_true_count; exact IH. }
    destruct (has_prefix "nocall:" x) as [a|].
    { unfold eval_nocall. destruct (split_on BAR a) as [|s r]; [reflexivity|].
      destruct (traverse (first_alt strip1 s) false); [reflexivity|]. apply first_found_count; exact IH. }
    destruct (has_prefix "not:" x) as [a|].
    { unfold eval_not. specialize (IH a). destruct (evaluateV f false a) as [[v|] k]; simpl in IH; subst k.
      - destruct (is_none v); [reflexivity|]. destruct (is_default v); [reflexivity|]. destruct (truthy v); reflexivity.
      - reflexivity. }
    destruct (has_prefix "string:" x) as [a|].
    { unfold eval_string.
      pose proof (string_loop_count (evaluateV f false) IH (S (List.length a)) a [] 0%nat) as C.
      destruct (string_loopV (S (List.length a)) (evaluateV f false) a [] 0%nat) as [s n]. simpl in C. now subst n. }
    destruct (has_prefix "python:" x) as [a|]; [reflexivity|].
    unfold eval_path. destruct (split_on BAR x) as [|s [|s2 r]]; try reflexivity; apply first_found_count; exact IH.
  Qed.

  (* ... and its value is false *)
  Lemma python_disabled_value e : eval_python val v_false py false e = (Some v_false, 0%nat).
  Proof. reflexivity. Qed.

  (* ---- alternation: the first alternative that exists ---- *)
  Lemma first_found_picks (ev : str -> resultV) pre a post v :
    (forall x, In x pre -> fst (ev (strip x)) = None) -> fst (ev (strip a)) = Some v ->
    forall n, fst (first_foundV ev (pre ++ a :: post) n) = Some v.
  Proof.
    intros Hpre Ha. induction pre as [|p pre IH]; intros n; simpl.
    - destruct (ev (strip a)) as [[w|] k]; simpl in *; congruence.
    - assert (Hp : fst (ev (strip p)) = None) by (apply Hpre; now left).
      destruct (ev (strip p)) as [[w|] k]; simpl in Hp; [discriminate|].
      apply IH. intros x Hx. apply Hpre. now right.
  Qed.

  Lemma first_found_none (ev : str -> resultV) alts :
    (forall x, In x alts -> fst (ev (strip x)) = None) -> forall n, fst (first_foundV ev alts n) = None.
  Proof.
    induction alts as [|a r IH]; intros H n; simpl; [reflexivity|].
    assert (Ha : fst (ev (strip a)) = None) by (apply H; now left).
    destruct (ev (strip a)) as [[w|] k]; simpl in Ha; [discriminate|]. apply IH. intros x Hx. apply H. now right.
  Qed.

  (* ---- not: ---- *)
  Lemma not_of_missing (ev : str -> resultV) e : fst (ev e) = None ->
    fst (eval_not val v_false v_true is_none is_default truthy ev e) = Some v_true.
  Proof. unfold eval_not. destruct (ev e) as [[v|] k]; simpl; [discriminate | reflexivity]. Qed.

  Lemma not_of_value (ev : str -> resultV) e v : fst (ev e) = Some v -> is_none v = false -> is_default v = false ->
    fst (eval_not val v_false v_true is_none is_default truthy ev e) = Some (if truthy v then v_false else v_true).
  Proof.
    unfold eval_not. destruct (ev e) as [[w|] k]; simpl; [|discriminate]. intros H N Df. inversion H; subst.
    rewrite N, Df. destruct (truthy v); reflexivity.
  Qed.

  (* ---- exists: / nocall: look at the path without calling its value ---- *)
  Lemma exists_of_path (ev : str -> resultV) p : mem_N BAR p = false ->
    fst (eval_exists val v_false v_true truthy traverse strip1 ev p) =
    Some (match traverse (first_alt strip1 p) false with Some _ => v_true | None => v_false end).
  Proof.
    intros H. unfold eval_exists. rewrite (split_on_no_sep BAR p H). destruct (traverse (first_alt strip1 p) false); reflexivity.
  Qed.

  Lemma nocall_of_path (ev : str -> resultV) p : mem_N BAR p = false ->
    fst (eval_nocall val traverse strip1 ev p) = traverse (first_alt strip1 p) false.
  Proof.
    intros H. unfold eval_nocall. rewrite (split_on_no_sep BAR p H). destruct (traverse (first_alt strip1 p) false); reflexivity.
  Qed.

  (* `exists:a | b`, `nocall:a | b`: when the first alternative exists it decides, whatever blanks surround it *)
  Lemma exists_first_alt (ev : str -> resultV) expr a r v : split_on BAR expr = a :: r ->
    traverse (first_alt strip1 a) false = Some v ->
    fst (eval_exists val v_false v_true truthy traverse strip1 ev expr) = Some v_true.
  Proof. intros H T. unfold eval_exists. rewrite H, T. reflexivity. Qed.

  Lemma nocall_first_alt (ev : str -> resultV) expr a r v : split_on BAR expr = a :: r ->
    traverse (first_alt strip1 a) false = Some v ->
    fst (eval_nocall val traverse strip1 ev expr) = Some v.
  Proof. intros H T. unfold eval_nocall. rewrite H, T. reflexivity. Qed.

  (* ... otherwise the remaining alternatives are tried as expressions of their own *)
  Lemma nocall_rest (ev : str -> resultV) expr a r : split_on BAR expr = a :: r ->
    traverse (first_alt strip1 a) false = None ->
    fst (eval_nocall val traverse strip1 ev expr) = fst (first_foundV ev r 0%nat).
  Proof. intros H T. unfold eval_nocall. rewrite H, T. reflexivity. Qed.

  (* ---- statements as they appear in Props ---- *)
  Lemma not_law (ev : str -> resultV) e :
    (fst (ev e) = None -> fst (eval_not val v_false v_true is_none is_default truthy ev e) = Some v_true) /\
    (forall v, fst (ev e) = Some v -> is_none v = false -> is_default v = false ->
       fst (eval_not val v_false v_true is_none is_default truthy ev e) = Some (if truthy v then v_false else v_true)).
  Proof. split; [apply not_of_missing | intros v; apply not_of_value]. Qed.

  Lemma exists_nocall_law (ev : str -> resultV) p : mem_N BAR p = false ->
    fst (eval_exists val v_false v_true truthy traverse strip1 ev p) =
      Some (match traverse (first_alt strip1 p) false with Some _ => v_true | None => v_false end) /\
    fst (eval_nocall val traverse strip1 ev p) = traverse (first_alt strip1 p) false.
  Proof. intros H. split; [now apply exists_of_path | now apply nocall_of_path]. Qed.

  Lemma exists_nocall_alternation (ev : str -> resultV) expr a r :
    split_on BAR expr = a :: r ->
    (forall v, traverse (first_alt strip1 a) false = Some v ->
       fst (eval_exists val v_false v_true truthy traverse strip1 ev expr) = Some v_true /\
       fst (eval_nocall val traverse strip1 ev expr) = Some v) /\
    (traverse (first_alt strip1 a) false = None ->
       fst (eval_nocall val traverse strip1 ev expr) = fst (first_foundV ev r 0%nat)).
  Proof.
    intros H. split.
    - intros v T. split; [eapply exists_first_alt | eapply nocall_first_alt]; eassumption.
    - intros T. eapply nocall_rest; eassumption.
  Qed.

  Lemma python_gate_full fuel e :
    snd (evaluateV fuel false e) = 0%nat /\ eval_python val v_false py false e = (Some v_false, 0%nat).
  Proof. split; [apply python_gate | reflexivity]. Qed.
End Facts.

(* the repaired first alternative is the stripped one *)
Lemma first_alt_repaired a : first_alt true a = strip a.
Proof. reflexivity. Qed.

Lemma exists_nocall_alternation_repaired :
  forall (val : Type) (v_false v_true : val) (truthy : val -> bool) (traverse : str -> bool -> option val)
         (ev : str -> result val) expr a r, split_on BAR expr = a :: r ->
    (forall v, traverse (strip a) false = Some v ->
       fst (eval_exists val v_false v_true truthy traverse true ev expr) = Some v_true /\
       fst (eval_nocall val traverse true ev expr) = Some v) /\
    (traverse (strip a) false = None ->
       fst (eval_nocall val traverse true ev expr) = fst (first_found val ev r 0%nat)).
Proof. intros. now apply (exists_nocall_alternation val v_false v_true truthy traverse true). Qed.

(* the pinned code (first alternative handed over with its trailing blank): `nocall:a | b` and `exists:a | b`
   do not find a path that exists *)
Lemma first_alt_pinned_refuted :
  exists (traverse : str -> bool -> option bool) (ev : str -> result bool) (expr a : str) (r : list str),
    split_on BAR expr = a :: r /\ traverse (strip a) false = Some true /\
    fst (eval_nocall bool traverse false ev expr) = None /\
    fst (eval_nocall bool traverse true ev expr) = Some true /\
    fst (eval_exists bool false true (fun b => b) traverse false ev expr) = Some false /\
    fst (eval_exists bool false true (fun b => b) traverse true ev expr) = Some true.
Proof.
  exists (fun p _ => if str_eqb p (lit "a"%string) then Some true else None), (fun _ => (None, 0%nat)),
         (lit "a | b"%string), (lit "a "%string), [lit " b"%string].
  vm_compute. repeat split; reflexivity.
Qed.
