(* SelectorFacts.v — lemmas behind C01 (and reused by C05/C12/C16). *)
From Coq Require Import Lia.
From PG Require Import Lib.Str Lib.StrFacts Gen.Secure Model.Selector.
Local Open Scope N_scope.

(* ---------- the filter ---------- *)
Lemma is_secure_with_spec pats s :
  is_secure_with pats s = true <-> forall p, In p pats -> contains p s = false.
Proof.
  unfold is_secure_with. rewrite forallb_forall. split; intros H p Hp.
  - apply H in Hp. now apply negb_true_iff in Hp.
  - apply negb_true_iff. now apply H.
Qed.

Lemma secure_with_substring_closed pats a s b :
  is_secure_with pats (a ++ s ++ b) = true -> is_secure_with pats s = true.
Proof.
  rewrite !is_secure_with_spec. intros H p Hp.
  destruct (contains p s) eqn:E; [|reflexivity].
  apply (contains_substring p a s b) in E. rewrite (H p Hp) in E. discriminate.
Qed.

Lemma secure_with_rejects pats p s :
  In p pats -> contains p s = true -> is_secure_with pats s = false.
Proof.
  intros Hp Hc. destruct (is_secure_with pats s) eqn:E; [|reflexivity].
  rewrite is_secure_with_spec in E. rewrite (E p Hp) in Hc. discriminate.
Qed.

Lemma contains_single_mem c s : contains [c] s = false -> mem_N c s = false.
Proof.
  intros H. destruct (mem_N c s) eqn:M; [|reflexivity].
  apply mem_N_In in M. apply in_split in M as (a & b & ->).
  assert (contains [c] (a ++ [c] ++ b) = true) by (apply contains_spec; now exists a, b).
  simpl in H0. congruence.
Qed.

(* a component equal to pattern p means p occurs in the string *)
Lemma component_contains p s : In p (components s) -> contains p s = true.
Proof.
  intros H. apply split_on_In_substring in H as (a & b & ->).
  apply contains_spec. now exists a, b.
Qed.

Lemma secure_with_no_component pats p s :
  In p pats -> is_secure_with pats s = true -> ~ In p (components s).
Proof.
  intros Hp Hs Hin. apply component_contains in Hin.
  rewrite is_secure_with_spec in Hs. rewrite (Hs p Hp) in Hin. discriminate.
Qed.

(* ---------- resolution ---------- *)
Lemma resolve_step_grows comps :
  ~ In DOTDOT comps -> forall st, exists added, fold_left resolve_step comps st = added ++ st.
Proof.
  induction comps as [|c comps IH]; intros H st; simpl.
  - now exists [].
  - assert (Hc : c <> DOTDOT) by (intro E; apply H; now left).
    assert (Hr : ~ In DOTDOT comps) by (intro E; apply H; now right).
    unfold resolve_step at 2.
    destruct (str_eqb c [] || str_eqb c DOT).
    + apply IH; assumption.
    + apply str_eqb_neq in Hc. rewrite Hc.
      destruct (IH Hr (c :: st)) as [added E]. exists (added ++ [c]).
      now rewrite E, <- app_assoc.
Qed.

Lemma list_prefixb_app a b : list_prefixb a (a ++ b) = true.
Proof. induction a as [|x a IH]; simpl; [reflexivity|]. now rewrite str_eqb_refl, IH. Qed.

Lemma components_cons_slash rest : components (SLASH :: rest) = [] :: components rest.
Proof. unfold components. simpl. reflexivity. Qed.

Lemma components_app_slash a b :
  components (a ++ SLASH :: b) = components a ++ components b.
Proof. apply split_on_app. Qed.

(* The central confinement fact: appending a selector that starts with "/" and
   has no ".." component to ANY root path resolves inside that root. *)
Lemma no_dotdot_inside root s :
  starts_with_slash s = true -> ~ In DOTDOT (components s) -> inside root (root ++ s) = true.
Proof.
  intros Hs Hd. destruct s as [|c rest]; [discriminate|].
  simpl in Hs. apply N.eqb_eq in Hs. subst c.
  rewrite components_cons_slash in Hd.
  assert (Hr : ~ In DOTDOT (components rest)) by (intro E; apply Hd; now right).
  unfold inside, resolve. rewrite components_app_slash, fold_left_app.
  destruct (resolve_step_grows _ Hr (fold_left resolve_step (components root) [])) as [added E].
  rewrite E, rev_app_distr. apply list_prefixb_app.
Qed.

(* stripping one trailing slash does not change where a path resolves *)
Lemma resolve_drop_trailing_slash p :
  last_char p = Some SLASH -> resolve (drop_last p) = resolve p.
Proof.
  intros H. apply last_char_some in H. rewrite H at 2.
  unfold resolve. change [SLASH] with ([] ++ SLASH :: []).
  rewrite app_nil_l. rewrite components_app_slash, fold_left_app. simpl.
  reflexivity.
Qed.

Lemma getfspath_inside root s p :
  starts_with_slash s = true -> ~ In DOTDOT (components s) ->
  getfspath root s = Some p -> inside root p = true.
Proof.
  intros Hs Hd. unfold getfspath.
  destruct (last_char (root ++ s)) as [c|] eqn:L; [|discriminate].
  intros [= <-]. destruct (c =? SLASH) eqn:E.
  - apply N.eqb_eq in E. subst c. unfold inside.
    rewrite (resolve_drop_trailing_slash _ L). now apply no_dotdot_inside.
  - now apply no_dotdot_inside.
Qed.

(* ---------- slashnormalize ---------- *)
Lemma slashnormalize_starts_slash s : starts_with_slash (slashnormalize s) = true.
Proof.
  unfold slashnormalize.
  set (s1 := match last_char s with Some c => if c =? SLASH then drop_last s else s | None => s end).
  destruct s1 as [|c r]; simpl; [reflexivity|].
  destruct (c =? SLASH) eqn:E; simpl; [exact E | reflexivity].
Qed.

Lemma slashnormalize_nonempty s : slashnormalize s <> [].
Proof.
  pose proof (slashnormalize_starts_slash s). destruct (slashnormalize s); [discriminate|discriminate].
Qed.

(* ---------- virtual selectors and the type rewriter ---------- *)
Lemma virtual_real_is_prefix s : exists t, s = fst (virtual_split s) ++ t.
Proof.
  unfold virtual_split.
  destruct (find [QMARK] s) as [i|]; [|destruct (find [PIPE] s) as [i|]]; simpl.
  - exists (skipn i s). symmetry. apply firstn_skipn.
  - exists (skipn i s). symmetry. apply firstn_skipn.
  - exists []. now rewrite app_nil_r.
Qed.

Lemma rewriter_target_is_suffix s : exists a, s = a ++ rewriter_target s.
Proof. exists (firstn 2 s). symmetry. apply firstn_skipn. Qed.

Lemma rewriter_target_starts_slash s :
  rewriter_accepts s = true -> starts_with_slash (rewriter_target s) = true.
Proof.
  destruct s as [|a [|b [|c r]]]; simpl; try discriminate.
  intros H. apply andb_true_iff in H as [_ H]. exact H.
Qed.

Lemma virtual_real_starts_slash s :
  starts_with_slash s = true -> fst (virtual_split s) <> [] ->
  starts_with_slash (fst (virtual_split s)) = true.
Proof.
  intros Hs Hn. destruct (virtual_real_is_prefix s) as [t E].
  destruct (fst (virtual_split s)) as [|c r]; [congruence|].
  rewrite E in Hs. exact Hs.
Qed.
