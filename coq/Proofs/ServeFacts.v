(* ServeFacts.v — facts about the end-to-end composition Model/Serve.v, all of them
   obtained by composing the facts of the composed models (SelectorFacts, C01Facts,
   HandlersFacts, C03Facts, C04Facts); plus a few small helper lemmas about Model/Request.v
   that those files did not need. *)
From Coq Require Import Lia String.
From PG Require Import Lib.Str Lib.StrFacts Lib.Bytes Lib.Utf8 Lib.Utf8Facts Lib.Percent Lib.PercentFacts Lib.PercentStr
  Lib.Urlparse Lib.Crlf Lib.Bsr Gen.Secure Gen.Config Model.ProtoId Model.Selector Model.Detect Model.Request Model.Handlers
  Model.Respond Model.Wellformed Model.Serve
  Proofs.SelectorFacts Proofs.C01Facts Proofs.HandlersFacts Proofs.C04Facts Proofs.C03Facts Proofs.C02Facts.
Local Open Scope N_scope.

(* ====================================================================== *)
(* 1. what `route` hands to the chain                                      *)
(* ====================================================================== *)
Lemma http_of_target_inv t r :
  http_of_target t = r ->
  match r with
  | ToHandler sel _ => sel = slashnormalize (unquote_py (hd [] (split_on QMARK t)))
  | Icon n => icon_of (slashnormalize (unquote_py (hd [] (split_on QMARK t)))) = Some n
  | _ => False
  end.
Proof.
  unfold http_of_target. intros <-.
  destruct (icon_of (slashnormalize (unquote_py (hd [] (split_on QMARK t))))) as [n|] eqn:I; reflexivity.
Qed.

(* the direct replies belong to one protocol family each *)
Lemma route_family p waptop req body :
  match route p waptop req body with
  | Icon _ => is_http_family p = true
  | GeminiBad | GeminiInput | GeminiRedirect _ => p = PGemini
  | SpartanTooLarge => p = PSpartan
  | ToHandler _ _ | Crash => True
  end.
Proof.
  destruct p; cbn [route is_http_family]; try exact I.
  - (* WAP *) unfold wap_route, wap_route_with. destruct (http_parts req) as [|a [|t l]]; try exact I.
    pose proof (http_of_target_inv (if http_shape req then wap_strip waptop t else t) _ eq_refl) as H.
    destruct (http_of_target _); try exact I; try contradiction; reflexivity.
  - (* Gemini *) unfold gemini_route, gemini_route_with. destruct (urlparse (strip req)) as [u|]; [|reflexivity].
    destruct (gemini_prefixed (u_path u)); [destruct (u_query u); reflexivity|exact I].
  - unfold http_route. destruct (http_parts req) as [|a [|t l]]; try exact I.
    pose proof (http_of_target_inv t _ eq_refl) as H.
    destruct (http_of_target _); try exact I; try contradiction; reflexivity.
  - unfold http_route. destruct (http_parts req) as [|a [|t l]]; try exact I.
    pose proof (http_of_target_inv t _ eq_refl) as H.
    destruct (http_of_target _); try exact I; try contradiction; reflexivity.
  - (* Spartan *) unfold spartan_route. destruct (split_on SPACE (strip req)) as [|a [|b [|c [|? ?]]]]; try exact I.
    destruct (parse_dec c) as [n|]; [|exact I].
    destruct (n =? 0); [exact I|]. destruct (SSIZE_MAX <? n); [reflexivity|exact I].
Qed.

(* every selector a protocol hands to the handler chain is slashnormalize of the protocol's
   percent-decoded path *)
Lemma route_decoded p waptop req body sel q :
  route p waptop req body = ToHandler sel q ->
  exists d, decoded_path p waptop req = Some d /\ sel = slashnormalize d.
Proof.
  destruct p; cbn [route decoded_path].
  - unfold wap_route, wap_route_with. destruct (http_parts req) as [|a [|t l]]; try discriminate.
    intros H. apply http_of_target_inv in H. eexists. split; [reflexivity|exact H].
  - unfold gemini_route, gemini_route_with. destruct (urlparse (strip req)) as [u|]; [|discriminate].
    destruct (gemini_prefixed (u_path u)); [destruct (u_query u); discriminate|].
    intros [= <- _]. eexists. split; reflexivity.
  - unfold http_route. destruct (http_parts req) as [|a [|t l]]; try discriminate.
    intros H. apply http_of_target_inv in H. eexists. split; [reflexivity|exact H].
  - unfold http_route. destruct (http_parts req) as [|a [|t l]]; try discriminate.
    intros H. apply http_of_target_inv in H. eexists. split; [reflexivity|exact H].
  - unfold spartan_route. destruct (split_on SPACE (strip req)) as [|a [|b [|c [|? ?]]]]; try discriminate.
    destruct (parse_dec c) as [n|]; [|discriminate].
    destruct (n =? 0); [|destruct (SSIZE_MAX <? n); [discriminate|]]; intros [= <- _]; eexists; split; reflexivity.
  - unfold gopherplus_route, base_selector. intros [= <- _]. eexists. split; reflexivity.
  - unfold gopherplus_route, base_selector. intros [= <- _]. eexists. split; reflexivity.
  - unfold gopher_route, base_selector. intros [= <- _]. eexists. split; reflexivity.
  - unfold gopher_route, base_selector. intros [= <- _]. eexists. split; reflexivity.
  - unfold gopherplus_route, base_selector. intros [= <- _]. eexists. split; reflexivity.
Qed.

Lemma route_starts_slash p waptop req body sel q :
  route p waptop req body = ToHandler sel q -> starts_with_slash sel = true.
Proof.
  intros H. apply route_decoded in H as (d & _ & ->). apply slashnormalize_starts_slash.
Qed.

(* ====================================================================== *)
(* 2. climbing substrings survive the normalisation                        *)
(* ====================================================================== *)
(* slashnormalize only drops ONE trailing slash and may add a leading one *)
Lemma slashnormalize_suffix s : exists a, slashnormalize s = a ++ strip1 s.
Proof.
  unfold slashnormalize, strip1.
  set (s1 := match last_char s with Some c => if c =? SLASH then drop_last s else s | None => s end).
  destruct s1 as [|c r]; [now exists [SLASH]|].
  destruct (c =? SLASH); [now exists [] | now exists [SLASH]].
Qed.

Lemma contains_slashnormalize c d :
  contains c (strip1 d) = true -> contains c (slashnormalize d) = true.
Proof.
  intros H. destruct (slashnormalize_suffix d) as [a ->].
  rewrite <- (app_nil_r (strip1 d)). now apply contains_substring.
Qed.

(* a pattern that does not end in "/" cannot be destroyed by dropping a trailing "/" *)
Definition ends_slash (c : str) : bool := match last_char c with Some x => x =? SLASH | None => true end.

Lemma last_char_app_ne (a z : str) : z <> [] -> last_char (a ++ z) = last_char z.
Proof.
  intros NE. destruct (exists_last NE) as (z' & x & ->). rewrite app_assoc. now rewrite !last_char_app.
Qed.

Lemma contains_strip1 c d :
  ends_slash c = false -> contains c d = true -> contains c (strip1 d) = true.
Proof.
  intros E H. unfold strip1. destruct (last_char d) as [x|] eqn:L; [|exact H].
  destruct (x =? SLASH) eqn:X; [|exact H]. apply N.eqb_eq in X. subst x.
  apply contains_spec in H as (a & b & ->). apply contains_spec.
  assert (C : c <> []) by (intros ->; discriminate).
  destruct b as [|b0 b1].
  - rewrite app_nil_r in L. rewrite (last_char_app_ne a c C) in L. unfold ends_slash in E. rewrite L in E.
    discriminate.
  - assert (NB : b0 :: b1 <> []) by discriminate.
    destruct (exists_last NB) as (b' & y & EB). rewrite EB in *.
    exists a, b'. replace (a ++ c ++ b' ++ [y]) with ((a ++ c ++ b') ++ [y]) by (now rewrite <- !app_assoc).
    now rewrite drop_last_app.
Qed.

Lemma climber_survives c d :
  In c climbers -> (contains c (strip1 d) = true \/ (ends_slash c = false /\ contains c d = true)) ->
  contains c (slashnormalize d) = true.
Proof.
  intros _ [H|[E H]]; apply contains_slashnormalize; [exact H | now apply contains_strip1].
Qed.

(* the four climbers that a trailing-slash drop cannot touch *)
Lemma climbers_not_ending_slash :
  filter (fun c => negb (ends_slash c)) climbers = [[46;46]; [46;92]; [92;92]; [0]].
Proof. reflexivity. Qed.

(* ====================================================================== *)
(* 3. the handler chain behind the routed selector                          *)
(* ====================================================================== *)
Section Chain.
Variable mime_html compressed_ok zip_pattern pyg_accepts : str -> bool.
Variable icon_data : str -> list N.
Variable cfg : config.
Variable root : tree.

Notation for_me := (for_me mime_html compressed_ok zip_pattern pyg_accepts cfg root).
Notation chain_choice := (chain_choice mime_html compressed_ok zip_pattern pyg_accepts cfg root).
Notation reentry_in := (reentry_in mime_html compressed_ok zip_pattern pyg_accepts cfg root).
Notation reentry := (reentry mime_html compressed_ok zip_pattern pyg_accepts cfg root).
Notation nf_selector := (nf_selector mime_html compressed_ok zip_pattern pyg_accepts cfg root).
Notation decide_routed := (decide_routed mime_html compressed_ok zip_pattern pyg_accepts icon_data cfg root).
Notation serve_decision := (serve_decision mime_html compressed_ok zip_pattern pyg_accepts icon_data cfg root).
Notation serve_accesses_sel := (serve_accesses_sel mime_html compressed_ok zip_pattern pyg_accepts cfg root).
Notation serve_accesses := (serve_accesses mime_html compressed_ok zip_pattern pyg_accepts cfg root).

Lemma for_me_filtered h sel :
  for_me h sel = true -> (h = HUrl /\ url_secure sel = true) \/ (h <> HUrl /\ is_secure sel = true).
Proof. apply is_for_me_filtered. Qed.

(* the second pass through getHandler happens only behind the filter *)
Lemma reentry_in_some hs sel t :
  reentry_in hs sel = Some t ->
  t = rewriter_target sel /\ is_secure sel = true /\ rewriter_accepts sel = true.
Proof.
  induction hs as [|h hs IH]; simpl; [discriminate|].
  destruct (for_me h sel) eqn:F; [|exact IH].
  destruct h; try discriminate. intros [= <-].
  unfold Serve.for_me in F. simpl in F. apply andb_true_iff in F as [F1 F2]. auto.
Qed.

Lemma reentry_insecure sel : is_secure sel = false -> reentry sel = None.
Proof.
  intros S. unfold Serve.reentry. destruct (reentry_in (c_handlers cfg) sel) as [t|] eqn:R; [|reflexivity].
  apply reentry_in_some in R as (_ & R & _). congruence.
Qed.

Lemma nf_selector_insecure sel : is_secure sel = false -> nf_selector sel = sel.
Proof. intros S. unfold Serve.nf_selector. now rewrite (reentry_insecure sel S). Qed.

Lemma nf_selector_cases sel :
  nf_selector sel = sel \/ (nf_selector sel = rewriter_target sel /\ is_secure sel = true /\ rewriter_accepts sel = true).
Proof.
  unfold Serve.nf_selector, Serve.reentry. destruct (reentry_in (c_handlers cfg) sel) as [t|] eqn:R; [|now left].
  apply reentry_in_some in R as (-> & A & B). right. auto.
Qed.

(* a selector the base filter rejects can only be taken by the URL redirector *)
Lemma insecure_only_url sel h s :
  is_secure sel = false -> chain_choice sel = Chosen h s -> h = HUrl /\ s = sel.
Proof.
  intros S H. unfold Serve.chain_choice, get_handler in H.
  apply get_handler_in_chosen in H as [F [->|(_ & S' & _)]]; [|congruence].
  apply is_for_me_filtered in F as [[-> _]|[_ F]]; [now split | congruence].
Qed.

(* ---------- C01: climbers ---------- *)
Theorem serve_climber_notfound p req body sel q c :
  route p (c_waptop cfg) req body = ToHandler sel q ->
  In c climbers -> contains c sel = true -> url_secure sel = false ->
  serve_decision p req body = DNotFound (fnf_message sel).
Proof.
  intros R C H U. unfold Serve.serve_decision. rewrite R. cbn [Serve.decide_routed].
  assert (S : is_secure sel = false) by (apply (climbers_rejected sel c C H)).
  unfold Serve.chain_choice. rewrite (insecure_notfound _ _ _ _ _ _ _ _ S U).
  now rewrite (nf_selector_insecure sel S).
Qed.

(* stated on the decoded path: whatever the protocol and however the request spelled the
   path, a climber in the (once) percent-decoded path never reaches a handler that touches
   the file system *)
Theorem serve_decoded_climber p req body d c :
  decoded_path p (c_waptop cfg) req = Some d -> In c climbers ->
  (contains c (strip1 d) = true \/ (ends_slash c = false /\ contains c d = true)) ->
  match serve_decision p req body with
  | DChosen h s => h = HUrl /\ url_secure s = true
  | DNotFound msg => msg = fnf_message (slashnormalize d)
  | DDirect _ | DNoReply => True
  end.
Proof.
  intros D C H. unfold Serve.serve_decision.
  destruct (route p (c_waptop cfg) req body) as [sel q|n| | |t| |] eqn:R; cbn [Serve.decide_routed];
    try (destruct (respond_direct _ _ _); exact I); try exact I.
  destruct (route_decoded _ _ _ _ _ _ R) as (d' & D' & ->). rewrite D in D'. injection D' as <-.
  assert (K : contains c (slashnormalize d) = true) by (now apply climber_survives).
  assert (S : is_secure (slashnormalize d) = false) by (apply (climbers_rejected _ c C K)).
  destruct (chain_choice (slashnormalize d)) as [h s|] eqn:E.
  - destruct (insecure_only_url _ _ _ S E) as [-> ->]. split; [reflexivity|].
    unfold Serve.chain_choice, get_handler in E. apply get_handler_in_chosen in E as [F _]. exact F.
  - now rewrite (nf_selector_insecure _ S).
Qed.

(* ---------- C01: confinement of what the chain touches ---------- *)
Lemma cac rootpath hs sel c p fsp :
  starts_with_slash sel = true -> In (c, p) (chain_accesses hs sel) -> (c <> AStat \/ is_secure sel = true) ->
  getfspath rootpath p = Some fsp -> inside rootpath fsp = true.
Proof. exact (chain_accesses_confined (fun _ => true) (fun _ => true) (fun _ => true) (fun _ => true) rootpath hs sel c p fsp). Qed.

(* for ANY routed selector: whatever is opened or executed while choosing is inside the root,
   and behind the filter so is everything that is stat'ed *)
Lemma serve_accesses_sel_confined rootpath sel c path fsp :
  starts_with_slash sel = true -> In (c, path) (serve_accesses_sel sel) ->
  (c <> AStat \/ is_secure sel = true) ->
  getfspath rootpath path = Some fsp -> inside rootpath fsp = true.
Proof.
  intros L I C G. unfold Serve.serve_accesses_sel in I. apply in_app_or in I as [I|I].
  - exact (cac rootpath _ sel c path fsp L I C G).
  - fold (reentry sel) in I. destruct (reentry sel) as [t|] eqn:R; [|contradiction].
    unfold Serve.reentry in R. apply reentry_in_some in R as (-> & S & A).
    refine (cac rootpath _ (rewriter_target sel) c path fsp _ I _ G).
    + now apply rewriter_target_starts_slash.
    + right. now apply rewriter_target_secure.
Qed.

Theorem serve_accesses_confined rootpath p req body c path fsp :
  In (c, path) (serve_accesses p req body) -> c <> AStat ->
  getfspath rootpath path = Some fsp -> inside rootpath fsp = true.
Proof.
  unfold Serve.serve_accesses. destruct (route p (c_waptop cfg) req body) as [sel q|n| | |t| |] eqn:R; try contradiction.
  intros I C G. apply (serve_accesses_sel_confined rootpath sel c path fsp); auto.
  now apply (route_starts_slash _ _ _ _ _ _ R).
Qed.

Lemma decision_chosen_inv p req body h s :
  serve_decision p req body = DChosen h s ->
  exists sel q, route p (c_waptop cfg) req body = ToHandler sel q /\ chain_choice sel = Chosen h s.
Proof.
  unfold Serve.serve_decision. destruct (route p (c_waptop cfg) req body) as [sel q|n| | |t| |]; cbn [Serve.decide_routed];
    try (destruct (respond_direct _ _ _); discriminate); try discriminate.
  destruct (chain_choice sel) as [h' s'|] eqn:E; [|discriminate]. intros [= -> ->]. eauto.
Qed.

Lemma decision_notfound_inv p req body msg :
  serve_decision p req body = DNotFound msg ->
  exists sel q, route p (c_waptop cfg) req body = ToHandler sel q /\ chain_choice sel = NotFound /\
                msg = fnf_message (nf_selector sel).
Proof.
  unfold Serve.serve_decision. destruct (route p (c_waptop cfg) req body) as [sel q|n| | |t| |]; cbn [Serve.decide_routed];
    try (destruct (respond_direct _ _ _); discriminate); try discriminate.
  destruct (chain_choice sel) as [h' s'|] eqn:E; [discriminate|]. intros [= <-]. eauto.
Qed.

Lemma decision_direct_inv p req body b :
  serve_decision p req body = DDirect b ->
  let r := route p (c_waptop cfg) req body in
  match r with ToHandler _ _ | Crash => False | _ => True end /\
  respond_direct (req_env cfg req) icon_data r = Some b.
Proof.
  unfold Serve.serve_decision. destruct (route p (c_waptop cfg) req body) as [sel q|n| | |t| |]; cbn [Serve.decide_routed];
    try discriminate;
    try (destruct (respond_direct _ _ _) as [b'|]; [|discriminate]; intros [= <-]; split; [exact I|reflexivity]).
  destruct (chain_choice sel); discriminate.
Qed.

(* a handler other than the URL redirector is only ever chosen for a routed selector that
   passed the filter; what it is built on passed it too; and EVERY path the chain touched on
   the way (stats included) lies inside the root, for any spelling of the root *)
Theorem serve_chosen_confined rootpath p req body h s :
  serve_decision p req body = DChosen h s -> h <> HUrl ->
  is_secure s = true /\ starts_with_slash s = true /\
  forall c path fsp, In (c, path) (serve_accesses p req body) ->
    getfspath rootpath path = Some fsp -> inside rootpath fsp = true.
Proof.
  intros D N. apply decision_chosen_inv in D as (sel & q & R & E).
  pose proof (route_starts_slash _ _ _ _ _ _ R) as L.
  unfold Serve.chain_choice in E. split; [|split].
  - exact (chosen_secure _ _ _ _ _ _ _ _ _ _ E N).
  - exact (chosen_starts_slash _ _ _ _ _ _ _ _ _ _ L E).
  - assert (S : is_secure sel = true).
    { pose proof E as E'. unfold get_handler in E'. apply get_handler_in_chosen in E' as [F [->|(_ & S & _)]]; [|exact S].
      apply is_for_me_filtered in F as [[F _]|[_ F]]; [contradiction|exact F]. }
    intros c path fsp I G. unfold Serve.serve_accesses in I. rewrite R in I.
    apply (serve_accesses_sel_confined rootpath sel c path fsp); auto.
Qed.

(* ---------- C03: the replies ---------- *)
Theorem serve_direct_wellformed p req body b :
  serve_decision p req body = DDirect b -> wf p b = true.
Proof.
  intros D. apply decision_direct_inv in D as [NT RD]. cbv zeta in *.
  pose proof (route_family p (c_waptop cfg) req body) as F.
  destruct (direct_wellformed (req_env cfg req) icon_data _ NT) as (b' & E & W).
  rewrite RD in E. injection E as <-.
  destruct (route p (c_waptop cfg) req body); try contradiction.
  - destruct p; try discriminate; exact W.
  - now subst p.
  - now subst p.
  - now subst p.
  - now subst p.
Qed.
End Chain.

(* ====================================================================== *)
(* 4. the selector quoted in the error message is the image of bytes       *)
(* ====================================================================== *)
Lemma encodable_sub a s b : encodable (a ++ s ++ b) = true -> encodable s = true.
Proof. rewrite !encodable_app. intros H. apply andb_true_iff in H as [_ H]. now apply andb_true_iff in H as [H _]. Qed.

Lemma encodable_prefix s t : encodable (s ++ t) = true -> encodable s = true.
Proof. rewrite encodable_app. intros H. now apply andb_true_iff in H as [H _]. Qed.
Lemma encodable_suffix s t : encodable (s ++ t) = true -> encodable t = true.
Proof. rewrite encodable_app. intros H. now apply andb_true_iff in H as [_ H]. Qed.

Lemma encodable_skipn n s : encodable s = true -> encodable (skipn n s) = true.
Proof. intros H. rewrite <- (firstn_skipn n s) in H. now apply encodable_suffix in H. Qed.

Lemma encodable_strip s : encodable s = true -> encodable (strip s) = true.
Proof.
  intros H. unfold strip. destruct (lstrip_suffix s) as [t E]. rewrite E in H. apply encodable_suffix in H.
  destruct (rstrip_prefix (lstrip s)) as [u F]. rewrite F in H. now apply encodable_prefix in H.
Qed.

Lemma encodable_field c s f : In f (split_on c s) -> encodable s = true -> encodable f = true.
Proof. intros I H. apply split_on_In_substring in I as (a & b & ->). now apply encodable_sub in H. Qed.

Lemma encodable_stripped_field c s f : In f (map strip (split_on c s)) -> encodable s = true -> encodable f = true.
Proof. intros I H. apply in_map_iff in I as (g & <- & I). apply encodable_strip. exact (encodable_field c s g I H). Qed.

Lemma hd_nil_or_In (l : list str) : hd [] l = [] \/ In (hd [] l) l.
Proof. destruct l; [now left | right; now left]. Qed.

Lemma encodable_hd (l : list str) : (forall f, In f l -> encodable f = true) -> encodable (hd [] l) = true.
Proof. intros H. destruct (hd_nil_or_In l) as [-> | I]; [reflexivity | now apply H]. Qed.

Lemma encodable_drop_last s : encodable s = true -> encodable (drop_last s) = true.
Proof.
  intros H. destruct (last_char s) as [c|] eqn:L.
  - apply last_char_some in L. rewrite L in H. now apply encodable_prefix in H.
  - destruct s as [|x s]; [exact H|]. exfalso. clear H. revert x L. induction s as [|y s IH]; intros x L; [discriminate|].
    apply (IH y). exact L.
Qed.

Lemma encodable_slashnormalize s : encodable s = true -> encodable (slashnormalize s) = true.
Proof.
  intros H. unfold slashnormalize.
  assert (H1 : encodable (match last_char s with Some c => if c =? SLASH then drop_last s else s | None => s end) = true).
  { destruct (last_char s) as [c|]; [|exact H]. destruct (c =? SLASH); [now apply encodable_drop_last | exact H]. }
  destruct (match last_char s with Some c => if c =? SLASH then drop_last s else s | None => s end) as [|c r]; [reflexivity|].
  destruct (c =? SLASH); [exact H1|]. rewrite encodable_cons. now rewrite H1.
Qed.

Lemma ascii_is_bytes s : all_ascii s = true -> is_bytes s = true.
Proof.
  unfold all_ascii, is_bytes. intros H. rewrite forallb_forall in *. intros x I. specialize (H x I).
  unfold is_byte. apply N.ltb_lt in H. apply N.ltb_lt. lia.
Qed.

Lemma encodable_unquote_str s : all_ascii s = true -> encodable (unquote_str s) = true.
Proof. intros A. unfold unquote_str. apply decode_encodable, unquote_bytes_is_bytes, ascii_is_bytes, A. Qed.

Lemma encodable_unquote_py_aux cur s :
  all_ascii cur = true -> encodable s = true -> encodable (unquote_py_aux cur s) = true.
Proof.
  revert cur. induction s as [|c s IH]; intros cur A H; simpl.
  - apply encodable_unquote_str. unfold all_ascii in *. rewrite forallb_forall in *. intros x I. apply A. now apply in_rev.
  - rewrite encodable_cons in H. apply andb_true_iff in H as [Hc Hs]. destruct (c <? 128) eqn:E.
    + apply IH; [|exact Hs]. unfold all_ascii. simpl. now rewrite E.
    + rewrite encodable_app, encodable_cons, Hc, (IH [] eq_refl Hs), andb_true_r.
      apply encodable_unquote_str. unfold all_ascii in *. rewrite forallb_forall in *. intros x I. apply A. now apply in_rev.
Qed.

Lemma encodable_unquote_py s : encodable s = true -> encodable (unquote_py s) = true.
Proof. apply encodable_unquote_py_aux. reflexivity. Qed.

Lemma http_target_encodable t sel q :
  encodable t = true -> http_of_target t = ToHandler sel q -> encodable sel = true.
Proof.
  intros H R. apply http_of_target_inv in R. subst sel.
  apply encodable_slashnormalize, encodable_unquote_py, encodable_hd. intros f I. exact (encodable_field _ _ _ I H).
Qed.

Lemma http_parts_encodable req a t l : encodable req = true -> http_parts req = a :: t :: l -> encodable t = true.
Proof.
  intros H E. apply (encodable_stripped_field SPACE req t); [|exact H]. unfold http_parts in E. rewrite E. right. now left.
Qed.

(* every protocol whose error reply goes through encode(errors="surrogateescape"): the
   routed selector of a decoded request line encodes back *)
Lemma route_encodable p waptop req body sel q :
  p <> PGemini -> encodable req = true ->
  route p waptop req body = ToHandler sel q -> encodable sel = true.
Proof.
  intros NG H. 
  assert (G : encodable (base_selector req) = true).
  { unfold base_selector, requestlist. apply encodable_slashnormalize, encodable_hd.
    intros f I. exact (encodable_stripped_field _ _ _ I H). }
  destruct p; cbn [route]; try contradiction.
  - unfold wap_route, wap_route_with. destruct (http_parts req) as [|a [|t l]] eqn:E; try discriminate.
    apply http_target_encodable. pose proof (http_parts_encodable req a t l H E) as T.
    destruct (http_shape req); [|exact T]. unfold wap_strip. destruct (wap_prefixed waptop t); [now apply encodable_skipn|exact T].
  - unfold http_route. destruct (http_parts req) as [|a [|t l]] eqn:E; try discriminate.
    apply http_target_encodable. exact (http_parts_encodable req a t l H E).
  - unfold http_route. destruct (http_parts req) as [|a [|t l]] eqn:E; try discriminate.
    apply http_target_encodable. exact (http_parts_encodable req a t l H E).
  - unfold spartan_route. destruct (split_on SPACE (strip req)) as [|a [|b [|c [|? ?]]]] eqn:E; try discriminate.
    assert (B : encodable b = true).
    { apply (encodable_field SPACE (strip req) b); [rewrite E; right; now left | now apply encodable_strip]. }
    destruct (parse_dec c) as [n|]; [|discriminate].
    destruct (n =? 0); [|destruct (SSIZE_MAX <? n); [discriminate|]]; intros [= <- _];
      now apply encodable_slashnormalize, encodable_unquote_py.
  - unfold gopherplus_route. now intros [= <- _].
  - unfold gopherplus_route. now intros [= <- _].
  - unfold gopher_route. now intros [= <- _].
  - unfold gopher_route. now intros [= <- _].
  - unfold gopherplus_route. now intros [= <- _].
Qed.

Lemma fnf_message_encodable s : encodable s = true -> encodable (fnf_message s) = true.
Proof.
  intros H. unfold fnf_message, notfound_msg. change NO_HANDLER with (lit "no handler found"%string).
  cbv iota. rewrite !encodable_app, H. reflexivity.
Qed.

Lemma readline_prefix b : exists t, b = fst (readline b) ++ t /\ snd (readline b) = t.
Proof.
  induction b as [|x b (t & E & F)]; [now exists []|]. simpl. destruct (x =? 10).
  - exists b. split; reflexivity.
  - destruct (readline b) as [l r]. simpl in *. exists t. split; [now rewrite E at 1|exact F].
Qed.

Lemma readline_is_bytes b : is_bytes b = true -> is_bytes (fst (readline b)) = true /\ is_bytes (snd (readline b)) = true.
Proof.
  intros H. destruct (readline_prefix b) as (t & E & F). rewrite F. rewrite E in H. unfold is_bytes in *.
  rewrite forallb_app in H. now apply andb_true_iff in H.
Qed.

Section Replies.
Variable mime_html compressed_ok zip_pattern pyg_accepts : str -> bool.
Variable icon_data : str -> list N.
Variable cfg : config.
Variable root : tree.
Notation serve_decision := (serve_decision mime_html compressed_ok zip_pattern pyg_accepts icon_data cfg root).
Notation nf_selector := (nf_selector mime_html compressed_ok zip_pattern pyg_accepts cfg root).

Lemma nf_selector_encodable sel : encodable sel = true -> encodable (nf_selector sel) = true.
Proof.
  intros H. destruct (nf_selector_cases mime_html compressed_ok zip_pattern pyg_accepts cfg root sel) as [-> | [-> _]];
    [exact H | now apply encodable_skipn].
Qed.

(* the admin string is the only thing the configuration must get right (Gopher+ prints it
   with str.encode()) *)
Definition admin_ok (c : config) : bool := is_some (encode_strict (c_admin c)).

Lemma req_env_ok req : admin_ok cfg = true -> env_ok (req_env cfg req) = true.
Proof. intros A. unfold env_ok, req_env. simpl. now rewrite andb_true_r. Qed.

(* whenever the chain ends in "no handler found", the complete reply is accepted by the
   reader of the protocol that routed the request — for any request line that was decoded
   from bytes *)
Theorem serve_error_wellformed p req body msg :
  admin_ok cfg = true -> encodable req = true ->
  serve_decision p req body = DNotFound msg ->
  exists r, serve_error_reply cfg p req (DNotFound msg) = Some r /\ wf p r = true /\
            serve_reply cfg p req (DNotFound msg) = Some r.
Proof.
  intros A E D. cbn [serve_error_reply serve_reply].
  assert (G : exists r, respond (req_env cfg req) p (ONotFound msg) = Some r /\ wf p r = true).
  { destruct (proto_eqb p PGemini) eqn:PG.
    - assert (p = PGemini) by (destruct p; try discriminate; reflexivity). subst p. apply gemini_wf.
    - apply respond_wellformed; [now apply req_env_ok|]. cbn [outcome_ok].
      apply decision_notfound_inv in D as (sel & q & R & _ & ->).
      apply fnf_message_encodable, nf_selector_encodable.
      apply (route_encodable p (c_waptop cfg) req body sel q); [intros ->; discriminate | exact E | exact R]. }
  destruct G as (r & R & W). exists r. auto.
Qed.

(* ... in particular for every request that arrives as bytes on a socket *)
Theorem serve_error_wellformed_bytes p input msg :
  admin_ok cfg = true -> is_bytes input = true ->
  let req := decode_se (fst (readline input)) in
  serve_decision p req (snd (readline input)) = DNotFound msg ->
  exists r, serve_error_reply cfg p req (DNotFound msg) = Some r /\ wf p r = true.
Proof.
  intros A B req D. destruct (readline_is_bytes input B) as [B1 _].
  destruct (serve_error_wellformed p req _ msg A (decode_encodable _ B1) D) as (r & R & W & _). eauto.
Qed.
End Replies.

(* ====================================================================== *)
(* 5. the answer is a function of the tree below the root                  *)
(* ====================================================================== *)
Theorem serve_outside_independent {O1 O2} mime_html compressed_ok zip_pattern pyg_accepts icon_data cfg
        (w1 : world O1) (w2 : world O2) p req body :
  w_tree w1 = w_tree w2 ->
  serve_world mime_html compressed_ok zip_pattern pyg_accepts icon_data cfg w1 p req body =
  serve_world mime_html compressed_ok zip_pattern pyg_accepts icon_data cfg w2 p req body.
Proof. intros E. unfold serve_world. now rewrite E. Qed.

Theorem serve_input_outside_independent {O1 O2} mime_html compressed_ok zip_pattern pyg_accepts icon_data cfg
        (w1 : world O1) (w2 : world O2) tls input :
  w_tree w1 = w_tree w2 ->
  serve_world_input mime_html compressed_ok zip_pattern pyg_accepts icon_data cfg w1 tls input =
  serve_world_input mime_html compressed_ok zip_pattern pyg_accepts icon_data cfg w2 tls input.
Proof. intros E. unfold serve_world_input. now rewrite E. Qed.

(* ====================================================================== *)
(* 6. from the bytes on the wire: a request some protocol class accepted   *)
(*    always gets a decision, never silence                                *)
(* ====================================================================== *)
Lemma digits_parse s : forallb is_ascii_digit s = true -> forall acc, exists v, digits_to_N_aux acc s = Some v.
Proof.
  induction s as [|c s IH]; intros H acc; simpl; [eauto|].
  simpl in H. apply andb_true_iff in H as [H1 H2]. rewrite H1. apply IH, H2.
Qed.

Lemma http_target_not_crash t : http_of_target t <> Crash.
Proof. intros E. now apply http_of_target_inv in E. Qed.

Lemma http_shape_parts req : http_shape req = true -> exists m t v, http_parts req = [m; t; v].
Proof.
  unfold http_shape. destruct (http_parts req) as [|m [|t [|v [|? ?]]]]; try discriminate. eauto.
Qed.

Lemma accepted_not_crash waptop p tls req hdrs body :
  accepts waptop p tls req hdrs = true -> route p waptop req body <> Crash.
Proof.
  unfold accepts. intros H. apply andb_true_iff in H as [_ H]. destruct p; cbn [shape route] in *.
  - unfold wap_shape in H. apply andb_true_iff in H as [H _]. destruct (http_shape_parts req H) as (m & t & v & E).
    unfold wap_route, wap_route_with. rewrite E. apply http_target_not_crash.
  - unfold gemini_route, gemini_route_with. destruct (urlparse (strip req)) as [u|]; [|discriminate].
    destruct (gemini_prefixed (u_path u)); [destruct (u_query u); discriminate|discriminate].
  - destruct (http_shape_parts req H) as (m & t & v & E). unfold http_route. rewrite E. apply http_target_not_crash.
  - destruct (http_shape_parts req H) as (m & t & v & E). unfold http_route. rewrite E. apply http_target_not_crash.
  - unfold spartan_shape in H. apply andb_true_iff in H as [_ H]. unfold spartan_route.
    destruct (split_on SPACE (strip req)) as [|a [|b [|c [|? ?]]]]; try discriminate.
    apply andb_true_iff in H as [H D]. apply andb_true_iff in H as [_ C]. apply negb_true_iff, str_eqb_neq in C.
    unfold parse_dec. destruct c as [|c0 c']; [contradiction|]. destruct (digits_parse _ D 0) as [v ->].
    destruct (v =? 0); [discriminate|]. destruct (SSIZE_MAX <? v); discriminate.
  - discriminate.
  - discriminate.
  - discriminate.
  - discriminate.
  - discriminate.
Qed.

Section Input.
Variable mime_html compressed_ok zip_pattern pyg_accepts : str -> bool.
Variable icon_data : str -> list N.
Variable cfg : config.
Variable root : tree.
Notation serve_decision := (serve_decision mime_html compressed_ok zip_pattern pyg_accepts icon_data cfg root).
Notation serve_input := (serve_input mime_html compressed_ok zip_pattern pyg_accepts icon_data cfg root).

Lemma serve_input_inv tls input p d :
  serve_input tls input = Some (p, d) ->
  let req := decode_se (fst (readline input)) in
  let rest := snd (readline input) in
  detect (c_waptop cfg) (c_protocols cfg) tls req (header_lines rest) = Some p /\ d = serve_decision p req rest.
Proof.
  unfold Serve.serve_input. destruct (readline input) as [line rest]. cbn [fst snd].
  destruct (detect _ _ _ _ _) as [p'|]; [|discriminate]. intros [= -> <-]. split; reflexivity.
Qed.

Theorem serve_input_never_silent tls input p d :
  serve_input tls input = Some (p, d) -> d <> DNoReply.
Proof.
  intros H. apply serve_input_inv in H as [D ->]. cbv zeta in D.
  apply detect_first_match in D as (_ & _ & _ & A & _).
  pose proof (accepted_not_crash _ _ _ _ _ (snd (readline input)) A) as NC.
  unfold Serve.serve_decision.
  destruct (route p (c_waptop cfg) (decode_se (fst (readline input))) (snd (readline input))) as [sel q|n| | |t| |] eqn:R;
    cbn [decide_routed]; try discriminate; try contradiction.
  destruct (chain_choice _ _ _ _ _ _ sel); discriminate.
Qed.

(* every request that arrives as bytes and is claimed by a protocol class gets a handler or
   one complete reply that the reader of that protocol accepts *)
Theorem serve_input_answered tls input p d :
  admin_ok cfg = true -> is_bytes input = true ->
  serve_input tls input = Some (p, d) ->
  match d with
  | DChosen _ _ => True
  | _ => exists r, serve_reply cfg p (decode_se (fst (readline input))) d = Some r /\ wf p r = true
  end.
Proof.
  intros A B H. pose proof (serve_input_never_silent _ _ _ _ H) as NS.
  apply serve_input_inv in H as [_ E]. cbv zeta in E. destruct d as [msg|h s|b|]; [| exact I | | contradiction].
  - symmetry in E. destruct (readline_is_bytes input B) as [B1 _].
    destruct (serve_error_wellformed _ _ _ _ _ _ _ _ _ _ msg A (decode_encodable _ B1) E) as (r & _ & W & R). eauto.
  - symmetry in E. exists b. split; [reflexivity|]. exact (serve_direct_wellformed _ _ _ _ _ _ _ _ _ _ _ E).
Qed.

(* with the shipped protocol list some class claims every first line *)
Theorem serve_input_total tls input :
  c_protocols cfg = shipped_protocols -> exists p d, serve_input tls input = Some (p, d).
Proof.
  intros P. unfold Serve.serve_input. destruct (readline input) as [line rest]. rewrite P.
  destruct (detect (c_waptop cfg) shipped_protocols tls (decode_se line) (header_lines rest)) as [p|] eqn:D; [eauto|].
  exfalso. exact (C02Facts.shipped_total (c_waptop cfg) tls _ _ D).
Qed.
End Input.

(* ====================================================================== *)
(* 7. the two halves of the climber clause together                        *)
(* ====================================================================== *)
Section Climbers.
Variable mime_html compressed_ok zip_pattern pyg_accepts : str -> bool.
Variable icon_data : str -> list N.
Variable cfg : config.
Variable root : tree.
Notation serve_decision := (serve_decision mime_html compressed_ok zip_pattern pyg_accepts icon_data cfg root).

(* a climbing substring in the routed selector: not-found, and (for a request decoded from
   bytes) the complete reply is the well-formed not-found reply of the routing protocol *)
Theorem serve_climber_reply p req body sel q c :
  route p (c_waptop cfg) req body = ToHandler sel q ->
  In c climbers -> contains c sel = true -> url_secure sel = false ->
  serve_decision p req body = DNotFound (fnf_message sel) /\
  (admin_ok cfg = true -> encodable req = true ->
   exists r, serve_reply cfg p req (serve_decision p req body) = Some r /\
             r = match respond (req_env cfg req) p (ONotFound (fnf_message sel)) with Some x => x | None => [] end /\
             wf p r = true).
Proof.
  intros R C H U.
  pose proof (serve_climber_notfound mime_html compressed_ok zip_pattern pyg_accepts icon_data cfg root p req body sel q c R C H U) as D.
  split; [exact D|]. intros A E.
  destruct (serve_error_wellformed mime_html compressed_ok zip_pattern pyg_accepts icon_data cfg root p req body _ A E D)
    as (r & R1 & W & R2).
  exists r. rewrite D. split; [exact R2|]. split; [|exact W]. cbn [serve_error_reply] in R1. now rewrite R1.
Qed.

(* the same from the percent-decoded path, for every protocol: the routed selector still
   contains the climber *)
Theorem decoded_climber_routed p req body d c sel q :
  decoded_path p (c_waptop cfg) req = Some d -> In c climbers ->
  (contains c (strip1 d) = true \/ (ends_slash c = false /\ contains c d = true)) ->
  route p (c_waptop cfg) req body = ToHandler sel q ->
  sel = slashnormalize d /\ contains c sel = true /\ is_secure sel = false.
Proof.
  intros D C H R. destruct (route_decoded _ _ _ _ _ _ R) as (d' & D' & ->). rewrite D in D'. injection D' as <-.
  assert (K : contains c (slashnormalize d) = true) by (now apply climber_survives).
  split; [reflexivity|]. split; [exact K|]. exact (climbers_rejected _ c C K).
Qed.
End Climbers.
