(* Every program the (repaired) compiler model emits is structurally well formed.
   Induction over the event stream with the tag-stack invariant: the shape list of the
   commands emitted so far is  top ++ (open element)* , where every tagStack entry that
   carries an endTagSymbol corresponds to one open element (START_SCOPE, its commands in
   priority order, STARTTAG, the body items completed so far), its symbol is still undefined
   and distinct from all others; closing the element (popTag) defines the symbol as the
   index of the ENDTAG_ENDSCOPE just emitted and turns the open element into one body item
   of its parent.  Macros and slot fillers point at open elements or at recorded spans. *)
From Coq Require Import Lia PeanoNat Sorted Permutation String.
From PG Require Import Lib.Str Lib.StrFacts Model.TALProg Model.TALProgSpec Model.TALCompile Model.TALVM
                       Proofs.TALProgFacts Proofs.TALProgComplete Proofs.TALCompileFacts Proofs.TALVMFacts.

(* ---- open elements (innermost first) ---- *)
Record oframe : Type := mkF {
  of_sym : nat; of_sc : cmd; of_head : list cmd; of_st : cmd; of_items : list cmd; of_spans : list (nat * nat)
}.
Definition flat1 (f : oframe) : list cmd := of_sc f :: of_head f ++ of_st f :: of_items f.
Fixpoint flatF (fs : list oframe) : list cmd :=
  match fs with [] => [] | f :: outer => flatF outer ++ flat1 f end.

Definition frame_ok (T : symtab) (o : nat) (f : oframe) : Prop :=
  is_scope (of_sc f) = true /\ head_sorted 0 (of_head f) = true /\ is_stag (of_st f) = true /\
  (forall c k, In c (of_head f) -> cmd_sym c = Some k -> k = of_sym f) /\
  wfitemsS T (o + 2 + length (of_head f)) (of_items f) (of_spans f).

Fixpoint FramesOK (T : symtab) (base : nat) (fs : list oframe) : Prop :=
  match fs with
  | [] => True
  | f :: outer => FramesOK T base outer /\ frame_ok T (base + length (flatF outer)) f
  end.

(* (symbol, index of START_SCOPE) of the open elements *)
Fixpoint offsets (base : nat) (fs : list oframe) : list (nat * nat) :=
  match fs with
  | [] => []
  | f :: outer => (of_sym f, base + length (flatF outer)) :: offsets base outer
  end.
Definition allspans (tsp : list (nat * nat)) (fs : list oframe) : list (nat * nat) := tsp ++ flat_map of_spans fs.

Definition Struct (T : symtab) (q top : list cmd) (tsp : list (nat * nat)) (fs : list oframe) : Prop :=
  q = top ++ flatF fs /\ wfitemsS T 0 top tsp /\ FramesOK T (length top) fs.

Definition ext (T T' : symtab) : Prop := forall k v, lookup_sym T k = Some v -> lookup_sym T' k = Some v.

Lemma FramesOK_ext T T' base fs : ext T T' -> FramesOK T base fs -> FramesOK T' base fs.
Proof.
  intros E. induction fs as [|f outer IH]; simpl; [auto|]. intros [H1 (A & B & C & D & W)].
  split; [auto|]. repeat split; auto. eapply wfitemsS_ext; eauto.
Qed.

Lemma Struct_ext T T' q top tsp fs : ext T T' -> Struct T q top tsp fs -> Struct T' q top tsp fs.
Proof.
  intros E (A & B & C). repeat split; auto; [eapply wfitemsS_ext; eauto | eapply FramesOK_ext; eauto].
Qed.

Lemma flat1_length f : length (flat1 f) = 2 + length (of_head f) + length (of_items f).
Proof. unfold flat1. simpl. rewrite app_length. simpl. lia. Qed.

(* append completed items to the innermost open element (or to the top level) *)
Lemma struct_append T q top tsp fs l sp :
  Struct T q top tsp fs -> wfitemsS T (length q) l sp ->
  exists top' tsp' fs',
    Struct T (q ++ l) top' tsp' fs' /\ map of_sym fs' = map of_sym fs /\
    offsets (length top') fs' = offsets (length top) fs /\
    (forall x, In x (allspans tsp' fs') <-> In x (allspans tsp fs) \/ In x sp).
Proof.
  intros (Eq & Wt & Fr) Wl. destruct fs as [|f outer].
  - simpl in *. rewrite app_nil_r in Eq. subst q.
    exists (top ++ l), (tsp ++ sp), []. repeat split; simpl; auto.
    + now rewrite app_nil_r.
    + apply (wfitemsS_app T 0 top tsp Wt). exact Wl.
    + unfold allspans. simpl. rewrite !app_nil_r. apply in_app_or.
    + unfold allspans. simpl. rewrite !app_nil_r. apply in_or_app.
  - destruct Fr as [Fo (A & B & C & D & W)].
    set (f' := mkF (of_sym f) (of_sc f) (of_head f) (of_st f) (of_items f ++ l) (of_spans f ++ sp)).
    exists top, tsp, (f' :: outer). repeat split; simpl; auto.
    + subst q. unfold flat1. simpl. rewrite <- !app_assoc. simpl. rewrite <- !app_assoc. reflexivity.
    + eapply wfitemsS_app; [exact W|].
      replace (length top + length (flatF outer) + 2 + length (of_head f) + length (of_items f)) with (length q); [exact Wl|].
      subst q. simpl. rewrite !app_length, flat1_length. lia.
    + unfold allspans. simpl. intros Hx. rewrite !in_app_iff in *. tauto.
    + unfold allspans. simpl. intros Hx. rewrite !in_app_iff in *. tauto.
Qed.

(* open a new element *)
Lemma struct_open T q top tsp fs f :
  Struct T q top tsp fs -> frame_ok T (length q) f -> of_items f = [] ->
  Struct T (q ++ of_sc f :: of_head f ++ [of_st f]) top tsp (f :: fs).
Proof.
  intros (Eq & Wt & Fr) Fk Ei. split; [|split; [exact Wt|]].
  - subst q. simpl. unfold flat1. rewrite Ei. now rewrite <- app_assoc.
  - simpl. split; [exact Fr|]. subst q. now rewrite app_length in Fk.
Qed.

(* close the innermost open element: the ENDTAG_ENDSCOPE goes to index |q|, where its symbol now points *)
Lemma struct_close T T' q top tsp f outer en :
  Struct T q top tsp (f :: outer) -> ext T T' -> is_etag en = true ->
  syms_ok T' (length q) (of_head f) = true ->
  exists top' tsp' fs',
    Struct T' (q ++ [en]) top' tsp' fs' /\ map of_sym fs' = map of_sym outer /\
    offsets (length top') fs' = offsets (length top) outer /\
    (forall x, In x (allspans tsp (f :: outer)) -> In x (allspans tsp' fs')) /\
    In (length top + length (flatF outer), length q) (allspans tsp' fs').
Proof.
  intros S E He Hs. apply (Struct_ext T T' _ _ _ _ E) in S. destruct S as (Eq & Wt & [Fo (A & B & C & D & W)]).
  set (o := length top + length (flatF outer)).
  assert (Lq : length q = o + 2 + length (of_head f) + length (of_items f)).
  { subst q. simpl. rewrite !app_length, flat1_length. unfold o. lia. }
  assert (Wel : wfitemsS T' o (flat1 f ++ [en]) ((o, length q) :: of_spans f ++ [])).
  { unfold flat1. replace ((of_sc f :: of_head f ++ of_st f :: of_items f) ++ [en])
      with (of_sc f :: of_head f ++ of_st f :: of_items f ++ en :: []) by (simpl; now rewrite <- app_assoc).
    rewrite Lq. apply wsi_elem; auto; [now rewrite <- Lq | apply wsi_nil]. }
  destruct (struct_append T' (top ++ flatF outer) top tsp outer (flat1 f ++ [en]) ((o, length q) :: of_spans f ++ [])) as (top' & tsp' & fs' & S' & M & O & Sp).
  - repeat split; auto.
  - rewrite app_length. exact Wel.
  - exists top', tsp', fs'. split; [|split; [exact M|split; [exact O|split]]].
    + destruct S' as (E1 & E2 & E3). split; [|split; auto]. rewrite <- E1. subst q. cbn [flatF]. now rewrite <- !app_assoc.
    + intros x Hx. apply Sp. unfold allspans in *. simpl in Hx. rewrite !in_app_iff in Hx.
      destruct Hx as [Hx|[Hx|Hx]].
      * left. apply in_or_app. now left.
      * right. right. apply in_or_app. now left.
      * left. apply in_or_app. now right.
    + apply Sp. right. now left.
Qed.

(* ---- the invariant, on the data of a compiler state ---- *)
Definition talsyms (stk : list tagent) : list nat :=
  flat_map (fun t => match te_sym t with Some k => [k] | None => [] end) stk.

Definition SubOK (T : symtab) (base : nat) (tsp : list (nat * nat)) (fs : list oframe) (sb : subt) : Prop :=
  In (snd sb, fst sb) (offsets base fs) \/
  exists e, lookup_sym T (snd sb) = Some e /\ In (fst sb, e) (allspans tsp fs).

Definition InvD (stk : list tagent) (q : list cmd) (T : symtab) (n : nat) (subs : list subt)
                (top : list cmd) (tsp : list (nat * nat)) (fs : list oframe) : Prop :=
  Struct T q top tsp fs /\ map of_sym fs = talsyms stk /\ NoDup (map of_sym fs) /\
  (forall k, In k (map of_sym fs) -> lookup_sym T k = None /\ k <= n) /\
  (forall k v, lookup_sym T k = Some v -> k <= n) /\
  (forall sb, In sb subs -> SubOK T (length top) tsp fs sb).

Definition InvE stk q T n subs : Prop := exists top tsp fs, InvD stk q T n subs top tsp fs.

Lemma InvE_subs stk q T n subs subs' : (forall sb, In sb subs' -> In sb subs) -> InvE stk q T n subs -> InvE stk q T n subs'.
Proof.
  intros H (top & tsp & fs & A & B & C & D & E & F). exists top, tsp, fs.
  split; [exact A|]. split; [exact B|]. split; [exact C|]. split; [exact D|]. split; [exact E|]. intros sb Hsb. apply F, H, Hsb.
Qed.

Lemma InvE_plain_push stk q T n subs t : te_sym t = None -> InvE stk q T n subs -> InvE (t :: stk) q T n subs.
Proof.
  intros Ht (top & tsp & fs & A & B & C & D). exists top, tsp, fs. split; [exact A|]. split; [|split; [exact C | exact D]].
  unfold talsyms. simpl. rewrite Ht. exact B.
Qed.

Lemma InvE_plain_pop stk q T n subs t : te_sym t = None -> InvE (t :: stk) q T n subs -> InvE stk q T n subs.
Proof.
  intros Ht (top & tsp & fs & A & B & C & D). exists top, tsp, fs. split; [exact A|]. split; [|split; [exact C | exact D]].
  unfold talsyms in B. simpl in B. rewrite Ht in B. exact B.
Qed.

(* an OUTPUT command appended *)
Lemma InvE_out stk q T n subs c : is_out c = true -> InvE stk q T n subs -> InvE stk (q ++ [c]) T n subs.
Proof.
  intros Hc (top & tsp & fs & S & B & C & D & E & F).
  destruct (struct_append T q top tsp fs [c] [] S) as (top' & tsp' & fs' & S' & M & O & Sp).
  - apply wsi_out; [exact Hc | apply wsi_nil].
  - exists top', tsp', fs'. split; [exact S'|]. rewrite M. split; [exact B|]. split; [exact C|]. split; [exact D|]. split; [exact E|].
    intros sb Hsb. destruct (F sb Hsb) as [H|(e & L & I)]; [left; now rewrite O | right].
    exists e. split; [exact L|]. apply Sp. now left.
Qed.

Lemma head_sorted_syms T e h sym :
  (forall c k, In c h -> cmd_sym c = Some k -> k = sym) -> lookup_sym T sym = Some e -> syms_ok T e h = true.
Proof.
  intros H L. unfold syms_ok. apply forallb_forall. intros c Hc. destruct (cmd_sym c) as [k|] eqn:E; [|reflexivity].
  rewrite (H c k Hc E), L. unfold opt_nat_eqb. apply Nat.eqb_refl.
Qed.

Lemma lookup_dict_set_same k v T : lookup_sym (dict_set_nat k v T) k = Some v.
Proof.
  induction T as [|[a b] r IH]; simpl; [now rewrite Nat.eqb_refl|].
  destruct (Nat.eqb a k) eqn:E; simpl; rewrite E; [reflexivity | exact IH].
Qed.

Lemma lookup_dict_set_other k v T k' : k' <> k -> lookup_sym (dict_set_nat k v T) k' = lookup_sym T k'.
Proof.
  intros Hn. induction T as [|[a b] r IH]; simpl.
  - destruct (Nat.eqb k k') eqn:E; [apply Nat.eqb_eq in E; congruence | reflexivity].
  - destruct (Nat.eqb a k) eqn:E; simpl.
    + apply Nat.eqb_eq in E. subst a. destruct (Nat.eqb k k') eqn:E2; [apply Nat.eqb_eq in E2; congruence | reflexivity].
    + destruct (Nat.eqb a k'); [reflexivity | exact IH].
Qed.

(* a new element is opened with the fresh symbol S n *)
Lemma InvE_open stk q T n subs subs' t sc hd st :
  te_sym t = Some (S n) -> is_scope sc = true -> head_sorted 0 hd = true -> is_stag st = true ->
  (forall c k, In c hd -> cmd_sym c = Some k -> k = S n) ->
  (forall sb, In sb subs' -> In sb subs \/ sb = (length q, S n)) ->
  InvE stk q T n subs -> InvE (t :: stk) (q ++ sc :: hd ++ [st]) T (S n) subs'.
Proof.
  intros Ht Hsc Hhd Hst Hsy Hsub (top & tsp & fs & S0 & B & C & D & E & F).
  set (f := mkF (S n) sc hd st [] []).
  assert (Lq : length q = length top + length (flatF fs)) by (destruct S0 as (Eq & _); subst q; now rewrite app_length).
  exists top, tsp, (f :: fs). split; [|split; [|split; [|split; [|split]]]].
  - apply (struct_open T q top tsp fs f S0); [|reflexivity]. repeat split; auto. simpl. apply wsi_nil.
  - unfold talsyms. simpl. rewrite Ht. simpl. f_equal. exact B.
  - simpl. constructor; [|exact C]. intros Hin. destruct (D _ Hin) as [_ Hle]. lia.
  - simpl. intros k [Hk|Hk].
    + subst k. split; [|lia]. destruct (lookup_sym T (S n)) as [v|] eqn:L; [|reflexivity]. apply E in L. lia.
    + destruct (D k Hk). split; [auto | lia].
  - intros k v L. apply E in L. lia.
  - intros sb Hsb. destruct (Hsub sb Hsb) as [Hold| ->].
    + destruct (F sb Hold) as [H|(e & L & I)].
      * left. simpl. now right.
      * right. exists e. split; [exact L|]. unfold allspans in *. simpl. exact I.
    + left. simpl. left. now rewrite Lq.
Qed.

(* the innermost open element is closed: its symbol is defined as the index of the ENDTAG_ENDSCOPE *)
Lemma InvE_close stk q T n subs t en sy :
  te_sym t = Some sy -> is_etag en = true ->
  InvE (t :: stk) q T n subs -> InvE stk (q ++ [en]) (dict_set_nat sy (length q) T) n subs.
Proof.
  intros Ht He (top & tsp & fs & S0 & B & C & D & E & F).
  unfold talsyms in B. simpl in B. rewrite Ht in B. simpl in B.
  destruct fs as [|f outer]; [discriminate|]. simpl in B. inversion B as [[Hsy Hrest]].
  set (T' := dict_set_nat sy (length q) T).
  assert (Hnone : lookup_sym T sy = None) by (apply D; simpl; left; exact Hsy).
  assert (Ext : ext T T').
  { intros k v L. unfold T'. rewrite lookup_dict_set_other; [exact L|]. intros ->. congruence. }
  assert (Hs : syms_ok T' (length q) (of_head f) = true).
  { destruct S0 as (_ & _ & [_ (_ & _ & _ & Dsy & _)]). apply (head_sorted_syms T' _ _ (of_sym f) Dsy).
    rewrite Hsy. apply lookup_dict_set_same. }
  destruct (struct_close T T' q top tsp f outer en S0 Ext He Hs) as (top' & tsp' & fs' & S' & M & O & Sp & Snew).
  simpl in C. inversion C as [|? ? Hnotin Cout]; subst.
  exists top', tsp', fs'. split; [exact S'|]. rewrite M. split; [exact Hrest|]. split; [exact Cout|]. split; [|split].
  - intros k Hk. destruct (D k (or_intror Hk)) as [L Hle]. split; [|exact Hle].
    unfold T'. rewrite lookup_dict_set_other; [exact L|]. intros ->. apply Hnotin. exact Hk.
  - intros k v L. destruct (Nat.eq_dec k (of_sym f)) as [->|Hne].
    + destruct (D (of_sym f)) as [_ X]; [simpl; now left | exact X].
    + unfold T' in L. rewrite lookup_dict_set_other in L by exact Hne. eauto.
  - intros sb Hsb. destruct (F sb Hsb) as [H|(e & L & I)].
    + simpl in H. destruct H as [H|H].
      * right. inversion H as [[H1 H2]]. exists (length q). split; [try rewrite <- H1; apply lookup_dict_set_same|].
        try rewrite <- H2. exact Snew.
      * left. now rewrite O.
    + right. exists e. split; [apply Ext; exact L | apply Sp; exact I].
Qed.

(* at the end of the input no element is open *)
Lemma InvE_final stk q T n subs :
  talsyms stk = [] -> InvE stk q T n subs ->
  exists spans, wfitemsS T 0 q spans /\
    forall sb, In sb subs -> exists e, lookup_sym T (snd sb) = Some e /\ In (fst sb, e) spans.
Proof.
  intros Hs (top & tsp & fs & (Eq & Wt & _) & B & _ & _ & _ & F). rewrite Hs in B.
  destruct fs; [|discriminate]. simpl in Eq. rewrite app_nil_r in Eq. subst q.
  exists tsp. split; [exact Wt|]. intros sb Hsb. destruct (F sb Hsb) as [[]|(e & L & I)].
  exists e. split; [exact L|]. unfold allspans in I. simpl in I. now rewrite app_nil_r in I.
Qed.

(* ---- compiler states ---- *)
Definition prog_of (s : cstate) : list cmd := map shape (rev (cs_rcmds s)).
Definition slots_of (s : cstate) : list subt := flat_map cmd_slots (cs_rcmds s).
Definition subs_of (s : cstate) : list subt := map snd (cs_macros s) ++ slots_of s.
Definition SInv (stk : list tagent) (s : cstate) : Prop :=
  InvE stk (prog_of s) (cs_syms s) (cs_sym s) (subs_of s).

Lemma prog_len s : length (prog_of s) = ncmds s.
Proof. unfold prog_of, ncmds. now rewrite map_length, rev_length. Qed.

Definition not_output (c : cmd) : Prop := forall x, c <> COutput x.

Lemma add_command_other c s : not_output c ->
  add_command c s = mkCS (c :: cs_rcmds s) (cs_stack s) (cs_syms s) (cs_macros s) (cs_sym s).
Proof. intros H. destruct c; try reflexivity. exfalso. eapply H; reflexivity. Qed.

Lemma SInv_same stk s s' :
  prog_of s' = prog_of s -> cs_syms s' = cs_syms s -> cs_sym s' = cs_sym s ->
  (forall sb, In sb (subs_of s') -> In sb (subs_of s)) -> SInv stk s -> SInv stk s'.
Proof. unfold SInv. intros -> -> -> H I. eapply InvE_subs; eauto. Qed.

Lemma add_output_cases x s :
  (exists a r, cs_rcmds s = COutput a :: r /\
               add_command (COutput x) s = mkCS (COutput (a ++ x) :: r) (cs_stack s) (cs_syms s) (cs_macros s) (cs_sym s)) \/
  add_command (COutput x) s = mkCS (COutput x :: cs_rcmds s) (cs_stack s) (cs_syms s) (cs_macros s) (cs_sym s).
Proof. unfold add_command. destruct (cs_rcmds s) as [|[] r]; eauto. Qed.

Lemma SInv_out stk s x : SInv stk s -> SInv stk (add_command (COutput x) s).
Proof.
  intros I. destruct (add_output_cases x s) as [(a & r & E & ->)| ->].
  - apply (SInv_same stk s); auto.
    + unfold prog_of. simpl. rewrite E. simpl. now rewrite !map_app.
    + unfold subs_of, slots_of. simpl. rewrite E. simpl. auto.
  - unfold SInv in *. unfold prog_of, subs_of, slots_of in *. simpl. rewrite map_app. simpl.
    apply InvE_out; [reflexivity | exact I].
Qed.

(* popTag *)
Lemma pop_tag_loop_inv tag omit : forall stack s s',
  SInv stack s -> pop_tag_loop tag omit stack s = COk s' -> SInv (cs_stack s') s'.
Proof.
  induction stack as [|t rest IH]; intros s s' I H; [discriminate|].
  rewrite pop_tag_loop_cons in H. cbv zeta in H.
  set (s1 := mkCS (cs_rcmds s) rest (cs_syms s) (cs_macros s) (cs_sym s)) in *.
  assert (P1 : prog_of s1 = prog_of s) by reflexivity.
  destruct (str_eqb (te_tag t) tag).
  - destruct (te_sym t) as [sy|] eqn:Es.
    + apply COk_inj in H. subst s'. rewrite add_command_other by (intros x; discriminate). simpl.
      unfold SInv, prog_of, subs_of, slots_of. simpl. rewrite map_app. simpl.
      pose proof (InvE_close rest (prog_of s) (cs_syms s) (cs_sym s) (subs_of s) t (CEndTagEndScope [] false false) sy Es eq_refl I) as C.
      rewrite prog_len in C. exact C.
    + assert (I1 : SInv rest s1) by (apply (InvE_plain_pop rest _ _ _ _ t Es) in I; exact I).
      destruct omit.
      * apply COk_inj in H. subst s'. exact I1.
      * apply COk_inj in H. subst s'.
        replace (cs_stack (add_command (COutput (end_tag_text tag)) s1)) with rest.
        -- now apply SInv_out.
        -- unfold add_command. destruct (cs_rcmds s1) as [|[] ?]; reflexivity.
  - destruct (te_sym t) as [sy|] eqn:Es; [discriminate|].
    apply (IH s1 s'); [|exact H]. apply (InvE_plain_pop rest _ _ _ _ t Es) in I. exact I.
Qed.

(* ---- one statement ---- *)
Definition oprank (op : nat) : option nat :=
  if Nat.eqb op 14 then Some 1 else if Nat.eqb op 15 then Some 2 else if Nat.eqb op 1 then Some 3
  else if Nat.eqb op 2 then Some 4 else if Nat.eqb op 3 then Some 5 else if Nat.eqb op 4 then Some 6
  else if Nat.eqb op 5 then Some 6 else if Nat.eqb op 6 then Some 7 else if Nat.eqb op 7 then Some 8 else None.

Lemma compile_define_shape arg c : compile_define arg = Some c -> exists l, c = CDefine l.
Proof. unfold compile_define. destruct (all_some _); intros H; inversion H; eauto. Qed.
Lemma compile_condition_shape arg sym c : compile_condition arg sym = Some c -> c = CCondition arg sym.
Proof. unfold compile_condition. destruct arg; intros H; inversion H; reflexivity. Qed.
Lemma compile_repeat_shape arg sym c : compile_repeat arg sym = Some c -> exists v e, c = CRepeat v e sym.
Proof. unfold compile_repeat. destruct (words arg) as [|v [|x r]]; intros H; inversion H; eauto. Qed.
Lemma compile_content_shape v repl arg sym c : compile_content v repl arg sym = Some c -> exists st e, c = CContent repl st e sym.
Proof.
  unfold compile_content. destruct arg as [|a0 ar]; [discriminate|].
  destruct (words (a0 :: ar)) as [|a [|b r]]; try (intros H; inversion H; eauto; fail).
  destruct (str_eqb a STRUCTURE); [intros H; inversion H; eauto|].
  destruct (str_eqb _ TEXT); intros H; inversion H; eauto.
Qed.
Lemma compile_attributes_shape arg c : compile_attributes arg = Some c -> exists l, c = CAttributes l.
Proof. unfold compile_attributes. destruct (all_some _); intros H; inversion H; eauto. Qed.

Lemma update_nth_props {A} (f : A -> option A) (P : A -> A -> Prop) :
  (forall x y, f x = Some y -> P x y) ->
  forall n l l', update_nth n f l = Some l' ->
    exists pre x y post, l = pre ++ x :: post /\ l' = pre ++ y :: post /\ P x y.
Proof.
  intros Hf. induction n as [|n IH]; intros l l' H; destruct l as [|a r]; simpl in H; try discriminate.
  - destruct (f a) as [y|] eqn:E; [|discriminate]. inversion H; subst. exists [], a, y, r. repeat split; auto.
  - destruct (update_nth n f r) as [t|] eqn:E; [|discriminate]. inversion H; subst.
    destruct (IH r t E) as (pre & x & y & post & E1 & E2 & Pxy). exists (a :: pre), x, y, post. subst. repeat split; auto.
Qed.

Lemma compile_stmt_spec estart op arg s oc s' :
  compile_stmt repaired estart op arg s = COk (oc, s') ->
  cs_syms s' = cs_syms s /\ cs_sym s' = cs_sym s /\ cs_stack s' = cs_stack s /\ prog_of s' = prog_of s /\
  (forall sb, In sb (subs_of s') -> In sb (subs_of s) \/ sb = (estart, cs_sym s)) /\
  match oc with
  | Some c => exists k, oprank op = Some k /\ head_rank c = Some k /\ (forall j, cmd_sym c = Some j -> j = cs_sym s) /\
                        cmd_slots c = [] /\ not_output c
  | None => oprank op = None
  end.
Proof.
  unfold compile_stmt. simpl v_start. cbv zeta.
  assert (Same : forall c k, oprank op = Some k -> head_rank c = Some k -> (forall j, cmd_sym c = Some j -> j = cs_sym s) ->
                   cmd_slots c = [] -> not_output c -> (Some c, s) = (oc, s') ->
      cs_syms s' = cs_syms s /\ cs_sym s' = cs_sym s /\ cs_stack s' = cs_stack s /\ prog_of s' = prog_of s /\
      (forall sb, In sb (subs_of s') -> In sb (subs_of s) \/ sb = (estart, cs_sym s)) /\
      match oc with
      | Some c => exists k, oprank op = Some k /\ head_rank c = Some k /\ (forall j, cmd_sym c = Some j -> j = cs_sym s) /\
                            cmd_slots c = [] /\ not_output c
      | None => oprank op = None
      end).
  { intros c k H1 H2 H3 H4 H5 E. inversion E; subst. repeat split; auto. exists k. auto. }
  destruct (Nat.eqb op OP_DEFINE) eqn:E1.
  { apply Nat.eqb_eq in E1. subst op. destruct (compile_define arg) as [c|] eqn:Ec; [|discriminate].
    destruct (compile_define_shape _ _ Ec) as [l ->]. intros H. apply COk_inj in H.
    eapply (Same _ 3); eauto; try reflexivity; [intros j X; discriminate X | intros x; discriminate]. }
  destruct (Nat.eqb op OP_CONDITION) eqn:E2.
  { apply Nat.eqb_eq in E2. subst op. destruct (compile_condition arg (cs_sym s)) as [c|] eqn:Ec; [|discriminate].
    rewrite (compile_condition_shape _ _ _ Ec). intros H. apply COk_inj in H.
    eapply (Same _ 4); eauto; try reflexivity; [intros j X; now inversion X | intros x; discriminate]. }
  destruct (Nat.eqb op OP_REPEAT) eqn:E3.
  { apply Nat.eqb_eq in E3. subst op. destruct (compile_repeat arg (cs_sym s)) as [c|] eqn:Ec; [|discriminate].
    destruct (compile_repeat_shape _ _ _ Ec) as (v & e & ->). intros H. apply COk_inj in H.
    eapply (Same _ 5); eauto; try reflexivity; [intros j X; now inversion X | intros x; discriminate]. }
  destruct (Nat.eqb op OP_CONTENT) eqn:E4.
  { apply Nat.eqb_eq in E4. subst op. destruct (compile_content repaired false arg (cs_sym s)) as [c|] eqn:Ec; [|discriminate].
    destruct (compile_content_shape _ _ _ _ _ Ec) as (st & e & ->). intros H. apply COk_inj in H.
    eapply (Same _ 6); eauto; try reflexivity; [intros j X; now inversion X | intros x; discriminate]. }
  destruct (Nat.eqb op OP_REPLACE) eqn:E5.
  { apply Nat.eqb_eq in E5. subst op. destruct (compile_content repaired true arg (cs_sym s)) as [c|] eqn:Ec; [|discriminate].
    destruct (compile_content_shape _ _ _ _ _ Ec) as (st & e & ->). intros H. apply COk_inj in H.
    eapply (Same _ 6); eauto; try reflexivity; [intros j X; now inversion X | intros x; discriminate]. }
  destruct (Nat.eqb op OP_ATTRIBUTES) eqn:E6.
  { apply Nat.eqb_eq in E6. subst op. destruct (compile_attributes arg) as [c|] eqn:Ec; [|discriminate].
    destruct (compile_attributes_shape _ _ Ec) as [l ->]. intros H. apply COk_inj in H.
    eapply (Same _ 7); eauto; try reflexivity; [intros j X; discriminate X | intros x; discriminate]. }
  destruct (Nat.eqb op OP_OMITTAG) eqn:E7.
  { apply Nat.eqb_eq in E7. subst op. unfold compile_omit_tag. intros H. apply COk_inj in H.
    eapply (Same _ 8); eauto; try reflexivity; [intros j X; discriminate X | intros x; discriminate]. }
  destruct (Nat.eqb op OP_USE_MACRO) eqn:E8.
  { apply Nat.eqb_eq in E8. subst op. destruct arg as [|a0 ar]; [discriminate|]. intros H. apply COk_inj in H.
    eapply (Same _ 1); eauto; try reflexivity; [intros j X; now inversion X | intros x; discriminate]. }
  destruct (Nat.eqb op OP_DEFINE_SLOT) eqn:E9.
  { apply Nat.eqb_eq in E9. subst op. destruct (metal_name_ok arg); [|discriminate]. intros H. apply COk_inj in H.
    eapply (Same _ 2); eauto; try reflexivity; [intros j X; now inversion X | intros x; discriminate]. }
  destruct (Nat.eqb op OP_DEFINE_MACRO) eqn:E10.
  { apply Nat.eqb_eq in E10. subst op. destruct (metal_name_ok arg); [|discriminate].
    destruct (assoc_str arg (cs_macros s)); [discriminate|]. intros H. apply COk_inj in H. inversion H; subst. clear H.
    repeat split; auto. unfold subs_of, slots_of. simpl. intros sb Hsb. rewrite map_app in Hsb. simpl in Hsb.
    rewrite !in_app_iff in *. simpl in Hsb. destruct Hsb as [[Hsb|[Hsb|[]]]|Hsb]; auto. }
  destruct (Nat.eqb op OP_FILL_SLOT) eqn:E11; [|discriminate].
  apply Nat.eqb_eq in E11. subst op. destruct (metal_name_ok arg); [|discriminate].
  destruct (find_macro_loc (cs_stack s)) as [loc|]; [|discriminate].
  destruct (Nat.ltb loc (ncmds s)); [|discriminate].
  match goal with |- context [update_nth ?n ?f ?l] => destruct (update_nth n f l) as [l'|] eqn:Eu; [|discriminate];
    assert (Hf : forall x y, f x = Some y ->
                 shape y = shape x /\ forall sb, In sb (cmd_slots y) -> In sb (cmd_slots x) \/ sb = (estart, cs_sym s));
    [|destruct (update_nth_props f _ Hf n l l' Eu) as (pre & x & y & post & El & El' & Psh & Psl)] end.
  { intros x y Hf. destruct x; try discriminate. destruct (assoc_str arg slots); [discriminate|]. inversion Hf; subst.
    split; [reflexivity|]. simpl. intros sb Hsb. rewrite map_app in Hsb. apply in_app_or in Hsb. simpl in Hsb.
    destruct Hsb as [Hsb|[Hsb|[]]]; auto. }
  intros H. apply COk_inj in H. inversion H; subst. clear H.
  repeat split; auto.
  - unfold prog_of. simpl. rewrite El. rewrite !rev_app_distr. simpl. rewrite !map_app. simpl. now rewrite Psh.
  - unfold subs_of, slots_of. simpl. rewrite El. intros sb Hsb. rewrite !in_app_iff in *.
    destruct Hsb as [Hsb|Hsb]; [auto|]. rewrite flat_map_app in *. simpl in *. rewrite !in_app_iff in *.
    destruct Hsb as [Hsb|[Hsb|Hsb]]; auto. destruct (Psl sb Hsb); auto.
Qed.

(* ---- the order of the statements of one element ---- *)
Fixpoint ops_ok (lo : nat) (ops : list nat) : bool :=
  match ops with
  | [] => true
  | op :: r => match oprank op with
               | Some k => Nat.ltb lo k && ops_ok k r
               | None => ops_ok lo r
               end
  end.

Definition TAL_OPS : list nat := [1; 2; 3; 4; 5; 6; 7]%nat.
Definition METAL_OPS : list nat := [14; 15; 16; 17]%nat.
Definition opkey (op : nat) : nat :=
  if Nat.eqb op 14 then 1 else if Nat.eqb op 15 then 2 else if Nat.eqb op 16 then 3 else if Nat.eqb op 17 then 4
  else op + 4.
Definition keylt (a b : nat) : Prop := opkey a < opkey b.

Lemma rank_step a b k k' :
  In a (METAL_OPS ++ TAL_OPS) -> In b (METAL_OPS ++ TAL_OPS) -> keylt a b ->
  oprank a = Some k -> oprank b = Some k' -> ~ (a = 4 /\ b = 5)%nat -> k < k'.
Proof.
  unfold keylt. intros Ha Hb. simpl in Ha, Hb.
  repeat (destruct Ha as [<-|Ha]; [|]); try contradiction;
    repeat (destruct Hb as [<-|Hb]; [|]); try contradiction;
    cbv; intros Hk H1 H2 Hn; try (inversion H1; inversion H2; subst; lia); try discriminate; try lia;
    try (exfalso; apply Hn; split; reflexivity).
Qed.

Lemma ops_ok_key : forall L lo,
  StronglySorted keylt L -> Forall (fun op => In op (METAL_OPS ++ TAL_OPS)) L ->
  (forall op k, In op L -> oprank op = Some k -> lo < k) -> ~ (In 4%nat L /\ In 5%nat L) ->
  ops_ok lo L = true.
Proof.
  induction L as [|op r IH]; intros lo SS V Hlo H45; [reflexivity|].
  inversion SS as [|? ? SSr Fr]; subst. inversion V as [|? ? Vop Vr]; subst. simpl.
  assert (H45r : ~ (In 4%nat r /\ In 5%nat r)) by (intros [A B]; apply H45; split; now right).
  destruct (oprank op) as [k|] eqn:Ek.
  - apply andb_true_iff. split; [apply Nat.ltb_lt, (Hlo op k); [now left | exact Ek]|].
    apply IH; auto. intros op' k' Hin Ek'. rewrite Forall_forall in Fr, Vr.
    apply (rank_step op op' k k'); auto.
    intros [-> ->]. apply H45. split; [now left | now right].
  - apply IH; auto. intros op' k' Hin Ek'. apply (Hlo op' k'); [now right | exact Ek'].
Qed.

Lemma StronglySorted_app {A} (R : A -> A -> Prop) a b :
  StronglySorted R a -> StronglySorted R b -> (forall x y, In x a -> In y b -> R x y) -> StronglySorted R (a ++ b).
Proof.
  induction a as [|x a IH]; intros Sa Sb H; simpl; [exact Sb|].
  inversion Sa as [|? ? Sa' Fa]; subst. constructor.
  - apply IH; auto. intros u v Hu Hv. apply H; [now right | exact Hv].
  - apply Forall_forall. intros y Hy. apply in_app_or in Hy. destruct Hy as [Hy|Hy].
    + rewrite Forall_forall in Fa. auto.
    + apply H; [now left | exact Hy].
Qed.

Lemma StronglySorted_impl {A} (R R' : A -> A -> Prop) l :
  (forall x y, In x l -> In y l -> R x y -> R' x y) -> StronglySorted R l -> StronglySorted R' l.
Proof.
  induction l as [|x l IH]; intros H S; [constructor|]. inversion S as [|? ? Sl Fl]; subst. constructor.
  - apply IH; auto. intros u v Hu Hv. apply H; now right.
  - rewrite Forall_forall in *. intros y Hy. apply H; [now left | now right | auto].
Qed.

Lemma sort_nat_strict l : NoDup l -> StronglySorted lt (sort_nat l).
Proof.
  intros Nd. assert (Nd' : NoDup (sort_nat l)) by (eapply Permutation_NoDup; [apply sort_nat_perm | exact Nd]).
  assert (S : StronglySorted le (sort_nat l)).
  { apply Sorted_StronglySorted; [intros x y z; apply Nat.le_trans|]. apply Sorted_LocallySorted_iff, sort_nat_sorted. }
  induction S as [|a r S IH F]; [constructor|]. inversion Nd' as [|? ? Hn Nr]; subst. constructor; [auto|].
  rewrite Forall_forall in *. intros y Hy. specialize (F y Hy). assert (a <> y) by (intros ->; contradiction). lia.
Qed.

Lemma keylt_metal x y : In x METAL_OPS -> In y METAL_OPS -> x < y -> keylt x y.
Proof. unfold keylt. simpl. intros Hx Hy. repeat (destruct Hx as [<-|Hx]; [|]); try contradiction; repeat (destruct Hy as [<-|Hy]; [|]); try contradiction; cbv; lia. Qed.
Lemma keylt_tal x y : In x TAL_OPS -> In y TAL_OPS -> x < y -> keylt x y.
Proof. unfold keylt. simpl. intros Hx Hy. repeat (destruct Hx as [<-|Hx]; [|]); try contradiction; repeat (destruct Hy as [<-|Hy]; [|]); try contradiction; cbv; lia. Qed.
Lemma keylt_metal_tal x y : In x METAL_OPS -> In y TAL_OPS -> keylt x y.
Proof. unfold keylt. simpl. intros Hx Hy. repeat (destruct Hx as [<-|Hx]; [|]); try contradiction; repeat (destruct Hy as [<-|Hy]; [|]); try contradiction; cbv; lia. Qed.

Lemma ops_ok_sorted tal metal :
  NoDup tal -> NoDup metal -> Forall (fun op => In op TAL_OPS) tal -> Forall (fun op => In op METAL_OPS) metal ->
  ~ (In 4%nat tal /\ In 5%nat tal) ->
  ops_ok 0 (sort_nat metal ++ sort_nat tal) = true.
Proof.
  intros Nt Nm Ft Fm H45.
  assert (Pt := sort_nat_perm tal). assert (Pm := sort_nat_perm metal).
  assert (Ft' : Forall (fun op => In op TAL_OPS) (sort_nat tal)) by (eapply Permutation_Forall; eauto).
  assert (Fm' : Forall (fun op => In op METAL_OPS) (sort_nat metal)) by (eapply Permutation_Forall; eauto).
  rewrite Forall_forall in Ft', Fm'.
  apply ops_ok_key.
  - apply StronglySorted_app.
    + apply (StronglySorted_impl lt); [|now apply sort_nat_strict]. intros x y Hx Hy. apply keylt_metal; auto.
    + apply (StronglySorted_impl lt); [|now apply sort_nat_strict]. intros x y Hx Hy. apply keylt_tal; auto.
    + intros x y Hx Hy. apply keylt_metal_tal; auto.
  - apply Forall_forall. intros op Hop. apply in_app_or in Hop. apply in_or_app. destruct Hop; [left | right]; auto.
  - intros op k Hop Ek. destruct (Nat.eq_dec k 0) as [->|]; [|lia]. exfalso.
    unfold oprank in Ek. repeat match type of Ek with (if ?b then _ else _) = _ => destruct b; try discriminate end.
  - intros [A B]. apply H45.
    assert (Xm : forall v, In v (sort_nat metal) -> v <> 4%nat /\ v <> 5%nat).
    { intros v Hv. specialize (Fm' v Hv). simpl in Fm'. lia. }
    split.
    + apply in_app_or in A. destruct A as [A|A]; [destruct (Xm _ A); congruence|]. eapply Permutation_in; [apply Permutation_sym; exact Pt | exact A].
    + apply in_app_or in B. destruct B as [B|B]; [destruct (Xm _ B); congruence|]. eapply Permutation_in; [apply Permutation_sym; exact Pt | exact B].
Qed.

Lemma head_sorted_snoc : forall hd l0 lo c k,
  head_sorted l0 hd = true -> Forall (fun x => exists j, head_rank x = Some j /\ j <= lo) hd -> l0 <= lo ->
  lo < k -> head_rank c = Some k -> head_sorted l0 (hd ++ [c]) = true.
Proof.
  induction hd as [|a hd IH]; intros l0 lo c k Hs F Hl Hk Hc; simpl.
  - rewrite Hc. rewrite andb_true_r. apply Nat.ltb_lt. lia.
  - simpl in Hs. destruct (head_rank a) as [ka|] eqn:Ea; [|discriminate].
    apply andb_true_iff in Hs. destruct Hs as [H1 H2]. rewrite H1. simpl.
    inversion F as [|? ? (j & Ej & Lj) Fr]; subst. rewrite Ea in Ej. inversion Ej; subst j.
    apply (IH ka lo c k); auto.
Qed.

(* ---- the loop over the statements of one start tag ---- *)
Section Stmts.
  Variables (q0 : list cmd) (T0 : symtab) (stk0 : list tagent) (sym : nat) (subs0 : list subt).
  Variables (tag : str) (clean orig : list (str * str)) (args : list (nat * str)).

  Definition LS (first : bool) (s : cstate) (hd : list cmd) (lo : nat) : Prop :=
    cs_syms s = T0 /\ cs_sym s = sym /\
    (forall sb, In sb (subs_of s) -> In sb subs0 \/ sb = (length q0, sym)) /\
    head_sorted 0 hd = true /\ Forall (fun x => exists j, head_rank x = Some j /\ j <= lo) hd /\
    (forall c k, In c hd -> cmd_sym c = Some k -> k = sym) /\
    if first then prog_of s = q0 /\ cs_stack s = stk0 /\ hd = []
    else exists loc, prog_of s = q0 ++ CStartScope [] [] :: hd /\ cs_stack s = mkTag tag (Some sym) loc :: stk0.

  Lemma stmts_loop : forall ops first s hd lo first' s',
    LS first s hd lo -> ops_ok lo ops = true ->
    compile_stmts repaired (length q0) ops args tag clean orig first s = COk (first', s') ->
    exists hd' lo', LS first' s' hd' lo'.
  Proof.
    induction ops as [|op r IH]; intros first s hd lo first' s' L Hok H; simpl in H.
    - apply COk_inj in H. inversion H; subst. eauto.
    - destruct (assoc_nat op args) as [arg|]; [|discriminate].
      destruct (compile_stmt repaired (length q0) op arg s) as [[oc s1]| |] eqn:Ec; try discriminate.
      destruct (compile_stmt_spec _ _ _ _ _ _ Ec) as (A1 & A2 & A3 & A4 & A5 & A6).
      destruct L as (L1 & L2 & L3 & L4 & L5 & L6 & L7).
      assert (Subs1 : forall sb, In sb (subs_of s1) -> In sb subs0 \/ sb = (length q0, sym)).
      { intros sb Hsb. destruct (A5 sb Hsb) as [X|X]; [auto | right; now rewrite X, L2]. }
      simpl in Hok. destruct oc as [c|].
      + destruct A6 as (k & Ek & Rk & Sk & Slk & Nout). rewrite Ek in Hok.
        apply andb_true_iff in Hok. destruct Hok as [Hlt Hok]. apply Nat.ltb_lt in Hlt.
        destruct (shape_class c) as (_ & _ & _ & _ & Rs & Ss).
        assert (Hd' : head_sorted 0 (hd ++ [shape c]) = true).
        { apply (head_sorted_snoc hd 0 lo (shape c) k); auto; [lia | congruence]. }
        assert (F' : Forall (fun x => exists j, head_rank x = Some j /\ j <= k) (hd ++ [shape c])).
        { apply Forall_app. split.
          - eapply Forall_impl; [|exact L5]. intros x (j & Ej & Lj). exists j. split; [auto | lia].
          - constructor; [|constructor]. exists k. split; [congruence | lia]. }
        assert (Sy' : forall c0 k0, In c0 (hd ++ [shape c]) -> cmd_sym c0 = Some k0 -> k0 = sym).
        { intros c0 k0 Hin Hs. apply in_app_or in Hin. destruct Hin as [Hin|[<-|[]]]; [eauto|].
          rewrite Ss in Hs. rewrite <- L2. apply Sk. exact Hs. }
        destruct first.
        * destruct L7 as (P & St & ->). simpl app in *.
          apply (IH false (add_tag tag clean orig (Some (cs_sym s)) (Some c) s1) [shape c] k first' s'); [|exact Hok | exact H].
          unfold add_tag. rewrite (add_command_other c) by exact Nout.
          rewrite add_command_other by (intros x; discriminate).
          repeat split; simpl; auto; try congruence.
          -- intros sb Hsb. apply Subs1. unfold subs_of, slots_of in *. simpl in Hsb. rewrite Slk in Hsb. simpl in Hsb. exact Hsb.
          -- eexists. split; [|rewrite A3, St, L2; reflexivity].
             unfold prog_of. simpl. rewrite <- !app_assoc. simpl. rewrite map_app. simpl.
             unfold prog_of in A4, P. rewrite A4, P. reflexivity.
        * destruct L7 as (loc & P & St).
          apply (IH false (add_command c s1) (hd ++ [shape c]) k first' s'); [|exact Hok | exact H].
          rewrite add_command_other by exact Nout.
          repeat split; simpl; auto; try congruence.
          -- intros sb Hsb. apply Subs1. unfold subs_of, slots_of in *. simpl in Hsb. rewrite Slk in Hsb. simpl in Hsb. exact Hsb.
          -- exists loc. split; [|congruence]. unfold prog_of. simpl. rewrite map_app. simpl.
             unfold prog_of in A4, P. rewrite A4, P. rewrite <- app_assoc. reflexivity.
      + rewrite A6 in Hok. apply (IH first s1 hd lo first' s'); [|exact Hok | exact H].
        repeat split; auto; try congruence.
        destruct first.
        * destruct L7 as (P & St & E). repeat split; congruence.
        * destruct L7 as (loc & P & St). exists loc. split; congruence.
  Qed.
End Stmts.

(* ---- classification of the attributes ---- *)
Definition ScanInv (sc : scan) : Prop :=
  NoDup (sc_tal sc) /\ NoDup (sc_metal sc) /\
  Forall (fun op => In op TAL_OPS) (sc_tal sc) /\ Forall (fun op => In op METAL_OPS) (sc_metal sc) /\
  (forall op, has_arg op sc = true <-> In op (sc_tal sc ++ sc_metal sc)).

Lemma assoc_nat_dict_set {A} k (v : A) l k' :
  assoc_nat k' (dict_set_nat k v l) = if Nat.eqb k k' then Some v else assoc_nat k' l.
Proof.
  induction l as [|[a b] r IH]; simpl.
  - reflexivity.
  - destruct (Nat.eqb a k) eqn:E; simpl.
    + apply Nat.eqb_eq in E. subst a. destruct (Nat.eqb k k'); reflexivity.
    + destruct (Nat.eqb a k') eqn:E2; [|exact IH].
      apply Nat.eqb_eq in E2. subst a. rewrite Nat.eqb_sym, E. reflexivity.
Qed.

Lemma assoc_str_in {A} k (l : list (str * A)) v : assoc_str k l = Some v -> In v (map snd l).
Proof.
  induction l as [|[a b] r IH]; simpl; [discriminate|]. destruct (str_eqb a k); [intros H; inversion H; now left | intros H; right; auto].
Qed.

Lemma NoDup_snoc {A} (l : list A) x : NoDup l -> ~ In x l -> NoDup (l ++ [x]).
Proof.
  intros N H. apply (Permutation_NoDup (l := x :: l)); [|now constructor].
  apply Permutation_cons_append.
Qed.

Lemma scan_atts_cons v talns prefix att value r sc :
  scan_atts v talns prefix ((att, value) :: r) sc =
  let orig := dict_set_str att value (sc_orig sc) in
  let cname := if talns && negb (has_prefix_colon att) then prefix ++ att else att in
  if str_eqb (firstn 5 att) (lit "xmlns"%string) then
    if str_eqb value METAL_URI || str_eqb value TAL_URI then CUnsupported
    else scan_atts v talns prefix r (mkScan orig (sc_tal sc) (sc_metal sc) (sc_args sc) (sc_clean sc ++ [(att, value)]))
  else
    match assoc_str cname tal_attribute_map with
    | Some op =>
        if Nat.eqb op OP_OMITTAG && talns then
          scan_atts v talns prefix r (mkScan orig (sc_tal sc) (sc_metal sc) (sc_args sc) (sc_clean sc))
        else if v_dup v && has_arg op sc then CErr
        else scan_atts v talns prefix r
               (mkScan orig (sc_tal sc ++ [op]) (sc_metal sc) (dict_set_nat op value (sc_args sc)) (sc_clean sc))
    | None =>
        match assoc_str cname metal_attribute_map with
        | Some op => if v_dup v && has_arg op sc then CErr
                     else scan_atts v talns prefix r
                       (mkScan orig (sc_tal sc) (sc_metal sc ++ [op]) (dict_set_nat op value (sc_args sc)) (sc_clean sc))
        | None => scan_atts v talns prefix r
                    (mkScan orig (sc_tal sc) (sc_metal sc) (sc_args sc) (sc_clean sc ++ [(att, value)]))
        end
    end.
Proof. reflexivity. Qed.

Lemma scan_atts_inv talns prefix : forall a sc sc',
  ScanInv sc -> scan_atts repaired talns prefix a sc = COk sc' -> ScanInv sc'.
Proof.
  induction a as [|[att value] r IH]; intros sc sc' I H.
  - simpl in H. apply COk_inj in H. now subst.
  - rewrite scan_atts_cons in H. cbv zeta in H.
    destruct (str_eqb (firstn 5 att) (lit "xmlns"%string)).
    + destruct (str_eqb value METAL_URI || str_eqb value TAL_URI); [discriminate|]. eapply IH; [|exact H]. exact I.
    + set (cname := if talns && negb (has_prefix_colon att) then prefix ++ att else att) in *.
      destruct I as (N1 & N2 & F1 & F2 & HA).
      destruct (assoc_str cname tal_attribute_map) as [op|] eqn:Et.
      * destruct (Nat.eqb op OP_OMITTAG && talns); [eapply IH; [|exact H]; exact (conj N1 (conj N2 (conj F1 (conj F2 HA))))|].
        simpl v_dup in H. destruct (has_arg op sc) eqn:Eh; [discriminate|]. simpl in H.
        apply (IH _ _) in H; [exact H|].
        assert (Hnot : ~ In op (sc_tal sc ++ sc_metal sc)) by (intros X; apply HA in X; congruence).
        repeat split; simpl; auto.
        -- apply NoDup_snoc; [exact N1|]. intros X. apply Hnot, in_or_app. now left.
        -- apply Forall_app. split; [exact F1|]. constructor; [|constructor].
           apply assoc_str_in in Et. simpl in Et. unfold TAL_OPS. simpl. tauto.
        -- unfold has_arg. simpl. rewrite assoc_nat_dict_set. destruct (Nat.eqb op op0) eqn:E.
           ++ intros _. apply Nat.eqb_eq in E. subst. rewrite <- app_assoc. apply in_or_app. right. now left.
           ++ intros X. assert (Y : has_arg op0 sc = true) by exact X. apply HA in Y.
              rewrite <- app_assoc. apply in_app_or in Y. apply in_or_app. destruct Y; [now left | right; now right].
        -- unfold has_arg. simpl. rewrite assoc_nat_dict_set. destruct (Nat.eqb op op0) eqn:E; [reflexivity|].
           intros X. apply (proj2 (HA op0)). rewrite <- app_assoc in X. apply in_app_or in X. apply in_or_app.
           destruct X as [X|[X|X]]; [now left | apply Nat.eqb_neq in E; congruence | now right].
      * destruct (assoc_str cname metal_attribute_map) as [op|] eqn:Em; [|eapply IH; [|exact H]; exact (conj N1 (conj N2 (conj F1 (conj F2 HA))))].
        simpl v_dup in H. destruct (has_arg op sc) eqn:Eh; [discriminate|]. simpl in H.
        apply (IH _ _) in H; [exact H|].
        assert (Hnot : ~ In op (sc_tal sc ++ sc_metal sc)) by (intros X; apply HA in X; congruence).
        repeat split; simpl; auto.
        -- apply NoDup_snoc; [exact N2|]. intros X. apply Hnot, in_or_app. now right.
        -- apply Forall_app. split; [exact F2|]. constructor; [|constructor].
           apply assoc_str_in in Em. simpl in Em. unfold METAL_OPS. simpl. tauto.
        -- unfold has_arg. simpl. rewrite assoc_nat_dict_set. destruct (Nat.eqb op op0) eqn:E.
           ++ intros _. apply Nat.eqb_eq in E. subst. rewrite app_assoc. apply in_or_app. right. now left.
           ++ intros X. assert (Y : has_arg op0 sc = true) by exact X. apply HA in Y.
              rewrite app_assoc. apply in_or_app. now left.
        -- unfold has_arg. simpl. rewrite assoc_nat_dict_set. destruct (Nat.eqb op op0) eqn:E; [reflexivity|].
           intros X. apply (proj2 (HA op0)). rewrite app_assoc in X. apply in_app_or in X.
           destruct X as [X|[X|[]]]; [exact X | apply Nat.eqb_neq in E; congruence].
Qed.

Lemma add_command_stack c s : cs_stack (add_command c s) = cs_stack s.
Proof. unfold add_command. destruct c; try reflexivity. destruct (cs_rcmds s) as [|[] ?]; reflexivity. Qed.

Lemma scan0_inv (b : bool) :
  ScanInv (if b then mkScan [] [OP_OMITTAG] [] [(OP_OMITTAG, [])] [] else mkScan [] [] [] [] []).
Proof.
  destruct b.
  - split; [|split; [|split; [|split]]]; simpl.
    + constructor; [intros []|constructor].
    + constructor.
    + constructor; [unfold TAL_OPS; simpl; tauto|constructor].
    + constructor.
    + intros op. destruct (Nat.eq_dec op 7) as [->|Hne].
      * split; intros _; [now left | reflexivity].
      * split; intros X.
        -- exfalso. unfold has_arg in X. simpl in X.
           destruct op as [|[|[|[|[|[|[|[|]]]]]]]]; try discriminate X. congruence.
        -- destruct X as [X|[]]. unfold OP_OMITTAG in X. congruence.
  - split; [|split; [|split; [|split]]]; simpl; try constructor.
    + intros X; discriminate X.
    + intros [].
Qed.

(* ---- parseStartTag ---- *)
Lemma parse_start_tag_inv tag a s s' :
  SInv (cs_stack s) s -> parse_start_tag repaired tag a s = COk s' -> SInv (cs_stack s') s'.
Proof.
  intros I H. unfold parse_start_tag in H.
  match type of H with context [scan_atts repaired ?tn ?px a ?sx] =>
    assert (I0 : ScanInv sx) by apply scan0_inv;
    destruct (scan_atts repaired tn px a sx) as [sc| |] eqn:Es; try discriminate H;
    pose proof (scan_atts_inv tn px a sx sc I0 Es) as (N1 & N2 & F1 & F2 & HA) end.
  simpl v_dup in H. simpl andb in H.
  destruct (has_arg OP_CONTENT sc && has_arg OP_REPLACE sc) eqn:E45; [discriminate|].
  assert (H45 : ~ (In 4%nat (sc_tal sc) /\ In 5%nat (sc_tal sc))).
  { intros [A B]. assert (X : has_arg OP_CONTENT sc = true) by (apply HA, in_or_app; now left).
    assert (Y : has_arg OP_REPLACE sc = true) by (apply HA, in_or_app; now left). rewrite X, Y in E45. discriminate. }
  (* the branch with statements *)
  assert (Gen : forall r,
    match compile_stmts repaired (ncmds (mkCS (cs_rcmds s) (cs_stack s) (cs_syms s) (cs_macros s) (S (cs_sym s))))
            (sort_nat (sc_metal sc) ++ sort_nat (sc_tal sc)) (sc_args sc) tag (sc_clean sc) (sc_orig sc) true
            (mkCS (cs_rcmds s) (cs_stack s) (cs_syms s) (cs_macros s) (S (cs_sym s))) with
    | COk (first, s2) =>
        if first then COk (add_tag tag (sc_clean sc) (sc_orig sc) (Some (S (cs_sym s))) (Some (CStartTag tag false)) s2)
        else COk (add_command (CStartTag tag false) s2)
    | CErr => CErr
    | CUnsupported => CUnsupported
    end = COk r -> SInv (cs_stack r) r).
  { intros r Hr.
    set (s1 := mkCS (cs_rcmds s) (cs_stack s) (cs_syms s) (cs_macros s) (S (cs_sym s))) in *.
    destruct (compile_stmts repaired (ncmds s1) _ _ _ _ _ true s1) as [[first s2]| |] eqn:Ec; try discriminate.
    assert (Hn : ncmds s1 = length (prog_of s)) by (rewrite prog_len; reflexivity).
    rewrite Hn in Ec.
    destruct (stmts_loop (prog_of s) (cs_syms s) (cs_stack s) (S (cs_sym s)) (subs_of s) tag (sc_clean sc) (sc_orig sc) (sc_args sc)
                (sort_nat (sc_metal sc) ++ sort_nat (sc_tal sc)) true s1 [] 0 first s2) as (hd & lo & L1 & L2 & L3 & L4 & L5 & L6 & L7); [| |exact Ec|].
    - unfold LS. split; [reflexivity|]. split; [reflexivity|]. split; [intros sb Hsb; now left|]. split; [reflexivity|].
      split; [constructor|]. split; [intros c k []|]. repeat split; reflexivity.
    - apply ops_ok_sorted; auto.
    - destruct first.
      + destruct L7 as (P & St & ->). apply COk_inj in Hr. subst r.
        unfold add_tag. rewrite add_command_other by (intros x; discriminate). rewrite add_command_other by (intros x; discriminate).
        simpl cs_stack. unfold SInv, prog_of, subs_of, slots_of. simpl.
        rewrite <- !app_assoc. simpl. rewrite map_app. simpl. fold (prog_of s2). rewrite P, L1, L2, St.
        apply (InvE_open (cs_stack s) (prog_of s) (cs_syms s) (cs_sym s) (subs_of s) _ _ (CStartScope [] []) [] (CStartTag [] false)); auto;
          try (intros c k []); try (intros sb Hsb; apply L3; exact Hsb).
      + destruct L7 as (loc & P & St). apply COk_inj in Hr. subst r.
        rewrite add_command_other by (intros x; discriminate).
        simpl cs_stack. unfold SInv, prog_of, subs_of, slots_of. simpl.
        rewrite map_app. simpl. fold (prog_of s2). rewrite P, L1, L2, St. rewrite <- app_assoc. simpl.
        apply (InvE_open (cs_stack s) (prog_of s) (cs_syms s) (cs_sym s) (subs_of s) _ _ (CStartScope [] []) hd (CStartTag [] false)); auto;
          try (intros sb Hsb; apply L3; exact Hsb). }
  destruct (sc_tal sc) as [|t0 tr] eqn:Et; [destruct (sc_metal sc) as [|m0 mr] eqn:Em|].
  - (* no TAL/METAL attribute at all *)
    apply COk_inj in H. subst s'. unfold add_tag. rewrite add_command_stack. simpl cs_stack.
    apply SInv_out. unfold SInv in *. apply InvE_plain_push; [reflexivity | exact I].
  - apply Gen. exact H.
  - apply Gen. exact H.
Qed.

(* ---- events ---- *)
Lemma handle_starttag_inv tag a s s' :
  SInv (cs_stack s) s -> handle_starttag repaired tag a s = COk s' -> SInv (cs_stack s') s'.
Proof.
  intros I H. unfold handle_starttag in H.
  destruct (parse_start_tag repaired tag (norm_atts a) s) as [s1| |] eqn:E; try discriminate.
  pose proof (parse_start_tag_inv _ _ _ _ I E) as I1.
  destruct (forbidden_endtag tag); [|apply COk_inj in H; now subst].
  unfold pop_tag in H. eapply pop_tag_loop_inv; eauto.
Qed.

Lemma handle_endtag_inv tag s s' :
  SInv (cs_stack s) s -> handle_endtag tag s = COk s' -> SInv (cs_stack s') s'.
Proof.
  intros I H. unfold handle_endtag in H. destruct (forbidden_endtag tag); [apply COk_inj in H; now subst|].
  unfold pop_tag in H. eapply pop_tag_loop_inv; eauto.
Qed.

Lemma handle_event_inv ev s s' :
  SInv (cs_stack s) s -> handle_event repaired ev s = COk s' -> SInv (cs_stack s') s'.
Proof.
  intros I H. destruct ev as [tag a|tag a|tag|d cd|d|d|d]; cbn [handle_event] in H.
  - eapply handle_starttag_inv; eauto.
  - destruct (handle_starttag repaired tag a s) as [s1| |] eqn:E; try discriminate.
    pose proof (handle_starttag_inv _ _ _ _ I E) as I1.
    destruct (forbidden_endtag tag); [apply COk_inj in H; now subst|]. eapply handle_endtag_inv; eauto.
  - eapply handle_endtag_inv; eauto.
  - apply COk_inj in H. subst s'. rewrite add_command_stack. now apply SInv_out.
  - apply COk_inj in H. subst s'. rewrite add_command_stack. now apply SInv_out.
  - apply COk_inj in H. subst s'. rewrite add_command_stack. now apply SInv_out.
  - apply COk_inj in H. subst s'. rewrite add_command_stack. now apply SInv_out.
Qed.

Lemma handle_events_inv : forall evs s s',
  SInv (cs_stack s) s -> handle_events repaired evs s = COk s' -> SInv (cs_stack s') s'.
Proof.
  induction evs as [|ev r IH]; intros s s' I H; simpl in H.
  - apply COk_inj in H. now subst.
  - destruct (handle_event repaired ev s) as [s1| |] eqn:E; try discriminate.
    eapply IH; [|exact H]. eapply handle_event_inv; eauto.
Qed.

Lemma SInv_initial : SInv (cs_stack cs0) cs0.
Proof.
  exists [], [], []. split; [|split; [|split; [|split; [|split]]]]; simpl.
  - split; [reflexivity|]. split; [apply wsi_nil | exact I].
  - reflexivity.
  - constructor.
  - intros k [].
  - intros k v H. discriminate H.
  - intros sb [].
Qed.

Lemma talsyms_nil stk :
  existsb (fun t => match te_sym t with Some _ => true | None => false end) stk = false -> talsyms stk = [].
Proof.
  induction stk as [|t r IH]; simpl; [reflexivity|]. unfold talsyms. simpl.
  destruct (te_sym t); simpl; [discriminate|]. exact IH.
Qed.

(* every program the repaired compiler emits is structurally well formed *)
Theorem compile_wf : compile_wf_statement.
Proof.
  unfold compile_wf_statement. intros es p t m H. unfold compile in H.
  destruct (handle_events repaired es cs0) as [s| |] eqn:E; try discriminate.
  simpl v_eof in H. simpl andb in H.
  destruct (existsb _ (cs_stack s)) eqn:Ex; [discriminate|].
  apply COk_inj in H. inversion H; subst p t m. clear H.
  pose proof (handle_events_inv es cs0 s SInv_initial E) as I.
  destruct (InvE_final _ _ _ _ _ (talsyms_nil _ Ex) I) as (spans & W & Hs).
  apply (wf_program_complete _ _ _ spans).
  - exact W.
  - intros sb Hsb. apply Hs. unfold all_subs in Hsb. unfold subs_of, slots_of.
    apply in_app_or in Hsb. apply in_or_app. destruct Hsb as [Hsb|Hsb]; [now left | right].
    unfold prog_slots in Hsb. apply in_flat_map in Hsb. destruct Hsb as (c & Hc & Hsb).
    apply in_flat_map. exists c. split; [now apply in_rev | exact Hsb].
Qed.

(* hence the scope discipline holds for whatever the compiler accepts *)
Corollary context_restored_compiled :
  forall (es : list event) (p : program) (t : symtab) (m : macrotab), compile repaired es = COk (p, (t, m)) ->
  forall (D : Type) o_cond o_rep o_val o_mac o_upd (fuel : nat) (c : ctx) (d : D),
    vm_run p t (all_subs p m) D o_cond o_rep o_val o_mac o_upd fuel c d <> Stuck /\
    forall mf, vm_run p t (all_subs p m) D o_cond o_rep o_val o_mac o_upd fuel c d = Done mf ->
      c_sc (cx D mf) = c_sc c /\ sstack D mf = [] /\ pc D mf = length p.
Proof. intros es p t m H. apply context_restored. exact (compile_wf es p t m H). Qed.
