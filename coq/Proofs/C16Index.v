(* C16Index.v — phase 1 of populate_cache (directory synthesis, files, links
   collected): the index is a tree whose inodes are in bijection with the
   directory prefixes and the file names of the members processed so far. *)
From Coq Require Import Arith Lia.
From PG Require Import Lib.Str Lib.StrFacts Lib.ZipPath Proofs.ZipPathFacts Model.Zip.
Local Open Scope nat_scope.

Ltac splits := repeat match goal with |- _ /\ _ => split end.

(* ---------- the edge list ---------- *)
Lemma ekey_eqb_eq a b : ekey_eqb a b = true <-> a = b.
Proof.
  destruct a as [a1 a2], b as [b1 b2]. unfold ekey_eqb. simpl.
  rewrite andb_true_iff, Nat.eqb_eq, str_eqb_eq. split; [intros [-> ->]; reflexivity|intros [= -> ->]; auto].
Qed.
Lemma ekey_eqb_refl a : ekey_eqb a a = true.
Proof. now apply ekey_eqb_eq. Qed.
Lemma ekey_eqb_neq a b : ekey_eqb a b = false <-> a <> b.
Proof.
  split; intro H.
  - intro E. apply ekey_eqb_eq in E. congruence.
  - destruct (ekey_eqb a b) eqn:E; [apply ekey_eqb_eq in E; contradiction|reflexivity].
Qed.

Lemma eget_In k v E : eget k E = Some v -> In (k, v) E.
Proof.
  induction E as [|[k' v'] E IH]; simpl; [discriminate|].
  destruct (ekey_eqb k k') eqn:Q.
  - intros [= <-]. apply ekey_eqb_eq in Q. subst. now left.
  - intros H. right. now apply IH.
Qed.

Lemma eget_app_some k E E' v : eget k E = Some v -> eget k (E ++ E') = Some v.
Proof.
  induction E as [|[k' v'] E IH]; simpl; [discriminate|].
  destruct (ekey_eqb k k'); [trivial|exact IH].
Qed.

Lemma eget_app_none k E E' : eget k E = None -> eget k (E ++ E') = eget k E'.
Proof.
  induction E as [|[k' v'] E IH]; simpl; [reflexivity|].
  destruct (ekey_eqb k k'); [discriminate|exact IH].
Qed.

Lemma eset_fresh k v E : eget k E = None -> eset k v E = E ++ [(k, v)].
Proof.
  induction E as [|[k' v'] E IH]; simpl; [reflexivity|].
  destruct (ekey_eqb k k'); [discriminate|]. intros H. now rewrite IH.
Qed.

Lemma eget_snoc_same k v E : eget k E = None -> eget k (E ++ [(k, v)]) = Some v.
Proof. intros H. rewrite eget_app_none by exact H. simpl. now rewrite ekey_eqb_refl. Qed.

Lemma eget_snoc_other k k' v E : k <> k' -> eget k (E ++ [(k', v)]) = eget k E.
Proof.
  intros H. destruct (eget k E) eqn:Q.
  - now apply eget_app_some.
  - rewrite eget_app_none by exact Q. simpl. apply ekey_eqb_neq in H. now rewrite H.
Qed.

(* ---------- walk ---------- *)
Lemma walk_app t a p q :
  walk t a (p ++ q) = match walk t a p with Some i => walk t i q | None => None end.
Proof.
  revert a; induction p as [|x p IH]; intros a; simpl; [reflexivity|].
  destruct (nth_error (t_kinds t) a) as [[|]|]; try reflexivity.
  destruct (eget (a, x) (t_edges t)); [apply IH|reflexivity].
Qed.

Lemma walk_step t a k :
  walk t a [k] = match nth_error (t_kinds t) a with
                 | Some IDir => eget (a, k) (t_edges t)
                 | _ => None
                 end.
Proof. simpl. destruct (nth_error (t_kinds t) a) as [[|]|]; try reflexivity. now destruct (eget (a, k) (t_edges t)). Qed.

(* t' extends t: inodes are only added, existing entries keep their value *)
Definition ext (t t' : tbl) : Prop :=
  (exists K, t_kinds t' = t_kinds t ++ K) /\
  (forall k v, eget k (t_edges t) = Some v -> eget k (t_edges t') = Some v).

Lemma ext_refl t : ext t t.
Proof. split; [exists []; now rewrite app_nil_r|auto]. Qed.
Lemma ext_trans a b c : ext a b -> ext b c -> ext a c.
Proof.
  intros [[K1 H1] E1] [[K2 H2] E2]. split.
  - exists (K1 ++ K2). now rewrite H2, H1, app_assoc.
  - auto.
Qed.
Lemma ext_kind t t' i x : ext t t' -> nth_error (t_kinds t) i = Some x -> nth_error (t_kinds t') i = Some x.
Proof.
  intros [[K H] _] Hx. rewrite H. rewrite nth_error_app1; [exact Hx|].
  apply nth_error_Some. congruence.
Qed.
Lemma walk_ext t t' a p i : ext t t' -> walk t a p = Some i -> walk t' a p = Some i.
Proof.
  intros He. revert a; induction p as [|x p IH]; intros a; simpl; [trivial|].
  destruct (nth_error (t_kinds t) a) as [[|]|] eqn:Hk; try discriminate.
  rewrite (ext_kind _ _ _ _ He Hk).
  destruct (eget (a, x) (t_edges t)) as [j|] eqn:Hg; [|discriminate].
  destruct He as [HK HE]. rewrite (HE _ _ Hg). apply IH.
Qed.

Lemma nth_error_snoc {A} (l : list A) x : nth_error (l ++ [x]) (length l) = Some x.
Proof. rewrite nth_error_app2 by lia. now rewrite Nat.sub_diag. Qed.
Lemma nth_error_app_some {A} (l l' : list A) i x : nth_error l i = Some x -> nth_error (l ++ l') i = Some x.
Proof. intros H. rewrite nth_error_app1; [exact H|]. apply nth_error_Some. congruence. Qed.

(* ---------- the ghost: every inode has a path ---------- *)
Record ginv (t : tbl) (P : list (list str)) : Prop := mk_ginv {
  g_len : length P = length (t_kinds t);
  g_root : nth_error P 0 = Some [] /\ nth_error (t_kinds t) 0 = Some IDir;
  g_edge : forall a k j, In ((a, k), j) (t_edges t) ->
      comp_ok k /\ nth_error (t_kinds t) a = Some IDir /\
      exists pa, nth_error P a = Some pa /\ nth_error P j = Some (pa ++ [k]);
  g_reach : forall i p, nth_error P i = Some p -> walk t 0 p = Some i
}.

Lemma ginv0 : ginv tbl0 [[]].
Proof.
  split; simpl; auto.
  - intros a k j [].
  - intros [|i] p; simpl; [intros [= <-]; reflexivity|destruct i; discriminate].
Qed.

(* a successful walk from the root ends at the inode that owns that path *)
Lemma walk_path t P p i : ginv t P -> walk t 0 p = Some i -> nth_error P i = Some p.
Proof.
  intros G. revert i. induction p as [|k p IH] using rev_ind; intros i.
  - simpl. intros [= <-]. apply G.
  - rewrite walk_app. destruct (walk t 0 p) as [a|] eqn:Ha; [|discriminate].
    rewrite walk_step. destruct (nth_error (t_kinds t) a) as [[|]|]; try discriminate.
    intros Hg. apply eget_In in Hg. destruct (g_edge _ _ G _ _ _ Hg) as (_ & _ & pa & Hpa & Hpj).
    rewrite (IH a eq_refl) in Hpa. now inversion Hpa; subst.
Qed.

Lemma walk_inj t P p q i : ginv t P -> walk t 0 p = Some i -> walk t 0 q = Some i -> p = q.
Proof. intros G H1 H2. apply (walk_path _ _ _ _ G) in H1, H2. congruence. Qed.

Lemma walk_comps_ok t a p i : (forall a k j, In ((a, k), j) (t_edges t) -> comp_ok k) -> walk t a p = Some i -> Forall comp_ok p.
Proof.
  intros L. revert a; induction p as [|x p IH]; intros a; simpl; [constructor|].
  destruct (nth_error (t_kinds t) a) as [[|]|]; try discriminate.
  destruct (eget (a, x) (t_edges t)) as [j|] eqn:Hg; [|discriminate].
  intros H. constructor; [apply eget_In in Hg; eapply L; eauto|eapply IH; eauto].
Qed.

(* a fresh inode hung below directory c under a name that c does not have yet *)
Lemma ginv_add t P c pc l x :
  ginv t P -> nth_error P c = Some pc -> nth_error (t_kinds t) c = Some IDir ->
  eget (c, l) (t_edges t) = None -> comp_ok l ->
  let n := length (t_kinds t) in
  let t1 := mkt (t_kinds t ++ [x]) (t_edges t ++ [((c, l), n)]) in
  ginv t1 (P ++ [pc ++ [l]]) /\ ext t t1 /\
  nth_error (P ++ [pc ++ [l]]) n = Some (pc ++ [l]) /\ nth_error (t_kinds t1) n = Some x.
Proof.
  intros G Hpc Hkc Hg Hl n t1.
  assert (Hlen : length P = n) by apply G.
  assert (E1 : ext t t1).
  { split; [now exists [x]|]. intros k v H. now apply eget_app_some. }
  splits; [|exact E1|rewrite <- Hlen; apply nth_error_snoc|unfold t1, n; simpl; apply nth_error_snoc].
  split.
  - unfold t1. simpl. rewrite !app_length. simpl. now rewrite (g_len _ _ G).
  - destruct (g_root _ _ G) as [R1 R2]. split; [now apply nth_error_app_some|now apply nth_error_app_some].
  - intros a k j HI. simpl in HI. apply in_app_or in HI as [HI|[HI|[]]].
    + destruct (g_edge _ _ G _ _ _ HI) as (Q1 & Q2 & pa & Q3 & Q4).
      splits; [exact Q1|now apply nth_error_app_some|].
      exists pa. split; now apply nth_error_app_some.
    + inversion HI; subst a k j. splits; [exact Hl|now apply nth_error_app_some|].
      exists pc. split; [now apply nth_error_app_some|]. rewrite <- Hlen. apply nth_error_snoc.
  - intros i p Hp.
    destruct (lt_dec i (length P)) as [Hlt|Hge].
    + rewrite nth_error_app1 in Hp by exact Hlt. eapply walk_ext; [exact E1|]. now apply (g_reach _ _ G).
    + rewrite nth_error_app2 in Hp by lia.
      destruct (i - length P) as [|d] eqn:Hd; [|destruct d; discriminate].
      simpl in Hp. inversion Hp; subst p. assert (i = n) by lia. subst i.
      rewrite walk_app. rewrite (walk_ext _ _ _ _ _ E1 (g_reach _ _ G _ _ Hpc)).
      rewrite walk_step. rewrite (ext_kind _ _ _ _ E1 Hkc). unfold t1. simpl.
      now apply eget_snoc_same.
Qed.

(* ---------- mkdirp ---------- *)
(* what one mkdirp call (and later: one step) may change *)
Record grows (t : tbl) (P : list (list str)) (t' : tbl) (P' : list (list str)) : Prop := mk_grows {
  gr_ext : ext t t';
  gr_P : exists Q, P' = P ++ Q
}.
Lemma grows_refl t P : grows t P t P.
Proof. split; [apply ext_refl|exists []; now rewrite app_nil_r]. Qed.
Lemma grows_trans t P t1 P1 t2 P2 : grows t P t1 P1 -> grows t1 P1 t2 P2 -> grows t P t2 P2.
Proof.
  intros [E1 [Q1 H1]] [E2 [Q2 H2]]. split; [eapply ext_trans; eauto|].
  exists (Q1 ++ Q2). now rewrite H2, H1, app_assoc.
Qed.
Lemma grows_path t P t' P' i p : grows t P t' P' -> nth_error P i = Some p -> nth_error P' i = Some p.
Proof. intros [_ [Q ->]] H. now apply nth_error_app_some. Qed.

Definition is_file_inode (t : tbl) (i : nat) : Prop := exists k, nth_error (t_kinds t) i = Some (IFile k).

Lemma mkdirp_spec levels : forall t P c pc,
  ginv t P -> nth_error P c = Some pc -> nth_error (t_kinds t) c = Some IDir ->
  Forall comp_ok levels ->
  (* no file sits on the way *)
  (forall i p, nth_error P i = Some p -> is_file_inode t i -> path_prefixb p (pc ++ levels) = false) ->
  exists t' P' c',
    mkdirp t c levels = Ok (t', c') /\ ginv t' P' /\ grows t P t' P' /\
    nth_error P' c' = Some (pc ++ levels) /\ nth_error (t_kinds t') c' = Some IDir /\
    (* every new inode is a directory on the way *)
    (forall i p, nth_error P' i = Some p -> nth_error P i = None ->
        nth_error (t_kinds t') i = Some IDir /\ exists q, q <> [] /\ path_prefixb q levels = true /\ p = pc ++ q) /\
    (* and every directory on the way exists now *)
    (forall q, path_prefixb q levels = true -> exists i, nth_error P' i = Some (pc ++ q) /\ nth_error (t_kinds t') i = Some IDir).
Proof.
  induction levels as [|l r IH]; intros t P c pc G Hpc Hkc Hok Hnf.
  - exists t, P, c. simpl. rewrite app_nil_r. splits; auto using grows_refl.
    + intros i p H1 H2. congruence.
    + intros q Hq. destruct q; [|discriminate]. rewrite app_nil_r. now exists c.
  - inversion Hok as [|? ? Hl Hr]; subst. simpl. rewrite Hkc.
    destruct (eget (c, l) (t_edges t)) as [j|] eqn:Hg.
    + (* the level exists *)
      pose proof (eget_In _ _ _ Hg) as HI.
      destruct (g_edge _ _ G _ _ _ HI) as (_ & _ & pa & Hpa & Hpj).
      rewrite Hpc in Hpa. inversion Hpa; subst pa.
      assert (Hkj : nth_error (t_kinds t) j = Some IDir).
      { destruct (nth_error (t_kinds t) j) as [[|k]|] eqn:Hk; [reflexivity| |].
        - exfalso. assert (F : path_prefixb (pc ++ [l]) (pc ++ l :: r) = false)
            by (apply (Hnf j); [exact Hpj|now exists k]).
          assert (T : path_prefixb (pc ++ [l]) (pc ++ l :: r) = true)
            by (apply path_prefixb_spec; exists r; now rewrite <- app_assoc).
          congruence.
        - exfalso. apply nth_error_None in Hk. assert (j < length P) by (apply nth_error_Some; congruence).
          rewrite (g_len _ _ G) in H. lia. }
      destruct (IH t P j (pc ++ [l]) G Hpj Hkj Hr) as (t' & P' & c' & Hm & G' & Gr & Hc' & Hkc' & Hnew & Hall).
      { intros i p Hp Hf. rewrite <- app_assoc. simpl. now apply (Hnf i). }
      exists t', P', c'. rewrite <- app_assoc in Hc'. simpl in Hc'.
      splits; auto.
      * intros i p H H0. destruct (Hnew i p H H0) as (Hk' & q & Hq1 & Hq2 & ->). split; [exact Hk'|].
        exists (l :: q). splits; [discriminate|simpl; now rewrite str_eqb_refl|now rewrite <- app_assoc].
      * intros q Hq. destruct q as [|x q].
        { rewrite app_nil_r. exists c. split; [eapply grows_path; eauto|eapply ext_kind; [apply Gr|exact Hkc]]. }
        simpl in Hq. apply andb_true_iff in Hq as [Hx Hq]. apply str_eqb_eq in Hx. subst x.
        destruct (Hall q Hq) as (i & Hi1 & Hi2). exists i. rewrite <- app_assoc in Hi1. now split.
    + (* a new directory inode *)
      set (n := length (t_kinds t)).
      set (t1 := mkt (t_kinds t ++ [IDir]) (t_edges t ++ [((c, l), n)])).
      set (P1 := P ++ [pc ++ [l]]).
      assert (Hlen : length P = n) by apply G.
      destruct (ginv_add t P c pc l IDir G Hpc Hkc Hg Hl) as (G1 & E1 & Hpn & Hkn).
      fold n in G1, E1, Hpn, Hkn. fold t1 in G1, E1, Hkn. fold P1 in G1, Hpn.
      destruct (IH t1 P1 n (pc ++ [l]) G1 Hpn Hkn Hr) as (t' & P' & c' & Hm & G' & Gr & Hc' & Hkc' & Hnew & Hall).
      { intros i p Hp [k Hf]. rewrite <- app_assoc. simpl.
        unfold P1 in Hp. destruct (lt_dec i (length P)) as [Hlt|Hge].
        - rewrite nth_error_app1 in Hp by exact Hlt. apply (Hnf i); [exact Hp|]. exists k.
          unfold t1 in Hf. simpl in Hf. rewrite nth_error_app1 in Hf by (rewrite <- (g_len _ _ G); exact Hlt). exact Hf.
        - exfalso. unfold t1 in Hf. simpl in Hf. rewrite nth_error_app2 in Hf by (rewrite <- (g_len _ _ G); lia).
          rewrite <- (g_len _ _ G) in Hf. destruct (i - length P) as [|d]; [discriminate|destruct d; discriminate]. }
      fold n. fold t1. exists t', P', c'. rewrite <- app_assoc in Hc'. simpl in Hc'.
      assert (Gr0 : grows t P t1 P1) by (split; [exact E1|now exists [pc ++ [l]]]).
      splits; auto.
      * eapply grows_trans; eauto.
      * intros i p H H0. destruct (nth_error P1 i) as [p1|] eqn:Hp1.
        { (* the inode created here *)
          pose proof (grows_path _ _ _ _ _ _ Gr Hp1) as Hp'. rewrite H in Hp'. inversion Hp'; subst p1.
          unfold P1 in Hp1. rewrite nth_error_app2 in Hp1 by (apply nth_error_None; exact H0).
          assert (i = n).
          { apply nth_error_None in H0. destruct (i - length P) as [|d] eqn:Hd; [lia|destruct d; discriminate]. }
          subst i. split; [eapply ext_kind; [apply Gr|exact Hkn]|].
          rewrite Hlen, Nat.sub_diag in Hp1. simpl in Hp1. inversion Hp1; subst p.
          exists [l]. splits; [discriminate|simpl; now rewrite str_eqb_refl|reflexivity]. }
        destruct (Hnew i p H Hp1) as (Hk' & q & Hq1 & Hq2 & ->). split; [exact Hk'|].
        exists (l :: q). splits; [discriminate|simpl; now rewrite str_eqb_refl|now rewrite <- app_assoc].
      * intros q Hq. destruct q as [|x q].
        { rewrite app_nil_r. exists c. split.
          - eapply grows_path; [apply Gr|]. eapply grows_path; [apply Gr0|exact Hpc].
          - eapply ext_kind; [apply Gr|]. eapply ext_kind; [exact E1|exact Hkc]. }
        simpl in Hq. apply andb_true_iff in Hq as [Hx Hq]. apply str_eqb_eq in Hx. subst x.
        destruct (Hall q Hq) as (i & Hi1 & Hi2). exists i. rewrite <- app_assoc in Hi1. now split.
Qed.

(* ---------- what the members say ---------- *)
Lemma is_dirpath_app_l a b p : is_dirpath a p -> is_dirpath (a ++ b) p.
Proof. intros [->|(m & Hm & Hp)]; [now left|right]. exists m. split; [apply in_or_app; now left|exact Hp]. Qed.
Lemma is_dirpath_snoc_inv a m p :
  is_dirpath (a ++ [m]) p -> is_dirpath a p \/ path_prefixb p (name_levels (m_name m)) = true.
Proof.
  intros [->|(m' & Hm & Hp)]; [left; now left|].
  apply in_app_or in Hm as [Hm|[<-|[]]]; [left; right; now exists m'|now right].
Qed.
Lemma is_entry_app_l a b k p : is_entry a k p -> is_entry (a ++ b) k p.
Proof. intros (m & H1 & H2 & H3). exists m. split; [now apply nth_error_app_some|now split]. Qed.
Lemma is_entry_snoc_inv a m k p :
  is_entry (a ++ [m]) k p -> is_entry a k p \/ (k = length a /\ is_link m = false /\ entry_path m = Some p).
Proof.
  intros (m' & H1 & H2 & H3).
  destruct (lt_dec k (length a)) as [Hlt|Hge].
  - left. rewrite nth_error_app1 in H1 by exact Hlt. now exists m'.
  - right. rewrite nth_error_app2 in H1 by lia.
    destruct (k - length a) as [|d] eqn:Hd; [|destruct d; discriminate].
    simpl in H1. inversion H1; subst m'. splits; auto. lia.
Qed.

Record cinv (dm fm : list member) (t : tbl) (P : list (list str)) : Prop := mk_cinv {
  c_dir_sound : forall i p, nth_error (t_kinds t) i = Some IDir -> nth_error P i = Some p -> is_dirpath dm p;
  c_dir_complete : forall p, is_dirpath dm p ->
      exists i, nth_error P i = Some p /\ nth_error (t_kinds t) i = Some IDir;
  c_file_sound : forall i k p, nth_error (t_kinds t) i = Some (IFile k) -> nth_error P i = Some p -> is_entry fm k p;
  c_file_complete : forall k p, is_entry fm k p ->
      exists i, nth_error P i = Some p /\ nth_error (t_kinds t) i = Some (IFile k)
}.

Lemma cinv0 : cinv [] [] tbl0 [[]].
Proof.
  split.
  - intros [|i] p; simpl; [intros _ [= <-]; now left|destruct i; discriminate].
  - intros p [->|(m & [] & _)]. now exists 0.
  - intros [|i] k p; simpl; [discriminate|destruct i; discriminate].
  - intros k p (m & H & _). destruct k; discriminate.
Qed.

(* ---------- well-formedness, member by member ---------- *)
Definition compat (done : list member) (m : member) : Prop :=
  name_ok m = true /\ forall m', In m' done -> no_clash m' m = true /\ no_clash m m' = true.

Lemma In_removelast {A} (l : list A) x : In x (removelast l) -> In x l.
Proof.
  induction l as [|a l IH]; simpl; [trivial|].
  destruct l as [|b l]; [intros []|]. intros [->|H]; [now left|right; now apply IH].
Qed.
Lemma last_In {A} (l : list A) d : l <> [] -> In (last l d) l.
Proof.
  induction l as [|a l IH]; [congruence|]. intros _. destruct l as [|b l]; [now left|].
  right. apply IH. discriminate.
Qed.

Lemma plain_comp_ok c : plain_comp c = true -> c <> [].
Proof. unfold plain_comp. rewrite !andb_true_iff. intros [[H _] _]. now apply nonempty_true. Qed.

Lemma name_ok_levels m :
  name_ok m = true ->
  name_levels (m_name m) = raw_levels (m_name m) /\ Forall comp_ok (name_levels (m_name m)).
Proof.
  unfold name_ok. rewrite andb_true_iff. intros [H _].
  assert (E : name_levels (m_name m) = raw_levels (m_name m)).
  { unfold name_levels, raw_levels in *. induction (removelast (split_on SL (m_name m))) as [|x l IH]; [reflexivity|].
    simpl in *. apply andb_true_iff in H as [Hx Hl]. apply plain_comp_ok in Hx as Hx'.
    apply nonempty_true in Hx'. rewrite Hx'. now rewrite IH. }
  split; [exact E|]. rewrite E. apply Forall_forall. intros x Hx. split.
  - apply (split_fields_no_sl (m_name m)). now apply In_removelast.
  - apply plain_comp_ok. rewrite forallb_forall in H. now apply H.
Qed.

Lemma base_no_sl name : no_sl (name_base name).
Proof.
  unfold name_base. apply (split_fields_no_sl name). apply last_In. apply split_on_nonempty.
Qed.

Lemma name_ok_kdir m : name_ok m = true -> m_kind m = KDir -> name_base (m_name m) = [].
Proof.
  unfold name_ok. rewrite andb_true_iff. intros [_ H] Hk. rewrite Hk in H.
  apply andb_true_iff in H as [H _]. now apply is_nil_true.
Qed.

Lemma all_pairs_mid {A} (f : A -> A -> bool) a m b :
  all_pairs f (a ++ m :: b) = true -> forall x, In x a -> f x m = true /\ f m x = true.
Proof.
  induction a as [|y a IH]; simpl; [intros _ x []|].
  rewrite andb_true_iff. intros [H1 H2] x [<-|Hx]; [|now apply IH].
  rewrite forallb_forall in H1. assert (Hin : In m (a ++ m :: b)) by (apply in_or_app; right; now left).
  specialize (H1 m Hin). now apply andb_true_iff in H1.
Qed.

Lemma wf_zip_compat a m b : wf_zip (a ++ m :: b) = true -> compat a m.
Proof.
  unfold wf_zip. rewrite andb_true_iff. intros [H1 H2]. split.
  - rewrite forallb_forall in H1. apply H1. apply in_or_app. right. now left.
  - intros m' Hm'. now apply (all_pairs_mid _ _ _ _ H2).
Qed.

(* ---------- pending links ---------- *)
Definition link_member (m : member) : bool := is_link m && nonempty (name_base (m_name m)).
Definition links_of (ms : list member) : list member := filter link_member ms.

Definition pend_of (v : variant) (t : tbl) (P : list (list str)) (m : member) (p : pend) : Prop :=
  m_kind m = KLink (p_dest p) /\ p_fname p = name_base (m_name m) /\ p_fname p <> [] /\
  p_path p = (if v_base_name v then m_name m else m_oname m) /\
  nth_error P (p_dir p) = Some (name_levels (m_name m)) /\
  nth_error (t_kinds t) (p_dir p) = Some IDir.
Definition pinv (v : variant) (done : list member) (t : tbl) (P : list (list str)) (ps : list pend) : Prop :=
  Forall2 (pend_of v t P) (links_of done) ps.

Lemma pend_of_grows v t P t' P' m p : grows t P t' P' -> pend_of v t P m p -> pend_of v t' P' m p.
Proof.
  intros Gr (H1 & H2 & H3 & H4 & H5 & H6). unfold pend_of. splits; auto.
  - eapply grows_path; eauto.
  - eapply ext_kind; [apply Gr|exact H6].
Qed.
Lemma Forall2_mono {A B} (R R' : A -> B -> Prop) l l' :
  (forall a b, R a b -> R' a b) -> Forall2 R l l' -> Forall2 R' l l'.
Proof. intros H F. induction F; constructor; auto. Qed.
Lemma pinv_grows v done t P t' P' ps : grows t P t' P' -> pinv v done t P ps -> pinv v done t' P' ps.
Proof. intros Gr H. eapply Forall2_mono; [|exact H]. intros a b. now apply pend_of_grows. Qed.

Lemma links_of_snoc done m : links_of (done ++ [m]) = links_of done ++ (if link_member m then [m] else []).
Proof. unfold links_of. rewrite filter_app. simpl. now destruct (link_member m). Qed.

(* ---------- one member ---------- *)
Lemma old_kind t P t' P' i p x :
  ginv t P -> grows t P t' P' -> nth_error P i = Some p -> nth_error (t_kinds t') i = Some x ->
  nth_error (t_kinds t) i = Some x.
Proof.
  intros G Gr Hp Hx. assert (Hlt : i < length (t_kinds t)).
  { rewrite <- (g_len _ _ G). apply nth_error_Some. congruence. }
  destruct (nth_error (t_kinds t) i) as [y|] eqn:Hy; [|apply nth_error_None in Hy; lia].
  rewrite (ext_kind _ _ _ _ (gr_ext _ _ _ _ Gr) Hy) in Hx. congruence.
Qed.

Lemma step1_spec v done t P ps m :
  ginv t P -> cinv done done t P -> pinv v done t P ps -> compat done m ->
  exists t' P' ps',
    step1 v (length done) t ps m = Ok (t', ps') /\
    ginv t' P' /\ cinv (done ++ [m]) (done ++ [m]) t' P' /\ pinv v (done ++ [m]) t' P' ps' /\ grows t P t' P'.
Proof.
  intros G C PI [Hok Hcl].
  destruct (name_ok_levels m Hok) as [Hraw Hlev].
  set (levels := name_levels (m_name m)) in *.
  set (b := name_base (m_name m)).
  destruct (g_root _ _ G) as [R1 R2].
  destruct (mkdirp_spec levels t P 0 [] G R1 R2 Hlev) as (t1 & P1 & c & Hm & G1 & Gr1 & Hc & Hkc & Hnew & Hall).
  { intros i p Hp [k Hf]. simpl. destruct (c_file_sound _ _ _ _ C _ _ _ Hf Hp) as (m' & Hn & Hl & He).
    destruct (Hcl m' (nth_error_In _ _ Hn)) as [H1 _]. unfold no_clash in H1. rewrite He in H1.
    apply andb_true_iff in H1 as [H1 _]. now apply negb_true_iff in H1. }
  simpl in Hc.
  assert (C1 : cinv (done ++ [m]) done t1 P1).
  { split.
    - intros i p Hk Hp. destruct (nth_error P i) as [p0|] eqn:HPi.
      + rewrite (grows_path _ _ _ _ _ _ Gr1 HPi) in Hp. inversion Hp; subst p0.
        apply is_dirpath_app_l. eapply (c_dir_sound _ _ _ _ C); [|exact HPi]. eapply old_kind; eauto.
      + destruct (Hnew i p Hp HPi) as (_ & q & _ & Hq & ->). right. exists m.
        split; [apply in_or_app; right; now left|exact Hq].
    - intros p Hp. apply is_dirpath_snoc_inv in Hp as [Hp|Hp].
      + destruct (c_dir_complete _ _ _ _ C _ Hp) as (i & Hi1 & Hi2). exists i.
        split; [eapply grows_path; eauto|eapply ext_kind; [apply Gr1|exact Hi2]].
      + apply (Hall p Hp).
    - intros i k p Hk Hp. destruct (nth_error P i) as [p0|] eqn:HPi.
      + rewrite (grows_path _ _ _ _ _ _ Gr1 HPi) in Hp. inversion Hp; subst p0.
        eapply (c_file_sound _ _ _ _ C); [|exact HPi]. eapply old_kind; eauto.
      + destruct (Hnew i p Hp HPi) as (Hd & _). congruence.
    - intros k p Hp. destruct (c_file_complete _ _ _ _ C _ _ Hp) as (i & Hi1 & Hi2). exists i.
      split; [eapply grows_path; eauto|eapply ext_kind; [apply Gr1|exact Hi2]]. }
  unfold step1. fold levels. rewrite Hm. fold b.
  destruct (is_nil b) eqn:Hb.
  - (* explicit directory member *)
    exists t1, P1, ps. splits; auto.
    + split; [apply C1|apply C1| |].
      * intros i k p Hk Hp. apply is_entry_app_l. eapply (c_file_sound _ _ _ _ C1); eauto.
      * intros k p Hp. apply is_entry_snoc_inv in Hp as [Hp|(_ & _ & He)]; [now apply (c_file_complete _ _ _ _ C1)|].
        unfold entry_path in He. fold b in He. rewrite Hb in He. discriminate.
    + unfold pinv. rewrite links_of_snoc. unfold link_member. fold b. unfold nonempty. rewrite Hb, andb_false_r, app_nil_r.
      eapply pinv_grows; eauto.
  - assert (Hbne : b <> []) by now apply is_nil_false.
    assert (Hbok : comp_ok b) by (split; [apply base_no_sl|exact Hbne]).
    assert (Hep : entry_path m = Some (levels ++ [b])) by (unfold entry_path; fold b; now rewrite Hb).
    (* the name is not taken *)
    assert (Hfree : eget (c, b) (t_edges t1) = None).
    { destruct (eget (c, b) (t_edges t1)) as [j|] eqn:Hg; [exfalso|reflexivity].
      destruct (g_edge _ _ G1 _ _ _ (eget_In _ _ _ Hg)) as (_ & _ & pa & Hpa & Hpj).
      rewrite Hc in Hpa. inversion Hpa; subst pa.
      assert (Hj : j < length (t_kinds t1)) by (rewrite <- (g_len _ _ G1); apply nth_error_Some; congruence).
      destruct (nth_error (t_kinds t1) j) as [[|k]|] eqn:Hkj; [| |apply nth_error_None in Hkj; lia].
      - destruct (is_dirpath_snoc_inv _ _ _ (c_dir_sound _ _ _ _ C1 _ _ Hkj Hpj)) as [[Hp|(m' & Hm' & Hp)]|Hp].
        + destruct levels; discriminate.
        + destruct (Hcl m' Hm') as [_ H2]. unfold no_clash in H2. rewrite Hep in H2.
          apply andb_true_iff in H2 as [H2 _]. rewrite Hp in H2. discriminate.
        + apply path_prefixb_spec in Hp as [tl Hp]. fold levels in Hp. apply (f_equal (@length str)) in Hp.
          rewrite !app_length in Hp. simpl in Hp. lia.
      - destruct (c_file_sound _ _ _ _ C1 _ _ _ Hkj Hpj) as (m' & Hn & _ & He).
        destruct (Hcl m' (nth_error_In _ _ Hn)) as [_ H2]. unfold no_clash in H2. rewrite Hep, He in H2.
        apply andb_true_iff in H2 as [_ H2]. rewrite path_eqb_refl in H2. discriminate. }
    destruct (m_kind m) as [data| |dest] eqn:Hk.
    + (* file *)
      rewrite Hkc, (eset_fresh _ _ _ Hfree).
      destruct (ginv_add t1 P1 c levels b (IFile (length done)) G1 Hc Hkc Hfree Hbok) as (G2 & E2 & Hpn & Hkn).
      set (n := length (t_kinds t1)) in *.
      set (t2 := mkt (t_kinds t1 ++ [IFile (length done)]) (t_edges t1 ++ [((c, b), n)])) in *.
      set (P2 := P1 ++ [levels ++ [b]]) in *.
      assert (Gr2 : grows t1 P1 t2 P2) by (split; [exact E2|now exists [levels ++ [b]]]).
      assert (Hlen1 : length P1 = n) by apply G1.
      assert (Hlink : is_link m = false) by (unfold is_link; now rewrite Hk).
      exists t2, P2, ps. splits; auto.
      * split.
        -- intros i p Hki Hp. destruct (nth_error P1 i) as [p0|] eqn:HPi.
           ++ rewrite (grows_path _ _ _ _ _ _ Gr2 HPi) in Hp. inversion Hp; subst p0.
              eapply (c_dir_sound _ _ _ _ C1); [|exact HPi]. eapply old_kind; eauto.
           ++ apply nth_error_None in HPi. assert (i = n).
              { assert (i < length P2) by (apply nth_error_Some; congruence). unfold P2 in H. rewrite app_length in H. simpl in H. lia. }
              subst i. rewrite Hkn in Hki. discriminate.
        -- intros p Hp. destruct (c_dir_complete _ _ _ _ C1 _ Hp) as (i & Hi1 & Hi2). exists i.
           split; [eapply grows_path; eauto|eapply ext_kind; [apply Gr2|exact Hi2]].
        -- intros i k p Hki Hp. destruct (nth_error P1 i) as [p0|] eqn:HPi.
           ++ rewrite (grows_path _ _ _ _ _ _ Gr2 HPi) in Hp. inversion Hp; subst p0.
              apply is_entry_app_l. eapply (c_file_sound _ _ _ _ C1); [|exact HPi]. eapply old_kind; eauto.
           ++ apply nth_error_None in HPi. assert (i = n).
              { assert (i < length P2) by (apply nth_error_Some; congruence). unfold P2 in H. rewrite app_length in H. simpl in H. lia. }
              subst i. rewrite Hkn in Hki. inversion Hki; subst k. rewrite Hpn in Hp. inversion Hp; subst p.
              exists m. splits; auto. rewrite nth_error_app2 by lia. now rewrite Nat.sub_diag.
        -- intros k p Hp. apply is_entry_snoc_inv in Hp as [Hp|(-> & _ & He)].
           ++ destruct (c_file_complete _ _ _ _ C1 _ _ Hp) as (i & Hi1 & Hi2). exists i.
              split; [eapply grows_path; eauto|eapply ext_kind; [apply Gr2|exact Hi2]].
           ++ rewrite Hep in He. inversion He; subst p. now exists n.
      * unfold pinv. rewrite links_of_snoc. unfold link_member. rewrite Hlink. simpl. rewrite app_nil_r.
        eapply pinv_grows; [|exact PI]. eapply grows_trans; eauto.
      * eapply grows_trans; eauto.
    + (* a directory member always has an empty last field *)
      exfalso. apply Hbne. now apply name_ok_kdir.
    + (* link: remembered for phase 2 *)
      assert (Hlink : is_link m = true) by (unfold is_link; now rewrite Hk).
      exists t1, P1, (ps ++ [mkp c b (if v_base_name v then m_name m else m_oname m) dest]). splits; auto.
      * split; [apply C1|apply C1| |].
        -- intros i k p Hki Hp. apply is_entry_app_l. eapply (c_file_sound _ _ _ _ C1); eauto.
        -- intros k p Hp. apply is_entry_snoc_inv in Hp as [Hp|(_ & Hl & _)]; [now apply (c_file_complete _ _ _ _ C1)|congruence].
      * unfold pinv. rewrite links_of_snoc. unfold link_member. fold b. rewrite Hlink.
        assert (Hne : nonempty b = true) by now apply nonempty_true. rewrite Hne. simpl.
        apply Forall2_app; [eapply pinv_grows; eauto|]. constructor; [|constructor].
        unfold pend_of. simpl. splits; auto.
Qed.

(* ---------- all members ---------- *)
Lemma phase1_spec v rest : forall done t P ps,
  ginv t P -> cinv done done t P -> pinv v done t P ps -> wf_zip (done ++ rest) = true ->
  exists t' P' ps',
    phase1 v (length done) t ps rest = Ok (t', ps') /\
    ginv t' P' /\ cinv (done ++ rest) (done ++ rest) t' P' /\ pinv v (done ++ rest) t' P' ps' /\ grows t P t' P'.
Proof.
  induction rest as [|m r IH]; intros done t P ps G C PI W.
  - exists t, P, ps. rewrite app_nil_r. simpl. splits; auto using grows_refl.
  - pose proof (wf_zip_compat _ _ _ W) as Hc.
    destruct (step1_spec v done t P ps m G C PI Hc) as (t1 & P1 & ps1 & Hs & G1 & C1 & PI1 & Gr1).
    simpl. rewrite Hs.
    replace (done ++ m :: r) with ((done ++ [m]) ++ r) in * by now rewrite <- app_assoc.
    destruct (IH (done ++ [m]) t1 P1 ps1 G1 C1 PI1 W) as (t' & P' & ps' & Hp & G' & C' & PI' & Gr').
    rewrite app_length in Hp. simpl in Hp. rewrite Nat.add_1_r in Hp.
    exists t', P', ps'. splits; auto. eapply grows_trans; eauto.
Qed.

Lemma phase1_ok v ms :
  wf_zip ms = true ->
  exists t P ps, phase1 v 0 tbl0 [] ms = Ok (t, ps) /\ ginv t P /\ cinv ms ms t P /\ pinv v ms t P ps.
Proof.
  intros W. destruct (phase1_spec v ms [] tbl0 [[]] [] ginv0 cinv0) as (t & P & ps & H1 & H2 & H3 & H4 & _).
  - constructor.
  - exact W.
  - now exists t, P, ps.
Qed.

(* the index after phase 1, read through `walk` *)
Lemma index_dir t P ms q :
  ginv t P -> cinv ms ms t P ->
  ((exists i, walk t 0 q = Some i /\ nth_error (t_kinds t) i = Some IDir) <-> is_dirpath ms q).
Proof.
  intros G C. split.
  - intros (i & Hw & Hk). eapply (c_dir_sound _ _ _ _ C); [exact Hk|]. eapply walk_path; eauto.
  - intros H. destruct (c_dir_complete _ _ _ _ C _ H) as (i & Hp & Hk). exists i. split; [now apply (g_reach _ _ G)|exact Hk].
Qed.
Lemma index_file t P ms q k :
  ginv t P -> cinv ms ms t P ->
  ((exists i, walk t 0 q = Some i /\ nth_error (t_kinds t) i = Some (IFile k)) <-> is_entry ms k q).
Proof.
  intros G C. split.
  - intros (i & Hw & Hk). eapply (c_file_sound _ _ _ _ C); [exact Hk|]. eapply walk_path; eauto.
  - intros H. destruct (c_file_complete _ _ _ _ C _ _ H) as (i & Hp & Hk). exists i. split; [now apply (g_reach _ _ G)|exact Hk].
Qed.

Lemma no_links_pending ms : no_links ms = true -> links_of ms = [].
Proof.
  unfold no_links, links_of. induction ms as [|m r IH]; simpl; [reflexivity|].
  rewrite andb_true_iff. intros [H1 H2]. unfold link_member at 1. apply negb_true_iff in H1. rewrite H1. simpl. now apply IH.
Qed.
