(* Facts for C11: an undecodable cache file (any strict prefix of a complete
   one, zero fill, ...) is a miss for the repaired loadcache and an escaping
   exception for the pinned one.  The codec facts are hypotheses of the section
   (checked against real pickle in the correspondence run) and are discharged
   for the toy length-prefixed codec of Model/Cache.v. *)
From Coq Require Import ZArith List Bool Lia Arith.
From PG Require Import Lib.Str Model.Cache.
Import ListNotations.
Local Open Scope Z_scope.

Section Facts.
  Variables D L P : Type.
  Variable gen : D -> L.
  Variable enc : L -> bytes.
  Variable decode : bytes -> option L.
  Variable life : Z.

  Notation state := (state D).
  Notation step := (step gen enc decode life).

  Lemma broken_load (s : state) b g :
    file s = Some (b, g) -> decode g = None ->
    loadcache decode life s = Miss \/ loadcache decode life s = Broken.
  Proof.
    intros Ef Dg. unfold loadcache. rewrite Ef, Dg. destruct (fresh life (now s) b); auto.
  Qed.

  (* repaired code: whatever undecodable bytes are in the file, however old, the
     request regenerates the listing and leaves a fresh complete entry behind *)
  Lemma undecodable_harmless (s : state) b g (p : P) :
    file s = Some (b, g) -> decode g = None ->
    step true s (List p) =
      (mk (dir s) (Some (now s, enc (gen (dir s)))) (now s) (hist s), Some (Served p (gen (dir s)) false)).
  Proof.
    intros Ef Dg. simpl. unfold do_list.
    destruct (broken_load s b g Ef Dg) as [-> | ->]; reflexivity.
  Qed.

  (* pinned code: a fresh undecodable file makes the request die, nothing is repaired *)
  Lemma pinned_crashes (s : state) b g (p : P) :
    file s = Some (b, g) -> fresh life (now s) b = true -> decode g = None ->
    step false s (List p) = (s, Some (Crashed p)).
  Proof.
    intros Ef Fr Dg. simpl. unfold do_list, loadcache. now rewrite Ef, Fr, Dg.
  Qed.

  (* ... and keeps dying until the lifetime has passed *)
  Lemma pinned_stays_broken (s : state) b g (p q : P) :
    file s = Some (b, g) -> fresh life (now s) b = true -> decode g = None ->
    step false (fst (step false s (List p))) (List q) = (s, Some (Crashed q)).
  Proof.
    intros Ef Fr Dg. rewrite (pinned_crashes s b g p Ef Fr Dg). simpl fst.
    now apply (pinned_crashes s b g q).
  Qed.

  (* the reply of a listing request does not depend on what the cache write does *)
  Lemma save_outcome_irrelevant rep (s : state) (p : P) k :
    snd (step rep s (ListF p k)) = snd (step rep s (List p)).
  Proof.
    simpl. unfold do_list, do_list_f. destruct (loadcache decode life s); try reflexivity. destruct rep; reflexivity.
  Qed.

  (* after a failed write the file is the k-byte prefix of the complete entry (or unchanged on a hit) *)
  Lemma failed_save_leaves_prefix (s : state) (p : P) k :
    loadcache decode life s <> Hit (gen (dir s)) -> (forall l, loadcache decode life s <> Hit l) ->
    file (fst (step true s (ListF p k))) = Some (now s, firstn k (enc (gen (dir s)))).
  Proof.
    intros _ NH. simpl. unfold do_list_f. destruct (loadcache decode life s) as [l| |]; [exfalso; now apply (NH l)| |]; reflexivity.
  Qed.

  Hypothesis prefix_fails : forall l g, strict_prefix g (enc l) -> decode g = None.

  (* every cut point is harmless: the hypothesis op_ok asks of ListF *)
  Lemma cut_ok k l : decode (firstn k (enc l)) = None \/ firstn k (enc l) = enc l.
  Proof.
    destruct (Nat.le_gt_cases (List.length (enc l)) k) as [H|H].
    - right. now apply firstn_all2.
    - left. apply (prefix_fails l). exists (skipn k (enc l)). split.
      + intros E. apply (f_equal (@List.length N)) in E. rewrite skipn_length in E. simpl in E. lia.
      + symmetry. apply firstn_skipn.
  Qed.

  Lemma prefix_harmless (s : state) b l g (p : P) :
    file s = Some (b, g) -> strict_prefix g (enc l) ->
    step true s (List p) =
      (mk (dir s) (Some (now s, enc (gen (dir s)))) (now s) (hist s), Some (Served p (gen (dir s)) false)).
  Proof. intros Ef Pf. eapply undecodable_harmless; eauto. Qed.
End Facts.

(* ---------- the toy codec has both properties ---------- *)
Lemma toy_roundtrip l : toy_decode (toy_enc l) = Some l.
Proof. unfold toy_decode, toy_enc. destruct (N.eqb_spec (N.of_nat (List.length l)) (N.of_nat (List.length l))); congruence. Qed.

Lemma toy_prefix_fails l g : strict_prefix g (toy_enc l) -> toy_decode g = None.
Proof.
  intros [r [Hr E]]. unfold toy_enc in E. destruct g as [|n g']; [reflexivity|].
  simpl in E. injection E as En El. subst n l. unfold toy_decode.
  destruct (N.eqb_spec (N.of_nat (List.length g')) (N.of_nat (List.length (g' ++ r)))) as [H|H]; [|reflexivity].
  apply Nat2N.inj in H. rewrite app_length in H. destruct r; [congruence|simpl in H; lia].
Qed.

Lemma toy_zero_fails n : (2 <= n)%nat -> toy_decode (repeat 0%N n) = None.
Proof.
  intros H. destruct n as [|n]; [lia|]. change (repeat 0%N (S n)) with (0%N :: repeat 0%N n).
  unfold toy_decode. rewrite repeat_length.
  destruct (N.eqb_spec (N.of_nat n) 0); [lia|reflexivity].
Qed.
