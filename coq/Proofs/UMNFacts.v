(* UMNFacts.v — the link-file parser of the model reads a well-formed link file
   exactly as the reference reading (Model/UMNSpec.v) says. *)
From Coq Require Import ZArith Lia String.
From PG Require Import Lib.Str Lib.StrFacts Lib.Cmp Model.DirEntry Model.UMN Model.UMNSpec.
Local Open Scope N_scope.

(* ---------- strings ---------- *)
Lemma mem_N_cons c x r : mem_N c (x :: r) = (c =? x) || mem_N c r.
Proof. reflexivity. Qed.

Lemma un_cons c r : c <> 13 -> universal_newlines (c :: r) = c :: universal_newlines r.
Proof.
  intros H. destruct c as [|p]; [reflexivity|].
  do 4 (try (destruct p as [p|p|]; try reflexivity)).
  exfalso. apply H. reflexivity.
Qed.

Lemma universal_newlines_id s : mem_N 13 s = false -> universal_newlines s = s.
Proof.
  induction s as [|c r IH]; [reflexivity|]. intros H. rewrite mem_N_cons in H.
  apply orb_false_iff in H as [H1 H2]. apply N.eqb_neq in H1.
  rewrite un_cons by congruence. now rewrite IH.
Qed.

Lemma mem_N_app c a b : mem_N c (a ++ b) = mem_N c a || mem_N c b.
Proof. induction a as [|x r IH]; [reflexivity|]. simpl app. now rewrite !mem_N_cons, IH, orb_assoc. Qed.

Lemma mem_N_concat_lines c (ls : list str) :
  mem_N c (concat (map (fun l => l ++ [10]) ls)) = existsb (fun l => mem_N c l || (c =? 10)) ls.
Proof.
  induction ls as [|l r IH]; [reflexivity|]. cbn [map concat existsb].
  rewrite mem_N_app, mem_N_app, IH, mem_N_cons. cbn [mem_N]. now rewrite orb_false_r.
Qed.

Lemma lines_keepends_aux_line cur l rest :
  mem_N 10 l = false ->
  lines_keepends_aux cur (l ++ 10 :: rest) = (rev cur ++ l ++ [10]) :: lines_keepends_aux [] rest.
Proof.
  revert cur. induction l as [|c r IH]; intros cur H.
  - reflexivity.
  - rewrite mem_N_cons in H. apply orb_false_iff in H as [H1 H2].
    assert (E : (c =? 10) = false) by (rewrite N.eqb_sym; exact H1).
    change ((c :: r) ++ 10 :: rest) with (c :: (r ++ 10 :: rest)). cbn [lines_keepends_aux]. rewrite E.
    rewrite IH by exact H2. cbn [rev]. now rewrite <- app_assoc.
Qed.

Lemma lines_keepends_lines (ls : list str) :
  forallb (fun l => negb (mem_N 10 l)) ls = true ->
  lines_keepends (concat (map (fun l => l ++ [10]) ls)) = map (fun l => l ++ [10]) ls.
Proof.
  unfold lines_keepends. induction ls as [|l r IH]; intros H; [reflexivity|].
  simpl in H. apply andb_true_iff in H as [H1 H2]. apply negb_true_iff in H1.
  simpl. rewrite <- app_assoc. simpl. rewrite lines_keepends_aux_line by exact H1.
  simpl. now rewrite IH.
Qed.

Lemma lstrip_nonspace c r : is_space c = false -> lstrip (c :: r) = c :: r.
Proof. intros H. simpl. now rewrite H. Qed.
Lemma lstrip_nl t : lstrip (10 :: t) = lstrip t.
Proof. reflexivity. Qed.
Lemma rev_last (l : str) : l <> [] -> rev l = last l 0 :: rev (removelast l).
Proof. intros H. rewrite (app_removelast_last 0 H) at 1. now rewrite rev_unit. Qed.

Lemma rstrip_line l : (l = [] \/ is_space (last l 0) = false) -> rstrip (l ++ [10]) = l.
Proof.
  intros H. unfold rstrip. rewrite rev_unit, lstrip_nl.
  destruct l as [|c r]; [reflexivity|]. destruct H as [H|H]; [discriminate|].
  assert (NE : c :: r <> []) by (intro; discriminate).
  rewrite (rev_last (c :: r) NE). rewrite lstrip_nonspace by exact H.
  rewrite <- (rev_last (c :: r) NE). apply rev_involutive.
Qed.

Lemma strip_line l : trimmed l = true -> strip (l ++ [10]) = l.
Proof.
  destruct l as [|c r]; [reflexivity|]. intros H. unfold trimmed in H.
  apply andb_true_iff in H as [H1 H2]. apply negb_true_iff in H1. apply negb_true_iff in H2.
  unfold strip. change ((c :: r) ++ [10]) with (c :: (r ++ [10])).
  rewrite lstrip_nonspace by exact H1.
  change (c :: r ++ [10]) with ((c :: r) ++ [10]). apply rstrip_line. now right.
Qed.

Lemma lstrip_spaces ind x : forallb is_space ind = true -> lstrip (ind ++ x) = lstrip x.
Proof.
  induction ind as [|c r IH]; intros H; [reflexivity|]. cbn [forallb] in H.
  apply andb_true_iff in H as [H1 H2]. cbn [app lstrip]. rewrite H1. now apply IH.
Qed.

Lemma strip_indented ind l : forallb is_space ind = true -> trimmed l = true -> strip (ind ++ l ++ [10]) = l.
Proof.
  intros Hi T. unfold strip. rewrite (lstrip_spaces ind _ Hi). now apply (strip_line l).
Qed.

Lemma last_app_nonempty {A} (a b : list A) d : b <> [] -> last (a ++ b) d = last b d.
Proof.
  induction a as [|x r IH]; intros H; [reflexivity|].
  change ((x :: r) ++ b) with (x :: (r ++ b)).
  destruct (r ++ b) as [|y l] eqn:E.
  - apply app_eq_nil in E as [_ E]. contradiction.
  - change (last (y :: l) d = last b d). apply IH, H.
Qed.

Lemma last_snoc {A} (a : list A) x d : last (a ++ [x]) d = x.
Proof. rewrite last_app_nonempty by discriminate. reflexivity. Qed.

Lemma last_is_snoc c s x : last_is c (s ++ [x]) = (x =? c).
Proof. unfold last_is. now rewrite last_char_app. Qed.

Lemma last_is_last c s : s <> [] -> last_is c s = (last s 0 =? c).
Proof.
  intros H. unfold last_is, last_char. destruct s; [contradiction | reflexivity].
Qed.

(* a key prefix followed by a value: stripping only looks at the value's end *)
Lemma trimmed_cons c r : trimmed (c :: r) = negb (is_space c) && negb (is_space (last (c :: r) 0)).
Proof. reflexivity. Qed.

Lemma trimmed_key_value k0 k v :
  is_space k0 = false -> is_space (last (k0 :: k) 0) = false -> no_trailing_space v = true ->
  trimmed ((k0 :: k) ++ v) = true.
Proof.
  intros H0 Hl Hv. change ((k0 :: k) ++ v) with (k0 :: (k ++ v)). rewrite trimmed_cons, H0.
  change (k0 :: k ++ v) with ((k0 :: k) ++ v).
  destruct v as [|x r].
  - rewrite app_nil_r, Hl. reflexivity.
  - rewrite last_app_nonempty by discriminate. unfold no_trailing_space in Hv. now rewrite Hv.
Qed.

Lemma plf_cons_normal fx base dirsel cap raw rest g out :
  plf_loop fx base dirsel cap (raw :: rest) g None out =
  match do_line base (strip raw) g with
  | SCont g' => plf_loop fx base dirsel cap rest g' None out
  | SEnd => plf_loop fx base dirsel cap rest (gstart fx dirsel cap) None (emit base g out)
  | SAbstract g' a =>
      if negb (str_eqb a []) && last_is 92 a
      then plf_loop fx base dirsel cap rest g' (Some ([] ++ drop_last a ++ [10])) out
      else plf_loop fx base dirsel cap rest (set_abstract ([] ++ a) g') None out
  | SFail e => Raise e
  end.
Proof. reflexivity. Qed.

Lemma plf_cons_abs fx base dirsel cap raw rest g acc out :
  plf_loop fx base dirsel cap (raw :: rest) g (Some acc) out =
  if negb (str_eqb (strip raw) []) && last_is 92 (strip raw)
  then plf_loop fx base dirsel cap rest g (Some (acc ++ drop_last (strip raw) ++ [10])) out
  else plf_loop fx base dirsel cap rest (set_abstract (acc ++ strip raw) g) None out.
Proof. reflexivity. Qed.

Lemma do_line_name base v g : do_line base (K_NAME ++ v) g = SCont (with_entry (set_name v) g).
Proof. reflexivity. Qed.
Lemma do_line_type base c g : do_line base (K_TYPE ++ [c]) g = SCont (with_entry (set_type c) g).
Proof. reflexivity. Qed.
Lemma do_line_path base s g : do_line base (K_PATH ++ s) g = SCont (do_path base (K_PATH ++ s) g).
Proof. reflexivity. Qed.
Lemma do_line_host base h g : do_line base (K_HOST ++ h) g =
  if str_eqb h PLUS then SCont g else SCont (with_entry (set_host h) g).
Proof. reflexivity. Qed.
Lemma do_line_port base d g : do_line base (K_PORT ++ d) g =
  if str_eqb d PLUS then SCont g else match py_int d with Some p => SCont (with_entry (set_port p) g) | None => SFail ValueError end.
Proof. reflexivity. Qed.
Lemma do_line_numb base d g : do_line base (K_NUMB ++ d) g =
  match py_int d with Some n => SCont (with_entry (set_num (Some n)) g) | None => SCont g end.
Proof. reflexivity. Qed.
Lemma do_line_abstract base a g : do_line base (K_ABSTRACT ++ a) g = SAbstract g a.
Proof. reflexivity. Qed.
Lemma do_line_comment base c g : do_line base (35 :: c) g = if g_path g then SEnd else SCont g.
Proof. reflexivity. Qed.

Lemma strip_trimmed l : trimmed l = true -> strip l = l.
Proof.
  destruct l as [|c r]; [reflexivity|]. rewrite trimmed_cons. intros H.
  apply andb_true_iff in H as [H1 H2]. apply negb_true_iff in H1. apply negb_true_iff in H2.
  unfold strip. rewrite lstrip_nonspace by exact H1. unfold rstrip.
  assert (NE : c :: r <> []) by (intro; discriminate).
  rewrite (rev_last (c :: r) NE), lstrip_nonspace by exact H2.
  rewrite <- (rev_last (c :: r) NE). apply rev_involutive.
Qed.

Lemma digit_cases c : is_ascii_digit c = true ->
  c = 48 \/ c = 49 \/ c = 50 \/ c = 51 \/ c = 52 \/ c = 53 \/ c = 54 \/ c = 55 \/ c = 56 \/ c = 57.
Proof.
  unfold is_ascii_digit. intros H. apply andb_true_iff in H as [H1 H2].
  apply N.leb_le in H1. apply N.leb_le in H2. lia.
Qed.

Lemma digit_value_ascii c : is_ascii_digit c = true -> digit_value c = Some (c - 48).
Proof. intros H. destruct (digit_cases c H) as [->|[->|[->|[->|[->|[->|[->|[->|[->| ->]]]]]]]]]; reflexivity. Qed.

Lemma digit_not_space c : is_ascii_digit c = true -> is_space c = false.
Proof. intros H. destruct (digit_cases c H) as [->|[->|[->|[->|[->|[->|[->|[->|[->| ->]]]]]]]]]; reflexivity. Qed.

Lemma digit_not_sign c : is_ascii_digit c = true -> c <> 43 /\ c <> 45 /\ c <> 95.
Proof. intros H. destruct (digit_cases c H) as [->|[->|[->|[->|[->|[->|[->|[->|[->| ->]]]]]]]]]; repeat split; discriminate. Qed.

Lemma pyint_aux_digits ds : forall acc, forallb is_ascii_digit ds = true ->
  pyint_aux acc false ds = Some (fold_left (fun a c => a * 10 + (c - 48)) ds acc).
Proof.
  induction ds as [|c r IH]; intros acc H; [reflexivity|].
  cbn [forallb] in H. apply andb_true_iff in H as [H1 H2].
  cbn [pyint_aux fold_left]. rewrite (digit_value_ascii c H1). now apply IH.
Qed.

Lemma all_digits_spec d : all_digits d = true -> d <> [] /\ forallb is_ascii_digit d = true.
Proof. destruct d; [discriminate|]. intros H. split; [discriminate | exact H]. Qed.

Lemma digits_trimmed d : all_digits d = true -> trimmed d = true.
Proof.
  intros H. destruct (all_digits_spec d H) as [NE F]. destruct d as [|c r]; [contradiction|].
  rewrite trimmed_cons. rewrite forallb_forall in F.
  rewrite (digit_not_space c) by (apply F; now left).
  rewrite (digit_not_space (last (c :: r) 0)); [reflexivity|].
  apply F. rewrite (app_removelast_last 0 NE) at 2. apply in_or_app. right. now left.
Qed.

Lemma py_int_head_digit c r : is_ascii_digit c = true -> trimmed (c :: r) = true ->
  py_int (c :: r) = option_map Z.of_N (pyint_aux 0 false (c :: r)).
Proof.
  intros Hc T. unfold py_int. rewrite (strip_trimmed _ T).
  destruct (digit_cases c Hc) as [->|[->|[->|[->|[->|[->|[->|[->|[->| ->]]]]]]]]]; reflexivity.
Qed.

Lemma py_int_digits d : all_digits d = true -> py_int d = Some (Z.of_N (dec_value d)).
Proof.
  intros H. destruct (all_digits_spec d H) as [NE F]. pose proof (digits_trimmed d H) as T.
  destruct d as [|c r]; [contradiction|].
  assert (Hc : is_ascii_digit c = true) by (cbn [forallb] in F; now apply andb_true_iff in F as [F _]).
  rewrite (py_int_head_digit c r Hc T), pyint_aux_digits by exact F. reflexivity.
Qed.

Lemma py_int_neg d : all_digits d = true -> py_int (45 :: d) = Some (- Z.of_N (dec_value d))%Z.
Proof.
  intros H. unfold py_int.
  destruct (all_digits_spec d H) as [NE F]. pose proof (digits_trimmed d H) as Td.
  assert (T : trimmed (45 :: d) = true).
  { rewrite trimmed_cons.
    change (45 :: d) with ([45] ++ d). rewrite last_app_nonempty by exact NE.
    destruct d as [|c r]; [contradiction|].
    rewrite trimmed_cons in Td. apply andb_true_iff in Td as [_ Td]. now rewrite Td. }
  rewrite (strip_trimmed _ T).
  destruct d as [|c r]; [contradiction|].
  assert (Hc : is_ascii_digit c = true) by (cbn [forallb] in F; now apply andb_true_iff in F as [F _]).
  cbv beta iota. rewrite (digit_value_ascii c Hc). rewrite pyint_aux_digits by exact F. reflexivity.
Qed.

Definition apply_field (base : str) (f : field) (g : gstate) : gstate :=
  match f with
  | FName v => with_entry (set_name v) g
  | FType c => with_entry (set_type c) g
  | FPath p =>
      match p with
      | PHere n | PTilde n => mkG (set_selector (base ++ [47] ++ n) (g_entry g)) true (g_abs g) true
      | PRel r => mkG (set_selector r (g_entry g)) (g_merge g) true true
      | _ => mkG (set_selector (path_str p) (g_entry g)) (g_merge g) (g_abs g) true
      end
  | FHost HPlus => g
  | FHost (HName h) => with_entry (set_host h) g
  | FPort PtPlus => g
  | FPort (PtNum d) => with_entry (set_port (Z.of_N (dec_value d))) g
  | FNumb neg d => with_entry (set_num (numb_of (FNumb neg d))) g
  | FAbstract conts final =>
      set_abstract (concat (map (fun c => c ++ [10]) conts) ++ final) g
  end.

Lemma firstn2_prefix a b r : str_eqb (firstn 2 r) [a; b] = prefixb [a; b] r.
Proof.
  destruct r as [|x [|y t]]; try reflexivity.
  - cbn. rewrite (N.eqb_sym a x). now rewrite !andb_false_r.
  - cbn. rewrite (N.eqb_sym a x), (N.eqb_sym b y). now rewrite andb_true_r.
Qed.

Lemma do_path_wf base p g : wf_path p = true ->
  do_path base (K_PATH ++ path_str p) g = apply_field base (FPath p) g.
Proof.
  unfold wf_path. intros H. apply andb_true_iff in H as [H Hs]. apply andb_true_iff in H as [H Hl].
  apply negb_true_iff in Hl. unfold do_path.
  change (skipn 5 (K_PATH ++ path_str p)) with (path_str p). rewrite Hl.
  change (slice 5 7 (K_PATH ++ path_str p)) with (firstn 2 (path_str p)).
  rewrite !firstn2_prefix.
  destruct p as [n|n|s|s|r]; simpl apply_field.
  - reflexivity.
  - reflexivity.
  - cbn. destruct (Datatypes.length s); reflexivity.
  - cbn. reflexivity.
  - simpl path_str in *.
    apply andb_true_iff in Hs as [Hs H5]. apply andb_true_iff in Hs as [Hs H4].
    apply andb_true_iff in Hs as [Hs H3]. apply andb_true_iff in Hs as [H1 H2].
    apply negb_true_iff in H3. apply negb_true_iff in H4. rewrite H3, H4. rewrite andb_false_r.
    rewrite H1, H2, H5. reflexivity.
Qed.

Definition raw_lines (ind : str) (ls : list str) : list str := map (fun l => ind ++ l ++ [10]) ls.

Lemma trim_name v : no_trailing_space v = true -> trimmed (K_NAME ++ v) = true.
Proof. exact (trimmed_key_value 78 [97; 109; 101; 61] v eq_refl eq_refl). Qed.
Lemma trim_type v : no_trailing_space v = true -> trimmed (K_TYPE ++ v) = true.
Proof. exact (trimmed_key_value 84 [121; 112; 101; 61] v eq_refl eq_refl). Qed.
Lemma trim_path v : no_trailing_space v = true -> trimmed (K_PATH ++ v) = true.
Proof. exact (trimmed_key_value 80 [97; 116; 104; 61] v eq_refl eq_refl). Qed.
Lemma trim_host v : no_trailing_space v = true -> trimmed (K_HOST ++ v) = true.
Proof. exact (trimmed_key_value 72 [111; 115; 116; 61] v eq_refl eq_refl). Qed.
Lemma trim_port v : no_trailing_space v = true -> trimmed (K_PORT ++ v) = true.
Proof. exact (trimmed_key_value 80 [111; 114; 116; 61] v eq_refl eq_refl). Qed.
Lemma trim_numb v : no_trailing_space v = true -> trimmed (K_NUMB ++ v) = true.
Proof. exact (trimmed_key_value 78 [117; 109; 98; 61] v eq_refl eq_refl). Qed.
Lemma trim_abstract v : no_trailing_space v = true -> trimmed (K_ABSTRACT ++ v) = true.
Proof. exact (trimmed_key_value 65 [98; 115; 116; 114; 97; 99; 116; 61] v eq_refl eq_refl). Qed.
Lemma trim_comment v : no_trailing_space v = true -> trimmed (35 :: v) = true.
Proof. exact (trimmed_key_value 35 [] v eq_refl eq_refl). Qed.

Lemma trimmed_of_parts l :
  match l with [] => true | c :: _ => negb (is_space c) end = true -> no_trailing_space l = true -> trimmed l = true.
Proof.
  destruct l as [|c r]; [reflexivity|]. intros H1 H2. rewrite trimmed_cons, H1. exact H2.
Qed.

Lemma nts_snoc l x : is_space x = false -> no_trailing_space (l ++ [x]) = true.
Proof.
  intros H. unfold no_trailing_space. destruct (l ++ [x]) eqn:E.
  - reflexivity.
  - rewrite <- E, last_snoc, H. reflexivity.
Qed.

Lemma digits_nts d : all_digits d = true -> no_trailing_space d = true.
Proof.
  intros H. pose proof (digits_trimmed d H) as T. destruct d as [|c r]; [reflexivity|].
  rewrite trimmed_cons in T. apply andb_true_iff in T as [_ T]. exact T.
Qed.

Lemma digits_not_plus d : all_digits d = true -> str_eqb d PLUS = false.
Proof.
  intros H. destruct (all_digits_spec d H) as [NE F]. destruct d as [|c r]; [contradiction|].
  cbn [forallb] in F. apply andb_true_iff in F as [Hc _].
  destruct (digit_not_sign c Hc) as (N1 & _). unfold PLUS. cbn [str_eqb].
  apply N.eqb_neq in N1. now rewrite N1.
Qed.

Lemma snoc_not_nil (l : str) x : str_eqb (l ++ [x]) [] = false.
Proof. destruct l; reflexivity. Qed.

Section Step.
  Variables (fx : fixes) (base dirsel : str).
  Variable ind : str.
  Hypothesis Hind : forallb is_space ind = true.
  Notation PLF := (plf_loop fx base dirsel None).

  Lemma line_step l rest g out : trimmed l = true ->
    PLF ((ind ++ l ++ [10]) :: rest) g None out =
    match do_line base l g with
    | SCont g' => PLF rest g' None out
    | SEnd => PLF rest (gstart fx dirsel None) None (emit base g out)
    | SAbstract g' a =>
        if negb (str_eqb a []) && last_is 92 a
        then PLF rest g' (Some ([] ++ drop_last a ++ [10])) out
        else PLF rest (set_abstract ([] ++ a) g') None out
    | SFail e => Raise e
    end.
  Proof. intros T. rewrite plf_cons_normal, (strip_indented ind l Hind T). reflexivity. Qed.

  Lemma abs_step l rest g acc out : trimmed l = true ->
    PLF ((ind ++ l ++ [10]) :: rest) g (Some acc) out =
    if negb (str_eqb l []) && last_is 92 l
    then PLF rest g (Some (acc ++ drop_last l ++ [10])) out
    else PLF rest (set_abstract (acc ++ l) g) None out.
  Proof. intros T. rewrite plf_cons_abs, (strip_indented ind l Hind T). reflexivity. Qed.

  (* continuation lines of an abstract *)
  Lemma abs_conts cs : forall final rest g acc out,
    forallb (fun l => match l with [] => true | c :: _ => negb (is_space c) end) (cs ++ [final]) = true ->
    no_trailing_space final = true -> last_is 92 final = false ->
    PLF (raw_lines ind (map (fun l => l ++ [92]) cs ++ [final]) ++ rest) g (Some acc) out =
    PLF rest (set_abstract (acc ++ concat (map (fun c => c ++ [10]) cs) ++ final) g) None out.
  Proof.
    induction cs as [|c cs IH]; intros final rest g acc out F Hn Hl.
    - cbn [map app raw_lines]. cbn [forallb app] in F. apply andb_true_iff in F as [F _].
      rewrite abs_step by (now apply trimmed_of_parts). rewrite Hl, andb_false_r. reflexivity.
    - cbn [map app raw_lines]. change ((c :: cs) ++ [final]) with (c :: (cs ++ [final])) in F.
      cbn [forallb] in F. apply andb_true_iff in F as [Fc F].
      rewrite abs_step.
      2:{ apply trimmed_of_parts; [|now apply nts_snoc].
          destruct c as [|x r]; [reflexivity | exact Fc]. }
      rewrite snoc_not_nil, last_is_snoc, drop_last_app. cbn [negb andb N.eqb Pos.eqb].
      fold (raw_lines ind (map (fun l => l ++ [92]) cs ++ [final])).
      rewrite IH by assumption. cbn [map concat]. now rewrite <- !app_assoc.
  Qed.

  Lemma field_step f rest g out : wf_field f = true ->
    PLF (raw_lines ind (field_lines f) ++ rest) g None out = PLF rest (apply_field base f g) None out.
  Proof.
    intros W. destruct f as [v|c|p|h|p|neg d|conts final]; cbn [wf_field] in W.
    - apply andb_true_iff in W as [_ W]. cbn [field_lines raw_lines map app].
      rewrite line_step by (now apply trim_name). reflexivity.
    - cbn [field_lines raw_lines map app].
      rewrite line_step.
      2:{ apply trim_type. apply andb_true_iff in W as [W _]. apply andb_true_iff in W as [W _].
          unfold no_trailing_space. cbn [last]. exact W. }
      reflexivity.
    - cbn [field_lines raw_lines map app].
      rewrite line_step.
      2:{ apply trim_path. unfold wf_path in W. apply andb_true_iff in W as [W _].
          apply andb_true_iff in W as [W _]. now apply andb_true_iff in W as [_ W]. }
      rewrite do_line_path, do_path_wf by exact W. reflexivity.
    - destruct h as [|h].
      + cbn [field_lines raw_lines map app]. rewrite line_step by (now apply trim_host). reflexivity.
      + apply andb_true_iff in W as [W Hp]. apply andb_true_iff in W as [_ W].
        cbn [field_lines raw_lines map app]. rewrite line_step by (now apply trim_host).
        rewrite do_line_host. apply negb_true_iff in Hp. rewrite Hp. reflexivity.
    - destruct p as [|d].
      + cbn [field_lines raw_lines map app]. rewrite line_step by (now apply trim_port). reflexivity.
      + cbn [field_lines raw_lines map app].
        rewrite line_step by (apply trim_port; now apply digits_nts).
        rewrite do_line_port, digits_not_plus, py_int_digits by exact W. reflexivity.
    - cbn [field_lines raw_lines map app]. destruct neg.
      + rewrite line_step.
        2:{ apply trim_numb. pose proof (digits_nts d W) as T.
            destruct (all_digits_spec d W) as [NE _].
            destruct d as [|x r]; [contradiction|]. exact T. }
        rewrite do_line_numb, py_int_neg by exact W. reflexivity.
      + rewrite line_step by (apply trim_numb; now apply digits_nts).
        rewrite do_line_numb, py_int_digits by exact W. reflexivity.
    - apply andb_true_iff in W as [W Fl]. apply andb_true_iff in W as [W Hl].
      apply andb_true_iff in W as [W Hn]. apply negb_true_iff in Hl.
      destruct conts as [|c cs].
      + cbn [field_lines raw_lines map app].
        rewrite line_step by (now apply trim_abstract).
        rewrite do_line_abstract, Hl, andb_false_r. reflexivity.
      + cbn [field_lines]. unfold raw_lines. cbn [map app].
        rewrite line_step.
        2:{ apply trim_abstract. now apply nts_snoc. }
        rewrite do_line_abstract. rewrite snoc_not_nil, last_is_snoc, drop_last_app.
        cbn [negb andb N.eqb Pos.eqb app].
        fold (raw_lines ind (map (fun l => l ++ [92]) cs ++ [final])).
        change (tl ((c :: cs) ++ [final])) with (cs ++ [final]) in Fl.
        rewrite abs_conts by assumption. cbn [apply_field map concat]. now rewrite <- !app_assoc.
  Qed.
End Step.

(* ---------- a block's fields: sequential reading = finite-map reading ---------- *)
Definition fold_fields (base : str) (fs : list field) (g : gstate) : gstate :=
  fold_left (fun g f => apply_field base f g) fs g.

Definition looked_up (base : str) (g : gstate) (fs : list field) : gstate :=
  let e := g_entry g in
  mkG (mkEntry
         (match first_some path_of fs with
          | None => e_selector e
          | Some (PHere n) | Some (PTilde n) => base ++ [47] ++ n
          | Some (PRel r) => r
          | Some p => path_str p
          end)
         (match first_some type_of fs with Some c => Some c | None => e_type e end)
         (match first_some name_of fs with Some v => Some v | None => e_name e end)
         (match first_some host_of fs with Some (HName h) => Some h | _ => e_host e end)
         (match first_some port_of fs with Some (PtNum d) => Some (Z.of_N (dec_value d)) | _ => e_port e end)
         (match first_some numb_of fs with Some z => Some z | None => e_num e end)
         (match first_some abstract_of fs with
          | Some [] | None => e_ea e
          | Some a => ea_set EA_ABSTRACT a (e_ea e)
          end)
         (e_gplus e))
      (match first_some path_of fs with Some (PHere _) | Some (PTilde _) => true | _ => g_merge g end)
      (match first_some path_of fs with Some (PRel _) => true | _ => g_abs g end)
      (match first_some path_of fs with Some _ => true | None => g_path g end).

Lemma first_some_none_key {B} (X : field -> option B) k r :
  (forall f, X f <> None -> key_of f = k) -> mem_N k (map key_of r) = false -> first_some X r = None.
Proof.
  intros HX. induction r as [|f r IH]; [reflexivity|]. cbn [map]. rewrite mem_N_cons.
  intros H. apply orb_false_iff in H as [H1 H2]. cbn [first_some].
  destruct (X f) eqn:E.
  - exfalso. apply N.eqb_neq in H1. apply H1. symmetry. apply HX. congruence.
  - now apply IH.
Qed.

Ltac key_none X k :=
  match goal with
  | H : mem_N k (map key_of ?r) = false |- _ =>
      let E := fresh "E" in
      assert (E : first_some X r = None)
        by (apply (first_some_none_key X k); [intros [] HX; try reflexivity; exfalso; apply HX; reflexivity | exact H]);
      rewrite ?E
  end.

Lemma looked_up_nil base g : looked_up base g [] = g.
Proof. destruct g as [[]]. reflexivity. Qed.

Lemma fold_fields_looked_up base fs : forall g,
  distinct (map key_of fs) = true -> fold_fields base fs g = looked_up base g fs.
Proof.
  induction fs as [|f r IH]; intros g D.
  - symmetry. apply looked_up_nil.
  - cbn [map distinct] in D. apply andb_true_iff in D as [D1 D2]. apply negb_true_iff in D1.
    unfold fold_fields. cbn [fold_left]. fold (fold_fields base r (apply_field base f g)).
    rewrite IH by exact D2. unfold looked_up.
    destruct f as [v|c|p|h|p|neg d|conts final]; cbn [key_of] in D1.
    + key_none name_of 0%N. cbn. reflexivity.
    + key_none type_of 1%N. cbn. reflexivity.
    + key_none path_of 2%N. destruct p; cbn; reflexivity.
    + key_none host_of 3%N. destruct h; cbn; reflexivity.
    + key_none port_of 4%N. destruct p; cbn; reflexivity.
    + key_none numb_of 5%N. cbn. reflexivity.
    + key_none abstract_of 6%N. cbn [first_some abstract_of apply_field].
      destruct (concat (map (fun c => c ++ [10]) conts) ++ final) eqn:A; cbn; reflexivity.
Qed.

Lemma has_path fs : mem_N 2 (map key_of fs) = true -> exists p, first_some path_of fs = Some p.
Proof.
  induction fs as [|f r IH]; [discriminate|]. cbn [map]. rewrite mem_N_cons. intros H.
  destruct f; cbn [first_some path_of]; try (cbn [key_of N.eqb Pos.eqb orb] in H; now apply IH).
  eauto.
Qed.

(* the entry getLinkItem returns for a block = the reference reading *)
Lemma gfinish_block fx base dirsel b :
  wf_block b = true ->
  gfinish base (fold_fields base (sb_fields b) (gstart fx dirsel None)) =
  Some (default_num fx (spec_lentry base dirsel b)).
Proof.
  unfold wf_block. intros W. apply andb_true_iff in W as [W HP]. apply andb_true_iff in W as [_ D].
  rewrite (fold_fields_looked_up base _ _ D).
  destruct (has_path _ HP) as [p EP].
  unfold gfinish, looked_up, spec_lentry, default_num. rewrite EP. cbn [g_path g_abs g_merge g_entry gstart].
  unfold fresh_link, fresh_entry, set_num. cbn [e_selector e_type e_name e_host e_port e_num e_ea e_gplus].
  assert (eta : forall A (o : option A), match o with Some c => Some c | None => None end = o)
    by (intros ? []; reflexivity).
  rewrite !eta.
  destruct (first_some numb_of (sb_fields b)) as [z|];
  destruct (first_some host_of (sb_fields b)) as [[|h]|];
  destruct (first_some port_of (sb_fields b)) as [[|d]|];
  destruct (first_some abstract_of (sb_fields b)) as [[|a0 a]|];
  destruct p; cbn; reflexivity.
Qed.

Section Whole.
  Variables (fx : fixes) (base dirsel : str).
  Notation PLF := (plf_loop fx base dirsel None).

  Lemma raw_lines_app ind a b : raw_lines ind (a ++ b) = raw_lines ind a ++ raw_lines ind b.
  Proof. apply map_app. Qed.

  Lemma raw_of_indented b :
    map (fun l => l ++ [10]) (indented_lines b) = raw_lines (sb_indent b) (block_lines b).
  Proof.
    unfold indented_lines, raw_lines. rewrite map_map. apply map_ext. intros l. now rewrite <- app_assoc.
  Qed.

  Section Indented.
    Variable ind : str.
    Hypothesis Hind : forallb is_space ind = true.

    Lemma fields_step fs : forall rest g out, forallb wf_field fs = true ->
      PLF (raw_lines ind (concat (map field_lines fs)) ++ rest) g None out =
      PLF rest (fold_fields base fs g) None out.
    Proof.
      induction fs as [|f r IH]; intros rest g out W; [reflexivity|].
      cbn [forallb] in W. apply andb_true_iff in W as [W1 W2].
      cbn [map concat]. rewrite raw_lines_app, <- app_assoc.
      rewrite (field_step fx base dirsel ind Hind f _ g out W1). now rewrite IH.
    Qed.

    Lemma comments_step cs : forall rest g out,
      g_path g = false -> forallb (fun c => no_eol c && no_trailing_space c) cs = true ->
      PLF (raw_lines ind (map (fun c => 35 :: c) cs) ++ rest) g None out = PLF rest g None out.
    Proof.
      induction cs as [|c r IH]; intros rest g out P W; [reflexivity|].
      cbn [forallb] in W. apply andb_true_iff in W as [W1 W2]. apply andb_true_iff in W1 as [_ W1].
      unfold raw_lines. cbn [map app]. fold (raw_lines ind (map (fun c => 35 :: c) r)).
      rewrite (line_step fx base dirsel ind Hind (35 :: c) _ g out (trim_comment c W1)).
      rewrite do_line_comment, P. now apply IH.
    Qed.
  End Indented.

  Lemma block_step b rest g out : wf_block b = true -> g_path g = false ->
    PLF (map (fun l => l ++ [10]) (indented_lines b) ++ rest) g None out =
    PLF rest (fold_fields base (sb_fields b) g) None out.
  Proof.
    unfold wf_block. intros W P. apply andb_true_iff in W as [W _]. apply andb_true_iff in W as [W _].
    apply andb_true_iff in W as [W Wf]. apply andb_true_iff in W as [W Wc]. apply andb_true_iff in W as [_ Wi].
    unfold wf_indent in Wi. apply andb_true_iff in Wi as [Wi _].
    rewrite raw_of_indented. unfold block_lines. rewrite raw_lines_app, <- app_assoc.
    rewrite (comments_step (sb_indent b) Wi (sb_comments b) _ g out P Wc).
    apply (fields_step (sb_indent b) Wi). exact Wf.
  Qed.

  Definition read_block (b : sblock) : lentry := default_num fx (spec_lentry base dirsel b).

  Lemma emit_gstart out : emit base (gstart fx dirsel None) out = out.
  Proof. reflexivity. Qed.

  (* blank lines and comment lines between blocks: nothing happens *)
  Lemma noise_step ns : forall rest out, wf_noise ns = true ->
    PLF (map (fun l => l ++ [10]) (noise_lines ns) ++ rest) (gstart fx dirsel None) None out =
    PLF rest (gstart fx dirsel None) None out.
  Proof.
    induction ns as [|o r IH]; intros rest out W; [reflexivity|].
    cbn [wf_noise forallb] in W. apply andb_true_iff in W as [W1 W2].
    cbn [noise_lines map app]. fold (noise_lines r). destruct o as [c|].
    - apply andb_true_iff in W1 as [_ W1].
      change ((35 :: c) ++ [10]) with ([] ++ (35 :: c) ++ [10]).
      rewrite (line_step fx base dirsel [] eq_refl (35 :: c) _ _ out (trim_comment c W1)).
      rewrite do_line_comment. cbn [g_path gstart]. now apply IH.
    - change ([] ++ [10]) with ([] ++ [] ++ [10]) at 1.
      rewrite (line_step fx base dirsel [] eq_refl [] _ _ out eq_refl). cbn [do_line]. rewrite emit_gstart.
      now apply IH.
  Qed.

  Lemma full_step b rest out : wf_block b = true ->
    PLF (map (fun l => l ++ [10]) (full_lines b) ++ rest) (gstart fx dirsel None) None out =
    PLF rest (fold_fields base (sb_fields b) (gstart fx dirsel None)) None out.
  Proof.
    intros W. unfold full_lines. rewrite map_app, <- app_assoc. rewrite noise_step.
    - now apply block_step.
    - unfold wf_block in W. apply andb_true_iff in W as [W _]. apply andb_true_iff in W as [W _].
      apply andb_true_iff in W as [W _]. apply andb_true_iff in W as [W _]. now apply andb_true_iff in W as [W _].
  Qed.

  Lemma trailer_end tr out : wf_noise tr = true ->
    PLF (map (fun l => l ++ [10]) (trailer tr)) (gstart fx dirsel None) None out = Ok (rev out).
  Proof.
    intros W. destruct tr as [|o r]; [reflexivity|]. unfold trailer.
    change (map (fun l => l ++ [10]) ([] :: noise_lines (o :: r)))
      with (([] ++ [] ++ [10]) :: map (fun l => l ++ [10]) (noise_lines (o :: r))).
    rewrite (line_step fx base dirsel [] eq_refl [] _ _ out eq_refl). cbn [do_line]. rewrite emit_gstart.
    rewrite <- (app_nil_r (map (fun l => l ++ [10]) (noise_lines (o :: r)))). rewrite noise_step by exact W.
    reflexivity.
  Qed.

  Lemma lf_parse lf tr : forall out, wf_linkfile lf = true -> wf_noise tr = true ->
    PLF (map (fun l => l ++ [10]) (lf_lines lf ++ trailer tr)) (gstart fx dirsel None) None out =
    Ok (rev out ++ map read_block lf).
  Proof.
    induction lf as [|b r IH]; intros out W Wt.
    - cbn [lf_lines app map]. rewrite trailer_end by exact Wt. now rewrite app_nil_r.
    - cbn [wf_linkfile forallb] in W. apply andb_true_iff in W as [Wb Wr].
      assert (E : emit base (fold_fields base (sb_fields b) (gstart fx dirsel None)) out = read_block b :: out).
      { unfold emit. now rewrite (gfinish_block fx base dirsel b Wb). }
      destruct r as [|b2 r'].
      + cbn [lf_lines]. rewrite map_app. rewrite full_step by exact Wb.
        destruct tr as [|o t].
        * cbn [trailer map plf_loop]. rewrite E. cbn [rev map]. reflexivity.
        * unfold trailer.
          change (map (fun l => l ++ [10]) ([] :: noise_lines (o :: t)))
            with (([] ++ [] ++ [10]) :: map (fun l => l ++ [10]) (noise_lines (o :: t))).
          rewrite (line_step fx base dirsel [] eq_refl [] _ _ out eq_refl). cbn [do_line]. rewrite E.
          rewrite <- (app_nil_r (map (fun l => l ++ [10]) (noise_lines (o :: t)))). rewrite noise_step by exact Wt.
          cbn [plf_loop]. rewrite emit_gstart. cbn [rev map]. reflexivity.
      + change (lf_lines (b :: b2 :: r')) with (full_lines b ++ [] :: lf_lines (b2 :: r')).
        rewrite <- app_assoc, map_app. rewrite full_step by exact Wb.
        change (map (fun l => l ++ [10]) (([] :: lf_lines (b2 :: r')) ++ trailer tr))
          with (([] ++ [] ++ [10]) :: map (fun l => l ++ [10]) (lf_lines (b2 :: r') ++ trailer tr)).
        rewrite (line_step fx base dirsel [] eq_refl [] _ _ out eq_refl). cbn [do_line]. rewrite E.
        rewrite (IH (read_block b :: out) Wr Wt). cbn [rev map]. now rewrite <- app_assoc.
  Qed.
End Whole.

(* ---------- from text to lines ---------- *)
Lemma no_eol_app a b : no_eol (a ++ b) = no_eol a && no_eol b.
Proof.
  unfold no_eol. rewrite !mem_N_app.
  destruct (mem_N 10 a), (mem_N 10 b), (mem_N 13 a), (mem_N 13 b); reflexivity.
Qed.

Lemma digits_no_eol d : all_digits d = true -> no_eol d = true.
Proof.
  intros H. destruct (all_digits_spec d H) as [_ F]. clear H.
  induction d as [|c r IH]; [reflexivity|]. cbn [forallb] in F. apply andb_true_iff in F as [Hc F].
  change (c :: r) with ([c] ++ r). rewrite no_eol_app, (IH F), andb_true_r.
  destruct (digit_cases c Hc) as [->|[->|[->|[->|[->|[->|[->|[->|[->| ->]]]]]]]]]; reflexivity.
Qed.

Lemma forallb_app' {A} (f : A -> bool) a b : forallb f (a ++ b) = forallb f a && forallb f b.
Proof. induction a as [|x r IH]; [reflexivity|]. cbn [app forallb]. now rewrite IH, andb_assoc. Qed.

Lemma field_lines_no_eol f : wf_field f = true -> forallb no_eol (field_lines f) = true.
Proof.
  intros W. destruct f as [v|c|p|h|p|neg d|conts final]; cbn [wf_field] in W.
  - apply andb_true_iff in W as [W _]. cbn [field_lines forallb]. rewrite no_eol_app, W. reflexivity.
  - cbn [field_lines forallb]. rewrite no_eol_app.
    apply andb_true_iff in W as [W W13]. apply andb_true_iff in W as [_ W10].
    apply negb_true_iff in W13. apply negb_true_iff in W10.
    unfold no_eol at 2. cbn [mem_N]. rewrite (N.eqb_sym 10 c), (N.eqb_sym 13 c), W10, W13. reflexivity.
  - cbn [field_lines forallb]. rewrite no_eol_app. unfold wf_path in W.
    apply andb_true_iff in W as [W _]. apply andb_true_iff in W as [W _]. apply andb_true_iff in W as [W _].
    rewrite W. reflexivity.
  - destruct h as [|h]; [reflexivity|]. apply andb_true_iff in W as [W _]. apply andb_true_iff in W as [W _].
    cbn [field_lines forallb]. rewrite no_eol_app, W. reflexivity.
  - destruct p as [|d]; [reflexivity|]. cbn [field_lines forallb]. rewrite no_eol_app, (digits_no_eol d W). reflexivity.
  - cbn [field_lines forallb]. rewrite no_eol_app. destruct neg.
    + change (45 :: d) with ([45] ++ d). rewrite no_eol_app, (digits_no_eol d W). reflexivity.
    + rewrite (digits_no_eol d W). reflexivity.
  - apply andb_true_iff in W as [W _]. apply andb_true_iff in W as [W _].
    apply andb_true_iff in W as [W _]. apply andb_true_iff in W as [Wc Wf].
    destruct conts as [|c cs].
    + cbn [field_lines forallb]. rewrite no_eol_app, Wf. reflexivity.
    + cbn [forallb] in Wc. apply andb_true_iff in Wc as [Wc1 Wc2].
      assert (M : forallb no_eol (map (fun l => l ++ [92]) cs) = true).
      { clear - Wc2. induction cs as [|x r IH]; [reflexivity|].
        cbn [forallb] in Wc2. apply andb_true_iff in Wc2 as [H1 H2].
        cbn [map forallb]. rewrite no_eol_app, H1, (IH H2). reflexivity. }
      cbn [field_lines forallb]. rewrite !no_eol_app, Wc1. cbn [andb].
      rewrite forallb_app', M. cbn [forallb]. rewrite Wf. reflexivity.
Qed.

Lemma noise_lines_no_eol ns : wf_noise ns = true -> forallb no_eol (noise_lines ns) = true.
Proof.
  induction ns as [|o r IH]; [reflexivity|]. cbn [wf_noise forallb]. intros W. apply andb_true_iff in W as [W1 W2].
  cbn [noise_lines map forallb]. fold (noise_lines r). rewrite (IH W2), andb_true_r.
  destruct o as [c|]; [|reflexivity]. apply andb_true_iff in W1 as [W1 _].
  change (35 :: c) with ([35] ++ c). now rewrite no_eol_app, W1.
Qed.

Lemma block_lines_no_eol b : wf_block b = true -> forallb no_eol (full_lines b) = true.
Proof.
  unfold wf_block. intros W. apply andb_true_iff in W as [W _]. apply andb_true_iff in W as [W _].
  apply andb_true_iff in W as [W Wf]. apply andb_true_iff in W as [W Wc]. apply andb_true_iff in W as [Wn Wi].
  unfold wf_indent in Wi. apply andb_true_iff in Wi as [_ Wi].
  assert (B : forallb no_eol (block_lines b) = true).
  { unfold block_lines. rewrite forallb_app'. apply andb_true_iff. split.
    - clear Wf. induction (sb_comments b) as [|c r IH]; [reflexivity|].
      cbn [forallb] in Wc. apply andb_true_iff in Wc as [H1 H2]. apply andb_true_iff in H1 as [H1 _].
      cbn [map forallb]. change (35 :: c) with ([35] ++ c). rewrite no_eol_app, H1, (IH H2). reflexivity.
    - clear Wc. induction (sb_fields b) as [|f r IH]; [reflexivity|].
      cbn [forallb] in Wf. apply andb_true_iff in Wf as [H1 H2].
      cbn [map concat]. rewrite forallb_app', (field_lines_no_eol f H1), (IH H2). reflexivity. }
  unfold full_lines. rewrite forallb_app', (noise_lines_no_eol _ Wn). cbn [andb].
  unfold indented_lines. induction (block_lines b) as [|l r IH]; [reflexivity|].
  cbn [forallb] in B. apply andb_true_iff in B as [B1 B2].
  cbn [map forallb]. rewrite no_eol_app, Wi, B1, (IH B2). reflexivity.
Qed.

Lemma lf_lines_no_eol lf : wf_linkfile lf = true -> forallb no_eol (lf_lines lf) = true.
Proof.
  induction lf as [|b r IH]; [reflexivity|]. intros W. cbn [wf_linkfile forallb] in W.
  apply andb_true_iff in W as [Wb Wr]. destruct r as [|b2 r'].
  - cbn [lf_lines]. now apply block_lines_no_eol.
  - change (lf_lines (b :: b2 :: r')) with (full_lines b ++ [] :: lf_lines (b2 :: r')).
    rewrite forallb_app'. cbn [forallb]. rewrite (block_lines_no_eol b Wb). now rewrite (IH Wr).
Qed.

Lemma trailer_no_eol tr : wf_noise tr = true -> forallb no_eol (trailer tr) = true.
Proof. intros W. destruct tr; [reflexivity|]. unfold trailer. cbn [forallb]. now apply noise_lines_no_eol. Qed.

Theorem parse_wf_blocks_trailing fx base dirsel lf tr :
  wf_linkfile lf = true -> wf_noise tr = true ->
  process_link_file fx base dirsel None (render_linkfile_trailing lf tr) =
  Ok (map (fun b => default_num fx (spec_lentry base dirsel b)) lf).
Proof.
  intros W Wt.
  assert (NE : forallb no_eol (lf_lines lf ++ trailer tr) = true)
    by (rewrite forallb_app', (lf_lines_no_eol lf W), (trailer_no_eol tr Wt); reflexivity).
  unfold process_link_file, render_linkfile_trailing.
  rewrite universal_newlines_id.
  2:{ rewrite mem_N_concat_lines. apply not_true_is_false. intro E. apply existsb_exists in E as (l & I & El).
      rewrite forallb_forall in NE. specialize (NE l I). unfold no_eol in NE.
      apply andb_true_iff in NE as [_ N13]. apply negb_true_iff in N13. rewrite N13 in El. discriminate. }
  rewrite lines_keepends_lines.
  2:{ apply forallb_forall. intros l I. rewrite forallb_forall in NE. specialize (NE l I). unfold no_eol in NE.
      now apply andb_true_iff in NE as [N10 _]. }
  rewrite (lf_parse fx base dirsel lf tr [] W Wt). reflexivity.
Qed.

Theorem parse_wf_blocks fx base dirsel lf :
  wf_linkfile lf = true ->
  process_link_file fx base dirsel None (render_linkfile lf) =
  Ok (map (fun b => default_num fx (spec_lentry base dirsel b)) lf).
Proof.
  intros W. pose proof (parse_wf_blocks_trailing fx base dirsel lf [] W eq_refl) as H.
  unfold render_linkfile_trailing in H. cbn [trailer] in H. rewrite app_nil_r in H. exact H.
Qed.
