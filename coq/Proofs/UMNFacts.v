(* UMNFacts.v — the link-file parser of the model reads a well-formed link file
   exactly as the reference reading (Model/UMNSpec.v) says. *)
From Coq Require Import ZArith Lia String.
From PG Require Import Lib.Str Lib.StrFacts Lib.Cmp Model.DirEntry Model.UMN Model.UMNSpec.
Local Open Scope N_scope.

(* ---------- strings ---------- *)
Lemma mem_N_cons c x r : mem_N c (x :: r) = (c =? x) || mem_N c r.
Proof. reflexivity. Qed.

Lemma un_cons c r : c <> 13 -> universal_newlines (c :: r) = c :: universal_newlines r.
Proof.
  intros H. destruct c as [|p]; [reflexivity|].
  do 4 (try (destruct p as [p|p|]; try reflexivity)).
  exfalso. apply H. reflexivity.
Qed.

Lemma universal_newlines_id s : mem_N 13 s = false -> universal_newlines s = s.
Proof.
  induction s as [|c r IH]; [reflexivity|]. intros H. rewrite mem_N_cons in H.
  apply orb_false_iff in H as [H1 H2]. apply N.eqb_neq in H1.
  rewrite un_cons by congruence. now rewrite IH.
Qed.

Lemma mem_N_app c a b : mem_N c (a ++ b) = mem_N c a || mem_N c b.
Proof. induction a as [|x r IH]; [reflexivity|]. simpl app. now rewrite !mem_N_cons, IH, orb_assoc. Qed.

Lemma mem_N_concat_lines c (ls : list str) :
  mem_N c (concat (map (fun l => l ++ [10]) ls)) = existsb (fun l => mem_N c l || (c =? 10)) ls.
Proof.
  induction ls as [|l r IH]; [reflexivity|]. cbn [map concat existsb].
  rewrite mem_N_app, mem_N_app, IH, mem_N_cons. cbn [mem_N]. now rewrite orb_false_r.
Qed.

Lemma lines_keepends_aux_line cur l rest :
  mem_N 10 l = false ->
  lines_keepends_aux cur (l ++ 10 :: rest) = (rev cur ++ l ++ [10]) :: lines_keepends_aux [] rest.
Proof.
  revert cur. induction l as [|c r IH]; intros cur H.
  - reflexivity.
  - rewrite mem_N_cons in H. apply orb_false_iff in H as [H1 H2].
    assert (E : (c =? 10) = false) by (rewrite N.eqb_sym; exact H1).
    change ((c :: r) ++ 10 :: rest) with (c :: (r ++ 10 :: rest)). cbn [lines_keepends_aux]. rewrite E.
    rewrite IH by exact H2. cbn [rev]. now rewrite <- app_assoc.
Qed.

Lemma lines_keepends_lines (ls : list str) :
  forallb (fun l => negb (mem_N 10 l)) ls = true ->
  lines_keepends (concat (map (fun l => l ++ [10]) ls)) = map (fun l => l ++ [10]) ls.
Proof.
  unfold lines_keepends. induction ls as [|l r IH]; intros H; [reflexivity|].
  simpl in H. apply andb_true_iff in H as [H1 H2]. apply negb_true_iff in H1.
  simpl. rewrite <- app_assoc. simpl. rewrite lines_keepends_aux_line by exact H1.
  simpl. now rewrite IH.
Qed.

Lemma lstrip_nonspace c r : is_space c = false -> lstrip (c :: r) = c :: r.
Proof. intros H. simpl. now rewrite H. Qed.
Lemma lstrip_nl t : lstrip (10 :: t) = lstrip t.
Proof. reflexivity. Qed.
Lemma rev_last (l : str) : l <> [] -> rev l = last l 0 :: rev (removelast l).
Proof. intros H. rewrite (app_removelast_last 0 H) at 1. now rewrite rev_unit. Qed.

Lemma rstrip_line l : (l = [] \/ is_space (last l 0) = false) -> rstrip (l ++ [10]) = l.
Proof.
  intros H. unfold rstrip. rewrite rev_unit, lstrip_nl.
  destruct l as [|c r]; [reflexivity|]. destruct H as [H|H]; [discriminate|].
  assert (NE : c :: r <> []) by (intro; discriminate).
  rewrite (rev_last (c :: r) NE). rewrite lstrip_nonspace by exact H.
  rewrite <- (rev_last (c :: r) NE). apply rev_involutive.
Qed.

Lemma strip_line l : trimmed l = true -> strip (l ++ [10]) = l.
Proof.
  destruct l as [|c r]; [reflexivity|]. intros H. unfold trimmed in H.
  apply andb_true_iff in H as [H1 H2]. apply negb_true_iff in H1. apply negb_true_iff in H2.
  unfold strip. change ((c :: r) ++ [10]) with (c :: (r ++ [10])).
  rewrite lstrip_nonspace by exact H1.
  change (c :: r ++ [10]) with ((c :: r) ++ [10]). apply rstrip_line. now right.
Qed.

Lemma last_app_nonempty {A} (a b : list A) d : b <> [] -> last (a ++ b) d = last b d.
Proof.
  induction a as [|x r IH]; intros H; [reflexivity|].
  change ((x :: r) ++ b) with (x :: (r ++ b)).
  destruct (r ++ b) as [|y l] eqn:E.
  - apply app_eq_nil in E as [_ E]. contradiction.
  - change (last (y :: l) d = last b d). apply IH, H.
Qed.

Lemma last_snoc {A} (a : list A) x d : last (a ++ [x]) d = x.
Proof. rewrite last_app_nonempty by discriminate. reflexivity. Qed.

Lemma last_is_snoc c s x : last_is c (s ++ [x]) = (x =? c).
Proof. unfold last_is. now rewrite last_char_app. Qed.

Lemma last_is_last c s : s <> [] -> last_is c s = (last s 0 =? c).
Proof.
  intros H. unfold last_is, last_char. destruct s; [contradiction | reflexivity].
Qed.

(* a key prefix followed by a value: stripping only looks at the value's end *)
Lemma trimmed_cons c r : trimmed (c :: r) = negb (is_space c) && negb (is_space (last (c :: r) 0)).
Proof. reflexivity. Qed.

Lemma trimmed_key_value k0 k v :
  is_space k0 = false -> is_space (last (k0 :: k) 0) = false -> no_trailing_space v = true ->
  trimmed ((k0 :: k) ++ v) = true.
Proof.
  intros H0 Hl Hv. change ((k0 :: k) ++ v) with (k0 :: (k ++ v)). rewrite trimmed_cons, H0.
  change (k0 :: k ++ v) with ((k0 :: k) ++ v).
  destruct v as [|x r].
  - rewrite app_nil_r, Hl. reflexivity.
  - rewrite last_app_nonempty by discriminate. unfold no_trailing_space in Hv. now rewrite Hv.
Qed.
