(* The "shared state" hypothesis of the C14 model, checked against the source:
   Gen/Globals.v is regenerated from pygopherd/**/*.py on every run. *)
From Coq Require Import String.
From PG Require Import Lib.Str Gen.Globals Gen.ServerSite.
Local Open Scope N_scope.

Definition pair_eqb (a b : str * str) : bool := str_eqb (fst a) (fst b) && str_eqb (snd a) (snd b).
Definition triple_eqb (a b : str * str * str) : bool :=
  pair_eqb (fst a) (fst b) && str_eqb (snd a) (snd b).
Definition mem_pair (x : str * str) (l : list (str * str)) : bool := existsb (pair_eqb x) l.
Definition mem_triple (x : str * str * str) (l : list (str * str * str)) : bool := existsb (triple_eqb x) l.

Definition L2 (m n : String.string) : str * str := (lit m, lit n).
Definition L3 (m f n : String.string) : str * str * str := (lit m, lit f, lit n).

(* the lazily initialised tables of Model/Conc.v (`lazies`), as (module, name) *)
Definition modelled_lazies : list (str * str) :=
  [ L2 "handlers.HandlerMultiplexer" "handlers"; L2 "handlers.HandlerMultiplexer" "rootpath";
    L2 "handlers.base" "rootpath"; L2 "gopherentry" "mapping"; L2 "gopherentry" "eaexts";
    L2 "handlers.UMN" "extstrip" ]%string.

(* module state written only by functions that initialization.initialize() calls before
   the server starts serving (init_logger, init_exceptions, init_mimetypes, init_signal_handlers) *)
Definition startup_only : list (str * str * str) :=
  [ L3 "GopherExceptions" "init" "tracebacks";
    L3 "logger" "init" "log"; L3 "logger" "init" "priority"; L3 "logger" "init" "facility";
    L3 "logger" "init" "syslogfunc";
    L3 "sighandlers" "setsigtermhandler" "pid";
    L3 "fileext" "init" "typemap" ]%string.

Definition mod_name (g : str * str * str) : str * str := (fst (fst g), snd g).

(* 1. every `global` statement concerns a modelled lazy table or start-up-only state;
   2. every in-place mutation of a module-level container happens at start-up only;
   3. every modelled lazy table is really declared `global` somewhere (the model is not stale),
      starts as None, and is only ever assigned a value read from the configuration *)
(* process-wide os state (environment, working directory, umask) written after start-up: nothing.
   init_security's chdir belongs to initialization.initialize(). *)
Definition process_state_startup : list (str * str * str) := [ L3 "initialization" "init_security" "chdir" ]%string.

(* pygopherd/server.py: the socketserver hooks the server classes define, and every attribute of the server object
   that is assigned anywhere -- all of it at construction/bind time, except the forking server's active_children,
   which only the master touches.  Connections share nothing through the server object. *)
Definition server_methods_expected : list (str * str) :=
  [ L2 "BaseServer" "__init__"; L2 "BaseServer" "server_bind"; L2 "BaseServer" "wrap_socket";
    L2 "ForkingTCPServer" "process_request"; L2 "GopherRequestHandler" "handle";
    L2 "ThreadingTCPServer" "process_request_thread" ]%string.
Definition server_writes_expected : list (str * str * str) :=
  [ L3 "BaseServer" "__init__" "self.config"; L3 "BaseServer" "__init__" "self.context";
    L3 "BaseServer" "server_bind" "self.server_name"; L3 "BaseServer" "server_bind" "self.server_port";
    L3 "ForkingTCPServer" "process_request" "self.active_children";
    L3 "ForkingTCPServer" "process_request" "self.active_children.add" ]%string.
Definition server_class_attrs_expected : list (str * str) := [ L2 "BaseServer" "allow_reuse_address" ]%string.

Definition server_site_check : bool :=
  list_eqb pair_eqb server_methods server_methods_expected &&
  list_eqb triple_eqb server_attr_writes server_writes_expected &&
  list_eqb pair_eqb server_class_attrs server_class_attrs_expected &&
  forallb (fun g => mem_triple g process_state_startup) process_state_writes.

Definition shared_state_check : bool :=
  server_site_check &&
  forallb (fun g => mem_pair (mod_name g) modelled_lazies || mem_triple g startup_only) global_statements &&
  forallb (fun g => mem_triple g startup_only) container_mutations &&
  forallb (fun m => existsb (fun g => pair_eqb (mod_name g) m) global_statements) modelled_lazies &&
  forallb (fun m => existsb (fun a => pair_eqb (fst (fst a), snd (fst a)) m && str_eqb (snd a) (lit "none"%string))
                            module_assignments) modelled_lazies &&
  forallb (fun s => let '(md, fn, nm, kind) := s in
                    negb (mem_pair (md, nm) modelled_lazies) || str_eqb kind (lit "config"%string)) global_sources &&
  forallb (fun m => existsb (fun s => let '(md, fn, nm, kind) := s in pair_eqb (md, nm) m) global_sources) modelled_lazies.

Lemma shared_state_covered : shared_state_check = true.
Proof. vm_compute. reflexivity. Qed.
