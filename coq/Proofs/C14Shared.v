(* The "shared state" hypothesis of the C14 model, checked against the source:
   Gen/Globals.v is regenerated from pygopherd/**/*.py on every run. *)
From Coq Require Import String.
From PG Require Import Lib.Str Gen.Globals.
Local Open Scope N_scope.

Definition pair_eqb (a b : str * str) : bool := str_eqb (fst a) (fst b) && str_eqb (snd a) (snd b).
Definition triple_eqb (a b : str * str * str) : bool :=
  pair_eqb (fst a) (fst b) && str_eqb (snd a) (snd b).
Definition mem_pair (x : str * str) (l : list (str * str)) : bool := existsb (pair_eqb x) l.
Definition mem_triple (x : str * str * str) (l : list (str * str * str)) : bool := existsb (triple_eqb x) l.

Definition L2 (m n : String.string) : str * str := (lit m, lit n).
Definition L3 (m f n : String.string) : str * str * str := (lit m, lit f, lit n).

(* the lazily initialised tables of Model/Conc.v (`lazies`), as (module, name) *)
Definition modelled_lazies : list (str * str) :=
  [ L2 "handlers.HandlerMultiplexer" "handlers"; L2 "handlers.HandlerMultiplexer" "rootpath";
    L2 "handlers.base" "rootpath"; L2 "gopherentry" "mapping"; L2 "gopherentry" "eaexts";
    L2 "handlers.UMN" "extstrip" ]%string.

(* module state written only by functions that initialization.initialize() calls before
   the server starts serving (init_logger, init_exceptions, init_mimetypes, init_signal_handlers) *)
Definition startup_only : list (str * str * str) :=
  [ L3 "GopherExceptions" "init" "tracebacks";
    L3 "logger" "init" "log"; L3 "logger" "init" "priority"; L3 "logger" "init" "facility";
    L3 "logger" "init" "syslogfunc";
    L3 "sighandlers" "setsigtermhandler" "pid";
    L3 "fileext" "init" "typemap" ]%string.

Definition mod_name (g : str * str * str) : str * str := (fst (fst g), snd g).

(* 1. every `global` statement concerns a modelled lazy table or start-up-only state;
   2. every in-place mutation of a module-level container happens at start-up only;
   3. every modelled lazy table is really declared `global` somewhere (the model is not stale),
      starts as None, and is only ever assigned a value read from the configuration *)
Definition shared_state_check : bool :=
  forallb (fun g => mem_pair (mod_name g) modelled_lazies || mem_triple g startup_only) global_statements &&
  forallb (fun g => mem_triple g startup_only) container_mutations &&
  forallb (fun m => existsb (fun g => pair_eqb (mod_name g) m) global_statements) modelled_lazies &&
  forallb (fun m => existsb (fun a => pair_eqb (fst (fst a), snd (fst a)) m && str_eqb (snd a) (lit "none"%string))
                            module_assignments) modelled_lazies &&
  forallb (fun s => let '(md, fn, nm, kind) := s in
                    negb (mem_pair (md, nm) modelled_lazies) || str_eqb kind (lit "config"%string)) global_sources &&
  forallb (fun m => existsb (fun s => let '(md, fn, nm, kind) := s in pair_eqb (md, nm) m) global_sources) modelled_lazies.

Lemma shared_state_covered : shared_state_check = true.
Proof. vm_compute. reflexivity. Qed.
