(* Facts about the interleaving model Model/Conc.v: invariants preserved by every
   atomic action of every request, lifted over arbitrary schedules by induction
   over fold_left. *)
From Coq Require Import ZArith List Bool Arith Lia.
From PG Require Import Lib.Str Model.Cache Model.Conc.
Import ListNotations.

(* ---------- lists ---------- *)
Lemma nth_skipn_N (l : list N) : forall n j d, nth j (skipn n l) d = nth (n + j) l d.
Proof.
  induction l as [|x l IH]; intros n j d.
  - rewrite skipn_nil. destruct j, n; reflexivity.
  - destruct n; simpl; [reflexivity|apply IH].
Qed.

Lemma skipn_skipn_N (l : list N) : forall a b, skipn a (skipn b l) = skipn (b + a) l.
Proof.
  induction l as [|x l IH]; intros a b.
  - now rewrite !skipn_nil.
  - destruct b; simpl; [reflexivity|apply IH].
Qed.

Lemma skipn_app_exact (c r : list N) : skipn (List.length c) (c ++ r) = r.
Proof. induction c; simpl; auto. Qed.

Section Chunks.
  Variable T : list N.
  Lemma chunk_nth c r off j :
    c ++ r = skipn off T -> j < List.length c -> nth j c 0%N = nth (off + j) T 0%N.
  Proof.
    intros E Hj. rewrite <- nth_skipn_N, <- E. now rewrite app_nth1.
  Qed.
  Lemma chunk_rest c r off : c ++ r = skipn off T -> r = skipn (off + List.length c) T.
  Proof.
    intros E. rewrite <- skipn_skipn_N, <- E. now rewrite skipn_app_exact.
  Qed.
  Lemma chunk_len c r off : c ++ r = skipn off T -> off <= List.length T -> off + List.length c <= List.length T.
  Proof.
    intros E H. apply (f_equal (@List.length N)) in E. rewrite app_length, skipn_length in E. lia.
  Qed.
End Chunks.

Lemma firstn_as_map (T : list N) : forall n, n <= List.length T ->
  firstn n T = map (fun k => nth k T 0%N) (seq 0 n).
Proof.
  induction T as [|x T IH]; intros n H.
  - simpl in H. assert (n = 0) by lia. subst. reflexivity.
  - destruct n; [reflexivity|]. simpl in H. simpl. f_equal.
    rewrite <- seq_shift, map_map. apply IH. lia.
Qed.

Section Facts.
  Variables L V : Type.
  Variable target : L.
  Variable enc : L -> bytes.
  Variable decode : bytes -> option L.
  Variable fresh : Z -> bool.
  Variable wtime : Z.
  Variable compute : nat -> V.

  Notation T := (enc target).
  Notation shared := (shared V).
  Notation thread := (thread L).
  Notation state := (state L V).
  Notation tstep := (@Conc.tstep L V target decode fresh wtime compute).
  Notation step := (@Conc.step L V target decode fresh wtime compute).
  Notation run := (@Conc.run L V target decode fresh wtime compute).
  Notation sequential := (@Conc.sequential L V target decode fresh).
  Notation warm := (@Conc.warm L V decode fresh).
  Notation after_lazies := (@Conc.after_lazies L).
  Notation after_write := (@Conc.after_write L).
  Notation is_prefix := (is_prefix target enc).
  Notation is_damaged := (is_damaged target enc).

  (* ---------- file contents ---------- *)
  Lemma prefix_damaged c : is_prefix c -> is_damaged c.
  Proof. intros [A B]. split; [exact A|]. intros k Hk. left. now apply B. Qed.

  Lemma empty_prefix : is_prefix fempty.
  Proof. split; simpl; [lia|]. intros k Hk. lia. Qed.

  Lemma write_at_damaged cur c r off :
    is_damaged cur -> c ++ r = skipn off T -> off <= List.length T -> is_damaged (write_at off c cur).
  Proof.
    intros [A B] E Ho. pose proof (chunk_len T c r off E Ho) as Hl.
    split; simpl; [lia|]. intros k Hk.
    destruct (off <=? k) eqn:E1; simpl.
    - apply Nat.leb_le in E1. destruct (k <? off + List.length c) eqn:E2.
      + apply Nat.ltb_lt in E2. left. rewrite (chunk_nth T c r off (k - off) E) by lia. f_equal. lia.
      + destruct (k <? flen cur) eqn:E3; [apply Nat.ltb_lt in E3; now apply B|now right].
    - destruct (k <? flen cur) eqn:E3; [apply Nat.ltb_lt in E3; now apply B|now right].
  Qed.

  Lemma write_at_prefix cur c r off :
    is_prefix cur -> off <= flen cur -> c ++ r = skipn off T -> off <= List.length T ->
    is_prefix (write_at off c cur).
  Proof.
    intros [A B] Hf E Ho. pose proof (chunk_len T c r off E Ho) as Hl.
    split; simpl; [lia|]. intros k Hk.
    destruct (off <=? k) eqn:E1; simpl.
    - apply Nat.leb_le in E1. destruct (k <? off + List.length c) eqn:E2.
      + apply Nat.ltb_lt in E2. rewrite (chunk_nth T c r off (k - off) E) by lia. f_equal. lia.
      + apply Nat.ltb_ge in E2. destruct (k <? flen cur) eqn:E3; [apply Nat.ltb_lt in E3; now apply B|].
        apply Nat.ltb_ge in E3. lia.
    - apply Nat.leb_gt in E1. destruct (k <? flen cur) eqn:E3; [apply Nat.ltb_lt in E3; now apply B|].
      apply Nat.ltb_ge in E3. lia.
  Qed.

  Lemma prefix_read c : is_prefix c -> fread c = firstn (flen c) T.
  Proof.
    intros [A B]. unfold fread. rewrite (firstn_as_map T (flen c) A).
    apply map_ext_in. intros k Hk. apply in_seq in Hk. apply B. lia.
  Qed.

  (* the two codec facts of C11 give: a prefix of the complete file that decodes is the complete file *)
  Lemma prefix_decodes_right :
    (forall l, decode (enc l) = Some l) ->
    (forall l g, strict_prefix g (enc l) -> decode g = None) ->
    forall c l, is_prefix c -> decode (fread c) = Some l -> l = target.
  Proof.
    intros RT PF c l P Dl. rewrite (prefix_read c P) in Dl. destruct P as [A _].
    destruct (Nat.eq_dec (flen c) (List.length T)) as [E|E].
    - rewrite E, firstn_all, RT in Dl. now injection Dl.
    - rewrite (PF target (firstn (flen c) T)) in Dl; [discriminate|].
      exists (skipn (flen c) T). split.
      + intros H. apply (f_equal (@List.length N)) in H. rewrite skipn_length in H. simpl in H. lia.
      + symmetry. apply firstn_skipn.
  Qed.

  (* ---------- per-request and shared invariants ---------- *)
  Definition miss_phase (p : pc L) : Prop :=
    match p with
    | PLazies _ _ ToList | PListDir | POpen | PWrite _ _ | PClose => True
    | _ => False
    end.
  Definition past_open (p : pc L) : Prop :=
    match p with PWrite _ _ | PClose => True | _ => False end.

  Record TI (rep : bool) (s0 s : shared) (t : thread) : Prop := mkTI {
    ti_chunks : concat (tchunks t) = T;
    ti_write : forall off cs, tpc t = PWrite off cs -> concat cs = skipn off T /\ off <= List.length T;
    ti_read : tpc t = PRead -> written s = true \/ exists m c, file s0 = Some (m, c) /\ fresh m = true;
    ti_answer : forall l, tpc t = PRespond l \/ tpc t = PDone (CServed l) -> l = sequential s0;
    ti_crash : tpc t = PDone CCrashed -> rep = false;
    ti_miss : miss_phase (tpc t) -> warm s0 = None;
    ti_past : past_open (tpc t) -> written s = true
  }.

  Record SI (s0 s : shared) : Prop := mkSI {
    si_lazies : forall k, lazies s k = None \/ lazies s k = Some (compute k);
    si_unwritten : written s = false -> file s = file s0;
    si_written : written s = true -> exists m c, file s = Some (m, c);
    si_cold : written s = true -> warm s0 = None
  }.

  Definition good_content (s : shared) : Prop :=
    written s = true -> forall m c l, file s = Some (m, c) -> decode (fread c) = Some l -> l = target.

  Definition Main (rep : bool) (s0 : shared) (st : state) : Prop :=
    SI s0 (sh st) /\ forall j, TI rep s0 (sh st) (th st j).

  Lemma TI_mono rep s0 s s' t :
    TI rep s0 s t -> (written s = true -> written s' = true) -> TI rep s0 s' t.
  Proof.
    intros [A B C D E F G] H. constructor; auto.
    - intros Hp. destruct (C Hp) as [W|W]; auto.
  Qed.

  Lemma sequential_cold s0 : warm s0 = None -> sequential s0 = target.
  Proof. unfold Conc.sequential. now intros ->. Qed.

  Lemma after_lazies_cases ks c :
    after_lazies ks c = cont_pc L c \/ after_lazies ks c = PLazies ks false c.
  Proof. destruct ks; simpl; auto. Qed.

  (* a request that has just been routed to (the lazies before) ListDir or Stat *)
  Lemma TI_route rep s0 s t ks c :
    TI rep s0 s t -> (c = ToList -> warm s0 = None) ->
    TI rep s0 s (setpc L t (after_lazies ks c)).
  Proof.
    intros [A B C D E F G] Hc.
    constructor; simpl; auto;
      destruct (after_lazies_cases ks c) as [-> | ->]; destruct c; simpl;
      try discriminate; try tauto; try (intros; discriminate);
      try (intros l [H|H]; discriminate); auto.
  Qed.

  Lemma upd_same {A} (f : nat -> A) i x : upd f i x i = x.
  Proof. unfold upd. now rewrite Nat.eqb_refl. Qed.
  Lemma upd_other {A} (f : nat -> A) i x j : j <> i -> upd f i x j = f j.
  Proof. unfold upd. intros H. apply Nat.eqb_neq in H. now rewrite H. Qed.

  Lemma Main_step rep s0 st i :
    Main rep s0 st -> good_content (sh st) -> Main rep s0 (step rep st i).
  Proof.
    intros [HS HT] GC. pose proof (HT i) as Hi.
    unfold Conc.step. destruct (tstep rep i (sh st) (th st i)) as [s' t'] eqn:Es.
    (* it suffices to give the new shared invariant, monotonicity of `written`, and TI for the mover *)
    assert (Suff : SI s0 s' -> (written (sh st) = true -> written s' = true) -> TI rep s0 s' t' ->
                   Main rep s0 (mkst s' (upd (th st) i t'))).
    { intros A B C. split; [exact A|]. intros j. simpl. destruct (Nat.eq_dec j i) as [->|N].
      - now rewrite upd_same.
      - rewrite upd_other by exact N. eapply TI_mono; [apply HT|exact B]. }
    unfold Conc.tstep in Es. pose proof HS as [SL SU SW SC]. pose proof Hi as [A B C D E F G].
    destruct (tpc (th st i)) as [ks b c| | | | |off cs| |l|r] eqn:Ep.
    - (* lazies *)
      destruct ks as [|k ks].
      + injection Es as <- <-. apply Suff; [exact HS|auto|].
        constructor; simpl; auto; destruct c; simpl; try discriminate; try tauto;
          try (intros l [H|H]; discriminate); auto.
      + destruct b.
        * injection Es as <- <-. apply Suff; [|auto|].
          -- constructor; simpl; auto. intros k'. unfold upd. destruct (Nat.eqb_spec k' k) as [->|]; auto.
          -- apply TI_route; [|intros ->; apply F; exact I].
             apply (TI_mono rep s0 (sh st)); [exact Hi|auto].
        * destruct (lazies (sh st) k).
          -- injection Es as <- <-. apply Suff; [exact HS|auto|].
             apply TI_route; [exact Hi|intros ->; apply F; exact I].
          -- injection Es as <- <-. apply Suff; [exact HS|auto|].
             constructor; simpl; auto; try discriminate; try (intros l [H|H]; discriminate).
    - (* stat *)
      assert (Cold : forall m c, file (sh st) = Some (m, c) -> fresh m = false -> warm s0 = None).
      { intros m c Ef Fr. destruct (written (sh st)) eqn:W; [now apply SC|].
        unfold Conc.warm. rewrite <- (SU eq_refl), Ef, Fr. reflexivity. }
      destruct (file (sh st)) as [[m c]|] eqn:Ef.
      + injection Es as <- <-. apply Suff; [exact HS|auto|]. destruct (fresh m) eqn:Fr.
        * constructor; simpl; auto; try discriminate; try tauto; try (intros l [H|H]; discriminate).
          intros _. destruct (written (sh st)) eqn:W; [now left|right].
          exists m, c. split; [|exact Fr]. symmetry. now apply SU.
        * apply TI_route; [exact Hi|]. intros _. now apply (Cold m c).
      + injection Es as <- <-. apply Suff; [exact HS|auto|].
        apply TI_route; [exact Hi|]. intros _.
        destruct (written (sh st)) eqn:W; [now apply SC|].
        unfold Conc.warm. now rewrite <- (SU eq_refl).
    - (* read *)
      destruct (file (sh st)) as [[m c]|] eqn:Ef.
      + destruct (decode (fread c)) as [l|] eqn:Dl.
        * injection Es as <- <-. apply Suff; [exact HS|auto|].
          constructor; simpl; auto; try discriminate; try tauto.
          intros l' [H|H]; [|discriminate]. injection H as <-.
          destruct (written (sh st)) eqn:W.
          -- rewrite (GC W m c l Ef Dl). symmetry. apply sequential_cold. now apply SC.
          -- destruct (C eq_refl) as [X|[m0 [c0 [E0 Fr]]]]; [discriminate|].
             unfold Conc.sequential, Conc.warm. rewrite <- (SU eq_refl) in E0. injection E0 as <- <-.
             rewrite <- (SU eq_refl), Fr, Dl. reflexivity.
        * assert (Cold : warm s0 = None).
          { destruct (written (sh st)) eqn:W; [now apply SC|].
            unfold Conc.warm. rewrite <- (SU eq_refl), Dl. now destruct (fresh m). }
          injection Es as <- <-. apply Suff; [exact HS|auto|]. destruct rep.
          -- apply TI_route; [exact Hi|auto].
          -- constructor; simpl; auto; try discriminate; try tauto; try (intros l [H|H]; discriminate).
      + exfalso. destruct (C eq_refl) as [W|[m0 [c0 [E0 Fr]]]].
        * destruct (SW W) as [m [c X]]. congruence.
        * destruct (written (sh st)) eqn:W.
          -- destruct (SW eq_refl) as [m [c X]]. congruence.
          -- rewrite <- (SU eq_refl) in E0. congruence.
    - (* listdir *)
      injection Es as <- <-. apply Suff; [exact HS|auto|].
      constructor; simpl; auto; try discriminate; try tauto; try (intros l [H|H]; discriminate).
    - (* open *)
      injection Es as <- <-. apply Suff.
      + constructor; simpl; auto; try discriminate; intros _; [eauto|apply F; exact I].
      + auto.
      + destruct (tchunks (th st i)) as [|c0 cs0] eqn:Ec; simpl.
        * constructor; simpl; auto; try discriminate; try tauto; try (intros l [H|H]; discriminate).
          now rewrite Ec.
        * constructor; simpl; auto; try discriminate; try tauto; try (intros l [H|H]; discriminate).
          -- now rewrite Ec.
          -- intros off cs H. injection H as <- <-. split; [first [exact A | simpl in A; exact A | rewrite <- Ec; exact A]|lia].
    - (* write *)
      destruct (B off cs eq_refl) as [Ecs Ho]. pose proof (G I) as W.
      destruct cs as [|c cs].
      + injection Es as <- <-. apply Suff; [exact HS|auto|].
        constructor; simpl; auto; try discriminate; try tauto; try (intros l [H|H]; discriminate).
      + injection Es as <- <-. simpl in Ecs. apply Suff.
        * constructor; simpl; auto; [congruence|eauto].
        * auto.
        * pose proof (chunk_rest T c (concat cs) off Ecs) as Er.
          pose proof (chunk_len T c (concat cs) off Ecs Ho) as El.
          destruct cs as [|c1 cs1]; simpl.
          -- constructor; simpl; auto; try discriminate; try tauto; try (intros l [H|H]; discriminate).
          -- constructor; simpl; auto; try discriminate; try tauto; try (intros l [H|H]; discriminate).
             intros off' cs' H. injection H as <- <-. split; [exact Er|exact El].
    - (* close *)
      injection Es as <- <-. apply Suff; [constructor; auto|auto|].
      constructor; simpl; auto; try discriminate; try tauto.
      intros l [H|H]; [|discriminate]. injection H as <-. symmetry. apply sequential_cold. apply F. exact I.
    - (* respond *)
      injection Es as <- <-. apply Suff; [exact HS|auto|].
      constructor; simpl; auto; try discriminate; try tauto.
      intros l' [H|H]; [discriminate|]. injection H as <-. apply D. now left.
    - (* done *)
      injection Es as <- <-. apply Suff; [exact HS|auto|exact Hi].
  Qed.

  (* ---------- what the file can contain ---------- *)
  Definition DamInv (s : shared) : Prop :=
    written s = true -> exists m c, file s = Some (m, c) /\ is_damaged c.

  Lemma Dam_step rep s0 st i : Main rep s0 st -> DamInv (sh st) -> DamInv (sh (step rep st i)).
  Proof.
    intros [HS HT] HD. pose proof (HT i) as Hi.
    unfold Conc.step. destruct (tstep rep i (sh st) (th st i)) as [s' t'] eqn:Es. simpl.
    unfold Conc.tstep in Es.
    destruct (tpc (th st i)) as [ks b c| | | | |off cs| |l|r] eqn:Ep.
    - destruct ks as [|k ks]; [injection Es as <- <-; exact HD|].
      destruct b; [injection Es as <- <-; exact HD|].
      destruct (lazies (sh st) k); injection Es as <- <-; exact HD.
    - destruct (file (sh st)) as [[m c]|] eqn:Ef; injection Es as <- <-; intros W; destruct (HD W) as [m' [c' [X Y]]];
        rewrite Ef in X; [injection X as <- <-; eauto|discriminate].
    - destruct (file (sh st)) as [[m c]|] eqn:Ef; [destruct (decode (fread c))|]; injection Es as <- <-; intros W;
        destruct (HD W) as [m' [c' [X Y]]]; rewrite Ef in X; try discriminate; injection X as <- <-; eauto.
    - injection Es as <- <-; exact HD.
    - injection Es as <- <-. intros _. simpl. exists wtime, fempty. split; [reflexivity|].
      apply prefix_damaged, empty_prefix.
    - destruct cs as [|c cs]; [injection Es as <- <-; exact HD|].
      injection Es as <- <-. simpl. intros W.
      destruct (ti_write _ _ _ _ Hi off (c :: cs) Ep) as [Ecs Ho]. simpl in Ecs.
      destruct (HD W) as [m [cur [Ef Dc]]]. rewrite Ef.
      exists wtime, (write_at off c cur). split; [reflexivity|].
      eapply write_at_damaged; eauto.
    - injection Es as <- <-; exact HD.
    - injection Es as <- <-; exact HD.
    - injection Es as <- <-; exact HD.
  Qed.

  (* ---------- exclusive writers (ghost `clash` never raised) ---------- *)
  Definition ExclBody (s : shared) (thf : nat -> thread) : Prop :=
    (written s = true -> exists m c, file s = Some (m, c) /\ is_prefix c) /\
    (forall j, past_open (tpc (thf j)) -> owner s = Some j) /\
    (forall j off cs, tpc (thf j) = PWrite off cs -> exists m c, file s = Some (m, c) /\ off <= flen c).
  Definition ExclInv (st : state) : Prop := clash (sh st) = false -> ExclBody (sh st) (th st).

  Lemma clash_step rep st i : clash (sh st) = true -> clash (sh (step rep st i)) = true.
  Proof.
    intros H. unfold Conc.step. destruct (tstep rep i (sh st) (th st i)) as [s' t'] eqn:Es. simpl.
    unfold Conc.tstep in Es.
    destruct (tpc (th st i)) as [ks b c| | | | |off cs| |l|r].
    - destruct ks as [|k ks]; [injection Es as <- <-; exact H|].
      destruct b; [injection Es as <- <-; exact H|].
      destruct (lazies (sh st) k); injection Es as <- <-; exact H.
    - destruct (file (sh st)) as [[m c]|]; injection Es as <- <-; exact H.
    - destruct (file (sh st)) as [[m c]|]; [destruct (decode (fread c))|]; injection Es as <- <-; exact H.
    - injection Es as <- <-; exact H.
    - injection Es as <- <-. simpl. now rewrite H.
    - destruct cs; injection Es as <- <-; exact H.
    - injection Es as <- <-; exact H.
    - injection Es as <- <-; exact H.
    - injection Es as <- <-; exact H.
  Qed.

  Lemma after_lazies_not_past ks c : ~ past_open (after_lazies ks c).
  Proof. destruct (after_lazies_cases ks c) as [-> | ->]; destruct c; simpl; tauto. Qed.

  (* the mover neither touched file/owner nor is (still) between open and close *)
  Lemma Excl_frame st s' t' i :
    ExclBody (sh st) (th st) ->
    file s' = file (sh st) -> owner s' = owner (sh st) -> written s' = written (sh st) ->
    ~ past_open (tpc t') ->
    ExclBody s' (upd (th st) i t').
  Proof.
    intros [E1 [E2 E3]] Hf Ho Hw Np. unfold ExclBody. rewrite Hf, Ho, Hw. split; [exact E1|]. split.
    - intros j. destruct (Nat.eq_dec j i) as [->|N]; [rewrite upd_same; tauto|rewrite upd_other by exact N; apply E2].
    - intros j off cs. destruct (Nat.eq_dec j i) as [->|N].
      + rewrite upd_same. intros H. exfalso. apply Np. rewrite H. exact I.
      + rewrite upd_other by exact N. apply E3.
  Qed.

  Lemma Excl_step rep s0 st i : Main rep s0 st -> ExclInv st -> ExclInv (step rep st i).
  Proof.
    intros [HS HT] HE Hc'. pose proof (HT i) as Hi.
    assert (Hc : clash (sh st) = false).
    { destruct (clash (sh st)) eqn:X; [|reflexivity]. rewrite (clash_step rep st i X) in Hc'. discriminate. }
    specialize (HE Hc). pose proof HE as [E1 [E2 E3]].
    revert Hc'. unfold Conc.step. destruct (tstep rep i (sh st) (th st i)) as [s' t'] eqn:Es. simpl.
    unfold Conc.tstep in Es.
    destruct (tpc (th st i)) as [ks b c| | | | |off cs| |l|r] eqn:Ep.
    - destruct ks as [|k ks].
      { injection Es as <- <-. intros _. apply Excl_frame; auto. simpl. destruct c; simpl; tauto. }
      destruct b.
      { injection Es as <- <-. intros _. apply Excl_frame; auto. apply after_lazies_not_past. }
      destruct (lazies (sh st) k); injection Es as <- <-; intros _; apply Excl_frame; auto;
        try apply after_lazies_not_past; try (simpl; tauto).
    - destruct (file (sh st)) as [[m c]|]; injection Es as <- <-; intros _; apply Excl_frame; auto;
        try apply after_lazies_not_past.
      simpl. destruct (fresh m); [simpl; tauto|apply after_lazies_not_past].
    - destruct (file (sh st)) as [[m c]|]; [destruct (decode (fread c))|]; injection Es as <- <-; intros _;
        apply Excl_frame; auto; simpl; try tauto.
      destruct rep; [apply after_lazies_not_past|simpl; tauto].
    - injection Es as <- <-; intros _; apply Excl_frame; auto.
    - (* open: nobody else may hold the file *)
      injection Es as <- <-. simpl. intros Hc'. rewrite Hc in Hc'. simpl in Hc'.
      destruct (owner (sh st)) as [o|] eqn:Eo; [discriminate|].
      assert (Nobody : forall j, ~ past_open (tpc (th st j))).
      { intros j Hp. specialize (E2 j Hp). discriminate. }
      split; [|split]; simpl.
      + intros _. exists wtime, fempty. split; [reflexivity|apply empty_prefix].
      + intros j. destruct (Nat.eq_dec j i) as [->|N]; [reflexivity|].
        rewrite upd_other by exact N. intros Hp. exfalso. exact (Nobody j Hp).
      + intros j off cs. destruct (Nat.eq_dec j i) as [->|N].
        * rewrite upd_same. simpl. destruct (tchunks (th st i)); simpl; [discriminate|].
          intros H. injection H as <- <-. exists wtime, fempty. split; [reflexivity|simpl; lia].
        * rewrite upd_other by exact N. intros H. exfalso. apply (Nobody j). rewrite H. exact I.
    - (* write *)
      assert (Own : owner (sh st) = Some i) by (apply E2; rewrite Ep; exact I).
      assert (Others : forall j, j <> i -> ~ past_open (tpc (th st j))).
      { intros j N Hp. specialize (E2 j Hp). congruence. }
      destruct cs as [|c cs].
      + injection Es as <- <-. intros _. split; [exact E1|]. split.
        * intros j. destruct (Nat.eq_dec j i) as [->|N]; [intros _; exact Own|].
          rewrite upd_other by exact N. apply E2.
        * intros j off' cs'. destruct (Nat.eq_dec j i) as [->|N]; [rewrite upd_same; discriminate|].
          rewrite upd_other by exact N. apply E3.
      + injection Es as <- <-. simpl. intros _.
        destruct (ti_write _ _ _ _ Hi off (c :: cs) Ep) as [Ecs Ho]. simpl in Ecs.
        destruct (E3 i off (c :: cs) Ep) as [m [cur [Ef Hl]]].
        pose proof (ti_past _ _ _ _ Hi) as W. rewrite Ep in W. specialize (W I).
        destruct (E1 W) as [m' [cur' [Ef' Pc]]]. rewrite Ef in Ef'. injection Ef' as <- <-.
        rewrite Ef. split; [|split]; simpl.
        * intros _. exists wtime, (write_at off c cur). split; [reflexivity|].
          eapply write_at_prefix; eauto.
        * intros j. destruct (Nat.eq_dec j i) as [->|N]; [intros _; exact Own|].
          rewrite upd_other by exact N. apply E2.
        * intros j off' cs'. destruct (Nat.eq_dec j i) as [->|N].
          -- rewrite upd_same. simpl. destruct cs as [|c1 cs1]; simpl; [discriminate|].
             intros H. injection H as <- <-. exists wtime, (write_at off c cur). split; [reflexivity|simpl; lia].
          -- rewrite upd_other by exact N. intros H. exfalso. apply (Others j N). rewrite H. exact I.
    - (* close *)
      assert (Own : owner (sh st) = Some i) by (apply E2; rewrite Ep; exact I).
      assert (Others : forall j, j <> i -> ~ past_open (tpc (th st j))).
      { intros j N Hp. specialize (E2 j Hp). congruence. }
      injection Es as <- <-. simpl. intros _. split; [exact E1|]. split; simpl.
      + intros j. destruct (Nat.eq_dec j i) as [->|N]; [rewrite upd_same; simpl; tauto|].
        rewrite upd_other by exact N. intros Hp. exfalso. exact (Others j N Hp).
      + intros j off cs. destruct (Nat.eq_dec j i) as [->|N]; [rewrite upd_same; discriminate|].
        rewrite upd_other by exact N. apply E3.
    - injection Es as <- <-; intros _; apply Excl_frame; auto.
    - injection Es as <- <-; intros _. apply Excl_frame; auto. rewrite Ep. simpl. tauto.
  Qed.

  (* ---------- start ---------- *)
  Lemma Main_start rep st0 : start target enc compute st0 -> Main rep (sh st0) st0.
  Proof.
    intros [[Hw [Ho [Hc Hl]]] Ht]. split.
    - constructor; auto; rewrite Hw; discriminate.
    - intros j. destruct (Ht j) as [[pre Ep] Ec].
      constructor; auto; rewrite Ep;
        destruct (after_lazies_cases pre ToStat) as [-> | ->]; simpl; try discriminate; try tauto;
        try (intros l [H|H]; discriminate).
  Qed.

  Lemma Dam_start st0 : start target enc compute st0 -> DamInv (sh st0).
  Proof. intros [[Hw _] _] W. rewrite Hw in W. discriminate. Qed.

  Lemma Excl_start st0 : start target enc compute st0 -> ExclInv st0.
  Proof.
    intros [[Hw _] Ht] _. split; [rewrite Hw; discriminate|].
    assert (N : forall j, ~ past_open (tpc (th st0 j))).
    { intros j. destruct (Ht j) as [[pre ->] _]. apply after_lazies_not_past. }
    split.
    - intros j Hp. exfalso. exact (N j Hp).
    - intros j off cs H. exfalso. apply (N j). rewrite H. exact I.
  Qed.

  (* ---------- all schedules ---------- *)
  Section AllSchedules.
    (* the codec never turns a damaged variant of the complete file into a different listing *)
    Hypothesis damaged_ok : forall c l, is_damaged c -> decode (fread c) = Some l -> l = target.

    Lemma dam_good s : DamInv s -> good_content s.
    Proof.
      intros HD W m c l Ef Dl. destruct (HD W) as [m' [c' [Ef' Dc]]]. rewrite Ef in Ef'. injection Ef' as <- <-.
      eapply damaged_ok; eauto.
    Qed.

    Lemma run_all rep s0 sched : forall st,
      Main rep s0 st -> DamInv (sh st) -> Main rep s0 (run rep sched st) /\ DamInv (sh (run rep sched st)).
    Proof.
      induction sched as [|i sched IH]; intros st HM HD; simpl; [auto|].
      apply IH; [apply Main_step; [exact HM|now apply dam_good] | eapply Dam_step; eauto].
    Qed.
  End AllSchedules.

  Lemma answer_of_main rep s0 st i r :
    Main rep s0 st -> response st i = Some r -> r = CServed (sequential s0) \/ (r = CCrashed /\ rep = false).
  Proof.
    intros [_ HT] Hr. unfold Conc.response in Hr. destruct (tpc (th st i)) eqn:Ep; try discriminate.
    injection Hr as ->. destruct r as [l|].
    - left. f_equal. apply (ti_answer _ _ _ _ (HT i)). now right.
    - right. split; [reflexivity|]. now apply (ti_crash _ _ _ _ (HT i)).
  Qed.

  Lemma isolated_all :
    (forall c l, is_damaged c -> decode (fread c) = Some l -> l = target) ->
    forall st0, start target enc compute st0 ->
    forall sched i r, response (run true sched st0) i = Some r -> r = CServed (sequential (sh st0)).
  Proof.
    intros HD st0 Hs sched i r Hr.
    destruct (run_all HD true (sh st0) sched st0 (Main_start true st0 Hs) (Dam_start st0 Hs)) as [HM _].
    destruct (answer_of_main _ _ _ _ _ HM Hr) as [H|[_ H]]; [exact H|discriminate].
  Qed.

  (* the pinned reader: the only way to differ from the sequential answer is the empty reply *)
  Lemma pinned_all :
    (forall c l, is_damaged c -> decode (fread c) = Some l -> l = target) ->
    forall st0, start target enc compute st0 ->
    forall sched i r, response (run false sched st0) i = Some r ->
      r = CServed (sequential (sh st0)) \/ r = CCrashed.
  Proof.
    intros HD st0 Hs sched i r Hr.
    destruct (run_all HD false (sh st0) sched st0 (Main_start false st0 Hs) (Dam_start st0 Hs)) as [HM _].
    destruct (answer_of_main _ _ _ _ _ HM Hr) as [H|[H _]]; auto.
  Qed.

  (* ---------- schedules in which no two writers overlap ---------- *)
  Section Exclusive.
    Hypothesis roundtrip : forall l, decode (enc l) = Some l.
    Hypothesis prefix_fails : forall l g, strict_prefix g (enc l) -> decode g = None.

    Lemma excl_good st : clash (sh st) = false -> ExclInv st -> good_content (sh st).
    Proof.
      intros Hc HE W m c l Ef Dl. destruct (HE Hc) as [E1 _]. destruct (E1 W) as [m' [c' [Ef' Pc]]].
      rewrite Ef in Ef'. injection Ef' as <- <-. eapply prefix_decodes_right; eauto.
    Qed.

    Lemma run_clash rep sched : forall st, clash (sh st) = true -> clash (sh (run rep sched st)) = true.
    Proof. induction sched as [|i sched IH]; intros st H; simpl; [exact H|]. apply IH. now apply clash_step. Qed.

    Lemma run_excl rep s0 sched : forall st,
      Main rep s0 st -> ExclInv st -> clash (sh (run rep sched st)) = false -> Main rep s0 (run rep sched st).
    Proof.
      induction sched as [|i sched IH]; intros st HM HE Hc; simpl in *; [exact HM|].
      assert (Hc0 : clash (sh st) = false).
      { destruct (clash (sh st)) eqn:X; [|reflexivity].
        rewrite (run_clash rep sched _ (clash_step rep st i X)) in Hc. discriminate. }
      apply IH; [apply Main_step; [exact HM|now apply excl_good] | eapply Excl_step; eauto | exact Hc].
    Qed.

    Lemma isolated_excl st0 : start target enc compute st0 ->
      forall sched, clash (sh (run true sched st0)) = false ->
      forall i r, response (run true sched st0) i = Some r -> r = CServed (sequential (sh st0)).
    Proof.
      intros Hs sched Hc i r Hr.
      pose proof (run_excl true (sh st0) sched st0 (Main_start true st0 Hs) (Excl_start st0 Hs) Hc) as HM.
      destruct (answer_of_main _ _ _ _ _ HM Hr) as [H|[_ H]]; [exact H|discriminate].
    Qed.
  End Exclusive.

  (* ---------- lazily initialised tables ---------- *)
  Lemma lazies_step rep st i k :
    lazies (sh (step rep st i)) k = lazies (sh st) k \/ lazies (sh (step rep st i)) k = Some (compute k).
  Proof.
    unfold Conc.step. destruct (tstep rep i (sh st) (th st i)) as [s' t'] eqn:Es. simpl.
    unfold Conc.tstep in Es.
    destruct (tpc (th st i)) as [ks b c| | | | |off cs| |l|r].
    - destruct ks as [|k0 ks]; [injection Es as <- <-; auto|].
      destruct b.
      + injection Es as <- <-. simpl. unfold upd. destruct (Nat.eqb_spec k k0) as [->|]; auto.
      + destruct (lazies (sh st) k0); injection Es as <- <-; auto.
    - destruct (file (sh st)) as [[m c]|]; injection Es as <- <-; auto.
    - destruct (file (sh st)) as [[m c]|]; [destruct (decode (fread c))|]; injection Es as <- <-; auto.
    - injection Es as <- <-; auto.
    - injection Es as <- <-; auto.
    - destruct cs; injection Es as <- <-; auto.
    - injection Es as <- <-; auto.
    - injection Es as <- <-; auto.
    - injection Es as <- <-; auto.
  Qed.

  Lemma lazies_run rep sched k : forall st,
    lazies (sh (run rep sched st)) k = lazies (sh st) k \/ lazies (sh (run rep sched st)) k = Some (compute k).
  Proof.
    induction sched as [|i sched IH]; intros st; simpl; [auto|].
    destruct (IH (step rep st i)) as [H|H]; [|auto]. rewrite H. apply lazies_step.
  Qed.

  (* whatever the interleaving, an entry of the table is either still unset or the configuration's value *)
  Lemma lazies_config rep st0 : start target enc compute st0 ->
    forall sched k v, lazies (sh (run rep sched st0)) k = Some v -> v = compute k.
  Proof.
    intros [[_ [_ [_ Hl]]] _] sched k v H. destruct (lazies_run rep sched k st0) as [E|E]; rewrite E in H.
    - destruct (Hl k) as [X|X]; rewrite X in H; [discriminate|now injection H].
    - now injection H.
  Qed.

  (* two arbitrary interleavings agree on every entry both have initialised *)
  Lemma lazies_agree rep1 rep2 st0 : start target enc compute st0 ->
    forall sched1 sched2 k v1 v2,
      lazies (sh (run rep1 sched1 st0)) k = Some v1 -> lazies (sh (run rep2 sched2 st0)) k = Some v2 -> v1 = v2.
  Proof.
    intros Hs sched1 sched2 k v1 v2 H1 H2.
    rewrite (lazies_config rep1 st0 Hs sched1 k v1 H1), (lazies_config rep2 st0 Hs sched2 k v2 H2). reflexivity.
  Qed.

  Lemma lazies_idem rep1 rep2 st0 : start target enc compute st0 ->
    forall sched1 sched2 k v1 v2,
      lazies (sh (run rep1 sched1 st0)) k = Some v1 -> lazies (sh (run rep2 sched2 st0)) k = Some v2 ->
      v1 = v2 /\ v1 = compute k.
  Proof.
    intros Hs sched1 sched2 k v1 v2 H1 H2. split.
    - exact (lazies_agree rep1 rep2 st0 Hs sched1 sched2 k v1 v2 H1 H2).
    - exact (lazies_config rep1 st0 Hs sched1 k v1 H1).
  Qed.
End Facts.

(* ---------- a concrete burst: toy codec, 2 requests, lazies 0,1 before the stat, 2 before listdir ---------- *)
Definition ex_thread : thread (list N) :=
  mkt (after_lazies [0; 1] ToStat) [2] [[3%N; 1%N]; [2%N; 3%N]].
Definition ex_state : state (list N) N :=
  mkst (mks None (fun _ => None) false None false) (fun _ => ex_thread).
Definition ex_run rep sched :=
  run [1%N; 2%N; 3%N] toy_decode (fun _ => true) 100%Z (fun k => N.of_nat k) rep sched ex_state.
(* request 0 up to and including open('wb'); request 1 stats and reads the truncated file;
   request 0 finishes; request 1 finishes *)
Definition ex_sched : list nat := repeat 0 9 ++ repeat 1 4 ++ repeat 0 5 ++ repeat 1 8.

Lemma ex_start : start [1%N; 2%N; 3%N] toy_enc (fun k => N.of_nat k) ex_state.
Proof.
  split; [repeat split; auto|]. intros i. split; [exists [0; 1]; reflexivity|reflexivity].
Qed.
