(* The interpreter implements the tree-walking specification for all six TAL statements
   (Model/TALSpecFull.v): define, condition, repeat, content | replace, attributes, omit-tag, over an
   abstract environment.  Structural induction on the forest; inside an element the statements are
   walked along the recursion of the specification's `walk`; the repeat loop is an induction on the
   number of items still to come (one loop-back per item). *)
From Coq Require Import Lia PeanoNat String.
From PG Require Import Lib.Str Lib.HtmlEsc Model.TALProg Model.TALProgSpec Model.TALCompile Model.TALVM Model.TALOut
                       Model.TALSpecFull Proofs.TALProgFacts Proofs.TALVMFacts Proofs.TALVMTerm.

Section FullFacts.
  Variable val : Type.
  Variable E : Type.
  Variable eval : E -> str -> list (str * str) -> val.
  Variable e_push e_pop : E -> E.
  Variable e_local e_global : E -> str -> val -> E.
  Variable e_add_repeat : E -> str -> val -> E.
  Variable e_next_repeat e_remove_repeat : E -> str -> E.
  Variable v_nothing v_default v_truth : val -> bool.
  Variable v_text : val -> str.
  Variable v_len : val -> option nat.
  Variable prog : program.
  Variable tab : symtab.

  Notation DS := (dstate val E).
  Notation upd := (data_upd val E eval e_push e_pop e_local e_global e_add_repeat e_next_repeat e_remove_repeat
                            v_nothing v_default v_truth v_text v_len).
  Notation cnd := (data_cond val E eval v_nothing v_truth).
  Notation vl := (data_val val E eval v_nothing v_default).
  Notation rp := (data_rep val E eval v_nothing v_default v_len).
  Notation omac := (fun (_ : DS) (_ : cmd) => MOther).
  Notation machX := (mach DS).
  Notation stepX := (step tab [] DS cnd rp vl omac upd).
  Notation TermX := (Term prog tab DS cnd rp vl omac upd).
  Notation walkX := (walk val E eval e_push e_local e_global e_add_repeat e_next_repeat e_remove_repeat
                          v_nothing v_default v_truth v_text v_len).
  Notation iterX := (rep_iter E e_next_repeat e_remove_repeat).
  Notation spec_nodeX := (spec_node val E eval e_push e_pop e_local e_global e_add_repeat e_next_repeat e_remove_repeat
                                    v_nothing v_default v_truth v_text v_len).
  Notation spec_forestX := (spec_forest val E eval e_push e_pop e_local e_global e_add_repeat e_next_repeat e_remove_repeat
                                        v_nothing v_default v_truth v_text v_len).
  Notation definesX := (defines val E eval e_push e_local e_global).
  Notation is_trueX := (is_true val v_nothing v_truth).
  Notation repdecX := (repeat_dec val v_nothing v_default v_len).
  Notation tc_textX := (tc_text val v_text).
  Notation GoodX := (Good [] DS).
  Notation repX := (rep tab).

  Definition tc_of (c : scontent val) : option (bool * val) :=
    match c with SVal st v => Some (st, v) | _ => None end.

  (* a segment has been executed: control registers as before, its text written, the environment
     as the specification leaves it, data registers and data stack as before *)
  Definition Post (m : machX) (target : nat) (out : str) (env : E) (m' : machX) : Prop :=
    pc DS m' = target /\ sstack DS m' = sstack DS m /\ rg DS m' = rg DS m /\ curs DS m' = curs DS m /\
    slots_ok [] (slotp DS m') /\ c_sc (cx DS m') = c_sc (cx DS m) /\
    dat DS m' = mkDS (d_out (dat DS m) ++ out) env (d_regs (dat DS m)) (d_stack (dat DS m)).

  Lemma do_defines_found : forall args fnd c, fst (do_defines args fnd c) = fnd || existsb (fun a => fst a) args.
  Proof.
    induction args as [|[isloc [name ex]] r IH]; intros fnd c; simpl; [now rewrite orb_false_r|].
    destruct isloc; simpl; rewrite IH; [now rewrite orb_true_r | reflexivity].
  Qed.

  Lemma no_define_after : forall hs lo, head_sorted lo hs = true -> 3 <= lo -> has_local_define hs = false.
  Proof.
    induction hs as [|c hs IH]; intros lo H Hlo; [reflexivity|]. simpl in H.
    destruct (head_rank c) as [k|] eqn:Ek; [|discriminate]. apply andb_true_iff in H. destruct H as [H1 H2].
    apply Nat.ltb_lt in H1. unfold has_local_define. simpl. fold (has_local_define hs). rewrite (IH k H2) by lia.
    destruct c; simpl in Ek; try reflexivity. inversion Ek. lia.
  Qed.

  Lemma defines_found : forall args orig found env,
    fst (definesX args orig found env) = found || existsb (fun a => fst a) args.
  Proof.
    induction args as [|[isloc [name ex]] r IH]; intros orig found env; simpl; [now rewrite orb_false_r|].
    destruct isloc; simpl; rewrite IH; [now rewrite orb_true_r | reflexivity].
  Qed.

  Lemma rep_iter_ext (i1 i2 : E -> str * E) v : (forall env, i1 env = i2 env) ->
    forall k env acc, iterX i1 v k env acc = iterX i2 v k env acc.
  Proof. intros H. induction k as [|k IH]; intros env acc; simpl; rewrite H; destruct (i2 env); [reflexivity | apply IH]. Qed.

  Lemma walk_ext orig (r1 r2 : E -> sstate val -> str * E) : (forall env s, r1 env s = r2 env s) ->
    forall stmts env s, walkX orig r1 stmts env s = walkX orig r2 stmts env s.
  Proof.
    intros H. induction stmts as [|c rest IH]; intros env s; simpl; [apply H|].
    destruct c; try apply IH.
    - destruct (is_trueX _); [apply IH | reflexivity].
    - destruct (repdecX _); [apply IH | reflexivity | apply rep_iter_ext; intros env1; apply IH].
    - destruct (v_nothing _); [apply IH|]. destruct (v_default _); apply IH.
    - destruct (is_trueX _); apply IH.
  Qed.

  Section Elem.
    Variables (o e : nat) (orig cur : list (str * str)) (stmts : list cmd) (tag etag : str) (sg noend sg' : bool).
    Variables (body : list cmd) (bf : list tnode).
    Variables (pre post : list cmd).
    Let sc := CStartScope orig cur.
    Let st := CStartTag tag sg.
    Let en := CEndTagEndScope etag noend sg'.
    Hypothesis He : e = o + 2 + length stmts + length body.
    Hypothesis Hprog : prog = pre ++ (sc :: stmts ++ st :: body ++ [en]) ++ post.
    Hypothesis Hpre : length pre = o.
    Hypothesis Hstage : forallb tal_stmt stmts = true.
    Hypothesis Hsorted : head_sorted 0 stmts = true.
    Hypothesis Hsyms : syms_ok tab e stmts = true.
    Hypothesis IHbody :
      forall pre' post', prog = pre' ++ body ++ post' -> length pre' = o + 2 + length stmts ->
      forall L m, o + 2 + length stmts + length body <= L -> pc DS m = o + 2 + length stmts -> GoodX m ->
        TermX L m (Post m (o + 2 + length stmts + length body)
                        (fst (spec_forestX (d_env (dat DS m)) bf)) (snd (spec_forestX (d_env (dat DS m)) bf))).
    Variable L : nat.
    Hypothesis HL : S e <= L.
    Variable m0 : machX.
    Hypothesis Hgood0 : GoodX m0.
    Let R0 := d_regs (dat DS m0).
    Let S0 := d_stack (dat DS m0).

    Lemma el_length' : length (sc :: stmts ++ st :: body ++ [en]) = 3 + length stmts + length body.
    Proof. simpl. rewrite app_length. simpl. rewrite app_length. simpl. lia. Qed.
    Lemma N_sc' : nth_error prog o = Some sc.
    Proof.
      rewrite <- Hpre. replace (length pre) with (length pre + 0) by lia.
      rewrite (nth_error_seg prog pre _ post 0 Hprog); [reflexivity | rewrite el_length'; lia].
    Qed.
    Lemma N_head' j c : nth_error stmts j = Some c -> nth_error prog (o + 1 + j) = Some c.
    Proof.
      intros H. assert (Hj : j < length stmts) by (apply nth_error_Some; congruence).
      rewrite <- Hpre. replace (length pre + 1 + j) with (length pre + S j) by lia.
      rewrite (nth_error_seg prog pre _ post (S j) Hprog) by (rewrite el_length'; lia).
      simpl. rewrite nth_error_app1 by lia. exact H.
    Qed.
    Lemma N_st' : nth_error prog (o + 1 + length stmts) = Some st.
    Proof.
      rewrite <- Hpre. replace (length pre + 1 + length stmts) with (length pre + S (length stmts)) by lia.
      rewrite (nth_error_seg prog pre _ post (S (length stmts)) Hprog) by (rewrite el_length'; lia).
      simpl. rewrite nth_error_app2 by lia. replace (length stmts - length stmts) with 0 by lia. reflexivity.
    Qed.
    Lemma N_en' : nth_error prog e = Some en.
    Proof.
      rewrite He, <- Hpre.
      replace (length pre + 2 + length stmts + length body) with (length pre + (2 + length stmts + length body)) by lia.
      rewrite (nth_error_seg prog pre _ post _ Hprog) by (rewrite el_length'; lia).
      change (sc :: stmts ++ st :: body ++ [en]) with ((sc :: stmts) ++ (st :: body) ++ [en]).
      replace (2 + length stmts + length body) with (length (sc :: stmts) + length (st :: body)) by (simpl; lia).
      apply nth_error_last2.
    Qed.
    Lemma body_position' : prog = (pre ++ sc :: stmts ++ [st]) ++ body ++ ([en] ++ post) /\
                           length (pre ++ sc :: stmts ++ [st]) = o + 2 + length stmts.
    Proof.
      split.
      - rewrite Hprog. rewrite <- !app_assoc. simpl. f_equal. f_equal. rewrite <- !app_assoc. simpl.
        f_equal. f_equal. now rewrite <- app_assoc.
      - rewrite app_length. simpl. rewrite app_length. simpl. lia.
    Qed.
    Lemma stmt_sym c s : In c stmts -> cmd_sym c = Some s -> lookup_sym tab s = Some e.
    Proof. intros Hin Hs. exact (syms_ok_spec tab e stmts Hsyms c s Hin Hs). Qed.

    (* one instance of the element as the specification writes it *)
    Definition render (env : E) (s : sstate val) : str * E :=
      let '(inner, env1) :=
        match s_content s with
        | SBody => spec_forestX env bf
        | SNone => ([], env)
        | SVal structure v => (content_text structure (v_text v), env)
        end in
      ((if s_show s then tag_as_text tag (s_atts s) else []) ++ inner ++
       (if s_show s && negb noend then end_tag_text etag else []), env1).

    Definition drep (act : bool) (k : nat) (copy : list (str * str)) : option (nat * list (str * str)) :=
      if act then Some (k, copy) else None.

    (* control registers while the statements are executed; act: a repeat of this element is in progress *)
    Definition CI (mj : machX) (act : bool) (ridx k : nat) (lvd : bool) (fwd : option nat) : Prop :=
      sstack DS mj = (if act then [SRep] else []) ++ SScope (rg DS m0) :: sstack DS m0 /\
      r_back (rg DS mj) = (if act then Some ridx else None) /\
      r_rep (rg DS mj) = (if act then Some k else None) /\ r_lvd (rg DS mj) = lvd /\
      r_fwd (rg DS mj) = fwd /\ tc_ok [] (r_tc (rg DS mj)) /\
      slots_ok [] (slotp DS mj) /\ curs DS mj = curs DS m0 /\
      unwind lvd act (c_sc (cx DS mj)) = Some (c_sc (cx DS m0)).

    (* about to execute the ENDTAG_ENDSCOPE, having written `pre_` of this walk's output `o_` *)
    Definition AtEnd (out : str) (act : bool) (ridx k : nat) (copy : list (str * str)) (lvd : bool)
                     (res : str * E) (m' : machX) : Prop :=
      pc DS m' = e /\
      exists fwd show' cur' tc' pre_,
        CI m' act ridx k lvd fwd /\
        dat DS m' = mkDS (out ++ pre_) (snd res) (mkDR show' orig cur' tc' lvd (drep act k copy)) (R0 :: S0) /\
        pre_ ++ tc_textX tc' ++ (if show' && negb noend then end_tag_text etag else []) = fst res.

    Lemma walk_run : forall hs hpre lo s env mj act ridx k copy lvd out,
      stmts = hpre ++ hs -> forallb tal_stmt hs = true -> head_sorted lo hs = true ->
      pc DS mj = o + 1 + length hpre ->
      (lo < 6 -> s_content s = SBody) -> (lo < 5 -> s_show s = true /\ s_atts s = cur) ->
      (act = true -> 5 <= lo) -> (lo < 3 -> lvd = false) ->
      CI mj act ridx k lvd (match s_content s with SBody => None | _ => Some e end) ->
      dat DS mj = mkDS out env (mkDR (s_show s) orig (s_atts s) (tc_of (s_content s)) lvd (drep act k copy)) (R0 :: S0) ->
      TermX L mj (AtEnd out act ridx k copy (lvd || has_local_define hs) (walkX orig render hs env s)).
    Proof.
      induction hs as [|c hs IH]; intros hpre lo s env mj act ridx k copy lvd out Hh Hst1 Hs Hpc Hlo6 Hlo5 Hact Hlvd Hci Hd.
      - (* STARTTAG, then the body or the jump *)
        rewrite app_nil_r in Hh. subst hpre. simpl walk. simpl has_local_define. rewrite orb_false_r.
        destruct Hci as (C1 & C2 & C3 & C4 & C5 & C6 & C7 & C8 & C9).
        assert (Hstep : forall call, stepX call st mj =
                  Done (match r_fwd (rg DS mj) with Some p => set_pc DS p (updm DS upd mj st) | None => next DS (updm DS upd mj st) end))
          by (intros call; apply step_stag; reflexivity).
        assert (Hdat : (if d_show (d_regs (dat DS mj))
                        then write val E (tag_as_text tag (d_cur (d_regs (dat DS mj)))) (dat DS mj) else dat DS mj) =
                       mkDS (out ++ (if s_show s then tag_as_text tag (s_atts s) else [])) env
                            (mkDR (s_show s) orig (s_atts s) (tc_of (s_content s)) lvd (drep act k copy)) (R0 :: S0)).
        { rewrite Hd. simpl. destruct (s_show s); unfold write; simpl; [reflexivity | now rewrite app_nil_r]. }
        assert (Jump : r_fwd (rg DS mj) = Some e -> s_content s <> SBody ->
                       TermX L mj (AtEnd out act ridx k copy lvd (render env s))).
        { intros Hf Hne. eapply term_step; [lia | rewrite Hpc; apply N_st' | intros call; rewrite Hstep, Hf; reflexivity |].
          apply term_here. split; [reflexivity|].
          exists (Some e), (s_show s), (s_atts s), (tc_of (s_content s)), (if s_show s then tag_as_text tag (s_atts s) else []).
          split; [unfold CI; simpl; repeat split; auto|]. split.
          - simpl. rewrite Hdat. unfold render. destruct (s_content s); [congruence | reflexivity | reflexivity].
          - unfold render. destruct (s_content s); [congruence | reflexivity | reflexivity]. }
        destruct (s_content s) eqn:Ec.
        + eapply term_step; [lia | rewrite Hpc; apply N_st' | intros call; rewrite Hstep, C5; reflexivity |].
          destruct body_position' as [Bp Bl].
          eapply term_weaken.
          * apply (IHbody _ _ Bp Bl L); [lia | simpl; lia |].
            destruct Hgood0 as (G1 & G2 & G3). repeat split; simpl; auto. now rewrite C8.
          * intros m' (P1 & P2 & P3 & P4 & P5 & P6 & Pd). simpl in P1, P2, P3, P4, P6.
            split; [lia|].
            exists None, (s_show s), (s_atts s), None,
                   ((if s_show s then tag_as_text tag (s_atts s) else []) ++ fst (spec_forestX env bf)).
            split; [unfold CI; rewrite P2, P3, P4, P6; repeat split; auto|]. split.
            -- rewrite Pd. simpl. rewrite Hdat. simpl. unfold render. rewrite Ec.
               destruct (spec_forestX env bf) as [a b]. simpl. now rewrite app_assoc.
            -- unfold render. rewrite Ec. destruct (spec_forestX env bf) as [a b]. simpl. now rewrite <- app_assoc.
        + apply Jump; [exact C5 | discriminate].
        + apply Jump; [exact C5 | discriminate].
      - (* one statement *)
        simpl in Hst1. apply andb_true_iff in Hst1. destruct Hst1 as [Hc1 Hst1].
        simpl in Hs. destruct (head_rank c) as [rk|] eqn:Ek; [|discriminate].
        apply andb_true_iff in Hs. destruct Hs as [Hk Hs]. apply Nat.ltb_lt in Hk.
        assert (Hin : In c stmts) by (rewrite Hh; apply in_or_app; right; now left).
        assert (Hnth : nth_error prog (pc DS mj) = Some c).
        { rewrite Hpc. apply N_head'. rewrite Hh. rewrite nth_error_app2 by lia.
          replace (length hpre - length hpre) with 0 by lia. reflexivity. }
        assert (Hh' : stmts = (hpre ++ [c]) ++ hs) by (rewrite <- app_assoc; exact Hh).
        assert (Hlen : o + 1 + length (hpre ++ [c]) = S (o + 1 + length hpre)) by (rewrite app_length; simpl; lia).
        assert (Hlt : pc DS mj < L).
        { assert (length hpre < length stmts) by (rewrite Hh, app_length; simpl; lia). lia. }
        destruct Hci as (C1 & C2 & C3 & C4 & C5 & C6 & C7 & C8 & C9).
        assert (Horig : d_orig (d_regs (dat DS mj)) = orig) by (rewrite Hd; reflexivity).
        assert (Henv : d_env (dat DS mj) = env) by (rewrite Hd; reflexivity).
        (* the ENDTAG_ENDSCOPE of an instance inside a repeat goes back to the REPEAT command *)
        assert (Back : forall rx out1 k1 copy1 lvd1 res1 m1, AtEnd out1 true rx k1 copy1 lvd1 res1 m1 ->
                  TermX L m1 (fun m2 => pc DS m2 = rx /\
                     exists fwd show' cur' tc', CI m2 true rx k1 lvd1 fwd /\
                       dat DS m2 = mkDS (out1 ++ fst res1) (snd res1) (mkDR show' orig cur' tc' lvd1 (Some (k1, copy1))) (R0 :: S0))).
        { intros rx out1 k1 copy1 lvd1 res1 m1 (Q1 & fwd & show' & cur' & tc' & pre_ & (D1 & D2 & D3 & D4 & D5 & D6 & D7 & D8 & D9) & Qd & Qo).
          eapply term_step; [lia | rewrite Q1; apply N_en' |
                             intros call; rewrite (step_etag_nocall tab DS cnd rp vl omac upd call en m1 eq_refl D6);
                             unfold endtag_finish; rewrite D2; reflexivity |].
          apply term_here. split; [reflexivity|]. exists fwd, show', cur', tc'. split.
          - unfold CI. simpl. repeat split; auto.
          - simpl. rewrite Qd. simpl. unfold write. simpl. rewrite <- Qo. now rewrite <- app_assoc. }
        destruct c; try discriminate Hc1; simpl in Ek; inversion Ek; subst rk; simpl walk.
        + (* define *)
          assert (Hact0 : act = false) by (destruct act; [specialize (Hact eq_refl); lia | reflexivity]).
          assert (Hlvd0 : lvd = false) by (apply Hlvd; lia). subst act. rewrite Hlvd0 in C4, C9, Hd |- *. clear Hlvd.
          destruct (definesX args orig false env) as [found env'] eqn:Ed.
          destruct (do_defines args false (cx DS mj)) as [foundc c1] eqn:Edc.
          assert (Ef : found = existsb (fun a => fst a) args) by (pose proof (defines_found args orig false env) as X; rewrite Ed in X; exact X).
          assert (Efc : foundc = existsb (fun a => fst a) args) by (pose proof (do_defines_found args false (cx DS mj)) as X; rewrite Edc in X; exact X).
          assert (Efe : foundc = found) by congruence. subst foundc.
          pose proof (do_defines_scopes _ _ _ _ _ Edc) as Sc. simpl in Sc.
          simpl unwind in C9. inversion C9 as [C9'].
          eapply term_step; [exact Hlt | exact Hnth | intros call; unfold step; simpl; rewrite Edc; reflexivity |].
          eapply term_weaken.
          * apply (IH (hpre ++ [CDefine args]) 3 s env' _ false ridx k copy found out);
              [exact Hh' | exact Hst1 | exact Hs | simpl; lia | intros _; apply Hlo6; lia | intros _; apply Hlo5; lia |
               intros X; discriminate X | intros X; lia | |].
            -- unfold CI. simpl. repeat split; auto.
               unfold unwind. rewrite Ef. destruct (existsb (fun a : bool * (str * str) => fst a) args); simpl; rewrite Sc, C9'; reflexivity.
            -- simpl. rewrite Horig, Henv, Ed. rewrite Hd. reflexivity.
          * intros m' H. unfold has_local_define in *. simpl. rewrite <- Ef. exact H.
        + (* condition *)
          assert (Hsym : lookup_sym tab sym = Some e) by (apply (stmt_sym _ _ Hin); reflexivity).
          assert (Hnd : has_local_define hs = false) by (apply (no_define_after hs 4 Hs); lia).
          assert (Hb : s_content s = SBody) by (apply Hlo6; lia).
          assert (Hact0 : act = false) by (destruct act; [specialize (Hact eq_refl); lia | reflexivity]). subst act.
          unfold has_local_define. simpl. fold (has_local_define hs). rewrite Hnd, orb_false_r.
          destruct (is_trueX (eval env e0 orig)) eqn:Et.
          * eapply term_step; [exact Hlt | exact Hnth | intros call; unfold step; simpl; unfold data_cond; rewrite Horig, Henv, Et; reflexivity |].
            eapply term_weaken.
            -- apply (IH (hpre ++ [CCondition e0 sym]) 4 s env _ false ridx k copy lvd out);
                 [exact Hh' | exact Hst1 | exact Hs | simpl; lia | intros _; exact Hb | intros _; apply Hlo5; lia |
                  intros X; discriminate X | intros X; lia | |].
               ++ unfold CI. simpl. repeat split; auto.
               ++ simpl. rewrite ?Horig, ?Henv, ?Et. exact Hd.
            -- intros m' H. rewrite Hnd, orb_false_r in H. exact H.
          * eapply term_step; [exact Hlt | exact Hnth | intros call; unfold step; simpl; unfold data_cond; rewrite Horig, Henv, Et, Hsym; reflexivity |].
            apply term_here. split; [reflexivity|].
            exists (r_fwd (rg DS mj)), false, (s_atts s), None, []. split; [unfold CI; simpl; repeat split; auto|].
            split; [|reflexivity]. simpl. rewrite ?Horig, ?Henv, ?Et. rewrite Hd. rewrite app_nil_r. reflexivity.
        + (* repeat *)
          assert (Hsym : lookup_sym tab sym = Some e) by (apply (stmt_sym _ _ Hin); reflexivity).
          assert (Hnd : has_local_define hs = false) by (apply (no_define_after hs 5 Hs); lia).
          assert (Hb : s_content s = SBody) by (apply Hlo6; lia).
          destruct (Hlo5 Hk) as [Hshow Hatts].
          assert (Hact0 : act = false) by (destruct act; [specialize (Hact eq_refl); lia | reflexivity]). subst act.
          unfold has_local_define. simpl. fold (has_local_define hs). rewrite Hnd, orb_false_r.
          simpl in C3.
          destruct (repdecX (eval env e0 orig)) as [| |n] eqn:Er.
          * eapply term_step; [exact Hlt | exact Hnth | intros call; unfold step; simpl; rewrite C3; unfold data_rep; rewrite Horig, Henv, Er; reflexivity |].
            eapply term_weaken.
            -- apply (IH (hpre ++ [CRepeat v e0 sym]) 5 s env _ false ridx k copy lvd out);
                 [exact Hh' | exact Hst1 | exact Hs | simpl; lia | intros _; exact Hb | intros X; lia |
                  intros X; discriminate X | intros X; lia | |].
               ++ unfold CI. simpl. repeat split; auto.
               ++ simpl. rewrite ?Horig, ?Henv, ?Er. rewrite Hd. simpl. rewrite ?Er. reflexivity.
            -- intros m' H. rewrite Hnd, orb_false_r in H. exact H.
          * eapply term_step; [exact Hlt | exact Hnth | intros call; unfold step; simpl; rewrite C3; unfold data_rep; rewrite Horig, Henv, Er, Hsym; reflexivity |].
            apply term_here. split; [reflexivity|].
            exists (r_fwd (rg DS mj)), false, (s_atts s), (tc_of (s_content s)), []. split; [unfold CI; simpl; repeat split; auto|].
            split; [|rewrite Hb; reflexivity]. simpl. rewrite ?Horig, ?Henv, ?Er. rewrite Hd. simpl. rewrite ?Er. rewrite app_nil_r. reflexivity.
          * (* the loop *)
            set (ridx' := o + 1 + length hpre).
            set (inst := fun env1 : E => walkX orig render hs env1 (mkSS true SBody (s_atts s))).
            assert (Loop : forall k1 env1 acc m1,
                      pc DS m1 = S ridx' -> CI m1 true ridx' k1 lvd None ->
                      dat DS m1 = mkDS (out ++ acc) env1 (mkDR true orig cur None lvd (Some (k1, cur))) (R0 :: S0) ->
                      TermX L m1 (AtEnd out false ridx k copy lvd (iterX inst v k1 env1 acc))).
            { induction k1 as [|k1 IHk]; intros env1 acc m1 Q1 Qc Qd.
              - (* last item *)
                eapply term_bind.
                + apply (IH (hpre ++ [CRepeat v e0 sym]) 5 (mkSS true SBody (s_atts s)) env1 m1 true ridx' 0 cur lvd (out ++ acc));
                    [exact Hh' | exact Hst1 | exact Hs | simpl; unfold ridx' in Q1; lia | intros _; reflexivity | intros X; lia |
                     intros _; lia | intros X; lia | exact Qc | simpl; rewrite Hatts; exact Qd].
                + intros m2 Q2. rewrite Hnd, orb_false_r in Q2. eapply term_bind; [apply (Back _ _ _ _ _ _ _ Q2)|].
                  intros m3 (R1 & fwd & show' & cur' & tc' & (D1 & D2 & D3 & D4 & D5 & D6 & D7 & D8 & D9) & Rd).
                  destruct (unwind_true _ _ _ D9) as (a & b & Ea & Eb & Ec).
                  simpl in D1, D3.
                  assert (Nr : nth_error prog (pc DS m3) = Some (CRepeat v e0 sym)).
                  { rewrite R1. unfold ridx'. rewrite <- Hpc. exact Hnth. }
                  eapply term_step; [rewrite R1; unfold ridx'; lia | exact Nr | |].
                  * intros call. unfold step. simpl. rewrite D3. unfold remove_repeat, pop_locals. simpl. rewrite Ea. simpl.
                    rewrite Eb, Hsym, D1. reflexivity.
                  * apply term_here. split; [reflexivity|].
                    exists None, false, cur, None, (fst (iterX inst v 0 env1 acc)).
                    split; [unfold CI; simpl; repeat split; auto|]. split.
                    -- simpl. rewrite Rd. simpl. unfold inst.
                       destruct (walkX orig render hs env1 (mkSS true SBody (s_atts s))) as [oi ei]. simpl.
                       now rewrite <- app_assoc.
                    -- simpl. now rewrite app_nil_r.
              - eapply term_bind.
                + apply (IH (hpre ++ [CRepeat v e0 sym]) 5 (mkSS true SBody (s_atts s)) env1 m1 true ridx' (S k1) cur lvd (out ++ acc));
                    [exact Hh' | exact Hst1 | exact Hs | simpl; unfold ridx' in Q1; lia | intros _; reflexivity | intros X; lia |
                     intros _; lia | intros X; lia | exact Qc | simpl; rewrite Hatts; exact Qd].
                + intros m2 Q2. rewrite Hnd, orb_false_r in Q2. eapply term_bind; [apply (Back _ _ _ _ _ _ _ Q2)|].
                  intros m3 (R1 & fwd & show' & cur' & tc' & (D1 & D2 & D3 & D4 & D5 & D6 & D7 & D8 & D9) & Rd).
                  simpl in D1, D3.
                  assert (Nr : nth_error prog (pc DS m3) = Some (CRepeat v e0 sym)).
                  { rewrite R1. unfold ridx'. rewrite <- Hpc. exact Hnth. }
                  eapply term_step; [rewrite R1; unfold ridx'; lia | exact Nr | intros call; unfold step; simpl; rewrite D3; reflexivity |].
                  simpl. unfold inst in *.
                  destruct (walkX orig render hs env1 (mkSS true SBody (s_atts s))) as [oi ei] eqn:Ew.
                  apply (IHk (e_next_repeat ei v) (acc ++ oi)).
                  * simpl. rewrite R1. reflexivity.
                  * unfold CI. simpl. repeat split; auto. now rewrite unwind_set_act.
                  * simpl. rewrite Rd. simpl. now rewrite <- app_assoc. }
            eapply term_step; [exact Hlt | exact Hnth | intros call; unfold step; simpl; rewrite C3; unfold data_rep; rewrite Horig, Henv, Er; reflexivity |].
            apply (Loop n (e_add_repeat env v (eval env e0 orig)) []).
            -- simpl. unfold ridx'. lia.
            -- unfold CI. simpl. repeat split; auto; try (unfold ridx'; rewrite ?Hpc; reflexivity); try (rewrite Hb in C5; exact C5);
                 try (now rewrite unwind_add_repeat); try (simpl in C1; now rewrite C1).
            -- simpl. rewrite ?Horig, ?Henv, ?Er. rewrite Hd. simpl. rewrite ?Er. rewrite Hshow, Hatts, Hb, app_nil_r. reflexivity.
        + (* content / replace *)
          assert (Hsym : lookup_sym tab sym = Some e) by (apply (stmt_sym _ _ Hin); reflexivity).
          assert (Hnd : has_local_define hs = false) by (apply (no_define_after hs 6 Hs); lia).
          assert (Hb : s_content s = SBody) by (apply Hlo6; lia).
          unfold has_local_define. simpl. fold (has_local_define hs). rewrite Hnd, orb_false_r.
          rewrite Hb in C5.
          assert (Go : forall (s' : sstate val) (m1 : machX),
                    (forall call, stepX call (CContent repl struct e0 sym) mj = Done m1) -> pc DS m1 = S (pc DS mj) ->
                    CI m1 act ridx k lvd (match s_content s' with SBody => None | _ => Some e end) ->
                    dat DS m1 = mkDS out env (mkDR (s_show s') orig (s_atts s') (tc_of (s_content s')) lvd (drep act k copy)) (R0 :: S0) ->
                    TermX L mj (AtEnd out act ridx k copy lvd (walkX orig render hs env s'))).
          { intros s' m1 E1 E2 E3 E4. eapply term_step; [exact Hlt | exact Hnth | exact E1 |].
            eapply term_weaken.
            - apply (IH (hpre ++ [CContent repl struct e0 sym]) 6 s' env m1 act ridx k copy lvd out);
                [exact Hh' | exact Hst1 | exact Hs | lia | intros X; lia | intros X; lia | intros _; lia | intros X; lia | exact E3 | exact E4].
            - intros m' H. rewrite Hnd, orb_false_r in H. exact H. }
          destruct (v_nothing (eval env e0 orig)) eqn:En; [|destruct (v_default (eval env e0 orig)) eqn:Edf].
          * eapply (Go (mkSS (if repl then false else s_show s) SNone (s_atts s))).
            -- intros call. unfold step. simpl. unfold data_val. rewrite Horig, Henv, En, Hsym. reflexivity.
            -- reflexivity.
            -- unfold CI. simpl. repeat split; auto.
            -- simpl. rewrite ?Horig, ?Henv, ?En. rewrite Hd. rewrite Hb. destruct repl; reflexivity.
          * eapply (Go s).
            -- intros call. unfold step. simpl. unfold data_val. rewrite Horig, Henv, En, Edf. reflexivity.
            -- reflexivity.
            -- rewrite Hb. unfold CI. simpl. repeat split; auto.
            -- simpl. rewrite ?Horig, ?Henv, ?En, ?Edf. exact Hd.
          * eapply (Go (mkSS (if repl then false else s_show s) (SVal struct (eval env e0 orig)) (s_atts s))).
            -- intros call. unfold step. simpl. unfold data_val. rewrite Horig, Henv, En, Edf, Hsym. reflexivity.
            -- reflexivity.
            -- unfold CI. simpl. repeat split; auto.
            -- simpl. rewrite ?Horig, ?Henv, ?En, ?Edf. rewrite Hd. rewrite Hb. destruct repl; reflexivity.
        + (* attributes *)
          assert (Hnd : has_local_define hs = false) by (apply (no_define_after hs 7 Hs); lia).
          unfold has_local_define. simpl. fold (has_local_define hs). rewrite Hnd, orb_false_r.
          eapply term_step; [exact Hlt | exact Hnth | intros call; reflexivity |].
          eapply term_weaken.
          * apply (IH (hpre ++ [CAttributes args]) 7
                      (mkSS (s_show s) (s_content s)
                            (apply_attributes (map (fun a => (fst a, classify val v_nothing v_default v_text (eval env (snd a) orig))) args) (s_atts s)))
                      env _ act ridx k copy lvd out);
              [exact Hh' | exact Hst1 | exact Hs | simpl; lia | intros X; lia | intros X; lia | intros _; lia | intros X; lia | |].
            -- unfold CI. simpl. repeat split; auto.
            -- simpl. rewrite ?Horig, ?Henv. rewrite Hd. reflexivity.
          * intros m' H. rewrite Hnd, orb_false_r in H. exact H.
        + (* omit-tag *)
          assert (Hnd : has_local_define hs = false) by (apply (no_define_after hs 8 Hs); lia).
          unfold has_local_define. simpl. fold (has_local_define hs). rewrite Hnd, orb_false_r.
          destruct (is_trueX (eval env e0 orig)) eqn:Et.
          * eapply term_step; [exact Hlt | exact Hnth | intros call; reflexivity |].
            eapply term_weaken.
            -- apply (IH (hpre ++ [COmitTag e0]) 8 (mkSS false (s_content s) (s_atts s)) env _ act ridx k copy lvd out);
                 [exact Hh' | exact Hst1 | exact Hs | simpl; lia | intros X; lia | intros X; lia | intros _; lia | intros X; lia | |].
               ++ unfold CI. simpl. repeat split; auto.
               ++ simpl. rewrite ?Horig, ?Henv, ?Et. rewrite Hd. reflexivity.
            -- intros m' H. rewrite Hnd, orb_false_r in H. exact H.
          * eapply term_step; [exact Hlt | exact Hnth | intros call; reflexivity |].
            eapply term_weaken.
            -- apply (IH (hpre ++ [COmitTag e0]) 8 s env _ act ridx k copy lvd out);
                 [exact Hh' | exact Hst1 | exact Hs | simpl; lia | intros X; lia | intros X; lia | intros _; lia | intros X; lia | |].
               ++ unfold CI. simpl. repeat split; auto.
               ++ simpl. rewrite ?Horig, ?Henv, ?Et. exact Hd.
            -- intros m' H. rewrite Hnd, orb_false_r in H. exact H.
    Qed.



    Lemma forest_eq : forall l env,
      (fix forest (env : E) (l : list tnode) : str * E :=
         match l with
         | [] => ([], env)
         | x :: r => let '(a, e1) := spec_nodeX env x in let '(b, e2) := forest e1 r in (a ++ b, e2)
         end) env l = spec_forestX env l.
    Proof. induction l as [|x r IH]; intros env; simpl; [reflexivity|]. destruct (spec_nodeX env x). now rewrite IH. Qed.

    Lemma elem_run : pc DS m0 = o ->
      TermX L m0 (Post m0 (S e) (fst (spec_nodeX (d_env (dat DS m0)) (TElem orig cur stmts tag etag noend bf)))
                                (snd (spec_nodeX (d_env (dat DS m0)) (TElem orig cur stmts tag etag noend bf)))).
    Proof.
      intros Hpc. set (env0 := d_env (dat DS m0)). set (out0 := d_out (dat DS m0)).
      assert (Hspec : spec_nodeX env0 (TElem orig cur stmts tag etag noend bf) =
                      (fst (walkX orig render stmts env0 (mkSS true SBody cur)),
                       if has_local_define stmts then e_pop (snd (walkX orig render stmts env0 (mkSS true SBody cur)))
                       else snd (walkX orig render stmts env0 (mkSS true SBody cur)))).
      { simpl.
        match goal with |- context [walkX orig ?r1 stmts env0 _] =>
          rewrite (walk_ext orig r1 render) end.
        - destruct (walkX orig render stmts env0 (mkSS true SBody cur)); reflexivity.
        - intros env s. unfold render. destruct (s_content s); try reflexivity; now rewrite forest_eq. }
      rewrite Hspec. simpl fst. simpl snd.
      eapply term_step; [lia | rewrite Hpc; apply N_sc' | intros call; apply step_scope; reflexivity |].
      eapply term_bind.
      - apply (walk_run stmts [] 0 (mkSS true SBody cur) env0 _ false 0 0 [] false out0);
          [reflexivity | exact Hstage | exact Hsorted | simpl; lia | intros _; reflexivity | intros _; split; reflexivity |
           intros X; discriminate X | intros _; reflexivity | |].
        + destruct Hgood0 as (G1 & G2 & G3). unfold CI. simpl. repeat split; auto.
        + simpl. unfold out0, env0, R0, S0. reflexivity.
      - simpl orb. intros m1 (Q1 & fwd & show' & cur' & tc' & pre_ & (C1 & C2 & C3 & C4 & C5 & C6 & C7 & C8 & C9) & Qd & Qo).
        simpl in C1, C2, C9. apply unwind_false in C9.
        assert (Hm0 : dat DS m0 = mkDS out0 env0 R0 S0) by (unfold out0, env0, R0, S0; destruct (dat DS m0); reflexivity).
        destruct (has_local_define stmts) eqn:El.
        + eapply term_step; [lia | rewrite Q1; apply N_en' |
                             intros call; rewrite (step_etag_nocall tab DS cnd rp vl omac upd call en m1 eq_refl C6);
                             unfold endtag_finish; simpl; rewrite C2, C4, C1; unfold pop_locals; rewrite C9; reflexivity |].
          apply term_here. unfold Post. simpl. repeat split; auto; try lia.
          rewrite Qd. simpl. rewrite Hm0. simpl. rewrite <- Qo. now rewrite <- app_assoc.
        + eapply term_step; [lia | rewrite Q1; apply N_en' |
                             intros call; rewrite (step_etag_nocall tab DS cnd rp vl omac upd call en m1 eq_refl C6);
                             unfold endtag_finish; simpl; rewrite C2, C4, C1; reflexivity |].
          apply term_here. unfold Post. simpl. repeat split; auto; try lia.
          rewrite Qd. simpl. rewrite Hm0. simpl. rewrite <- Qo. now rewrite <- app_assoc.
    Qed.
  End Elem.

  Lemma spec_forest_cons env x r :
    spec_forestX env (x :: r) =
    (fst (spec_nodeX env x) ++ fst (spec_forestX (snd (spec_nodeX env x)) r), snd (spec_forestX (snd (spec_nodeX env x)) r)).
  Proof. simpl. destruct (spec_nodeX env x) as [a e1]. simpl. destruct (spec_forestX e1 r). reflexivity. Qed.

  Lemma rep_run : forall o l f, repX o l f ->
    forall pre post, prog = pre ++ l ++ post -> length pre = o ->
    forall L m, o + length l <= L -> pc DS m = o -> GoodX m ->
      TermX L m (Post m (o + length l) (fst (spec_forestX (d_env (dat DS m)) f)) (snd (spec_forestX (d_env (dat DS m)) f))).
  Proof.
    induction 1 as [o|o s rest f _ IH|o orig cur stmts tag sg etag noend sg' body bf rest f H1 H2 H3 _ IHb _ IHr];
      intros pre post Hp Hl L m HL Hpc Hg.
    - apply term_here. unfold Post. simpl. repeat split; auto; [lia | apply Hg|].
      destruct (dat DS m). simpl. now rewrite app_nil_r.
    - simpl in HL.
      assert (Hnth : nth_error prog (pc DS m) = Some (COutput s)).
      { rewrite Hpc, <- Hl. replace (length pre) with (length pre + 0) by lia.
        rewrite (nth_error_seg prog pre (COutput s :: rest) post 0 Hp); [reflexivity | simpl; lia]. }
      eapply term_step; [lia | exact Hnth | intros call; apply step_out; reflexivity |].
      eapply term_weaken.
      + apply (IH (pre ++ [COutput s]) post); [rewrite Hp, <- app_assoc; reflexivity | rewrite app_length; simpl; lia | lia |
                                                simpl; lia | exact Hg].
      + intros m' (A1 & A2 & A3 & A4 & A5 & A6 & Ad). simpl in A1, A2, A3, A4, A6, Ad. unfold Post. repeat split; auto; [simpl; lia|].
        rewrite Ad. rewrite spec_forest_cons. cbn [d_out d_env d_regs d_stack fst snd spec_node]. now rewrite <- app_assoc.
    - set (el := CStartScope orig cur :: stmts ++ CStartTag tag sg :: body ++ [CEndTagEndScope etag noend sg']).
      assert (El : CStartScope orig cur :: stmts ++ CStartTag tag sg :: body ++ CEndTagEndScope etag noend sg' :: rest = el ++ rest).
      { unfold el. simpl. rewrite <- !app_assoc. simpl. rewrite <- !app_assoc. reflexivity. }
      assert (Len : length el = 3 + length stmts + length body).
      { unfold el. simpl. rewrite app_length. simpl. rewrite app_length. simpl. lia. }
      rewrite El in *. rewrite app_length, Len in HL.
      eapply term_bind.
      + apply (elem_run o (o + 2 + length stmts + length body) orig cur stmts tag etag sg noend sg' body bf pre (rest ++ post));
          try assumption; try lia; try reflexivity.
        rewrite Hp. unfold el. now rewrite <- app_assoc.
      + intros m1 (A1 & A2 & A3 & A4 & A5 & A6 & Ad). eapply term_weaken.
        * apply (IHr (pre ++ el) post); [rewrite Hp, <- !app_assoc; reflexivity | rewrite app_length, Len; lia | lia | lia |].
          destruct Hg as (G1 & G2 & G3). repeat split; [exact A5 | rewrite A4; exact G2 | rewrite A3; exact G3].
        * intros m2 (B1 & B2 & B3 & B4 & B5 & B6 & Bd). unfold Post. repeat split; try congruence; try (rewrite B1, app_length, Len; lia); auto.
          rewrite Bd, Ad. rewrite spec_forest_cons. cbn [d_out d_env d_regs d_stack fst snd]. now rewrite <- app_assoc.
  Qed.

  Theorem expand_is_spec f :
    repX 0 prog f ->
    forall c env, exists fuel mf,
      expand_tal val E eval e_push e_pop e_local e_global e_add_repeat e_next_repeat e_remove_repeat
                 v_nothing v_default v_truth v_text v_len prog tab fuel c env = Done mf /\
      d_out (dat DS mf) = fst (spec_forestX env f) /\ d_env (dat DS mf) = snd (spec_forestX env f) /\
      d_stack (dat DS mf) = [] /\ c_sc (cx DS mf) = c_sc c /\ sstack DS mf = [] /\ pc DS mf = length prog.
  Proof.
    intros R c env. unfold expand_tal, vm_run.
    destruct (rep_run 0 prog f R [] [] (eq_sym (app_nil_r _)) eq_refl (length prog) (init DS c (dstate0 val E env)))
      as (n & m' & Hr & (P1 & P2 & P3 & P4 & P5 & P6 & Pd)); auto.
    - repeat split; simpl; auto; intros ? ? X; discriminate X.
    - exists (n + 1), m'. rewrite Hr. simpl in P1. simpl.
      replace (Nat.leb (length prog) (pc DS m')) with true by (symmetry; apply Nat.leb_le; lia).
      split; [reflexivity|]. rewrite Pd. simpl. simpl in P2, P6. repeat split; auto.
  Qed.
End FullFacts.

Lemma parse_forest_full_sound : forall fuel t o l f rest,
  TALSpecFull.parse_forest fuel t o l = Some (f, rest) -> exists items, l = items ++ rest /\ TALSpecFull.rep t o items f.
Proof.
  induction fuel as [|n IH]; intros t o l f rest H; [discriminate|].
  simpl in H. destruct l as [|c r]; [inversion H; subst; exists []; split; [reflexivity | constructor]|].
  destruct c; try discriminate.
  - destruct (span_head r) as [h r1] eqn:Eh. apply span_head_app in Eh.
    destruct r1 as [|c1 r2]; [discriminate|]. destruct c1; try discriminate.
    destruct (forallb tal_stmt h && head_sorted 0 h) eqn:E1; [|discriminate].
    apply andb_true_iff in E1. destruct E1 as [Est Ehs].
    destruct (TALSpecFull.parse_forest n t (o + 2 + length h) r2) as [[bf r3']|] eqn:Eb; [|discriminate].
    destruct r3' as [|c3 r3]; [discriminate|]. destruct c3; try discriminate.
    apply IH in Eb. destruct Eb as (body & Er2 & Rb).
    assert (Elen : length r2 - S (length r3) = length body) by (rewrite Er2, app_length; simpl; lia).
    simpl length in H. rewrite Elen in H.
    destruct (syms_ok t (o + 2 + length h + length body) h) eqn:Esy; [|discriminate].
    destruct (TALSpecFull.parse_forest n t (S (o + 2 + length h + length body)) r3) as [[fr rest']|] eqn:Er; [|discriminate].
    inversion H; subst f rest'. clear H.
    apply IH in Er. destruct Er as (items' & Er3 & Rr).
    exists (CStartScope orig cur :: h ++ CStartTag tag single :: body ++ CEndTagEndScope tag0 omit single0 :: items').
    split.
    + subst r r2 r3. simpl. rewrite <- !app_assoc. simpl. rewrite <- !app_assoc. reflexivity.
    + apply TALSpecFull.rep_elem; auto.
      replace (o + 3 + length h + length body) with (S (o + 2 + length h + length body)) by lia. exact Rr.
  - destruct (TALSpecFull.parse_forest n t (S o) r) as [[fr rest']|] eqn:E; [|discriminate]. inversion H; subst.
    apply IH in E. destruct E as (items & El & R). exists (COutput s :: items). split; [now rewrite El | now constructor].
  - inversion H; subst. exists []. split; [reflexivity | constructor].
Qed.

(* ---- statement as it appears in Props ---- *)
Theorem expand_tal_spec :
  forall (val E : Type) (eval : E -> str -> list (str * str) -> val) (e_push e_pop : E -> E)
         (e_local e_global : E -> str -> val -> E) (e_add_repeat : E -> str -> val -> E)
         (e_next_repeat e_remove_repeat : E -> str -> E) (v_nothing v_default v_truth : val -> bool)
         (v_text : val -> str) (v_len : val -> option nat) (p : program) (t : symtab) (f : list TALSpecFull.tnode),
    TALSpecFull.parse_forest (S (length p)) t 0 p = Some (f, []) ->
    forall (c : ctx) (env : E), exists fuel mf,
      expand_tal val E eval e_push e_pop e_local e_global e_add_repeat e_next_repeat e_remove_repeat
                 v_nothing v_default v_truth v_text v_len p t fuel c env = Done mf /\
      d_out (dat (dstate val E) mf) =
        fst (TALSpecFull.spec_forest val E eval e_push e_pop e_local e_global e_add_repeat e_next_repeat e_remove_repeat
                                     v_nothing v_default v_truth v_text v_len env f) /\
      d_env (dat (dstate val E) mf) =
        snd (TALSpecFull.spec_forest val E eval e_push e_pop e_local e_global e_add_repeat e_next_repeat e_remove_repeat
                                     v_nothing v_default v_truth v_text v_len env f) /\
      d_stack (dat (dstate val E) mf) = [] /\
      c_sc (cx (dstate val E) mf) = c_sc c /\ sstack (dstate val E) mf = [] /\ pc (dstate val E) mf = length p.
Proof.
  intros val E eval e_push e_pop e_local e_global e_add_repeat e_next_repeat e_remove_repeat
         v_nothing v_default v_truth v_text v_len p t f H.
  destruct (parse_forest_full_sound _ _ _ _ _ _ H) as (items & Ei & R). rewrite app_nil_r in Ei. subst items.
  now apply expand_is_spec.
Qed.
