(* HandlersFacts.v — facts about the handler chain model (C01, C05, C12). *)
From Coq Require Import Lia String.
From PG Require Import Lib.Str Lib.StrFacts Gen.Secure Model.Selector Proofs.SelectorFacts Proofs.C01Facts Model.Handlers.
Local Open Scope N_scope.

Section Chain.
Variable root : tree.
Variable mime_html compressed_ok : str -> bool.
Variable zip_enabled : bool.
Variable zip_pattern pyg_accepts : str -> bool.

Notation is_for_me := (is_for_me root mime_html compressed_ok zip_enabled zip_pattern pyg_accepts).
Notation first_handler := (first_handler root mime_html compressed_ok zip_enabled zip_pattern pyg_accepts).
Notation get_handler_in := (get_handler_in root mime_html compressed_ok zip_enabled zip_pattern pyg_accepts).
Notation get_handler := (get_handler root mime_html compressed_ok zip_enabled zip_pattern pyg_accepts).

(* every handler sits behind one of the two filters *)
Lemma is_for_me_filtered h sel :
  is_for_me h sel = true -> (h = HUrl /\ url_secure sel = true) \/ (h <> HUrl /\ is_secure sel = true).
Proof.
  destruct h; simpl; intros H;
    try (right; split; [discriminate | now apply andb_true_iff in H as [H _]]).
  left. now split.
Qed.

Lemma first_handler_chosen hs sel h s :
  first_handler hs sel = Chosen h s -> s = sel /\ In h hs /\ is_for_me h sel = true.
Proof.
  induction hs as [|a hs IH]; simpl; [discriminate|].
  destruct (is_for_me a sel) eqn:E.
  - intros [= <- <-]. repeat split; auto.
  - intros H. destruct (IH H) as (A & B & C). repeat split; auto.
Qed.

Lemma first_handler_notfound hs sel :
  (forall h, In h hs -> is_for_me h sel = false) -> first_handler hs sel = NotFound.
Proof.
  induction hs as [|a hs IH]; simpl; intros H; [reflexivity|].
  rewrite (H a (or_introl eq_refl)). apply IH. intros h Hh. apply H. now right.
Qed.

(* a selector that passes neither filter is answered not-found, whatever the
   handler list, the tree and the oracles: climbers never reach a handler *)
Lemma insecure_notfound all sel :
  is_secure sel = false -> url_secure sel = false -> get_handler all sel = NotFound.
Proof.
  intros S U. unfold get_handler. generalize all at 2. intros hs.
  induction hs as [|a hs IH]; simpl; [reflexivity|].
  assert (E : is_for_me a sel = false).
  { destruct (is_for_me a sel) eqn:E; [|reflexivity].
    apply is_for_me_filtered in E as [[_ E]|[_ E]]; congruence. }
  now rewrite E.
Qed.

(* whatever is chosen was accepted behind its filter, on the request selector or on
   the rewriter's target *)
Lemma get_handler_in_chosen all hs sel h s :
  get_handler_in all hs sel = Chosen h s ->
  is_for_me h s = true /\
  (s = sel \/ (s = rewriter_target sel /\ is_secure sel = true /\ rewriter_accepts sel = true)).
Proof.
  induction hs as [|a hs IH]; simpl; [discriminate|].
  destruct (is_for_me a sel) eqn:E.
  - destruct a; try (intros [= <- <-]; split; [exact E | now left]).
    intros H. apply first_handler_chosen in H as (-> & _ & F). split; [exact F|]. right.
    simpl in E. apply andb_true_iff in E as [E1 E2]. auto.
  - apply IH.
Qed.

Lemma chosen_secure all sel h s :
  get_handler all sel = Chosen h s -> h <> HUrl -> is_secure s = true.
Proof.
  intros H N. apply get_handler_in_chosen in H as [F _].
  apply is_for_me_filtered in F as [[E _]|[_ E]]; [contradiction | exact E].
Qed.

Lemma chosen_starts_slash all sel h s :
  starts_with_slash sel = true -> get_handler all sel = Chosen h s -> starts_with_slash s = true.
Proof.
  intros S H. apply get_handler_in_chosen in H as [_ [->|(-> & _ & A)]]; [exact S|].
  now apply rewriter_target_starts_slash.
Qed.

(* the real part of a virtual selector that starts with "/" is not empty *)
Lemma find_not_zero pat s : prefixb pat s = false -> find pat s <> Some O.
Proof.
  intros P. destruct s as [|x s]; simpl; rewrite P; [discriminate|].
  destruct (find pat s); simpl; discriminate.
Qed.

Lemma virtual_real_nonempty s : starts_with_slash s = true -> fst (virtual_split s) <> [].
Proof.
  intros S. destruct s as [|c r]; [discriminate|]. simpl in S. apply N.eqb_eq in S. subst c.
  unfold virtual_split.
  assert (Q : prefixb [QMARK] (SLASH :: r) = false) by reflexivity.
  assert (P : prefixb [PIPE] (SLASH :: r) = false) by reflexivity.
  destruct (find [QMARK] (SLASH :: r)) as [i|] eqn:F.
  - destruct i; [now apply find_not_zero in Q|]. simpl. discriminate.
  - destruct (find [PIPE] (SLASH :: r)) as [i|] eqn:G.
    + destruct i; [now apply find_not_zero in P|]. simpl. discriminate.
    + simpl. discriminate.
Qed.

(* ---- confinement of everything the chain itself touches ---- *)
Lemma decide_accesses_confined rootpath h sel c p fsp :
  is_secure sel = true -> starts_with_slash sel = true ->
  In (c, p) (decide_accesses h sel) -> getfspath rootpath p = Some fsp -> inside rootpath fsp = true.
Proof.
  intros S L I G.
  assert (RS : is_secure (fst (virtual_split sel)) = true) by now apply virtual_real_secure.
  assert (RL : starts_with_slash (fst (virtual_split sel)) = true)
    by (apply virtual_real_starts_slash; [exact L | now apply virtual_real_nonempty]).
  destruct h; simpl in I; try contradiction.
  - destruct I as [[= <- <-]|[]].
    apply (derived_confined rootpath sel (lit "/gophermap"%string) fsp S L); [|exact G]. simpl. tauto.
  - destruct I as [[= <- <-]|[[= <- <-]|[]]].
    + apply (derived_confined rootpath _ (lit "/new"%string) fsp RS RL); [|exact G]. simpl. tauto.
    + apply (derived_confined rootpath _ (lit "/cur"%string) fsp RS RL); [|exact G]. simpl. tauto.
  - destruct I as [[= <- <-]|[]]. now apply (secure_confined rootpath _ fsp RS RL).
  - destruct I as [[= <- <-]|[]]. now apply (secure_confined rootpath _ fsp RS RL).
Qed.

(* Every access other than a bare stat happens on a path inside the root; and when the
   selector is secure, so does every stat. *)
Lemma chain_accesses_confined rootpath hs sel c p fsp :
  starts_with_slash sel = true ->
  In (c, p) (chain_accesses hs sel) -> (c <> AStat \/ is_secure sel = true) ->
  getfspath rootpath p = Some fsp -> inside rootpath fsp = true.
Proof.
  intros L I C G. unfold chain_accesses in I.
  destruct I as [[= <- <-]|I].
  - destruct C as [C|C]; [congruence|]. now apply (secure_confined rootpath sel fsp).
  - apply in_app_or in I as [I|I].
    + destruct (has_sep sel); [|contradiction]. destruct I as [[= <- <-]|[]].
      destruct C as [C|C]; [congruence|].
      apply (secure_confined rootpath (fst (virtual_split sel)) fsp); auto.
      * now apply virtual_real_secure.
      * apply virtual_real_starts_slash; [exact L | now apply virtual_real_nonempty].
    + apply in_flat_map in I as (h & _ & I).
      destruct h; try contradiction;
        (destruct (is_secure sel) eqn:S; [|contradiction];
         eapply (decide_accesses_confined rootpath _ sel c p fsp S L I G)).
Qed.

End Chain.
