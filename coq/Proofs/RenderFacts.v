(* RenderFacts.v — facts about the pieces Model/RenderUrl.v is made of, used by
   the C06 and C13 theorems: the UTF-8 encoder produces bytes, quoted text
   contains no delimiter, decimal numerals are digits, escaped text is safe. *)
From Coq Require Import Lia ZArith String.
From PG Require Import Lib.Str Lib.StrFacts Lib.Dec Lib.DecFacts Lib.HtmlEsc Lib.HtmlEscFacts
     Lib.Bytes Lib.Percent Lib.PercentFacts Lib.Utf8 Lib.Utf8Facts Lib.PercentStr Lib.PercentStrFacts
     Model.Entry Model.Render0 Model.RenderUrl.
Local Open Scope N_scope.
Local Ltac dlia := zify; Z.to_euclidean_division_equations; lia.
Local Ltac b2p :=
  repeat match goal with
  | H : _ && _ = true |- _ => apply andb_true_iff in H; destruct H
  | H : (_ <=? _) = true |- _ => apply N.leb_le in H
  | H : (_ <? _) = true |- _ => apply N.ltb_lt in H
  | H : (_ <? _) = false |- _ => apply N.ltb_ge in H
  | H : (_ <=? _) = false |- _ => apply N.leb_gt in H
  | H : (_ =? _) = true |- _ => apply N.eqb_eq in H
  | H : (_ =? _) = false |- _ => apply N.eqb_neq in H
  end.

(* ---------- the encoder produces bytes ---------- *)
Local Ltac bytes_goal :=
  repeat (apply Utf8Facts.is_bytes_cons; split); [dlia.. | reflexivity].

Lemma enc_cp_is_bytes c a : enc_cp c = Some a -> is_bytes a = true.
Proof.
  unfold enc_cp.
  destruct (c <? 128) eqn:E1.
  { intros H; apply (f_equal (fun o => match o with Some x => x | None => [] end)) in H; cbv beta iota in H; subst a. b2p. bytes_goal. }
  destruct (c <? 2048) eqn:E2.
  { intros H; apply (f_equal (fun o => match o with Some x => x | None => [] end)) in H; cbv beta iota in H; subst a. b2p. bytes_goal. }
  destruct ((55296 <=? c) && (c <=? 57343)) eqn:E3.
  { destruct ((56448 <=? c) && (c <=? 56575)) eqn:E4; [|discriminate].
    intros H; apply (f_equal (fun o => match o with Some x => x | None => [] end)) in H; cbv beta iota in H; subst a. b2p. bytes_goal. }
  destruct (c <? 65536) eqn:E4.
  { intros H; apply (f_equal (fun o => match o with Some x => x | None => [] end)) in H; cbv beta iota in H; subst a. b2p. bytes_goal. }
  destruct (c <? 1114112) eqn:E5; [|discriminate].
  intros H; apply (f_equal (fun o => match o with Some x => x | None => [] end)) in H; cbv beta iota in H; subst a. b2p. bytes_goal.
Qed.

Lemma encode_se_is_bytes s : forall b, encode_se s = Some b -> is_bytes b = true.
Proof.
  induction s as [|c s IH]; intros b H; simpl in H.
  - inversion H. reflexivity.
  - destruct (enc_cp c) as [a|] eqn:E; [|discriminate].
    destruct (encode_se s) as [b'|] eqn:E'; [|discriminate].
    inversion H; subst. rewrite is_bytes_app. now rewrite (enc_cp_is_bytes _ _ E), (IH _ eq_refl).
Qed.

(* ---------- quoted text ---------- *)
Lemma quote_str_no_delim safe s q c :
  quote_str safe s = Some q ->
  is_unreserved c = false -> mem_N c safe = false -> c <> 37 -> mem_N c q = false.
Proof.
  unfold quote_str. destruct (encode_se s) as [b|] eqn:E; [|discriminate].
  simpl. intros H; inversion H; subst. intros. apply quote_no_space_ctl; auto.
  eapply encode_se_is_bytes; eauto.
Qed.

Lemma quote_str_path_no c s q :
  quote_str [47] s = Some q ->
  In c [63; 34; 60; 62; 38; 39; 35; 9; 10; 11; 12; 13; 32; 127] -> mem_N c q = false.
Proof.
  intros Q C. simpl in C.
  repeat (destruct C as [<-|C]; [eapply quote_str_no_delim; [exact Q|reflexivity|reflexivity|discriminate]|]).
  contradiction.
Qed.

Lemma quote_str_ascii safe s q : quote_str safe s = Some q -> all_ascii q = true.
Proof.
  unfold quote_str. destruct (encode_se s) as [b|] eqn:E; [|discriminate].
  simpl. intros H; inversion H; subst. apply quote_all_ascii. eapply encode_se_is_bytes; eauto.
Qed.

(* ---------- decimal numerals ---------- *)
Lemma print_Z_no c z : is_ascii_digit c = false -> c <> MINUS -> mem_N c (print_Z z) = false.
Proof.
  intros D M. destruct z; unfold print_Z; try (now apply print_dec_no).
  cbn [mem_N]. rewrite (print_dec_no _ _ D), orb_false_r. now apply N.eqb_neq.
Qed.

(* ---------- mem_N over the list functions used here ---------- *)
Lemma mem_N_cons_false c x r : mem_N c (x :: r) = false <-> c <> x /\ mem_N c r = false.
Proof. cbn [mem_N]. rewrite orb_false_iff, N.eqb_neq. tauto. Qed.

Lemma mem_N_skipn c n s : mem_N c s = false -> mem_N c (skipn n s) = false.
Proof.
  revert s; induction n as [|n IH]; intros s H; [exact H|]. destruct s as [|x s]; [reflexivity|].
  simpl. apply IH. now apply mem_N_cons_false in H.
Qed.

(* ---------- the regular-expression helpers ---------- *)
Lemma span_line_spec s : forall a b, span_line s = (a, b) -> s = a ++ b /\ mem_N LFc a = false.
Proof.
  induction s as [|c s IH]; intros a b H; simpl in H.
  - inversion H. auto.
  - destruct (c =? LFc) eqn:E.
    + inversion H; subst. auto.
    + destruct (span_line s) as [a' b'] eqn:S. inversion H; subst.
      destruct (IH _ _ eq_refl) as [-> M]. split; [reflexivity|].
      cbn [mem_N]. rewrite M, orb_false_r. now rewrite N.eqb_sym.
Qed.

Lemma span_line_no_lf s : mem_N LFc s = false -> span_line s = (s, []).
Proof.
  induction s as [|c s IH]; intros H; [reflexivity|]. apply mem_N_cons_false in H as [H1 H2].
  simpl. assert (E : c =? LFc = false) by (apply N.eqb_neq; congruence). rewrite E, (IH H2). reflexivity.
Qed.

Lemma dot_plus_eol_no_lf s : s <> [] -> mem_N LFc s = false -> dot_plus_eol s = Some s.
Proof.
  intros NE H. unfold dot_plus_eol. rewrite (span_line_no_lf s H). destruct s; [congruence|reflexivity].
Qed.

(* what `(.+)$` returns is a piece of its input without line feed *)
Lemma dot_plus_eol_spec r g : dot_plus_eol r = Some g -> g <> [] /\ mem_N LFc g = false /\ (r = g \/ r = g ++ [LFc]).
Proof.
  unfold dot_plus_eol. destruct (span_line r) as [a b] eqn:S.
  destruct (span_line_spec r a b S) as [-> M].
  destruct a as [|x a]; [discriminate|].
  destruct b as [|y [|z b]]; intros H; inversion H; subst.
  - rewrite app_nil_r. repeat split; auto. discriminate.
  - repeat split; auto; [discriminate|].
    (* the first character of the rest is the line feed span_line stopped at *)
    assert (y = LFc).
    { clear H M. revert S. generalize (x :: a) as a0. intros a0. revert a0.
      enough (G : forall s a0, span_line s = (a0, [y]) -> y = LFc) by (intros a0 S; eapply G; exact S).
      induction s as [|c s IH]; intros a0 S; simpl in S; [inversion S|].
      destruct (c =? LFc) eqn:E.
      - inversion S; subst. now apply N.eqb_eq.
      - destruct (span_line s) as [a' b'] eqn:S'. inversion S; subst. eapply IH; reflexivity. }
    subst. now right.
Qed.
