(* C16OsRes.v — facts about the OS resolution relation on an extracted tree. *)
From Coq Require Import Arith Lia.
From PG Require Import Lib.Str Lib.StrFacts Lib.ZipPath Proofs.ZipPathFacts Model.Zip
  Proofs.C16Index Proofs.C16Cache Proofs.C16Target.
Local Open Scope nat_scope.

Ltac splits := repeat match goal with |- _ /\ _ => split end.

Lemma plain_side c : plain c -> is_nil c || str_eqb c P_DOT || str_eqb c P_DOTDOT = false.
Proof.
  intros H. destruct (plain_comp_parts c H) as (H1 & H2 & H3). apply is_nil_false in H1.
  now rewrite H1, H2, H3.
Qed.
Lemma plain_not_skip c : plain c -> is_nil c || str_eqb c P_DOT = false.
Proof.
  intros H. destruct (plain_comp_parts c H) as (H1 & H2 & H3). apply is_nil_false in H1.
  now rewrite H1, H2.
Qed.

Section OnTree.
Variable f : fs.

(* walking down through real directories *)
Lemma os_res_dirs x : forall cur rest r,
  Forall plain x ->
  (forall q, q <> [] -> path_prefixb q x = true -> fs_get (cur ++ q) f = Some TDir) ->
  (os_res f cur (x ++ rest) r <-> os_res f (cur ++ x) rest r).
Proof.
  induction x as [|c x IH]; intros cur rest r HP HD.
  - simpl. now rewrite app_nil_r.
  - inversion HP as [|? ? Hc Hx]; subst.
    assert (Hd1 : fs_get (cur ++ [c]) f = Some TDir).
    { apply HD; [discriminate|]. simpl. now rewrite str_eqb_refl. }
    assert (HD' : forall q, q <> [] -> path_prefixb q x = true -> fs_get ((cur ++ [c]) ++ q) f = Some TDir).
    { intros q Hq Hp. rewrite <- app_assoc. apply HD; [discriminate|]. simpl. now rewrite str_eqb_refl. }
    replace (cur ++ c :: x) with ((cur ++ [c]) ++ x) by now rewrite <- app_assoc.
    rewrite <- (IH (cur ++ [c]) rest r Hx HD'). simpl. split.
    + intros H. inversion H; subst.
      * rewrite (plain_not_skip c Hc) in *. discriminate.
      * discriminate Hc.
      * assumption.
      * exfalso. match goal with H5 : fs_get _ f = Some (TFile ?d) |- _ =>
          assert (E : Some TDir = Some (TFile d)) by (rewrite <- Hd1; exact H5); discriminate E end.
      * exfalso. match goal with H5 : fs_get _ f = Some (TLink ?d) |- _ =>
          assert (E : Some TDir = Some (TLink d)) by (rewrite <- Hd1; exact H5); discriminate E end.
    + intros H. eapply OR_dir; eauto using plain_side.
Qed.

Lemma firstn_removelast {A} n (l : list A) : n < length l -> firstn n (removelast l) = firstn n l.
Proof.
  intros Hn. rewrite removelast_firstn_len, firstn_firstn. f_equal. lia.
Qed.
Lemma removelast_length {A} (l : list A) : length (removelast l) = length l - 1.
Proof. rewrite removelast_firstn_len, firstn_length. lia. Qed.

(* k times ".." from a real directory *)
Lemma os_res_ups k : forall pa rest r,
  k <= length pa -> os_res f (firstn (length pa - k) pa) rest r -> os_res f pa (repeat P_DOTDOT k ++ rest) r.
Proof.
  induction k as [|k IH]; intros pa rest r Hk H.
  - simpl. now rewrite Nat.sub_0_r, firstn_all in H.
  - simpl. apply OR_up; [destruct pa; [simpl in Hk; lia|discriminate]|].
    apply IH; [rewrite removelast_length; lia|].
    rewrite removelast_length, firstn_removelast by lia.
    now replace (length pa - 1 - k) with (length pa - S k) by lia.
Qed.

(* composition *)
Lemma os_res_app x a y : os_res f x a y -> forall b z,
  (b = [] \/ y = [] \/ fs_get y f = Some TDir) -> os_res f y b z -> os_res f x (a ++ b) z.
Proof.
  induction 1; intros b z Hy Hb; simpl.
  - exact Hb.
  - apply OR_skip; auto.
  - apply OR_up; auto.
  - eapply OR_dir; eauto.
  - destruct Hy as [->|[Hy|Hy]].
    + inversion Hb; subst. eapply OR_file; eauto.
    + destruct cur; discriminate.
    + congruence.
  - eapply OR_link; [eassumption|eassumption|assumption|]. rewrite app_assoc. now apply IHos_res.
Qed.

End OnTree.
