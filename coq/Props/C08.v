(* C08 — UMN link files, .cap overrides and abstracts have their documented effect.
   Property theorems only.  Model/UMNSpec.v is the reference reading of the manual
   (blocks = finite maps); Model/UMN.v mirrors getLinkItem / processLinkFile /
   mergeentries / MergeLinkFiles.  Gen/Entrycmp.v is regenerated from the source. *)
From Coq Require Import ZArith Permutation String.
From PG Require Import Lib.Str Lib.Cmp Lib.Sort Lib.Regex Gen.Entrycmp Gen.Ignore
  Model.Selector Model.DirEntry Model.UMN Model.UMNSpec Model.Dir
  Proofs.DirFacts Proofs.C07Facts Proofs.UMNFacts Proofs.C08Facts.
Local Open Scope N_scope.

(* every well-formed link file — any number of blocks, any subset and order of
   the seven line kinds, comments, continuation abstracts, each block indented by
   any run of blanks (as the manual prints its examples), blocks separated by one or
   more blank lines and by whole comment paragraphs — is read by the
   parser exactly as the reference reading says, in every variant of the code *)
Theorem parse_wf_blocks :
  forall fx base dirsel lf, wf_linkfile lf = true ->
    process_link_file fx base dirsel None (render_linkfile lf) =
    Ok (map (fun b => default_num fx (spec_lentry base dirsel b)) lf).
Proof. exact UMNFacts.parse_wf_blocks. Qed.
Print Assumptions parse_wf_blocks.

(* ... also when blank lines and comment lines follow the last block *)
Theorem parse_wf_blocks_trailing :
  forall fx base dirsel lf tr, wf_linkfile lf = true -> wf_noise tr = true ->
    process_link_file fx base dirsel None (render_linkfile_trailing lf tr) =
    Ok (map (fun b => default_num fx (spec_lentry base dirsel b)) lf).
Proof. exact UMNFacts.parse_wf_blocks_trailing. Qed.
Print Assumptions parse_wf_blocks_trailing.

(* a block whose Path does not start with ./ adds exactly one entry, at the end,
   and leaves every other entry as it was *)
Theorem C08_add :
  forall fx base dirsel b, wf_block b = true ->
  forall p fes, first_some path_of (sb_fields b) = Some p ->
    (forall n, p <> PHere n /\ p <> PTilde n) ->
    merge_link_files fx [default_num fx (spec_lentry base dirsel b)] fes =
    Ok (fes ++ [(None, le_entry (default_num fx (spec_lentry base dirsel b)))]).
Proof. exact (fun fx base dirsel b _ => C08Facts.block_adds fx base dirsel b). Qed.
Print Assumptions C08_add.

(* Path=./name: the entry of that file gets exactly the attributes the block
   sets; every other entry is untouched *)
Theorem C08_override_only_set :
  forall fx le fes n, le_merge le = true ->
    dict_lookup fes (e_selector (le_entry le)) = Some n ->
    link_hides fx (e_type (le_entry le)) = false ->
    merge_link_files fx [le] fes = Ok (update_origin n (fun old => merge_entries old (le_entry le)) fes) /\
    (forall oe, In oe fes -> origin_is n oe = false ->
                In oe (update_origin n (fun old => merge_entries old (le_entry le)) fes)) /\
    forall old, let m := merge_entries old (le_entry le) in
      e_selector m = e_selector (le_entry le) /\
      e_type m = override (e_type (le_entry le)) (e_type old) /\
      e_name m = override (e_name (le_entry le)) (e_name old) /\
      e_host m = override (e_host (le_entry le)) (e_host old) /\
      e_port m = override (e_port (le_entry le)) (e_port old) /\
      e_num m = override (e_num (le_entry le)) (e_num old) /\
      e_gplus m = e_gplus old.
Proof.
  exact (fun fx le fes n M D H =>
    conj (C08Facts.override_block fx le fes n M D H)
    (conj (fun oe => C08Facts.update_origin_others n _ fes oe)
          (fun old => C08Facts.merge_entries_fields old (le_entry le)))).
Qed.
Print Assumptions C08_override_only_set.

(* ... in particular the number: a block without Numb= does not touch it (needs D17 repaired) *)
Theorem C08_override_keeps_number :
  forall fx base dirsel b, wf_block b = true ->
  forall old, fx_num_unset fx = true -> first_some numb_of (sb_fields b) = None ->
    e_num (merge_entries old (le_entry (default_num fx (spec_lentry base dirsel b)))) = e_num old.
Proof. exact C08Facts.block_keeps_number. Qed.
Print Assumptions C08_override_keeps_number.

Theorem C08_numb_reset_refuted :
  exists l, umn_listing pinned shipped_ignore StripNone d17_world d17_enum = Ok l /\
            map (fun oe => (e_name (snd oe), e_num (snd oe))) l = [(Some (lit "Bee"%string), Some 0%Z)].
Proof. exact C08Facts.numb_reset_refuted. Qed.
Print Assumptions C08_numb_reset_refuted.

(* Type=X (and, once D12 is repaired, Type=-) in a block for ./name removes
   exactly that file's entry; in a .cap file both always did *)
Theorem C08_hide :
  forall fx le fes n out, NoDup (dir_names fes) ->
    le_merge le = true -> dict_lookup fes (e_selector (le_entry le)) = Some n ->
    link_hides fx (e_type (le_entry le)) = true ->
    merge_link_files fx [le] fes = Ok out ->
    dir_names out = filter (fun m => negb (str_eqb m n)) (dir_names fes).
Proof. exact C08Facts.hide_block. Qed.
Print Assumptions C08_hide.

Theorem C08_hide_never_fails :
  forall fx le fes n, fx_remove_safe fx = true ->
    le_merge le = true -> dict_lookup fes (e_selector (le_entry le)) = Some n ->
    link_hides fx (e_type (le_entry le)) = true ->
    exists out, merge_link_files fx [le] fes = Ok out.
Proof. exact C08Facts.hide_block_ok. Qed.
Print Assumptions C08_hide_never_fails.

Theorem C08_hide_X_and_dash :
  forall t, fx_dash_hides repaired = true /\ link_hides repaired t = cap_hides t.
Proof. exact C08Facts.link_hides_repaired. Qed.
Print Assumptions C08_hide_X_and_dash.

Theorem C08_cap_hide :
  forall plf mode text file ci c rest,
  plf (Some (e_selector (if match mode with
                            | StripNone => false
                            | StripFull => ci_isfile ci
                            | StripNonencoded => ci_isfile ci && negb (ci_encoded ci)
                            end then set_name (extstrip file (ci_exts ci)) (ci_entry ci) else ci_entry ci))) text
    = Ok (c :: rest) ->
  cap_hides (e_type (le_entry c)) = true ->
  umn_append plf mode (Some text) file ci = Ok None.
Proof. exact C08Facts.cap_hide. Qed.
Print Assumptions C08_cap_hide.

Theorem C08_dash_refuted :
  exists l, umn_listing pinned shipped_ignore StripNone d12_world d12_enum = Ok l /\
            dir_names l = [lit "a.txt"%string; lit "b.txt"%string].
Proof. exact C08Facts.dash_refuted. Qed.
Print Assumptions C08_dash_refuted.

Theorem C08_double_hide_refuted :
  umn_listing pinned shipped_ignore StripNone d21_world d12_enum = Raise ValueError /\
  exists l, umn_listing repaired shipped_ignore StripNone d21_world d12_enum = Ok l /\
            dir_names l = [lit "a.txt"%string].
Proof. exact C08Facts.double_hide_refuted. Qed.
Print Assumptions C08_double_hide_refuted.

(* Host=+ and Port=+ mean this server: the entry carries none of its own and
   the protocol fills in its own name and port *)
Theorem C08_plus_means_here :
  forall fx base dirsel b, wf_block b = true ->
    (first_some host_of (sb_fields b) = Some HPlus \/ first_some host_of (sb_fields b) = None ->
     e_host (le_entry (default_num fx (spec_lentry base dirsel b))) = None) /\
    (first_some port_of (sb_fields b) = Some PtPlus \/ first_some port_of (sb_fields b) = None ->
     e_port (le_entry (default_num fx (spec_lentry base dirsel b))) = None) /\
    forall host port e nm, e_name e = Some nm -> e_host e = None -> e_port e = None ->
      render_line host port e =
      Ok ((match e_type e with Some t => t | None => 48 end) :: nm ++ [TAB] ++ e_selector e ++ [TAB]
          ++ host ++ [TAB] ++ print_Z port ++ (if e_gplus e then [TAB; 43] else []) ++ CRLF).
Proof.
  exact (fun fx base dirsel b W =>
    conj (C08Facts.block_plus_host fx base dirsel b W)
    (conj (C08Facts.block_plus_port fx base dirsel b W) C08Facts.render_here)).
Qed.
Print Assumptions C08_plus_means_here.

(* numbered entries first in numeric order, then unnumbered ones by title, then
   negative ones: in a listing no entry is followed by one with a smaller key *)
Theorem C08_order :
  forall plf fx alts mode w enum l l1 a l2 b,
    umn_listing_gen plf fx alts mode w enum = Ok l -> l = l1 ++ a :: l2 -> In b l2 ->
    ekey_cmp (entry_key (snd a)) (entry_key (snd b)) <> Gt.
Proof. exact C08Facts.listing_order. Qed.
Print Assumptions C08_order.

Theorem C08_order_key :
  forall e nm, e_name e = Some nm ->
    entry_key e = ((if (0 <? getnum0 e)%Z then 0 else if (getnum0 e =? 0)%Z then 1 else 2), (getnum0 e, nm)).
Proof. exact C08Facts.key_classes. Qed.
Print Assumptions C08_order_key.

(* abstracts: a block without Abstract= keeps the abstract the entry already
   has (from its sidecar .abstract file); with one it replaces it; the abstract
   is rendered line by line under the entry *)
Theorem C08_abstract :
  forall fx base dirsel b, wf_block b = true ->
    (forall old, first_some abstract_of (sb_fields b) = None ->
       e_ea (merge_entries old (le_entry (default_num fx (spec_lentry base dirsel b)))) = e_ea old) /\
    (forall old a0 a, first_some abstract_of (sb_fields b) = Some (a0 :: a) ->
       ea_get EA_ABSTRACT (e_ea (merge_entries old (le_entry (default_num fx (spec_lentry base dirsel b)))))
       = Some (a0 :: a)) /\
    forall e a, ea_get EA_ABSTRACT (e_ea e) = Some a ->
       render_abstract e = concat (map info_line (splitlines a)).
Proof.
  exact (fun fx base dirsel b W =>
    conj (C08Facts.block_keeps_abstract fx base dirsel b W)
    (conj (C08Facts.block_sets_abstract fx base dirsel b W) C08Facts.render_abstract_lines)).
Qed.
Print Assumptions C08_abstract.

(* MergeLinkFiles of the repaired handler, on ANY list of link entries, does to the
   directory entries exactly what the reference reading (UMNSpec.apply_entries_from /
   apply_blocks) says: blocks take effect in order, later blocks see the effect of
   earlier ones; once ./name has been hidden — by a block, or before that by its
   .cap file (`dropped`) — every later block for that path is without effect, and a
   hide block for a file that is not listed does nothing.  `prune` is how the model
   writes the `continue` of the repaired loop (Model/UMN.v).  Hypotheses on the
   listing: directory entries with distinct names and distinct selectors (what
   prep_entries produces unless a .cap file redirects a selector onto another
   file's), none of them dropped. *)
Theorem C08_merge_is_reference_reading :
  forall fx, fx_dash_hides fx = true -> fx_remove_safe fx = true -> fx_hidden_stays fx = true ->
  forall fes, all_from_dir fes = true ->
    NoDup (map (fun oe : oentry => e_selector (snd oe)) fes) -> NoDup (dir_names fes) ->
  forall dropped, (forall s, In s dropped -> dict_lookup fes s = None) ->
  forall ls, merge_link_files fx (prune fx dropped (dict_lookup fes) ls) fes =
             Ok (apply_entries_from dropped ls fes).
Proof. exact C08Facts.merge_is_apply_entries. Qed.
Print Assumptions C08_merge_is_reference_reading.

(* from the TEXT of a well-formed link file to the listing *)
Theorem C08_blocks_are_reference_reading :
  forall fx base dirsel lf fes,
    fx_dash_hides fx = true -> fx_remove_safe fx = true -> fx_num_unset fx = true -> fx_hidden_stays fx = true ->
    wf_linkfile lf = true ->
    all_from_dir fes = true -> NoDup (map (fun oe : oentry => e_selector (snd oe)) fes) -> NoDup (dir_names fes) ->
    exists ls, process_link_file fx base dirsel None (render_linkfile lf) = Ok ls /\
               merge_link_files fx (prune fx [] (dict_lookup fes) ls) fes = Ok (apply_blocks base dirsel lf fes).
Proof. exact C08Facts.blocks_are_reference_reading. Qed.
Print Assumptions C08_blocks_are_reference_reading.

(* when no two blocks address the same file, the reading needs no memory of what was hidden *)
Theorem C08_blocks_distinct_files :
  forall fx ls fes, fx_dash_hides fx = true -> fx_remove_safe fx = true -> fx_hidden_stays fx = true ->
    all_from_dir fes = true -> NoDup (map (fun oe : oentry => e_selector (snd oe)) fes) -> NoDup (dir_names fes) ->
    NoDup (merge_sels ls) ->
    merge_link_files fx (prune fx [] (dict_lookup fes) ls) fes = Ok (fold_left apply_block ls fes).
Proof. exact C08Facts.blocks_distinct_files. Qed.
Print Assumptions C08_blocks_distinct_files.

Theorem C08_block_is_reference_reading :
  forall fx le fes, fx_dash_hides fx = true -> fx_remove_safe fx = true -> fx_hidden_stays fx = true ->
    all_from_dir fes = true -> NoDup (map (fun oe : oentry => e_selector (snd oe)) fes) ->
    NoDup (dir_names fes) ->
    merge_link_files fx (prune fx [] (dict_lookup fes) [le]) fes = Ok (apply_block fes le).
Proof. exact C08Facts.one_block_is_apply_block. Qed.
Print Assumptions C08_block_is_reference_reading.

(* end to end: the whole UMN listing of the repaired handler is the sorted reference
   reading — directory entries from prep_entries, the blocks of all link files in the
   order they were read, files dropped by their .cap file as the initial hidden set.
   Hypotheses: every child is reported under its own selector base/name, and no .cap
   file moves an entry to another selector (no Path= line in .cap files). *)
Theorem C08_listing_is_reference_reading :
  forall plf fx alts mode w,
    fx_dash_hides fx = true -> fx_remove_safe fx = true -> fx_hidden_stays fx = true ->
    (forall n ci, child_entry w n = Ok ci -> e_selector (ci_entry ci) = child_sel w n) ->
    (forall n e, umn_child plf mode w n = Ok (Some e) -> e_selector e = child_sel w n) ->
  forall enum l, NoDup enum -> umn_listing_gen plf fx alts mode w enum = Ok l ->
    exists files links fes,
      umn_scan plf fx alts w (enum_order fx enum) [] [] = Ok (files, links) /\
      prep_entries (skip_of fx) (umn_child plf mode w) (sort_names files) = Ok fes /\
      l = isort oentry_leb
            (apply_entries_from (cap_dropped plf mode w (sort_names files)) links (tag_origin fes)).
Proof. exact C08Facts.listing_is_reference_reading. Qed.
Print Assumptions C08_listing_is_reference_reading.

Example C08_example_blocks :
  wf_linkfile [fred_hidden; fred_titled; a_titled; cool] = true /\
  map (fun oe => (fst oe, e_name (snd oe), e_num (snd oe)))
      (apply_blocks (lit "/d"%string) (lit "/d"%string) [fred_hidden; fred_titled; a_titled; cool] ex_fes) =
  [(Some (lit "a.txt"%string), Some (lit "Alpha"%string), Some 2%Z);
   (None, Some (lit "Cool web site"%string), None)] /\
  all_from_dir ex_fes = true.
Proof. exact C08Facts.example_blocks. Qed.

(* non-vacuity: the manual's examples form a well-formed link file, read as documented *)
Example C08_example :
  wf_linkfile [cheese; cool; fred_hidden] = true /\
  process_link_file repaired (lit "/d"%string) (lit "/d"%string) None (render_linkfile [cheese; cool; fred_hidden]) =
  Ok [mkLentry (mkEntry (lit "1/Moo/Cheesy"%string) (Some 49) (Some (lit "Cheese Ball Recipes"%string))
                        (Some (lit "zippy.micro.umn.edu"%string)) (Some 150%Z) (Some 1%Z) [] false) false true;
      mkLentry (mkEntry (lit "/URL:http://hostname"%string) (Some 104) (Some (lit "Cool web site"%string))
                        None None None [(EA_ABSTRACT, lit "two
lines"%string)] false) false false;
      mkLentry (mkEntry (lit "/d/fred"%string) (Some 88) None None None None [] false) true false].
Proof. exact (conj C08Facts.example_wf C08Facts.example_parse). Qed.
