(* C03 — the end-to-end layer: whatever bytes a request contains, the reply that handle()
   writes when the handler chain ends in "no handler found", and every reply written
   without asking a handler, is one complete reply that the reader of the routing protocol
   accepts; and a request some protocol class claimed is never left without an answer.
   Property theorems only; each is closed by `exact <lemma>` and followed by Print
   Assumptions.

   Model/Serve.v composes Model/Detect.v (which class claims the first line), Model/Request.v
   (what that class hands to the handler chain), Model/Handlers.v (getHandler) and
   Model/Respond.v (the reply bytes); the readers are Model/Wellformed.v.  The theorems hold
   for ALL inputs, trees, handler lists and oracles.  The only condition is on the
   configuration: the Gopher+ admin string must be something str.encode() accepts
   (`admin_ok`).  `encodable req` says the request line was decoded from bytes — every line
   read from a socket is (C03_serve_error_wellformed_bytes discharges it).
   NOT covered here: what a CHOSEN handler writes (DChosen: C04/C07/C13 and the oracle
   search of harness/c03.py), histories, time.  The tie to /repo is Corr/KServe.v. *)
From Coq Require Import String.
From PG Require Import Lib.Str Lib.Bytes Lib.Utf8 Gen.Config Model.ProtoId Model.Detect Model.Request Model.Handlers
  Model.Respond Model.Wellformed Model.Serve Proofs.C03Facts Proofs.ServeFacts.
Local Open Scope N_scope.

(* a handler-chain lookup that ends in not-found: the complete reply is well-formed for the
   routing protocol *)
Theorem C03_serve_error_wellformed :
  forall mime_html compressed_ok zip_pattern pyg_accepts icon_data cfg root p req body msg,
    admin_ok cfg = true -> encodable req = true ->
    serve_decision mime_html compressed_ok zip_pattern pyg_accepts icon_data cfg root p req body = DNotFound msg ->
    exists r, serve_error_reply cfg p req (DNotFound msg) = Some r /\ wf p r = true /\
              serve_reply cfg p req (DNotFound msg) = Some r.
Proof. exact ServeFacts.serve_error_wellformed. Qed.
Print Assumptions C03_serve_error_wellformed.

(* ... whatever bytes the request contained *)
Theorem C03_serve_error_wellformed_bytes :
  forall mime_html compressed_ok zip_pattern pyg_accepts icon_data cfg root p input msg,
    admin_ok cfg = true -> is_bytes input = true ->
    let req := decode_se (fst (readline input)) in
    serve_decision mime_html compressed_ok zip_pattern pyg_accepts icon_data cfg root p req (snd (readline input)) = DNotFound msg ->
    exists r, serve_error_reply cfg p req (DNotFound msg) = Some r /\ wf p r = true.
Proof. exact ServeFacts.serve_error_wellformed_bytes. Qed.
Print Assumptions C03_serve_error_wellformed_bytes.

(* icons, Gemini 59 / 10 / 30, Spartan "too large": well-formed for the routing protocol
   (composes C03_direct_wellformed with the fact that each direct reply belongs to one
   protocol family) *)
Theorem C03_serve_direct_wellformed :
  forall mime_html compressed_ok zip_pattern pyg_accepts icon_data cfg root p req body b,
    serve_decision mime_html compressed_ok zip_pattern pyg_accepts icon_data cfg root p req body = DDirect b ->
    wf p b = true.
Proof. exact ServeFacts.serve_direct_wellformed. Qed.
Print Assumptions C03_serve_direct_wellformed.

(* from the bytes on the wire, protocol detection included: a request that some protocol
   class claims never ends in silence (no exception leaves handle() before the handler
   chain has answered) ... *)
Theorem C03_serve_input_never_silent :
  forall mime_html compressed_ok zip_pattern pyg_accepts icon_data cfg root tls input p d,
    serve_input mime_html compressed_ok zip_pattern pyg_accepts icon_data cfg root tls input = Some (p, d) ->
    d <> DNoReply.
Proof. exact ServeFacts.serve_input_never_silent. Qed.
Print Assumptions C03_serve_input_never_silent.

(* ... it gets a handler, or one complete reply accepted by the reader of the detected protocol *)
Theorem C03_serve_input_answered :
  forall mime_html compressed_ok zip_pattern pyg_accepts icon_data cfg root tls input p d,
    admin_ok cfg = true -> is_bytes input = true ->
    serve_input mime_html compressed_ok zip_pattern pyg_accepts icon_data cfg root tls input = Some (p, d) ->
    match d with
    | DChosen _ _ => True
    | _ => exists r, serve_reply cfg p (decode_se (fst (readline input))) d = Some r /\ wf p r = true
    end.
Proof. exact ServeFacts.serve_input_answered. Qed.
Print Assumptions C03_serve_input_answered.

(* ... and with the shipped protocol list (Gen/Config.v, regenerated from conf/pygopherd.conf
   on every run) every input is claimed *)
Theorem C03_serve_input_total :
  forall mime_html compressed_ok zip_pattern pyg_accepts icon_data cfg root tls input,
    c_protocols cfg = shipped_protocols ->
    exists p d, serve_input mime_html compressed_ok zip_pattern pyg_accepts icon_data cfg root tls input = Some (p, d).
Proof. exact ServeFacts.serve_input_total. Qed.
Print Assumptions C03_serve_input_total.

(* non-vacuity: the shipped admin string; hostile bytes in every syntax (CR LF, TAB, NUL,
   markup, bytes that are not UTF-8) and the complete replies *)
Example C03Serve_example :
  let yes := fun _ : str => true in
  let no := fun _ : str => false in
  let cfg := mk_config [HUrl; HGophermap; HUMNDir; HFile] false (lit "/wap"%string)
               (lit "Unconfigured Pygopherd Admin <pygopherd@nowhere.nowhere>"%string) shipped_protocols in
  let root := TDir [(lit "a.txt"%string, TFile false false false)] in
  let reply := fun tls input =>
    match serve_input no no no yes (fun _ => []) cfg root tls input with
    | Some (p, d) => Some (p, serve_reply cfg p (decode_se (fst (readline input))) d)
    | None => None
    end in
  admin_ok cfg = true /\
  reply true (lit "gemini://h/x%0D%0A20 text/plain%0D%0Ahi"%string ++ [13; 10])
    = Some (PGemini, Some (lit "51 '/x  20 text/plain  hi' does not exist (no handler found)"%string ++ [13; 10])) /\
  reply false (lit "h /%FF%00<b> 0"%string ++ [13; 10])
    = Some (PSpartan, Some (lit "4 '/\udcff"%string ++ [0] ++ lit "<b>' does not exist (no handler found)"%string ++ [13; 10])) /\
  reply false (lit "/no"%string ++ [255; 9] ++ lit "+"%string ++ [13; 10])
    = Some (PGopherPlus, Some (lit "--2"%string ++ [13; 10] ++ lit "1 Unconfigured Pygopherd Admin <pygopherd@nowhere.nowhere>"%string ++ [13; 10] ++
                               lit "'/no"%string ++ [255] ++ lit "' does not exist (no handler found)"%string ++ [13; 10])) /\
  reply false (lit "/x"%string ++ [13; 10])
    = Some (PGopher, Some (lit "3'/x' does not exist (no handler found)"%string ++ [9; 9] ++ lit "error.host"%string ++ [9] ++ lit "1"%string ++ [13; 10])) /\
  reply true (lit "gemini://h/GEMINI-QUERY/a.txt"%string ++ [13; 10]) = Some (PGemini, Some (lit "10 Enter input"%string ++ [13; 10])) /\
  reply true (lit "gemini://[::1/x"%string ++ [13; 10]) = Some (PGemini, Some (lit "59 Bad request"%string ++ [13; 10])) /\
  reply false (lit "h /a.txt 99999999999999999999"%string ++ [13; 10]) = Some (PSpartan, Some (lit "4 Content length too large"%string ++ [13; 10])) /\
  reply false (lit "GET /a.txt HTTP/1.0"%string ++ [13; 10; 13; 10]) = Some (PHttp, None).
Proof. vm_compute. repeat split; reflexivity. Qed.
