(* C11 — a cache file cut off at any byte is harmless.
   Property theorems only.  `decode` stands for pickle.load; the two codec facts
   (round trip; every strict prefix of a complete file fails to load) are
   hypotheses here, validated exhaustively against real pickle by the
   correspondence run, and discharged for a concrete self-delimiting codec in
   C11_example.  Positive theorems are for the repaired loadcache (failed load =
   miss); the pinned loadcache lets the exception escape: C11_refuted. *)
From Coq Require Import ZArith List Bool.
From PG Require Import Lib.Str Model.Cache Proofs.C10Facts Proofs.C11Facts.
Import ListNotations.
Local Open Scope Z_scope.

Theorem C11_prefix_harmless :
  forall (D L P : Type) (gen : D -> L) enc decode life,
    (forall l g, strict_prefix g (enc l) -> decode g = None) ->
  forall (s : state D) b l g (p : P),
    file s = Some (b, g) -> strict_prefix g (enc l) ->
    step gen enc decode life true s (List p) =
      (mk (dir s) (Some (now s, enc (gen (dir s)))) (now s) (hist s), Some (Served p (gen (dir s)) false)).
Proof. exact prefix_harmless. Qed.
Print Assumptions C11_prefix_harmless.

(* any undecodable content (zero fill included), of any age *)
Theorem C11_undecodable_harmless :
  forall (D L P : Type) (gen : D -> L) enc decode life (s : state D) b g (p : P),
    file s = Some (b, g) -> decode g = None ->
    step gen enc decode life true s (List p) =
      (mk (dir s) (Some (now s, enc (gen (dir s)))) (now s) (hist s), Some (Served p (gen (dir s)) false)).
Proof. exact undecodable_harmless. Qed.
Print Assumptions C11_undecodable_harmless.

(* whatever happens to the file, in every history, the repaired code answers *)
Theorem C11_never_crashes :
  forall (D L P : Type) (gen : D -> L) enc decode life d0 t0 (ops : list (op D P)),
  forall e, In e (snd (run gen enc decode life true (init d0 t0) ops)) -> ~ is_crash D L P e.
Proof. exact repaired_always_answers. Qed.
Print Assumptions C11_never_crashes.

(* ... and in every history with harmless damage the answers obey C10 (C10_fresh,
   C10_transparent and C10_zero are stated for histories containing Damage) *)

(* pinned code: a fresh undecodable file kills the request and stays in place *)
Theorem C11_pinned_crashes :
  forall (D L P : Type) (gen : D -> L) enc decode life (s : state D) b g (p : P),
    file s = Some (b, g) -> fresh life (now s) b = true -> decode g = None ->
    step gen enc decode life false s (List p) = (s, Some (Crashed p)).
Proof. exact pinned_crashes. Qed.
Print Assumptions C11_pinned_crashes.

Theorem C11_refuted :
  exists (ops : list (op (list N) N)),
    Forall (op_ok toy_decode) ops /\
    map (fun e => snd e) (snd (run (fun d => d) toy_enc toy_decode 180 false (init [1%N; 2%N] 5000) ops)) =
      [Crashed 2%N; Crashed 1%N; Served 0%N [1%N; 2%N] false].
Proof.
  exists [List 0%N; Tick 10; Damage (firstn 2 (toy_enc [1%N; 2%N])); List 1%N; Tick 60000; List 2%N].
  split; [repeat constructor; simpl; discriminate | vm_compute; reflexivity].
Qed.
Print Assumptions C11_refuted.

(* non-vacuity: the toy codec satisfies both hypotheses, zero fill fails to decode,
   and the same history is harmless for the repaired code *)
Example C11_example :
  (forall l, toy_decode (toy_enc l) = Some l) /\
  (forall l g, strict_prefix g (toy_enc l) -> toy_decode g = None) /\
  (forall n, (2 <= n)%nat -> toy_decode (repeat 0%N n) = None) /\
  map (fun e => snd e) (snd (run (fun d => d) toy_enc toy_decode 180 true (init [1%N; 2%N] 5000)
     [List 0%N; Tick 10; Damage (firstn 2 (toy_enc [1%N; 2%N])); List 1%N; Tick 60000; List 2%N])) =
      [Served 2%N [1%N; 2%N] true; Served 1%N [1%N; 2%N] false; Served 0%N [1%N; 2%N] false].
Proof.
  split; [exact toy_roundtrip|]. split; [exact toy_prefix_fails|]. split; [exact toy_zero_fails|].
  vm_compute. reflexivity.
Qed.
