(* C11 — a cache file cut off at any byte is harmless.
   Property theorems only.  `decode` stands for pickle.load; the two codec facts
   (round trip; every strict prefix of a complete file fails to load) are
   hypotheses here, validated exhaustively against real pickle by the
   correspondence run, and discharged for a concrete self-delimiting codec in
   C11_example.  Positive theorems are for the repaired loadcache (failed load =
   miss); the pinned loadcache lets the exception escape: C11_refuted. *)
From Coq Require Import ZArith List Bool.
From PG Require Import Lib.Str Model.Cache Proofs.C10Facts Proofs.C11Facts.
Import ListNotations.
Local Open Scope Z_scope.

Theorem C11_prefix_harmless :
  forall (D L P : Type) (gen : D -> L) enc decode life,
    (forall l g, strict_prefix g (enc l) -> decode g = None) ->
  forall (s : state D) b l g (p : P),
    file s = Some (b, g) -> strict_prefix g (enc l) ->
    step gen enc decode life true s (List p) =
      (mk (dir s) (Some (now s, enc (gen (dir s)))) (now s) (hist s), Some (Served p (gen (dir s)) false)).
Proof. exact prefix_harmless. Qed.
Print Assumptions C11_prefix_harmless.

(* any undecodable content (zero fill included), of any age *)
Theorem C11_undecodable_harmless :
  forall (D L P : Type) (gen : D -> L) enc decode life (s : state D) b g (p : P),
    file s = Some (b, g) -> decode g = None ->
    step gen enc decode life true s (List p) =
      (mk (dir s) (Some (now s, enc (gen (dir s)))) (now s) (hist s), Some (Served p (gen (dir s)) false)).
Proof. exact undecodable_harmless. Qed.
Print Assumptions C11_undecodable_harmless.

(* whatever happens to the file, in every history, the repaired code answers *)
Theorem C11_never_crashes :
  forall (D L P : Type) (gen : D -> L) enc decode life d0 t0 (ops : list (op D P)),
  forall e, In e (snd (run gen enc decode life true (init d0 t0) ops)) -> ~ is_crash D L P e.
Proof. exact repaired_always_answers. Qed.
Print Assumptions C11_never_crashes.

(* the cache write may fail at any byte, persistently (full disk or quota, EFBIG, EIO): the reply of a listing
   request is the same whatever the write does ... *)
Theorem C11_save_outcome_irrelevant :
  forall (D L P : Type) (gen : D -> L) enc decode life rep (s : state D) (p : P) k,
    snd (step gen enc decode life rep s (ListF p k)) = snd (step gen enc decode life rep s (List p)).
Proof. exact save_outcome_irrelevant. Qed.
Print Assumptions C11_save_outcome_irrelevant.

(* ... and every cut point k satisfies what op_ok asks of `ListF p k`, so C10_fresh / C10_transparent / C10_zero /
   C11_never_crashes hold for every history in which any of the writes fail after any number of bytes *)
Theorem C11_every_cut_point_ok :
  forall (L : Type) (enc : L -> bytes) (decode : bytes -> option L),
    (forall l g, strict_prefix g (enc l) -> decode g = None) ->
  forall k l, decode (firstn k (enc l)) = None \/ firstn k (enc l) = enc l.
Proof. exact cut_ok. Qed.
Print Assumptions C11_every_cut_point_ok.

(* ... and in every history with harmless damage the answers obey C10 (C10_fresh,
   C10_transparent and C10_zero are stated for histories containing Damage) *)

(* pinned code: a fresh undecodable file kills the request and stays in place *)
Theorem C11_pinned_crashes :
  forall (D L P : Type) (gen : D -> L) enc decode life (s : state D) b g (p : P),
    file s = Some (b, g) -> fresh life (now s) b = true -> decode g = None ->
    step gen enc decode life false s (List p) = (s, Some (Crashed p)).
Proof. exact pinned_crashes. Qed.
Print Assumptions C11_pinned_crashes.

Theorem C11_refuted :
  exists (ops : list (op (list N) N)),
    Forall (op_ok toy_enc toy_decode) ops /\
    map (fun e => snd e) (snd (run (fun d => d) toy_enc toy_decode 180 false (init [1%N; 2%N] 5000) ops)) =
      [Crashed 2%N; Crashed 1%N; Served 0%N [1%N; 2%N] false].
Proof.
  exists [List 0%N; Tick 10; Damage (firstn 2 (toy_enc [1%N; 2%N])); List 1%N; Tick 60000; List 2%N].
  split; [repeat constructor; simpl; discriminate | vm_compute; reflexivity].
Qed.
Print Assumptions C11_refuted.

(* non-vacuity: the toy codec satisfies both hypotheses, zero fill fails to decode,
   and the same history is harmless for the repaired code *)
Example C11_example :
  (forall l, toy_decode (toy_enc l) = Some l) /\
  (forall l g, strict_prefix g (toy_enc l) -> toy_decode g = None) /\
  (forall n, (2 <= n)%nat -> toy_decode (repeat 0%N n) = None) /\
  map (fun e => snd e) (snd (run (fun d => d) toy_enc toy_decode 180 true (init [1%N; 2%N] 5000)
     [List 0%N; Tick 10; Damage (firstn 2 (toy_enc [1%N; 2%N])); List 1%N; Tick 60000; List 2%N])) =
      [Served 2%N [1%N; 2%N] true; Served 1%N [1%N; 2%N] false; Served 0%N [1%N; 2%N] false] /\
  (* a disk that stays full: every write stops after 1 byte, every request is still answered with the listing *)
  map (fun e => snd e) (snd (run (fun d => d) toy_enc toy_decode 180 true (init [1%N; 2%N] 5000)
     [ListF 0%N 1; Tick 10; ListF 1%N 1; Tick 10; ListF 2%N 0; Tick 10; List 3%N; List 4%N])) =
      [Served 4%N [1%N; 2%N] true; Served 3%N [1%N; 2%N] false; Served 2%N [1%N; 2%N] false;
       Served 1%N [1%N; 2%N] false; Served 0%N [1%N; 2%N] false].
Proof.
  split; [exact toy_roundtrip|]. split; [exact toy_prefix_fails|]. split; [exact toy_zero_fails|].
  vm_compute. split; reflexivity.
Qed.
