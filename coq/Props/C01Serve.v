(* C01 — the end-to-end layer: protocol routing composed with the handler chain.
   Property theorems only; each is closed by `exact <lemma>` and followed by Print
   Assumptions.

   Model/Serve.v composes, without re-modelling anything, Model/Request.v `route` (what each
   protocol class hands to HandlerMultiplexer.getHandler, after its ONE percent-decoding
   pass), Model/Handlers.v `get_handler` (the security filter AND every handler's own test,
   over an abstract tree) and Model/Respond.v (the bytes of the error reply).  The theorems
   hold for ALL request lines, trees, handler lists, WAP prefixes and oracles (MIME table,
   decompressors, ZIP pattern, PYG content, icon table).

   Percent-encoding layers: a protocol decodes once.  Whatever the client wrote — one layer,
   several, mixed case, every byte escaped — the routed selector either contains one of the
   documented climbing substrings (then C01_serve_climber_notfound: not-found, with the
   protocol's well-formed not-found reply) or it does not (then the filter passed it only if
   it is free of them, and C01_serve_chosen_confined: everything touched is inside the
   root; leftover escapes of a second layer are plain characters of a file name).
   C01_serve_decoded_climber_routed ties the routed selector to the request text.

   The tie to /repo is Corr/KServe.v + harness/kserve.py: generated requests in every
   protocol syntax served by the real code end to end against the same tree. *)
From Coq Require Import String.
From PG Require Import Lib.Str Lib.StrFacts Lib.Bytes Lib.Utf8 Gen.Secure Gen.Config Model.ProtoId Model.Selector Model.Detect
  Model.Request Model.Handlers Model.Respond Model.Wellformed Model.Serve
  Proofs.C01Facts Proofs.C03Facts Proofs.ServeFacts.
Local Open Scope N_scope.

(* The climbing substrings named by the property text (./ .. // .\ \\ NUL) are C01Facts.climbers *)

(* a climber in the routed selector, for EVERY protocol: the decision is not-found (unless
   the URL redirector's own filter accepts the selector: it never touches the file system),
   and the complete reply is the routing protocol's well-formed not-found reply *)
Theorem C01_serve_climber_notfound :
  forall mime_html compressed_ok zip_pattern pyg_accepts icon_data cfg root p req body sel q c,
    route p (c_waptop cfg) req body = ToHandler sel q ->
    In c climbers -> contains c sel = true -> url_secure sel = false ->
    serve_decision mime_html compressed_ok zip_pattern pyg_accepts icon_data cfg root p req body
      = DNotFound (fnf_message sel) /\
    (admin_ok cfg = true -> encodable req = true ->
     exists r, serve_reply cfg p req (serve_decision mime_html compressed_ok zip_pattern pyg_accepts icon_data cfg root p req body) = Some r /\
               r = match respond (req_env cfg req) p (ONotFound (fnf_message sel)) with Some x => x | None => [] end /\
               wf p r = true).
Proof. exact ServeFacts.serve_climber_reply. Qed.
Print Assumptions C01_serve_climber_notfound.

(* every routed selector is slashnormalize of the protocol's once-percent-decoded path ... *)
Theorem C01_serve_route_decoded :
  forall p waptop req body sel q, route p waptop req body = ToHandler sel q ->
    exists d, decoded_path p waptop req = Some d /\ sel = slashnormalize d.
Proof. exact ServeFacts.route_decoded. Qed.
Print Assumptions C01_serve_route_decoded.

(* ... so, for each protocol (Gopher family: no decoding; HTTP, WAP, Gemini, Spartan: one
   unquote), a request whose decoded path contains a climber routes to a selector that
   contains it and fails the filter.  Only a trailing "./" or "//" can be lost, to the
   protocol's own trailing-slash drop ("/a/./" -> "/a/.", "/a//" -> "/a/"). *)
Theorem C01_serve_decoded_climber_routed :
  forall (cfg : config) p req body d c sel q,
    decoded_path p (c_waptop cfg) req = Some d -> In c climbers ->
    (contains c (strip1 d) = true \/ (ends_slash c = false /\ contains c d = true)) ->
    route p (c_waptop cfg) req body = ToHandler sel q ->
    sel = slashnormalize d /\ contains c sel = true /\ is_secure sel = false.
Proof. exact ServeFacts.decoded_climber_routed. Qed.
Print Assumptions C01_serve_decoded_climber_routed.

(* the same without any hypothesis on the routing: whatever the request, a climber in the
   decoded path never leads to a handler other than the URL redirector *)
Theorem C01_serve_decoded_climber :
  forall mime_html compressed_ok zip_pattern pyg_accepts icon_data cfg root p req body d c,
    decoded_path p (c_waptop cfg) req = Some d -> In c climbers ->
    (contains c (strip1 d) = true \/ (ends_slash c = false /\ contains c d = true)) ->
    match serve_decision mime_html compressed_ok zip_pattern pyg_accepts icon_data cfg root p req body with
    | DChosen h s => h = HUrl /\ url_secure s = true
    | DNotFound msg => msg = fnf_message (slashnormalize d)
    | DDirect _ | DNoReply => True
    end.
Proof. exact ServeFacts.serve_decoded_climber. Qed.
Print Assumptions C01_serve_decoded_climber.

(* whenever a handler other than the URL redirector is chosen: its selector passed the
   filter, starts with "/", and EVERY path the two passes through getHandler touched (the
   early stat, the Virtual re-stat, every handler's probes, the type rewriter's re-entry)
   resolves inside the root, for any spelling of the root / working directory *)
Theorem C01_serve_chosen_confined :
  forall mime_html compressed_ok zip_pattern pyg_accepts icon_data cfg root rootpath p req body h s,
    serve_decision mime_html compressed_ok zip_pattern pyg_accepts icon_data cfg root p req body = DChosen h s ->
    h <> HUrl ->
    is_secure s = true /\ starts_with_slash s = true /\
    forall c path fsp, In (c, path) (serve_accesses mime_html compressed_ok zip_pattern pyg_accepts cfg root p req body) ->
      getfspath rootpath path = Some fsp -> inside rootpath fsp = true.
Proof. exact ServeFacts.serve_chosen_confined. Qed.
Print Assumptions C01_serve_chosen_confined.

(* for EVERY request, whatever the decision: anything the chain opens or executes while
   deciding (everything but the bare stats of a selector the filter is about to reject) is
   inside the root *)
Theorem C01_serve_accesses_confined :
  forall mime_html compressed_ok zip_pattern pyg_accepts cfg root rootpath p req body c path fsp,
    In (c, path) (serve_accesses mime_html compressed_ok zip_pattern pyg_accepts cfg root p req body) -> c <> AStat ->
    getfspath rootpath path = Some fsp -> inside rootpath fsp = true.
Proof. exact ServeFacts.serve_accesses_confined. Qed.
Print Assumptions C01_serve_accesses_confined.

(* the decision and the reply are functions of the tree below the root only: two worlds
   that differ in everything else (what exists outside, how the root is spelled, the working
   directory) answer alike.  True by construction of the model — the formal anchor of the
   non-interference clause; that the REAL server is such a function is what the two-world
   search of harness/c01.py and the correspondence KServe establish. *)
Theorem C01_serve_outside_independent :
  forall (O1 O2 : Type) mime_html compressed_ok zip_pattern pyg_accepts icon_data cfg
         (w1 : world O1) (w2 : world O2) p req body,
    w_tree w1 = w_tree w2 ->
    serve_world mime_html compressed_ok zip_pattern pyg_accepts icon_data cfg w1 p req body =
    serve_world mime_html compressed_ok zip_pattern pyg_accepts icon_data cfg w2 p req body.
Proof. exact (@ServeFacts.serve_outside_independent). Qed.
Print Assumptions C01_serve_outside_independent.

Theorem C01_serve_input_outside_independent :
  forall (O1 O2 : Type) mime_html compressed_ok zip_pattern pyg_accepts icon_data cfg
         (w1 : world O1) (w2 : world O2) tls input,
    w_tree w1 = w_tree w2 ->
    serve_world_input mime_html compressed_ok zip_pattern pyg_accepts icon_data cfg w1 tls input =
    serve_world_input mime_html compressed_ok zip_pattern pyg_accepts icon_data cfg w2 tls input.
Proof. exact (@ServeFacts.serve_input_outside_independent). Qed.
Print Assumptions C01_serve_input_outside_independent.

(* non-vacuity: a tree, the shipped handler list plus the rewriter, real request bytes.
   One layer of escapes is decoded and rejected; a second layer stays literal text (a name
   that does not exist); a benign path reaches the file handler; through the rewriter the
   message names the rewritten selector. *)
Example C01Serve_example :
  let yes := fun _ : str => true in
  let no := fun _ : str => false in
  let cfg := mk_config [HUrl; HGophermap; HUMNDir; HFile; HRewriter] false (lit "/wap"%string) (lit "admin"%string) shipped_protocols in
  let root := TDir [(lit "a.txt"%string, TFile false false false);
                    (lit "dir1"%string, TDir [(lit "c.txt"%string, TFile false false false)])] in
  let serve := fun tls s => serve_input no no no yes (fun _ => []) cfg root tls (lit s) in
  serve false "GET /dir1/%2E%2E/secret.txt HTTP/1.0"%string
    = Some (PHttp, DNotFound (lit "'/dir1/../secret.txt' does not exist (no handler found)"%string)) /\
  serve false "GET /dir1/%252E%252E/a.txt HTTP/1.0"%string
    = Some (PHttp, DNotFound (lit "'/dir1/%2E%2E/a.txt' does not exist (no handler found)"%string)) /\
  serve true "gemini://h/dir1/%2e%2e/a.txt"%string
    = Some (PGemini, DNotFound (lit "'/dir1/../a.txt' does not exist (no handler found)"%string)) /\
  serve false "h /a.txt%00 0"%string
    = Some (PSpartan, DNotFound (lit "'/a.txt"%string ++ [0] ++ lit "' does not exist (no handler found)"%string)) /\
  serve false "/dir1//c.txt"%string
    = Some (PGopher, DNotFound (lit "'/dir1//c.txt' does not exist (no handler found)"%string)) /\
  serve false "GET /wap/dir1/c.txt HTTP/1.0"%string = Some (PWap, DChosen HFile (lit "/dir1/c.txt"%string)) /\
  serve false "/1/dir1/c.txt"%string = Some (PGopher, DChosen HFile (lit "/dir1/c.txt"%string)) /\
  serve false "/1/nope"%string = Some (PGopher, DNotFound (lit "'/nope' does not exist (no handler found)"%string)) /\
  serve false "GET /URL:http://x/../y HTTP/1.0"%string = Some (PHttp, DChosen HUrl (lit "/URL:http://x/../y"%string)) /\
  serve_accesses no no no yes cfg root PGopher (lit "/1/dir1/c.txt"%string) []
    = [(AStat, lit "/1/dir1/c.txt"%string); (AStat, lit "/1/dir1/c.txt/gophermap"%string);
       (AStat, lit "/dir1/c.txt"%string); (AStat, lit "/dir1/c.txt/gophermap"%string)].
Proof. vm_compute. repeat split; reflexivity. Qed.
