(* C20 — a failing client connection is contained in its own handler.
   Property theorems only.  A response is ANY list of actions (writes, with-files
   opened and closed, reference-counted opens, the FileNotFound point); the fault
   is ANY pattern `fails : nat -> bool` of failing write indices (gone for good
   from write k on, failing once and recovering, failing for n writes, ...) with
   an error class c (EPIPE / ECONNRESET with two arguments, TIMEOUT with one).
   `handle_spec p` / `server_spec` (Gen/Conn.v) are read off the except clauses of
   the current protocols/*.py handle() methods and of server.py on every run;
   `pinned_spec` / `pinned_server` are those of the pinned tree. *)
From Coq Require Import List Arith Bool String.
Import ListNotations.
From PG Require Import Lib.Str Model.Conn Gen.Conn Gen.Opens Proofs.C20Facts Proofs.C20Tie.

(* `connection ... pre acts`: pre is what ProtocolMultiplexer.getProtocol does
   (constructors and canhandlerequest() of the protocol classes, header reading)
   BEFORE the try statement of GopherRequestHandler.handle, acts the rest.  The
   theorems hold for a classification phase that does not write to the connection
   (`silent pre`); that the current code has no such write is
   C20_classification_is_silent, read off the source on every run. *)
Theorem C20_classification_is_silent : classify_write_sites = [].
Proof. exact C20Tie.classification_is_silent. Qed.
Print Assumptions C20_classification_is_silent.

(* Outside the connection handler: server.py's overrides of the socketserver
   hooks that run in the accept loop (verify_request, get_request,
   process_request, ...) send nothing to a client — a write there would be
   outside every except clause modelled here — and the reading of the request
   line at the top of handle() is guarded. *)
Theorem C20_accept_loop_is_silent : accept_loop_write_sites = [] /\ request_read_guarded = true.
Proof. exact C20Tie.outside_handler_silent. Qed.
Print Assumptions C20_accept_loop_is_silent.

(* nothing propagates past server.GopherRequestHandler.handle *)
Theorem C20_contained :
  forall p fails c pre acts, silent pre = true ->
  fst (connection fails c server_spec (handle_spec p) pre acts) = Contained.
Proof. exact C20Tie.contained_now. Qed.
Print Assumptions C20_contained.

(* ... and why silence is needed: a write issued during classification that fails
   leaves the connection handler *)
Theorem C20_classification_write_escapes :
  exists pre k, connection (window k None) EPIPE pinned_server (pinned_spec PCHttp) pre [] =
                (Escaped (XIO EPIPE), St 1 0 0 []).
Proof. exact C20Facts.classification_write_escapes. Qed.
Print Assumptions C20_classification_write_escapes.

(* every record logged after the connection failed carries the client address
   and the failure's own class, and there is at least one such record *)
Theorem C20_logged_own_class :
  forall p fails c pre acts o s, silent pre = true ->
  connection fails c server_spec (handle_spec p) pre acts = (o, s) ->
  (forall e, In e (log s) -> e_after e = true -> e_cls e = LIO c /\ e_addr e = true) /\
  (faulted fails s = true -> exists e, In e (log s) /\ e_after e = true).
Proof. exact C20Tie.logged_now. Qed.
Print Assumptions C20_logged_own_class.

(* the same two facts for every handler / server specification that satisfies the
   decidable conditions spec_ok / server_ok (what a rewrite has to preserve) *)
Theorem C20_logged_own_class_general :
  forall fails c sp h pre acts, server_ok sp = true -> spec_ok h = true -> silent pre = true ->
  forall o s, connection fails c sp h pre acts = (o, s) ->
  o = Contained /\
  (forall e, In e (log s) -> e_after e = true -> e_cls e = LIO c /\ e_addr e = true) /\
  (faulted fails s = true -> exists e, In e (log s) /\ e_after e = true).
Proof. exact C20Facts.connection_logged. Qed.
Print Assumptions C20_logged_own_class_general.

(* pinned code: `e.args[1]` on a one-argument socket.timeout raises IndexError in
   the except clause, and that is what the server then logs (DESIGN section 7, D9) *)
Theorem C20_argsindex_refuted :
  exists p acts k,
    In (Entry LIndexError true true)
       (log (snd (server_handle (window k None) TIMEOUT pinned_server (pinned_spec p) acts))).
Proof. exact C20Facts.argsindex_refuted. Qed.
Print Assumptions C20_argsindex_refuted.

(* why spec_ok forbids `e.strerror` in a handler whose reply pushes the message
   through html.escape: one write times out (one-argument error, strerror None),
   the connection recovers, the reply raises AttributeError and that is logged *)
Theorem C20_strerror_escape_refuted :
  exists acts k,
    In (Entry LAttributeError true true)
       (log (snd (server_handle (window k (Some 1)) TIMEOUT pinned_server
                   (HSpec true true MStrerror [NfW; NfW; NfW; NfW; NfWEscape; NfW]) acts))).
Proof. exact C20Facts.strerror_escape_refuted. Qed.
Print Assumptions C20_strerror_escape_refuted.

(* every file opened by a with block is closed again, on every path, for every
   specification *)
Theorem C20_files_closed :
  forall fails c sp h pre acts, balanced (pre ++ acts) -> depth (snd (connection fails c sp h pre acts)) = 0.
Proof. exact C20Facts.connection_files_closed. Qed.
Print Assumptions C20_files_closed.

(* the open call sites of pygopherd/ that are not with items are exactly the
   listed reference-counted resources (their release is runtime behaviour, checked
   on descriptors by the harness) *)
Theorem C20_non_with_sites_listed :
  list_eqb site_eqb non_with_sites ref_released_sites = true.
Proof. exact C20Tie.non_with_sites_listed. Qed.
Print Assumptions C20_non_with_sites_listed.

(* non-vacuity: a Gopher+ document whose third write times out — contained, one
   own-class record from the protocol and one from the server, file closed *)
Example C20_example :
  let acts := [AWrite; AOpen; AWrite; AWrite; AWrite; AClose] in
  balanced acts /\
  server_handle (window 2 None) TIMEOUT server_spec (handle_spec PCGopherPlus) acts =
    (Contained, St 4 0 0 [Entry (LIO TIMEOUT) true true; Entry (LIO TIMEOUT) true true]) /\
  (* the same write failing once: the error reply goes out, one record *)
  server_handle (window 2 (Some 1)) TIMEOUT server_spec (handle_spec PCGopherPlus) acts =
    (Contained, St 7 0 0 [Entry (LIO TIMEOUT) true true]).
Proof. repeat split; vm_compute; reflexivity. Qed.
