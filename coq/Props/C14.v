(* C14 — concurrent clients are isolated from one another.
   Property theorems only, over the interleaving model Model/Conc.v: N requests (any
   N: the pool is a function nat -> thread) for the same directory, an arbitrary
   schedule `sched : list nat` of atomic actions at system-call granularity.
   LEVEL: partial.  What the model cannot exhibit: the GIL / OS scheduler (only
   that every interleaving of the listed actions is covered), fork semantics
   (copy-on-write of the lazies: a child publishes into its own copy, which is the
   same as never seeing the others' publications), socketserver's accept loop and
   reaping, and the state of the TLS library.  Those are exercised by the stress
   part of the check only. *)
From Coq Require Import ZArith List Bool.
From PG Require Import Lib.Str Model.Cache Model.Conc Proofs.C14Facts Gen.Globals Gen.ServerSite Proofs.C14Shared.
Import ListNotations.

(* T: what the source shares between workers (Gen/Globals.v, regenerated from pygopherd/
   on every run) is what the model shares: every `global` statement concerns one of the
   six lazily initialised tables or start-up-only state, containers are mutated at
   start-up only, and the tables start as None and only ever receive configuration values; nothing writes the process
   environment / working directory after start-up (no os.environ alias, store, putenv ...); pygopherd/server.py
   (Gen/ServerSite.v) defines exactly the known socketserver hooks and assigns server-object attributes only at
   construction/bind time (plus the master's active_children). *)
Theorem C14_shared_state_is_modelled : shared_state_check = true.
Proof. exact shared_state_covered. Qed.
Print Assumptions C14_shared_state_is_modelled.

(* lazily initialised module-level tables: compute-then-publish is idempotent.
   Whatever the interleaving, an entry is either still unset or the value computed
   from the configuration, and two interleavings agree wherever both are set. *)
Theorem lazies_idempotent :
  forall (L V : Type) (target : L) enc decode fresh wtime (compute : nat -> V) rep1 rep2 st0,
    start target enc compute st0 ->
  forall sched1 sched2 k v1 v2,
    lazies (sh (run target decode fresh wtime compute rep1 sched1 st0)) k = Some v1 ->
    lazies (sh (run target decode fresh wtime compute rep2 sched2 st0)) k = Some v2 ->
    v1 = v2 /\ v1 = compute k.
Proof. exact lazies_idem. Qed.
Print Assumptions lazies_idempotent.

(* THE FULL STATEMENT: every schedule, any number of overlapping in-place writers.
   It needs a codec that never decodes a damaged variant (prefix ++ zero holes ++
   bytes) of the complete file to a different listing.  Real pickle does NOT have
   this property for holes (the check's search finds accepted holed files), which
   is why the statement the check relies on is C14_isolated_partial below. *)
Theorem C14_isolated :
  forall (L V : Type) (target : L) enc decode fresh wtime (compute : nat -> V),
    (forall c l, is_damaged target enc c -> decode (fread c) = Some l -> l = target) ->
  forall st0, start target enc compute st0 ->
  forall sched i r,
    response (run target decode fresh wtime compute true sched st0) i = Some r ->
    r = CServed (sequential target decode fresh (sh st0)).
Proof. exact isolated_all. Qed.
Print Assumptions C14_isolated.

(* Every schedule in which no request opens the cache file for writing while
   another one still holds it open (ghost flag `clash` never raised), repaired
   reader, codec facts of C11 only (round trip; strict prefixes fail to load). *)
Theorem C14_isolated_partial :
  forall (L V : Type) (target : L) enc decode fresh wtime (compute : nat -> V),
    (forall l, decode (enc l) = Some l) ->
    (forall l g, strict_prefix g (enc l) -> decode g = None) ->
  forall st0, start target enc compute st0 ->
  forall sched, clash (sh (run target decode fresh wtime compute true sched st0)) = false ->
  forall i r,
    response (run target decode fresh wtime compute true sched st0) i = Some r ->
    r = CServed (sequential target decode fresh (sh st0)).
Proof. exact isolated_excl. Qed.
Print Assumptions C14_isolated_partial.

(* the pinned reader can only deviate by the empty reply ... *)
Theorem C14_pinned_deviates_only_by_crash :
  forall (L V : Type) (target : L) enc decode fresh wtime (compute : nat -> V),
    (forall c l, is_damaged target enc c -> decode (fread c) = Some l -> l = target) ->
  forall st0, start target enc compute st0 ->
  forall sched i r,
    response (run target decode fresh wtime compute false sched st0) i = Some r ->
    r = CServed (sequential target decode fresh (sh st0)) \/ r = CCrashed.
Proof. exact pinned_all. Qed.
Print Assumptions C14_pinned_deviates_only_by_crash.

(* ... and it does: a reader that stats and reads between another request's
   open('wb') and its first write gets the empty reply, although writers never
   overlap.  (ex_state, ex_sched: C14Facts — toy codec, 2 requests, lazies 0,1 before the stat, 2 before listdir.) *)
Theorem C14_refuted :
  start [1%N; 2%N; 3%N] toy_enc (fun k => N.of_nat k) ex_state /\
  response (ex_run false ex_sched) 1 = Some CCrashed /\
  response (ex_run false ex_sched) 0 = Some (CServed [1%N; 2%N; 3%N]) /\
  clash (sh (ex_run false ex_sched)) = false /\
  sequential [1%N; 2%N; 3%N] toy_decode (fun _ => true) (sh ex_state) = [1%N; 2%N; 3%N].
Proof. split; [exact ex_start | vm_compute; repeat split; reflexivity]. Qed.
Print Assumptions C14_refuted.

(* non-vacuity of C14_isolated_partial: the same schedule (the reader meets the
   truncated file, writers do not overlap) under the repaired reader; both
   requests answer, the table of lazies is the configuration's *)
Example C14_example :
  response (ex_run true ex_sched) 0 = Some (CServed [1%N; 2%N; 3%N]) /\
  response (ex_run true ex_sched) 1 = Some (CServed [1%N; 2%N; 3%N]) /\
  clash (sh (ex_run true ex_sched)) = false /\
  map (lazies (sh (ex_run true ex_sched))) [0; 1; 2; 3] = [Some 0%N; Some 1%N; Some 2%N; None] /\
  fread (match file (sh (ex_run true ex_sched)) with Some (_, c) => c | None => fempty end) = toy_enc [1%N; 2%N; 3%N].
Proof. vm_compute. repeat split; reflexivity. Qed.
