(* C19 — privileges are dropped completely and in the right order at start-up.
   Property theorems only.  `prog` (Gen/Init.v) is the IR of initialize /
   get_server / init_security / init_* AND of the server constructor (BaseServer
   .__init__ / server_bind / server_activate of pygopherd/server.py over
   socketserver.TCPServer) regenerated from the source on every run, so these
   theorems are re-checked against the current source.

   Domain (finite, spelled out in the statements): `all_opts` = usechroot x
   setuid x setgid x TLS {absent, off, on} x pidfile x detach (96), the accounts
   whose numeric id is 0 for each present/absent combination (10), and every
   boolean option (usechroot, detach, enable_tls) in every spelling that
   ConfigParser.getboolean accepts (1/yes/true/on, 0/no/false/off, mixed case)
   and in some it rejects (39); for each of them every single failure
   `all_failures prog o` = no failure, or the k-th external call of that start-up
   raising OSError / KeyError / any other Exception, for every k below the number
   of external calls of the unfailed start-up.  `run_initialize prog o f` is the
   outcome: Running / Abort / Exited with the trace of external calls (socket
   calls included) that were carried out. *)
From Coq Require Import String Sorted.
From PG Require Import Lib.Str Model.Init Model.InitPinned Gen.Init Proofs.C19Facts.
Local Open Scope N_scope.

(* Every privilege-changing call (chroot, setgroups, setregid, setreuid, any
   other set*id) is preceded by socket.bind AND socket.listen of the listening
   socket and, when TLS is enabled, by the loading of certificate and key; the
   key is loaded before the socket is bound. *)
Theorem C19_bind_keys_first :
  forall o, In o all_opts -> forall f, In f (all_failures prog o) ->
  forall pre e post, out_trace (run_initialize prog o f) = pre ++ e :: post ->
    (is_priv e = true -> existsb is_bind pre = true /\ existsb is_listen pre = true /\
                         (o_tls o = TlsOn -> existsb is_loadkeys pre = true)) /\
    (is_bind e = true -> o_tls o = TlsOn -> existsb is_loadkeys pre = true).
Proof. exact C19Facts.bind_keys_first. Qed.
Print Assumptions C19_bind_keys_first.

(* chroot (1) < setgroups (2) < setregid (3) < setreuid (4): the ranks met along
   the trace are strictly increasing (so each step happens at most once), and no
   other identity-changing call occurs. *)
Theorem C19_order :
  forall o, In o all_opts -> forall f, In f (all_failures prog o) ->
  StronglySorted N.lt (ranks (out_trace (run_initialize prog o f))) /\
  (forall e, In e (out_trace (run_initialize prog o f)) -> is_idchange e = true ->
     is_setgroups e = true \/ is_setregid e = true \/ is_setreuid e = true).
Proof. exact C19Facts.order. Qed.
Print Assumptions C19_order.

(* A start-up without failure reaches Running having done exactly the configured
   steps: chroot iff usechroot, setgroups(()) iff a uid or a gid is configured,
   setregid(g, g) iff setgid (g = element 2 of grp.getgrnam(<setgid>), which may
   be 0), setreuid(u, u) iff setuid — for every spelling of the boolean options
   that getboolean accepts (o_bad o = false). *)
Theorem C19_steps_present :
  forall o, In o all_opts -> o_bad o = false ->
  exists tr, run_initialize prog o None = Running tr /\
    has is_chroot tr = o_chroot o /\ has is_setgroups tr = (o_uid o || o_gid o)%bool /\
    has is_setregid tr = o_gid o /\ has is_setreuid tr = o_uid o /\
    (o_chroot o = true -> In E_chroot tr) /\
    ((o_uid o || o_gid o)%bool = true -> In E_setgroups tr) /\
    (o_gid o = true -> In (E_setregid o) tr) /\ (o_uid o = true -> In (E_setreuid o) tr).
Proof. exact C19Facts.presence. Qed.
Print Assumptions C19_steps_present.

(* After chroot: config root := "/" and chdir("/") happen before the next
   identity change, and in any case before start-up reaches Running. *)
Theorem C19_chroot_complete :
  forall o, In o all_opts -> forall f, In f (all_failures prog o) ->
  forall pre e post, out_trace (run_initialize prog o f) = pre ++ e :: post -> is_chroot e = true ->
    is_running (run_initialize prog o f) = true \/ existsb is_idchange post = true ->
    existsb is_setroot (until_idchange post) = true /\ existsb is_chdir_root (until_idchange post) = true.
Proof. exact C19Facts.chroot_complete_holds. Qed.
Print Assumptions C19_chroot_complete.

(* The pinned code (prog_pinned = translation of commit 2b990d0) chroots and
   never changes directory: DESIGN section 7, D10. *)
Theorem C19_chdir_refuted :
  exists o tr, run_initialize prog_pinned o None = Running tr /\
    has is_chroot tr = true /\ has (is_name "os.chdir") tr = false.
Proof. exact C19Facts.chdir_refuted. Qed.
Print Assumptions C19_chdir_refuted.

(* A failure of the k-th external call — unless that call is one of the two
   best-effort process-group calls — aborts start-up at k: the exception leaves
   initialize, nothing swallows it, and the only external call that may follow
   is the closing of the half-built server's socket. *)
Theorem C19_abort :
  forall o, In o all_opts -> forall k x, In (Some (k, x)) (all_failures prog o) ->
  mem_str (ename (nth_call k (run_initialize prog o None))) best_effort = false ->
  exists tr, run_initialize prog o (Some (k, x)) = Abort (Some k) tr /\
             firstn k (calls_of tr) = firstn k (calls_of (out_trace (run_initialize prog o None))) /\
             forallb is_cleanup (skipn k (calls_of tr)) = true.
Proof. exact C19Facts.abort. Qed.
Print Assumptions C19_abort.

(* A boolean option with a value that ConfigParser.getboolean rejects: start-up
   does not reach Running and performs no privilege step. *)
Theorem C19_bad_boolean_aborts :
  forall o, In o all_opts -> o_bad o = true ->
  is_running (run_initialize prog o None) = false /\
  existsb is_priv (out_trace (run_initialize prog o None)) = false.
Proof. exact C19Facts.bad_boolean_aborts. Qed.
Print Assumptions C19_bad_boolean_aborts.

(* Whatever credentials the process starts with — plain root; real ids already
   those of the account but effective and saved ids 0 and root's groups (a
   set-uid-root launcher); already the account — a start-up that reaches Running
   ends with real, effective and saved uid = the configured user (if any), real,
   effective and saved gid = the configured group (if any), and no supplementary
   groups if either is configured.  (final_cred interprets the recorded calls with
   the Linux semantics of setgroups / setre*id / setres*id / set*id.) *)
Theorem C19_final_credentials :
  forall o, In o all_opts -> o_bad o = false -> forall st,
  exists tr, run_initialize_from prog st o None = Running tr /\
             final_cred (start_cred st o) tr = wanted_cred o (start_cred st o).
Proof. exact C19Facts.final_credentials. Qed.
Print Assumptions C19_final_credentials.

(* best-effort = os.setpgrp / os.getpgrp only; in particular no privilege step,
   not the bind, not the key loading, not the account look-ups *)
Theorem C19_best_effort_is_not_a_privilege_step :
  forall e, mem_str (ename e) best_effort = true ->
  is_priv e = false /\ is_bind e = false /\ is_listen e = false /\ is_loadkeys e = false /\
  is_name "os.chdir" e = false /\ is_name "pwd.getpwnam" e = false /\ is_name "grp.getgrnam" e = false.
Proof. exact C19Facts.best_effort_not_priv. Qed.
Print Assumptions C19_best_effort_is_not_a_privilege_step.

(* init_security called on its own (its 31 configurations x every failure): same
   order, and every failure aborts *)
Theorem C19_security_alone :
  forall o, In o sec_opts -> forall f, In f (all_failures_sec prog o) ->
  (StronglySorted N.lt (ranks (out_trace (run_security prog o f))) /\
   (forall e, In e (out_trace (run_security prog o f)) -> is_idchange e = true ->
      is_setgroups e = true \/ is_setregid e = true \/ is_setreuid e = true)) /\
  (forall k x, f = Some (k, x) ->
     exists tr, run_security prog o (Some (k, x)) = Abort (Some k) tr /\
                firstn k (calls_of tr) = firstn k (calls_of (out_trace (run_security prog o None))) /\
                forallb is_cleanup (skipn k (calls_of tr)) = true).
Proof. exact C19Facts.security_alone. Qed.
Print Assumptions C19_security_alone.

(* non-vacuity: the full start-up sequence of the configuration with everything
   switched on, the abort of a failing setregid, and a group whose id is 0 *)
Example C19_example :
  let o := Opts true true true TlsOn true true false false None in
  In o all_opts /\
  map ename (filter (fun e => is_priv e || is_bind e || is_listen e) (out_trace (run_initialize prog o None))) =
    map lit ["socket.bind"; "socket.listen"; "os.chroot"; "os.setgroups"; "os.setregid"; "os.setreuid"]%string /\
  List.length (all_failures prog o) = 88%nat /\
  (exists tr, run_initialize prog o (Some (27%nat, XOS)) = Abort (Some 27%nat) tr /\
              map ename (filter is_priv tr) = map lit ["os.chroot"; "os.setgroups"]%string) /\
  (let w := Opts false false true TlsAbsent false false false true None in
   In w all_opts /\
   filter is_priv (out_trace (run_initialize prog w None)) =
     [Eff (lit "os.setgroups") [lit "()"]; Eff (lit "os.setregid") [lit "0"; lit "0"]]).
Proof.
  vm_compute. split; [repeat (first [left; reflexivity | right])|]. split; [reflexivity|]. split; [reflexivity|].
  split; [eexists; split; reflexivity|]. split; [repeat (first [left; reflexivity | right]) | reflexivity].
Qed.
