(* C02 — protocol autodetection is deterministic, ordered and strict about TLS.
   `shipped_protocols` and `secure_flag` are regenerated from conf/pygopherd.conf and
   pygopherd/protocols/*.py on every run (Gen/Config.v). *)
From Coq Require Import String.
From PG Require Import Lib.Str Model.ProtoId Gen.Config Model.Detect Proofs.C02Facts.
Local Open Scope N_scope.

(* the answer is the FIRST protocol of the configured list that accepts — for every list and order *)
Theorem C02_first_match :
  forall waptop ps tls req hdrs p,
    detect waptop ps tls req hdrs = Some p <->
    exists pre post, ps = pre ++ p :: post /\ accepts waptop p tls req hdrs = true /\
                     forall q, In q pre -> accepts waptop q tls req hdrs = false.
Proof. exact detect_first_match. Qed.
Print Assumptions C02_first_match.

(* plaintext protocols never answer TLS connections and vice versa *)
Theorem C02_tls_strict :
  forall waptop ps tls req hdrs p, detect waptop ps tls req hdrs = Some p -> secure_flag p = tls.
Proof. exact detect_tls_strict. Qed.
Print Assumptions C02_tls_strict.

(* with the shipped list every line is claimed by some protocol *)
Theorem C02_shipped_total :
  forall waptop tls req hdrs, detect waptop shipped_protocols tls req hdrs <> None.
Proof. exact shipped_total. Qed.
Print Assumptions C02_shipped_total.

(* ... and never by a catch-all when a specific protocol of the list matches *)
Theorem C02_shipped_specific_first :
  forall waptop tls req hdrs q p,
    In q shipped_protocols -> catch_all q = false -> accepts waptop q tls req hdrs = true ->
    detect waptop shipped_protocols tls req hdrs = Some p -> catch_all p = false.
Proof. intros waptop tls req hdrs q p. exact (catchall_last_specific waptop _ tls req hdrs q p shipped_catchall_last). Qed.
Print Assumptions C02_shipped_specific_first.

Theorem C02_sniff : forall b, sniff_tls b = true <-> b = 22.
Proof. exact sniff_spec. Qed.
Print Assumptions C02_sniff.

Theorem C02_peek_consumes_nothing : forall q, snd (peek q) = q.
Proof. exact peek_consumes_nothing. Qed.
Print Assumptions C02_peek_consumes_nothing.

(* the code as pinned raised IndexError on an empty Gopher+ field ("foo<TAB><CR><LF>"): *)
Theorem C02_empty_field_refuted :
  exists req, detect_pinned shipped_waptop shipped_protocols false req [] = Raised.
Proof. eexists. exact pinned_empty_field_raises. Qed.
Print Assumptions C02_empty_field_refuted.

Example C02_example :
  detect shipped_waptop shipped_protocols false (lit "GET / HTTP/1.0"%string ++ [13;10]) [] = Some PHttp /\
  detect shipped_waptop shipped_protocols true (lit "gemini://h/"%string ++ [13;10]) [] = Some PGemini /\
  detect shipped_waptop shipped_protocols false (lit "/x"%string ++ [9;43;13;10]) [] = Some PGopherPlus.
Proof. vm_compute. repeat split; reflexivity. Qed.
