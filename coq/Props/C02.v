(* C02 — protocol autodetection is deterministic, ordered and strict about TLS.
   `shipped_protocols` and `secure_flag` are regenerated from conf/pygopherd.conf and
   pygopherd/protocols/*.py on every run (Gen/Config.v). *)
From Coq Require Import String.
From PG Require Import Lib.Str Model.ProtoId Gen.Config Model.Detect Proofs.C02Facts Proofs.C02More Proofs.C02Spec.
Local Open Scope N_scope.

(* the answer is the FIRST protocol of the configured list that accepts — for every list and order *)
Theorem C02_first_match :
  forall waptop ps tls req hdrs p,
    detect waptop ps tls req hdrs = Some p <->
    exists pre post, ps = pre ++ p :: post /\ accepts waptop p tls req hdrs = true /\
                     forall q, In q pre -> accepts waptop q tls req hdrs = false.
Proof. exact detect_first_match. Qed.
Print Assumptions C02_first_match.

(* plaintext protocols never answer TLS connections and vice versa *)
Theorem C02_tls_strict :
  forall waptop ps tls req hdrs p, detect waptop ps tls req hdrs = Some p -> secure_flag p = tls.
Proof. exact detect_tls_strict. Qed.
Print Assumptions C02_tls_strict.

(* with the shipped list every line is claimed by some protocol *)
Theorem C02_shipped_total :
  forall waptop tls req hdrs, detect waptop shipped_protocols tls req hdrs <> None.
Proof. exact shipped_total. Qed.
Print Assumptions C02_shipped_total.

(* ... and never by a catch-all when a specific protocol of the list matches *)
Theorem C02_shipped_specific_first :
  forall waptop tls req hdrs q p,
    In q shipped_protocols -> catch_all q = false -> accepts waptop q tls req hdrs = true ->
    detect waptop shipped_protocols tls req hdrs = Some p -> catch_all p = false.
Proof. intros waptop tls req hdrs q p. exact (catchall_last_specific waptop _ tls req hdrs q p shipped_catchall_last). Qed.
Print Assumptions C02_shipped_specific_first.

Theorem C02_sniff : forall b, sniff_tls b = true <-> b = 22.
Proof. exact sniff_spec. Qed.
Print Assumptions C02_sniff.

Theorem C02_peek_consumes_nothing : forall q, snd (peek q) = q.
Proof. exact peek_consumes_nothing. Qed.
Print Assumptions C02_peek_consumes_nothing.

(* the code as pinned raised IndexError on an empty Gopher+ field ("foo<TAB><CR><LF>"): *)
Theorem C02_empty_field_refuted :
  exists req, detect_pinned shipped_waptop shipped_protocols false req [] = Raised.
Proof. eexists. exact pinned_empty_field_raises. Qed.
Print Assumptions C02_empty_field_refuted.

(* "a deterministic function of the first request line and of whether the connection is TLS": the header block
   is looked at only by the WAP class, only for lines of the HTTP shape, only on plaintext connections *)
Theorem C02_headers_irrelevant_without_wap :
  forall waptop ps tls req h1 h2, ~ In PWap ps -> detect waptop ps tls req h1 = detect waptop ps tls req h2.
Proof. exact detect_headers_irrelevant_without_wap. Qed.
Print Assumptions C02_headers_irrelevant_without_wap.

Theorem C02_headers_irrelevant_unless_http :
  forall waptop ps tls req h1 h2, http_shape req = false -> detect waptop ps tls req h1 = detect waptop ps tls req h2.
Proof. exact detect_headers_irrelevant_unless_http. Qed.
Print Assumptions C02_headers_irrelevant_unless_http.

Theorem C02_headers_irrelevant_tls :
  forall waptop ps req h1 h2, detect waptop ps true req h1 = detect waptop ps true req h2.
Proof. intros waptop ps req h1 h2. exact (detect_headers_irrelevant_tls waptop ps req h1 h2 eq_refl). Qed.
Print Assumptions C02_headers_irrelevant_tls.

(* classes of the other TLS-ness are invisible to a connection *)
Theorem C02_other_tls_invisible :
  forall waptop ps tls req hdrs,
    detect waptop ps tls req hdrs =
    detect waptop (filter (fun p => Bool.eqb (secure_flag p) tls) ps) tls req hdrs.
Proof. exact detect_filter_tls. Qed.
Print Assumptions C02_other_tls_invisible.

(* the answer is a member of the configured list; a class that declines can be removed or inserted anywhere;
   a second copy of a class is dead *)
Theorem C02_answer_in_list :
  forall waptop ps tls req hdrs p, detect waptop ps tls req hdrs = Some p -> In p ps.
Proof. exact detect_in. Qed.
Print Assumptions C02_answer_in_list.

Theorem C02_decliner_irrelevant :
  forall waptop pre q post tls req hdrs, accepts waptop q tls req hdrs = false ->
    detect waptop (pre ++ q :: post) tls req hdrs = detect waptop (pre ++ post) tls req hdrs.
Proof. exact detect_skip. Qed.
Print Assumptions C02_decliner_irrelevant.

Theorem C02_duplicate_dead :
  forall waptop pre p mid post tls req hdrs,
    detect waptop (pre ++ p :: mid ++ p :: post) tls req hdrs = detect waptop (pre ++ p :: mid ++ post) tls req hdrs.
Proof. exact detect_dup. Qed.
Print Assumptions C02_duplicate_dead.

(* totality for EVERY list with a catch-all of each kind, and only for those: without a catch-all the empty
   line is claimed by nobody *)
Theorem C02_total_iff_catchalls :
  forall waptop ps,
    (forall tls req hdrs, detect waptop ps tls req hdrs <> None) <->
    ((exists p, In p ps /\ catch_all p = true /\ secure_flag p = true) /\
     (exists p, In p ps /\ catch_all p = true /\ secure_flag p = false)).
Proof. exact total_iff_catchalls. Qed.
Print Assumptions C02_total_iff_catchalls.

(* the order is observable where shapes overlap ("GET /<TAB>+ HTTP/1.0" is an HTTP line and a Gopher+ line;
   the shipped order gives it to HTTP) and immaterial where they exclude one another (Gemini / HTTPS) *)
Theorem C02_order_matters :
  detect shipped_waptop [PHttp; PGopherPlus] false overlap_line [] = Some PHttp /\
  detect shipped_waptop [PGopherPlus; PHttp] false overlap_line [] = Some PGopherPlus /\
  detect shipped_waptop shipped_protocols false overlap_line [] = Some PHttp.
Proof. exact order_matters. Qed.
Print Assumptions C02_order_matters.

Theorem C02_gemini_excludes_http : forall req, gemini_shape req = true -> http_shape req = false.
Proof. exact gemini_not_http. Qed.
Print Assumptions C02_gemini_excludes_http.

Theorem C02_gemini_https_commute :
  forall waptop pre post tls req hdrs,
    detect waptop (pre ++ PGemini :: PHttps :: post) tls req hdrs =
    detect waptop (pre ++ PHttps :: PGemini :: post) tls req hdrs.
Proof. exact gemini_https_commute. Qed.
Print Assumptions C02_gemini_https_commute.

(* "whose documented request shape it matches": each class's test (Model/Detect.v, the code's own string operations)
   is equivalent to a declarative description of the request line *)
Theorem C02_http_shape_documented :
  forall req, http_shape req = true <->
    exists m u v, req = m ++ 32 :: u ++ 32 :: v /\
      mem_N 32 m = false /\ mem_N 32 u = false /\ mem_N 32 v = false /\
      (strip m = GET \/ strip m = HEAD) /\ prefixb HTTPSL (strip v) = true.
Proof. exact http_shape_spec. Qed.
Print Assumptions C02_http_shape_documented.

Theorem C02_gemini_shape_documented :
  forall req, gemini_shape req = true <-> exists rest, req = GEMINI ++ rest.
Proof. exact gemini_shape_spec. Qed.
Print Assumptions C02_gemini_shape_documented.

Theorem C02_spartan_shape_documented :
  forall req, spartan_shape req = true <->
    (all_ascii req = true /\
     exists h p n, strip req = h ++ 32 :: p ++ 32 :: n /\
       mem_N 32 h = false /\ mem_N 32 p = false /\ mem_N 32 n = false /\
       h <> [] /\ p <> [] /\ n <> [] /\ forallb is_ascii_digit n = true).
Proof. exact spartan_shape_spec. Qed.
Print Assumptions C02_spartan_shape_documented.

Theorem C02_gplus_shape_documented :
  forall req, gplus_shape req = true <->
    exists g, gplus_marker (strip g) = true /\ mem_N 9 g = false /\
      ((exists sel, req = sel ++ 9 :: g /\ mem_N 9 sel = false) \/
       (exists sel q, req = sel ++ 9 :: q ++ 9 :: g /\ mem_N 9 sel = false /\ mem_N 9 q = false)).
Proof. exact gplus_shape_spec. Qed.
Print Assumptions C02_gplus_shape_documented.

Theorem C02_gplus_marker_documented :
  forall g, gplus_marker g = true <-> g = [33] \/ exists r, g = 43 :: r \/ g = 36 :: r.
Proof. exact gplus_marker_spec. Qed.
Print Assumptions C02_gplus_marker_documented.

Example C02_example :
  detect shipped_waptop shipped_protocols false (lit "GET / HTTP/1.0"%string ++ [13;10]) [] = Some PHttp /\
  detect shipped_waptop shipped_protocols true (lit "gemini://h/"%string ++ [13;10]) [] = Some PGemini /\
  detect shipped_waptop shipped_protocols false (lit "/x"%string ++ [9;43;13;10]) [] = Some PGopherPlus.
Proof. vm_compute. repeat split; reflexivity. Qed.
