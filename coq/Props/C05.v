(* C05 — listings only advertise what the server will serve (link closure), the
   codec / request-syntax layer.  Property theorems only; each is closed by
   `exact <lemma>` and followed by Print Assumptions.

   Scope.  Model/Request.v gives, for every protocol class, the function from the
   decoded request line to what handle() passes to HandlerMultiplexer.getHandler, and
   `request_of_link` / `search_request`: what a client sends when it follows a link
   (submits a search) that the same protocol rendered for selector s.  The theorems
   say that the handler chain is asked for exactly slashnormalize s (and exactly the
   submitted text), for ALL selectors that are byte strings decoded with
   surrogateescape (s = decode_se b: spaces, reserved URL characters, "%", non-UTF-8
   bytes, "|" of virtual selectors ...), under the side conditions each request syntax
   needs.  Since a directory listing is built by asking the same handler chain about
   base/name (handlers/dir.py prep_entries) and base/name is a fixed point of
   slashnormalize (C05_listing_selector_fixed), the follow-up request reaches the chain
   with the very selector the listing was computed from.  That the chain then answers
   with a success of the advertised kind is established by the exhaustive crawl of
   harness/c05.py, not by these theorems.  The tie to /repo is Corr/K05.v. *)
From Coq Require Import String.
From PG Require Import Lib.Str Lib.Bytes Lib.Utf8 Lib.Percent Lib.PercentStr Lib.Urlparse Lib.Crlf
  Model.ProtoId Model.Selector Model.Detect Model.Request Proofs.C05Facts.
Local Open Scope N_scope.

(* ---- slashnormalize ---- *)
Theorem C05_slashnormalize_idem :
  forall s, endswith s [SLASH; SLASH] = false -> slashnormalize (slashnormalize s) = slashnormalize s.
Proof. exact C05Facts.slashnormalize_idem. Qed.
Print Assumptions C05_slashnormalize_idem.

(* without the hypothesis it is false: "a//" -> "/a/" -> "/a" *)
Theorem C05_slashnormalize_idem_refuted :
  exists s, slashnormalize (slashnormalize s) <> slashnormalize s.
Proof. exact C05Facts.slashnormalize_idem_refuted. Qed.
Print Assumptions C05_slashnormalize_idem_refuted.

(* what dir.py builds: selectorbase + "/" + name, selectorbase = "" for the root *)
Theorem C05_listing_selector_fixed :
  forall base name, rooted base = true -> nonempty name = true -> mem_N SLASH name = false ->
    slashnormalize (base ++ SLASH :: name) = base ++ SLASH :: name.
Proof. exact C05Facts.listing_selector_fixed_b. Qed.
Print Assumptions C05_listing_selector_fixed.

(* ---- the wire: the request is one CRLF-terminated line, decoded with surrogateescape ---- *)
Theorem C05_wire_line :
  forall b rest, is_bytes b = true -> mem_N 10 b = false ->
    readline (b ++ CRLF ++ rest) = (b ++ CRLF, rest) /\ decode_se (b ++ CRLF) = decode_se b ++ CRLF.
Proof. exact C05Facts.wire_line. Qed.
Print Assumptions C05_wire_line.

(* ---- following a link ---- *)
(* Gopher family: any selector (any str) without TAB that str.strip() leaves alone *)
Theorem C05_gopher_roundtrip :
  forall p waptop host s, is_gopher_family p = true -> mem_N TAB s = false -> strip_safe s = true ->
    exists req, request_of_link p waptop host s = Some req /\
                route p waptop req [] = ToHandler (slashnormalize s) None.
Proof. exact C05Facts.gopher_roundtrip. Qed.
Print Assumptions C05_gopher_roundtrip.

(* HTTP, HTTPS: every byte string; the built-in icon names stay reserved *)
Theorem C05_http_roundtrip :
  forall p waptop host b, is_http p = true -> is_bytes b = true ->
    icon_of (slashnormalize (decode_se b)) = None ->
    exists req, request_of_link p waptop host (decode_se b) = Some req /\
                route p waptop req [] = ToHandler (slashnormalize (decode_se b)) None.
Proof. exact C05Facts.http_roundtrip. Qed.
Print Assumptions C05_http_roundtrip.

Theorem C05_wap_roundtrip :
  forall waptop host b, waptop_ok waptop = true -> is_bytes b = true ->
    starts_with_slash (decode_se b) = true -> icon_of (slashnormalize (decode_se b)) = None ->
    exists req, request_of_link PWap waptop host (decode_se b) = Some req /\
                route PWap waptop req [] = ToHandler (slashnormalize (decode_se b)) None.
Proof. exact C05Facts.wap_roundtrip. Qed.
Print Assumptions C05_wap_roundtrip.

(* Gemini: every byte string outside the /GEMINI-QUERY segment; the handler gets "" as search *)
Theorem C05_gemini_roundtrip :
  forall waptop host b, host_ok host = true -> is_bytes b = true -> rooted (decode_se b) = true ->
    gemini_prefixed (decode_se b) = false ->
    exists req, request_of_link PGemini waptop host (decode_se b) = Some req /\
                route PGemini waptop req [] = ToHandler (slashnormalize (decode_se b)) (Some []).
Proof. exact C05Facts.gemini_roundtrip_b. Qed.
Print Assumptions C05_gemini_roundtrip.

Theorem C05_spartan_roundtrip :
  forall waptop host b, host_ok host = true -> is_bytes b = true ->
    exists req, request_of_link PSpartan waptop host (decode_se b) = Some req /\
                route PSpartan waptop req [] = ToHandler (slashnormalize (decode_se b)) None.
Proof. exact C05Facts.spartan_roundtrip. Qed.
Print Assumptions C05_spartan_roundtrip.

(* virtual selectors real|args are just selectors *)
Theorem C05_virtual_roundtrip_http :
  forall p waptop host real args, is_http p = true -> is_bytes real = true -> is_bytes args = true ->
    let b := real ++ [PIPE] ++ args in
    icon_of (slashnormalize (decode_se b)) = None ->
    exists req, request_of_link p waptop host (decode_se b) = Some req /\
                route p waptop req [] = ToHandler (slashnormalize (decode_se b)) None.
Proof. exact C05Facts.virtual_roundtrip_http. Qed.
Print Assumptions C05_virtual_roundtrip_http.

(* ---- submitting a search (also used by C06): the handler receives the text that was typed ---- *)
Theorem C05_gopher_query_roundtrip :
  forall p waptop host s q, is_gopher_family p = true -> mem_N TAB s = false -> strip_safe s = true ->
    mem_N TAB q = false -> strip_safe q = true ->
    exists req, search_request p waptop host s q = Some (req, []) /\
                route p waptop req [] = ToHandler (slashnormalize s) (Some q).
Proof. exact C05Facts.gopher_query_roundtrip. Qed.
Print Assumptions C05_gopher_query_roundtrip.

Theorem C05_http_query_roundtrip :
  forall p waptop host b bq, is_http p = true -> is_bytes b = true -> is_bytes bq = true -> nonempty bq = true ->
    icon_of (slashnormalize (decode_se b)) = None ->
    exists req, search_request p waptop host (decode_se b) (decode_se bq) = Some (req, []) /\
                route p waptop req [] = ToHandler (slashnormalize (decode_se b)) (Some (decode_se bq)).
Proof. exact C05Facts.http_query_roundtrip_b. Qed.
Print Assumptions C05_http_query_roundtrip.

Theorem C05_wap_query_roundtrip :
  forall waptop host b bq, waptop_ok waptop = true -> is_bytes b = true -> starts_with_slash (decode_se b) = true ->
    is_bytes bq = true -> nonempty bq = true -> icon_of (slashnormalize (decode_se b)) = None ->
    exists req, search_request PWap waptop host (decode_se b) (decode_se bq) = Some (req, []) /\
                route PWap waptop req [] = ToHandler (slashnormalize (decode_se b)) (Some (decode_se bq)).
Proof. exact C05Facts.wap_query_roundtrip_b. Qed.
Print Assumptions C05_wap_query_roundtrip.

Theorem C05_gemini_query_roundtrip :
  forall waptop host b bq, host_ok host = true -> is_bytes b = true -> rooted (decode_se b) = true ->
    gemini_prefixed (decode_se b) = false -> is_bytes bq = true ->
    exists req, search_request PGemini waptop host (decode_se b) (decode_se bq) = Some (req, []) /\
                route PGemini waptop req [] = ToHandler (slashnormalize (decode_se b)) (Some (decode_se bq)).
Proof. exact C05Facts.gemini_query_roundtrip_b. Qed.
Print Assumptions C05_gemini_query_roundtrip.

(* a Gemini search item: prompt (10), redirect (30 target), the redirected request *)
Theorem C05_gemini_search_dance :
  forall host b bq, host_ok host = true -> is_bytes b = true -> rooted (decode_se b) = true ->
    gemini_prefixed (decode_se b) = false -> is_bytes bq = true -> nonempty bq = true ->
    exists r1 r2 target,
      gemini_prompt_request host (decode_se b) = Some r1 /\ gemini_route r1 = GeminiInput /\
      gemini_answer_request host (decode_se b) (decode_se bq) = Some r2 /\ gemini_route r2 = GeminiRedirect target /\
      gemini_route (gemini_follow_redirect host target)
        = ToHandler (slashnormalize (decode_se b)) (Some (decode_se bq)).
Proof. exact C05Facts.gemini_search_dance_b. Qed.
Print Assumptions C05_gemini_search_dance.

(* Spartan: the text is the request body (any bytes that follow it are left alone) *)
Theorem C05_spartan_query_roundtrip :
  forall waptop host b bq rest, host_ok host = true -> is_bytes b = true -> is_bytes bq = true -> nonempty bq = true ->
    N.of_nat (List.length bq) <=? SSIZE_MAX = true ->
    exists req, search_request PSpartan waptop host (decode_se b) (decode_se bq) = Some (req, bq) /\
                route PSpartan waptop req (bq ++ rest) = ToHandler (slashnormalize (decode_se b)) (Some (decode_se bq)).
Proof. exact C05Facts.spartan_query_roundtrip_b. Qed.
Print Assumptions C05_spartan_query_roundtrip.

(* ---- the pinned prefix tests (before /repo 3c20be2 and 99beac0) break the round trip ---- *)
Theorem C05_gemini_prefix_pinned_refuted :
  exists b, is_bytes b = true /\ starts_with_slash (decode_se b) = true /\
    gemini_route_pinned (GEMINI_SCHEME ++ lit "h"%string ++ quote_path b ++ CRLF) = GeminiInput.
Proof. exact C05Facts.gemini_prefix_pinned_refuted. Qed.
Print Assumptions C05_gemini_prefix_pinned_refuted.

Theorem C05_wap_prefix_pinned_refuted :
  exists b, is_bytes b = true /\
    wap_route_pinned (lit "/wap"%string) (GET_ ++ quote_path b ++ HTTP10 ++ CRLF)
      <> ToHandler (slashnormalize (decode_se b)) None /\
    wap_route (lit "/wap"%string) (GET_ ++ quote_path b ++ HTTP10 ++ CRLF)
      = ToHandler (slashnormalize (decode_se b)) None.
Proof. exact C05Facts.wap_prefix_pinned_refuted. Qed.
Print Assumptions C05_wap_prefix_pinned_refuted.

(* ---- names that stay reserved in the repaired code (why the hypotheses are there) ---- *)
Theorem C05_gemini_reserved_refuted :
  exists b, is_bytes b = true /\
    gemini_route (GEMINI_SCHEME ++ lit "h"%string ++ quote_path b ++ CRLF) = GeminiInput.
Proof. exact C05Facts.gemini_reserved_refuted. Qed.
Print Assumptions C05_gemini_reserved_refuted.

Theorem C05_http_icon_shadow_refuted :
  exists b, is_bytes b = true /\
    http_route (GET_ ++ quote_path b ++ HTTP10 ++ CRLF) = Icon (lit "text.gif"%string).
Proof. exact C05Facts.http_icon_shadow_refuted. Qed.
Print Assumptions C05_http_icon_shadow_refuted.

(* non-vacuity: the hypotheses hold for a hostile name, a host, a prefix and a search text *)
Example C05_example :
  let b := lit "/odd/sp ace%41?#|"%string ++ [174; 195; 169] ++ lit ".txt"%string in
  let bq := lit "two words & 100%"%string ++ [255] in
  is_bytes b = true /\ is_bytes bq = true /\ nonempty bq = true /\
  rooted (decode_se b) = true /\ starts_with_slash (decode_se b) = true /\
  gemini_prefixed (decode_se b) = false /\ icon_of (slashnormalize (decode_se b)) = None /\
  host_ok (lit "gopher.example"%string) = true /\ waptop_ok (lit "/wap"%string) = true /\
  is_http PHttps = true /\ is_gopher_family PGopherPlus = true /\
  strip_safe (lit "/a b"%string) = true /\ mem_N TAB (lit "/a b"%string) = false /\
  rooted [] = true /\ nonempty (lit "name"%string) = true /\
  endswith (lit "/dir/"%string) [SLASH; SLASH] = false /\
  route PHttp [] (GET_ ++ quote_path b ++ HTTP10 ++ CRLF) [] = ToHandler (decode_se b) None.
Proof. vm_compute. repeat split; reflexivity. Qed.
