(* C04 — documents are delivered byte-for-byte with truthful length and type.
   Property theorems only.  Model: Model/Copy.v (copy loop, protocol framing,
   reference client), Model/Wml.v (WAP text conversion), Model/Mime.v (type
   tables as Section variables), Lib/HtmlEsc.v, Lib/Dec.v. *)
From Coq Require Import String ZArith.
From PG Require Import Lib.Str Lib.Dec Lib.DecFacts Lib.Crlf Lib.CrlfFacts Lib.HtmlEsc Lib.HtmlEscFacts
     Model.Entry Model.Copy Model.Wml Model.Mime Proofs.C04Facts.
Local Open Scope N_scope.

(* the read/write loop reproduces the file for every block size > 0 and every content *)
Theorem chunks_concat : forall n d, (0 < n)%nat -> concat (chunks n d) = d.
Proof. exact C04Facts.chunks_concat. Qed.
Print Assumptions chunks_concat.

(* Gopher, Gopher+, HTTP GET/HEAD, Gemini, Spartan: a reference client reading the
   response to a request for a stored file gets exactly the file's bytes (HEAD:
   no body), next to the metadata lines, whatever the bytes and the size. *)
Theorem C04_body_exact :
  forall p m size lastmod d, meta_ok m lastmod ->
    client_read p (serve_doc p Stored m size lastmod d) =
    Some (meta_lines p m size lastmod, body_sent p d).
Proof. exact C04Facts.body_exact. Qed.
Print Assumptions C04_body_exact.

(* the decimal printer and parser are inverse for every number *)
Theorem C04_dec_roundtrip : forall n, parse_dec (print_dec n) = Some n.
Proof. exact DecFacts.parse_print_dec. Qed.
Print Assumptions C04_dec_roundtrip.

(* Gopher+ "+" form: the announced length is the number of body bytes that follow *)
Theorem C04_gplus_length :
  forall m lastmod d, meta_ok m lastmod ->
  exists line body,
    client_read PGopherPlus (serve_doc PGopherPlus Stored m (entry_size Stored d) lastmod d) = Some ([line], body) /\
    gplus_announced line = Some (N.of_nat (List.length body)) /\ body = d.
Proof. exact C04Facts.gplus_length_stored. Qed.
Print Assumptions C04_gplus_length.

(* handlers that transform the stored bytes (decompression, TAL) announce the
   unknown-length marker — the repaired code *)
Theorem C04_transformed_length :
  forall f m lastmod d, meta_ok m lastmod ->
  client_read PGopherPlus (serve_doc PGopherPlus (Transformed f) m (entry_size (Transformed f) d) lastmod d)
    = Some ([lit "+-2"], f d) /\ gplus_announced (lit "+-2") = None.
Proof. exact C04Facts.gplus_length_transformed. Qed.
Print Assumptions C04_transformed_length.

(* the pinned code keeps the stored size there (DESIGN section 7, D18) *)
Theorem C04_transformed_length_refuted :
  exists (f : bytes -> bytes) d line body n,
    client_read PGopherPlus (serve_doc PGopherPlus (Transformed f) None (entry_size_pinned (Transformed f) d) None d)
      = Some ([line], body) /\
    gplus_announced line = Some n /\ n <> N.of_nat (List.length body).
Proof. exact C04Facts.transformed_length_refuted. Qed.
Print Assumptions C04_transformed_length_refuted.

(* HEAD = the header block of GET, and nothing else *)
Theorem C04_head :
  forall k m size lastmod d,
    serve_doc (PHttp GET) k m size lastmod d = serve_doc (PHttp HEAD) k m size lastmod d ++ handler_write k d /\
    serve_doc (PHttp HEAD) k m size lastmod d = http_header_block lastmod (http_adjust m).
Proof. exact C04Facts.head_is_get_header. Qed.
Print Assumptions C04_head.

Theorem C04_head_client :
  forall k m size lastmod d, meta_ok m lastmod ->
  exists hs body,
    client_read (PHttp GET) (serve_doc (PHttp GET) k m size lastmod d) = Some (hs, body) /\
    client_read (PHttp HEAD) (serve_doc (PHttp HEAD) k m size lastmod d) = Some (hs, []).
Proof. exact C04Facts.head_client. Qed.
Print Assumptions C04_head_client.

(* html.escape is inverted by the entity decoder *)
Theorem C04_unescape_escape : forall q s, unescape (escape q s) = s.
Proof. exact HtmlEscFacts.unescape_escape. Qed.
Print Assumptions C04_unescape_escape.

(* WAP: the WML text decodes, line by line, to the right-stripped lines of the document *)
Theorem C04_wml_invertible : forall text, of_wml (to_wml text) = Some (map rstrip (lines_keepends text)).
Proof. exact C04Facts.wml_invertible. Qed.
Print Assumptions C04_wml_invertible.

Theorem C04_wap_response :
  forall lastmod text, match lastmod with Some t => no_lf t | None => True end ->
  http_split 16 (wap_doc_text lastmod text) = Some (http_header_lines lastmod WML_TYPE, to_wml text).
Proof. exact C04Facts.wap_text_client. Qed.
Print Assumptions C04_wap_response.

(* the advertised MIME type of a regular file is the table type of its name;
   size and Gopher+ support come from the stat result *)
Theorem C04_mime :
  forall suffix_map encodings_map types_strict types_common default_mimetype eaexts sidecar
         sel fspath size mtime ctime,
    let e := populatefromfs suffix_map encodings_map types_strict types_common default_mimetype eaexts sidecar
               fspath (Some (mkStat false size mtime ctime)) (new_entry sel) in
    e_mimetype e = Some (file_mimetype suffix_map encodings_map types_strict types_common default_mimetype sel) /\
    e_size e = Some size /\ e_gopherpsupport e = true.
Proof. exact C04Facts.populate_file_mimetype. Qed.
Print Assumptions C04_mime.

(* precedence: encoded => generic binary; known suffix => its type; else the configured default *)
Theorem C04_mime_precedence :
  forall suffix_map encodings_map types_strict types_common default_mimetype sel,
    match guess_type suffix_map encodings_map types_strict types_common sel with
    | (_, Some (c :: enc)) =>
        file_mimetype suffix_map encodings_map types_strict types_common default_mimetype sel = OCTET
    | (Some (c :: t), _) =>
        file_mimetype suffix_map encodings_map types_strict types_common default_mimetype sel = c :: t
    | _ => file_mimetype suffix_map encodings_map types_strict types_common default_mimetype sel = default_mimetype
    end.
Proof. exact C04Facts.file_mimetype_cases. Qed.
Print Assumptions C04_mime_precedence.

(* every protocol advertises that type unchanged (a document type is never the menu type) *)
Theorem C04_mime_same_in_every_protocol :
  forall x, x <> MENU ->
    http_adjust (Some x) = x /\ gemini_adjust (Some x) = x /\
    (x <> lit "text/plain" -> wap_adjust (Some x) = x /\ wap_needs_conversion (Some x) = false).
Proof. exact C04Facts.adjust_identity. Qed.
Print Assumptions C04_mime_same_in_every_protocol.

(* non-vacuity: a 3-block file through Gopher+ and HTTP; a WML round trip; a type lookup *)
Example C04_example :
  let d := repeat 7 (N.to_nat 9000) in
  client_read PGopherPlus (serve_doc PGopherPlus Stored (Some (lit "text/plain")) (entry_size Stored d) None d)
    = Some ([lit "+9000"], d) /\
  List.length (chunks BLOCK d) = 3%nat /\
  meta_ok (Some (lit "text/plain")) (Some (lit "Thu, 01 Jan 1970 00:00:00 GMT")) /\
  of_wml (to_wml (lit "a <b>  " ++ [10; 10] ++ lit "c&d")) = Some [lit "a <b>"; []; lit "c&d"] /\
  guess_type [(lit ".tgz", lit ".tar.gz")] [(lit ".gz", lit "gzip")] [(lit ".tar", lit "application/x-tar")] []
             (lit "/x/y.TGZ") = (Some (lit "application/x-tar"), Some (lit "gzip")).
Proof. vm_compute. repeat split; reflexivity. Qed.
